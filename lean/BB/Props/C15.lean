/-
  BB.Props.C15 — "A faulty source line is reported as an assembler error naming that file and line."

  The model: every pass returns `Except Err …`; `Err.asm line` is `AssemblerError(message, line)`
  with `line : Line` = (file, 1-based number, contents); `Err.internal T` is a raw Python exception of
  type `T` escaping.  What is proved here, about the model (tied to /repo by the correspondence of
  harness/props/c15.py):

  * `lines_preserved`, `error_line_is_source_line` — every pass keeps `Item.line` (also through a
    pseudo-instruction expansion and through compression), hence an AssemblerError raised anywhere in
    `assembleItems` names the `Line` of one of the parsed items;
  * `textHooks_lineOK`, `frontEnd_items_from_lines`, `assembleText_error_line` — the same through the
    text front end: the reported `Line` is one `read_lines` produced;
  * `readLines_numbered` — a `Line` `read_lines` produces (or reports) carries the path of the file it
    was read from (the main path, or the path the include search returned), its 1-based index
    among that file's `splitlines()`, and THAT line's text as contents (`LineOfFile`; the raw text
    exactly for every error `read_lines` raises itself, `RawLineOfFile`; an include_bytes line is
    carried in the rewritten form asm.py gives it, `ContentsOf`);
  * one theorem per listed fault class, for the simplest shape (`*_reported`).
-/
import BB.Lemmas.ErrAssemble
import BB.Lemmas.ErrClasses
namespace BB.Props.C15
open BB BB.Lemmas

/-! ## every pass keeps the line -/

/-- **Each output item's line is the line of some input item, for every pass** (up to duplication —
    a two-instruction expansion — and removal — labels, constants, satisfied aligns). -/
theorem lines_preserved (H : Hooks) (hH : HooksLineOK H) (constants labels : Dict) (c : Bool) (p : Int)
    (defined : List String) (inp : List Item) :
    (∀ out k, resolveConstants H inp constants = .ok (out, k) → LinesSub out inp) ∧
    (∀ out l, resolveLabelsAux inp p labels defined = .ok (out, l) → LinesSub out inp) ∧
    linesOf (resolveRegisterAliases inp constants) = linesOf inp ∧
    (∀ out l, walk (compressBody H constants) inp p labels = .ok (out, l) → LinesSub out inp) ∧
    (∀ out l, maybeCompress H c inp constants labels = .ok (out, l) → LinesSub out inp) ∧
    (∀ out l, walk (pseudoBody H constants) inp p labels = .ok (out, l) → LinesSub out inp) ∧
    (∀ out l, walk alignBody inp p labels = .ok (out, l) → LinesSub out inp) ∧
    (∀ out l, walk (immBody H constants) inp p labels = .ok (out, l) → LinesSub out inp) ∧
    (∀ out, resolveInstructions inp = .ok out → linesOf out = linesOf inp) ∧
    linesOf (resolveStrings inp) = linesOf inp ∧
    (∀ out, resolveSequences inp = .ok out → linesOf out = linesOf inp) ∧
    (∀ out, transformShorthandPacks inp = .ok out → linesOf out = linesOf inp) ∧
    (∀ out, resolvePacks inp = .ok out → linesOf out = linesOf inp) ∧
    (∀ out, resolveIncludeBytes H inp = .ok out → linesOf out = linesOf inp) :=
  ⟨fun out k h => (resolveConstants_lines H inp constants).1 (out, k) h,
   fun out l h => (resolveLabelsAux_lines inp p labels defined).1 (out, l) h,
   resolveRegisterAliases_lines inp constants,
   (walk_lines (compressBody_bodyLine H constants) inp p labels).1,
   fun out l h => (maybeCompress_passLines H c inp constants labels).1 (out, l) h,
   (walk_lines (pseudoBody_bodyLine hH constants) inp p labels).1,
   (walk_lines alignBody_bodyLine inp p labels).1,
   (walk_lines (immBody_bodyLine H constants) inp p labels).1,
   (mapM_lines instrStep_stepLine inp).1,
   resolveStrings_lines inp,
   (mapM_lines seqStep_stepLine inp).1,
   (mapM_lines shorthandStep_stepLine inp).1,
   (mapM_lines packStep_stepLine inp).1,
   (mapM_lines (includeBytesStep_stepLine H) inp).1⟩

/-- **An AssemblerError raised anywhere in the pipeline names the line of one of the items.**
    `assembleItems` is everything `assemble()` does after parsing; `HooksLineOK H` is the only
    assumption about the hooks (`parse_immediate` raises AssemblerError only with the line it was
    handed; proved for the real text hooks in `textHooks_lineOK`). -/
theorem error_line_is_source_line {H : Hooks} (hH : HooksLineOK H) (c : Bool) (items : List Item)
    (constants labels : Dict) (ln : Line)
    (h : assembleItems H c items constants labels = .error (.asm ln)) :
    ln ∈ items.map Item.line := by
  show ln ∈ linesOf items
  unfold assembleItems at h
  -- stage 1: resolve_constants
  obtain ⟨a1, b1⟩ := resolveConstants_lines H items constants
  cases h1 : resolveConstants H items constants with
  | error e => simp only [h1, bind, Except.bind, Except.error.injEq] at h; subst h; exact b1 ln h1
  | ok r1 =>
  obtain ⟨i1, k1⟩ := r1
  have s1 : LinesSub i1 items := a1 _ h1
  simp only [h1, bind, Except.bind] at h
  -- stage 2: resolve_labels
  obtain ⟨a2, b2⟩ := resolveLabelsAux_lines i1 0 labels []
  cases h2 : resolveLabels i1 labels with
  | error e => simp only [h2, Except.error.injEq] at h; subst h; exact s1.line_mem (b2 ln h2)
  | ok r2 =>
  obtain ⟨i2, l2⟩ := r2
  have s2 : LinesSub i2 items := (a2 _ h2).trans s1
  simp only [h2] at h
  -- stage 3: resolve_register_aliases
  have s3 : LinesSub (resolveRegisterAliases i2 k1) items :=
    (linesSub_of_linesOf_eq (resolveRegisterAliases_lines i2 k1)).trans s2
  generalize resolveRegisterAliases i2 k1 = i3 at h s3
  -- stage 4: transform_compressible (if -c)
  obtain ⟨a4, b4⟩ := maybeCompress_passLines H c i3 k1 l2
  cases h4 : maybeCompress H c i3 k1 l2 with
  | error e => simp only [h4, Except.error.injEq] at h; subst h; exact s3.line_mem (b4 ln h4)
  | ok r4 =>
  obtain ⟨i4, l4⟩ := r4
  have s4 : LinesSub i4 items := (a4 _ h4).trans s3
  simp only [h4] at h
  -- stage 5: transform_pseudo_instructions
  obtain ⟨a5, b5⟩ := walk_passLines (pseudoBody_bodyLine hH k1) i4 0 l4
  cases h5 : transformPseudo H i4 k1 l4 with
  | error e => simp only [h5, Except.error.injEq] at h; subst h; exact s4.line_mem (b5 ln h5)
  | ok r5 =>
  obtain ⟨i5, l5⟩ := r5
  have s5 : LinesSub i5 items := (a5 _ h5).trans s4
  simp only [h5] at h
  -- stage 6: resolve_register_aliases again
  have s6 : LinesSub (resolveRegisterAliases i5 k1) items :=
    (linesSub_of_linesOf_eq (resolveRegisterAliases_lines i5 k1)).trans s5
  generalize resolveRegisterAliases i5 k1 = i6 at h s6
  -- stage 7: transform_compressible again
  obtain ⟨a7, b7⟩ := maybeCompress_passLines H c i6 k1 l5
  cases h7 : maybeCompress H c i6 k1 l5 with
  | error e => simp only [h7, Except.error.injEq] at h; subst h; exact s6.line_mem (b7 ln h7)
  | ok r7 =>
  obtain ⟨i7, l7⟩ := r7
  have s7 : LinesSub i7 items := (a7 _ h7).trans s6
  simp only [h7] at h
  -- stage 8: resolve_aligns
  obtain ⟨a8, b8⟩ := walk_passLines alignBody_bodyLine i7 0 l7
  cases h8 : resolveAligns i7 l7 with
  | error e => simp only [h8, Except.error.injEq] at h; subst h; exact s7.line_mem (b8 ln h8)
  | ok r8 =>
  obtain ⟨i8, l8⟩ := r8
  have s8 : LinesSub i8 items := (a8 _ h8).trans s7
  simp only [h8] at h
  -- stage 9: resolve_immediates
  obtain ⟨a9, b9⟩ := walk_passLines (immBody_bodyLine H k1) i8 0 l8
  cases h9 : walk (immBody H k1) i8 0 l8 with
  | error e =>
    simp only [resolveImmediates, h9, bind, Except.bind, Except.error.injEq] at h
    subst h; exact s8.line_mem (b9 ln h9)
  | ok r9 =>
  obtain ⟨i9, l9⟩ := r9
  have s9 : LinesSub i9 items := (a9 _ h9).trans s8
  simp only [resolveImmediates, h9, bind, Except.bind, pure, Except.pure] at h
  -- stage 10: resolve_instructions
  obtain ⟨a10, b10⟩ := mapM_passLines instrStep_stepLine i9
  cases h10 : resolveInstructions i9 with
  | error e => simp only [h10, Except.error.injEq] at h; subst h; exact s9.line_mem (b10 ln h10)
  | ok i10 =>
  have s10 : LinesSub i10 items := (a10 _ h10).trans s9
  simp only [h10] at h
  -- stage 11: resolve_strings
  have s11 : LinesSub (resolveStrings i10) items :=
    (linesSub_of_linesOf_eq (resolveStrings_lines i10)).trans s10
  generalize resolveStrings i10 = i11 at h s11
  -- stage 12: resolve_sequences
  obtain ⟨a12, b12⟩ := mapM_passLines seqStep_stepLine i11
  cases h12 : resolveSequences i11 with
  | error e => simp only [h12, Except.error.injEq] at h; subst h; exact s11.line_mem (b12 ln h12)
  | ok i12 =>
  have s12 : LinesSub i12 items := (a12 _ h12).trans s11
  simp only [h12] at h
  -- stage 13: transform_shorthand_packs
  obtain ⟨a13, b13⟩ := mapM_passLines shorthandStep_stepLine i12
  cases h13 : transformShorthandPacks i12 with
  | error e => simp only [h13, Except.error.injEq] at h; subst h; exact s12.line_mem (b13 ln h13)
  | ok i13 =>
  have s13 : LinesSub i13 items := (a13 _ h13).trans s12
  simp only [h13] at h
  -- stage 14: resolve_packs
  obtain ⟨a14, b14⟩ := mapM_passLines packStep_stepLine i13
  cases h14 : resolvePacks i13 with
  | error e => simp only [h14, Except.error.injEq] at h; subst h; exact s13.line_mem (b14 ln h14)
  | ok i14 =>
  have s14 : LinesSub i14 items := (a14 _ h14).trans s13
  simp only [h14] at h
  -- stage 15: resolve_include_bytes
  obtain ⟨a15, b15⟩ := mapM_passLines (includeBytesStep_stepLine H) i14
  cases h15 : resolveIncludeBytes H i14 with
  | error e => simp only [h15, Except.error.injEq] at h; subst h; exact s14.line_mem (b15 ln h15)
  | ok i15 =>
  simp only [h15] at h
  -- stage 16: resolve_blobs raises no AssemblerError
  cases h16 : resolveBlobs i15 with
  | error e => simp only [h16, Except.error.injEq] at h; subst h; exact absurd h16 (resolveBlobs_no_asm i15 ln)
  | ok bs => simp [h16] at h

/-! ## through the text front end -/

/-- the real `parse_immediate` raises AssemblerError only with the line it was handed: the hypothesis
    of `error_line_is_source_line` holds for the hooks `assembleText` uses -/
theorem textHooks_lineOK (fs : FS) : HooksLineOK (textHooks fs) := Lemmas.textHooks_lineOK fs

/-- every parsed item carries a `Line` that `read_lines` produced -/
theorem frontEnd_items_from_lines (fs : FS) (cwd : String) (includeDirs : List String) (input : Input)
    (items : List Item) (h : frontEnd fs cwd includeDirs input = .ok items) :
    ∃ lines, readInput fs cwd includeDirs input = .ok lines ∧ ∀ it ∈ items, it.line ∈ lines := by
  rw [frontEnd_eq] at h
  cases hr : readInput fs cwd includeDirs input with
  | error e => simp [hr, bind, Except.bind] at h
  | ok lines =>
    simp only [hr, bind, Except.bind] at h
    exact ⟨lines, rfl, (lexParse_lines lines).1 items h⟩

/-- **An AssemblerError of `assemble()` names a line that `read_lines` read** — or it is
    `read_lines`' own error (missing include file, malformed include line), whose line
    `readLines_numbered` covers as well. -/
theorem assembleText_error_line (fs : FS) (cwd : String) (includeDirs : List String) (compress : Bool)
    (input : Input) (ln : Line)
    (h : assembleText fs cwd includeDirs compress input = .error (.asm ln)) :
    readInput fs cwd includeDirs input = .error (.asm ln) ∨
    ∃ lines, readInput fs cwd includeDirs input = .ok lines ∧ ln ∈ lines := by
  unfold assembleText at h
  rw [frontEnd_eq] at h
  cases hr : readInput fs cwd includeDirs input with
  | error e =>
    simp only [hr, bind, Except.bind, Except.error.injEq] at h
    subst h; exact Or.inl rfl
  | ok lines =>
    refine Or.inr ⟨lines, rfl, ?_⟩
    simp only [hr, bind, Except.bind] at h
    obtain ⟨p1, p2⟩ := lexParse_lines lines
    cases hp : lexParse lines with
    | error e =>
      simp only [hp, Except.error.injEq] at h
      subst h; exact p2 ln hp
    | ok items =>
      simp only [hp] at h
      have := error_line_is_source_line (textHooks_lineOK fs) compress items [] [] ln h
      simp only [List.mem_map] at this
      obtain ⟨it, hit, rfl⟩ := this
      exact p1 items hp it hit

/-- **Lines are numbered per file, 1-based, and carry their own text, at every include depth**: a
    `Line` that `read_lines` produces has `file` = the path the text was read from (the path given,
    or the path the include search returned for an included file, which is a file of the
    filesystem), `number` = 1 + the index of a line `raw` of that text's `splitlines()`, and
    `contents` = the text of THAT line (`LineOfFile`: `(splitLines src)[l.number - 1] = raw` and
    `l.contents = raw`, or — `raw` being an include_bytes line — `<its keyword> <path of a readable
    file> <that file's size>`, as asm.py rewrites it).  The `Line` of an AssemblerError that
    `read_lines` raises itself (missing include file, malformed include line) has exactly the raw
    text: `(splitLines src)[ln.number - 1] = ln.contents` (`RawLineOfFile`). -/
theorem readLines_numbered (fs : FS) (dirs : List String) (fuel : Nat) (path base : String) (src : List Char) :
    (∀ ls, readLinesAux fs dirs fuel path base src = .ok ls → ∀ l ∈ ls, LineOfFile fs path src l ∨ FromFS fs l) ∧
    (∀ ln, readLinesAux fs dirs fuel path base src = .error (.asm ln) → RawLineOfFile path src ln ∨ RawFromFS fs ln) :=
  readLinesAux_numbered fs dirs fuel path base src

/-- what `LineOfFile` pins down: the line `l.number` of the text exists, and unless it is an
    include_bytes line the contents are its text, character for character -/
theorem lineOfFile_contents {fs : FS} {path : String} {src : List Char} {l : Line}
    (h : LineOfFile fs path src l) :
    l.file = path ∧ 1 ≤ l.number ∧ ∃ raw, (splitLines src)[l.number - 1]? = some raw ∧
      (("include_bytes ".toList).isPrefixOf (lowerL raw) = false → l.contents = String.ofList raw) := by
  obtain ⟨h1, raw, h2, h3, h4⟩ := h
  refine ⟨h1, h2, raw, h3, ?_⟩
  intro hn
  rcases h4 with h4 | ⟨_, _, _, _, hib, _⟩
  · exact h4
  · rw [hn] at hib; cases hib

/-- a reader that numbered every line 1, or attached another line's text, does not satisfy it
    (the review's two witnesses against the old definition) -/
example : ¬ LineOfFile ⟨[], []⟩ "/f" "a\nb\n".toList ⟨"/f", 1, "b"⟩ := by
  intro h
  obtain ⟨_, _, raw, h1, h2⟩ := lineOfFile_contents h
  have : raw = "a".toList := by
    have e : (splitLines "a\nb\n".toList)[(1 : Nat) - 1]? = some "a".toList := by decide
    exact Option.some.inj (h1.symm.trans e)
  subst this
  exact absurd (h2 (by decide)) (by decide)

example : ¬ LineOfFile ⟨[], []⟩ "/f" "a\nb\n".toList ⟨"/f", 2, "completely different"⟩ := by
  intro h
  obtain ⟨_, _, raw, h1, h2⟩ := lineOfFile_contents h
  have : raw = "b".toList := by
    have e : (splitLines "a\nb\n".toList)[(2 : Nat) - 1]? = some "b".toList := by decide
    exact Option.some.inj (h1.symm.trans e)
  subst this
  exact absurd (h2 (by decide)) (by decide)

/-- the two together, for a program given as a path: **the reported line is a line of a file of the
    tree, with that file's path, its 1-based number in that file, and its text** (`FromFS`: some
    readable ASCII file `p` of `fs` with text `src` has `LineOfFile fs p src ln`).  Errors come out of
    `read_lines` (raw text) or out of a later pass, which reports the `Line` of an item, i.e. one
    `read_lines` produced. -/
theorem assembleText_path_error_numbered (fs : FS) (cwd : String) (includeDirs : List String)
    (compress : Bool) (p : String) (ln : Line)
    (h : assembleText fs cwd includeDirs compress (.path p) = .error (.asm ln)) : FromFS fs ln := by
  have key : ∀ r : Except Err (List Line), readInput fs cwd includeDirs (.path p) = r →
      ReadOK r (FromFS fs) (RawFromFS fs) := by
    intro r hr
    unfold readInput at hr
    split at hr
    · subst hr; exact ReadOK.unsupported
    · split at hr
      · subst hr; exact ReadOK.unsupported
      · dsimp only at hr
        split at hr
        · subst hr; exact ReadOK.unsupported
        · split at hr
          · subst hr; exact ReadOK.unsupported
          · split at hr
            · subst hr; exact ReadOK.unsupported
            · subst hr
              refine (readLinesAux_numbered fs includeDirs (fs.files.length + 2) p (baseOf p) _).mono ?_ ?_
              · intro l hl
                rcases hl with hq | hq
                · exact ⟨p, _, _, by assumption, by assumption, hq⟩
                · exact hq
              · intro l hl
                rcases hl with hq | hq
                · exact ⟨p, _, _, by assumption, by assumption, hq⟩
                · exact hq
  obtain ⟨k1, k2⟩ := key _ rfl
  rcases assembleText_error_line fs cwd includeDirs compress (.path p) ln h with hq | ⟨lines, hq, hm⟩
  · exact (k2 ln hq).fromFS
  · exact k1 lines hq ln hm

/-! ## one theorem per fault class (simplest shape) -/

/-! ### (1) operand out of range -/

/-- a `ValueError` of the encoder becomes an AssemblerError carrying the instruction's line -/
theorem out_of_range_reported (line : Line) (ins : Instr) (args : List Arg) (h1 : ins.args = some args)
    (h2 : encode ins.name args = .error .value) :
    encodeInstr line ins = .error (.asm line) ∧ instrStep (.instr line ins) = .error (.asm line) := by
  have h : encodeInstr line ins = .error (.asm line) := by simp [encodeInstr, h1, h2]
  exact ⟨h, by simp [instrStep, h, bind, Except.bind]⟩

/-- … and it is the error of `resolve_instructions` when everything before it encodes -/
theorem out_of_range_reported_pass (pre post : List Item) (line : Line) (ins : Instr) (args : List Arg)
    (h1 : ins.args = some args) (h2 : encode ins.name args = .error .value)
    (hpre : ∀ x ∈ pre, ∃ x', instrStep x = .ok x') :
    resolveInstructions (pre ++ .instr line ins :: post) = .error (.asm line) :=
  mapM_first_error pre _ post _ hpre (out_of_range_reported line ins args h1 h2).2

/-- a data value that does not fit its directive (`struct.error`) is reported on the directive's line -/
theorem data_misfit_reported (line : Line) (fmt : String) (v : Int) (h : packFmt fmt v = .ok none) :
    packStep (.pack line fmt (.value v)) = .error (.asm line) := by
  simp [packStep, h, bind, Except.bind]

/-- `addi x5, x6, 2048` at line 3 of main.asm -/
example : instrStep (.instr ⟨"main.asm", 3, "addi x5, x6, 2048"⟩
    (.i "addi" (.str "x5") (.str "x6") (.value 2048) false)) = .error (.asm ⟨"main.asm", 3, "addi x5, x6, 2048"⟩) := by
  decide

/-- `db 256`, as `transform_shorthand_packs` hands it to `resolve_packs` -/
example : packStep (.pack ⟨"main.asm", 7, "db 256"⟩ "<B" (.value 256)) = .error (.asm ⟨"main.asm", 7, "db 256"⟩) := by
  decide

/-! ### (2) unknown register -/

/-- in a compression predicate (fix 5ef9935) -/
theorem unknown_register_reported (line : Line) (ins : Instr) (f : Fld) (r : RegOp)
    (h1 : ins.fld f = some r) (h2 : lookupRegister r = none) : regOf line ins f = .error (.asm line) := by
  simp [regOf, h1, h2]

/-- `add q1, x1, x2`: in the encoder … -/
example : encodeInstr ⟨"main.asm", 2, "add q1, x1, x2"⟩ (.r "add" (.str "q1") (.str "x1") (.str "x2")) =
    .error (.asm ⟨"main.asm", 2, "add q1, x1, x2"⟩) := by decide

/-- … and `addi q1, x1, 0` with compression on, in `transform_compressible` -/
example : compressBody (textHooks ⟨[], []⟩) [] (.instr ⟨"main.asm", 2, "addi q1, x1, 0"⟩
    (.i "addi" (.str "q1") (.str "x1") (.arith "0") false)) 4 [] = .error (.asm ⟨"main.asm", 2, "addi q1, x1, 0"⟩) := by
  decide

/-- `li x99, 5`: the error surfaces in the expanded instruction and still carries the `li` line -/
example : assembleItems (textHooks ⟨[], []⟩) false
    [.instr ⟨"m.asm", 1, "nop"⟩ (.i "addi" (.str "x0") (.str "x0") (.arith "0") false),
     .pseudo ⟨"m.asm", 2, "li x99, 5"⟩ "li" ["x99", "5"]] [] [] = .error (.asm ⟨"m.asm", 2, "li x99, 5"⟩) := by
  decide

/-! ### (3) undefined label -/

/-- `%offset(ref)` / `%position(ref, …)` of a name that is neither a label nor a constant -/
theorem undefined_label_eval (H : Hooks) (env : String → Option Int) (line : Line) (ref e : String) (p : Int)
    (h : env ref = none) :
    Imm.eval H env line (.offset ref) p = .error (.asm line) ∧
    Imm.eval H env line (.position ref e) p = .error (.asm line) := by
  simp [Imm.eval, h]

/-- full statement: a branch / jump to a name that is neither a label nor a constant, every other item
    assembling fine, is THE result of `assembleItems` — kept as a statement; proved below for the pass
    that detects it without `-c` (`resolve_immediates`) given that the loop reaches the item -/
def undefined_label_reported : Prop :=
  ∀ (H : Hooks) (c : Bool) (pre post : List Item) (line : Line) (name ref : String) (rs1 rs2 : RegOp)
    (r : AsmResult),
    HooksLineOK H →
    ref ∉ labelsIn (pre ++ post) →
    (∀ it ∈ pre ++ post, ∀ l n e, it = .constant l n e → n ≠ ref) →
    assembleItems H c (pre ++ .instr line (.b name rs1 rs2 (.arith "0")) :: post) [] [] = .ok r →
    assembleItems H c (pre ++ .instr line (.b name rs1 rs2 (.offset ref)) :: post) [] [] = .error (.asm line)

theorem undefined_label_reported_partial (H : Hooks) (constants labels : Dict) (pre post out : List Item)
    (l : Dict) (line : Line) (ins : Instr) (ref : String)
    (himm : ins.imm? = some (.offset ref))
    (hpre : walk (immBody H constants) pre 0 labels = .ok (out, l))
    (href : chainGet constants l ref = none) :
    resolveImmediates H (pre ++ .instr line ins :: post) constants labels = .error (.asm line) := by
  have hw := walk_first_error (f := immBody H constants) (.instr line ins) (by intro _ _ h; cases h) post
    (.asm line) pre 0 labels out l hpre (by
      intro p'
      simp [immBody, himm, Imm.eval, href, bind, Except.bind])
  simp [resolveImmediates, hw, bind, Except.bind]

/-- `nop / beq x5, x6, nowhere` -/
example : assembleItems (textHooks ⟨[], []⟩) false
    [.instr ⟨"m.asm", 1, "nop"⟩ (.i "addi" (.str "x0") (.str "x0") (.arith "0") false),
     .instr ⟨"m.asm", 2, "beq x5, x6, nowhere"⟩ (.b "beq" (.str "x5") (.str "x6") (.offset "nowhere"))] [] [] =
    .error (.asm ⟨"m.asm", 2, "beq x5, x6, nowhere"⟩) := by decide

/-- `call nowhere` with compression on: found while expanding the pseudo-instruction -/
example : assembleItems (textHooks ⟨[], []⟩) true
    [.label ⟨"m.asm", 1, "start:"⟩ "start",
     .pseudo ⟨"inc/lib.asm", 9, "call nowhere"⟩ "call" ["nowhere"]] [] [] =
    .error (.asm ⟨"inc/lib.asm", 9, "call nowhere"⟩) := by decide

/-! ### (4) undefined constant, (5) malformed / non-integer expression -/

/-- whatever makes the arithmetic evaluation fail (`SyntaxError`, unknown name, a non-int result, …:
    `ExprErr.error`) is reported on the line of the item whose immediate it is -/
theorem bad_expression_reported (H : Hooks) (env : String → Option Int) (line : Line) (e : String) (p : Int)
    (h : H.arith e env = .error .error) : Imm.eval H env line (.arith e) p = .error (.asm line) := by
  simp [Imm.eval, h, liftExpr]

/-- the same in a constant definition: `K = UNDEFINED * 2` -/
theorem bad_constant_reported (H : Hooks) (line : Line) (name e : String) (rest : List Item) (constants : Dict)
    (h1 : (registersStrKeys.lookup name).isSome = false) (h2 : isInt name.toList = false)
    (h : H.arith e (fun k => match constants.get k with | some v => some v | none => registersEnv k) = .error .error) :
    resolveConstants H (.constant line name (.arith e) :: rest) constants = .error (.asm line) := by
  have hl : liftExpr line (H.arith e (fun k => match constants.get k with | some v => some v | none => registersEnv k)) =
      .error (.asm line) := by rw [h]; rfl
  have key : ∀ r : Except Err Int, r = .error (.asm line) →
      (r >>= fun v => resolveConstants H rest (constants.set name v)) = .error (.asm line) := by
    intro r hr; subst hr; rfl
  simp only [resolveConstants, h1, h2, Bool.false_eq_true, ↓reduceIte]
  exact key _ hl

example : evalArith "F + 1" (fun _ => none) = .error .error := by decide
example : evalArith "1 +" (fun _ => none) = .error .error := by decide
example : evalArith "( 3" (fun _ => none) = .error .error := by decide
example : evalArith "3 4" (fun _ => none) = .error .error := by decide
example : evalArith "0x" (fun _ => none) = .error .error := by decide
example : evalArith "1__0" (fun _ => none) = .error .error := by decide
example : evalArith "7 / 7" (fun _ => none) = .error .error := by decide
example : evalArith "'ab'" (fun _ => none) = .error .error := by decide

/-- `K = U * 2` at line 4 (no constant of that name, and it is not a register) -/
example : resolveConstants (textHooks ⟨[], []⟩)
    [.constant ⟨"m.asm", 4, "K = U * 2"⟩ "K" (.arith "U * 2"),
     .instr ⟨"m.asm", 5, "nop"⟩ (.i "addi" (.str "x0") (.str "x0") (.arith "0") false)] [] =
    .error (.asm ⟨"m.asm", 4, "K = U * 2"⟩) :=
  bad_constant_reported (textHooks ⟨[], []⟩) ⟨"m.asm", 4, "K = U * 2"⟩ "K" "U * 2"
    [.instr ⟨"m.asm", 5, "nop"⟩ (.i "addi" (.str "x0") (.str "x0") (.arith "0") false)] []
    (by decide) (by decide)
    (by decide)

/-! ### (6) duplicate label -/

/-- **The second definition of a label is reported on ITS line**, whatever stands before, between
    and after the two definitions (items with sizes; their other labels pairwise different). -/
theorem duplicate_label_reported (pre mid post : List Item) (l1 l2 : Line) (nm : String) (labels : Dict)
    (hsz : ∀ it ∈ pre ++ mid, ∃ v, it.sizeE = .ok v)
    (hnd : (labelsIn (pre ++ mid)).Nodup) (hnm : nm ∉ labelsIn (pre ++ mid)) :
    resolveLabels (pre ++ .label l1 nm :: (mid ++ .label l2 nm :: post)) labels = .error (.asm l2) := by
  unfold resolveLabels
  have e : pre ++ .label l1 nm :: (mid ++ .label l2 nm :: post) =
      (pre ++ .label l1 nm :: mid) ++ (.label l2 nm :: post) := by simp
  rw [e]
  simp only [labelsIn_append, List.nodup_append, List.mem_append, not_or] at hnd hnm
  apply resolveLabelsAux_prefix_error
  · intro it hit
    simp only [List.mem_append, List.mem_cons] at hit
    rcases hit with hit | rfl | hit
    · exact hsz it (List.mem_append.mpr (Or.inl hit))
    · exact ⟨0, rfl⟩
    · exact hsz it (List.mem_append.mpr (Or.inr hit))
  · simp only [labelsIn_append, labelsIn, List.nodup_append, List.nodup_cons, List.mem_cons]
    refine ⟨hnd.1, ⟨hnm.2, hnd.2.1⟩, ?_⟩
    intro a ha b hb
    rcases hb with rfl | hb
    · intro h; subst h; exact hnm.1 ha
    · exact hnd.2.2 a ha b hb
  · intro n _ h; cases h
  · intro p' labels' defined' hdef
    have hmem : nm ∈ defined' := by
      rw [hdef nm]
      left
      simp [labelsIn_append, labelsIn]
    have : defined'.contains nm = true := by simpa using hmem
    simp only [resolveLabelsAux, this, ↓reduceIte]

example : resolveLabels
    [.label ⟨"m.asm", 1, "L0:"⟩ "L0", .align ⟨"m.asm", 2, "align 4"⟩ 4,
     .label ⟨"inc.asm", 5, "L0:"⟩ "L0", .label ⟨"m.asm", 4, "L1:"⟩ "L1"] [] =
    .error (.asm ⟨"inc.asm", 5, "L0:"⟩) := by decide

/-! ### (7) the `error` directive -/

theorem error_directive_reported (line : Line) (message : String) :
    parseItem line ["error", message] = .error (.asm line) := by
  have h : isAsciiS "error" = true := by decide
  simp [parseItem, parseItemHead, h, lowerS]

example : lexTokens "    error halt: unsupported board".toList = .ok ["error", "halt: unsupported board"] := by
  decide

/-! ### (8) missing include file -/

/-- reported on the include line, with that file's path and the line's 1-based number; lines before it
    are anything but include / include_bytes lines -/
theorem missing_include_reported (fs : FS) (dirs : List String) (fuel : Nat) (path base : String)
    (src : List Char) (pre : List (List Char)) (raw : List Char) (post : List (List Char))
    (hsplit : splitLines src = pre ++ raw :: post) (hpre : ∀ r ∈ pre, PlainLine r)
    (hraw : MissingInclude fs (dirs ++ [base]) raw) :
    readLinesAux fs dirs (fuel + 1) path base src =
      .error (.asm { file := path, number := pre.length + 1, contents := String.ofList raw }) :=
  readLinesAux_missing_include fs dirs fuel path base src pre raw post hsplit hpre hraw

/-- `nop / (blank) / include missing_file.asm / nop` in /p/inc/lib.asm: line 3 of that file -/
example :
    readLinesAux ⟨[], ["/", "/p", "/p/inc"]⟩ [] 3 "/p/inc/lib.asm" "/p/inc"
      "nop\n\ninclude missing_file.asm\nnop\n".toList =
    .error (.asm ⟨"/p/inc/lib.asm", 3, "include missing_file.asm"⟩) :=
  missing_include_reported _ [] 2 _ _ _ ["nop".toList, []] "include missing_file.asm".toList ["nop".toList]
    (by decide) (by intro r hr; simp only [List.mem_cons, List.not_mem_nil, or_false] at hr
                    rcases hr with rfl | rfl
                    · right; decide
                    · left; decide)
    ⟨by decide, by decide, "include".toList, "missing_file.asm".toList, by decide, by decide, by decide⟩

end BB.Props.C15
