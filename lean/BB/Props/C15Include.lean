/-
  BB.Props.C15Include — C15 for a fault inside an INCLUDED file: the error names THAT file and line.

  `C15Text` treats a source text without include lines.  Here:

  * `text_error_line_fs` — any `.source` text, include lines allowed, to any depth: whatever
    item-level theorem shows `assembleItems … items = .error (.asm ln)` for the items of the front
    end, the text-level run fails with that error and `ln` is a line of the main text or of a
    readable file of the filesystem — `ln.file` is that file's path as the include search built it,
    `ln.number` the 1-based index of a line of ITS text, `ln.contents` that line's text
    (`LineOfFile` / `FromFS`; an include_bytes line in its rewritten form).  `fault_reported_in_tree`
    is `fault_reported_at_its_line` through it.
  * `read_one_include`, `fault_reported_in_include` — one include line in a main text, the included
    file `f` plain: the lines read are exactly main's lines before the include (file `<string>`),
    then f's lines numbered 1, 2, … with file = the path the search produced, then main's remaining
    lines; a faulty item whose line carries f's path is reported with `ln.file` = that path,
    `ln.number = n` and `ln.contents` = line n of f's text, verbatim (`RawLineOfFile`).
  * one fully evaluated instance, both modes: main = `start:` / `include sub/f.asm` / `end:`,
    /r/sub/f.asm = `nop` / `addi x5, x6, 2048`: the AssemblerError names /r/sub/f.asm, line 2,
    `addi x5, x6, 2048`.
-/
import BB.Props.C15Text
import BB.Props.C14
namespace BB.Props.C15
open BB BB.Lemmas

/-! ## any text, includes to any depth -/

/-- **From an item-level error to the text, with includes.**  The reported line is a line of the
    main text or of a file of the filesystem, with that file's path, its number there and its text. -/
theorem text_error_line_fs (fs : FS) (cwd : String) (dirs : List String) (c : Bool) (A : String)
    (items : List Item) (ln : Line)
    (hcwd : normAbs cwd = true) (hdirs : dirs.all absOk = true)
    (hascii : A.toList.all (fun ch => ch.toNat < 128) = true)
    (hfe : frontEnd fs cwd dirs (.source A) = .ok items)
    (hasm : assembleItems (textHooks fs) c items [] [] = .error (.asm ln)) :
    assembleText fs cwd dirs c (.source A) = .error (.asm ln) ∧
      (LineOfFile fs "<string>" A.toList ln ∨ FromFS fs ln) := by
  refine ⟨by simp only [assembleText, hfe, bind, Except.bind]; exact hasm, ?_⟩
  have hmem := error_line_is_source_line (textHooks_lineOK fs) c items [] [] ln hasm
  obtain ⟨it, hit, rfl⟩ := List.mem_map.mp hmem
  obtain ⟨lines, hr, hl⟩ := frontEnd_items_from_lines fs cwd dirs (.source A) items hfe
  have hread : readInput fs cwd dirs (.source A) =
      readLinesAux fs dirs (fs.files.length + 2) "<string>" cwd A.toList := by
    unfold readInput
    simp only [hcwd, hdirs, sourceOk_of_ascii _ hascii, Bool.not_true, Bool.false_eq_true, ↓reduceIte]
  rw [hread] at hr
  exact (readLinesAux_numbered fs dirs _ "<string>" cwd A.toList).1 lines hr _ (hl it hit)

/-- **A fault placed anywhere among good items — in the main text or in a file included at any
    depth — is reported at its own line, which is a line of that file.** -/
theorem fault_reported_in_tree {Q : Dict → Prop} (fs : FS) (cwd : String) (dirs : List String) (c : Bool)
    (A : String) (pre post : List Item) (x : Item)
    (hcwd : normAbs cwd = true) (hdirs : dirs.all absOk = true)
    (hascii : A.toList.all (fun ch => ch.toNat < 128) = true)
    (hfe : frontEnd fs cwd dirs (.source A) = .ok (pre ++ x :: post))
    (hpre : ∀ y ∈ pre, GoodItem (textHooks fs) c y) (hpost : ∀ y ∈ post, GoodItem (textHooks fs) c y)
    (hx : Dies Q (.asm x.line) (stages (textHooks fs) c) x)
    (hxc : ∀ l n e, x ≠ .constant l n e) (hxs : ∃ v, x.sizeE = .ok v)
    (hnd : (labelNames (pre ++ x :: post)).Nodup)
    (hQ : ∀ l p n, Q l → Q (l.shiftAbove p n))
    (hQ0 : ∀ l : Dict, (∀ k, k ∉ labelNames (pre ++ x :: post) → l.get k = none) → Q l) :
    assembleText fs cwd dirs c (.source A) = .error (.asm x.line) ∧
      (LineOfFile fs "<string>" A.toList x.line ∨ FromFS fs x.line) :=
  text_error_line_fs fs cwd dirs c A _ x.line hcwd hdirs hascii hfe
    (fault_reported_at_its_line pre post x x.line hpre hpost hx hxc hxs hnd hQ hQ0)

/-! ## one include line, the included file plain: the exact lines -/

/-- what `read_lines` returns for a text with ONE include line among plain lines, the included
    file being plain: main's lines before it, the file's lines (its path, numbered from 1), main's
    lines after it (numbered on from the include line) -/
theorem read_one_include (fs : FS) (dirs : List String) (fuel : Nat) (path base : String)
    (source : List Char) (pre post : List (List Char)) (raw : List Char)
    (rel incPath : String) (bs : List Nat) (src : List Char)
    (hsrc : splitLines source = pre ++ raw :: post)
    (hinc : IsIncludeLine raw rel) (hform : pathOk rel = true)
    (hlook : lookupPath fs rel (dirs ++ [base]) = some incPath) (hdir : fs.isDirAt incPath = false)
    (hread : fs.readAt incPath = some bs) (hascii : bytesToText bs = some src)
    (hpre : ∀ l ∈ pre, IsPlainLine l) (hpost : ∀ l ∈ post, IsPlainLine l)
    (hf : ∀ l ∈ splitLines src, IsPlainLine l) :
    readLinesAux fs dirs (fuel + 2) path base source =
      .ok (numberedLines path 1 pre ++ (numberedLines incPath 1 (splitLines src) ++
        numberedLines path (1 + pre.length + 1) post)) := by
  rw [C14.include_is_splice fs dirs (fuel + 1) path base source pre post raw rel incPath bs src
    hsrc hinc hform hlook hdir hread hascii]
  simp only [linesFrom]
  rw [go_plain_lines _ _ _ _ _ _ _ hpre, go_plain_lines _ _ _ _ _ _ _ hpost, readLinesAux.eq_2,
    go_plain_lines _ _ _ _ _ _ _ hf]
  rfl

/-- **A fault in an included file is reported with that file's path and its line there.**
    The main text `A` has one include line (`raw`, naming `rel`) among plain lines; the search
    (-i directories, then the working directory) finds `incPath`, a readable ASCII file whose text
    `src` is plain.  The front end yields `pre ++ x :: post` with `pre`, `post` good and `x` — an item
    whose line carries the file `incPath` — dying with the AssemblerError of its own line.  Then
    `assemble()` fails with `.asm ln`, `ln = x.line`, where `ln.file = incPath` (the absolute path
    the search produced), `ln.number = n` is a 1-based line number OF THAT FILE and `ln.contents`
    is the text of line n of that file, verbatim. -/
theorem fault_reported_in_include {Q : Dict → Prop} (fs : FS) (cwd : String) (dirs : List String) (c : Bool)
    (A : String) (lpre lpost : List (List Char)) (raw : List Char) (rel incPath : String) (bs : List Nat)
    (src : List Char) (pre post : List Item) (x : Item)
    (hcwd : normAbs cwd = true) (hdirs : dirs.all absOk = true)
    (hasciiA : A.toList.all (fun ch => ch.toNat < 128) = true)
    (hA : splitLines A.toList = lpre ++ raw :: lpost)
    (hinc : IsIncludeLine raw rel) (hform : pathOk rel = true)
    (hlook : lookupPath fs rel (dirs ++ [cwd]) = some incPath) (hdir : fs.isDirAt incPath = false)
    (hread : fs.readAt incPath = some bs) (hascii : bytesToText bs = some src)
    (hlpre : ∀ l ∈ lpre, IsPlainLine l) (hlpost : ∀ l ∈ lpost, IsPlainLine l)
    (hf : ∀ l ∈ splitLines src, IsPlainLine l)
    (hfe : frontEnd fs cwd dirs (.source A) = .ok (pre ++ x :: post))
    (hfile : x.line.file = incPath) (hne : incPath ≠ "<string>")
    (hpre : ∀ y ∈ pre, GoodItem (textHooks fs) c y) (hpost : ∀ y ∈ post, GoodItem (textHooks fs) c y)
    (hx : Dies Q (.asm x.line) (stages (textHooks fs) c) x)
    (hxc : ∀ l n e, x ≠ .constant l n e) (hxs : ∃ v, x.sizeE = .ok v)
    (hnd : (labelNames (pre ++ x :: post)).Nodup)
    (hQ : ∀ l p n, Q l → Q (l.shiftAbove p n))
    (hQ0 : ∀ l : Dict, (∀ k, k ∉ labelNames (pre ++ x :: post) → l.get k = none) → Q l) :
    assembleText fs cwd dirs c (.source A) = .error (.asm x.line) ∧
      x.line.file = incPath ∧ 1 ≤ x.line.number ∧
      (splitLines src)[x.line.number - 1]? = some x.line.contents.toList := by
  refine ⟨?_, hfile, ?_⟩
  · simp only [assembleText, hfe, bind, Except.bind]
    exact fault_reported_at_its_line pre post x x.line hpre hpost hx hxc hxs hnd hQ hQ0
  · rw [frontEnd_source fs cwd dirs A hcwd hdirs hasciiA,
      read_one_include fs dirs fs.files.length "<string>" cwd A.toList lpre lpost raw rel incPath bs src
        hA hinc hform hlook hdir hread hascii hlpre hlpost hf] at hfe
    have hmem := itemsOfLines_lines hfe x (by simp)
    simp only [List.mem_append] at hmem
    rcases hmem with h | h | h
    · exact absurd ((mem_numberedLines _ _ _ _ h).1.symm.trans hfile).symm hne
    · obtain ⟨_, h2, h3⟩ := mem_numberedLines _ _ _ _ h
      exact ⟨h2, h3⟩
    · exact absurd ((mem_numberedLines _ _ _ _ h).1.symm.trans hfile).symm hne

/-- the faulty instruction of `encoder_fault_reported` (operand out of range, unknown register), as
    an item that dies in every context -/
theorem dies_encoder_fault {H : Hooks} {c : Bool} (line : Line) (ins : Instr)
    (haj : ins.isAuipcJump = false)
    (himm : (ins.imm? = none ∧ encodeInstr line ins = .error (.asm line)) ∨
      ∃ imm v, ins.imm? = some imm ∧ LitImm H imm v ∧ encodeInstr line (ins.setImm (.value v)) = .error (.asm line))
    (hcmp : c = true → CompressKeepsFault H (fun _ => True) line ins) :
    Dies (fun _ => True) (.asm line) (stages H c) (.instr line ins) := by
  have href : Refused H (fun _ => True) line ins := by
    rcases himm with ⟨h, he⟩ | ⟨imm, v, h, hv, he⟩
    · exact refused_noimm h he
    · exact refused_lit h haj hv he
  have hlit : ins.imm? = none ∨ ∃ imm v, ins.imm? = some imm ∧ LitImm H imm v := by
    rcases himm with ⟨h, _⟩ | ⟨imm, v, h, hv, _⟩
    · exact Or.inl h
    · exact Or.inr ⟨imm, v, h, hv⟩
  exact dies_instr ⟨haj, href, fun hc p l _ => by rw [firstMatch_lit hlit]; exact hcmp hc⟩

/-! ## a fully evaluated instance -/

/-- /r/sub/f.asm holds `nop` / `addi x5, x6, 2048` -/
def incFS : FS :=
  { files := [("/r/sub/f.asm", "nop\naddi x5, x6, 2048\n".toList.map Char.toNat)], dirs := ["/", "/r", "/r/sub"] }

def incMain : String := "start:\ninclude sub/f.asm\nend:\n"
def incF : List Char := "nop\naddi x5, x6, 2048\n".toList

abbrev fl (n : Nat) (s : String) : Line := ⟨"/r/sub/f.asm", n, s⟩

def incPre : List Item := [.label (sl 1 "start:") "start", .pseudo (fl 1 "nop") "nop" []]
def incFault : Item := .instr (fl 2 "addi x5, x6, 2048") (.i "addi" (.str "x5") (.str "x6") (.arith "2048") false)
def incPost : List Item := [.label (sl 3 "end:") "end"]

theorem inc_abs : normAbs "/r" = true := by
  have h : ("/r".splitOn "/") = ["", "r"] := by
    simp [String.splitOn]
    repeat (rw [String.splitOnAux.eq_1]; simp (decide := true))
  unfold normAbs; simp only [h]; decide

theorem incF_lines : splitLines incF = ["nop".toList, "addi x5, x6, 2048".toList] := by decide

theorem incF_plain : ∀ l ∈ splitLines incF, IsPlainLine l := by
  rw [incF_lines]
  intro l hl
  simp only [List.mem_cons, List.not_mem_nil, or_false] at hl
  rcases hl with rfl | rfl <;> exact ⟨by decide, by decide⟩

/-- the front-end equation, produced from the splice (`read_one_include`) and then line by line -/
theorem incMain_frontEnd : frontEnd incFS "/r" [] (.source incMain) = .ok (incPre ++ incFault :: incPost) := by
  rw [frontEnd_source incFS "/r" [] incMain inc_abs (by decide) (by decide),
    read_one_include incFS [] incFS.files.length "<string>" "/r" incMain.toList ["start:".toList] ["end:".toList]
      "include sub/f.asm".toList "sub/f.asm" "/r/sub/f.asm" (incF.map Char.toNat) incF
      (by decide) ⟨by decide, "include".toList, "sub/f.asm".toList, by decide, by decide⟩ (by decide)
      (by decide) (by decide) (by decide) (by decide)
      (by intro l hl; simp only [List.mem_singleton] at hl; subst hl; exact ⟨by decide, by decide⟩)
      (by intro l hl; simp only [List.mem_singleton] at hl; subst hl; exact ⟨by decide, by decide⟩)
      incF_plain, incF_lines]
  show itemsOfLines [sl 1 "start:", fl 1 "nop", fl 2 "addi x5, x6, 2048", sl 3 "end:"] = _
  refine itemsOfLines_cons (toks := ["start:"]) (by decide) (by decide) (by decide) (by decide) ?_
  refine itemsOfLines_cons (toks := ["nop"]) (by decide) (by decide) (by decide) (by decide) ?_
  refine itemsOfLines_cons (toks := ["addi", "x5", "x6", "2048"]) (by decide) (by decide) (by decide) (by decide) ?_
  exact itemsOfLines_cons (toks := ["end:"]) (by decide) (by decide) (by decide) (by decide) itemsOfLines_nil

/-- `nop` on line 1 of f.asm expands to `addi x0, x0, 0` (with -c: c.nop), good in every context -/
theorem inc_good_nop (c : Bool) : GoodItem (textHooks incFS) c (.pseudo (fl 1 "nop") "nop" []) := by
  refine .pseudo _ _ _ (fun p l => ⟨[.i "addi" (.str "x0") (.str "x0") (.arith "0") false], false, rfl, ?_⟩)
  intro i hi
  simp only [List.mem_singleton] at hi
  subst hi
  refine goodInstr_of_canonical rfl ?_ ?_ ?_
  · exact resolves_lit (v := 0) (bs := [19, 0, 0, 0]) rfl rfl (litImm_dec _ "0" 0 (by decide) (by decide)) (by decide)
  · exact Or.inr ⟨_, 0, rfl, litImm_dec _ "0" 0 (by decide) (by decide)⟩
  · intro _
    refine Or.inr (Or.inr ⟨"c.nop", .cin "c.nop", by decide, by decide, rfl, ?_⟩)
    exact resolves_noimm (bs := [1, 0]) rfl (by decide)

/-- **C15 for an included file, evaluated**: main = `start:` / `include sub/f.asm` / `end:` read from
    /r, /r/sub/f.asm = `nop` / `addi x5, x6, 2048`.  With and without `-c`, `assemble()` fails with the
    AssemblerError that names the file /r/sub/f.asm (the path the include search produced), line 2
    of THAT file, with that line's text. -/
theorem fault_in_include_example (c : Bool) :
    assembleText incFS "/r" [] c (.source incMain) = .error (.asm (fl 2 "addi x5, x6, 2048")) ∧
    incFS.readAt "/r/sub/f.asm" = some (incF.map Char.toNat) ∧ bytesToText (incF.map Char.toNat) = some incF ∧
    (splitLines incF)[2 - 1]? = some "addi x5, x6, 2048".toList := by
  have h := fault_reported_in_include (Q := fun _ => True) incFS "/r" [] c incMain ["start:".toList] ["end:".toList]
    "include sub/f.asm".toList "sub/f.asm" "/r/sub/f.asm" (incF.map Char.toNat) incF incPre incPost incFault
    inc_abs (by decide) (by decide) (by decide)
    ⟨by decide, "include".toList, "sub/f.asm".toList, by decide, by decide⟩ (by decide)
    (by decide) (by decide) (by decide) (by decide)
    (by intro l hl; simp only [List.mem_singleton] at hl; subst hl; exact ⟨by decide, by decide⟩)
    (by intro l hl; simp only [List.mem_singleton] at hl; subst hl; exact ⟨by decide, by decide⟩)
    incF_plain incMain_frontEnd rfl (by decide)
    (by
      intro y hy
      simp only [incPre, List.mem_cons, List.not_mem_nil, or_false] at hy
      rcases hy with rfl | rfl
      · exact .label _ _
      · exact inc_good_nop c)
    (by
      intro y hy
      simp only [incPost, List.mem_singleton] at hy
      subst hy
      exact .label _ _)
    (dies_encoder_fault _ _ rfl
      (Or.inr ⟨_, 2048, rfl, litImm_dec _ "2048" 2048 (by decide) (by decide), by decide⟩)
      (fun _ => Or.inr (Or.inl (by decide))))
    (by intro _ _ _ h; cases h) (sized_of_isSome (by simp [incFault, Item.size?])) (by decide)
    (fun _ _ _ _ => trivial) (fun _ _ => trivial)
  exact ⟨h.1, by decide, by decide, h.2.2.2⟩

end BB.Props.C15
