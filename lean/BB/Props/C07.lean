/-
  BB.Props.C07 — %hi / %lo always split a value so that the consuming pair rebuilds it.
  Every theorem quantifies over ALL integers `v` (not 2^32 of them): negative and ≥ 2^31
  spellings included.
-/
import BB.Lemmas.HiLo
import BB.Lemmas.Enc32
namespace BB.Props.C07
open BB BB.Lemmas

/-- %hi(v) fits the 20-bit upper-immediate field (as a signed value) -/
theorem hi_range (v : Int) : -524288 ≤ relocateHi v ∧ relocateHi v ≤ 524287 := by
  rw [relocateHi_eq]; omega

/-- %lo(v) fits the signed 12-bit field -/
theorem lo_range (v : Int) : -2048 ≤ relocateLo v ∧ relocateLo v ≤ 2047 := by
  rw [relocateLo_eq]; omega

/-- (%hi(v) << 12) + %lo(v) = v  (mod 2^32) -/
theorem hi_lo_sum (v : Int) : (relocateHi v * 4096 + relocateLo v - v) % 4294967296 = 0 := by
  rw [relocateHi_eq, relocateLo_eq]; omega

/-- for values that fit 32 bits (signed or unsigned spelling) the sum is exact up to one wrap -/
theorem hi_lo_sum_exact (v : Int) (h : -2147483648 ≤ v ∧ v ≤ 4294967295) :
    relocateHi v * 4096 + relocateLo v = v ∨ relocateHi v * 4096 + relocateLo v = v - 4294967296 ∨
    relocateHi v * 4096 + relocateLo v = v + 4294967296 := by
  rw [relocateHi_eq, relocateLo_eq]; omega

/-- the U-type encoder (lui / auipc) accepts %hi(v) for every v and every register -/
theorem utype_accepts_hi (v : Int) (rd op : Nat) (hrd : rd < 32) (hop : op < 128) :
    ∃ w, uTypeN rd (relocateHi v) op = some w := by
  have h := hi_range v
  rw [uTypeN_eq _ _ _ hrd hop, if_neg (by omega)]
  exact ⟨_, rfl⟩

/-- the I-type encoder (addi, loads, jalr when even) accepts %lo(v) for every v -/
theorem itype_accepts_lo (v : Int) (rd rs1 op f3 : Nat) (hrd : rd < 32) (hrs1 : rs1 < 32)
    (hop : op < 128) (hf3 : f3 < 8) : ∃ w, iTypeN rd rs1 (relocateLo v) op f3 = some w := by
  have h := lo_range v
  rw [iTypeN_eq _ _ _ _ _ hrd hrs1 hop hf3, if_neg (by omega)]
  exact ⟨_, rfl⟩

/-- the S-type encoder (stores) accepts %lo(v) for every v -/
theorem stype_accepts_lo (v : Int) (rs1 rs2 op f3 : Nat) (h1 : rs1 < 32) (h2 : rs2 < 32)
    (hop : op < 128) (hf3 : f3 < 8) : ∃ w, sTypeN rs1 rs2 (relocateLo v) op f3 = some w := by
  have h := lo_range v
  rw [sTypeN_eq _ _ _ _ _ h1 h2 hop hf3, if_neg (by omega)]
  exact ⟨_, rfl⟩

/-- what the machine computes: the 20-bit field of lui/auipc placed at bit 12, plus the
    sign-extended 12-bit field of the consumer, is `v` modulo 2^32 -/
theorem pair_rebuilds (v : Int) :
    (((relocateHi v % 1048576) * 4096) % 4294967296 + relocateLo v) % 4294967296 = v % 4294967296 := by
  rw [relocateHi_eq, relocateLo_eq]; omega

/-- non-vacuity / the classic carry case: 0x800 needs hi = 1, lo = -2048 -/
example : relocateHi 0x800 = 1 ∧ relocateLo 0x800 = -2048 := by decide
example : relocateHi 0xffffffff = 0 ∧ relocateLo 0xffffffff = -1 := by decide
example : relocateHi (-1) = 0 ∧ relocateLo (-1) = -1 := by decide

end BB.Props.C07
