/-
  BB.Props.TextCorollaries — the two-run theorems at the level of SOURCE TEXT, with the real hooks.

  The program-level theorems (C12 `compress_preserves_success_program2`, C20 `nothing_grows`, C04
  `two_outputs_corr`) are stated over `assembleItems H c items [] []` for abstract hooks `H` satisfying
  `LitOK`, `Neg1OK`, `OffsetHook`.  Here:
    (b) `parseItem_wellKinded`: the instruction items the parser builds are `wellKinded` and not auipc-marked;
    (a) `textHooks fs` — the evaluator, the immediate parser and the file reader the front end really uses —
        satisfies the three hook hypotheses (`textHooks_litOK`, `textHooks_neg1OK`, `textHooks_offsetHook`), so
        the hypothesis bundles reduce to their program-dependent fields (`growHyps_text`, `c12Hyps_text`);
    (c) the corollaries over `assembleText fs cwd dirs c inp` (read + lex + parse + assemble):
        `compress_preserves_success_text`, `nothing_grows_text`, `two_outputs_text`;
    (d) one concrete 14-line source TEXT (`srcT`: an align, two labels, a pseudo-branch, a call, a literal
        instruction, two `li`, a shift, a unary pseudo-instruction, a branch, `ret`, a byte sequence and a `dw`)
        for which the front end is evaluated (`frontEnd_srcT`), every hypothesis bundle is discharged with the
        real hooks, both runs are evaluated, and the three corollaries are instantiated.  The real assembler
        produces the same two byte strings (48 / 34 bytes).
-/
import BB.Props.C12Program2
import BB.Props.C04TwoOutputs
import BB.Props.C20Program
import BB.Lemmas.ParseKinds
namespace BB.Props.Text
open BB BB.Spec BB.Lemmas
open BB.Props.C12 BB.Props.C20 BB.Props.C04
open BB.Props.C05 (immTokens)

/-! ### (a) the real hooks satisfy the hook hypotheses -/

/-- `LitOK`: with the front end's evaluator the decimal numerals 0 … 31 evaluate to themselves -/
theorem textHooks_litOK (fs : FS) : ∀ line p env, LitOK (evalAt (textHooks fs) env line p) :=
  (textHooks_hooks fs).1

/-- `Neg1OK`: `-1` evaluates to −1 -/
theorem textHooks_neg1OK (fs : FS) : Neg1OK (textHooks fs) := (textHooks_hooks fs).2.1

/-- `OffsetHook`: `%offset r` parses to `.offset r` -/
theorem textHooks_offsetHook (fs : FS) : OffsetHook (textHooks fs) := (textHooks_hooks fs).2.2

/-- `GrowHyps` for the real hooks: only the program-dependent fields remain -/
theorem growHyps_text (fs : FS) {items : List Item} (nonneg : NonNeg items) (aligns : AlignsPositive items)
    (small : sizeSum items < 2147483648) (li : LiLiteral (textHooks fs) items)
    (calls : CallTargetsNotConstants (textHooks fs) items) : GrowHyps (textHooks fs) items :=
  ⟨nonneg, aligns, small, li, calls, textHooks_offsetHook fs⟩

/-- `C12Hyps` for the real hooks: `GrowHyps` and the per-item condition `SrcOK` -/
theorem c12Hyps_text (fs : FS) {items : List Item} (grow : GrowHyps (textHooks fs) items)
    (src : ∀ items1 constants, resolveConstants (textHooks fs) items [] = .ok (items1, constants) →
      ∀ x ∈ items, SrcOK (textHooks fs) constants (labelNames items) x) : C12Hyps (textHooks fs) items :=
  ⟨grow, textHooks_litOK fs, textHooks_neg1OK fs, src⟩

/-! ### (b) what the parser builds is `wellKinded` -/

/-- **`parse_item` on a machine-instruction line** (Lemmas/ParseKinds): the instruction item carries the line
    it was parsed from, its mnemonic is the lower-cased first token, the auipc-pair mark is NOT set, and — unless
    it is one of the hand-written `c.*` classes — its item class is the one the encoder table lists for the
    mnemonic (`Instr.wellKinded`, the per-item hypothesis of `SrcOK` / `assemble_no_eligible_literal_left`). -/
theorem parseItem_wellKinded {line l : Line} {tokens : List String} {ins : Instr}
    (h : parseItem line tokens = .ok (.instr l ins)) :
    l = line ∧ (∃ t0 rest, tokens = t0 :: rest ∧ ins.name = lowerS t0) ∧ ins.isAuipcJump = false ∧
      (ins.isCompressed = false → ins.wellKinded = true) :=
  BB.Lemmas.parseItem_wellKinded h

/-- the same for one lexed source line -/
theorem lexParseLine_wellKinded {line l : Line} {ins : Instr} (h : lexParseLine line = .ok (some (.instr l ins))) :
    l = line ∧ ins.isAuipcJump = false ∧ (ins.isCompressed = false → ins.wellKinded = true) := by
  unfold lexParseLine at h
  split at h
  · cases h
  · cases h
  · rename_i toks _ _
    cases hp : parseItem line toks with
    | error e => rw [hp] at h; cases h
    | ok it =>
      rw [hp] at h
      simp only [Functor.map, Except.map, Except.ok.injEq, Option.some.injEq] at h
      subst h
      obtain ⟨h1, _, h3, h4⟩ := BB.Lemmas.parseItem_wellKinded hp
      exact ⟨h1, h3, h4⟩

/-! ### (c) corollaries over `assembleText` -/

/-- a successful `assembleText` is a successful front end followed by a successful `assembleItems` -/
theorem assembleText_ok {fs : FS} {cwd : String} {dirs : List String} {c : Bool} {inp : Input} {r : AsmResult}
    (h : assembleText fs cwd dirs c inp = .ok r) :
    ∃ items, frontEnd fs cwd dirs inp = .ok items ∧ assembleItems (textHooks fs) c items [] [] = .ok r := by
  unfold assembleText at h
  cases hf : frontEnd fs cwd dirs inp with
  | error e => simp [hf, bind, Except.bind] at h
  | ok items =>
    simp only [hf, bind, Except.bind] at h
    exact ⟨items, rfl, h⟩

/-- **C12 at text level.**  If the items the front end produces satisfy `C12Hyps` and `AlignFreeTransfers`
    (for the real hooks: `c12Hyps_text`) and the text assembles without `-c`, it assembles with `-c`. -/
theorem compress_preserves_success_text (fs : FS) (cwd : String) (dirs : List String) (inp : Input) (r₀ : AsmResult)
    (hyp : ∀ items, frontEnd fs cwd dirs inp = .ok items → C12Hyps (textHooks fs) items ∧ AlignFreeTransfers items)
    (h0 : assembleText fs cwd dirs false inp = .ok r₀) : ∃ r₁, assembleText fs cwd dirs true inp = .ok r₁ := by
  obtain ⟨items, hf, h0'⟩ := assembleText_ok h0
  obtain ⟨h1, h2⟩ := hyp items hf
  obtain ⟨r₁, hr⟩ := compress_preserves_success_program2 (textHooks fs) items r₀ h1 h2 h0'
  exact ⟨r₁, by simp only [assembleText, hf, bind, Except.bind]; exact hr⟩

/-- **C20 (nothing grows) at text level.**  Both runs of the same text succeed, the items satisfy `GrowHyps`:
    the `-c` output is not longer, no label is larger, and both label tables have exactly the label names of
    the parsed program as keys. -/
theorem nothing_grows_text (fs : FS) (cwd : String) (dirs : List String) (inp : Input) (r₀ r₁ : AsmResult)
    (hyp : ∀ items, frontEnd fs cwd dirs inp = .ok items → GrowHyps (textHooks fs) items)
    (h0 : assembleText fs cwd dirs false inp = .ok r₀) (h1 : assembleText fs cwd dirs true inp = .ok r₁) :
    ∃ items, frontEnd fs cwd dirs inp = .ok items ∧
      r₁.bytes.length ≤ r₀.bytes.length ∧
      (∀ ℓ v₀ v₁, r₀.labels.get ℓ = some v₀ → r₁.labels.get ℓ = some v₁ → v₁ ≤ v₀) ∧
      (∀ ℓ, ℓ ∈ labelNames items → ∃ v₀ v₁, r₀.labels.get ℓ = some v₀ ∧ r₁.labels.get ℓ = some v₁ ∧ v₁ ≤ v₀) ∧
      (∀ ℓ, ℓ ∉ labelNames items → r₀.labels.get ℓ = none ∧ r₁.labels.get ℓ = none) := by
  obtain ⟨items, hf, h0'⟩ := assembleText_ok h0
  obtain ⟨items', hf', h1'⟩ := assembleText_ok h1
  rw [hf] at hf'
  cases hf'
  exact ⟨items, hf, nothing_grows (textHooks fs) items r₀ r₁ (hyp items hf) h0' h1'⟩

/-- **C04 over both byte strings, at text level**: `TwoOutputs` (Props/C04TwoOutputs) is the conclusion of
    `two_outputs_corr`, verbatim. -/
theorem two_outputs_text (fs : FS) (cwd : String) (dirs : List String) (inp : Input) (r₀ r₁ : AsmResult)
    (hyp : ∀ items, frontEnd fs cwd dirs inp = .ok items → GrowHyps (textHooks fs) items ∧ NoCompressedSource items)
    (h0 : assembleText fs cwd dirs false inp = .ok r₀) (h1 : assembleText fs cwd dirs true inp = .ok r₁) :
    ∃ items, frontEnd fs cwd dirs inp = .ok items ∧ TwoOutputs (textHooks fs) items r₀ r₁ := by
  obtain ⟨items, hf, h0'⟩ := assembleText_ok h0
  obtain ⟨items', hf', h1'⟩ := assembleText_ok h1
  rw [hf] at hf'
  cases hf'
  obtain ⟨hg, hn⟩ := hyp items hf
  exact ⟨items, hf, two_outputs_corr_pred (textHooks fs) items r₀ r₁ hg hn (textHooks_litOK fs) h0' h1'⟩

/-! ### (d) a concrete source text -/

def fs0 : FS := { files := [], dirs := [] }
abbrev HT : Hooks := textHooks fs0
def L (n : Nat) (c : String) : Line := ⟨"<string>", n, c⟩

/-- the source text -/
def srcT : String :=
  "align 4\nB:\nbeqz a0, F\ncall F\naddi a0, a0, -32\nli a1, 0x12345\nli a2, -5\nslli a3, a3, 3\nnot a1, a1\nbne a0, a1, B\nF:\nret\nbytes 1 2 3 4\ndw 0x11223344\n"

/-- what the front end makes of it -/
def progT : List Item :=
 [.align (L 1 "align 4") 4,
  .label (L 2 "B:") "B",
  .pseudo (L 3 "beqz a0, F") "beqz" ["a0", "F"],
  .pseudo (L 4 "call F") "call" ["F"],
  .instr (L 5 "addi a0, a0, -32") (.i "addi" (.str "a0") (.str "a0") (.arith "-32") false),
  .pseudo (L 6 "li a1, 0x12345") "li" ["a1", "0x12345"],
  .pseudo (L 7 "li a2, -5") "li" ["a2", "-5"],
  .instr (L 8 "slli a3, a3, 3") (.r "slli" (.str "a3") (.str "a3") (.str "3")),
  .pseudo (L 9 "not a1, a1") "not" ["a1", "a1"],
  .instr (L 10 "bne a0, a1, B") (.b "bne" (.str "a0") (.str "a1") (.offset "B")),
  .label (L 11 "F:") "F",
  .pseudo (L 12 "ret") "ret" [],
  .sequence (L 13 "bytes 1 2 3 4") "bytes" ["1", "2", "3", "4"],
  .shorthandPack (L 14 "dw 0x11223344") "dw" (.arith "0x11223344")]

/-- **the front end, evaluated on the text** (read, lex, parse) -/
theorem frontEnd_srcT : frontEnd fs0 "/" [] (.source srcT) = .ok progT := by
  unfold frontEnd
  have h0 : normAbs "/" = true := by decide
  have h1 : sourceOk srcT.toList = true := by decide +kernel
  have hs : splitLines srcT.toList = ["align 4".toList, "B:".toList, "beqz a0, F".toList, "call F".toList,
      "addi a0, a0, -32".toList, "li a1, 0x12345".toList, "li a2, -5".toList, "slli a3, a3, 3".toList,
      "not a1, a1".toList, "bne a0, a1, B".toList, "F:".toList, "ret".toList, "bytes 1 2 3 4".toList,
      "dw 0x11223344".toList] := by decide +kernel
  simp only [h0, List.all_nil, h1, readLinesAux.eq_2, hs]
  simp only [readLinesAux.go.eq_2, readLinesAux.go.eq_1]
  decide +kernel

theorem progT_consts : resolveConstants HT progT [] = .ok (progT, []) := by decide +kernel

/-- closed literals are label-free with the REAL evaluator: non-negative numerals by `C20.labelFree_literal`,
    negative ones by `C20.labelFree_neg_literal` -/
theorem lf_m32 : ImmLabelFree HT [] (.arith "-32") :=
  labelFree_neg_literal HT rfl [] "-32" 32 (Or.inl (by decide +kernel))
theorem lf_m5 : ImmLabelFree HT [] (.arith "-5") :=
  labelFree_neg_literal HT rfl [] "-5" 5 (Or.inl (by decide +kernel))
theorem lf_hex : ImmLabelFree HT [] (.arith "0x12345") :=
  labelFree_literal HT rfl [] "0x12345" 74565 (Or.inr (Or.inl (by decide +kernel))) (by decide +kernel)
theorem lf_dw : ImmLabelFree HT [] (.arith "0x11223344") :=
  labelFree_literal HT rfl [] "0x11223344" 287454020 (Or.inr (Or.inl (by decide +kernel))) (by decide +kernel)

theorem progT_grow : GrowHyps HT progT := by
  refine growHyps_text fs0 (by unfold NonNeg; decide) ?_ (by decide) ?_ ?_
  · intro line a hm
    simp [progT] at hm
    omega
  · intro items1 constants h line name args hm hk imm hp
    rw [progT_consts] at h
    cases h
    simp [progT] at hm
    rcases hm with ⟨_, rfl, rfl⟩ | ⟨_, rfl, rfl⟩ | ⟨_, rfl, rfl⟩ | ⟨_, rfl, rfl⟩ | ⟨_, rfl, rfl⟩ | ⟨_, rfl, rfl⟩
    · exact absurd hk (by decide)
    · exact absurd hk (by decide)
    · have : imm = .arith "0x12345" := by
        have h2 : HT.parseImm ["0x12345"] line = .ok (.arith "0x12345") := by rfl
        simp only [List.tail] at hp; rw [h2] at hp; cases hp; rfl
      subst this; exact lf_hex
    · have : imm = .arith "-5" := by
        have h2 : HT.parseImm ["-5"] line = .ok (.arith "-5") := by rfl
        simp only [List.tail] at hp; rw [h2] at hp; cases hp; rfl
      subst this; exact lf_m5
    · exact absurd hk (by decide)
    · exact absurd hk (by decide)
  · intro items1 constants h line name args ref hm hk ha
    rw [progT_consts] at h
    cases h
    rfl

theorem progT_hyps : C12Hyps HT progT := by
  refine c12Hyps_text fs0 progT_grow ?_
  intro items1 constants h x hx
  rw [progT_consts] at h
  cases h
  have hnames : labelNames progT = ["B", "F"] := by decide
  rw [hnames]
  simp only [progT, List.mem_cons, List.mem_nil_iff, or_false] at hx
  rcases hx with rfl | rfl | rfl | rfl | rfl | rfl | rfl | rfl | rfl | rfl | rfl | rfl | rfl | rfl
  · trivial
  · trivial
  · intro k r hk hkli ht
    have e : k = .brz "beq" := by
      have : pseudoKind "beqz" = some (.brz "beq") := by decide
      rw [this] at hk; exact (Option.some.inj hk).symm
    subst e
    simp only [immTokens, Option.some.injEq, List.cons.injEq, and_true, true_and] at ht
    subst ht
    exact ⟨by decide, rfl⟩
  · intro k r hk hkli ht
    have e : k = .call := by
      have : pseudoKind "call" = some .call := by decide
      rw [this] at hk; exact (Option.some.inj hk).symm
    subst e
    simp only [immTokens, Option.some.injEq, List.cons.injEq, and_true, true_and] at ht
    subst ht
    exact ⟨by decide, rfl⟩
  · refine ⟨by decide, rfl, Or.inl ?_⟩
    intro imm hi
    simp only [Instr.imm?, Option.some.injEq] at hi
    subst hi
    exact lf_m32
  · intro k r hk hkli ht
    have e : k = .li := by
      have : pseudoKind "li" = some .li := by decide
      rw [this] at hk; exact (Option.some.inj hk).symm
    exact absurd e hkli
  · intro k r hk hkli ht
    have e : k = .li := by
      have : pseudoKind "li" = some .li := by decide
      rw [this] at hk; exact (Option.some.inj hk).symm
    exact absurd e hkli
  · refine ⟨by decide, rfl, Or.inl ?_⟩
    intro imm hi
    simp [Instr.imm?] at hi
  · intro k r hk hkli ht
    have e : k = .not := by
      have : pseudoKind "not" = some .not := by decide
      rw [this] at hk; exact (Option.some.inj hk).symm
    subst e
    simp [immTokens] at ht
  · exact ⟨by decide, rfl, Or.inr ⟨"B", by decide, rfl, rfl, Or.inl ⟨_, _, _, _, rfl⟩⟩⟩
  · trivial
  · intro k r hk hkli ht
    have e : k = .ret := by
      have : pseudoKind "ret" = some .ret := by decide
      rw [this] at hk; exact (Option.some.inj hk).symm
    subst e
    simp [immTokens] at ht
  · trivial
  · exact lf_dw

theorem progT_alignFree : AlignFreeTransfers progT := by
  refine alignFree_of_prefix (pre := [.align (L 1 "align 4") 4]) (rest := progT.tail) rfl ?_ ?_ ?_
  · intro l a h
    simp [progT] at h
  · intro l n h
    simp at h
  · intro x hx n ht
    simp only [List.mem_singleton] at hx
    subst hx
    rcases ht with ⟨_, _, e, _⟩ | ⟨_, _, _, e, _⟩ <;> cases e

theorem progT_nocomp : NoCompressedSource progT := by
  intro line ins hm
  simp only [progT, List.mem_cons, List.mem_nil_iff, or_false, reduceCtorEq, false_or, Item.instr.injEq] at hm
  rcases hm with ⟨_, rfl⟩ | ⟨_, rfl⟩ | ⟨_, rfl⟩ <;> rfl

/-- the output without `-c` (48 bytes, F = 36) and with it (34 bytes, F = 24); the real assembler agrees -/
def r0 : AsmResult := { bytes := [99, 2, 5, 2, 239, 0, 0, 2, 19, 5, 5, 254, 183, 37, 1, 0, 147, 133, 85, 52, 19, 6, 176, 255, 147,
    150, 54, 0, 147, 197, 245, 255, 227, 16, 181, 254, 103, 128, 0, 0, 1, 2, 3, 4, 68, 51, 34, 17], labels := [("B", 0), ("F", 36)], constants := [] }
def r1 : AsmResult := { bytes := [1, 205, 25, 40, 1, 21, 201, 101, 147, 133, 85, 52, 109, 86, 142, 6, 147, 197, 245, 255, 227, 22,
    181, 254, 130, 128, 1, 2, 3, 4, 68, 51, 34, 17], labels := [("B", 0), ("F", 24)], constants := [] }

theorem run0 : assembleItems HT false progT [] [] = .ok r0 := by decide +kernel
theorem run1 : assembleItems HT true progT [] [] = .ok r1 := by decide +kernel

theorem text_run0 : assembleText fs0 "/" [] false (.source srcT) = .ok r0 := by
  simp only [assembleText, frontEnd_srcT, bind, Except.bind]; exact run0
theorem text_run1 : assembleText fs0 "/" [] true (.source srcT) = .ok r1 := by
  simp only [assembleText, frontEnd_srcT, bind, Except.bind]; exact run1

/-- what the front end returns for this text is `progT`, so the hypotheses are those discharged above -/
theorem srcT_items {items : List Item} (h : frontEnd fs0 "/" [] (.source srcT) = .ok items) : items = progT := by
  rw [frontEnd_srcT] at h; cases h; rfl

/-- **C12 at text level, instantiated**: `-c` succeeds BECAUSE the plain run does (the `-c` run is not
    evaluated here) -/
theorem srcT_compress_ok : ∃ r₁, assembleText fs0 "/" [] true (.source srcT) = .ok r₁ :=
  compress_preserves_success_text fs0 "/" [] (.source srcT) r0
    (fun items h => by rw [srcT_items h]; exact ⟨progT_hyps, progT_alignFree⟩) text_run0

/-- **C20 at text level, instantiated**: 34 ≤ 48 bytes, F: 24 ≤ 36, B: 0 ≤ 0, no other key in either table -/
theorem srcT_nothing_grows :
    r1.bytes.length ≤ r0.bytes.length ∧
    (∀ ℓ v₀ v₁, r0.labels.get ℓ = some v₀ → r1.labels.get ℓ = some v₁ → v₁ ≤ v₀) ∧
    (∀ ℓ, ℓ ∈ labelNames progT → ∃ v₀ v₁, r0.labels.get ℓ = some v₀ ∧ r1.labels.get ℓ = some v₁ ∧ v₁ ≤ v₀) ∧
    (∀ ℓ, ℓ ∉ labelNames progT → r0.labels.get ℓ = none ∧ r1.labels.get ℓ = none) := by
  obtain ⟨items, hf, h⟩ := nothing_grows_text fs0 "/" [] (.source srcT) r0 r1
    (fun items h => by rw [srcT_items h]; exact progT_grow) text_run0 text_run1
  rw [srcT_items hf] at h
  exact h

/-- **C04 (both outputs) at text level, instantiated** -/
theorem srcT_two_outputs : TwoOutputs HT progT r0 r1 := by
  obtain ⟨items, hf, h⟩ := two_outputs_text fs0 "/" [] (.source srcT) r0 r1
    (fun items h => by rw [srcT_items h]; exact ⟨progT_grow, progT_nocomp⟩) text_run0 text_run1
  rw [srcT_items hf] at h
  exact h

end BB.Props.Text
