/-
  BB.Props.C04Program — C04 at program level, single `-c` run, for literal (label-free) instructions:
  every 2-byte instruction of the list held after resolve_aligns (`lay.aligned`, where
  `layoutOf H true items = .ok lay` — a FUNCTION of the inputs, Props/C04) was either written compressed in
  the source (it is the register-aliased image of a compressed instruction item of `items`), or was produced by one of the two compression passes from a 32-bit instruction `ins`
  (`ItemStep`), and in the latter case, when `ins` has a label-free immediate, the two output bytes at
  the item's offset are the halfword of a legal RVC instruction that executes exactly like the
  instruction `ins` names when resolved against the FINAL tables at that offset.

  What is composed: the decision (`ItemStep`, made at the pass's own label table and position) is
  carried through the pseudo-instruction pass (keeps instruction items), the second
  resolve_register_aliases (identity on a compressed form of an aliased instruction), the second
  compression pass (leaves compressed instructions alone) and resolve_aligns (keeps instruction items)
  to the item that `Land` resolves and encodes; `literal_decision_stable` moves the soundness of the
  decision to the final tables.  What is NOT composed: the comparison with the run WITHOUT `-c`
  (that the replaced `ins` is the instruction the other run emits at the corresponding place), and
  instructions whose immediate mentions a label (branch / jump targets included).
-/
import BB.Lemmas.CompressThread
import BB.Lemmas.LayoutAnchor
namespace BB.Props.C04
open BB BB.Spec BB.Lemmas
open BB.Props.C03 (Land Finish)

theorem denote16I_class {x : Instr} {ci : CInstr} (h : denote16I x = some ci) :
    ∃ c, classOf16 x.name = some c := by
  unfold denote16I at h
  cases hc : classOf16 x.name with
  | none => simp [hc] at h
  | some c => exact ⟨c, rfl⟩

theorem mapRegs_idem (constants : Dict) (y : Instr) :
    (y.mapRegs (aliasReg constants)).mapRegs (aliasReg constants) = y.mapRegs (aliasReg constants) := by
  cases y <;> simp only [Instr.mapRegs, aliasReg_idem]

/-- **one compressed item, read at the final tables.**  The item `.instr line cf` replaced the
    label-free 32-bit instruction `ins` (`ItemStep`); resolve_immediates resolves it at offset `off`
    against `L`, the later passes encode it into the bytes `d`.  Then `d` is the halfword of a legal RVC
    instruction whose execution is that of the instruction `ins` names at the same tables and offset. -/
theorem compressed_item_final_sound {H : Hooks} {constants L : Dict} {line line' : Line} {ins cf : Instr}
    {off : Int} {it' : Item} {d : List Nat}
    (hstep : ItemStep H constants (.instr line ins) (.instr line cf)) (hnc : ins.isCompressed = false)
    (hc : cf.isCompressed = true)
    (hfree : ∀ imm, ins.imm? = some imm → ImmLabelFree H constants imm)
    (hlit : LitOK (evalAt H (chainGet constants L) line off))
    (hbody : immBody H constants (.instr line cf) off L = .ok ([it'], 0))
    (hfin : Finish H it' (.blob line' d))
    {rins : Instr} {i32 : Instr32}
    (hres : resolveWith (evalAt H (chainGet constants L) line off) ins = some rins)
    (hden : denote32I rins = some i32) :
    ∃ w ci, d = leBytes 2 w ∧ decode16 w = some ci ∧ ci.legal = true ∧ ∀ s, execC ci s = exec i32 2 s := by
  have hne : cf ≠ ins := by intro e; rw [e, hnc] at hc; cases hc
  obtain ⟨rcf, ci, h0, hd16, hlegal, hexec⟩ := literal_decision_stable H constants hstep hne hfree L off hlit hres hden
  have hnaj : cf.isAuipcJump = false := by
    cases hstep with
    | same => exact absurd rfl hne
    | compressed _ _ _ c preds position labels hmem hall hcf haj => exact compressedForm_not_aj hcf
  obtain ⟨rcf', rfl, hres'⟩ := immBody_instr_resolve hnaj hbody
  rw [h0] at hres'
  cases hres'
  obtain ⟨args, w, ha, he, hd⟩ := finish_instr_bytes hfin
  rw [(resolveWith_keeps h0).2, hc] at hd
  simp only [if_true] at hd
  obtain ⟨cm, hcm⟩ := denote16I_class hd16
  obtain ⟨ci', hd16', hdec, _⟩ := encode_denotes16 hcm ha he
  rw [hd16] at hd16'
  cases hd16'
  exact ⟨w, ci, hd, hdec, hlegal, hexec⟩

/-- where a compressed instruction of the final list comes from -/
theorem compressed_origin (H : Hooks) (constants : Dict)
    {items2 items3 items4 items6 items7 : List Item} {labels2 labels3 labels4 labels6 labels7 : Dict}
    (h3 : maybeCompress H true (resolveRegisterAliases items2 constants) constants labels2 = .ok (items3, labels3))
    (h4 : transformPseudo H items3 constants labels3 = .ok (items4, labels4))
    (h6 : maybeCompress H true (resolveRegisterAliases items4 constants) constants labels4 = .ok (items6, labels6))
    (h7 : resolveAligns items6 labels6 = .ok (items7, labels7))
    {line : Line} {cf : Instr} (hmem : Item.instr line cf ∈ items7) (hc : cf.isCompressed = true) :
    Item.instr line cf ∈ resolveRegisterAliases items2 constants ∨
    ∃ ins, ins.isCompressed = false ∧ ItemStep H constants (.instr line ins) (.instr line cf) := by
  simp only [maybeCompress, if_true, transformCompressible] at h3 h6
  have hmem6 := align_pass_instrs items6 0 labels6 items7 labels7 h7 line cf hmem
  obtain ⟨it5, hit5, hs5⟩ := forall2_mem (compress_pass_itemwise H constants _ 0 labels4 items6 labels6 h6) _ hmem6
  rcases itemStep_of_compressed hs5 hc with rfl | ⟨ins, rfl, hnc⟩
  · -- untouched by the second pass: trace it back through the aliases and the pseudo pass
    obtain ⟨x0, hx0, rfl⟩ := mem_aliases hit5
    have hx0c : x0.isCompressed = true := by rw [← mapRegs_isCompressed (aliasReg constants) x0]; exact hc
    have hx3 := pseudo_pass_compressed H constants items3 0 labels3 items4 labels4 h4 line x0 hx0 hx0c
    obtain ⟨it2, hit2, hs2⟩ := forall2_mem (compress_pass_itemwise H constants _ 0 labels2 items3 labels3 h3) _ hx3
    rcases itemStep_of_compressed hs2 hx0c with rfl | ⟨ins0, rfl, hnc0⟩
    · obtain ⟨y, _, rfl⟩ := mem_aliases hit2
      rw [mapRegs_idem]
      exact Or.inl hit2
    · obtain ⟨y, _, rfl⟩ := mem_aliases hit2
      cases hs2 with
      | same => rw [hnc0] at hx0c; cases hx0c
      | compressed _ _ _ c preds position labels hm hall hcf haj =>
        rw [compressedForm_aliased hcf]
        exact Or.inr ⟨_, hnc0, .compressed line _ x0 c preds position labels hm hall hcf haj⟩
  · exact Or.inr ⟨ins, hnc, hs5⟩

/-- **C04, program level, single run, literal instructions.**  `lay` is the layout the model computes
    (`layoutOf`), its tables are the returned ones, `lay.aligned` is what `Land` turns into the output bytes.
    In a successful `-c` run every 2-byte instruction item of `lay.aligned` either is the aliased image of a
    compressed instruction item of the SOURCE `items`, or replaced a 32-bit instruction `ins` by a compression decision (`ItemStep`); and if `ins`
    is label-free, then for the meaning `i32` that `ins` has at the RETURNED tables and the item's own
    byte offset, the two output bytes there are the halfword of a legal RVC instruction `ci` with
    `execC ci s = exec i32 2 s` for every state. -/
theorem assemble_compressed_literal_sound (H : Hooks) (items : List Item) (r : AsmResult)
    (hlit : ∀ env line p, LitOK (evalAt H env line p))
    (h : assembleItems H true items [] [] = .ok r) :
    ∃ (lay : Layout) (out : List Item), layoutOf H true items = .ok lay ∧ lay.labels = r.labels ∧
      lay.constants = r.constants ∧ Land H r.constants r.labels 0 lay.aligned out ∧ r.bytes = blobBytes out ∧
      ∀ (i : Nat) (hi : i < lay.aligned.length) line cf, lay.aligned[i] = .instr line cf → cf.isCompressed = true →
        (∃ cf0, Item.instr line cf0 ∈ items ∧ cf0.isCompressed = true ∧ cf = cf0.mapRegs (aliasReg r.constants)) ∨
        ∃ ins, ins.isCompressed = false ∧ ItemStep H r.constants (.instr line ins) (.instr line cf) ∧
          ((∀ imm, ins.imm? = some imm → ImmLabelFree H r.constants imm) →
            ∀ rins i32,
              resolveWith (evalAt H (chainGet r.constants r.labels) line ((blobBytes (out.take i)).length : Int)) ins
                = some rins →
              denote32I rins = some i32 →
              ∃ w ci, (r.bytes.drop (blobBytes (out.take i)).length).take 2 = leBytes 2 w ∧
                decode16 w = some ci ∧ ci.legal = true ∧ ∀ s, execC ci s = exec i32 2 s) := by
  obtain ⟨items1, items2, items3, items4, items6, items7, out, labels2, labels3, labels4, labels6, hlay, e7, h1, h2, h3, h4,
    h6, h7, hland, hbytes⟩ := assemble_anchor H true items r h
  refine ⟨⟨items6, items7, r.constants, r.labels⟩, out, hlay, rfl, rfl, hland, hbytes, ?_⟩
  intro i hi line cf hit hc
  simp only at hit hi
  have hmem : Item.instr line cf ∈ items7 := by rw [← hit]; exact List.getElem_mem hi
  rcases compressed_origin H r.constants h3 h4 h6 h7 hmem hc with ho | ⟨ins, hnc, hstep⟩
  · obtain ⟨cf0, hm0, e⟩ := source_of_aliased h1 h2 ho
    refine Or.inl ⟨cf0, hm0, ?_, e⟩
    rw [e, mapRegs_isCompressed] at hc
    exact hc
  · refine Or.inr ⟨ins, hnc, hstep, ?_⟩
    intro hfree rins i32 hres hden
    obtain ⟨it', line', d, _, hbody, hfin, hslice⟩ := hland.at i hi
    rw [hit] at hbody
    simp only [Int.zero_add] at hbody
    obtain ⟨w, ci, hd, hdec, hlegal, hexec⟩ :=
      compressed_item_final_sound hstep hnc hc hfree (hlit _ _ _) hbody hfin hres hden
    refine ⟨w, ci, ?_, hdec, hlegal, hexec⟩
    rw [hbytes]
    have hl : d.length = 2 := by rw [hd, leBytes_length]
    rw [hl] at hslice
    rw [hslice]; exact hd

/-- with the front end's evaluator the `LitOK` hypothesis holds (`litOK_evalArith`) -/
theorem assemble_compressed_literal_sound_text (H : Hooks) (hH : H.arith = evalArith) (items : List Item)
    (r : AsmResult) (h : assembleItems H true items [] [] = .ok r) :
    ∃ (lay : Layout) (out : List Item), layoutOf H true items = .ok lay ∧ lay.labels = r.labels ∧
      lay.constants = r.constants ∧ Land H r.constants r.labels 0 lay.aligned out ∧ r.bytes = blobBytes out ∧
      ∀ (i : Nat) (hi : i < lay.aligned.length) line cf, lay.aligned[i] = .instr line cf → cf.isCompressed = true →
        (∃ cf0, Item.instr line cf0 ∈ items ∧ cf0.isCompressed = true ∧ cf = cf0.mapRegs (aliasReg r.constants)) ∨
        ∃ ins, ins.isCompressed = false ∧ ItemStep H r.constants (.instr line ins) (.instr line cf) ∧
          ((∀ imm, ins.imm? = some imm → ImmLabelFree H r.constants imm) →
            ∀ rins i32,
              resolveWith (evalAt H (chainGet r.constants r.labels) line ((blobBytes (out.take i)).length : Int)) ins
                = some rins →
              denote32I rins = some i32 →
              ∃ w ci, (r.bytes.drop (blobBytes (out.take i)).length).take 2 = leBytes 2 w ∧
                decode16 w = some ci ∧ ci.legal = true ∧ ∀ s, execC ci s = exec i32 2 s) :=
  assemble_compressed_literal_sound H items r (fun env line p => litOK_evalArith H hH env line p) h

/-! ### non-vacuity: `addi sp, sp, M ; slli a0, a0, 3` (M = −32), both compressed -/

/-- a closed evaluator: the name M, and the decimal numerals 0 … 31 -/
def litEval (e : String) : Except ExprErr Int :=
  if e = "M" then .ok (-32)
  else match (List.range 32).find? (fun n => toString n = e) with
    | some n => .ok (n : Int)
    | none => .error .error

def Hd : Hooks :=
  { arith := fun e _ => litEval e, parseImm := fun _ _ => .error (.internal "unused"), readFile := fun _ => none }

theorem litEval_ok : ∀ n : Nat, n < 32 → litEval (toString n) = .ok (n : Int) := by decide

/-- the `LitOK` hypothesis of `assemble_compressed_literal_sound` holds for these hooks … -/
theorem hd_litOK (env : String → Option Int) (line : Line) (p : Int) : LitOK (evalAt Hd env line p) := by
  intro n hn
  simp only [evalAt, Imm.eval, Hd, litEval_ok n hn, liftExpr, Except.toOption]

def progD : List Item :=
  [.instr ⟨"f", 1, ""⟩ (.i "addi" (.str "sp") (.str "sp") (.arith "M") false),
   .instr ⟨"f", 2, ""⟩ (.r "slli" (.str "a0") (.str "a0") (.str "3"))]

/-- … the `-c` run succeeds with `c.addi16sp -32` (0x713d) and `c.slli a0, 3` (0x050e, its shift amount
    rebuilt as `Arithmetic("3")`) … -/
example : assembleItems Hd true progD [] [] = .ok { bytes := [0x3d, 0x71, 0x0e, 0x05], labels := [], constants := [] } := by
  decide
/-- … the replaced instructions are label-free and name `addi x2, x2, −32` / `slli x10, x10, 3`, and the
    two halfwords decode to legal RVC instructions expanding to exactly those -/
example : ImmLabelFree Hd [] (.arith "M") := fun _ _ _ _ _ => rfl
example : denote32I (.i "addi" (.str "sp") (.str "sp") (.value (-32)) false) = some (.i .addi 2 2 (-32)) ∧
    denote32I (.r "slli" (.str "a0") (.str "a0") (.str "3")) = some (.sh .slli 10 10 3) ∧
    decode16 0x713d = some (.addi16sp (-32)) ∧ expand16 (.addi16sp (-32)) = .i .addi 2 2 (-32) ∧
    decode16 0x050e = some (.slli 10 3) ∧ expand16 (.slli 10 3) = .sh .slli 10 10 3 ∧
    (CInstr.slli 10 3).legal = true := by decide

end BB.Props.C04
