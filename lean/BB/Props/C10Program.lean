/-
  BB.Props.C10Program — C10 end to end for the remaining data directives: what a numeric sequence
  (`bytes shorts ints longs longlongs`) and a `pack <fmt>, expr` item contribute to the output of EVERY
  successful assembly (both modes), at their own byte offset; the width tables; and that the bytes of a
  data item with context-free operands do not depend on compression.

  (strings / include_bytes: `assemble_verbatim` in C10End; db dh dw dd: `C08.assemble_data_value`;
   refusal of misfits with the directive's line: `C15.sequence_fault_reported`, `pack_misfit_reported`, …)
-/
import BB.Props.C10End
namespace BB.Props.C10
open BB BB.Spec BB.Lemmas BB.Props.C03

/-! ## the documented widths, as decided tables -/

/-- signedness and width of a `struct` integer code of the documented table -/
def codeSpec (c : Char) : Option (Bool × Nat) :=
  if c = 'b' then some (true, 1) else if c = 'B' then some (false, 1)
  else if c = 'h' then some (true, 2) else if c = 'H' then some (false, 2)
  else if c = 'i' ∨ c = 'l' then some (true, 4)
  else if c = 'I' ∨ c = 'L' then some (false, 4)
  else if c = 'q' then some (true, 8) else if c = 'Q' then some (false, 8)
  else none

/-- (big-endian?, signed?, width) of a documented `pack` format -/
def fmtSpec (fmt : String) : Option (Bool × Bool × Nat) :=
  match fmt.toList with
  | [e, c] => if e = '<' ∨ e = '>' then (codeSpec c).map (fun sw => (decide (e = '>'), sw.1, sw.2)) else none
  | _ => none

/-- **The width tables.**  Sequences: 1/2/4/4/8 bytes per element; shorthand packs: 1/2/4/8; the twenty
    documented `pack` formats: byte order from `<`/`>`, signedness from the letter's case, widths
    1/2/4/4/8.  (A swapped width in the model breaks this theorem.) -/
theorem data_width_table :
    numericSequenceNamesM.map sequenceElemSize = [some 1, some 2, some 4, some 4, some 8] ∧
    shorthandPackNamesM.map shorthandSize = [some 1, some 2, some 4, some 8] ∧
    sequenceElemSize "words" = none ∧ shorthandSize "dq" = none ∧
    ["<b", "<B", "<h", "<H", "<i", "<I", "<l", "<L", "<q", "<Q"].map fmtSpec =
      [some (false, true, 1), some (false, false, 1), some (false, true, 2), some (false, false, 2),
       some (false, true, 4), some (false, false, 4), some (false, true, 4), some (false, false, 4),
       some (false, true, 8), some (false, false, 8)] ∧
    [">b", ">B", ">h", ">H", ">i", ">I", ">l", ">L", ">q", ">Q"].map fmtSpec =
      [some (true, true, 1), some (true, false, 1), some (true, true, 2), some (true, false, 2),
       some (true, true, 4), some (true, false, 4), some (true, true, 4), some (true, false, 4),
       some (true, true, 8), some (true, false, 8)] ∧
    ["<f", "=I", "I", "<II", "@H", "!H"].map fmtSpec = [none, none, none, none, none, none] ∧
    ["<b", "<B", "<h", "<H", "<i", "<I", "<l", "<L", "<q", "<Q",
     ">b", ">B", ">h", ">H", ">i", ">I", ">l", ">L", ">q", ">Q"].map packSize =
      [some 1, some 1, some 2, some 2, some 4, some 4, some 4, some 4, some 8, some 8,
       some 1, some 1, some 2, some 2, some 4, some 4, some 4, some 4, some 8, some 8] := by
  decide

/-- the model's `struct.pack` follows that table: byte order, signedness and width of the format -/
theorem packFmt_spec (fmt : String) (v : Int) (o : Option (List Nat)) (h : packFmt fmt v = .ok o) :
    ∃ big signed n, fmtSpec fmt = some (big, signed, n) ∧ o = packInt big signed n v := by
  unfold packFmt at h
  unfold fmtSpec
  split at h
  · rename_i e c heq
    rw [heq]
    simp only
    by_cases he : e = '<' ∨ e = '>'
    · rw [if_pos he] at h ⊢
      simp only at h
      unfold codeSpec
      by_cases c1 : c = 'b'
      · simp only [c1, if_true, Except.ok.injEq] at h ⊢; exact ⟨_, _, _, rfl, h.symm⟩
      rw [if_neg c1] at h ⊢
      by_cases c2 : c = 'B'
      · simp only [c2, if_true, Except.ok.injEq] at h ⊢; exact ⟨_, _, _, rfl, h.symm⟩
      rw [if_neg c2] at h ⊢
      by_cases c3 : c = 'h'
      · simp only [c3, if_true, Except.ok.injEq] at h ⊢; exact ⟨_, _, _, rfl, h.symm⟩
      rw [if_neg c3] at h ⊢
      by_cases c4 : c = 'H'
      · simp only [c4, if_true, Except.ok.injEq] at h ⊢; exact ⟨_, _, _, rfl, h.symm⟩
      rw [if_neg c4] at h ⊢
      by_cases c5 : c = 'i' ∨ c = 'l'
      · rw [if_pos c5] at h ⊢; simp only [Except.ok.injEq] at h; exact ⟨_, _, _, rfl, h.symm⟩
      rw [if_neg c5] at h ⊢
      by_cases c6 : c = 'I' ∨ c = 'L'
      · rw [if_pos c6] at h ⊢; simp only [Except.ok.injEq] at h; exact ⟨_, _, _, rfl, h.symm⟩
      rw [if_neg c6] at h ⊢
      by_cases c7 : c = 'q'
      · simp only [c7, if_true, Except.ok.injEq] at h ⊢; exact ⟨_, _, _, rfl, h.symm⟩
      rw [if_neg c7] at h ⊢
      by_cases c8 : c = 'Q'
      · simp only [c8, if_true, Except.ok.injEq] at h ⊢; exact ⟨_, _, _, rfl, h.symm⟩
      rw [if_neg c8] at h
      cases h
    · rw [if_neg he] at h; cases h
  · cases h

/-! ## two's-complement digits -/

/-- the `w` little-endian two's-complement digits of `v` -/
def twosLE (w : Nat) (v : Int) : List Nat := leBytes w (v % (2 ^ (8 * w) : Int)).toNat

theorem twosLE_spec (w : Nat) (v : Int) :
    (twosLE w v).length = w ∧ (∀ b ∈ twosLE w v, b < 256) ∧
    (fromLE (twosLE w v) : Int) = v % ((2 ^ (8 * w) : Nat) : Int) := by
  refine ⟨leBytes_length _ _, leBytes_lt _ _, ?_⟩
  unfold twosLE
  rw [fromLE_leBytes]
  have h256 : (256 : Nat) ^ w = 2 ^ (8 * w) := by
    rw [show (256 : Nat) = 2 ^ 8 by rfl, ← Nat.pow_mul]
  rw [h256]
  have hp : (0 : Int) < ((2 ^ (8 * w) : Nat) : Int) := by
    have : 0 < 2 ^ (8 * w) := Nat.two_pow_pos _
    exact_mod_cast this
  have hcast : ((2 : Int) ^ (8 * w)) = ((2 ^ (8 * w) : Nat) : Int) := by push_cast; rfl
  rw [hcast]
  generalize ((2 ^ (8 * w) : Nat)) = m at hp ⊢
  have hpos : (0 : Int) ≤ v % (m : Int) := Int.emod_nonneg _ (by omega)
  have hlt : v % (m : Int) < (m : Int) := Int.emod_lt_of_pos _ hp
  have e : ((v % (m : Int)).toNat : Int) = v % (m : Int) := Int.toNat_of_nonneg hpos
  have hlt' : (v % (m : Int)).toNat < m := by omega
  rw [Nat.mod_eq_of_lt hlt']
  exact e

/-- an accepted value is packed into its two's-complement digits, in the byte order asked for -/
theorem packInt_digits {big signed : Bool} {n : Nat} {v : Int} {bs : List Nat}
    (h : packInt big signed n v = some bs) :
    bs = (if big then (twosLE n v).reverse else twosLE n v) := by
  unfold packInt at h
  split at h
  · simp only [Option.some.injEq] at h
    subst h
    cases big <;> simp [twosLE, beBytes]
  · cases h

/-! ## numeric sequences -/

theorem seqBytes_spec {line : Line} {n : Nat} {vals : List String} {vs : List Int}
    (h : seqBytes line n vals = .ok vs) : vals.map (fun t => pyInt0 t.toList) = vs.map some := by
  induction vals generalizing vs with
  | nil => simp only [seqBytes, Except.ok.injEq] at h; subst h; rfl
  | cons t rest ih =>
    simp only [seqBytes] at h
    cases hp : pyInt0 t.toList with
    | none => simp [hp] at h
    | some v =>
      simp only [hp, bind, Except.bind] at h
      cases hr : seqBytes line n rest with
      | error e => simp [hr] at h
      | ok r =>
        simp only [hr, pure, Except.pure, Except.ok.injEq] at h
        subst h
        simp [hp, ih hr]

theorem packSeq_spec {line : Line} {n : Nat} (hn : 0 < n) {vs : List Int} {bs : List Nat}
    (h : packSeq line n vs = .ok bs) :
    bs = (vs.map (twosLE n)).flatten ∧
    ∀ v ∈ vs, -(2 ^ (8 * n - 1) : Int) ≤ v ∧ v < (2 ^ (8 * n) : Int) := by
  induction vs generalizing bs with
  | nil =>
    simp only [packSeq, Except.ok.injEq] at h
    subst h
    exact ⟨rfl, fun v hv => by simp at hv⟩
  | cons v rest ih =>
    simp only [packSeq] at h
    cases hp : packInt false (decide (v < 0)) n v with
    | none => simp [hp] at h
    | some b =>
      simp only [hp, bind, Except.bind] at h
      cases hr : packSeq line n rest with
      | error e => simp [hr] at h
      | ok r =>
        simp only [hr, pure, Except.pure, Except.ok.injEq] at h
        subst h
        obtain ⟨i1, i2⟩ := ih hr
        have hb := packInt_digits hp
        simp only [Bool.false_eq_true, if_false] at hb
        refine ⟨by simp [hb, i1], ?_⟩
        intro x hx
        simp only [List.mem_cons] at hx
        rcases hx with rfl | hx
        · exact (seq_elem_accept_iff n hn x).mp ⟨b, hp⟩
        · exact i2 x hx

theorem sequenceElemSize_pos {name : String} {w : Nat} (h : sequenceElemSize name = some w) : 0 < w := by
  unfold sequenceElemSize at h
  repeat' split at h
  all_goals first | (simp only [Option.some.injEq] at h; omega) | cases h

/-- what a numeric sequence becomes: every operand is an integer literal `vj`, every `vj` fits its
    width (signed minimum … unsigned maximum), and the bytes are the concatenated little-endian
    two's-complement digits -/
theorem step_sequence {H : Hooks} {constants L : Dict} {p : Int} {line line' : Line} {name : String}
    {vals : List String} {it' : Item} {bs : List Nat} {w : Nat}
    (hbody : immBody H constants (.sequence line name vals) p L = .ok ([it'], 0))
    (hfin : Finish H it' (.blob line' bs)) (hw : sequenceElemSize name = some w) :
    ∃ vs : List Int, vals.map (fun t => pyInt0 t.toList) = vs.map some ∧
      (∀ v ∈ vs, -(2 ^ (8 * w - 1) : Int) ≤ v ∧ v < (2 ^ (8 * w) : Int)) ∧
      bs = (vs.map (twosLE w)).flatten := by
  have := keep_body (by simp [immBody]) hbody
  subst this
  obtain ⟨b, d, e, f, h1, h2, h3, h4, h5⟩ := hfin
  simp only [instrStep, pure, Except.pure, Except.ok.injEq] at h1
  subst h1
  simp only [stringStep, seqStep, hw, bind, Except.bind] at h2
  cases hs : seqBytes line w vals with
  | error e => simp [hs] at h2
  | ok vs =>
    simp only [hs] at h2
    cases hp : packSeq line w vs with
    | error e => simp [hp] at h2
    | ok bs' =>
      simp only [hp, pure, Except.pure, Except.ok.injEq] at h2
      subst h2
      simp only [shorthandStep, pure, Except.pure, Except.ok.injEq] at h3
      subst h3
      simp only [packStep, pure, Except.pure, Except.ok.injEq] at h4
      subst h4
      simp only [includeBytesStep, pure, Except.pure, Except.ok.injEq, Item.blob.injEq] at h5
      obtain ⟨_, rfl⟩ := h5
      obtain ⟨g1, g2⟩ := packSeq_spec (sequenceElemSize_pos hw) hp
      exact ⟨vs, seqBytes_spec hs, g2, g1⟩

/-- the j-th group of `w` bytes of a concatenation of `w`-byte groups -/
theorem flatten_group {w : Nat} (ls : List (List Nat)) (hl : ∀ l ∈ ls, l.length = w) (j : Nat) (hj : j < ls.length) :
    (ls.flatten.drop (w * j)).take w = ls[j] := by
  induction ls generalizing j with
  | nil => simp at hj
  | cons a rest ih =>
    have ha : a.length = w := hl a List.mem_cons_self
    cases j with
    | zero =>
      simp only [List.flatten_cons, Nat.mul_zero, List.drop_zero, List.getElem_cons_zero]
      rw [List.take_append_of_le_length (by omega), List.take_of_length_le (by omega)]
    | succ k =>
      simp only [List.flatten_cons, List.getElem_cons_succ]
      have : w * (k + 1) = a.length + w * k := by rw [ha, Nat.mul_succ]; omega
      rw [this, List.drop_append, List.drop_of_length_le (by omega), List.nil_append, Nat.add_sub_cancel_left]
      exact ih (fun l hl' => hl l (List.mem_cons_of_mem _ hl')) k (by simpa using hj)

/-- **Numeric sequences.**  In every successful assembly a `bytes/shorts/ints/longs/longlongs v1 … vk`
    item of `lay.aligned` - the list the pipeline holds after resolve_aligns, `lay` being the layout the
    inputs determine (`C03.Frame`) - contributes, at its own byte offset, exactly k·w bytes (w = 1/2/4/4/8 by `data_width_table`):
    the operands are integer literals `vs`, each fits (signed minimum … unsigned maximum of the width),
    and the j-th group of w bytes is the little-endian two's-complement digits of `vs[j]`. -/
theorem assemble_sequence_value (H : Hooks) (compress : Bool) (items : List Item) (r : AsmResult)
    (h : assembleItems H compress items [] [] = .ok r) :
    ∃ lay out, Frame H compress items r lay out ∧
      ∀ (i : Nat) (hi : i < lay.aligned.length) line name vals w,
        lay.aligned[i] = .sequence line name vals → sequenceElemSize name = some w →
        ∃ vs : List Int, vals.map (fun t => pyInt0 t.toList) = vs.map some ∧
          (∀ v ∈ vs, -(2 ^ (8 * w - 1) : Int) ≤ v ∧ v < (2 ^ (8 * w) : Int)) ∧
          (r.bytes.drop (blobBytes (out.take i)).length).take (w * vals.length) = (vs.map (twosLE w)).flatten ∧
          ∀ (j : Nat) (hj : j < vs.length),
            ((r.bytes.drop ((blobBytes (out.take i)).length + w * j)).take w) = twosLE w vs[j] ∧
            (fromLE ((r.bytes.drop ((blobBytes (out.take i)).length + w * j)).take w) : Int)
              = vs[j] % ((2 ^ (8 * w) : Nat) : Int) := by
  obtain ⟨lay, out, hF⟩ := assemble_land H compress items r h
  have hland := hF.land
  have hbytes := hF.bytes
  refine ⟨lay, out, hF, ?_⟩
  intro i hi line name vals w hit hw
  obtain ⟨it', line', d, _, hbody, hfin, hslice⟩ := hland.at i hi
  rw [hit] at hbody
  obtain ⟨vs, hv, hfit, hd⟩ := step_sequence hbody hfin hw
  have hlen : vs.length = vals.length := by
    have := congrArg List.length hv; simpa using this.symm
  have hgl : ∀ l ∈ vs.map (twosLE w), l.length = w := by
    intro l hl
    simp only [List.mem_map] at hl
    obtain ⟨v, _, rfl⟩ := hl
    exact (twosLE_spec w v).1
  have hdl : d.length = w * vals.length := by
    rw [hd, List.length_flatten, ← hlen]
    have : (vs.map (twosLE w)).map List.length = List.replicate vs.length w := by
      rw [List.map_map]
      apply List.ext_getElem (by simp)
      intro n h1 h2
      simp [(twosLE_spec w _).1]
    rw [this]; simp [Nat.mul_comm]
  have hsl : (r.bytes.drop (blobBytes (out.take i)).length).take (w * vals.length) = (vs.map (twosLE w)).flatten := by
    rw [hbytes, ← hdl, hslice, hd]
  refine ⟨vs, hv, hfit, hsl, ?_⟩
  intro j hj
  have hgrp : ((r.bytes.drop ((blobBytes (out.take i)).length + w * j)).take w) = twosLE w vs[j] := by
    have h1 := flatten_group (vs.map (twosLE w)) hgl j (by simpa using hj)
    rw [← hsl] at h1
    rw [← List.drop_drop]
    have hwj : w * j + w ≤ w * vals.length := by
      rw [← hlen]
      calc w * j + w = w * (j + 1) := (Nat.mul_succ w j).symm
        _ ≤ w * vs.length := Nat.mul_le_mul_left _ hj
    rw [List.drop_take, List.take_take] at h1
    have hm : min w (w * vals.length - w * j) = w := by omega
    rw [hm] at h1
    simpa using h1
  exact ⟨hgrp, by rw [hgrp]; exact (twosLE_spec w _).2.2⟩

/-! ## pack -/

theorem pack_item_value (H : Hooks) (constants L : Dict) (line : Line) (fmt : String) (imm : Imm)
    (p : Int) (it' : Item) (h : immBody H constants (.pack line fmt imm) p L = .ok ([it'], 0)) :
    ∃ v, Imm.eval H (chainGet constants L) line imm p = .ok v ∧ it' = .pack line fmt (.value v) := by
  simp only [immBody, bind, Except.bind] at h
  cases hv : Imm.eval H (chainGet constants L) line imm p with
  | error e => simp [hv] at h
  | ok v =>
    simp only [hv] at h
    split at h
    · simp at h
    · simp only [pure, Except.pure, Except.ok.injEq, Prod.mk.injEq, List.cons.injEq, and_true] at h
      exact ⟨v, rfl, h.symm⟩

/-- range of an n-byte `struct` integer code -/
def fits (signed : Bool) (n : Nat) (v : Int) : Prop :=
  if signed then (-(2 ^ (8 * n - 1) : Int) ≤ v ∧ v < (2 ^ (8 * n - 1) : Int)) else (0 ≤ v ∧ v < (2 ^ (8 * n) : Int))

/-- what a `pack` item becomes: the value of its expression at this position, which fits the format's
    range, as the format's two's-complement digits in the format's byte order -/
theorem step_pack {H : Hooks} {constants L : Dict} {p : Int} {line line' : Line} {fmt : String}
    {imm : Imm} {it' : Item} {bs : List Nat}
    (hbody : immBody H constants (.pack line fmt imm) p L = .ok ([it'], 0))
    (hfin : Finish H it' (.blob line' bs)) :
    ∃ v big signed n, Imm.eval H (chainGet constants L) line imm p = .ok v ∧
      fmtSpec fmt = some (big, signed, n) ∧ fits signed n v ∧
      bs = (if big then (twosLE n v).reverse else twosLE n v) := by
  obtain ⟨v, hv, rfl⟩ := pack_item_value H constants L line fmt imm p it' hbody
  obtain ⟨b, d, e, f, h1, h2, h3, h4, h5⟩ := hfin
  simp only [instrStep, pure, Except.pure, Except.ok.injEq] at h1
  subst h1
  simp only [stringStep, seqStep, pure, Except.pure, Except.ok.injEq] at h2
  subst h2
  simp only [shorthandStep, pure, Except.pure, Except.ok.injEq] at h3
  subst h3
  simp only [packStep, bind, Except.bind] at h4
  cases hp : packFmt fmt v with
  | error e => simp [hp] at h4
  | ok o =>
    simp only [hp] at h4
    cases o with
    | none => simp at h4
    | some bs' =>
      simp only [pure, Except.pure, Except.ok.injEq] at h4
      subst h4
      simp only [includeBytesStep, pure, Except.pure, Except.ok.injEq, Item.blob.injEq] at h5
      obtain ⟨_, rfl⟩ := h5
      obtain ⟨big, signed, n, hs, ho⟩ := packFmt_spec fmt v _ hp
      refine ⟨v, big, signed, n, hv, hs, ?_, packInt_digits ho.symm⟩
      exact (packInt_accept_iff big signed n v).mp ⟨bs', ho.symm⟩

/-- **pack.**  In every successful assembly a `pack <fmt>, expr` item of `lay.aligned` (the list the
    pipeline holds after resolve_aligns, `C03.Frame`) contributes, at its own byte
    offset, the `struct` bytes of the value of `expr` evaluated AT THAT OFFSET against the RETURNED
    tables: `fmt` is one of the twenty documented formats (`data_width_table`), the value fits the
    format's signed / unsigned range, and the n bytes are its two's-complement digits, little-endian for
    `<`, big-endian (the reverse) for `>`. -/
theorem assemble_pack_value (H : Hooks) (compress : Bool) (items : List Item) (r : AsmResult)
    (h : assembleItems H compress items [] [] = .ok r) :
    ∃ lay out, Frame H compress items r lay out ∧
      ∀ (i : Nat) (hi : i < lay.aligned.length) line fmt imm, lay.aligned[i] = .pack line fmt imm →
        ∃ v big signed n,
          Imm.eval H (chainGet r.constants r.labels) line imm ((blobBytes (out.take i)).length : Int) = .ok v ∧
          fmtSpec fmt = some (big, signed, n) ∧ fits signed n v ∧
          (r.bytes.drop (blobBytes (out.take i)).length).take n =
            (if big then (twosLE n v).reverse else twosLE n v) ∧
          (fromLE (if big then ((r.bytes.drop (blobBytes (out.take i)).length).take n).reverse
                   else (r.bytes.drop (blobBytes (out.take i)).length).take n) : Int)
            = v % ((2 ^ (8 * n) : Nat) : Int) := by
  obtain ⟨lay, out, hF⟩ := assemble_land H compress items r h
  have hland := hF.land
  have hbytes := hF.bytes
  refine ⟨lay, out, hF, ?_⟩
  intro i hi line fmt imm hit
  obtain ⟨it', line', d, _, hbody, hfin, hslice⟩ := hland.at i hi
  rw [hit] at hbody
  obtain ⟨v, big, signed, n, hv, hs, hf, hd⟩ := step_pack hbody hfin
  have hdl : d.length = n := by
    rw [hd]; cases big <;> simp [(twosLE_spec n v).1]
  have hsl : (r.bytes.drop (blobBytes (out.take i)).length).take n = (if big then (twosLE n v).reverse else twosLE n v) := by
    rw [hdl] at hslice
    rw [hbytes, hslice]; exact hd
  refine ⟨v, big, signed, n, by simpa using hv, hs, hf, hsl, ?_⟩
  rw [hsl]
  cases big <;> simp [(twosLE_spec n v).2.2]

/-! ## data does not depend on compression -/

/-- the later passes are functions -/
theorem finish_functional {H : Hooks} {a z z' : Item} (h : Finish H a z) (h' : Finish H a z') : z = z' := by
  obtain ⟨b, d, e, f, h1, h2, h3, h4, h5⟩ := h
  obtain ⟨b', d', e', f', h1', h2', h3', h4', h5'⟩ := h'
  rw [h1] at h1'; cases h1'
  rw [h2] at h2'; cases h2'
  rw [h3] at h3'; cases h3'
  rw [h4] at h4'; cases h4'
  rw [h5] at h5'; cases h5'
  rfl

/-- an operand whose value does not depend on position, labels or constants (a literal, arithmetic over
    literals, `%hi`/`%lo` of such) -/
def CtxFree (H : Hooks) (line : Line) (imm : Imm) : Prop :=
  ∀ (env env' : String → Option Int) (p p' : Int), imm.eval H env line p = imm.eval H env' line p'

/-- data items whose bytes are fixed by the item alone -/
def DataLit (H : Hooks) : Item → Prop
  | .string .. => True
  | .includeBytes .. => True
  | .sequence .. => True
  | .blob .. => True
  | .pack line _ imm => CtxFree H line imm
  | .shorthandPack line _ imm => CtxFree H line imm
  | _ => False

/-- whatever the context, such an item ends up as the same blob -/
theorem dataLit_same {H : Hooks} {it : Item} (hd : DataLit H it) {constants constants' L L' : Dict} {p p' : Int}
    {a a' : Item} {line line' : Line} {bs bs' : List Nat}
    (hb : immBody H constants it p L = .ok ([a], 0)) (hf : Finish H a (.blob line bs))
    (hb' : immBody H constants' it p' L' = .ok ([a'], 0)) (hf' : Finish H a' (.blob line' bs')) : bs = bs' := by
  have key : a = a' := by
    cases it with
    | pack ln fmt imm =>
      obtain ⟨v, hv, rfl⟩ := pack_item_value H constants L ln fmt imm p a hb
      obtain ⟨v', hv', rfl⟩ := pack_item_value H constants' L' ln fmt imm p' a' hb'
      rw [hd (chainGet constants L) (chainGet constants' L') p p', hv'] at hv
      cases hv; rfl
    | shorthandPack ln name imm =>
      obtain ⟨v, hv, rfl⟩ := BB.Props.C08.shorthand_item_value H constants L ln name imm p a hb
      obtain ⟨v', hv', rfl⟩ := BB.Props.C08.shorthand_item_value H constants' L' ln name imm p' a' hb'
      rw [hd (chainGet constants L) (chainGet constants' L') p p', hv'] at hv
      cases hv; rfl
    | string ln t => rw [keep_body (by simp [immBody]) hb, keep_body (by simp [immBody]) hb']
    | includeBytes ln pa fs => rw [keep_body (by simp [immBody]) hb, keep_body (by simp [immBody]) hb']
    | sequence ln n vs => rw [keep_body (by simp [immBody]) hb, keep_body (by simp [immBody]) hb']
    | blob ln d => rw [keep_body (by simp [immBody]) hb, keep_body (by simp [immBody]) hb']
    | _ => exact absurd hd (by simp [DataLit])
  subst key
  have := finish_functional hf hf'
  simp only [Item.blob.injEq] at this
  exact this.2

/-- **Data is unchanged by compression.**  Assemble the same items without and with `-c`; let `lay0`,
    `lay1` be the two layouts the inputs determine.  Wherever a data item with context-free operands
    (string, include_bytes, numeric sequence, blob, pack / db…dd of a literal expression) stands in the
    two lists held after resolve_aligns, it contributes THE SAME bytes `d` - as many as the item's size
    - at its offset in the one output and at its offset in the other. -/
theorem data_unchanged_by_compression (H : Hooks) (items : List Item) (r0 r1 : AsmResult)
    (h0 : assembleItems H false items [] [] = .ok r0) (h1 : assembleItems H true items [] [] = .ok r1) :
    ∃ lay0 out0 lay1 out1,
      Frame H false items r0 lay0 out0 ∧ Frame H true items r1 lay1 out1 ∧
      ∀ (i j : Nat) (hi : i < lay0.aligned.length) (hj : j < lay1.aligned.length) (it : Item),
        lay0.aligned[i] = it → lay1.aligned[j] = it → DataLit H it →
        ∃ d : List Nat, (d.length : Int) = it.sizeD ∧
          (r0.bytes.drop (blobBytes (out0.take i)).length).take d.length = d ∧
          (r1.bytes.drop (blobBytes (out1.take j)).length).take d.length = d := by
  obtain ⟨lay0, out0, F0⟩ := assemble_land H false items r0 h0
  obtain ⟨lay1, out1, F1⟩ := assemble_land H true items r1 h1
  refine ⟨lay0, out0, lay1, out1, F0, F1, ?_⟩
  intro i j hi hj it hit0 hit1 hd
  obtain ⟨a, line, d, ho, hb, hf, hs⟩ := F0.land.at i hi
  obtain ⟨a', line', d', _, hb', hf', hs'⟩ := F1.land.at j hj
  have hsz := F0.land.size_at i hi line d ho
  rw [hit0] at hb hsz
  rw [hit1] at hb'
  have := dataLit_same hd hb hf hb' hf'
  subst this
  exact ⟨d, hsz, by rw [F0.bytes]; exact hs, by rw [F1.bytes]; exact hs'⟩

/-! ## non-vacuity -/

example : twosLE 2 (-2) = [254, 255] := by decide
example : twosLE 4 0x12345678 = [0x78, 0x56, 0x34, 0x12] := by decide +kernel

/-- the bytes of an assembly, `[]` if it fails -/
def bytesOf (r : Except Err AsmResult) : List Nat :=
  match r with
  | .ok a => a.bytes
  | .error _ => []

def exData : List Item :=
  [.instr ⟨"m.asm", 1, "nop"⟩ (.i "addi" (.str "x0") (.str "x0") (.arith "0") false),
   .sequence ⟨"m.asm", 2, "shorts 1 -2 65535"⟩ "shorts" ["1", "-2", "65535"],
   .pack ⟨"m.asm", 3, "pack >h, -2"⟩ ">h" (.arith "-2"),
   .pack ⟨"m.asm", 4, "pack <I, 305419896"⟩ "<I" (.arith "305419896")]

/-- `nop / shorts 1 -2 65535 / pack >h, -2 / pack <I, 305419896`: the data bytes are the same in both
    modes, only the `nop` in front shrinks -/
example : bytesOf (assembleItems (textHooks ⟨[], []⟩) false exData [] []) =
    [0x13, 0, 0, 0, 1, 0, 254, 255, 255, 255, 255, 254, 0x78, 0x56, 0x34, 0x12] := by decide +kernel
example : bytesOf (assembleItems (textHooks ⟨[], []⟩) true exData [] []) =
    [1, 0, 1, 0, 254, 255, 255, 255, 255, 254, 0x78, 0x56, 0x34, 0x12] := by decide +kernel

/-- a little program with a label, a pseudo-instruction, an alignment and the data items -/
def exData2 : List Item :=
  [.label ⟨"m.asm", 1, "go:"⟩ "go",
   .pseudo ⟨"m.asm", 2, "nop"⟩ "nop" [],
   .shorthandPack ⟨"m.asm", 3, "db 1"⟩ "db" (.arith "1"),
   .align ⟨"m.asm", 4, "align 4"⟩ 4,
   .sequence ⟨"m.asm", 5, "shorts 1 -2 65535"⟩ "shorts" ["1", "-2", "65535"],
   .pack ⟨"m.asm", 6, "pack >h, -2"⟩ ">h" (.arith "-2"),
   .pack ⟨"m.asm", 7, "pack <I, go"⟩ "<I" (.arith "go"),
   .string ⟨"m.asm", 8, "string hi"⟩ "hi",
   .pseudo ⟨"m.asm", 9, "ret"⟩ "ret" []]

/-- the hypotheses of `assemble_sequence_value`, `assemble_pack_value` and
    `data_unchanged_by_compression` have instances: in both modes the layout computed for `exData2` holds
    the `shorts` item at index 3, the two `pack` items at 4 and 5 and the string at 6 (the same items in
    both modes - the sequence, `pack >h, -2` and the string are `DataLit`), and the assembly succeeds -/
example : ∀ c : Bool,
    (BB.Props.C04.layoutOf (textHooks ⟨[], []⟩) c exData2).toOption.map
      (fun l => (l.aligned[3]?, l.aligned[4]?, l.aligned[5]?, l.aligned[6]?)) = some
      (some (.sequence ⟨"m.asm", 5, "shorts 1 -2 65535"⟩ "shorts" ["1", "-2", "65535"]),
       some (.pack ⟨"m.asm", 6, "pack >h, -2"⟩ ">h" (.arith "-2")),
       some (.pack ⟨"m.asm", 7, "pack <I, go"⟩ "<I" (.arith "go")),
       some (.string ⟨"m.asm", 8, "string hi"⟩ "hi")) ∧
    (bytesOf (assembleItems (textHooks ⟨[], []⟩) c exData2 [] [])).length = (if c then 20 else 26) := by
  decide +kernel

example : DataLit (textHooks ⟨[], []⟩) (.sequence ⟨"m.asm", 5, "shorts 1 -2 65535"⟩ "shorts" ["1", "-2", "65535"]) :=
  trivial

end BB.Props.C10
