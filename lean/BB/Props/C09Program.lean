/-
  BB.Props.C09Program — C09 at program level: what `align a` contributes in a successful assembly.

  `assemble_align`: with `lay` the layout `C04.layoutOf` computes from the inputs (`C03.Frame`),
  resolve_aligns maps `lay.decided` to `lay.aligned` item by item (`parts[i]` is what item i of
  `lay.decided` became: itself, unless it is an `align`), and an `align a` item standing at byte offset
  `off` of the OUTPUT contributes exactly `pad = alignPadding a off` bytes there, all of them zero, where
  for `0 < a`:  `0 ≤ pad < a`,  `pad = (-off) mod a`,  `(off + pad) mod a = 0`,  and no smaller
  non-negative number of bytes would align the next item.

  Composition of `align_minimal` (C09), the item-by-item reading of the resolve_aligns loop
  (`walk_parts`) and the anchored frame of C03End (`Land.offset`: an item's byte offset in the output is
  the sum of the sizes of the items before it; `Land.at`: its bytes are the slice there).

  (This file exists because C03End imports C09; the statement belongs to C09.)
-/
import BB.Props.C10End
namespace BB.Props.C09
open BB BB.Spec BB.Lemmas BB.Props.C03

/-- a successful loop `walk f`, read item by item: item i is handed to `f` at position
    `p + (sizes of what the items before it became)` and `parts[i]` is what `f` returned for it
    (a label marker is passed through) -/
theorem walk_parts {f : Item → Int → Dict → Except Err (List Item × Int)} (G : List Item) :
    ∀ (p : Int) (L : Dict) (G' : List Item) (L' : Dict), walk f G p L = .ok (G', L') →
    ∃ parts : List (List Item), parts.length = G.length ∧ G' = parts.flatten ∧
      ∀ i (hi : i < G.length) (hp : i < parts.length),
        (∃ line nm, G[i] = .label line nm ∧ parts[i] = [G[i]]) ∨
        (∃ Li n, f G[i] (p + sizeSum (parts.take i).flatten) Li = .ok (parts[i], n)) := by
  induction G with
  | nil =>
    intro p L G' L' h
    simp only [walk, Except.ok.injEq, Prod.mk.injEq] at h
    exact ⟨[], rfl, h.1.symm, fun i hi => by simp at hi⟩
  | cons it rest ih =>
    intro p L G' L' h
    by_cases hlab : ∃ line nm, it = .label line nm
    · obtain ⟨line, nm, rfl⟩ := hlab
      simp only [walk, bind, Except.bind] at h
      cases hr : walk f rest p L with
      | error e => simp [hr] at h
      | ok r =>
        obtain ⟨out, l⟩ := r
        simp only [hr, pure, Except.pure, Except.ok.injEq, Prod.mk.injEq] at h
        obtain ⟨parts, hlen, hout, hall⟩ := ih p L out l hr
        refine ⟨[.label line nm] :: parts, by simp [hlen], by rw [← h.1, hout]; rfl, ?_⟩
        intro i hi hp
        cases i with
        | zero => exact Or.inl ⟨line, nm, rfl, rfl⟩
        | succ j =>
          rcases hall j (by simpa using hi) (by simpa using hp) with hl | ⟨Li, n, hf⟩
          · exact Or.inl (by simpa using hl)
          · refine Or.inr ⟨Li, n, ?_⟩
            have e : sizeSum (([Item.label line nm] :: parts).take (j + 1)).flatten
                = sizeSum (parts.take j).flatten := by
              simp only [List.take_succ_cons, List.flatten_cons, sizeSum_append]
              simp [sizeSum, Item.sizeD, Item.size?]
            rw [e]; simpa using hf
    · have hnl : ∀ line nm, it ≠ .label line nm := fun line nm e => hlab ⟨line, nm, e⟩
      have hw : walk f (it :: rest) p L = (do
          let (repl, n) ← f it p L
          let (out, l) ← walk f rest (p + sizeSum repl) (L.shiftAbove p n)
          pure (repl ++ out, l)) := by
        cases it <;> first | rfl | exact absurd rfl (hnl _ _)
      rw [hw] at h
      simp only [bind, Except.bind] at h
      cases hb : f it p L with
      | error e => simp [hb] at h
      | ok r =>
        obtain ⟨repl, n⟩ := r
        simp only [hb] at h
        cases hr : walk f rest (p + sizeSum repl) (L.shiftAbove p n) with
        | error e => simp [hr] at h
        | ok r2 =>
          obtain ⟨out, l⟩ := r2
          simp only [hr, pure, Except.pure, Except.ok.injEq, Prod.mk.injEq] at h
          obtain ⟨parts, hlen, hout, hall⟩ := ih _ _ out l hr
          refine ⟨repl :: parts, by simp [hlen], by rw [← h.1, hout]; rfl, ?_⟩
          intro i hi hp
          cases i with
          | zero =>
            refine Or.inr ⟨L, n, ?_⟩
            simpa [sizeSum] using hb
          | succ j =>
            rcases hall j (by simpa using hi) (by simpa using hp) with hl | ⟨Li, n', hf⟩
            · exact Or.inl (by simpa using hl)
            · refine Or.inr ⟨Li, n', ?_⟩
              have e : p + sizeSum ((repl :: parts).take (j + 1)).flatten
                  = p + sizeSum repl + sizeSum (parts.take j).flatten := by
                simp only [List.take_succ_cons, List.flatten_cons, sizeSum_append]
                omega
              rw [e]; simpa using hf

/-- what the loop body of resolve_aligns returns for an `align`: nothing, or one blob of zeros, as many as
    `alignPadding` says -/
theorem alignBody_align {line : Line} {a p : Int} {L : Dict} {repl : List Item} {n : Int}
    (h : alignBody (.align line a) p L = .ok (repl, n)) :
    ∃ pad : Nat, alignPadding a p = some (pad : Int) ∧
      repl = (if pad = 0 then [] else [.blob line (List.replicate pad 0)]) := by
  simp only [alignBody] at h
  split at h
  · simp at h
  · rename_i padding hpad
    split at h
    · rename_i hz
      simp only [pure, Except.pure, Except.ok.injEq, Prod.mk.injEq] at h
      exact ⟨0, by rw [hpad, hz]; rfl, by rw [← h.1]; rfl⟩
    · rename_i hne
      split at h
      · simp at h
      · rename_i hnn
        simp only [pure, Except.pure, Except.ok.injEq, Prod.mk.injEq] at h
        refine ⟨padding.toNat, ?_, ?_⟩
        · rw [hpad]; congr 1; omega
        · rw [← h.1, if_neg (by omega)]

/-- the stage of `layoutOf` that concerns alignment: `lay.aligned` is resolve_aligns of `lay.decided` -/
theorem layoutOf_aligns {H : Hooks} {compress : Bool} {items : List Item} {lay : BB.Props.C04.Layout}
    (h : BB.Props.C04.layoutOf H compress items = .ok lay) :
    ∃ L6, resolveAligns lay.decided L6 = .ok (lay.aligned, lay.labels) := by
  unfold BB.Props.C04.layoutOf at h
  simp only [bind, Except.bind] at h
  cases h1 : resolveConstants H items [] with
  | error e => simp [h1] at h
  | ok r1 =>
  obtain ⟨items1, constants⟩ := r1
  simp only [h1] at h
  cases h2 : resolveLabels items1 [] with
  | error e => simp [h2] at h
  | ok r2 =>
  obtain ⟨items2, labels2⟩ := r2
  simp only [h2] at h
  cases h3 : maybeCompress H compress (resolveRegisterAliases items2 constants) constants labels2 with
  | error e => simp [h3] at h
  | ok r3 =>
  obtain ⟨items3, labels3⟩ := r3
  simp only [h3] at h
  cases h4 : transformPseudo H items3 constants labels3 with
  | error e => simp [h4] at h
  | ok r4 =>
  obtain ⟨items4, labels4⟩ := r4
  simp only [h4] at h
  cases h6 : maybeCompress H compress (resolveRegisterAliases items4 constants) constants labels4 with
  | error e => simp [h6] at h
  | ok r6 =>
  obtain ⟨items6, labels6⟩ := r6
  simp only [h6] at h
  cases h7 : resolveAligns items6 labels6 with
  | error e => simp [h7] at h
  | ok r7 =>
  obtain ⟨items7, labels7⟩ := r7
  simp only [h7, pure, Except.pure, Except.ok.injEq] at h
  subst h
  exact ⟨labels6, h7⟩

theorem take_flatten_take (parts : List (List Item)) (i : Nat) (hp : i < parts.length) :
    parts.flatten.take (parts.take i).flatten.length = (parts.take i).flatten ∧
    parts.flatten.drop (parts.take i).flatten.length = parts[i] ++ (parts.drop (i + 1)).flatten := by
  have := flatten_split parts i hp
  rw [List.append_assoc] at this
  constructor
  · conv => lhs; rw [this]
    exact List.take_left
  · conv => lhs; rw [this]
    exact List.drop_left

/-- for `0 < a` the padding is `(-off) mod a` -/
theorem pad_eq_neg_mod {a p pad : Int} (h0 : 0 ≤ pad) (h1 : pad < a) (h2 : (p + pad) % a = 0) :
    pad = (-p) % a := by
  have e : -p = pad - (p + pad) := by omega
  rw [e, Int.sub_emod, h2, Int.sub_zero, Int.emod_emod_of_dvd _ (Int.dvd_refl a)]
  exact (Int.emod_eq_of_lt h0 h1).symm

/-- **`align` at program level.**  `lay` is the layout the inputs determine (`C03.Frame`).
    resolve_aligns turns `lay.decided` into `lay.aligned` item by item: `parts[i]` is what item i became,
    and it is the item itself unless the item is an `align`.  If item i is `align a`, let `off` be the
    number of OUTPUT bytes in front of it (the bytes of the `k` blobs that the items before it became):
    the item contributes `pad = alignPadding a off` bytes (nothing at all if `pad = 0`, else ONE blob),
    the output has `pad` ZERO bytes at `off`, and for `0 < a`: `pad < a`, `pad = (-off) mod a`, the next
    item starts at a multiple of `a`, and no smaller padding would do. -/
theorem assemble_align (H : Hooks) (compress : Bool) (items : List Item) (r : AsmResult)
    (h : assembleItems H compress items [] [] = .ok r) :
    ∃ lay out, Frame H compress items r lay out ∧
      ∃ parts : List (List Item), parts.length = lay.decided.length ∧ parts.flatten = lay.aligned ∧
        (∀ i (hi : i < lay.decided.length) (hp : i < parts.length),
          (∀ line a, lay.decided[i] ≠ .align line a) → parts[i] = [lay.decided[i]]) ∧
        ∀ i (hi : i < lay.decided.length) (hp : i < parts.length) line a,
          lay.decided[i] = .align line a →
          ∃ pad : Nat,
            alignPadding a ((blobBytes (out.take (parts.take i).flatten.length)).length : Int)
              = some (pad : Int) ∧
            parts[i] = (if pad = 0 then [] else [.blob line (List.replicate pad 0)]) ∧
            (r.bytes.drop (blobBytes (out.take (parts.take i).flatten.length)).length).take pad
              = List.replicate pad 0 ∧
            (0 < a →
              (pad : Int) < a ∧
              (pad : Int) = (-((blobBytes (out.take (parts.take i).flatten.length)).length : Int)) % a ∧
              (((blobBytes (out.take (parts.take i).flatten.length)).length : Int) + pad) % a = 0 ∧
              ∀ q : Int, 0 ≤ q →
                (((blobBytes (out.take (parts.take i).flatten.length)).length : Int) + q) % a = 0 →
                (pad : Int) ≤ q) := by
  obtain ⟨lay, out, hF⟩ := assemble_land H compress items r h
  obtain ⟨L6, h7⟩ := layoutOf_aligns hF.layout
  unfold resolveAligns at h7
  obtain ⟨parts, hlen, hflat, hall⟩ := walk_parts lay.decided 0 L6 lay.aligned lay.labels h7
  refine ⟨lay, out, hF, parts, hlen, hflat.symm, ?_, ?_⟩
  · intro i hi hp hna
    rcases hall i hi hp with ⟨line, nm, _, e⟩ | ⟨Li, n, hf⟩
    · exact e
    · have hk : alignBody lay.decided[i] (0 + sizeSum (parts.take i).flatten) Li = keepItem lay.decided[i] := by
        cases hit : lay.decided[i] with
        | align line a => exact absurd hit (hna line a)
        | _ => rfl
      rw [hk] at hf
      exact (keepItem_ok hf).1
  · intro i hi hp line a hit
    rcases hall i hi hp with ⟨l2, nm, e, _⟩ | ⟨Li, n, hf⟩
    · rw [hit] at e; cases e
    · rw [hit] at hf
      obtain ⟨pad, hpad, hrepl⟩ := alignBody_align hf
      -- the position handed to the loop body is the item's byte offset in the output
      obtain ⟨htake, hdrop⟩ := take_flatten_take parts i hp
      have hoff : ((blobBytes (out.take (parts.take i).flatten.length)).length : Int)
          = 0 + sizeSum (parts.take i).flatten := by
        rw [hF.land.offset, hflat, htake]; omega
      rw [← hoff] at hpad
      refine ⟨pad, hpad, hrepl, ?_, ?_⟩
      · by_cases hz : pad = 0
        · subst hz; simp
        · -- the blob is item k of `lay.aligned`
          have hk : (parts.take i).flatten.length < lay.aligned.length := by
            have hl := congrArg List.length hdrop
            rw [hrepl, if_neg hz, ← hflat] at hl
            simp only [List.length_drop, List.length_append, List.length_cons, List.length_nil] at hl
            omega
          have hitem : lay.aligned[(parts.take i).flatten.length] = .blob line (List.replicate pad 0) := by
            have : lay.aligned[(parts.take i).flatten.length]? = some (.blob line (List.replicate pad 0)) := by
              have h0 : (parts.flatten.drop (parts.take i).flatten.length)[0]?
                  = parts.flatten[(parts.take i).flatten.length]? := by
                rw [List.getElem?_drop]; rfl
              rw [hflat, ← h0, hdrop, hrepl, if_neg hz]
              rfl
            rw [List.getElem?_eq_getElem hk] at this
            exact Option.some.inj this
          obtain ⟨it', line', d, _, hbody, hfin, hslice⟩ := hF.land.at _ hk
          rw [hitem] at hbody
          have := BB.Props.C10.keep_body (by simp [immBody]) hbody
          subst this
          have hz2 := finish_of_blob (line := line) (bs := List.replicate pad 0) hfin rfl
          simp only [Item.blob.injEq] at hz2
          obtain ⟨_, rfl⟩ := hz2
          rw [hF.bytes]
          simpa using hslice
      · intro ha
        obtain ⟨m1, m2, m3, m4⟩ := align_minimal ha hpad
        exact ⟨m2, pad_eq_neg_mod m1 m2 m3, m3, m4⟩

/-! ### non-vacuity -/

/-- in `C03.sample` the `align 4` is item 5 of the list handed to resolve_aligns, in both modes -/
example : ∀ c : Bool, (BB.Props.C04.layoutOf (textHooks ⟨[], []⟩) c sample).toOption.map
    (fun l => l.decided[5]?) = some (some (.align (sampleLine 7 "align 4") 4)) := by
  decide +kernel

/-- and there: without -c it stands at offset 17 and contributes 3 zero bytes, with -c at offset 13 and
    contributes 3 as well -/
example : (assembleItems (textHooks ⟨[], []⟩) false sample [] []).toOption.map
      (fun r => (r.bytes.drop 17).take 3) = some [0, 0, 0] ∧ alignPadding 4 17 = some 3 ∧
    (assembleItems (textHooks ⟨[], []⟩) true sample [] []).toOption.map
      (fun r => (r.bytes.drop 13).take 3) = some [0, 0, 0] ∧ alignPadding 4 13 = some 3 := by
  decide +kernel

end BB.Props.C09
