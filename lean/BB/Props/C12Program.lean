/-
  BB.Props.C12Program — C12 at program level.

  `compress_preserves_success_program`: if a program assembles without `-c`, it assembles with `-c`,
  under

    GrowHyps            (Props/C20TwoRun: sizes ≥ 0, `align` arguments ≥ 1, pessimistic size < 2 GiB,
                         label-free `li` operands, call / tail targets not constants, the `%offset` hook)
    two hook hypotheses  `LitOK` (the numerals 0 … 31 evaluate to themselves) and `Neg1OK` (`-1` evaluates
                         to −1) — both hold of the real evaluator (`textHooks_hooks`)
    SrcOK per item       a source instruction is a 32-bit one of its own class, its immediate label-free or
                         — for b-type / j-type rows — `%offset n` with `n` a LABEL that no constant
                         shadows; pack / shorthand immediates label-free; branch / jump / call / tail
                         pseudo-instruction targets are labels that no constant shadows
    AlignFreeTransfers  (Props/C12TwoRun) no `align` between a transfer and its label
    NearRefs            the pessimistic stretch between a transfer and its label is below 1 MiB
                         (`nearRefs_of_small`: any program below 1 MiB)

  `EvenAligns` and the `Stable` clauses of `Tame` are NOT needed.

  `statement2_false`: `compress_preserves_success_statement2` (Props/C12TwoRun) is FALSE — a branch whose
  target is a CONSTANT (an absolute address) moves away from its target when the code before it shrinks
  (KF-G; confirmed on the real assembler).  The extra hypothesis "targets are labels" in `SrcOK` is what
  this forces.
-/
import BB.Lemmas.SuccMain
namespace BB.Props.C12
open BB BB.Spec BB.Lemmas
open BB.Props.C03 (Land)
open BB.Props.C20 (GrowHyps)
open BB.Props.C05 (immTokens)

/-- the pessimistic stretch from a transfer to its label (the transfer included) is below 1 MiB -/
def NearRefs (items : List Item) : Prop :=
  ∀ (A B C : List Item) (x : Item) (line : Line) (n : String), Item.targets x n →
    (items = A ++ x :: B ++ .label line n :: C → sizeSum (x :: B) ≤ 1048575) ∧
    (items = A ++ .label line n :: B ++ x :: C → sizeSum (B ++ [x]) ≤ 1048575)

structure C12Hyps (H : Hooks) (items : List Item) : Prop where
  grow : GrowHyps H items
  lit : ∀ line p env, LitOK (evalAt H env line p)
  neg1 : Neg1OK H
  src : ∀ items1 constants, resolveConstants H items [] = .ok (items1, constants) →
    ∀ x ∈ items, SrcOK H constants (labelNames items) x

/-! ### from `Item.targets` to `Item.refs` -/

theorem targets_of_refs {H : Hooks} {constants : Dict} {names : List String} {x : Item} {n : String}
    (hsrc : SrcOK H constants names x) (h : Item.refs x n) : Item.targets x n := by
  rcases h with ⟨line, ins, imm, rfl, hi, hr⟩ | ⟨line, name, args, k, rfl, hk, hkli, ht⟩
  · simp only [SrcOK] at hsrc
    obtain ⟨_, _, himm⟩ := hsrc
    rcases himm with hfree | ⟨m, _, _, hoff, _⟩
    · exact absurd (hfree imm hi) (not_labelfree_ref H constants hr)
    · rw [hoff] at hi
      simp only [Option.some.injEq] at hi
      subst hi
      simp only [refOf, Option.some.injEq] at hr
      subst hr
      exact Or.inl ⟨line, ins, rfl, hoff⟩
  · refine Or.inr ⟨line, name, args, rfl, ?_, k, hk, ?_⟩
    · unfold immTokens at ht
      split at ht
      · exact absurd rfl hkli
      all_goals first
        | (simp only [Option.some.injEq, List.cons.injEq, and_true, true_and] at ht; subst ht; rfl)
        | (simp at ht)
    · refine ⟨hkli, ?_, ?_, ?_, ?_, ?_, ?_, ?_, ?_, ?_⟩ <;>
        (intro e; subst e; unfold immTokens at ht; split at ht <;> simp_all)

theorem spanOK_source {H : Hooks} {constants : Dict} {items : List Item}
    (hsrc : ∀ x ∈ items, SrcOK H constants (labelNames items) x)
    (haf : AlignFreeTransfers items) (hnear : NearRefs items) : SpanOK items := by
  intro P x S n e hr
  have hx : x ∈ items := by rw [e]; exact List.mem_append_right _ List.mem_cons_self
  have ht := targets_of_refs (hsrc x hx) hr
  refine ⟨?_, ?_⟩
  · intro Sa l Sb eS
    have e' : items = P ++ x :: Sa ++ .label l n :: Sb := by rw [e, eS]; try simp
    exact ⟨fun y hy l' a e2 => haf P Sa Sb x l n ht (Or.inl e') l' a (by rw [← e2]; exact hy),
      (hnear P Sa Sb x l n ht).1 e'⟩
  · intro Pa l Pb eP
    have e' : items = Pa ++ .label l n :: Pb ++ x :: S := by rw [e, eP]; try simp
    exact ⟨fun y hy l' a e2 => haf Pa Pb S x l n ht (Or.inr e') l' a (by rw [← e2]; exact hy),
      (hnear Pa Pb S x l n ht).2 e'⟩

/-- any program whose pessimistic size is below 1 MiB -/
theorem nearRefs_of_small {items : List Item} (hnn : NonNeg items) (h : sizeSum items ≤ 1048575) : NearRefs items := by
  intro A B C x line n _
  refine ⟨?_, ?_⟩
  · intro e
    have h1 : NonNeg A := fun y hy => hnn y (by rw [e]; simp [hy])
    have h2 : NonNeg C := fun y hy => hnn y (by rw [e]; simp [hy])
    have k1 := sizeSum_nonneg h1
    have k2 := sizeSum_nonneg h2
    rw [e] at h
    simp only [sizeSum, List.map_append, List.sum_append, List.map_cons, List.sum_cons, List.map_nil, List.sum_nil,
      Item.sizeD, Item.size?, Option.getD_some] at h k1 k2 ⊢
    omega
  · intro e
    have h1 : NonNeg A := fun y hy => hnn y (by rw [e]; simp [hy])
    have h2 : NonNeg C := fun y hy => hnn y (by rw [e]; simp [hy])
    have k1 := sizeSum_nonneg h1
    have k2 := sizeSum_nonneg h2
    rw [e] at h
    simp only [sizeSum, List.map_append, List.sum_append, List.map_cons, List.sum_cons, List.map_nil, List.sum_nil,
      Item.sizeD, Item.size?, Option.getD_some] at h k1 k2 ⊢
    omega

/-! ### the theorem -/

theorem strip_index {G P S : List Item} {x : Item} (e : G = P ++ x :: S) (hx : ∀ l n, x ≠ .label l n) :
    ∃ (i : Nat) (hi : i < (strip G).length), (strip G)[i] = x ∧ (strip G).take i = strip P := by
  have es : strip G = strip P ++ x :: strip S := by rw [e, strip_append, strip_cons_of_not_label hx]
  refine ⟨(strip P).length, by rw [es]; simp, ?_, ?_⟩
  · simp [es]
  · rw [es]; simp

/-- **C12, program level.** -/
theorem compress_preserves_success_program (H : Hooks) (items : List Item) (r₀ : AsmResult)
    (hyp : C12Hyps H items) (haf : AlignFreeTransfers items) (hnear : NearRefs items)
    (h0 : assembleItems H false items [] [] = .ok r₀) : ∃ r₁, assembleItems H true items [] [] = .ok r₁ := by
  obtain ⟨items1, items2, a3, a4, a6, a7, out0, labels2, l3, l4, l6, _, h1, h2, e3, ha4, e6, ha7, hland0, _⟩ :=
    assemble_stages_all H false items r₀ h0
  simp only [maybeCompress, Bool.false_eq_true, if_false, pure, Except.pure, Except.ok.injEq, Prod.mk.injEq] at e3 e6
  obtain ⟨rfl, rfl⟩ := e3
  obtain ⟨rfl, rfl⟩ := e6
  have hsrc := hyp.src items1 r₀.constants h1
  obtain ⟨b3, lb3, b4, lb4, b6, lb6, b7, lb7, hb3, hb4, hb6, hb7⟩ :=
    run1_layout H items hyp.grow hyp.lit hyp.neg1 h1 h2 ha4 ha7 hland0 hsrc
  obtain ⟨A4, B6, wa4, corr, sA, sB, nn0, nn1, nodup, hnames, agree0, agree1, hblocks⟩ :=
    two_run_ghost H items hyp.grow r₀.constants h1 h2 ha4 ha7 hb3 hb4 hb6 hb7
  subst sA sB
  obtain ⟨c1, _, c3⟩ := BB.Props.C03.resolveConstants_spec H items [] items1 r₀.constants h1
  obtain ⟨l1, _, _, _, _⟩ := resolveLabelsAux_spec items1 0 [] [] items2 labels2 h2
  -- `Good`
  have hgood : ∀ a ∈ resolveRegisterAliases A4 r₀.constants, Good H r₀.constants (labelNames items) a := by
    refine good_A5 hyp.grow.offset hyp.lit hyp.neg1 ?_ ?_ wa4
    · intro x hx hnp
      unfold resolveRegisterAliases at hx
      obtain ⟨x0, hx0, rfl⟩ := List.mem_map.mp hx
      have hnp0 : ∀ l n a, x0 ≠ .pseudo l n a := by
        intro l n a e; subst e; exact hnp l n a rfl
      have := good_alias r₀.constants (srcOK_good (hsrc x0 (c3 x0 hx0)) hnp0)
      cases x0 <;> exact this
    · intro line name args hm
      have hmi : Item.pseudo line name args ∈ items := c3 _ (mem_aliases_other (by intro l i e; cases e) hm)
      have hs := hsrc _ hmi
      simp only [SrcOK] at hs
      exact ⟨fun hk imm hp => hyp.grow.li items1 r₀.constants h1 line name args hmi hk imm hp, hs⟩
  -- spans
  have hspan : SpanOK B6 := hblocks.spanOK nn1 (spanOK_source hsrc haf hnear)
  -- the decisions of the -c run, read at the final tables
  have horacle : ∀ P line cf S, alignImg B6 0 = P ++ .instr line cf :: S → cf.isCompressed = true →
      DecOracle H r₀.constants lb7 (labelNames items) (sizeSum P) line cf := by
    intro P line cf S e hc
    obtain ⟨i, hi, hit, htake⟩ := strip_index e (by intro l n e; cases e)
    rcases decided_holds_final H r₀.constants hyp.grow.nonneg h1 h2 hb3 hb4 hb6 hb7 i hi hit hc with
      ho | ⟨ins, c, preds, p, L, hdec, _, _, htr⟩
    · -- it would be a compressed instruction of the source
      exfalso
      obtain ⟨x0, hx0, rfl⟩ := mem_aliases ho
      rw [l1] at hx0
      have hs := hsrc _ (c3 _ (mem_strip hx0).1)
      simp only [SrcOK] at hs
      obtain ⟨_, _, _, hnc⟩ := wellKinded_row hs.1
      rw [mapRegs_isCompressed, hnc] at hc
      cases hc
    · refine ⟨ins, c, preds, p, L, hdec, ?_⟩
      have hq : sizeSum ((strip (alignImg B6 0)).take i) = sizeSum P := by rw [htake, sizeSum_strip]
      rw [hq] at htr
      exact htr
  obtain ⟨out1, hland1⟩ := lands_final hyp.lit corr nn0 nn1 nodup hnames agree0 agree1 hspan hgood hland0 horacle
  exact ⟨_, assemble_of_stages H true h1 h2 hb3 hb4 hb6 hb7 hland1⟩

/-! ### the hooks of the text front end -/

/-- the real evaluator and `parse_immediate` satisfy the three hook hypotheses -/
theorem textHooks_hooks (fs : FS) :
    (∀ line p env, LitOK (evalAt (textHooks fs) env line p)) ∧ Neg1OK (textHooks fs) ∧ OffsetHook (textHooks fs) :=
  ⟨fun line p env => BB.Props.C04.litOK_evalArith (textHooks fs) rfl env line p, fun _ => rfl,
    BB.Props.C20.textHooks_offsetHook fs⟩

/-! ### checking `AlignFreeTransfers` on a concrete program -/

/-- every `align` of the program comes before every label and every transfer -/
theorem alignFree_of_prefix {items pre rest : List Item} (e : items = pre ++ rest)
    (hrest : ∀ l a, Item.align l a ∉ rest) (hlab : ∀ l n, Item.label l n ∉ pre)
    (htg : ∀ x ∈ pre, ∀ n, ¬ Item.targets x n) : AlignFreeTransfers items := by
  intro A B C x line n ht hor l a hB
  have key : ∀ (A' : List Item) (y : Item) (T : List Item), y ∉ pre → items = A' ++ y :: T → ∀ z ∈ T, z ∈ rest := by
    intro A' y T hy e2 z hz
    rw [e] at e2
    rcases List.append_eq_append_iff.mp e2 with ⟨c, hc1, hc2⟩ | ⟨c, hc1, hc2⟩
    · rw [hc2]; exact List.mem_append_right _ (List.mem_cons_of_mem _ hz)
    · cases c with
      | nil => simp only [List.nil_append] at hc2; rw [← hc2]; exact List.mem_cons_of_mem _ hz
      | cons c0 c =>
        simp only [List.cons_append, List.cons.injEq] at hc2
        obtain ⟨rfl, _⟩ := hc2
        exact absurd (by rw [hc1]; simp) hy
  rcases hor with e2 | e2
  · have hx : x ∉ pre := fun h => htg x h n ht
    have e3 : items = A ++ x :: (B ++ .label line n :: C) := by rw [e2]; simp
    exact hrest l a (key A x _ hx e3 _ (List.mem_append_left _ hB))
  · have hx : Item.label line n ∉ pre := hlab line n
    have e3 : items = A ++ .label line n :: (B ++ x :: C) := by rw [e2]; simp
    exact hrest l a (key A _ _ hx e3 _ (List.mem_append_left _ hB))

/-! ### non-vacuity -/

/-- a closed evaluator: M = −32, the literals −1 and 4106, the numerals 0 … 31 -/
def litQ (e : String) : Except ExprErr Int :=
  if e = "M" then .ok (-32) else if e = "-1" then .ok (-1) else if e = "4106" then .ok 4106
  else match (List.range 32).find? (fun n => toString n = e) with
    | some n => .ok (n : Int)
    | none => .error .error

def Hp : Hooks :=
  { arith := fun e _ => litQ e
    parseImm := fun toks line => match toks with
      | ["%offset", r] => .ok (.offset r)
      | [e] => .ok (.arith e)
      | _ => .error (.asm line)
    readFile := fun _ => none }

theorem litQ_ok : ∀ n : Nat, n < 32 → litQ (toString n) = .ok ((n : Nat) : Int) := by decide

theorem hp_litOK (line : Line) (p : Int) (env : String → Option Int) : LitOK (evalAt Hp env line p) := by
  intro n hn
  simp only [evalAt, Imm.eval, Hp, litQ_ok n hn, liftExpr, Except.toOption]

theorem hp_neg1 : Neg1OK Hp := fun _ => rfl

theorem hp_offset : OffsetHook Hp := by
  intro ref line imm h
  simp only [Hp, Except.ok.injEq] at h
  exact h.symm

def lp (n : Nat) : Line := ⟨"f", n, ""⟩

/-- `align 4 ; B: ; beqz a0, F ; call F ; addi a0, a0, M ; not a1, a1 ; bne a0, a1, B ; F: ; ret` -/
def progP : List Item :=
  [.align (lp 1) 4,
   .label (lp 2) "B",
   .pseudo (lp 3) "beqz" ["a0", "F"],
   .pseudo (lp 4) "call" ["F"],
   .instr (lp 5) (.i "addi" (.str "a0") (.str "a0") (.arith "M") false),
   .pseudo (lp 6) "not" ["a1", "a1"],
   .instr (lp 7) (.b "bne" (.str "a0") (.str "a1") (.offset "B")),
   .label (lp 8) "F",
   .pseudo (lp 9) "ret" []]

theorem progP_consts : resolveConstants Hp progP [] = .ok (progP, []) := by decide

theorem progP_grow : GrowHyps Hp progP := by
  refine ⟨by unfold NonNeg; decide, ?_, by decide, ?_, ?_, hp_offset⟩
  · intro line a hm
    simp [progP] at hm
    omega
  · intro items1 constants h line name args hm hk
    simp [progP] at hm
    rcases hm with ⟨_, rfl, _⟩ | ⟨_, rfl, _⟩ | ⟨_, rfl, _⟩ | ⟨_, rfl, _⟩ <;> exact absurd hk (by decide)
  · intro items1 constants h line name args ref hm hk ha
    rw [progP_consts] at h
    cases h
    rfl

theorem progP_hyps : C12Hyps Hp progP := by
  refine ⟨progP_grow, hp_litOK, hp_neg1, ?_⟩
  intro items1 constants h x hx
  rw [progP_consts] at h
  cases h
  have hnames : labelNames progP = ["B", "F"] := by decide
  rw [hnames]
  simp only [progP, List.mem_cons, List.mem_nil_iff, or_false] at hx
  rcases hx with rfl | rfl | rfl | rfl | rfl | rfl | rfl | rfl | rfl
  · trivial
  · trivial
  · intro k r hk hkli ht
    have e : k = .brz "beq" := by
      have : pseudoKind "beqz" = some (.brz "beq") := by decide
      rw [this] at hk; exact (Option.some.inj hk).symm
    subst e
    simp only [immTokens, Option.some.injEq, List.cons.injEq, and_true, true_and] at ht
    subst ht
    exact ⟨by decide, rfl⟩
  · intro k r hk hkli ht
    have e : k = .call := by
      have : pseudoKind "call" = some .call := by decide
      rw [this] at hk; exact (Option.some.inj hk).symm
    subst e
    simp only [immTokens, Option.some.injEq, List.cons.injEq, and_true, true_and] at ht
    subst ht
    exact ⟨by decide, rfl⟩
  · refine ⟨by decide, rfl, Or.inl ?_⟩
    intro imm hi
    simp only [Instr.imm?, Option.some.injEq] at hi
    subst hi
    exact fun _ _ _ _ _ => rfl
  · intro k r hk hkli ht
    have e : k = .not := by
      have : pseudoKind "not" = some .not := by decide
      rw [this] at hk; exact (Option.some.inj hk).symm
    subst e
    simp [immTokens] at ht
  · exact ⟨by decide, rfl, Or.inr ⟨"B", by decide, rfl, rfl, Or.inl ⟨_, _, _, _, rfl⟩⟩⟩
  · trivial
  · intro k r hk hkli ht
    have e : k = .ret := by
      have : pseudoKind "ret" = some .ret := by decide
      rw [this] at hk; exact (Option.some.inj hk).symm
    subst e
    simp [immTokens] at ht

theorem progP_alignFree : AlignFreeTransfers progP := by
  refine alignFree_of_prefix (pre := [.align (lp 1) 4]) (rest := progP.tail) rfl ?_ ?_ ?_
  · intro l a h
    simp [progP] at h
  · intro l n h
    simp at h
  · intro x hx n ht
    simp only [List.mem_singleton] at hx
    subst hx
    rcases ht with ⟨_, _, e, _⟩ | ⟨_, _, _, e, _⟩ <;> cases e

theorem progP_near : NearRefs progP := nearRefs_of_small (by unfold NonNeg; decide) (by decide)

/-- the theorem applies: the `-c` run of `progP` succeeds because the plain one does -/
example : ∃ r₁, assembleItems Hp true progP [] [] = .ok r₁ :=
  compress_preserves_success_program Hp progP _ progP_hyps progP_alignFree progP_near
    (by decide : assembleItems Hp false progP [] [] = .ok
      { bytes := [99, 10, 5, 0, 239, 0, 0, 1, 19, 5, 5, 254, 147, 197, 245, 255, 227, 24, 181, 254, 103, 128, 0, 0],
        labels := [("B", 0), ("F", 20)], constants := [] })

/-- … and what it is: 16 bytes (c.beqz, c.jal, c.addi, xori, bne, c.jr), F = 14 -/
example : assembleItems Hp true progP [] [] = .ok
    { bytes := [25, 197, 49, 32, 1, 21, 147, 197, 245, 255, 227, 27, 181, 254, 130, 128],
      labels := [("B", 0), ("F", 14)], constants := [] } := by decide

/-! ### KF-G: a branch to a constant -/

/-- `K = 4106 ; addi x0,x0,0 ×3 ; beq x1, x2, K` -/
def progK : List Item :=
  [.constant (lp 1) "K" (.arith "4106"),
   .instr (lp 2) (.i "addi" (.str "x0") (.str "x0") (.arith "0") false),
   .instr (lp 3) (.i "addi" (.str "x0") (.str "x0") (.arith "0") false),
   .instr (lp 4) (.i "addi" (.str "x0") (.str "x0") (.arith "0") false),
   .instr (lp 5) (.b "beq" (.str "x1") (.str "x2") (.offset "K"))]

/-- **counterexample (KF-G).**  Without `-c` the branch sits at 12 and jumps 4094 bytes to the absolute
    address 4106; with `-c` the three nops take 6 bytes, the branch sits at 6 and would have to jump 4100
    bytes: refused at line 5. -/
theorem branch_to_constant_grows :
    (assembleItems Hp false progK [] []).map (fun r => (r.bytes.length, r.constants)) = .ok (16, [("K", 4106)]) ∧
    assembleItems Hp true progK [] [] = .error (.asm (lp 5)) := by decide +kernel

theorem progK_consts : resolveConstants Hp progK [] = .ok (progK.tail, [("K", 4106)]) := by decide

theorem progK_grow : GrowHyps Hp progK := by
  refine ⟨by unfold NonNeg; decide, ?_, by decide, ?_, ?_, hp_offset⟩
  · intro line a hm
    simp [progK] at hm
  · intro items1 constants h line name args hm hk
    simp [progK] at hm
  · intro items1 constants h line name args ref hm hk ha
    simp [progK] at hm

/-- `Stable`, as a computation -/
def stableCheck (H : Hooks) (compress : Bool) (items : List Item) : Bool :=
  match BB.Props.C04.layoutOf H compress items with
  | .ok lay => decide (BB.Props.C04.decidedO H compress items
      (fun line sub => BB.Props.C04.finalPos lay.aligned line sub 0) lay.labels = .ok lay.decided)
  | .error _ => true

theorem stable_of_check {H : Hooks} {compress : Bool} {items : List Item}
    (h : stableCheck H compress items = true) : BB.Props.C04.Stable H compress items := by
  intro lay hl
  unfold stableCheck at h
  rw [hl] at h
  simpa using h

theorem progK_tame : Tame Hp progK := by
  refine ⟨stable_of_check (by decide +kernel), stable_of_check (by decide +kernel), ?_⟩
  intro items' constants h it hit
  rw [progK_consts] at h
  cases h
  simp only [progK, List.tail_cons, List.mem_cons, List.mem_nil_iff, or_false] at hit
  rcases hit with rfl | rfl | rfl | rfl
  · intro imm hi
    simp only [Instr.imm?, Option.some.injEq] at hi; subst hi
    exact Or.inl (fun _ _ _ _ _ => rfl)
  · intro imm hi
    simp only [Instr.imm?, Option.some.injEq] at hi; subst hi
    exact Or.inl (fun _ _ _ _ _ => rfl)
  · intro imm hi
    simp only [Instr.imm?, Option.some.injEq] at hi; subst hi
    exact Or.inl (fun _ _ _ _ _ => rfl)
  · intro imm hi
    simp only [Instr.imm?, Option.some.injEq] at hi; subst hi
    exact Or.inr ⟨"K", rfl⟩

theorem progK_alignFree : AlignFreeTransfers progK := by
  intro A B C x line n _ hor
  exfalso
  have : Item.label line n ∈ progK := by
    rcases hor with e | e <;> rw [e] <;> simp
  simp [progK] at this

/-- **`compress_preserves_success_statement2` is false.** -/
theorem statement2_false : ¬ compress_preserves_success_statement2 := by
  intro h
  obtain ⟨r0, h0⟩ : ∃ r0, assembleItems Hp false progK [] [] = .ok r0 := by
    cases e : assembleItems Hp false progK [] [] with
    | ok r => exact ⟨r, rfl⟩
    | error err =>
      have := branch_to_constant_grows.1
      rw [e] at this
      cases this
  obtain ⟨r1, h1⟩ := h Hp progK r0 hp_litOK progK_grow progK_tame
    (by intro line a hm; simp [progK] at hm) progK_alignFree
    (by
      intro line ins hm
      simp only [progK, List.mem_cons, List.mem_nil_iff, or_false, reduceCtorEq, false_or, Item.instr.injEq] at hm
      rcases hm with ⟨_, rfl⟩ | ⟨_, rfl⟩ | ⟨_, rfl⟩ | ⟨_, rfl⟩ <;> decide) h0
  rw [branch_to_constant_grows.2] at h1
  cases h1

end BB.Props.C12
