/-
  BB.Props.C09 — the output is the in-order concatenation of the items; align pads minimally with zeros.

  `assemble_in_order`: whenever `assembleItems` succeeds, the final list of byte blobs is the
  concatenation, in source order, of one image per source item (`Expands`, Lemmas/Order.lean):
  every blob carries the source line of the item it came from, labels and constants contribute
  nothing, a data item contributes ONE blob of exactly its documented size, an instruction ONE blob of
  2 or 4 bytes, a pseudo-instruction ONE or TWO blobs of 2 / 4 bytes each, `align a` nothing or one blob
  of fewer than `a` zero bytes (`Img.bytes_of_blobs`) — nothing is added, dropped or reordered by any
  of the fifteen passes.
  `align_minimal` / `align_emits_zeros`: what `align N` contributes at position p.
  The PROGRAM-level statement - in every successful assembly an `align a` item contributes exactly
  `(-offset) mod a` zero bytes at its final offset - is `assemble_align` in Props/C09Program.lean (it needs
  the anchored frame of C03End, which imports this file).
-/
import BB.Lemmas.OrderPasses
import BB.Props.C03
namespace BB.Props.C09
open BB BB.Lemmas

/-- bytes of a list that consists of blobs only -/
def bytesOf (l : List Item) : List Nat := blobBytes l

theorem resolveBlobs_bytes (l : List Item) (bs : List Nat) (h : resolveBlobs l = .ok bs) :
    (∀ x ∈ l, ∃ line d, x = .blob line d) ∧ bs = blobBytes l := by
  induction l generalizing bs with
  | nil =>
    simp only [resolveBlobs, Except.ok.injEq] at h
    exact ⟨fun x hx => by simp at hx, h.symm⟩
  | cons it rest ih =>
    cases it with
    | blob l d =>
      simp only [resolveBlobs, bind, Except.bind] at h
      cases hr : resolveBlobs rest with
      | error e => simp [hr] at h
      | ok o =>
        simp only [hr, pure, Except.pure, Except.ok.injEq] at h
        obtain ⟨h1, h2⟩ := ih o hr
        refine ⟨?_, by simp [blobBytes, ← h, h2]⟩
        intro x hx
        simp only [List.mem_cons] at hx
        rcases hx with rfl | hx
        · exact ⟨l, d, rfl⟩
        · exact h1 x hx
    | _ => simp [resolveBlobs] at h

theorem maybeCompress_expands (H : Hooks) (compress : Bool) (items : List Item) (constants labels : Dict)
    (out : List Item) (l : Dict) (h : maybeCompress H compress items constants labels = .ok (out, l)) :
    Expands items out := by
  unfold maybeCompress at h
  by_cases hc : compress = true
  · rw [if_pos hc] at h
    exact walk_expands (compressBody_img H constants) items 0 labels out l h
  · rw [if_neg hc] at h
    simp only [pure, Except.pure, Except.ok.injEq, Prod.mk.injEq] at h
    rw [← h.1]; exact Expands.refl _

/-- **Nothing added, dropped or reordered.** -/
theorem assemble_in_order (H : Hooks) (compress : Bool) (items : List Item) (r : AsmResult)
    (h : assembleItems H compress items [] [] = .ok r) :
    ∃ out : List Item, Expands items out ∧ (∀ x ∈ out, ∃ line d, x = .blob line d) ∧
      r.bytes = blobBytes out := by
  unfold assembleItems at h
  simp only [bind, Except.bind] at h
  cases h1 : resolveConstants H items [] with
  | error e => simp [h1] at h
  | ok r1 =>
  obtain ⟨items1, constants⟩ := r1
  simp only [h1] at h
  have e1 := resolveConstants_expands H items [] items1 constants h1
  cases h2 : resolveLabels items1 [] with
  | error e => simp [h2] at h
  | ok r2 =>
  obtain ⟨items2, labels2⟩ := r2
  simp only [h2] at h
  have e2 := e1.trans (resolveLabelsAux_expands items1 0 [] [] items2 labels2 h2)
  have e2a := e2.trans (aliases_expands items2 constants)
  cases h3 : maybeCompress H compress (resolveRegisterAliases items2 constants) constants labels2 with
  | error e => simp [h3] at h
  | ok r3 =>
  obtain ⟨items3, labels3⟩ := r3
  simp only [h3] at h
  have e3 := e2a.trans (maybeCompress_expands H compress _ constants labels2 items3 labels3 h3)
  cases h4 : transformPseudo H items3 constants labels3 with
  | error e => simp [h4] at h
  | ok r4 =>
  obtain ⟨items4, labels4⟩ := r4
  simp only [h4] at h
  have e4 := e3.trans (walk_expands (pseudoBody_img H constants) items3 0 labels3 items4 labels4 h4)
  have e5 := e4.trans (aliases_expands items4 constants)
  cases h6 : maybeCompress H compress (resolveRegisterAliases items4 constants) constants labels4 with
  | error e => simp [h6] at h
  | ok r6 =>
  obtain ⟨items6, labels6⟩ := r6
  simp only [h6] at h
  have e6 := e5.trans (maybeCompress_expands H compress _ constants labels4 items6 labels6 h6)
  cases h7 : resolveAligns items6 labels6 with
  | error e => simp [h7] at h
  | ok r7 =>
  obtain ⟨items7, labels7⟩ := r7
  simp only [h7] at h
  have e7 := e6.trans (walk_expands alignBody_img items6 0 labels6 items7 labels7 h7)
  cases h8 : resolveImmediates H items7 constants labels7 with
  | error e => simp [h8] at h
  | ok items8 =>
  simp only [h8] at h
  unfold resolveImmediates at h8
  simp only [bind, Except.bind] at h8
  cases h8w : walk (immBody H constants) items7 0 labels7 with
  | error e => simp [h8w] at h8
  | ok r8 =>
  obtain ⟨o8, l8⟩ := r8
  simp only [h8w, pure, Except.pure, Except.ok.injEq] at h8
  subst h8
  have e8 := e7.trans (walk_expands (immBody_img H constants) items7 0 labels7 o8 l8 h8w)
  cases h9 : resolveInstructions o8 with
  | error e => simp [h9] at h
  | ok items9 =>
  simp only [h9] at h
  have e9 := e8.trans (mapM_expands instrStep_img o8 items9 h9)
  have e10 := e9.trans (strings_expands items9)
  cases h11 : resolveSequences (resolveStrings items9) with
  | error e => simp [h11] at h
  | ok items11 =>
  simp only [h11] at h
  have e11 := e10.trans (mapM_expands seqStep_img _ items11 h11)
  cases h12 : transformShorthandPacks items11 with
  | error e => simp [h12] at h
  | ok items12 =>
  simp only [h12] at h
  have e12 := e11.trans (mapM_expands shorthandStep_img _ items12 h12)
  cases h13 : resolvePacks items12 with
  | error e => simp [h13] at h
  | ok items13 =>
  simp only [h13] at h
  have e13 := e12.trans (mapM_expands packStep_img _ items13 h13)
  cases h14 : resolveIncludeBytes H items13 with
  | error e => simp [h14] at h
  | ok items14 =>
  simp only [h14] at h
  have e14 := e13.trans (mapM_expands (includeBytesStep_img H) _ items14 h14)
  cases h15 : resolveBlobs items14 with
  | error e => simp [h15] at h
  | ok bytes =>
  simp only [h15, pure, Except.pure, Except.ok.injEq] at h
  obtain ⟨hb1, hb2⟩ := resolveBlobs_bytes items14 bytes h15
  exact ⟨items14, e14, hb1, by rw [← h]; exact hb2⟩

/-- reading of `Expands` as a partition: one (possibly empty) run of output items per source item -/
theorem Expands.parts {items out : List Item} (h : Expands items out) :
    ∃ parts : List (List Item), parts.length = items.length ∧ out = parts.flatten ∧
      ∀ i (hi : i < items.length) (hp : i < parts.length), Img items[i] parts[i] := by
  induction h with
  | nil => exact ⟨[], rfl, rfl, fun i hi => by simp at hi⟩
  | @cons it rest repl out hi _ ih =>
    obtain ⟨parts, hlen, hout, hall⟩ := ih
    refine ⟨repl :: parts, by simp [hlen], by simp [hout], ?_⟩
    intro i h1 h2
    cases i with
    | zero => exact hi
    | succ j => exact hall j (by simpa using h1) (by simpa using h2)

/-- what the final blobs of one source item add up to: nothing for a label / constant, the documented
    size for a data item, 2 or 4 bytes for an instruction, ONE or TWO blobs of 2 / 4 bytes each for a
    pseudo-instruction (never dropped, never more), and for `align a` fewer than `a` ZERO bytes -/
theorem Img.bytes_of_blobs {it : Item} {repl : List Item} (h : Img it repl)
    (hb : ∀ x ∈ repl, ∃ line d, x = .blob line d) :
    (Item.isMarker it = true → repl = []) ∧
    (Item.isData it = true → ((blobBytes repl).length : Int) = it.sizeD) ∧
    (Item.isInstr it = true → (blobBytes repl).length = 2 ∨ (blobBytes repl).length = 4) ∧
    (∀ line name args, it = .pseudo line name args →
      (repl.length = 1 ∨ repl.length = 2) ∧
      ((blobBytes repl).length = 2 ∨ (blobBytes repl).length = 4 ∨ (blobBytes repl).length = 6 ∨
        (blobBytes repl).length = 8)) ∧
    (∀ line a, it = .align line a →
      ∃ n : Nat, (n = 0 ∨ (n : Int) < a) ∧ blobBytes repl = List.replicate n 0) := by
  have hlen : ∀ l : List Item, (∀ x ∈ l, ∃ line d, x = .blob line d) →
      ((blobBytes l).length : Int) = sizeSum l := by
    intro l hl
    induction l with
    | nil => simp [blobBytes, sizeSum]
    | cons x t ih =>
      obtain ⟨line, d, rfl⟩ := hl x List.mem_cons_self
      have := ih (fun y hy => hl y (List.mem_cons_of_mem _ hy))
      simp only [blobBytes, List.length_append, sizeSum_cons, Item.sizeD, Item.size?, Option.getD_some]
      push_cast
      simp only [Int.ofNat_eq_natCast]
      omega
  refine ⟨?_, ?_, ?_, ?_, ?_⟩
  · intro hm
    cases repl with
    | nil => rfl
    | cons x t =>
      obtain ⟨line, d, rfl⟩ := hb x List.mem_cons_self
      have := h.marker hm _ List.mem_cons_self
      simp [Item.isMarker] at this
  · intro hd
    obtain ⟨x, rfl, _, hs⟩ := h.data hd
    rw [hlen _ hb, ← hs]; simp [sizeSum]
  · intro hi
    obtain ⟨x, rfl, hx⟩ := h.instr hi
    have h1 := hlen _ hb
    have h2 := Item.isCode_size hx
    simp only [sizeSum, List.map_cons, List.map_nil, List.sum_cons, List.sum_nil] at h1
    omega
  · intro line name args hit
    subst hit
    rcases h.special rfl with rfl | hsp
    · obtain ⟨l, d, e⟩ := hb _ List.mem_cons_self
      cases e
    · simp only [SpecImg] at hsp
      have h1 := hlen _ hb
      have h2 := hsp.size
      refine ⟨?_, by omega⟩
      rcases hsp with ⟨x, rfl, _⟩ | ⟨x, y, rfl, _, _⟩ <;> simp
  · intro line a hit
    subst hit
    rcases h.special rfl with rfl | hsp
    · obtain ⟨l, d, e⟩ := hb _ List.mem_cons_self
      cases e
    · simp only [SpecImg] at hsp
      rcases hsp with rfl | ⟨n, _, hn, rfl⟩
      · exact ⟨0, Or.inl rfl, rfl⟩
      · exact ⟨n, Or.inr hn, by simp [blobBytes]⟩

/-- the reviewer's escapes are closed: a pseudo-instruction never vanishes … -/
theorem pseudo_not_dropped (line : Line) (name : String) (args : List String) :
    ¬ Expands [.pseudo line name args] [] := by
  intro h
  have := (Img.bytes_of_blobs h.single_inv (fun x hx => by simp at hx)).2.2.2.1 line name args rfl
  simp at this

/-- … and an `align a` never turns into anything but fewer than `a` zero bytes -/
theorem align_image_zeros (line : Line) (a : Int) (out : List Item) (h : Expands [.align line a] out)
    (hb : ∀ x ∈ out, ∃ l d, x = .blob l d) :
    ∃ n : Nat, (n = 0 ∨ (n : Int) < a) ∧ blobBytes out = List.replicate n 0 :=
  (Img.bytes_of_blobs h.single_inv hb).2.2.2.2 line a rfl

/-! ### align -/

/-- `align N` at position p contributes the fewest bytes (0 ≤ pad < N) that make p + pad a multiple of N -/
theorem align_minimal {a p pad : Int} (ha : 0 < a) (h : alignPadding a p = some pad) :
    0 ≤ pad ∧ pad < a ∧ (p + pad) % a = 0 ∧ ∀ q : Int, 0 ≤ q → (p + q) % a = 0 → pad ≤ q := by
  obtain ⟨h1, h2, h3⟩ := alignPadding_range ha h
  refine ⟨h1, h2, h3, ?_⟩
  intro q hq hqa
  -- a ∣ (q - pad), and q - pad > -a
  have hd : (q - pad) % a = 0 := by
    have e : q - pad = (p + q) - (p + pad) := by omega
    rw [e, Int.sub_emod, hqa, h3]; simp
  apply Int.not_lt.mp
  intro hlt
  have hneg : q - pad < 0 := by omega
  have hgt : -a < q - pad := by omega
  have hk : q - pad = a * ((q - pad) / a) := by
    have := Int.emod_add_mul_ediv (q - pad) a
    omega
  have hdiv : (q - pad) / a < 0 := Int.ediv_neg_of_neg_of_pos hneg ha
  have : a * ((q - pad) / a) ≤ a * (-1) := Int.mul_le_mul_of_nonneg_left (by omega) (by omega)
  omega

/-- alignment 0 is not a padding at all: `resolve_aligns` fails (ZeroDivisionError) -/
theorem align_zero (p : Int) : alignPadding 0 p = none := by simp [alignPadding]

/-- the bytes `align` contributes are zeros, as many as `alignPadding` says -/
theorem align_emits_zeros (line : Line) (a p : Int) (L : Dict) (repl : List Item) (n : Int)
    (h : alignBody (.align line a) p L = .ok (repl, n)) :
    ∃ pad, alignPadding a p = some pad ∧ 0 ≤ pad ∧ blobBytes repl = List.replicate pad.toNat 0 ∧
      n = a - pad := by
  simp only [alignBody] at h
  split at h
  · simp at h
  · rename_i padding hpad
    split at h
    · rename_i hz
      simp only [pure, Except.pure, Except.ok.injEq, Prod.mk.injEq] at h
      refine ⟨padding, hpad, by omega, ?_, h.2.symm⟩
      rw [← h.1, hz]; rfl
    · split at h
      · simp at h
      · simp only [pure, Except.pure, Except.ok.injEq, Prod.mk.injEq] at h
        refine ⟨padding, hpad, by omega, ?_, h.2.symm⟩
        rw [← h.1]; simp [blobBytes]

/-- non-vacuity: at offset 5, `align 4` contributes 3 zero bytes; at offset 8 none -/
example : alignPadding 4 5 = some 3 ∧ alignPadding 4 8 = some 0 := by decide

end BB.Props.C09
