/-
  BB.Props.C20TwoRun — C20, second sentence: with -c nothing grows.  Two runs of the same program,
  `assembleItems H false` (index 0) and `assembleItems H true` (index 1), related pass by pass:

    resolve_constants, resolve_labels, aliases : identical
    compression pass 1 (run 1 only)            : item-wise (`IW`)
    pseudo-instruction pass                    : in lockstep (`pseudo_lockstep`) → stretch-wise (`Dom`)
    aliases, compression pass 2 (run 1 only)   : `Dom` kept
    resolve_aligns                             : in lockstep (`align_lockstep`) → every marker and the end
                                                 of the list not later with -c
    later passes                               : keep sizes

  Hypotheses (`GrowHyps`): item sizes ≥ 0 and every `align` argument ≥ 1; the program (pessimistic
  size) below 2 GiB; every `li` operand label-free; every `call` / `tail` target not shadowed by a
  constant; `%offset name` parses to the offset of that name.  Label TRANSFERS (branches, jal, j,
  call, tail), label-dependent instruction immediates and ANY compression decision are allowed.
-/
import BB.Lemmas.TwoRunStages
import BB.Read
namespace BB.Props.C20
open BB BB.Spec BB.Lemmas
open BB.Props.C03 (Stage Land)

/-- every `li` operand is label-free (w.r.t. the constants the run computes) -/
def LiLiteral (H : Hooks) (items : List Item) : Prop :=
  ∀ items1 constants, resolveConstants H items [] = .ok (items1, constants) →
    ∀ line name args, Item.pseudo line name args ∈ items → pseudoKind name = some .li →
      ∀ imm, H.parseImm args.tail line = .ok imm → ImmLabelFree H constants imm

/-- no `call` / `tail` target is the name of a constant -/
def CallTargetsNotConstants (H : Hooks) (items : List Item) : Prop :=
  ∀ items1 constants, resolveConstants H items [] = .ok (items1, constants) →
    ∀ line name args ref, Item.pseudo line name args ∈ items →
      (pseudoKind name = some .call ∨ pseudoKind name = some .tail) → args = [ref] → constants.get ref = none

structure GrowHyps (H : Hooks) (items : List Item) : Prop where
  nonneg : NonNeg items
  aligns : AlignsPositive items
  small : sizeSum items < 2147483648
  li : LiLiteral H items
  calls : CallTargetsNotConstants H items
  offset : OffsetHook H

/-- the two layouts after resolve_aligns, compared -/
theorem two_run_layout (H : Hooks) (items : List Item) (hyp : GrowHyps H items) (constants : Dict)
    {items1 items2 : List Item} {labels2 : Dict}
    {a4 a7 : List Item} {la4 la7 : Dict}                 -- run 0
    {b3 b4 b6 b7 : List Item} {lb3 lb4 lb6 lb7 : Dict}   -- run 1
    (h1 : resolveConstants H items [] = .ok (items1, constants))
    (h2 : resolveLabels items1 [] = .ok (items2, labels2))
    (ha4 : transformPseudo H (resolveRegisterAliases items2 constants) constants labels2 = .ok (a4, la4))
    (ha7 : resolveAligns (resolveRegisterAliases a4 constants) la4 = .ok (a7, la7))
    (hb3 : maybeCompress H true (resolveRegisterAliases items2 constants) constants labels2 = .ok (b3, lb3))
    (hb4 : transformPseudo H b3 constants lb3 = .ok (b4, lb4))
    (hb6 : maybeCompress H true (resolveRegisterAliases b4 constants) constants lb4 = .ok (b6, lb6))
    (hb7 : resolveAligns b6 lb6 = .ok (b7, lb7)) :
    sizeSum b7 ≤ sizeSum a7 ∧
    (∀ ℓ v0 v1, la7.get ℓ = some v0 → lb7.get ℓ = some v1 → v1 ≤ v0) ∧
    (∀ ℓ, ℓ ∈ labelNames items → ∃ v0 v1, la7.get ℓ = some v0 ∧ lb7.get ℓ = some v1 ∧ v1 ≤ v0) ∧
    (∀ ℓ, ℓ ∉ labelNames items → la7.get ℓ = none ∧ lb7.get ℓ = none) := by
  simp only [maybeCompress, if_true, transformCompressible] at hb3 hb6
  unfold transformPseudo at ha4 hb4
  unfold resolveAligns at ha7 hb7
  obtain ⟨c1, c2, c3⟩ := BB.Props.C03.resolveConstants_spec H items [] items1 constants h1
  obtain ⟨l1, l2, _, l4, l5⟩ := resolveLabelsAux_spec items1 0 [] [] items2 labels2 h2
  have st0 : Stage items1 items2 labels2 (labelNames items) := by
    refine ⟨l1.symm, c2 hyp.nonneg, l2, c1, l4, ?_⟩
    intro ℓ v hℓ hv
    rw [l5 ℓ hℓ] at hv
    simp [Dict.get, List.lookup] at hv
  have hnone2 : ∀ ℓ, ℓ ∉ labelNames items → labels2.get ℓ = none := by
    intro ℓ hℓ
    rw [l5 ℓ (by rw [c1]; exact hℓ)]
    simp [Dict.get, List.lookup]
  have st1 := BB.Props.C03.stage_aliases st0 constants
  -- run 1: compression pass 1
  obtain ⟨B3, wb3, sb3, kb3⟩ := stage_walk'' (compressBody_ok H constants) st1 hb3
  have hiw3 : IW (resolveRegisterAliases items1 constants) B3 := walk_compress_IW H constants _ 0 labels2 B3 lb3 wb3
  -- both runs: the pseudo-instruction pass
  obtain ⟨A4, wa4, sa4, ka4⟩ := stage_walk'' (pseudoBody_ok H constants) st1 ha4
  obtain ⟨B4, wb4, sb4, kb4⟩ := stage_walk'' (pseudoBody_ok H constants) sb3 hb4
  have hsz : sizeSum (resolveRegisterAliases items1 constants) = sizeSum items := by
    rw [sizeSum_aliases, resolveConstants_sizeSum H items [] items1 constants h1]
  have hpseudo_mem : ∀ line name args, Item.pseudo line name args ∈ resolveRegisterAliases items1 constants →
      Item.pseudo line name args ∈ items := by
    intro line name args hm
    exact c3 _ (mem_aliases_other (by intro l i e; cases e) hm)
  have hdom4 : Dom A4 B4 := by
    refine pseudo_lockstep H constants hyp.offset (sizeSum items) hyp.small hiw3 0 0 labels2 lb3 A4 B4 la4 lb4
      st1.nonneg st1.nodup ⟨st1.agree, st1.low⟩ ⟨sb3.agree, sb3.low⟩ ?_ (Int.le_refl _) (by rw [hsz]; omega) ?_ ?_ wa4 wb4
    · intro ℓ hℓ u0 hu0
      rw [aliases_labelNames, c1] at hℓ
      rw [hnone2 ℓ hℓ] at hu0
      cases hu0
    · intro line name args hm hk imm hpi
      exact hyp.li items1 constants h1 line name args (hpseudo_mem line name args hm) hk imm hpi
    · intro line name args ref hm hk ha
      exact hyp.calls items1 constants h1 line name args ref (hpseudo_mem line name args hm) hk ha
  -- aliases; run 1: compression pass 2
  have hdom5 := hdom4.aliases constants
  have sa5 := BB.Props.C03.stage_aliases sa4 constants
  have sb5 := BB.Props.C03.stage_aliases sb4 constants
  obtain ⟨B6, wb6, sb6, kb6⟩ := stage_walk'' (compressBody_ok H constants) sb5 hb6
  have hdom6 : Dom (resolveRegisterAliases A4 constants) B6 :=
    hdom5.comp_IW (walk_compress_IW H constants _ 0 lb4 B6 lb6 wb6)
  -- resolve_aligns
  obtain ⟨A7, wa7, sa7, ka7⟩ := stage_walk'' alignBody_ok sa5 ha7
  obtain ⟨B7, wb7, sb7, kb7⟩ := stage_walk'' alignBody_ok sb6 hb7
  have hal : ∀ l a, Item.align l a ∈ resolveRegisterAliases A4 constants → 1 ≤ a := by
    intro l a hm
    have m1 := mem_aliases_other (by intro l i e; cases e) hm
    have m2 := walk_mem_back (P := IsAlign) (pseudoBody_no_new_align H constants) _ 0 labels2 A4 la4 wa4 _ m1 ⟨l, a, rfl⟩
    have m3 := mem_aliases_other (by intro l i e; cases e) m2
    exact hyp.aligns l a (c3 _ m3)
  obtain ⟨htot, hlab⟩ := align_lockstep hdom6 0 0 la4 lb6 A7 B7 la7 lb7 (Int.le_refl _) hal wa7 wb7
  have hkeys : ∀ ℓ, ℓ ∈ labelNames items → ∃ v0 v1, la7.get ℓ = some v0 ∧ lb7.get ℓ = some v1 ∧ v1 ≤ v0 := by
    intro ℓ hℓ
    have hsome := (labelPos_isSome_iff A7 0 ℓ).mpr (by rw [sa7.names_eq]; exact hℓ)
    cases hu : labelPos A7 0 ℓ with
    | none => simp [hu] at hsome
    | some u0 =>
      obtain ⟨u1, e1, e2⟩ := hlab ℓ u0 hu
      exact ⟨u0, u1, sa7.agree ℓ u0 hu, sb7.agree ℓ u1 e1, e2⟩
  have hnokeys : ∀ ℓ, ℓ ∉ labelNames items → la7.get ℓ = none ∧ lb7.get ℓ = none := by
    -- not a label of the program: not a key of either table
    intro ℓ hℓ
    exact ⟨by rw [ka7 ℓ hℓ, ka4 ℓ hℓ, hnone2 ℓ hℓ], by rw [kb7 ℓ hℓ, kb6 ℓ hℓ, kb4 ℓ hℓ, kb3 ℓ hℓ, hnone2 ℓ hℓ]⟩
  refine ⟨?_, ?_, hkeys, hnokeys⟩
  · rw [← sa7.strip_eq, ← sb7.strip_eq, sizeSum_strip, sizeSum_strip]; omega
  · intro ℓ v0 v1 hv0 hv1
    by_cases hℓ : ℓ ∈ labelNames items
    · obtain ⟨u0, u1, e0, e1, e2⟩ := hkeys ℓ hℓ
      rw [e0] at hv0
      rw [e1] at hv1
      simp only [Option.some.injEq] at hv0 hv1
      omega
    · rw [(hnokeys ℓ hℓ).1] at hv0
      cases hv0

/-- **C20, second sentence: nothing grows.**  If the program assembles both without and with `-c`
    (and satisfies `GrowHyps`), the `-c` output is not longer and no label has a larger value; the two label
    tables have the SAME keys — exactly the label names of the program, each with a value in both runs. -/
theorem nothing_grows (H : Hooks) (items : List Item) (r₀ r₁ : AsmResult) (hyp : GrowHyps H items)
    (h0 : assembleItems H false items [] [] = .ok r₀) (h1 : assembleItems H true items [] [] = .ok r₁) :
    r₁.bytes.length ≤ r₀.bytes.length ∧
      (∀ ℓ v₀ v₁, r₀.labels.get ℓ = some v₀ → r₁.labels.get ℓ = some v₁ → v₁ ≤ v₀) ∧
      (∀ ℓ, ℓ ∈ labelNames items → ∃ v₀ v₁, r₀.labels.get ℓ = some v₀ ∧ r₁.labels.get ℓ = some v₁ ∧ v₁ ≤ v₀) ∧
      (∀ ℓ, ℓ ∉ labelNames items → r₀.labels.get ℓ = none ∧ r₁.labels.get ℓ = none) := by
  obtain ⟨i1a, i2a, a3, a4, a6, a7, outa, l2a, l3a, l4a, l6a, _, e1a, e2a, e3a, e4a, e6a, e7a, landa, bytesa⟩ :=
    assemble_stages_all H false items r₀ h0
  obtain ⟨i1b, i2b, b3, b4, b6, b7, outb, l2b, l3b, l4b, l6b, _, e1b, e2b, e3b, e4b, e6b, e7b, landb, bytesb⟩ :=
    assemble_stages_all H true items r₁ h1
  -- the common front
  rw [e1a] at e1b
  simp only [Except.ok.injEq, Prod.mk.injEq] at e1b
  obtain ⟨rfl, hconst⟩ := e1b
  rw [← hconst] at e3b e4b e6b landb
  rw [e2a] at e2b
  simp only [Except.ok.injEq, Prod.mk.injEq] at e2b
  obtain ⟨rfl, rfl⟩ := e2b
  -- run 0 does not compress
  simp only [maybeCompress, Bool.false_eq_true, if_false, pure, Except.pure, Except.ok.injEq, Prod.mk.injEq] at e3a e6a
  obtain ⟨rfl, rfl⟩ := e3a
  obtain ⟨rfl, rfl⟩ := e6a
  obtain ⟨htot, hlab, hkeys, hnokeys⟩ := two_run_layout H items hyp r₀.constants e1a e2a e4a e7a e3b e4b e6b e7b
  refine ⟨?_, hlab, hkeys, hnokeys⟩
  have ta := land_total landa
  have tb := land_total landb
  rw [bytesa, bytesb]
  omega

/-- the text front end's `parse_immediate` satisfies `OffsetHook` -/
theorem textHooks_offsetHook (fs : FS) : OffsetHook (textHooks fs) := by
  intro ref line imm h
  have h' : parseImmediate ["%offset", ref] line = .ok imm := h
  simp only [parseImmediate, List.length_cons, List.length_nil, parseImmAux] at h'
  have e1 : isAsciiS "%offset" = true := by decide
  have e2 : lowerS "%offset" = "%offset" := by decide
  simp only [e1, e2, not_true_eq_false, if_false, Bool.not_eq_true] at h'
  simp at h'
  split at h' <;> simp_all

/-! ### non-vacuity, and why `LiLiteral` is needed -/

/-- a closed evaluator: M = −32, E = 2051 − L (label arithmetic), the numerals 0 … 31 -/
def litE (e : String) (env : String → Option Int) : Except ExprErr Int :=
  if e = "M" then .ok (-32)
  else if e = "E" then (match env "L" with | some l => .ok (2051 - l) | none => .error .error)
  else match (List.range 32).find? (fun n => toString n = e) with
    | some n => .ok (n : Int)
    | none => .error .error

def Hx : Hooks :=
  { arith := litE
    parseImm := fun toks line => match toks with
      | ["%offset", r] => .ok (.offset r)
      | [e] => .ok (.arith e)
      | _ => .error (.asm line)
    readFile := fun _ => none }

def lnx (n : Nat) : Line := ⟨"f", n, ""⟩

/-- `call F ; addi a0, a0, M ; align 4 ; F: ; ret` -/
def progOK : List Item :=
  [.pseudo (lnx 1) "call" ["F"],
   .instr (lnx 2) (.i "addi" (.str "a0") (.str "a0") (.arith "M") false),
   .align (lnx 3) 4,
   .label (lnx 4) "F",
   .pseudo (lnx 5) "ret" []]

/-- the hypotheses of `nothing_grows` hold of it … -/
theorem progOK_hyps : GrowHyps Hx progOK := by
  have hc : resolveConstants Hx progOK [] = .ok (progOK, []) := by decide
  refine ⟨by unfold NonNeg; decide, ?_, by decide, ?_, ?_, ?_⟩
  · intro line a hm
    simp [progOK] at hm
    omega
  · intro items1 constants h line name args hm hk
    simp [progOK] at hm
    rcases hm with ⟨_, rfl, _⟩ | ⟨_, rfl, _⟩ <;> exact absurd hk (by decide)
  · intro items1 constants h line name args ref hm hk ha
    rw [hc] at h
    cases h
    rfl
  · intro ref line imm h
    simp only [Hx, Except.ok.injEq] at h
    exact h.symm

/-- … both runs succeed: 12 bytes and F = 8 without `-c`, 6 bytes and F = 4 with it -/
example : assembleItems Hx false progOK [] []
      = .ok { bytes := [0xef, 0x00, 0x80, 0x00, 0x13, 0x05, 0x05, 0xfe, 0x67, 0x80, 0x00, 0x00], labels := [("F", 8)], constants := [] } ∧
    assembleItems Hx true progOK [] []
      = .ok { bytes := [0x11, 0x20, 0x01, 0x15, 0x82, 0x80], labels := [("F", 4)], constants := [] } := by decide

/-- **why every `li` operand has to be label-free** (KF-A5): `addi x0, x0, 0 ; L: ; li sp, 2051 − L ; M:`.
    Without `-c`: L = 4, the operand is 2047, `li` takes its short form, 8 bytes, M = 8.  With `-c` the nop
    shrinks, L = 2, the operand is 2049, `li` takes its long form (lui + addi, not compressible): 10 bytes,
    M = 10 — the output and a label GROW. -/
def progA5 : List Item :=
  [.instr (lnx 1) (.i "addi" (.str "x0") (.str "x0") (.arith "0") false),
   .label (lnx 2) "L",
   .pseudo (lnx 3) "li" ["sp", "E"],
   .label (lnx 4) "M"]

example : assembleItems Hx false progA5 [] []
      = .ok { bytes := [0x13, 0x00, 0x00, 0x00, 0x13, 0x01, 0xf0, 0x7f], labels := [("L", 4), ("M", 8)], constants := [] } ∧
    assembleItems Hx true progA5 [] []
      = .ok { bytes := [0x01, 0x00, 0x37, 0x11, 0x00, 0x00, 0x13, 0x01, 0x11, 0x80], labels := [("L", 2), ("M", 10)], constants := [] } := by
  decide

end BB.Props.C20
