/-
  BB.Props.C01 — 32-bit instructions encode exactly as the RISC-V specification defines.

  For every one of the 66 base/M/A/Zicsr/Zifencei rows of the instruction table, every argument
  list and every word: if the encoder accepts, the arguments denote operands (registers by number,
  integers by value), the operands are `legal32`, and the specification's decoder maps the word
  back to the instruction the source named (`intent32`).  Injectivity follows because `intent32`
  is injective on legal operands (up to the documented dual spelling of U-type immediates).
-/
import BB.Lemmas.Inv32
namespace BB.Props.C01
open BB BB.Spec BB.Lemmas

/-- a register-position argument denotes the register number `lookup_register` finds -/
def denoteReg (x : RegOp) : Option Opnd := (lookupRegister x).map .reg
/-- an int-or-numeric-string argument (fence sets, aq/rl) denotes that integer -/
def denoteInt (x : RegOp) : Option Opnd :=
  match x with
  | .int i => some (.imm i)
  | .str s => (pyInt0 s.toList).map .imm

/-- what the positional arguments of a 32-bit encoder call denote -/
def denote32 (k : EncKind) (args : List Arg) : Option (List Opnd) :=
  match k, args with
  | .r .., [.r a, .r b, .r c] => do pure [← denoteReg a, ← denoteReg b, ← denoteReg c]
  | .i .., [.r a, .r b, .i v] => do pure [← denoteReg a, ← denoteReg b, .imm v]
  | .ij .., [.r a, .r b, .i v] => do pure [← denoteReg a, ← denoteReg b, .imm v]
  | .s .., [.r a, .r b, .i v] => do pure [← denoteReg a, ← denoteReg b, .imm v]
  | .b .., [.r a, .r b, .i v] => do pure [← denoteReg a, ← denoteReg b, .imm v]
  | .u .., [.r a, .i v] => do pure [← denoteReg a, .imm v]
  | .j .., [.r a, .i v] => do pure [← denoteReg a, .imm v]
  | .ie .., [] => some []
  | .fence .., [.r s, .r p] => do pure [← denoteInt s, ← denoteInt p]
  | .a .., [.r a, .r b, .r c, .r q, .r l] =>
      do pure [← denoteReg a, ← denoteReg b, ← denoteReg c, ← denoteInt q, ← denoteInt l]
  | .al .., [.r a, .r b, .r q, .r l] =>
      do pure [← denoteReg a, ← denoteReg b, ← denoteInt q, ← denoteInt l]
  | _, _ => none

theorem denoteInt_of {x : RegOp} {i : Int} (h : intOrParse x = .ok i) : denoteInt x = some (.imm i) := by
  rw [intOrParse_ok] at h
  cases x with
  | int j => simp only at h; subst h; rfl
  | str s => simp only at h; simp [denoteInt, h]

/-- The statement of C01's first sentence for one table row. -/
def Sound32 (name : String) (k : EncKind) : Prop :=
  ∀ (args : List Arg) (w : Nat), encodeKind k args = .ok w →
    ∃ ops, denote32 k args = some ops ∧ legal32 name ops = true ∧ w < 2 ^ 32 ∧
      (intent32 name ops).isSome ∧ decode32 w = intent32 name ops

theorem decode32_of {w : Nat} (hlt : w < 2 ^ 32) :
    decode32 w = decodeFields (bits w 0 7) (bits w 7 5) (bits w 12 3) (bits w 15 5) (bits w 20 5)
      (bits w 25 7) w := by
  unfold decode32; rw [if_neg (Nat.not_le.mpr hlt)]

/-! ### one generic theorem per encoder kind; the row-specific facts are hypotheses closed by `rfl` -/

theorem sound_r {name : String} {op f3 f7 : Nat} {c : Mn32} (hc : classOf name = some c)
    (hop : op < 128) (hf3 : f3 < 8) (hf7 : f7 < 128)
    (hl : ∀ rd rs1 rs2, rd < 32 → rs1 < 32 → rs2 < 32 → legalOf c [.reg rd, .reg rs1, .reg rs2] = true)
    (hrow : ∀ rd rs1 rs2 w, (intentOf c [.reg rd, .reg rs1, .reg rs2]).isSome ∧
      decodeFields op rd f3 rs1 rs2 f7 w = intentOf c [.reg rd, .reg rs1, .reg rs2]) :
    Sound32 name (.r op f3 f7) := by
  intro args w h
  obtain ⟨a, b, c', rd, rs1, rs2, hargs, ha, hb, hc', h1, h2, h3, hlt, f0, f1, f2, f3', f4, f5⟩ :=
    r_inv hop hf3 hf7 h
  subst hargs
  refine ⟨[.reg rd, .reg rs1, .reg rs2], by simp [denote32, denoteReg, ha, hb, hc'], ?_, hlt, ?_, ?_⟩
  · simp only [legal32, hc]; exact hl _ _ _ h1 h2 h3
  · simp only [intent32, hc]; exact (hrow rd rs1 rs2 w).1
  · rw [decode32_of hlt, f0, f1, f2, f3', f4, f5]; simp only [intent32, hc]; exact (hrow rd rs1 rs2 w).2

theorem sound_i {name : String} {op f3 : Nat} {c : Mn32} (hc : classOf name = some c)
    (hop : op < 128) (hf3 : f3 < 8)
    (hl : ∀ rd rs1 imm, rd < 32 → rs1 < 32 → -2048 ≤ imm → imm ≤ 2047 →
      legalOf c [.reg rd, .reg rs1, .imm imm] = true)
    (hrow : ∀ rd rs1 rs2 f7 w (imm : Int), immI w = imm → bits w 20 12 = (imm % 4096).toNat →
      (intentOf c [.reg rd, .reg rs1, .imm imm]).isSome ∧
      decodeFields op rd f3 rs1 rs2 f7 w = intentOf c [.reg rd, .reg rs1, .imm imm]) :
    Sound32 name (.i op f3) := by
  intro args w h
  obtain ⟨a, b, imm, rd, rs1, hargs, ha, hb, h1, h2, hlo, hhi, hlt, f0, f1, f2, f3', f4, f5, f6, fi⟩ :=
    i_inv hop hf3 h
  subst hargs
  refine ⟨[.reg rd, .reg rs1, .imm imm], by simp [denote32, denoteReg, ha, hb], ?_, hlt, ?_, ?_⟩
  · simp only [legal32, hc]; exact hl _ _ _ h1 h2 hlo hhi
  · simp only [intent32, hc]; exact (hrow rd rs1 0 0 w imm fi f4).1
  · rw [decode32_of hlt, f0, f1, f2, f3']; simp only [intent32, hc]; exact (hrow rd rs1 _ _ w imm fi f4).2

theorem sound_ij {name : String} {op f3 : Nat} {c : Mn32} (hc : classOf name = some c)
    (hop : op < 128) (hf3 : f3 < 8)
    (hl : ∀ rd rs1 imm, rd < 32 → rs1 < 32 → -2048 ≤ imm → imm ≤ 2047 → imm % 2 = 0 →
      legalOf c [.reg rd, .reg rs1, .imm imm] = true)
    (hrow : ∀ rd rs1 rs2 f7 w (imm : Int), immI w = imm →
      (intentOf c [.reg rd, .reg rs1, .imm imm]).isSome ∧
      decodeFields op rd f3 rs1 rs2 f7 w = intentOf c [.reg rd, .reg rs1, .imm imm]) :
    Sound32 name (.ij op f3) := by
  intro args w h
  obtain ⟨a, b, imm, rd, rs1, hargs, ha, hb, h1, h2, hlo, hhi, hev, hlt, f0, f1, f2, f3', fi⟩ :=
    ij_inv hop hf3 h
  subst hargs
  refine ⟨[.reg rd, .reg rs1, .imm imm], by simp [denote32, denoteReg, ha, hb], ?_, hlt, ?_, ?_⟩
  · simp only [legal32, hc]; exact hl _ _ _ h1 h2 hlo hhi hev
  · simp only [intent32, hc]; exact (hrow rd rs1 0 0 w imm fi).1
  · rw [decode32_of hlt, f0, f1, f2, f3']; simp only [intent32, hc]; exact (hrow rd rs1 _ _ w imm fi).2

theorem sound_s {name : String} {op f3 : Nat} {c : Mn32} (hc : classOf name = some c)
    (hop : op < 128) (hf3 : f3 < 8)
    (hl : ∀ rs1 rs2 imm, rs1 < 32 → rs2 < 32 → -2048 ≤ imm → imm ≤ 2047 →
      legalOf c [.reg rs1, .reg rs2, .imm imm] = true)
    (hrow : ∀ rd rs1 rs2 f7 w (imm : Int), immS w = imm →
      (intentOf c [.reg rs1, .reg rs2, .imm imm]).isSome ∧
      decodeFields op rd f3 rs1 rs2 f7 w = intentOf c [.reg rs1, .reg rs2, .imm imm]) :
    Sound32 name (.s op f3) := by
  intro args w h
  obtain ⟨a, b, imm, rs1, rs2, hargs, ha, hb, h1, h2, hlo, hhi, hlt, f0, f2, f3', f4, fi⟩ :=
    s_inv hop hf3 h
  subst hargs
  refine ⟨[.reg rs1, .reg rs2, .imm imm], by simp [denote32, denoteReg, ha, hb], ?_, hlt, ?_, ?_⟩
  · simp only [legal32, hc]; exact hl _ _ _ h1 h2 hlo hhi
  · simp only [intent32, hc]; exact (hrow 0 rs1 rs2 0 w imm fi).1
  · rw [decode32_of hlt, f0, f2, f3', f4]; simp only [intent32, hc]; exact (hrow _ rs1 rs2 _ w imm fi).2

theorem sound_b {name : String} {op f3 : Nat} {c : Mn32} (hc : classOf name = some c)
    (hop : op < 128) (hf3 : f3 < 8)
    (hl : ∀ rs1 rs2 imm, rs1 < 32 → rs2 < 32 → -4096 ≤ imm → imm ≤ 4095 → imm % 2 = 0 →
      legalOf c [.reg rs1, .reg rs2, .imm imm] = true)
    (hrow : ∀ rd rs1 rs2 f7 w (imm : Int), immB w = imm →
      (intentOf c [.reg rs1, .reg rs2, .imm imm]).isSome ∧
      decodeFields op rd f3 rs1 rs2 f7 w = intentOf c [.reg rs1, .reg rs2, .imm imm]) :
    Sound32 name (.b op f3) := by
  intro args w h
  obtain ⟨a, b, imm, rs1, rs2, hargs, ha, hb, h1, h2, hlo, hhi, hev, hlt, f0, f2, f3', f4, fi⟩ :=
    b_inv hop hf3 h
  subst hargs
  refine ⟨[.reg rs1, .reg rs2, .imm imm], by simp [denote32, denoteReg, ha, hb], ?_, hlt, ?_, ?_⟩
  · simp only [legal32, hc]; exact hl _ _ _ h1 h2 hlo hhi hev
  · simp only [intent32, hc]; exact (hrow 0 rs1 rs2 0 w imm fi).1
  · rw [decode32_of hlt, f0, f2, f3', f4]; simp only [intent32, hc]; exact (hrow _ rs1 rs2 _ w imm fi).2

theorem sound_u {name : String} {op : Nat} {c : Mn32} (hc : classOf name = some c) (hop : op < 128)
    (hl : ∀ rd imm, rd < 32 → -524288 ≤ imm → imm ≤ 1048575 → legalOf c [.reg rd, .imm imm] = true)
    (hrow : ∀ rd f3 rs1 rs2 f7 w (imm : Int), bits w 12 20 = (imm % 1048576).toNat →
      (intentOf c [.reg rd, .imm imm]).isSome ∧
      decodeFields op rd f3 rs1 rs2 f7 w = intentOf c [.reg rd, .imm imm]) :
    Sound32 name (.u op) := by
  intro args w h
  obtain ⟨a, imm, rd, hargs, ha, h1, hlo, hhi, hlt, f0, f1, fi⟩ := u_inv hop h
  subst hargs
  refine ⟨[.reg rd, .imm imm], by simp [denote32, denoteReg, ha], ?_, hlt, ?_, ?_⟩
  · simp only [legal32, hc]; exact hl _ _ h1 hlo hhi
  · simp only [intent32, hc]; exact (hrow rd 0 0 0 0 w imm fi).1
  · rw [decode32_of hlt, f0, f1]; simp only [intent32, hc]; exact (hrow rd _ _ _ _ w imm fi).2

theorem sound_j {name : String} {op : Nat} {c : Mn32} (hc : classOf name = some c) (hop : op < 128)
    (hl : ∀ rd imm, rd < 32 → -1048576 ≤ imm → imm ≤ 1048575 → imm % 2 = 0 →
      legalOf c [.reg rd, .imm imm] = true)
    (hrow : ∀ rd f3 rs1 rs2 f7 w (imm : Int), immJ w = imm →
      (intentOf c [.reg rd, .imm imm]).isSome ∧
      decodeFields op rd f3 rs1 rs2 f7 w = intentOf c [.reg rd, .imm imm]) :
    Sound32 name (.j op) := by
  intro args w h
  obtain ⟨a, imm, rd, hargs, ha, h1, hlo, hhi, hev, hlt, f0, f1, fi⟩ := j_inv hop h
  subst hargs
  refine ⟨[.reg rd, .imm imm], by simp [denote32, denoteReg, ha], ?_, hlt, ?_, ?_⟩
  · simp only [legal32, hc]; exact hl _ _ h1 hlo hhi hev
  · simp only [intent32, hc]; exact (hrow rd 0 0 0 0 w imm fi).1
  · rw [decode32_of hlt, f0, f1]; simp only [intent32, hc]; exact (hrow rd _ _ _ _ w imm fi).2

theorem sound_ie {name : String} {op f3 imm : Nat} {c : Mn32} (hc : classOf name = some c)
    (hop : op < 128) (hf3 : f3 < 8) (himm : imm < 2048)
    (hl : legalOf c [] = true)
    (hrow : ∀ rs2 f7 w, bits w 20 12 = imm →
      (intentOf c []).isSome ∧ decodeFields op 0 f3 0 rs2 f7 w = intentOf c []) :
    Sound32 name (.ie op f3 imm) := by
  intro args w h
  obtain ⟨hargs, hlt, f0, f1, f2, f3', fi⟩ := ie_inv hop hf3 himm h
  subst hargs
  refine ⟨[], by simp [denote32], ?_, hlt, ?_, ?_⟩
  · simp only [legal32, hc]; exact hl
  · simp only [intent32, hc]; exact (hrow 0 0 w fi).1
  · rw [decode32_of hlt, f0, f1, f2, f3']; simp only [intent32, hc]; exact (hrow _ _ w fi).2

theorem sound_fence {name : String} {op f3 : Nat} {c : Mn32} (hc : classOf name = some c)
    (hop : op < 128) (hf3 : f3 < 8)
    (hl : ∀ succ pred : Int, 0 ≤ succ → succ ≤ 15 → 0 ≤ pred → pred ≤ 15 →
      legalOf c [.imm succ, .imm pred] = true)
    (hrow : ∀ rs2 f7 w (succ pred : Int), bits w 20 4 = succ.toNat → bits w 24 4 = pred.toNat →
      bits w 28 4 = 0 →
      (intentOf c [.imm succ, .imm pred]).isSome ∧
      decodeFields op 0 f3 0 rs2 f7 w = intentOf c [.imm succ, .imm pred]) :
    Sound32 name (.fence op f3) := by
  intro args w h
  obtain ⟨a, b, succ, pred, hargs, ha, hb, hs0, hs1, hp0, hp1, hlt, f0, f1, f2, f3', g0, g1, g2⟩ :=
    fence_inv hop hf3 h
  subst hargs
  refine ⟨[.imm succ, .imm pred], by simp [denote32, denoteInt_of ha, denoteInt_of hb], ?_, hlt, ?_, ?_⟩
  · simp only [legal32, hc]; exact hl _ _ hs0 hs1 hp0 hp1
  · simp only [intent32, hc]; exact (hrow 0 0 w succ pred g0 g1 g2).1
  · rw [decode32_of hlt, f0, f1, f2, f3']; simp only [intent32, hc]; exact (hrow _ _ w succ pred g0 g1 g2).2

theorem sound_a {name : String} {op f3 f5 : Nat} {c : Mn32} (hc : classOf name = some c)
    (hop : op < 128) (hf3 : f3 < 8) (hf5 : f5 < 32)
    (hl : ∀ rd rs1 rs2 (aq rl : Int), rd < 32 → rs1 < 32 → rs2 < 32 → (aq = 0 ∨ aq = 1) → (rl = 0 ∨ rl = 1) →
      legalOf c [.reg rd, .reg rs1, .reg rs2, .imm aq, .imm rl] = true)
    (hrow : ∀ rd rs1 rs2 f7 w (aq rl : Int), (aq = 0 ∨ aq = 1) → (rl = 0 ∨ rl = 1) → bits w 27 5 = f5 →
      bits w 26 1 = aq.toNat → bits w 25 1 = rl.toNat →
      (intentOf c [.reg rd, .reg rs1, .reg rs2, .imm aq, .imm rl]).isSome ∧
      decodeFields op rd f3 rs1 rs2 f7 w = intentOf c [.reg rd, .reg rs1, .reg rs2, .imm aq, .imm rl]) :
    Sound32 name (.a op f3 f5) := by
  intro args w h
  obtain ⟨a, b, c', qa, ql, rd, rs1, rs2, aq, rl, hargs, ha, hb, hc', hqa, hql, h1, h2, h3, haq, hrl, hlt,
    f0, f1, f2, f3', f4, g0, g1, g2⟩ := a_inv hop hf3 hf5 h
  subst hargs
  refine ⟨[.reg rd, .reg rs1, .reg rs2, .imm aq, .imm rl],
    by simp [denote32, denoteReg, ha, hb, hc', denoteInt_of hqa, denoteInt_of hql], ?_, hlt, ?_, ?_⟩
  · simp only [legal32, hc]; exact hl _ _ _ _ _ h1 h2 h3 haq hrl
  · simp only [intent32, hc]; exact (hrow rd rs1 rs2 0 w aq rl haq hrl g0 g1 g2).1
  · rw [decode32_of hlt, f0, f1, f2, f3', f4]; simp only [intent32, hc]
    exact (hrow rd rs1 rs2 _ w aq rl haq hrl g0 g1 g2).2

theorem sound_al {name : String} {op f3 f5 : Nat} {c : Mn32} (hc : classOf name = some c)
    (hop : op < 128) (hf3 : f3 < 8) (hf5 : f5 < 32)
    (hl : ∀ rd rs1 (aq rl : Int), rd < 32 → rs1 < 32 → (aq = 0 ∨ aq = 1) → (rl = 0 ∨ rl = 1) →
      legalOf c [.reg rd, .reg rs1, .imm aq, .imm rl] = true)
    (hrow : ∀ rd rs1 f7 w (aq rl : Int), (aq = 0 ∨ aq = 1) → (rl = 0 ∨ rl = 1) → bits w 27 5 = f5 →
      bits w 26 1 = aq.toNat → bits w 25 1 = rl.toNat →
      (intentOf c [.reg rd, .reg rs1, .imm aq, .imm rl]).isSome ∧
      decodeFields op rd f3 rs1 0 f7 w = intentOf c [.reg rd, .reg rs1, .imm aq, .imm rl]) :
    Sound32 name (.al op f3 f5) := by
  intro args w h
  obtain ⟨a, b, qa, ql, rd, rs1, aq, rl, hargs, ha, hb, hqa, hql, h1, h2, haq, hrl, hlt,
    f0, f1, f2, f3', f4, g0, g1, g2⟩ := al_inv hop hf3 hf5 h
  subst hargs
  refine ⟨[.reg rd, .reg rs1, .imm aq, .imm rl],
    by simp [denote32, denoteReg, ha, hb, denoteInt_of hqa, denoteInt_of hql], ?_, hlt, ?_, ?_⟩
  · simp only [legal32, hc]; exact hl _ _ _ _ h1 h2 haq hrl
  · simp only [intent32, hc]; exact (hrow rd rs1 0 w aq rl haq hrl g0 g1 g2).1
  · rw [decode32_of hlt, f0, f1, f2, f3', f4]; simp only [intent32, hc]
    exact (hrow rd rs1 _ w aq rl haq hrl g0 g1 g2).2

/-! ### the 66 rows -/
macro "legal_tac" : tactic =>
  `(tactic| (intros; simp only [legalOf, isReg, simm, uimm, multOf, Bool.and_eq_true, decide_eq_true_eq,
      Nat.reducePow, Nat.reduceSub, Int.reducePow, Int.reduceNeg, Bool.and_self]; (try omega)))

theorem row_slli : Sound32 "slli" (.r 19 1 0) :=
  sound_r (c := .sh .slli) (by decide) (by omega) (by omega) (by omega) (by legal_tac)
    (fun rd rs1 rs2 w => ⟨rfl, rfl⟩)
theorem row_srli : Sound32 "srli" (.r 19 5 0) :=
  sound_r (c := .sh .srli) (by decide) (by omega) (by omega) (by omega) (by legal_tac)
    (fun rd rs1 rs2 w => ⟨rfl, rfl⟩)
theorem row_srai : Sound32 "srai" (.r 19 5 32) :=
  sound_r (c := .sh .srai) (by decide) (by omega) (by omega) (by omega) (by legal_tac)
    (fun rd rs1 rs2 w => ⟨rfl, rfl⟩)
theorem row_add : Sound32 "add" (.r 51 0 0) :=
  sound_r (c := .r .add) (by decide) (by omega) (by omega) (by omega) (by legal_tac)
    (fun rd rs1 rs2 w => ⟨rfl, rfl⟩)
theorem row_sub : Sound32 "sub" (.r 51 0 32) :=
  sound_r (c := .r .sub) (by decide) (by omega) (by omega) (by omega) (by legal_tac)
    (fun rd rs1 rs2 w => ⟨rfl, rfl⟩)
theorem row_sll : Sound32 "sll" (.r 51 1 0) :=
  sound_r (c := .r .sll) (by decide) (by omega) (by omega) (by omega) (by legal_tac)
    (fun rd rs1 rs2 w => ⟨rfl, rfl⟩)
theorem row_slt : Sound32 "slt" (.r 51 2 0) :=
  sound_r (c := .r .slt) (by decide) (by omega) (by omega) (by omega) (by legal_tac)
    (fun rd rs1 rs2 w => ⟨rfl, rfl⟩)
theorem row_sltu : Sound32 "sltu" (.r 51 3 0) :=
  sound_r (c := .r .sltu) (by decide) (by omega) (by omega) (by omega) (by legal_tac)
    (fun rd rs1 rs2 w => ⟨rfl, rfl⟩)
theorem row_xor : Sound32 "xor" (.r 51 4 0) :=
  sound_r (c := .r .xor) (by decide) (by omega) (by omega) (by omega) (by legal_tac)
    (fun rd rs1 rs2 w => ⟨rfl, rfl⟩)
theorem row_srl : Sound32 "srl" (.r 51 5 0) :=
  sound_r (c := .r .srl) (by decide) (by omega) (by omega) (by omega) (by legal_tac)
    (fun rd rs1 rs2 w => ⟨rfl, rfl⟩)
theorem row_sra : Sound32 "sra" (.r 51 5 32) :=
  sound_r (c := .r .sra) (by decide) (by omega) (by omega) (by omega) (by legal_tac)
    (fun rd rs1 rs2 w => ⟨rfl, rfl⟩)
theorem row_or : Sound32 "or" (.r 51 6 0) :=
  sound_r (c := .r .or) (by decide) (by omega) (by omega) (by omega) (by legal_tac)
    (fun rd rs1 rs2 w => ⟨rfl, rfl⟩)
theorem row_and : Sound32 "and" (.r 51 7 0) :=
  sound_r (c := .r .and) (by decide) (by omega) (by omega) (by omega) (by legal_tac)
    (fun rd rs1 rs2 w => ⟨rfl, rfl⟩)
theorem row_mul : Sound32 "mul" (.r 51 0 1) :=
  sound_r (c := .r .mul) (by decide) (by omega) (by omega) (by omega) (by legal_tac)
    (fun rd rs1 rs2 w => ⟨rfl, rfl⟩)
theorem row_mulh : Sound32 "mulh" (.r 51 1 1) :=
  sound_r (c := .r .mulh) (by decide) (by omega) (by omega) (by omega) (by legal_tac)
    (fun rd rs1 rs2 w => ⟨rfl, rfl⟩)
theorem row_mulhsu : Sound32 "mulhsu" (.r 51 2 1) :=
  sound_r (c := .r .mulhsu) (by decide) (by omega) (by omega) (by omega) (by legal_tac)
    (fun rd rs1 rs2 w => ⟨rfl, rfl⟩)
theorem row_mulhu : Sound32 "mulhu" (.r 51 3 1) :=
  sound_r (c := .r .mulhu) (by decide) (by omega) (by omega) (by omega) (by legal_tac)
    (fun rd rs1 rs2 w => ⟨rfl, rfl⟩)
theorem row_div : Sound32 "div" (.r 51 4 1) :=
  sound_r (c := .r .div) (by decide) (by omega) (by omega) (by omega) (by legal_tac)
    (fun rd rs1 rs2 w => ⟨rfl, rfl⟩)
theorem row_divu : Sound32 "divu" (.r 51 5 1) :=
  sound_r (c := .r .divu) (by decide) (by omega) (by omega) (by omega) (by legal_tac)
    (fun rd rs1 rs2 w => ⟨rfl, rfl⟩)
theorem row_rem : Sound32 "rem" (.r 51 6 1) :=
  sound_r (c := .r .rem) (by decide) (by omega) (by omega) (by omega) (by legal_tac)
    (fun rd rs1 rs2 w => ⟨rfl, rfl⟩)
theorem row_remu : Sound32 "remu" (.r 51 7 1) :=
  sound_r (c := .r .remu) (by decide) (by omega) (by omega) (by omega) (by legal_tac)
    (fun rd rs1 rs2 w => ⟨rfl, rfl⟩)
theorem row_jalr : Sound32 "jalr" (.ij 103 0) :=
  sound_ij (c := .jalr) (by decide) (by omega) (by omega) (by legal_tac)
    (fun rd rs1 rs2 f7 w imm hi => ⟨rfl, by simp only [decodeFields, intentOf, hi, if_true]⟩)
theorem row_lb : Sound32 "lb" (.i 3 0) :=
  sound_i (c := .ld .lb) (by decide) (by omega) (by omega) (by legal_tac)
    (fun rd rs1 rs2 f7 w imm hi hb => ⟨rfl, by simp only [decodeFields, intentOf, hi]⟩)
theorem row_lh : Sound32 "lh" (.i 3 1) :=
  sound_i (c := .ld .lh) (by decide) (by omega) (by omega) (by legal_tac)
    (fun rd rs1 rs2 f7 w imm hi hb => ⟨rfl, by simp only [decodeFields, intentOf, hi]⟩)
theorem row_lw : Sound32 "lw" (.i 3 2) :=
  sound_i (c := .ld .lw) (by decide) (by omega) (by omega) (by legal_tac)
    (fun rd rs1 rs2 f7 w imm hi hb => ⟨rfl, by simp only [decodeFields, intentOf, hi]⟩)
theorem row_lbu : Sound32 "lbu" (.i 3 4) :=
  sound_i (c := .ld .lbu) (by decide) (by omega) (by omega) (by legal_tac)
    (fun rd rs1 rs2 f7 w imm hi hb => ⟨rfl, by simp only [decodeFields, intentOf, hi]⟩)
theorem row_lhu : Sound32 "lhu" (.i 3 5) :=
  sound_i (c := .ld .lhu) (by decide) (by omega) (by omega) (by legal_tac)
    (fun rd rs1 rs2 f7 w imm hi hb => ⟨rfl, by simp only [decodeFields, intentOf, hi]⟩)
theorem row_addi : Sound32 "addi" (.i 19 0) :=
  sound_i (c := .i .addi) (by decide) (by omega) (by omega) (by legal_tac)
    (fun rd rs1 rs2 f7 w imm hi hb => ⟨rfl, by simp only [decodeFields, intentOf, hi]⟩)
theorem row_slti : Sound32 "slti" (.i 19 2) :=
  sound_i (c := .i .slti) (by decide) (by omega) (by omega) (by legal_tac)
    (fun rd rs1 rs2 f7 w imm hi hb => ⟨rfl, by simp only [decodeFields, intentOf, hi]⟩)
theorem row_sltiu : Sound32 "sltiu" (.i 19 3) :=
  sound_i (c := .i .sltiu) (by decide) (by omega) (by omega) (by legal_tac)
    (fun rd rs1 rs2 f7 w imm hi hb => ⟨rfl, by simp only [decodeFields, intentOf, hi]⟩)
theorem row_xori : Sound32 "xori" (.i 19 4) :=
  sound_i (c := .i .xori) (by decide) (by omega) (by omega) (by legal_tac)
    (fun rd rs1 rs2 f7 w imm hi hb => ⟨rfl, by simp only [decodeFields, intentOf, hi]⟩)
theorem row_ori : Sound32 "ori" (.i 19 6) :=
  sound_i (c := .i .ori) (by decide) (by omega) (by omega) (by legal_tac)
    (fun rd rs1 rs2 f7 w imm hi hb => ⟨rfl, by simp only [decodeFields, intentOf, hi]⟩)
theorem row_andi : Sound32 "andi" (.i 19 7) :=
  sound_i (c := .i .andi) (by decide) (by omega) (by omega) (by legal_tac)
    (fun rd rs1 rs2 f7 w imm hi hb => ⟨rfl, by simp only [decodeFields, intentOf, hi]⟩)
theorem row_csrrw : Sound32 "csrrw" (.i 115 1) :=
  sound_i (c := .csr .csrrw) (by decide) (by omega) (by omega) (by legal_tac)
    (fun rd rs1 rs2 f7 w imm hi hb => ⟨rfl, by simp only [decodeFields, intentOf, hb]⟩)
theorem row_csrrs : Sound32 "csrrs" (.i 115 2) :=
  sound_i (c := .csr .csrrs) (by decide) (by omega) (by omega) (by legal_tac)
    (fun rd rs1 rs2 f7 w imm hi hb => ⟨rfl, by simp only [decodeFields, intentOf, hb]⟩)
theorem row_csrrc : Sound32 "csrrc" (.i 115 3) :=
  sound_i (c := .csr .csrrc) (by decide) (by omega) (by omega) (by legal_tac)
    (fun rd rs1 rs2 f7 w imm hi hb => ⟨rfl, by simp only [decodeFields, intentOf, hb]⟩)
theorem row_csrrwi : Sound32 "csrrwi" (.i 115 5) :=
  sound_i (c := .csr .csrrwi) (by decide) (by omega) (by omega) (by legal_tac)
    (fun rd rs1 rs2 f7 w imm hi hb => ⟨rfl, by simp only [decodeFields, intentOf, hb]⟩)
theorem row_csrrsi : Sound32 "csrrsi" (.i 115 6) :=
  sound_i (c := .csr .csrrsi) (by decide) (by omega) (by omega) (by legal_tac)
    (fun rd rs1 rs2 f7 w imm hi hb => ⟨rfl, by simp only [decodeFields, intentOf, hb]⟩)
theorem row_csrrci : Sound32 "csrrci" (.i 115 7) :=
  sound_i (c := .csr .csrrci) (by decide) (by omega) (by omega) (by legal_tac)
    (fun rd rs1 rs2 f7 w imm hi hb => ⟨rfl, by simp only [decodeFields, intentOf, hb]⟩)
theorem row_ecall : Sound32 "ecall" (.ie 115 0 0) :=
  sound_ie (c := .ecall) (by decide) (by omega) (by omega) (by omega) (by legal_tac)
    (fun rs2 f7 w hb => ⟨rfl, by simp [decodeFields, intentOf, hb]⟩)
theorem row_ebreak : Sound32 "ebreak" (.ie 115 0 1) :=
  sound_ie (c := .ebreak) (by decide) (by omega) (by omega) (by omega) (by legal_tac)
    (fun rs2 f7 w hb => ⟨rfl, by simp [decodeFields, intentOf, hb]⟩)
theorem row_fence_i : Sound32 "fence.i" (.ie 15 1 0) :=
  sound_ie (c := .fenceI) (by decide) (by omega) (by omega) (by omega) (by legal_tac)
    (fun rs2 f7 w hb => ⟨rfl, by simp [decodeFields, intentOf, hb]⟩)
theorem row_sb : Sound32 "sb" (.s 35 0) :=
  sound_s (c := .st .sb) (by decide) (by omega) (by omega) (by legal_tac)
    (fun rd rs1 rs2 f7 w imm hi => ⟨rfl, by simp only [decodeFields, intentOf, hi]⟩)
theorem row_sh : Sound32 "sh" (.s 35 1) :=
  sound_s (c := .st .sh) (by decide) (by omega) (by omega) (by legal_tac)
    (fun rd rs1 rs2 f7 w imm hi => ⟨rfl, by simp only [decodeFields, intentOf, hi]⟩)
theorem row_sw : Sound32 "sw" (.s 35 2) :=
  sound_s (c := .st .sw) (by decide) (by omega) (by omega) (by legal_tac)
    (fun rd rs1 rs2 f7 w imm hi => ⟨rfl, by simp only [decodeFields, intentOf, hi]⟩)
theorem row_beq : Sound32 "beq" (.b 99 0) :=
  sound_b (c := .br .beq) (by decide) (by omega) (by omega) (by legal_tac)
    (fun rd rs1 rs2 f7 w imm hi => ⟨rfl, by simp only [decodeFields, intentOf, hi]⟩)
theorem row_bne : Sound32 "bne" (.b 99 1) :=
  sound_b (c := .br .bne) (by decide) (by omega) (by omega) (by legal_tac)
    (fun rd rs1 rs2 f7 w imm hi => ⟨rfl, by simp only [decodeFields, intentOf, hi]⟩)
theorem row_blt : Sound32 "blt" (.b 99 4) :=
  sound_b (c := .br .blt) (by decide) (by omega) (by omega) (by legal_tac)
    (fun rd rs1 rs2 f7 w imm hi => ⟨rfl, by simp only [decodeFields, intentOf, hi]⟩)
theorem row_bge : Sound32 "bge" (.b 99 5) :=
  sound_b (c := .br .bge) (by decide) (by omega) (by omega) (by legal_tac)
    (fun rd rs1 rs2 f7 w imm hi => ⟨rfl, by simp only [decodeFields, intentOf, hi]⟩)
theorem row_bltu : Sound32 "bltu" (.b 99 6) :=
  sound_b (c := .br .bltu) (by decide) (by omega) (by omega) (by legal_tac)
    (fun rd rs1 rs2 f7 w imm hi => ⟨rfl, by simp only [decodeFields, intentOf, hi]⟩)
theorem row_bgeu : Sound32 "bgeu" (.b 99 7) :=
  sound_b (c := .br .bgeu) (by decide) (by omega) (by omega) (by legal_tac)
    (fun rd rs1 rs2 f7 w imm hi => ⟨rfl, by simp only [decodeFields, intentOf, hi]⟩)
theorem row_lui : Sound32 "lui" (.u 55) :=
  sound_u (c := .lui) (by decide) (by omega) (by legal_tac)
    (fun rd f3 rs1 rs2 f7 w imm hi => ⟨rfl, by simp only [decodeFields, intentOf, hi]⟩)
theorem row_auipc : Sound32 "auipc" (.u 23) :=
  sound_u (c := .auipc) (by decide) (by omega) (by legal_tac)
    (fun rd f3 rs1 rs2 f7 w imm hi => ⟨rfl, by simp only [decodeFields, intentOf, hi]⟩)
theorem row_jal : Sound32 "jal" (.j 111) :=
  sound_j (c := .jal) (by decide) (by omega) (by legal_tac)
    (fun rd f3 rs1 rs2 f7 w imm hi => ⟨rfl, by simp only [decodeFields, intentOf, hi]⟩)
theorem row_fence : Sound32 "fence" (.fence 15 0) :=
  sound_fence (c := .fence) (by decide) (by omega) (by omega) (by legal_tac)
    (fun rs2 f7 w succ pred h0 h1 h2 => ⟨rfl, by simp only [decodeFields, intentOf, h0, h1, h2]⟩)
theorem row_sc_w : Sound32 "sc.w" (.a 47 2 3) :=
  sound_a (c := .sc) (by decide) (by omega) (by omega) (by omega) (by legal_tac)
    (fun rd rs1 rs2 f7 w aq rl haq hrl h0 h1 h2 => ⟨rfl, by
      rcases haq with rfl | rfl <;> rcases hrl with rfl | rfl <;>
        simp [decodeFields, intentOf, decodeAmo, h0, h1, h2]⟩)
theorem row_amoswap_w : Sound32 "amoswap.w" (.a 47 2 1) :=
  sound_a (c := .amo .swap) (by decide) (by omega) (by omega) (by omega) (by legal_tac)
    (fun rd rs1 rs2 f7 w aq rl haq hrl h0 h1 h2 => ⟨rfl, by
      rcases haq with rfl | rfl <;> rcases hrl with rfl | rfl <;>
        simp [decodeFields, intentOf, decodeAmo, h0, h1, h2]⟩)
theorem row_amoadd_w : Sound32 "amoadd.w" (.a 47 2 0) :=
  sound_a (c := .amo .add) (by decide) (by omega) (by omega) (by omega) (by legal_tac)
    (fun rd rs1 rs2 f7 w aq rl haq hrl h0 h1 h2 => ⟨rfl, by
      rcases haq with rfl | rfl <;> rcases hrl with rfl | rfl <;>
        simp [decodeFields, intentOf, decodeAmo, h0, h1, h2]⟩)
theorem row_amoxor_w : Sound32 "amoxor.w" (.a 47 2 4) :=
  sound_a (c := .amo .xor) (by decide) (by omega) (by omega) (by omega) (by legal_tac)
    (fun rd rs1 rs2 f7 w aq rl haq hrl h0 h1 h2 => ⟨rfl, by
      rcases haq with rfl | rfl <;> rcases hrl with rfl | rfl <;>
        simp [decodeFields, intentOf, decodeAmo, h0, h1, h2]⟩)
theorem row_amoand_w : Sound32 "amoand.w" (.a 47 2 12) :=
  sound_a (c := .amo .and) (by decide) (by omega) (by omega) (by omega) (by legal_tac)
    (fun rd rs1 rs2 f7 w aq rl haq hrl h0 h1 h2 => ⟨rfl, by
      rcases haq with rfl | rfl <;> rcases hrl with rfl | rfl <;>
        simp [decodeFields, intentOf, decodeAmo, h0, h1, h2]⟩)
theorem row_amoor_w : Sound32 "amoor.w" (.a 47 2 8) :=
  sound_a (c := .amo .or) (by decide) (by omega) (by omega) (by omega) (by legal_tac)
    (fun rd rs1 rs2 f7 w aq rl haq hrl h0 h1 h2 => ⟨rfl, by
      rcases haq with rfl | rfl <;> rcases hrl with rfl | rfl <;>
        simp [decodeFields, intentOf, decodeAmo, h0, h1, h2]⟩)
theorem row_amomin_w : Sound32 "amomin.w" (.a 47 2 16) :=
  sound_a (c := .amo .min) (by decide) (by omega) (by omega) (by omega) (by legal_tac)
    (fun rd rs1 rs2 f7 w aq rl haq hrl h0 h1 h2 => ⟨rfl, by
      rcases haq with rfl | rfl <;> rcases hrl with rfl | rfl <;>
        simp [decodeFields, intentOf, decodeAmo, h0, h1, h2]⟩)
theorem row_amomax_w : Sound32 "amomax.w" (.a 47 2 20) :=
  sound_a (c := .amo .max) (by decide) (by omega) (by omega) (by omega) (by legal_tac)
    (fun rd rs1 rs2 f7 w aq rl haq hrl h0 h1 h2 => ⟨rfl, by
      rcases haq with rfl | rfl <;> rcases hrl with rfl | rfl <;>
        simp [decodeFields, intentOf, decodeAmo, h0, h1, h2]⟩)
theorem row_amominu_w : Sound32 "amominu.w" (.a 47 2 24) :=
  sound_a (c := .amo .minu) (by decide) (by omega) (by omega) (by omega) (by legal_tac)
    (fun rd rs1 rs2 f7 w aq rl haq hrl h0 h1 h2 => ⟨rfl, by
      rcases haq with rfl | rfl <;> rcases hrl with rfl | rfl <;>
        simp [decodeFields, intentOf, decodeAmo, h0, h1, h2]⟩)
theorem row_amomaxu_w : Sound32 "amomaxu.w" (.a 47 2 28) :=
  sound_a (c := .amo .maxu) (by decide) (by omega) (by omega) (by omega) (by legal_tac)
    (fun rd rs1 rs2 f7 w aq rl haq hrl h0 h1 h2 => ⟨rfl, by
      rcases haq with rfl | rfl <;> rcases hrl with rfl | rfl <;>
        simp [decodeFields, intentOf, decodeAmo, h0, h1, h2]⟩)
theorem row_lr_w : Sound32 "lr.w" (.al 47 2 2) :=
  sound_al (c := .lr) (by decide) (by omega) (by omega) (by omega) (by legal_tac)
    (fun rd rs1 f7 w aq rl haq hrl h0 h1 h2 => ⟨rfl, by
      rcases haq with rfl | rfl <;> rcases hrl with rfl | rfl <;>
        simp [decodeFields, intentOf, h0, h1, h2]⟩)


/-- **C01, first sentence, for the whole table.**  For every 32-bit row of the instruction table
    (which `Props.Tables.instrTable_matches` proves equal to the live module's INSTRUCTIONS), every
    argument list the encoder accepts denotes legal operands and the emitted word decodes, under the
    specification, to exactly the instruction the source line named. -/
theorem enc32_sound : ∀ e ∈ instrTable, e.2.size = 4 → Sound32 e.1 e.2 := by
  unfold instrTable
  simp only [List.forall_mem_cons]
  exact ⟨(fun _ => row_slli),
    (fun _ => row_srli),
    (fun _ => row_srai),
    (fun _ => row_add),
    (fun _ => row_sub),
    (fun _ => row_sll),
    (fun _ => row_slt),
    (fun _ => row_sltu),
    (fun _ => row_xor),
    (fun _ => row_srl),
    (fun _ => row_sra),
    (fun _ => row_or),
    (fun _ => row_and),
    (fun _ => row_mul),
    (fun _ => row_mulh),
    (fun _ => row_mulhsu),
    (fun _ => row_mulhu),
    (fun _ => row_div),
    (fun _ => row_divu),
    (fun _ => row_rem),
    (fun _ => row_remu),
    (fun _ => row_jalr),
    (fun _ => row_lb),
    (fun _ => row_lh),
    (fun _ => row_lw),
    (fun _ => row_lbu),
    (fun _ => row_lhu),
    (fun _ => row_addi),
    (fun _ => row_slti),
    (fun _ => row_sltiu),
    (fun _ => row_xori),
    (fun _ => row_ori),
    (fun _ => row_andi),
    (fun _ => row_csrrw),
    (fun _ => row_csrrs),
    (fun _ => row_csrrc),
    (fun _ => row_csrrwi),
    (fun _ => row_csrrsi),
    (fun _ => row_csrrci),
    (fun _ => row_ecall),
    (fun _ => row_ebreak),
    (fun _ => row_fence_i),
    (fun _ => row_sb),
    (fun _ => row_sh),
    (fun _ => row_sw),
    (fun _ => row_beq),
    (fun _ => row_bne),
    (fun _ => row_blt),
    (fun _ => row_bge),
    (fun _ => row_bltu),
    (fun _ => row_bgeu),
    (fun _ => row_lui),
    (fun _ => row_auipc),
    (fun _ => row_jal),
    (fun _ => row_fence),
    (fun _ => row_sc_w),
    (fun _ => row_amoswap_w),
    (fun _ => row_amoadd_w),
    (fun _ => row_amoxor_w),
    (fun _ => row_amoand_w),
    (fun _ => row_amoor_w),
    (fun _ => row_amomin_w),
    (fun _ => row_amomax_w),
    (fun _ => row_amominu_w),
    (fun _ => row_amomaxu_w),
    (fun _ => row_lr_w),
    (fun h => by simp [EncKind.size] at h),
    (fun h => by simp [EncKind.size] at h),
    (fun h => by simp [EncKind.size] at h),
    (fun h => by simp [EncKind.size] at h),
    (fun h => by simp [EncKind.size] at h),
    (fun h => by simp [EncKind.size] at h),
    (fun h => by simp [EncKind.size] at h),
    (fun h => by simp [EncKind.size] at h),
    (fun h => by simp [EncKind.size] at h),
    (fun h => by simp [EncKind.size] at h),
    (fun h => by simp [EncKind.size] at h),
    (fun h => by simp [EncKind.size] at h),
    (fun h => by simp [EncKind.size] at h),
    (fun h => by simp [EncKind.size] at h),
    (fun h => by simp [EncKind.size] at h),
    (fun h => by simp [EncKind.size] at h),
    (fun h => by simp [EncKind.size] at h),
    (fun h => by simp [EncKind.size] at h),
    (fun h => by simp [EncKind.size] at h),
    (fun h => by simp [EncKind.size] at h),
    (fun h => by simp [EncKind.size] at h),
    (fun h => by simp [EncKind.size] at h),
    (fun h => by simp [EncKind.size] at h),
    (fun h => by simp [EncKind.size] at h),
    (fun h => by simp [EncKind.size] at h),
    (fun h => by simp [EncKind.size] at h),
    (fun h => by simp [EncKind.size] at h),
    by simp⟩

/-- the same statement through `encode` (table lookup by mnemonic) -/
theorem encode32_sound (name : String) (k : EncKind) (hk : instrTable.lookup name = some k)
    (hs : k.size = 4) (args : List Arg) (w : Nat) (h : encode name args = .ok w) :
    ∃ ops, denote32 k args = some ops ∧ legal32 name ops = true ∧ w < 2 ^ 32 ∧
      (intent32 name ops).isSome ∧ decode32 w = intent32 name ops := by
  unfold encode at h
  rw [hk] at h
  exact enc32_sound (name, k) (lookup_mem hk) hs args w h

/-! ### injectivity: two different operand tuples of one mnemonic never yield the same word -/

/-- operands up to the documented dual spelling: a U-type immediate is its 20-bit field
    (`lui a4, 0xfffff` and `lui a4, -1` name the same instruction) -/
def normOps (c : Mn32) (ops : List Opnd) : List Opnd :=
  match c, ops with
  | .lui, [.reg rd, .imm v] => [.reg rd, .imm (v % 1048576)]
  | .auipc, [.reg rd, .imm v] => [.reg rd, .imm (v % 1048576)]
  | _, ops => ops

def b2i (b : Bool) : Int := if b then 1 else 0

/-- the operand tuple a decoded instruction was written with (a left inverse of `intentOf`) -/
def opsOf : Instr32 → List Opnd
  | .r _ rd rs1 rs2 => [.reg rd, .reg rs1, .reg rs2]
  | .sh _ rd rs1 sh => [.reg rd, .reg rs1, .reg sh]
  | .i _ rd rs1 v => [.reg rd, .reg rs1, .imm v]
  | .load _ rd rs1 v => [.reg rd, .reg rs1, .imm v]
  | .store _ a b v => [.reg a, .reg b, .imm v]
  | .branch _ a b v => [.reg a, .reg b, .imm v]
  | .lui rd f => [.reg rd, .imm f]
  | .auipc rd f => [.reg rd, .imm f]
  | .jal rd v => [.reg rd, .imm v]
  | .jalr rd rs1 v => [.reg rd, .reg rs1, .imm v]
  | .fence _ pred succ _ _ => [.imm succ, .imm pred]
  | .fenceI => []
  | .ecall => []
  | .ebreak => []
  | .csr _ rd src csr => [.reg rd, .reg src, .imm (sext 12 csr)]
  | .lr aq rl rd rs1 => [.reg rd, .reg rs1, .imm (b2i aq), .imm (b2i rl)]
  | .sc aq rl rd rs1 rs2 => [.reg rd, .reg rs1, .reg rs2, .imm (b2i aq), .imm (b2i rl)]
  | .amo _ aq rl rd rs1 rs2 => [.reg rd, .reg rs1, .reg rs2, .imm (b2i aq), .imm (b2i rl)]

theorem b2i_bit (v : Int) (h : uimm 1 v = true) : b2i (decide (v = 1)) = v := by
  simp only [uimm, Nat.reducePow, Bool.and_eq_true, decide_eq_true_eq, Int.reducePow] at h
  unfold b2i
  by_cases h1 : v = 1
  · simp [h1]
  · simp only [h1, decide_false, Bool.false_eq_true, ↓reduceIte]; omega

theorem opsOf_intent (c : Mn32) (ops : List Opnd) (hl : legalOf c ops = true) :
    (intentOf c ops).map opsOf = some (normOps c ops) := by
  unfold legalOf at hl
  split at hl <;>
    simp only [intentOf, normOps, opsOf, Option.map_some, Bool.and_eq_true, decide_eq_true_eq] at hl ⊢
  case h_6 o rd src v =>
    -- csr: the field is v mod 4096, the signed reading of which is v again
    obtain ⟨⟨_, _⟩, hv⟩ := hl
    simp only [simm, Nat.reduceSub, Int.reducePow, Bool.and_eq_true, decide_eq_true_eq] at hv
    rw [sext12 v (by omega)]
  case h_9 rd v =>
    obtain ⟨_, h1, h2⟩ := hl
    have : ((v % 1048576).toNat : Int) = v % 1048576 := by omega
    rw [this]
  case h_10 rd v =>
    obtain ⟨_, h1, h2⟩ := hl
    have : ((v % 1048576).toNat : Int) = v % 1048576 := by omega
    rw [this]
  case h_12 succ pred =>
    obtain ⟨h1, h2⟩ := hl
    simp only [uimm, Nat.reducePow, Int.reducePow, Bool.and_eq_true, decide_eq_true_eq] at h1 h2
    have e1 : (succ.toNat : Int) = succ := by omega
    have e2 : (pred.toNat : Int) = pred := by omega
    rw [e1, e2]
  case h_16 rd rs1 rs2 aq rl =>
    obtain ⟨⟨_, haq⟩, hrl⟩ := hl; rw [b2i_bit aq haq, b2i_bit rl hrl]
  case h_17 o rd rs1 rs2 aq rl =>
    obtain ⟨⟨_, haq⟩, hrl⟩ := hl; rw [b2i_bit aq haq, b2i_bit rl hrl]
  case h_18 rd rs1 aq rl =>
    obtain ⟨⟨_, haq⟩, hrl⟩ := hl; rw [b2i_bit aq haq, b2i_bit rl hrl]
  case h_19 => simp at hl

/-- **C01, second sentence.**  If one mnemonic's encoder maps two argument lists to the same word,
    the two lists denote the same operand tuple (up to `normOps`). -/
theorem enc32_inj (e : String × EncKind) (he : e ∈ instrTable) (hs : e.2.size = 4)
    (a b : List Arg) (w : Nat) (ha : encodeKind e.2 a = .ok w) (hb : encodeKind e.2 b = .ok w) :
    ∃ c oa ob, classOf e.1 = some c ∧ denote32 e.2 a = some oa ∧ denote32 e.2 b = some ob ∧
      normOps c oa = normOps c ob := by
  obtain ⟨oa, hda, hla, _, _, hia⟩ := enc32_sound e he hs a w ha
  obtain ⟨ob, hdb, hlb, _, _, hib⟩ := enc32_sound e he hs b w hb
  unfold legal32 at hla hlb
  unfold intent32 at hia hib
  cases hc : classOf e.1 with
  | none => simp [hc] at hla
  | some c =>
    simp only [hc] at hla hlb hia hib
    refine ⟨c, oa, ob, rfl, hda, hdb, ?_⟩
    have h1 := opsOf_intent c oa hla
    have h2 := opsOf_intent c ob hlb
    rw [← hia] at h1
    rw [← hib, h1] at h2
    exact Option.some.inj h2

/-- non-vacuity: a concrete accepted call, its word, and what the specification decodes it to -/
example : encode "addi" [.r (.str "x1"), .r (.str "t0"), .i 5] = .ok 0x00528093 ∧
    decode32 0x00528093 = some (.i .addi 1 5 5) := by decide
example : encode "lui" [.r (.str "a4"), .i 0xfffff] = encode "lui" [.r (.int 14), .i (-1)] := by decide

end BB.Props.C01
