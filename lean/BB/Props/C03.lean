/-
  BB.Props.C03 — the label table is exact (first half of C03; the "transfers land" half builds on
  it together with C01/C02/C07).  Also the backbone of C08 and C09.

  `assemble_layout`: for every item list, both compression modes, every hook implementation:
  if assemble() succeeds then the output splits into one run of blobs per SOURCE item, in order
  (`Img items[i] parts[i]`, Lemmas/Order.lean: what each kind of item may contribute), the binary is
  the concatenation of the runs, and the label table gives, for every label item, exactly the number
  of bytes contributed by the items in front of it.  `assemble_layout_ghost` is the same with the
  label markers still in place in a ghost list `Gf` (`Expands items Gf`).
-/
import BB.Lemmas.Final
import BB.Lemmas.OrderPasses
namespace BB.Props.C03
open BB BB.Lemmas

theorem resolveConstants_spec (H : Hooks) (items : List Item) (constants : Dict) (out : List Item)
    (constants' : Dict) (h : resolveConstants H items constants = .ok (out, constants')) :
    labelNames out = labelNames items ∧ (NonNeg items → NonNeg out) ∧
    (∀ it ∈ out, it ∈ items) := by
  induction items generalizing constants out constants' with
  | nil =>
    simp only [resolveConstants, Except.ok.injEq, Prod.mk.injEq] at h
    obtain ⟨rfl, rfl⟩ := h
    exact ⟨rfl, fun h => h, fun _ h => h⟩
  | cons it rest ih =>
    cases it with
    | constant line name expr =>
      simp only [resolveConstants] at h
      split at h
      · split at h
        · simp at h
        · split at h
          · simp at h
          · simp only [bind, Except.bind] at h
            split at h
            · simp at h
            · obtain ⟨i1, i2, i3⟩ := ih _ _ _ h
              refine ⟨by simpa [labelNames] using i1, ?_, ?_⟩
              · intro hnn; exact i2 (fun x hx => hnn x (List.mem_cons_of_mem _ hx))
              · intro x hx; exact List.mem_cons_of_mem _ (i3 x hx)
      · simp at h
    | label line nm =>
      simp only [resolveConstants, bind, Except.bind] at h
      cases hr : resolveConstants H rest constants with
      | error e => simp [hr] at h
      | ok res =>
        obtain ⟨o, c⟩ := res
        simp only [hr, pure, Except.pure, Except.ok.injEq, Prod.mk.injEq] at h
        obtain ⟨rfl, rfl⟩ := h
        obtain ⟨i1, i2, i3⟩ := ih _ _ _ hr
        refine ⟨by simp [labelNames, i1], ?_, ?_⟩
        · intro hnn x hx
          simp only [List.mem_cons] at hx
          rcases hx with rfl | hx
          · exact hnn _ List.mem_cons_self
          · exact i2 (fun y hy => hnn y (List.mem_cons_of_mem _ hy)) x hx
        · intro x hx
          simp only [List.mem_cons] at hx
          rcases hx with rfl | hx
          · exact List.mem_cons_self
          · exact List.mem_cons_of_mem _ (i3 x hx)
    | _ =>
      simp only [resolveConstants, bind, Except.bind] at h
      cases hr : resolveConstants H rest constants with
      | error e => simp [hr] at h
      | ok res =>
        obtain ⟨o, c⟩ := res
        simp only [hr, pure, Except.pure, Except.ok.injEq, Prod.mk.injEq] at h
        obtain ⟨rfl, rfl⟩ := h
        obtain ⟨i1, i2, i3⟩ := ih _ _ _ hr
        refine ⟨by simpa [labelNames] using i1, ?_, ?_⟩
        · intro hnn x hx
          simp only [List.mem_cons] at hx
          rcases hx with rfl | hx
          · exact hnn _ List.mem_cons_self
          · exact i2 (fun y hy => hnn y (List.mem_cons_of_mem _ hy)) x hx
        · intro x hx
          simp only [List.mem_cons] at hx
          rcases hx with rfl | hx
          · exact List.mem_cons_self
          · exact List.mem_cons_of_mem _ (i3 x hx)

/-- the state carried from pass to pass: a ghost list whose markers are laid out exactly where the
    label table says, and whose marker-free version is the list the real pass sees -/
structure Stage (G : List Item) (real : List Item) (labels : Dict) (names : List String) : Prop where
  strip_eq : strip G = real
  nonneg : NonNeg G
  nodup : (labelNames G).Nodup
  names_eq : labelNames G = names
  agree : ∀ ℓ v, labelPos G 0 ℓ = some v → labels.get ℓ = some v
  low : ∀ ℓ v, ℓ ∉ labelNames G → labels.get ℓ = some v → v ≤ 0

theorem stage_walk {f : Item → Int → Dict → Except Err (List Item × Int)} (hf : BodyOK f)
    {G real : List Item} {labels : Dict} {names : List String} (st : Stage G real labels names)
    {out : List Item} {labels' : Dict} (h : walk f real 0 labels = .ok (out, labels')) :
    ∃ G', Stage G' out labels' names := by
  obtain ⟨G', hw, hs⟩ := walk_strip hf G st.nonneg 0 labels out labels' (by rw [st.strip_eq]; exact h)
  obtain ⟨w1, w2, w3, w4, _⟩ := walk_layout hf G 0 labels G' labels' st.nonneg st.nodup st.agree st.low hw
  refine ⟨G', hs, w4, by rw [w3]; exact st.nodup, by rw [w3]; exact st.names_eq, w1, ?_⟩
  intro ℓ v hℓ hv
  rw [w3] at hℓ
  rw [w2 ℓ hℓ] at hv
  exact st.low ℓ v hℓ hv

theorem stage_aliases {G real : List Item} {labels : Dict} {names : List String}
    (st : Stage G real labels names) (constants : Dict) :
    Stage (resolveRegisterAliases G constants) (resolveRegisterAliases real constants) labels names := by
  refine ⟨by rw [aliases_strip, st.strip_eq], aliases_nonNeg constants st.nonneg,
    by rw [aliases_labelNames]; exact st.nodup, by rw [aliases_labelNames]; exact st.names_eq, ?_, ?_⟩
  · intro ℓ v hv; rw [aliases_labelPos] at hv; exact st.agree ℓ v hv
  · intro ℓ v hℓ hv; rw [aliases_labelNames] at hℓ; exact st.low ℓ v hℓ hv

theorem stage_mapM {g : Item → Except Err Item} (hg : StepOK g)
    {G real : List Item} {labels : Dict} {names : List String} (st : Stage G real labels names)
    {out : List Item} (h : real.mapM g = .ok out) :
    ∃ G', Stage G' out labels names := by
  obtain ⟨G', _, hs, hp, hn, hnn⟩ := mapM_ghost hg G out (by rw [st.strip_eq]; exact h)
  refine ⟨G', hs, hnn st.nonneg, by rw [hn]; exact st.nodup, by rw [hn]; exact st.names_eq, ?_, ?_⟩
  · intro ℓ v hv; rw [hp] at hv; exact st.agree ℓ v hv
  · intro ℓ v hℓ hv; rw [hn] at hℓ; exact st.low ℓ v hℓ hv

theorem stage_strings {G real : List Item} {labels : Dict} {names : List String}
    (st : Stage G real labels names) :
    ∃ G', Stage G' (resolveStrings real) labels names := by
  have hg : StepOK (fun it => (pure (match it with
      | .string line v => Item.blob line (utf8Bytes v) | other => other) : Except Err Item)) := by
    constructor
    · intro l n; rfl
    · intro it it' hnl h
      simp only [pure, Except.pure, Except.ok.injEq] at h
      subst h
      refine ⟨?_, stringStep_sizeD it⟩
      cases it <;> first | exact hnl | (intro l n hh; cases hh)
  have hm : ∀ l : List Item, l.mapM (fun it => (pure (match it with
      | .string line v => Item.blob line (utf8Bytes v) | other => other) : Except Err Item))
      = .ok (resolveStrings l) := by
    intro l
    unfold resolveStrings
    induction l with
    | nil => rfl
    | cons a t ih => rw [List.mapM_cons, ih]; rfl
  exact stage_mapM hg st (hm real)

/-! ### the ghost walk itself, exposed -/

theorem stage_walk_ex {f : Item → Int → Dict → Except Err (List Item × Int)} (hf : BodyOK f)
    {G real : List Item} {labels : Dict} {names : List String} (st : Stage G real labels names)
    {out : List Item} {labels' : Dict} (h : walk f real 0 labels = .ok (out, labels')) :
    ∃ G', walk f G 0 labels = .ok (G', labels') ∧ Stage G' out labels' names := by
  obtain ⟨G', hw, hs⟩ := walk_strip hf G st.nonneg 0 labels out labels' (by rw [st.strip_eq]; exact h)
  obtain ⟨w1, w2, w3, w4, _⟩ := walk_layout hf G 0 labels G' labels' st.nonneg st.nodup st.agree st.low hw
  refine ⟨G', hw, hs, w4, by rw [w3]; exact st.nodup, by rw [w3]; exact st.names_eq, w1, ?_⟩
  intro ℓ v hℓ hv
  rw [w3] at hℓ
  rw [w2 ℓ hℓ] at hv
  exact st.low ℓ v hℓ hv

theorem stage_mapM_ex {g : Item → Except Err Item} (hg : StepOK g)
    {G real : List Item} {labels : Dict} {names : List String} (st : Stage G real labels names)
    {out : List Item} (h : real.mapM g = .ok out) :
    ∃ G', G.mapM g = .ok G' ∧ Stage G' out labels names := by
  obtain ⟨G', hm, hs, hp, hn, hnn⟩ := mapM_ghost hg G out (by rw [st.strip_eq]; exact h)
  refine ⟨G', hm, hs, hnn st.nonneg, by rw [hn]; exact st.nodup, by rw [hn]; exact st.names_eq, ?_, ?_⟩
  · intro ℓ v hv; rw [hp] at hv; exact st.agree ℓ v hv
  · intro ℓ v hℓ hv; rw [hn] at hℓ; exact st.low ℓ v hℓ hv

theorem stage_strings_ex {G real : List Item} {labels : Dict} {names : List String}
    (st : Stage G real labels names) :
    Stage (resolveStrings G) (resolveStrings real) labels names := by
  have hg : StepOK (fun it => (pure (match it with
      | .string line v => Item.blob line (utf8Bytes v) | other => other) : Except Err Item)) := by
    constructor
    · intro l n; rfl
    · intro it it' hnl h
      simp only [pure, Except.pure, Except.ok.injEq] at h
      subst h
      refine ⟨?_, stringStep_sizeD it⟩
      cases it <;> first | exact hnl | (intro l n hh; cases hh)
  have hm : ∀ l : List Item, l.mapM (fun it => (pure (match it with
      | .string line v => Item.blob line (utf8Bytes v) | other => other) : Except Err Item))
      = .ok (resolveStrings l) := by
    intro l
    unfold resolveStrings
    induction l with
    | nil => rfl
    | cons a t ih => rw [List.mapM_cons, ih]; rfl
  obtain ⟨G', hG, st'⟩ := stage_mapM_ex hg st (hm real)
  rw [hm G] at hG
  cases hG
  exact st'

/-! ### reading a ghost list as one run per source item -/

theorem blobBytes_cons_blob (line : Line) (d : List Nat) (rest : List Item) :
    blobBytes (.blob line d :: rest) = d ++ blobBytes rest := rfl

theorem blobBytes_append (a b : List Item) : blobBytes (a ++ b) = blobBytes a ++ blobBytes b := by
  induction a with
  | nil => rfl
  | cons x t ih => cases x <;> simp [blobBytes, ih]

theorem labelNames_app (a b : List Item) : labelNames (a ++ b) = labelNames a ++ labelNames b := by
  induction a with
  | nil => rfl
  | cons x t ih => cases x <;> simp [labelNames, ih]

theorem blobBytes_strip (a : List Item) : blobBytes (strip a) = blobBytes a := by
  induction a with
  | nil => rfl
  | cons x t ih =>
    cases x <;> simp [strip, Item.isLabel, blobBytes] at ih ⊢ <;> rw [ih]

theorem strip_of_no_names (a : List Item) (h : labelNames a = []) : strip a = a := by
  induction a with
  | nil => rfl
  | cons x t ih =>
    cases x with
    | label l n => simp [labelNames] at h
    | _ =>
      simp only [labelNames] at h
      simp only [strip, List.filter_cons, Item.isLabel, Bool.not_false, if_true]
      exact congrArg _ (ih h)

theorem labelNames_code {x : Item} (h : Item.isData x = true ∨ Item.isInstr x = true) : labelNames [x] = [] := by
  cases x <;> first | rfl | (rcases h with h | h <;> simp [Item.isData, Item.isInstr] at h)

/-- a label's image is the label itself or nothing; no other item's image contains a label -/
theorem img_names {it : Item} {repl : List Item} (h : Img it repl) :
    (∀ line ℓ, it = .label line ℓ → repl = [it] ∨ repl = []) ∧
    ((∀ line ℓ, it ≠ .label line ℓ) → labelNames repl = []) := by
  refine ⟨?_, ?_⟩
  · intro line ℓ e
    subst e
    rcases h.special rfl with e | e
    · exact Or.inl e
    · exact Or.inr (by simpa [SpecImg] using e)
  · intro hnl
    have hcode : ∀ x, Item.isCode x → labelNames [x] = [] := by
      intro x hx
      rcases hx with hx | ⟨hx, _⟩
      · exact labelNames_code (Or.inr hx)
      · exact labelNames_code (Or.inl hx)
    cases it with
    | label line ℓ => exact absurd rfl (hnl line ℓ)
    | constant line n e =>
      rcases h.special rfl with e | e
      · rw [e]; rfl
      · simp only [SpecImg] at e; rw [e]; rfl
    | blob line d =>
      rcases h.special rfl with e | e
      · rw [e]; rfl
      · simp [SpecImg] at e
    | pseudo line n args =>
      rcases h.special rfl with e | e
      · rw [e]; rfl
      · simp only [SpecImg] at e
        rcases e with ⟨x, rfl, hx⟩ | ⟨x, y, rfl, hx, hy⟩
        · exact hcode x hx
        · have := labelNames_app [x] [y]
          simp only [List.cons_append, List.nil_append] at this
          rw [this, hcode x hx, hcode y hy]; rfl
    | align line a =>
      rcases h.special rfl with e | e
      · rw [e]; rfl
      · simp only [SpecImg] at e
        rcases e with rfl | ⟨n, _, _, rfl⟩ <;> rfl
    | instr line ins =>
      obtain ⟨x, rfl, hx⟩ := h.instr rfl
      exact hcode x hx
    | includeBytes line pth n =>
      obtain ⟨x, rfl, hx, _⟩ := h.data rfl
      exact labelNames_code (Or.inl hx)
    | string line v =>
      obtain ⟨x, rfl, hx, _⟩ := h.data rfl
      exact labelNames_code (Or.inl hx)
    | sequence line n vs =>
      obtain ⟨x, rfl, hx, _⟩ := h.data rfl
      exact labelNames_code (Or.inl hx)
    | pack line f i =>
      obtain ⟨x, rfl, hx, _⟩ := h.data rfl
      exact labelNames_code (Or.inl hx)
    | shorthandPack line n i =>
      obtain ⟨x, rfl, hx, _⟩ := h.data rfl
      exact labelNames_code (Or.inl hx)

theorem expands_names_le {a out : List Item} (h : Expands a out) :
    (labelNames out).length ≤ (labelNames a).length := by
  induction h with
  | nil => exact Nat.le_refl _
  | @cons it rest repl out hi _ ih =>
    rw [labelNames_app, List.length_append]
    have h1 : (labelNames repl).length + (labelNames rest).length ≤ (labelNames (it :: rest)).length := by
      by_cases hl : ∃ line ℓ, it = .label line ℓ
      · obtain ⟨line, ℓ, rfl⟩ := hl
        rcases (img_names hi).1 line ℓ rfl with e | e <;> rw [e] <;> simp [labelNames] <;> omega
      · have hnl : ∀ line ℓ, it ≠ .label line ℓ := fun line ℓ e => hl ⟨line, ℓ, e⟩
        rw [(img_names hi).2 hnl]
        have : labelNames (it :: rest) = labelNames rest := by
          cases it <;> first | rfl | exact absurd rfl (hnl _ _)
        rw [this]; simp
    omega

/-- if no label name is lost, the ghost list splits into one run per source item in which every
    label is its own run -/
theorem expands_label_parts {a out : List Item} (h : Expands a out) (hn : labelNames out = labelNames a) :
    ∃ parts : List (List Item), parts.length = a.length ∧ out = parts.flatten ∧
      (∀ i (hi : i < a.length) (hp : i < parts.length), Img a[i] parts[i]) ∧
      (∀ i (hi : i < a.length) (hp : i < parts.length) line ℓ, a[i] = .label line ℓ → parts[i] = [a[i]]) ∧
      (∀ i (hi : i < a.length) (hp : i < parts.length), (∀ line ℓ, a[i] ≠ .label line ℓ) →
        labelNames parts[i] = []) := by
  induction h with
  | nil => exact ⟨[], rfl, rfl, fun i hi => by simp at hi, fun i hi => by simp at hi, fun i hi => by simp at hi⟩
  | @cons it rest repl out hi hr ih =>
    rw [labelNames_app] at hn
    have hle := expands_names_le hr
    by_cases hl : ∃ line ℓ, it = .label line ℓ
    · obtain ⟨line, ℓ, rfl⟩ := hl
      rcases (img_names hi).1 line ℓ rfl with e | e
      · subst e
        simp only [labelNames, List.cons_append, List.nil_append, List.cons.injEq, true_and] at hn
        obtain ⟨parts, hlen, hout, hall, hlab, hoth⟩ := ih hn
        refine ⟨[.label line ℓ] :: parts, by simp [hlen], by simp [hout], ?_, ?_, ?_⟩
        · intro i h1 h2
          cases i with
          | zero => exact hi
          | succ j => exact hall j (by simpa using h1) (by simpa using h2)
        · intro i h1 h2 l2 n2 e
          cases i with
          | zero => rfl
          | succ j => exact hlab j (by simpa using h1) (by simpa using h2) l2 n2 (by simpa using e)
        · intro i h1 h2 e
          cases i with
          | zero => exact absurd rfl (e line ℓ)
          | succ j => exact hoth j (by simpa using h1) (by simpa using h2) (by simpa using e)
      · subst e
        simp only [labelNames, List.nil_append] at hn
        rw [hn] at hle
        simp only [List.length_cons] at hle
        omega
    · have hnl : ∀ line ℓ, it ≠ .label line ℓ := fun line ℓ e => hl ⟨line, ℓ, e⟩
      have e0 := (img_names hi).2 hnl
      have e1 : labelNames (it :: rest) = labelNames rest := by
        cases it <;> first | rfl | exact absurd rfl (hnl _ _)
      rw [e0, e1, List.nil_append] at hn
      obtain ⟨parts, hlen, hout, hall, hlab, hoth⟩ := ih hn
      refine ⟨repl :: parts, by simp [hlen], by simp [hout], ?_, ?_, ?_⟩
      · intro i h1 h2
        cases i with
        | zero => exact hi
        | succ j => exact hall j (by simpa using h1) (by simpa using h2)
      · intro i h1 h2 l2 n2 e
        cases i with
        | zero => exact absurd e (hnl l2 n2)
        | succ j => exact hlab j (by simpa using h1) (by simpa using h2) l2 n2 (by simpa using e)
      · intro i h1 h2 e
        cases i with
        | zero => exact e0
        | succ j => exact hoth j (by simpa using h1) (by simpa using h2) (by simpa using e)

theorem bytesBefore_at (A B : List Item) (line : Line) (ℓ : String) (hA : OnlyBlobs A)
    (hℓ : ℓ ∉ labelNames A) : bytesBefore (A ++ .label line ℓ :: B) ℓ = some (blobBytes A).length := by
  induction A with
  | nil => simp [bytesBefore, blobBytes]
  | cons x t ih =>
    have ht : OnlyBlobs t := fun y hy => hA y (List.mem_cons_of_mem _ hy)
    rcases hA x List.mem_cons_self with ⟨l, n, rfl⟩ | ⟨l, d, rfl⟩
    · simp only [labelNames, List.mem_cons, not_or] at hℓ
      simp only [List.cons_append, bytesBefore, blobBytes]
      rw [if_neg (fun e => hℓ.1 e.symm)]
      exact ih ht hℓ.2
    · simp only [labelNames] at hℓ
      simp only [List.cons_append, bytesBefore, blobBytes, List.length_append]
      rw [ih ht hℓ]; rfl

theorem flatten_split (parts : List (List Item)) (i : Nat) (hp : i < parts.length) :
    parts.flatten = (parts.take i).flatten ++ parts[i] ++ (parts.drop (i + 1)).flatten := by
  induction parts generalizing i with
  | nil => simp at hp
  | cons a t ih =>
    cases i with
    | zero => simp
    | succ j =>
      have := ih j (by simpa using hp)
      simp only [List.flatten_cons, List.take_succ_cons, List.getElem_cons_succ, List.drop_succ_cons]
      rw [this]; simp [List.append_assoc]

/-- the ghost form: there is a final ghost list `Gf` — the output blobs with the label markers still in
    place, ONE RUN PER SOURCE ITEM (`Expands items Gf`) — such that the binary is the concatenation of the
    blobs and the label table gives, for every label, the number of bytes emitted before its marker -/
theorem assemble_layout_ghost (H : Hooks) (compress : Bool) (items : List Item) (r : AsmResult)
    (hnn : NonNeg items)
    (h : assembleItems H compress items [] [] = .ok r) :
    ∃ Gf : List Item, Expands items Gf ∧ OnlyBlobs Gf ∧ labelNames Gf = labelNames items ∧
      (labelNames items).Nodup ∧ r.bytes = blobBytes Gf ∧
      ∀ ℓ ∈ labelNames items, r.labels.get ℓ = (bytesBefore Gf ℓ).map (fun (k : Nat) => Int.ofNat k) := by
  unfold assembleItems at h
  simp only [bind, Except.bind] at h
  -- resolve_constants
  cases h1 : resolveConstants H items [] with
  | error e => simp [h1] at h
  | ok r1 =>
  obtain ⟨items1, constants⟩ := r1
  simp only [h1] at h
  obtain ⟨c1, c2, _⟩ := resolveConstants_spec H items [] items1 constants h1
  have e0 : Expands items items1 := resolveConstants_expands H items [] items1 constants h1
  -- resolve_labels
  cases h2 : resolveLabels items1 [] with
  | error e => simp [h2] at h
  | ok r2 =>
  obtain ⟨items2, labels2⟩ := r2
  simp only [h2] at h
  obtain ⟨l1, l2, _, l4, l5⟩ := resolveLabelsAux_spec items1 0 [] [] items2 labels2 h2
  have st0 : Stage items1 items2 labels2 (labelNames items) := by
    refine ⟨l1.symm, c2 hnn, l2, c1, l4, ?_⟩
    intro ℓ v hℓ hv
    rw [l5 ℓ hℓ] at hv
    simp [Dict.get, List.lookup] at hv
  have st1 := stage_aliases st0 constants
  have e1 := e0.trans (aliases_expands items1 constants)
  -- transform_compressible (first)
  have step_c : ∀ {G real labels}, Stage G real labels (labelNames items) → Expands items G →
      ∀ {o : List Item} {l : Dict},
      maybeCompress H compress real constants labels = .ok (o, l) →
      ∃ G', Stage G' o l (labelNames items) ∧ Expands items G' := by
    intro G real labels st eG o l hres
    unfold maybeCompress at hres
    by_cases hc : compress = true
    · rw [if_pos hc] at hres
      obtain ⟨G', hw, st'⟩ := stage_walk_ex (compressBody_ok H constants) st hres
      exact ⟨G', st', eG.trans (walk_expands (compressBody_img H constants) G 0 labels G' l hw)⟩
    · rw [if_neg hc] at hres
      simp only [pure, Except.pure, Except.ok.injEq, Prod.mk.injEq] at hres
      obtain ⟨rfl, rfl⟩ := hres
      exact ⟨G, st, eG⟩
  cases h3 : maybeCompress H compress (resolveRegisterAliases items2 constants) constants labels2 with
  | error e => simp [h3] at h
  | ok r3 =>
  obtain ⟨items3, labels3⟩ := r3
  simp only [h3] at h
  obtain ⟨G3, st3, e3⟩ := step_c st1 e1 h3
  -- transform_pseudo_instructions
  cases h4 : transformPseudo H items3 constants labels3 with
  | error e => simp [h4] at h
  | ok r4 =>
  obtain ⟨items4, labels4⟩ := r4
  simp only [h4] at h
  obtain ⟨G4, hw4, st4⟩ := stage_walk_ex (pseudoBody_ok H constants) st3 h4
  have e4 := e3.trans (walk_expands (pseudoBody_img H constants) G3 0 labels3 G4 labels4 hw4)
  have st5 := stage_aliases st4 constants
  have e5 := e4.trans (aliases_expands G4 constants)
  -- transform_compressible (second)
  cases h6 : maybeCompress H compress (resolveRegisterAliases items4 constants) constants labels4 with
  | error e => simp [h6] at h
  | ok r6 =>
  obtain ⟨items6, labels6⟩ := r6
  simp only [h6] at h
  obtain ⟨G6, st6, e6⟩ := step_c st5 e5 h6
  -- resolve_aligns
  cases h7 : resolveAligns items6 labels6 with
  | error e => simp [h7] at h
  | ok r7 =>
  obtain ⟨items7, labels7⟩ := r7
  simp only [h7] at h
  obtain ⟨G7, hw7, st7⟩ := stage_walk_ex alignBody_ok st6 h7
  have e7 := e6.trans (walk_expands alignBody_img G6 0 labels6 G7 labels7 hw7)
  -- resolve_immediates
  cases h8 : resolveImmediates H items7 constants labels7 with
  | error e => simp [h8] at h
  | ok items8 =>
  simp only [h8] at h
  unfold resolveImmediates at h8
  simp only [bind, Except.bind] at h8
  cases h8w : walk (immBody H constants) items7 0 labels7 with
  | error e => simp [h8w] at h8
  | ok r8 =>
  obtain ⟨o8, l8⟩ := r8
  simp only [h8w, pure, Except.pure, Except.ok.injEq] at h8
  subst h8
  -- the label table the caller gets is labels7; the immediates walk does not move any label
  have hl8 : l8 = labels7 := walk_zero_labels (immBody_zero H constants) items7 0 labels7 o8 l8 h8w
  subst hl8
  obtain ⟨G8, hw8, st8⟩ := stage_walk_ex (immBody_ok H constants) st7 h8w
  have e8 := e7.trans (walk_expands (immBody_img H constants) G7 0 l8 G8 l8 hw8)
  -- resolve_instructions … resolve_include_bytes
  cases h9 : resolveInstructions o8 with
  | error e => simp [h9] at h
  | ok items9 =>
  simp only [h9] at h
  obtain ⟨G9, hm9, st9⟩ := stage_mapM_ex instrStep_ok st8 h9
  have e9 := e8.trans (mapM_expands instrStep_img G8 G9 hm9)
  have st10 := stage_strings_ex st9
  have e10 := e9.trans (strings_expands G9)
  cases h11 : resolveSequences (resolveStrings items9) with
  | error e => simp [h11] at h
  | ok items11 =>
  simp only [h11] at h
  obtain ⟨G11, hm11, st11⟩ := stage_mapM_ex seqStep_ok st10 h11
  have e11 := e10.trans (mapM_expands seqStep_img _ G11 hm11)
  cases h12 : transformShorthandPacks items11 with
  | error e => simp [h12] at h
  | ok items12 =>
  simp only [h12] at h
  obtain ⟨G12, hm12, st12⟩ := stage_mapM_ex shorthandStep_ok st11 h12
  have e12 := e11.trans (mapM_expands shorthandStep_img _ G12 hm12)
  cases h13 : resolvePacks items12 with
  | error e => simp [h13] at h
  | ok items13 =>
  simp only [h13] at h
  obtain ⟨G13, hm13, st13⟩ := stage_mapM_ex packStep_ok st12 h13
  have e13 := e12.trans (mapM_expands packStep_img _ G13 hm13)
  cases h14 : resolveIncludeBytes H items13 with
  | error e => simp [h14] at h
  | ok items14 =>
  simp only [h14] at h
  obtain ⟨G14, hm14, st14⟩ := stage_mapM_ex (includeBytesStep_ok H) st13 h14
  have e14 := e13.trans (mapM_expands (includeBytesStep_img H) _ G14 hm14)
  cases h15 : resolveBlobs items14 with
  | error e => simp [h15] at h
  | ok bytes =>
  simp only [h15, pure, Except.pure, Except.ok.injEq] at h
  subst h
  obtain ⟨hob, hbytes⟩ := resolveBlobs_ghost G14 bytes (by rw [st14.strip_eq]; exact h15)
  refine ⟨G14, e14, hob, st14.names_eq, ?_, hbytes, ?_⟩
  · rw [← st14.names_eq]; exact st14.nodup
  · intro ℓ hℓ
    rw [← st14.names_eq] at hℓ
    have hsome := (labelPos_isSome_iff G14 0 ℓ).mpr hℓ
    cases hp : labelPos G14 0 ℓ with
    | none => simp [hp] at hsome
    | some v =>
      have := st14.agree ℓ v hp
      simp only
      rw [this]
      rw [labelPos_onlyBlobs G14 hob] at hp
      cases hb : bytesBefore G14 ℓ with
      | none => simp [hb] at hp
      | some k =>
        simp only [hb, Option.map_some, Option.some.injEq] at hp ⊢
        omega

/-- from the ghost list to the partition: if `Gf` is the output with the label markers still in place,
    one run per source item, then `strip Gf` (the blobs alone) splits into one run per source item and
    a label's value is the number of bytes in the runs in front of it -/
theorem layout_of_ghost {items Gf : List Item} {labels : Dict}
    (hexp : Expands items Gf) (hob : OnlyBlobs Gf) (hnames : labelNames Gf = labelNames items)
    (hnd : (labelNames items).Nodup)
    (hlab : ∀ ℓ ∈ labelNames items, labels.get ℓ = (bytesBefore Gf ℓ).map (fun (k : Nat) => Int.ofNat k)) :
    ∃ parts : List (List Item), parts.length = items.length ∧ parts.flatten = strip Gf ∧
      (∀ i (hi : i < items.length) (hp : i < parts.length), Img items[i] parts[i]) ∧
      ∀ i (hi : i < items.length) line ℓ, items[i] = .label line ℓ →
        labels.get ℓ = some ((blobBytes (parts.take i).flatten).length : Int) := by
  obtain ⟨gp, glen, gflat, gimg, glabel, gother⟩ := expands_label_parts hexp hnames
  -- the runs without their markers
  have hstripflat : ∀ l : List (List Item), (l.map strip).flatten = strip l.flatten := by
    intro l
    induction l with
    | nil => rfl
    | cons a t ih => simp only [List.map_cons, List.flatten_cons, strip_append, ih]
  refine ⟨gp.map strip, by simp [glen], by rw [hstripflat, ← gflat], ?_, ?_⟩
  · intro i hi hp
    have hp' : i < gp.length := by simpa using hp
    simp only [List.getElem_map]
    by_cases hl : ∃ line ℓ, items[i] = .label line ℓ
    · obtain ⟨line, ℓ, e⟩ := hl
      rw [glabel i hi hp' line ℓ e, e]
      exact Img.drop rfl
    · have hnl : ∀ line ℓ, items[i] ≠ .label line ℓ := fun line ℓ e => hl ⟨line, ℓ, e⟩
      rw [strip_of_no_names _ (gother i hi hp' hnl)]
      exact gimg i hi hp'
  · intro i hi line ℓ e
    have hp' : i < gp.length := by omega
    have hmemℓ : ℓ ∈ labelNames items := by
      have hsplit : items = items.take i ++ items[i] :: items.drop (i + 1) := by
        rw [List.getElem_cons_drop, List.take_append_drop]
      rw [hsplit, labelNames_app, e]
      simp [labelNames]
    rw [hlab ℓ hmemℓ]
    have hsplit := flatten_split gp i hp'
    rw [glabel i hi hp' line ℓ e, e] at hsplit
    have hGf : Gf = (gp.take i).flatten ++ .label line ℓ :: (gp.drop (i + 1)).flatten := by
      rw [gflat, hsplit]; simp [List.append_assoc]
    have hobA : OnlyBlobs (gp.take i).flatten := by
      intro x hx
      apply hob x
      rw [hGf]; exact List.mem_append_left _ hx
    have hnotin : ℓ ∉ labelNames (gp.take i).flatten := by
      have hnd' : (labelNames Gf).Nodup := by rw [hnames]; exact hnd
      rw [hGf, labelNames_app] at hnd'
      simp only [labelNames] at hnd'
      intro hin
      have := (List.nodup_append.mp hnd').2.2 ℓ hin ℓ List.mem_cons_self
      exact this rfl
    rw [hGf, bytesBefore_at _ _ line ℓ hobA hnotin]
    simp only [Option.map_some, Option.some.injEq]
    have : blobBytes ((gp.map strip).take i).flatten = blobBytes (gp.take i).flatten := by
      rw [← List.map_take, hstripflat, blobBytes_strip]
    rw [this]; rfl


theorem strip_onlyBlobs {Gf : List Item} (hob : OnlyBlobs Gf) : ∀ x ∈ strip Gf, ∃ line d, x = .blob line d := by
  intro x hx
  simp only [strip, List.mem_filter] at hx
  rcases hob x hx.1 with ⟨l, n, rfl⟩ | hb
  · simp [Item.isLabel] at hx
  · exact hb

/-- **The label table is exact, item by item.**  In every successful assembly the output splits into
    one run of blobs per SOURCE item, in source order (`parts[i]` is what `items[i]` contributed:
    `Img items[i] parts[i]` - nothing for a label / constant, one blob of the documented size for a data
    item, one blob of 2 / 4 bytes for an instruction, one or two such blobs for a pseudo-instruction,
    fewer than `a` zero bytes for `align a`; `C09.Img.bytes_of_blobs`), the binary is their
    concatenation, and THE VALUE OF EVERY LABEL IS THE NUMBER OF BYTES CONTRIBUTED BY THE ITEMS IN FRONT
    OF IT.  (So a result that puts every label at 0 satisfies this only if nothing is emitted before
    any label.)
    NOTE: `parts` is constrained here by `Img` only (an instruction may be read as 2 or 4 bytes), so the
    byte counts are not yet those of the real output.  The STRONG form, in which `parts.flatten` IS the
    list `out` of final blobs of the anchored frame, is `assemble_layout_framed` (Props/C03Program.lean). -/
theorem assemble_layout (H : Hooks) (compress : Bool) (items : List Item) (r : AsmResult)
    (hnn : NonNeg items)
    (h : assembleItems H compress items [] [] = .ok r) :
    ∃ parts : List (List Item), parts.length = items.length ∧
      (∀ x ∈ parts.flatten, ∃ line d, x = .blob line d) ∧
      r.bytes = blobBytes parts.flatten ∧
      (∀ i (hi : i < items.length) (hp : i < parts.length), Img items[i] parts[i]) ∧
      (labelNames items).Nodup ∧
      ∀ i (hi : i < items.length) line ℓ, items[i] = .label line ℓ →
        r.labels.get ℓ = some ((blobBytes (parts.take i).flatten).length : Int) := by
  obtain ⟨Gf, hexp, hob, hnames, hnd, hbytes, hlab⟩ := assemble_layout_ghost H compress items r hnn h
  obtain ⟨parts, hlen, hflat, himg, hval⟩ := layout_of_ghost hexp hob hnames hnd hlab
  refine ⟨parts, hlen, ?_, ?_, himg, hnd, hval⟩
  · rw [hflat]; exact strip_onlyBlobs hob
  · rw [hflat, blobBytes_strip]; exact hbytes

end BB.Props.C03
