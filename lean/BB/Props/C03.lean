/-
  BB.Props.C03 — the label table is exact (first half of C03; the "transfers land" half builds on
  it together with C01/C02/C07).  Also the backbone of C08 and C09.

  `assemble_layout`: for every item list, both compression modes, every hook implementation:
  if assemble() succeeds then there is a final ghost list `Gf` — the output blobs with the label
  markers still in place — such that the binary is the concatenation of the blobs in order and the
  label table gives, for every label, exactly the number of bytes emitted before its marker.
-/
import BB.Lemmas.Final
namespace BB.Props.C03
open BB BB.Lemmas

theorem resolveConstants_spec (H : Hooks) (items : List Item) (constants : Dict) (out : List Item)
    (constants' : Dict) (h : resolveConstants H items constants = .ok (out, constants')) :
    labelNames out = labelNames items ∧ (NonNeg items → NonNeg out) ∧
    (∀ it ∈ out, it ∈ items) := by
  induction items generalizing constants out constants' with
  | nil =>
    simp only [resolveConstants, Except.ok.injEq, Prod.mk.injEq] at h
    obtain ⟨rfl, rfl⟩ := h
    exact ⟨rfl, fun h => h, fun _ h => h⟩
  | cons it rest ih =>
    cases it with
    | constant line name expr =>
      simp only [resolveConstants] at h
      split at h
      · split at h
        · simp at h
        · split at h
          · simp at h
          · simp only [bind, Except.bind] at h
            split at h
            · simp at h
            · obtain ⟨i1, i2, i3⟩ := ih _ _ _ h
              refine ⟨by simpa [labelNames] using i1, ?_, ?_⟩
              · intro hnn; exact i2 (fun x hx => hnn x (List.mem_cons_of_mem _ hx))
              · intro x hx; exact List.mem_cons_of_mem _ (i3 x hx)
      · simp at h
    | label line nm =>
      simp only [resolveConstants, bind, Except.bind] at h
      cases hr : resolveConstants H rest constants with
      | error e => simp [hr] at h
      | ok res =>
        obtain ⟨o, c⟩ := res
        simp only [hr, pure, Except.pure, Except.ok.injEq, Prod.mk.injEq] at h
        obtain ⟨rfl, rfl⟩ := h
        obtain ⟨i1, i2, i3⟩ := ih _ _ _ hr
        refine ⟨by simp [labelNames, i1], ?_, ?_⟩
        · intro hnn x hx
          simp only [List.mem_cons] at hx
          rcases hx with rfl | hx
          · exact hnn _ List.mem_cons_self
          · exact i2 (fun y hy => hnn y (List.mem_cons_of_mem _ hy)) x hx
        · intro x hx
          simp only [List.mem_cons] at hx
          rcases hx with rfl | hx
          · exact List.mem_cons_self
          · exact List.mem_cons_of_mem _ (i3 x hx)
    | _ =>
      simp only [resolveConstants, bind, Except.bind] at h
      cases hr : resolveConstants H rest constants with
      | error e => simp [hr] at h
      | ok res =>
        obtain ⟨o, c⟩ := res
        simp only [hr, pure, Except.pure, Except.ok.injEq, Prod.mk.injEq] at h
        obtain ⟨rfl, rfl⟩ := h
        obtain ⟨i1, i2, i3⟩ := ih _ _ _ hr
        refine ⟨by simpa [labelNames] using i1, ?_, ?_⟩
        · intro hnn x hx
          simp only [List.mem_cons] at hx
          rcases hx with rfl | hx
          · exact hnn _ List.mem_cons_self
          · exact i2 (fun y hy => hnn y (List.mem_cons_of_mem _ hy)) x hx
        · intro x hx
          simp only [List.mem_cons] at hx
          rcases hx with rfl | hx
          · exact List.mem_cons_self
          · exact List.mem_cons_of_mem _ (i3 x hx)

/-- the state carried from pass to pass: a ghost list whose markers are laid out exactly where the
    label table says, and whose marker-free version is the list the real pass sees -/
structure Stage (G : List Item) (real : List Item) (labels : Dict) (names : List String) : Prop where
  strip_eq : strip G = real
  nonneg : NonNeg G
  nodup : (labelNames G).Nodup
  names_eq : labelNames G = names
  agree : ∀ ℓ v, labelPos G 0 ℓ = some v → labels.get ℓ = some v
  low : ∀ ℓ v, ℓ ∉ labelNames G → labels.get ℓ = some v → v ≤ 0

theorem stage_walk {f : Item → Int → Dict → Except Err (List Item × Int)} (hf : BodyOK f)
    {G real : List Item} {labels : Dict} {names : List String} (st : Stage G real labels names)
    {out : List Item} {labels' : Dict} (h : walk f real 0 labels = .ok (out, labels')) :
    ∃ G', Stage G' out labels' names := by
  obtain ⟨G', hw, hs⟩ := walk_strip hf G st.nonneg 0 labels out labels' (by rw [st.strip_eq]; exact h)
  obtain ⟨w1, w2, w3, w4, _⟩ := walk_layout hf G 0 labels G' labels' st.nonneg st.nodup st.agree st.low hw
  refine ⟨G', hs, w4, by rw [w3]; exact st.nodup, by rw [w3]; exact st.names_eq, w1, ?_⟩
  intro ℓ v hℓ hv
  rw [w3] at hℓ
  rw [w2 ℓ hℓ] at hv
  exact st.low ℓ v hℓ hv

theorem stage_aliases {G real : List Item} {labels : Dict} {names : List String}
    (st : Stage G real labels names) (constants : Dict) :
    Stage (resolveRegisterAliases G constants) (resolveRegisterAliases real constants) labels names := by
  refine ⟨by rw [aliases_strip, st.strip_eq], aliases_nonNeg constants st.nonneg,
    by rw [aliases_labelNames]; exact st.nodup, by rw [aliases_labelNames]; exact st.names_eq, ?_, ?_⟩
  · intro ℓ v hv; rw [aliases_labelPos] at hv; exact st.agree ℓ v hv
  · intro ℓ v hℓ hv; rw [aliases_labelNames] at hℓ; exact st.low ℓ v hℓ hv

theorem stage_mapM {g : Item → Except Err Item} (hg : StepOK g)
    {G real : List Item} {labels : Dict} {names : List String} (st : Stage G real labels names)
    {out : List Item} (h : real.mapM g = .ok out) :
    ∃ G', Stage G' out labels names := by
  obtain ⟨G', _, hs, hp, hn, hnn⟩ := mapM_ghost hg G out (by rw [st.strip_eq]; exact h)
  refine ⟨G', hs, hnn st.nonneg, by rw [hn]; exact st.nodup, by rw [hn]; exact st.names_eq, ?_, ?_⟩
  · intro ℓ v hv; rw [hp] at hv; exact st.agree ℓ v hv
  · intro ℓ v hℓ hv; rw [hn] at hℓ; exact st.low ℓ v hℓ hv

theorem stage_strings {G real : List Item} {labels : Dict} {names : List String}
    (st : Stage G real labels names) :
    ∃ G', Stage G' (resolveStrings real) labels names := by
  have hg : StepOK (fun it => (pure (match it with
      | .string line v => Item.blob line (utf8Bytes v) | other => other) : Except Err Item)) := by
    constructor
    · intro l n; rfl
    · intro it it' hnl h
      simp only [pure, Except.pure, Except.ok.injEq] at h
      subst h
      refine ⟨?_, stringStep_sizeD it⟩
      cases it <;> first | exact hnl | (intro l n hh; cases hh)
  have hm : ∀ l : List Item, l.mapM (fun it => (pure (match it with
      | .string line v => Item.blob line (utf8Bytes v) | other => other) : Except Err Item))
      = .ok (resolveStrings l) := by
    intro l
    unfold resolveStrings
    induction l with
    | nil => rfl
    | cons a t ih => rw [List.mapM_cons, ih]; rfl
  exact stage_mapM hg st (hm real)

/-- **The label table is exact, and the output is the in-order concatenation of the blobs.** -/
theorem assemble_layout (H : Hooks) (compress : Bool) (items : List Item) (r : AsmResult)
    (hnn : NonNeg items)
    (h : assembleItems H compress items [] [] = .ok r) :
    ∃ Gf : List Item, OnlyBlobs Gf ∧ labelNames Gf = labelNames items ∧ (labelNames items).Nodup ∧
      r.bytes = blobBytes Gf ∧
      ∀ ℓ ∈ labelNames items, r.labels.get ℓ = (bytesBefore Gf ℓ).map (fun (k : Nat) => Int.ofNat k) := by
  unfold assembleItems at h
  simp only [bind, Except.bind] at h
  -- resolve_constants
  cases h1 : resolveConstants H items [] with
  | error e => simp [h1] at h
  | ok r1 =>
  obtain ⟨items1, constants⟩ := r1
  simp only [h1] at h
  obtain ⟨c1, c2, _⟩ := resolveConstants_spec H items [] items1 constants h1
  -- resolve_labels
  cases h2 : resolveLabels items1 [] with
  | error e => simp [h2] at h
  | ok r2 =>
  obtain ⟨items2, labels2⟩ := r2
  simp only [h2] at h
  obtain ⟨l1, l2, _, l4, l5⟩ := resolveLabelsAux_spec items1 0 [] [] items2 labels2 h2
  have st0 : Stage items1 items2 labels2 (labelNames items) := by
    refine ⟨l1.symm, c2 hnn, l2, c1, l4, ?_⟩
    intro ℓ v hℓ hv
    rw [l5 ℓ hℓ] at hv
    simp [Dict.get, List.lookup] at hv
  have st1 := stage_aliases st0 constants
  -- transform_compressible (first)
  have step_c : ∀ {G real labels}, Stage G real labels (labelNames items) →
      ∀ {o : List Item} {l : Dict},
      maybeCompress H compress real constants labels = .ok (o, l) →
      ∃ G', Stage G' o l (labelNames items) := by
    intro G real labels st o l hres
    unfold maybeCompress at hres
    by_cases hc : compress = true
    · rw [if_pos hc] at hres
      exact stage_walk (compressBody_ok H constants) st hres
    · rw [if_neg hc] at hres
      simp only [pure, Except.pure, Except.ok.injEq, Prod.mk.injEq] at hres
      obtain ⟨rfl, rfl⟩ := hres
      exact ⟨G, st⟩
  cases h3 : maybeCompress H compress (resolveRegisterAliases items2 constants) constants labels2 with
  | error e => simp [h3] at h
  | ok r3 =>
  obtain ⟨items3, labels3⟩ := r3
  simp only [h3] at h
  obtain ⟨G3, st3⟩ := step_c st1 h3
  -- transform_pseudo_instructions
  cases h4 : transformPseudo H items3 constants labels3 with
  | error e => simp [h4] at h
  | ok r4 =>
  obtain ⟨items4, labels4⟩ := r4
  simp only [h4] at h
  obtain ⟨G4, st4⟩ := stage_walk (pseudoBody_ok H constants) st3 h4
  have st5 := stage_aliases st4 constants
  -- transform_compressible (second)
  cases h6 : maybeCompress H compress (resolveRegisterAliases items4 constants) constants labels4 with
  | error e => simp [h6] at h
  | ok r6 =>
  obtain ⟨items6, labels6⟩ := r6
  simp only [h6] at h
  obtain ⟨G6, st6⟩ := step_c st5 h6
  -- resolve_aligns
  cases h7 : resolveAligns items6 labels6 with
  | error e => simp [h7] at h
  | ok r7 =>
  obtain ⟨items7, labels7⟩ := r7
  simp only [h7] at h
  obtain ⟨G7, st7⟩ := stage_walk alignBody_ok st6 h7
  -- resolve_immediates
  cases h8 : resolveImmediates H items7 constants labels7 with
  | error e => simp [h8] at h
  | ok items8 =>
  simp only [h8] at h
  unfold resolveImmediates at h8
  simp only [bind, Except.bind] at h8
  cases h8w : walk (immBody H constants) items7 0 labels7 with
  | error e => simp [h8w] at h8
  | ok r8 =>
  obtain ⟨o8, l8⟩ := r8
  simp only [h8w, pure, Except.pure, Except.ok.injEq] at h8
  subst h8
  -- the label table the caller gets is labels7; the immediates walk does not move any label
  have hl8 : l8 = labels7 := walk_zero_labels (immBody_zero H constants) items7 0 labels7 o8 l8 h8w
  subst hl8
  have st8' : ∃ G8, Stage G8 o8 l8 (labelNames items) := stage_walk (immBody_ok H constants) st7 h8w
  obtain ⟨G8, st8⟩ := st8'
  -- resolve_instructions … resolve_include_bytes
  cases h9 : resolveInstructions o8 with
  | error e => simp [h9] at h
  | ok items9 =>
  simp only [h9] at h
  obtain ⟨G9, st9⟩ := stage_mapM instrStep_ok st8 h9
  obtain ⟨G10, st10⟩ := stage_strings st9
  cases h11 : resolveSequences (resolveStrings items9) with
  | error e => simp [h11] at h
  | ok items11 =>
  simp only [h11] at h
  obtain ⟨G11, st11⟩ := stage_mapM seqStep_ok st10 h11
  cases h12 : transformShorthandPacks items11 with
  | error e => simp [h12] at h
  | ok items12 =>
  simp only [h12] at h
  obtain ⟨G12, st12⟩ := stage_mapM shorthandStep_ok st11 h12
  cases h13 : resolvePacks items12 with
  | error e => simp [h13] at h
  | ok items13 =>
  simp only [h13] at h
  obtain ⟨G13, st13⟩ := stage_mapM packStep_ok st12 h13
  cases h14 : resolveIncludeBytes H items13 with
  | error e => simp [h14] at h
  | ok items14 =>
  simp only [h14] at h
  obtain ⟨G14, st14⟩ := stage_mapM (includeBytesStep_ok H) st13 h14
  cases h15 : resolveBlobs items14 with
  | error e => simp [h15] at h
  | ok bytes =>
  simp only [h15, pure, Except.pure, Except.ok.injEq] at h
  subst h
  obtain ⟨hob, hbytes⟩ := resolveBlobs_ghost G14 bytes (by rw [st14.strip_eq]; exact h15)
  refine ⟨G14, hob, st14.names_eq, ?_, hbytes, ?_⟩
  · rw [← st14.names_eq]; exact st14.nodup
  · intro ℓ hℓ
    rw [← st14.names_eq] at hℓ
    have hsome := (labelPos_isSome_iff G14 0 ℓ).mpr hℓ
    cases hp : labelPos G14 0 ℓ with
    | none => simp [hp] at hsome
    | some v =>
      have := st14.agree ℓ v hp
      simp only
      rw [this]
      rw [labelPos_onlyBlobs G14 hob] at hp
      cases hb : bytesBefore G14 ℓ with
      | none => simp [hb] at hp
      | some k =>
        simp only [hb, Option.map_some, Option.some.injEq] at hp ⊢
        omega

end BB.Props.C03
