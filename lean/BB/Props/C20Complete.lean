/-
  BB.Props.C20Complete — `eligible` (Spec/Compressible) is COMPLETE.

  `eligible i` is computed from a candidate list: `candidates i` enumerates the RVC instructions that could expand
  to `i`, and `eligible i` asks whether one of them is legal and does expand to `i`.  Soundness of that definition
  is immediate (`eligible i → ∃ ci, ci.legal ∧ expand16 ci = i`); what was missing is that the candidate list
  forgets nothing.  `eligible_complete`: for EVERY RVC instruction value `ci` (all 28 forms, all operand values —
  not only the 28 461 decodable halfwords; no enumeration, a proof by cases on the form), `ci.legal → eligible
  (expand16 ci)`.  Hence `eligible_iff`: `eligible i ↔ i is the expansion of a legal, non-hint RVC instruction`,
  which is how the prose of C20 reads `eligible`; `expansion_compressed` restates `C20.eligible_compressed` with
  that hypothesis, `decoded_expansion_eligible` is the form over halfwords.
  `criteria_cover`: every RVC mnemonic is the name of an entry of the assembler's `criteria` table.
-/
import BB.Props.C20
namespace BB.Props.C20
open BB BB.Spec BB.Lemmas

/-- the candidate list contains the instruction itself (every form but `c.lui`, whose operand has two spellings) -/
theorem mem_candidates (c : CInstr) (hl : ∀ rd v, c ≠ .lui rd v) : c ∈ candidates (expand16 c) := by
  cases c <;> simp [expand16, candidates]
  case lui rd v => exact absurd rfl (hl rd v)

/-- `c.lui rd, v`: the canonical (signed 6-bit) spelling of the operand is a candidate, legal, and has the same
    expansion — also when `v` is written in the unsigned 20-bit form `0xfffe0 … 0xfffff` -/
theorem lui_canonical (rd : Nat) (v : Int) (h : (CInstr.lui rd v).legal = true) :
    ∃ v', CInstr.lui rd v' ∈ candidates (expand16 (.lui rd v)) ∧ (CInstr.lui rd v').legal = true ∧
      expand16 (.lui rd v') = expand16 (.lui rd v) := by
  rw [legal_text] at h
  simp only [BB.Props.C02.mnOf, CInstr.text, legalOf16, isReg, simm, Bool.and_eq_true, Bool.or_eq_true,
    decide_eq_true_eq, Nat.reduceSub, Int.reducePow, ne_eq, bne_iff_ne, Bool.not_eq_true', decide_eq_false_iff_not] at h
  obtain ⟨⟨⟨h1, h2⟩, h3⟩, h4⟩ := h
  have legal' : ∀ v' : Int, -32 ≤ v' → v' < 32 → v' ≠ 0 → (CInstr.lui rd v').legal = true := by
    intro v' a b c
    rw [legal_text]
    simp only [BB.Props.C02.mnOf, CInstr.text, legalOf16, isReg, simm, Bool.and_eq_true, Bool.or_eq_true,
      decide_eq_true_eq, Nat.reduceSub, Int.reducePow, ne_eq, bne_iff_ne, Bool.not_eq_true', decide_eq_false_iff_not]
    exact ⟨⟨⟨h1, h2⟩, h3⟩, Or.inl ⟨⟨a, b⟩, c⟩⟩
  rcases h4 with ⟨⟨a, b⟩, c⟩ | ⟨a, b⟩
  · refine ⟨v, ?_, legal' v a b c, rfl⟩
    simp only [expand16, candidates, List.mem_singleton, CInstr.lui.injEq, true_and]
    split <;> omega
  · refine ⟨v - 1048576, ?_, legal' _ (by omega) (by omega) (by omega), ?_⟩
    · simp only [expand16, candidates, List.mem_singleton, CInstr.lui.injEq, true_and]
      split <;> omega
    · simp only [expand16, Instr32.lui.injEq, true_and]
      omega

/-- **completeness of `candidates`**: the expansion of a legal RVC instruction is `eligible` -/
theorem eligible_complete (c : CInstr) (h : c.legal = true) : eligible (expand16 c) = true := by
  unfold eligible
  rw [List.any_eq_true]
  by_cases hl : ∃ rd v, c = .lui rd v
  · obtain ⟨rd, v, rfl⟩ := hl
    obtain ⟨v', hm, hl', he⟩ := lui_canonical rd v h
    exact ⟨_, hm, by rw [hl', he]; simp⟩
  · exact ⟨c, mem_candidates c (fun rd v e => hl ⟨rd, v, e⟩), by rw [h]; simp⟩

/-- **`eligible` is exactly "the expansion of a legal, non-hint RVC instruction"** -/
theorem eligible_iff (i : Instr32) : eligible i = true ↔ ∃ c : CInstr, c.legal = true ∧ expand16 c = i := by
  constructor
  · intro h
    unfold eligible at h
    obtain ⟨c, _, hc⟩ := List.any_eq_true.mp h
    simp only [Bool.and_eq_true, beq_iff_eq] at hc
    exact ⟨c, hc.1, hc.2⟩
  · rintro ⟨c, hl, rfl⟩
    exact eligible_complete c hl

/-- over halfwords: whatever legal RVC instruction a halfword decodes to, its expansion is `eligible` -/
theorem decoded_expansion_eligible (w : Nat) (c : CInstr) (_ : decode16 w = some c) (hl : c.legal = true) :
    eligible (expand16 c) = true := eligible_complete c hl

/-- **C20, first sentence, without the auxiliary definition**: a well-kinded instruction with literal operands
    that the 32-bit encoder accepts and that names `i`, where `i` is the expansion of SOME legal non-hint RVC
    instruction, is matched by a criterion — it IS compressed -/
theorem expansion_compressed {H : Hooks} {env : String → Option Int} {line : Line} {p : Int}
    {ins rins : Instr} {i : Instr32} (hwk : ins.wellKinded = true)
    (hres : resolveWith (evalAt H env line p) ins = some rins) (hden : denote32I rins = some i)
    (hacc : ∃ args w, rins.args = some args ∧ encode rins.name args = .ok w)
    (hex : ∃ c : CInstr, c.legal = true ∧ expand16 c = i) :
    ∃ c, firstMatch H env line ins p criteria = .ok (some c) :=
  eligible_compressed hwk hres hden hacc ((eligible_iff i).mpr hex)

/-- every RVC form has an entry of its own mnemonic in the assembler's `criteria` table -/
theorem criteria_cover (c : CInstr) : ∃ preds, (c.text.1, preds) ∈ criteria := by
  cases c <;> simp [CInstr.text, criteria]

end BB.Props.C20
