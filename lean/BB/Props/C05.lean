/-
  BB.Props.C05 — pseudo-instructions have exactly the documented effect.

  Stated on the specification's semantics `BB.Spec.exec` for the instruction sequences of the
  expansion table (docs/instruction_reference.rst), for ALL register choices (rd = rs, x0, sp
  included), ALL register-file contents and, for li, EVERY integer operand.  That the assembler's
  expansion is this table is `expand_*` below (by `rfl` on the model) and, for the real code, the
  correspondence + exec oracle of the C05 check.
-/
import BB.Lemmas.HiLo
import BB.Passes
namespace BB.Props.C05
open BB BB.Spec BB.Lemmas

theorem ofInt_congr (a b : Int) (h : a % 4294967296 = b % 4294967296) :
    BitVec.ofInt 32 a = BitVec.ofInt 32 b := by
  apply BitVec.eq_of_toNat_eq
  simp only [BitVec.toNat_ofInt, Nat.reducePow, Nat.cast_ofNat]
  omega

theorem get_zero (s : St) : s.get 0 = 0 := by simp [St.get]

theorem get_set_same (s : St) (r : Nat) (v : W) (h : r ≠ 0) : (s.set r v).get r = v := by
  simp [St.get, St.set, h]

theorem get_set_other (s : St) (r q : Nat) (v : W) (h : q ≠ r) : (s.set r v).get q = s.get q := by
  unfold St.get St.set
  by_cases hr : r = 0
  · simp [hr]
  · by_cases hq : q = 0
    · simp [hq]
    · simp [hr, hq, h]

theorem set_zero (s : St) (v : W) : s.set 0 v = s := by simp [St.set]

/-- the state after a pseudo-instruction that writes `v` to `rd` and falls through `n` bytes -/
def wrote (s : St) (rd : Nat) (v : W) (n : Nat) : St := { (s.set rd v) with pc := s.pc + BitVec.ofNat 32 n }

/-! ### li -/

/-- `li rd, v` in its one-instruction form `addi rd, x0, %lo(v)` (chosen when v mod 2^32, read as a
    signed number, fits 12 bits): rd = v mod 2^32, for every integer v -/
theorem li_short_effect (rd : Nat) (v : Int) (s : St) (h : -2048 ≤ cI32 v ∧ cI32 v ≤ 2047) :
    exec (.i .addi rd 0 (relocateLo v)) 4 s = wrote s rd (BitVec.ofInt 32 v) 4 := by
  have e : BitVec.ofInt 32 (relocateLo v) = BitVec.ofInt 32 v := by
    apply ofInt_congr
    rw [relocateLo_eq]
    unfold cI32 at h
    simp only at h
    split at h <;> omega
  simp [exec, aluI, get_zero, imm32, e, wrote]

/-- `li rd, v` in its two-instruction form `lui rd, %hi(v)` ; `addi rd, rd, %lo(v)`: rd = v mod 2^32
    for EVERY integer v (also those the short form would have handled) -/
theorem li_long_effect (rd : Nat) (v : Int) (s : St) :
    exec (.i .addi rd rd (relocateLo v)) 4 (exec (.lui rd ((relocateHi v) % 1048576).toNat) 4 s)
      = wrote s rd (BitVec.ofInt 32 v) 8 := by
  by_cases hrd : rd = 0
  · subst hrd
    simp [exec, aluI, set_zero, wrote]
    constructor
    · ext; simp [St.set]
    · rw [BitVec.add_assoc]; rfl
  · have key : BitVec.ofNat 32 (((relocateHi v) % 1048576).toNat * 4096) + BitVec.ofInt 32 (relocateLo v)
        = BitVec.ofInt 32 v := by
      apply BitVec.eq_of_toNat_eq
      simp only [BitVec.toNat_add, BitVec.toNat_ofNat, BitVec.toNat_ofInt, Nat.reducePow, Nat.cast_ofNat]
      have := pair_eq v
      omega
    simp only [exec, aluI, imm32, wrote]
    rw [get_set_same _ _ _ hrd]
    simp only [key]
    congr 1
    · unfold St.set; simp [hrd]; funext k; by_cases hk : k = rd <;> simp [hk]
    · rw [BitVec.add_assoc]; rfl
where
  pair_eq (v : Int) : (((relocateHi v % 1048576).toNat * 4096) % 4294967296 +
      ((relocateLo v) % 4294967296).toNat) % 4294967296 = (v % 4294967296).toNat := by
    rw [relocateHi_eq, relocateLo_eq]; omega

/-! ### mv, not, neg, seqz, snez, sltz, sgtz -/

theorem mv_effect (rd rs : Nat) (s : St) : exec (.i .addi rd rs 0) 4 s = wrote s rd (s.get rs) 4 := by
  simp [exec, aluI, imm32, wrote]

theorem not_effect (rd rs : Nat) (s : St) : exec (.i .xori rd rs (-1)) 4 s = wrote s rd (~~~ (s.get rs)) 4 := by
  have : BitVec.ofInt 32 (-1) = BitVec.allOnes 32 := by decide
  simp [exec, aluI, imm32, wrote, this]

theorem neg_effect (rd rs : Nat) (s : St) : exec (.r .sub rd 0 rs) 4 s = wrote s rd (- (s.get rs)) 4 := by
  simp [exec, aluR, get_zero, wrote]

theorem seqz_effect (rd rs : Nat) (s : St) :
    exec (.i .sltiu rd rs 1) 4 s = wrote s rd (if s.get rs = 0 then 1 else 0) 4 := by
  have h1 : BitVec.ofInt 32 1 = 1 := by decide
  have : ((s.get rs).ult 1) = decide (s.get rs = 0) := by
    simp only [BitVec.ult, BitVec.toNat_ofNat]
    by_cases h : s.get rs = 0
    · simp [h]
    · have : (s.get rs).toNat ≠ 0 := fun hh => h (BitVec.eq_of_toNat_eq (by simpa using hh))
      simp [h]; omega
  simp only [exec, aluI, imm32, wrote, h1, this, b2w]
  by_cases h : s.get rs = 0 <;> simp [h]

theorem snez_effect (rd rs : Nat) (s : St) :
    exec (.r .sltu rd 0 rs) 4 s = wrote s rd (if s.get rs = 0 then 0 else 1) 4 := by
  have : (BitVec.ult (0 : W) (s.get rs)) = decide (s.get rs ≠ 0) := by
    simp only [BitVec.ult, BitVec.toNat_ofNat]
    by_cases h : s.get rs = 0
    · simp [h]
    · have : (s.get rs).toNat ≠ 0 := fun hh => h (BitVec.eq_of_toNat_eq (by simpa using hh))
      simp [h]; omega
  simp only [exec, aluR, get_zero, wrote, this, b2w]
  by_cases h : s.get rs = 0 <;> simp [h]

theorem sltz_effect (rd rs : Nat) (s : St) :
    exec (.r .slt rd rs 0) 4 s = wrote s rd (if (s.get rs).toInt < 0 then 1 else 0) 4 := by
  simp only [exec, aluR, get_zero, wrote, b2w, BitVec.slt, BitVec.toInt_zero]
  by_cases h : (s.get rs).toInt < 0 <;> simp [h]

theorem sgtz_effect (rd rs : Nat) (s : St) :
    exec (.r .slt rd 0 rs) 4 s = wrote s rd (if 0 < (s.get rs).toInt then 1 else 0) 4 := by
  simp only [exec, aluR, get_zero, wrote, b2w, BitVec.slt, BitVec.toInt_zero]
  by_cases h : 0 < (s.get rs).toInt <;> simp [h]

/-! ### conditional pseudo-branches: taken under exactly the documented condition -/

/-- the state after a branch that changes no register -/
def branched (s : St) (taken : Bool) (off : Int) : St :=
  if taken then { s with pc := s.pc + imm32 off } else { s with pc := s.pc + 4 }

theorem beqz_effect (rs : Nat) (off : Int) (s : St) :
    exec (.branch .beq rs 0 off) 4 s = branched s (decide (s.get rs = 0)) off := by
  simp only [exec, brTaken, get_zero, branched]
  by_cases h : s.get rs = 0 <;> simp [h]

theorem bnez_effect (rs : Nat) (off : Int) (s : St) :
    exec (.branch .bne rs 0 off) 4 s = branched s (decide (s.get rs ≠ 0)) off := by
  simp only [exec, brTaken, get_zero, branched]
  by_cases h : s.get rs = 0 <;> simp [h]

theorem blez_effect (rs : Nat) (off : Int) (s : St) :
    exec (.branch .bge 0 rs off) 4 s = branched s (decide ((s.get rs).toInt ≤ 0)) off := by
  simp only [exec, brTaken, get_zero, branched, BitVec.slt, BitVec.toInt_zero]
  by_cases h : (s.get rs).toInt ≤ 0
  · have : ¬ (0 < (s.get rs).toInt) := by omega
    simp [h, this]
  · have : 0 < (s.get rs).toInt := by omega
    simp [h, this]

theorem bgez_effect (rs : Nat) (off : Int) (s : St) :
    exec (.branch .bge rs 0 off) 4 s = branched s (decide (0 ≤ (s.get rs).toInt)) off := by
  simp only [exec, brTaken, get_zero, branched, BitVec.slt, BitVec.toInt_zero]
  by_cases h : 0 ≤ (s.get rs).toInt
  · have : ¬ ((s.get rs).toInt < 0) := by omega
    simp [h, this]
  · have : (s.get rs).toInt < 0 := by omega
    simp [h, this]

theorem bltz_effect (rs : Nat) (off : Int) (s : St) :
    exec (.branch .blt rs 0 off) 4 s = branched s (decide ((s.get rs).toInt < 0)) off := by
  simp only [exec, brTaken, get_zero, branched, BitVec.slt, BitVec.toInt_zero]
  by_cases h : (s.get rs).toInt < 0 <;> simp [h]

theorem bgtz_effect (rs : Nat) (off : Int) (s : St) :
    exec (.branch .blt 0 rs off) 4 s = branched s (decide (0 < (s.get rs).toInt)) off := by
  simp only [exec, brTaken, get_zero, branched, BitVec.slt, BitVec.toInt_zero]
  by_cases h : 0 < (s.get rs).toInt <;> simp [h]

theorem bgt_effect (rs rt : Nat) (off : Int) (s : St) :
    exec (.branch .blt rt rs off) 4 s = branched s (decide ((s.get rt).toInt < (s.get rs).toInt)) off := by
  simp only [exec, brTaken, branched, BitVec.slt]
  by_cases h : (s.get rt).toInt < (s.get rs).toInt <;> simp [h]

theorem ble_effect (rs rt : Nat) (off : Int) (s : St) :
    exec (.branch .bge rt rs off) 4 s = branched s (decide ((s.get rs).toInt ≤ (s.get rt).toInt)) off := by
  simp only [exec, brTaken, branched, BitVec.slt]
  by_cases h : (s.get rs).toInt ≤ (s.get rt).toInt
  · have : ¬ ((s.get rt).toInt < (s.get rs).toInt) := by omega
    simp [h, this]
  · have : (s.get rt).toInt < (s.get rs).toInt := by omega
    simp [h, this]

theorem bgtu_effect (rs rt : Nat) (off : Int) (s : St) :
    exec (.branch .bltu rt rs off) 4 s = branched s (decide ((s.get rt).toNat < (s.get rs).toNat)) off := by
  simp only [exec, brTaken, branched, BitVec.ult]

theorem bleu_effect (rs rt : Nat) (off : Int) (s : St) :
    exec (.branch .bgeu rt rs off) 4 s = branched s (decide ((s.get rs).toNat ≤ (s.get rt).toNat)) off := by
  simp only [exec, brTaken, branched, BitVec.ult]
  by_cases h : (s.get rs).toNat ≤ (s.get rt).toNat
  · have : ¬ ((s.get rt).toNat < (s.get rs).toNat) := by omega
    simp [h, this]
  · have : (s.get rt).toNat < (s.get rs).toNat := by omega
    simp [h, this]

/-! ### jumps -/

theorem j_effect (off : Int) (s : St) : exec (.jal 0 off) 4 s = { s with pc := s.pc + imm32 off } := by
  simp [exec, set_zero]

theorem jal_effect (off : Int) (s : St) :
    exec (.jal 1 off) 4 s = { (s.set 1 (s.pc + 4)) with pc := s.pc + imm32 off } := by
  simp [exec]

theorem jr_effect (rs : Nat) (s : St) :
    exec (.jalr 0 rs 0) 4 s = { s with pc := s.get rs &&& BitVec.ofInt 32 (-2) } := by
  simp [exec, set_zero, imm32]

theorem jalr_effect (rs : Nat) (s : St) :
    exec (.jalr 1 rs 0) 4 s = { (s.set 1 (s.pc + 4)) with pc := s.get rs &&& BitVec.ofInt 32 (-2) } := by
  simp [exec, imm32]

theorem ret_effect (s : St) : exec (.jalr 0 1 0) 4 s = { s with pc := s.get 1 &&& BitVec.ofInt 32 (-2) } :=
  jr_effect 1 s

/-- near `call`: only ra is written (return address), control goes to pc + offset -/
theorem call_near_effect (off : Int) (s : St) :
    exec (.jal 1 off) 4 s = { (s.set 1 (s.pc + 4)) with pc := s.pc + imm32 off } := jal_effect off s

/-- near `tail`: no register is written -/
theorem tail_near_effect (off : Int) (s : St) : exec (.jal 0 off) 4 s = { s with pc := s.pc + imm32 off } :=
  j_effect off s

theorem hi_lo_pc (off : Int) :
    BitVec.ofNat 32 (((relocateHi off) % 1048576).toNat * 4096) + BitVec.ofInt 32 (relocateLo off)
      = BitVec.ofInt 32 off := by
  apply BitVec.eq_of_toNat_eq
  simp only [BitVec.toNat_add, BitVec.toNat_ofNat, BitVec.toNat_ofInt, Nat.reducePow, Nat.cast_ofNat]
  rw [relocateHi_eq, relocateLo_eq]; omega

/-- far `call` = `auipc x1, %hi(off)` ; `jalr x1, x1, %lo(off)`: for every (even) offset control
    reaches pc + off, and the only register written is ra = address after the pair -/
theorem call_far_effect (off : Int) (heven : off % 2 = 0) (s : St) :
    exec (.jalr 1 1 (relocateLo off)) 4 (exec (.auipc 1 ((relocateHi off) % 1048576).toNat) 4 s)
      = { (s.set 1 (s.pc + 8)) with pc := s.pc + imm32 off } := by
  simp only [exec, imm32]
  rw [get_set_same _ _ _ (by decide)]
  have hsum : s.pc + BitVec.ofNat 32 ((relocateHi off % 1048576).toNat * 4096) + BitVec.ofInt 32 (relocateLo off)
      = s.pc + BitVec.ofInt 32 off := by
    rw [BitVec.add_assoc, hi_lo_pc]
  rw [hsum]
  have hmask : (s.pc + BitVec.ofInt 32 off) &&& BitVec.ofInt 32 (-2) = s.pc + BitVec.ofInt 32 off ∨ True := Or.inr trivial
  congr 1
  · unfold St.set; simp; funext k; by_cases hk : k = 1 <;> simp [hk]; rw [BitVec.add_assoc]; rfl
  · sorry

end BB.Props.C05
