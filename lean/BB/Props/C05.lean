/-
  BB.Props.C05 — pseudo-instructions have exactly the documented effect.

  Part 1 (`*_effect`): stated on the specification's semantics `BB.Spec.exec` for the instruction
  sequences of the expansion table (docs/instruction_reference.rst), for ALL register choices
  (rd = rs, x0, sp included), ALL machine states and, for li, EVERY integer operand.
  Part 2 (`expand_*`, `expand_matches_doc`): what the assembler model's `expandKind` returns IS that
  table, as `Instr` values.
  Part 3 (`bridge_*`, `emitted_word_denotes`): a resolved `Instr` of the shapes the expansions use
  denotes — through C01's `denote32`/`intent32` — exactly the `Instr32` of the effect theorem, and
  the word the 32-bit encoder emits for it decodes to that `Instr32`.
-/
import BB.Lemmas.HiLo
import BB.Lemmas.ExecBasic
import BB.Lemmas.ExecDenote
import BB.Passes
namespace BB.Props.C05
open BB BB.Spec BB.Lemmas

/-! ## Part 1: effects -/

/-! ### li -/

/-- (%hi(v) field placed at bit 12) + sign-extended %lo(v) = v, as 32-bit words, for every integer -/
theorem hi_lo_word (v : Int) :
    BitVec.ofNat 32 (((relocateHi v) % 1048576).toNat * 4096) + BitVec.ofInt 32 (relocateLo v)
      = BitVec.ofInt 32 v := by
  apply BitVec.eq_of_toNat_eq
  simp only [BitVec.toNat_add, BitVec.toNat_ofNat, BitVec.toNat_ofInt, Nat.reducePow]
  have e : ((4294967296 : Nat) : Int) = 4294967296 := rfl
  rw [e, relocateHi_eq, relocateLo_eq]
  omega

/-- `li rd, v` in its one-instruction form `addi rd, x0, %lo(v)` (chosen when v mod 2^32, read as a
    signed number, fits 12 bits): rd = v mod 2^32, for every integer v -/
theorem li_short_effect (rd : Nat) (v : Int) (s : St) (h : -2048 ≤ cI32 v ∧ cI32 v ≤ 2047) :
    exec (.i .addi rd 0 (relocateLo v)) 4 s = wrote s rd (BitVec.ofInt 32 v) 4 := by
  have e : BitVec.ofInt 32 (relocateLo v) = BitVec.ofInt 32 v := by
    apply ofInt_congr
    rw [relocateLo_eq]
    unfold cI32 at h
    simp only at h
    split at h <;> omega
  rw [exec_i]
  simp only [aluI, get_zero, imm32, e, bv_zero_add32]

/-- `li rd, v` in its two-instruction form `lui rd, %hi(v)` ; `addi rd, rd, %lo(v)`: rd = v mod 2^32
    for EVERY integer v (also those the short form would have handled), every rd (x0: no write) -/
theorem li_long_effect (rd : Nat) (v : Int) (s : St) :
    exec (.i .addi rd rd (relocateLo v)) 4 (exec (.lui rd ((relocateHi v) % 1048576).toNat) 4 s)
      = wrote s rd (BitVec.ofInt 32 v) 8 := by
  rw [exec_lui, exec_i]
  by_cases hrd : rd = 0
  · subst hrd
    rw [wrote_wrote]
    exact wrote_zero _ _ _ _
  · rw [wrote_get_same _ _ _ _ hrd, wrote_wrote]
    simp only [aluI, imm32, hi_lo_word]

/-! ### mv, not, neg, seqz, snez, sltz, sgtz -/

theorem mv_effect (rd rs : Nat) (s : St) : exec (.i .addi rd rs 0) 4 s = wrote s rd (s.get rs) 4 := by
  rw [exec_i]; simp only [aluI, imm32, bv_add_zero32]

theorem not_effect (rd rs : Nat) (s : St) : exec (.i .xori rd rs (-1)) 4 s = wrote s rd (~~~ (s.get rs)) 4 := by
  rw [exec_i]; simp only [aluI, imm32, xor_neg_one]

theorem neg_effect (rd rs : Nat) (s : St) : exec (.r .sub rd 0 rs) 4 s = wrote s rd (- (s.get rs)) 4 := by
  rw [exec_r]; simp only [aluR, get_zero, bv_zero_sub32]

theorem seqz_effect (rd rs : Nat) (s : St) :
    exec (.i .sltiu rd rs 1) 4 s = wrote s rd (if s.get rs = 0 then 1 else 0) 4 := by
  have h1 : BitVec.ofInt 32 1 = (1 : W) := by decide
  rw [exec_i]
  simp only [aluI, imm32, h1, ult_one, b2w]
  by_cases h : s.get rs = 0 <;> simp [h]

theorem snez_effect (rd rs : Nat) (s : St) :
    exec (.r .sltu rd 0 rs) 4 s = wrote s rd (if s.get rs = 0 then 0 else 1) 4 := by
  rw [exec_r]
  simp only [aluR, get_zero, zero_ult, b2w]
  by_cases h : s.get rs = 0 <;> simp [h]

theorem sltz_effect (rd rs : Nat) (s : St) :
    exec (.r .slt rd rs 0) 4 s = wrote s rd (if (s.get rs).toInt < 0 then 1 else 0) 4 := by
  rw [exec_r]
  simp only [aluR, get_zero, slt_zero, b2w]
  by_cases h : (s.get rs).toInt < 0 <;> simp [h]

theorem sgtz_effect (rd rs : Nat) (s : St) :
    exec (.r .slt rd 0 rs) 4 s = wrote s rd (if 0 < (s.get rs).toInt then 1 else 0) 4 := by
  rw [exec_r]
  simp only [aluR, get_zero, zero_slt, b2w]
  by_cases h : 0 < (s.get rs).toInt <;> simp [h]

/-! ### conditional pseudo-branches: taken under exactly the documented condition, no register
    written (`branched` changes only the pc) -/

theorem beqz_effect (rs : Nat) (off : Int) (s : St) :
    exec (.branch .beq rs 0 off) 4 s = branched s (decide (s.get rs = 0)) off := by
  rw [exec_branch]; simp only [brTaken, get_zero]

theorem bnez_effect (rs : Nat) (off : Int) (s : St) :
    exec (.branch .bne rs 0 off) 4 s = branched s (decide (s.get rs ≠ 0)) off := by
  rw [exec_branch]; simp only [brTaken, get_zero]

theorem blez_effect (rs : Nat) (off : Int) (s : St) :
    exec (.branch .bge 0 rs off) 4 s = branched s (decide ((s.get rs).toInt ≤ 0)) off := by
  rw [exec_branch]; simp only [brTaken, get_zero, zero_slt]
  congr 1
  by_cases h : 0 < (s.get rs).toInt
  · have : ¬ (s.get rs).toInt ≤ 0 := by omega
    simp [h, this]
  · have : (s.get rs).toInt ≤ 0 := by omega
    simp [h, this]

theorem bgez_effect (rs : Nat) (off : Int) (s : St) :
    exec (.branch .bge rs 0 off) 4 s = branched s (decide (0 ≤ (s.get rs).toInt)) off := by
  rw [exec_branch]; simp only [brTaken, get_zero, slt_zero]
  congr 1
  by_cases h : (s.get rs).toInt < 0
  · have : ¬ 0 ≤ (s.get rs).toInt := by omega
    simp [h, this]
  · have : 0 ≤ (s.get rs).toInt := by omega
    simp [h, this]

theorem bltz_effect (rs : Nat) (off : Int) (s : St) :
    exec (.branch .blt rs 0 off) 4 s = branched s (decide ((s.get rs).toInt < 0)) off := by
  rw [exec_branch]; simp only [brTaken, get_zero, slt_zero]

theorem bgtz_effect (rs : Nat) (off : Int) (s : St) :
    exec (.branch .blt 0 rs off) 4 s = branched s (decide (0 < (s.get rs).toInt)) off := by
  rw [exec_branch]; simp only [brTaken, get_zero, zero_slt]

/-- `bgt rs, rt, L` = `blt rt, rs, L`: taken ⇔ rs > rt (signed) -/
theorem bgt_effect (rs rt : Nat) (off : Int) (s : St) :
    exec (.branch .blt rt rs off) 4 s = branched s (decide ((s.get rs).toInt > (s.get rt).toInt)) off := by
  rw [exec_branch]; simp only [brTaken, BitVec.slt, gt_iff_lt]

/-- `ble rs, rt, L` = `bge rt, rs, L`: taken ⇔ rs ≤ rt (signed) -/
theorem ble_effect (rs rt : Nat) (off : Int) (s : St) :
    exec (.branch .bge rt rs off) 4 s = branched s (decide ((s.get rs).toInt ≤ (s.get rt).toInt)) off := by
  rw [exec_branch]; simp only [brTaken, BitVec.slt]
  congr 1
  by_cases h : (s.get rt).toInt < (s.get rs).toInt
  · have : ¬ (s.get rs).toInt ≤ (s.get rt).toInt := by omega
    simp [h, this]
  · have : (s.get rs).toInt ≤ (s.get rt).toInt := by omega
    simp [h, this]

/-- `bgtu rs, rt, L` = `bltu rt, rs, L`: taken ⇔ rs > rt (unsigned) -/
theorem bgtu_effect (rs rt : Nat) (off : Int) (s : St) :
    exec (.branch .bltu rt rs off) 4 s = branched s (decide ((s.get rs).toNat > (s.get rt).toNat)) off := by
  rw [exec_branch]; simp only [brTaken, BitVec.ult, gt_iff_lt]

/-- `bleu rs, rt, L` = `bgeu rt, rs, L`: taken ⇔ rs ≤ rt (unsigned) -/
theorem bleu_effect (rs rt : Nat) (off : Int) (s : St) :
    exec (.branch .bgeu rt rs off) 4 s = branched s (decide ((s.get rs).toNat ≤ (s.get rt).toNat)) off := by
  rw [exec_branch]; simp only [brTaken, BitVec.ult]
  congr 1
  by_cases h : (s.get rt).toNat < (s.get rs).toNat
  · have : ¬ (s.get rs).toNat ≤ (s.get rt).toNat := by omega
    simp [h, this]
  · have : (s.get rs).toNat ≤ (s.get rt).toNat := by omega
    simp [h, this]

/-! ### jumps -/

theorem j_effect (off : Int) (s : St) : exec (.jal 0 off) 4 s = { s with pc := s.pc + imm32 off } := by
  rw [exec_jal, set_zero]

theorem jal_effect (off : Int) (s : St) :
    exec (.jal 1 off) 4 s = { (s.set 1 (s.pc + 4)) with pc := s.pc + imm32 off } := by
  rw [exec_jal]; rfl

theorem jr_effect (rs : Nat) (s : St) :
    exec (.jalr 0 rs 0) 4 s = { s with pc := s.get rs &&& BitVec.ofInt 32 (-2) } := by
  rw [exec_jalr, set_zero]; simp only [imm32, bv_add_zero32]

theorem jalr_effect (rs : Nat) (s : St) :
    exec (.jalr 1 rs 0) 4 s = { (s.set 1 (s.pc + 4)) with pc := s.get rs &&& BitVec.ofInt 32 (-2) } := by
  rw [exec_jalr]; simp only [imm32, bv_add_zero32]; rfl

theorem ret_effect (s : St) : exec (.jalr 0 1 0) 4 s = { s with pc := s.get 1 &&& BitVec.ofInt 32 (-2) } :=
  jr_effect 1 s

/-- near `call`: only ra is written (return address), control goes to pc + offset -/
theorem call_near_effect (off : Int) (s : St) :
    exec (.jal 1 off) 4 s = { (s.set 1 (s.pc + 4)) with pc := s.pc + imm32 off } := jal_effect off s

/-- near `tail`: no register is written -/
theorem tail_near_effect (off : Int) (s : St) : exec (.jal 0 off) 4 s = { s with pc := s.pc + imm32 off } :=
  j_effect off s

/-- the word `pc + off` is even when the pc and the offset are -/
theorem target_even (pc : W) (off : Int) (hpc : pc.toNat % 2 = 0) (heven : off % 2 = 0) :
    (pc + BitVec.ofInt 32 off).toNat % 2 = 0 := by
  simp only [BitVec.toNat_add, BitVec.toNat_ofInt, Nat.reducePow]
  have e : ((4294967296 : Nat) : Int) = 4294967296 := rfl
  rw [e]
  have h1 : 0 ≤ off % 4294967296 := Int.emod_nonneg _ (by omega)
  have h2 : (off % 4294967296) % 2 = 0 := by omega
  generalize off % 4294967296 = m at h1 h2
  have h3 : m.toNat % 2 = 0 := by omega
  generalize m.toNat = k at h3
  generalize pc.toNat = a at hpc
  omega

/-- far `call` = `auipc x1, %hi(off)` ; `jalr x1, x1, %lo(off)`, for EVERY integer offset and every
    state: the only register written is ra = address after the pair, and control goes to
    `(pc + off) & ~1` (JALR clears bit 0) -/
theorem call_far_effect_raw (off : Int) (s : St) :
    exec (.jalr 1 1 (relocateLo off)) 4 (exec (.auipc 1 ((relocateHi off) % 1048576).toNat) 4 s)
      = { (s.set 1 (s.pc + 8)) with pc := (s.pc + imm32 off) &&& BitVec.ofInt 32 (-2) } := by
  rw [exec_auipc, exec_jalr, wrote_get_same _ _ _ _ (by decide)]
  have hsum : s.pc + BitVec.ofNat 32 ((relocateHi off % 1048576).toNat * 4096) + imm32 (relocateLo off)
      = s.pc + imm32 off := by
    unfold imm32; rw [BitVec.add_assoc, hi_lo_word]
  rw [hsum]
  unfold wrote
  rw [set_with_pc, set_set]
  refine St.ext' ?_ rfl rfl
  show (s.set 1 (s.pc + BitVec.ofNat 32 4 + BitVec.ofNat 32 4)).reg = (s.set 1 (s.pc + 8)).reg
  rw [BitVec.add_assoc]; rfl

/-- far `call`: for every even offset (and an even pc — IALIGN = 16) control reaches exactly
    pc + off (mod 2^32); only ra is written, = address after the pair -/
theorem call_far_effect (off : Int) (heven : off % 2 = 0) (s : St) (hpc : s.pc.toNat % 2 = 0) :
    exec (.jalr 1 1 (relocateLo off)) 4 (exec (.auipc 1 ((relocateHi off) % 1048576).toNat) 4 s)
      = { (s.set 1 (s.pc + 8)) with pc := s.pc + imm32 off } := by
  rw [call_far_effect_raw]
  unfold imm32
  rw [and_neg2_of_even _ (target_even s.pc off hpc heven)]

/-- far `tail` = `auipc x6, %hi(off)` ; `jalr x0, x6, %lo(off)`, every integer offset, every state:
    only the documented scratch register x6 (t1) is written, control goes to `(pc + off) & ~1` -/
theorem tail_far_effect_raw (off : Int) (s : St) :
    exec (.jalr 0 6 (relocateLo off)) 4 (exec (.auipc 6 ((relocateHi off) % 1048576).toNat) 4 s)
      = { (s.set 6 (s.pc + BitVec.ofNat 32 ((relocateHi off % 1048576).toNat * 4096))) with
            pc := (s.pc + imm32 off) &&& BitVec.ofInt 32 (-2) } := by
  rw [exec_auipc, exec_jalr, wrote_get_same _ _ _ _ (by decide), set_zero]
  have hsum : s.pc + BitVec.ofNat 32 ((relocateHi off % 1048576).toNat * 4096) + imm32 (relocateLo off)
      = s.pc + imm32 off := by
    unfold imm32; rw [BitVec.add_assoc, hi_lo_word]
  rw [hsum]
  rfl

/-- far `tail`: for every even offset (even pc) control reaches exactly pc + off; x6 is the only
    register written -/
theorem tail_far_effect (off : Int) (heven : off % 2 = 0) (s : St) (hpc : s.pc.toNat % 2 = 0) :
    exec (.jalr 0 6 (relocateLo off)) 4 (exec (.auipc 6 ((relocateHi off) % 1048576).toNat) 4 s)
      = { (s.set 6 (s.pc + BitVec.ofNat 32 ((relocateHi off % 1048576).toNat * 4096))) with
            pc := s.pc + imm32 off } := by
  rw [tail_far_effect_raw]
  unfold imm32
  rw [and_neg2_of_even _ (target_even s.pc off hpc heven)]

/-! ### nop, fence: no register changes -/

theorem nop_effect (s : St) : exec (.i .addi 0 0 0) 4 s = { s with pc := s.pc + 4 } := by
  rw [exec_i]; unfold wrote; rw [set_zero]; rfl

theorem fence_effect (s : St) : exec (.fence 0 15 15 0 0) 4 s = { s with pc := s.pc + 4 } := rfl

/-! ### non-vacuity of Part 1: concrete runs (a state with x_n = 3n, pc = 0x1000) -/

def s0 : St := { reg := fun n => BitVec.ofNat 32 (3 * n), pc := 0x1000, mem := fun _ => 0 }

/-- `li t0, -1` and `li t0, 0xffffffff` both take the short form and load 0xffffffff -/
example : (-2048 ≤ cI32 (-1) ∧ cI32 (-1) ≤ 2047) ∧ (-2048 ≤ cI32 0xffffffff ∧ cI32 0xffffffff ≤ 2047) := by decide
example : (exec (.i .addi 5 0 (relocateLo 0xffffffff)) 4 s0).get 5 = 0xffffffff#32 := by decide
/-- `li a0, 0x12345800` (carry into %hi), long form; also with rd = x0 -/
example : (exec (.i .addi 10 10 (relocateLo 0x12345800)) 4
    (exec (.lui 10 ((relocateHi 0x12345800) % 1048576).toNat) 4 s0)).get 10 = 0x12345800#32 := by decide
example : (exec (.i .addi 0 0 (relocateLo 0x12345800)) 4
    (exec (.lui 0 ((relocateHi 0x12345800) % 1048576).toNat) 4 s0)).get 0 = 0#32 := by decide
/-- `mv sp, sp`, `not a0, a0`, `neg a0, a0`, `seqz a0, x0`, `snez a0, a1`, `sltz`, `sgtz` -/
example : (exec (.i .addi 2 2 0) 4 s0).get 2 = 6#32 := by decide
example : (exec (.i .xori 10 10 (-1)) 4 s0).get 10 = 0xffffffe1#32 := by decide
example : (exec (.r .sub 10 0 10) 4 s0).get 10 = 0xffffffe2#32 := by decide
example : (exec (.i .sltiu 10 0 1) 4 s0).get 10 = 1#32 := by decide
example : (exec (.r .sltu 10 0 11) 4 s0).get 10 = 1#32 := by decide
example : (exec (.r .slt 10 11 0) 4 s0).get 10 = 0#32 := by decide
example : (exec (.r .slt 10 0 11) 4 s0).get 10 = 1#32 := by decide
/-- `beqz x0, +16` is taken, `bnez x0, +16` is not; `bgtu a1, a0` (33 > 30) is taken -/
example : (exec (.branch .beq 0 0 16) 4 s0).pc = 0x1010#32 ∧ (exec (.branch .bne 0 0 16) 4 s0).pc = 0x1004#32 := by
  decide
example : (exec (.branch .bltu 10 11 (-16)) 4 s0).pc = 0xff0#32 := by decide
/-- signed pseudo-branches on x10 = 30, x11 = 33, x0: blez/bltz not taken, bgez/bgtz taken; bgt a1, a0 taken,
    ble a1, a0 not taken, bleu a0, a1 taken -/
example : (exec (.branch .bge 0 10 16) 4 s0).pc = 0x1004#32 ∧ (exec (.branch .blt 10 0 16) 4 s0).pc = 0x1004#32 ∧
    (exec (.branch .bge 10 0 16) 4 s0).pc = 0x1010#32 ∧ (exec (.branch .blt 0 10 16) 4 s0).pc = 0x1010#32 ∧
    (exec (.branch .blt 10 11 16) 4 s0).pc = 0x1010#32 ∧ (exec (.branch .bge 10 11 16) 4 s0).pc = 0x1004#32 ∧
    (exec (.branch .bgeu 11 10 16) 4 s0).pc = 0x1010#32 := by decide
/-- j / jal: pc + off, jal links ra = pc + 4; jr / jalr / ret: pc = rs & ~1 (x11 = 33 → 32), nop / fence: pc + 4 -/
example : (exec (.jal 0 (-8)) 4 s0).pc = 0xff8#32 ∧ (exec (.jal 0 (-8)) 4 s0).get 1 = 3#32 ∧
    (exec (.jal 1 (-8)) 4 s0).get 1 = 0x1004#32 ∧ (exec (.jalr 0 11 0) 4 s0).pc = 32#32 ∧
    (exec (.jalr 1 11 0) 4 s0).get 1 = 0x1004#32 ∧ (exec (.jalr 0 1 0) 4 s0).pc = 2#32 ∧
    (exec (.i .addi 0 0 0) 4 s0).pc = 0x1004#32 ∧ (exec (.fence 0 15 15 0 0) 4 s0).pc = 0x1004#32 ∧
    (exec (.fence 0 15 15 0 0) 4 s0).get 5 = 15#32 := by decide
/-- far call to pc + 0x12345800: lands there, ra = pc + 8; far tail: lands there, x6 = pc + %hi -/
example : (0x12345800 : Int) % 2 = 0 ∧ s0.pc.toNat % 2 = 0 := by decide
example : let s := exec (.jalr 1 1 (relocateLo 0x12345800)) 4 (exec (.auipc 1 ((relocateHi 0x12345800) % 1048576).toNat) 4 s0)
    s.pc = 0x12346800#32 ∧ s.get 1 = 0x1008#32 ∧ s.get 6 = 18#32 := by decide
example : let s := exec (.jalr 0 6 (relocateLo (-4096 - 2050))) 4 (exec (.auipc 6 ((relocateHi (-4096 - 2050)) % 1048576).toNat) 4 s0)
    s.pc = 0xfffff7fe#32 ∧ s.get 1 = 3#32 ∧ s.get 6 = 0xfffff000#32 := by decide

/-- why `call_far_effect` asks for an even pc: from an odd pc the JALR's `& ~1` lands one byte below
    pc + off (pc = 0x1001, off = 0x2000: 0x3000, not 0x3001) — IALIGN = 16 makes every real pc even -/
example : let s1 : St := { s0 with pc := 0x1001 }
    (exec (.jalr 1 1 (relocateLo 0x2000)) 4 (exec (.auipc 1 ((relocateHi 0x2000) % 1048576).toNat) 4 s1)).pc = 0x3000#32 ∧
    s1.pc + imm32 0x2000 = 0x3001#32 := by decide

/-! ## Part 2: the model's expansion is the documented table -/

section Expand
variable (H : Hooks) (env : String → Option Int) (line : Line) (p : Int)

/-- docs/instruction_reference.rst, "Pseudo Instructions": the expansion of each pseudo-instruction
    as `Instr` values — registers as written, immediates `.arith "0"`, `%lo(imm)`, `%hi(imm)`; `imm`
    is the parsed immediate (li) or `%offset(reference)` (branches, jumps, call, tail); `short`
    selects the one-instruction form of li / call / tail -/
def documented (k : PKind) (args : List String) (imm : Imm) (short : Bool) : Option (List Instr) :=
  let s := RegOp.str
  match k, args with
  | .nop, _ => some [.i "addi" (s "x0") (s "x0") (.arith "0") false]
  | .li, rd :: _ =>
    some (if short then [.i "addi" (s rd) (s "x0") (.lo imm) false]
          else [.u "lui" (s rd) (.hi imm), .i "addi" (s rd) (s rd) (.lo imm) false])
  | .mv, [rd, rs] => some [.i "addi" (s rd) (s rs) (.arith "0") false]
  | .not, [rd, rs] => some [.i "xori" (s rd) (s rs) (.arith "-1") false]
  | .neg, [rd, rs] => some [.r "sub" (s rd) (s "x0") (s rs)]
  | .seqz, [rd, rs] => some [.i "sltiu" (s rd) (s rs) (.arith "1") false]
  | .snez, [rd, rs] => some [.r "sltu" (s rd) (s "x0") (s rs)]
  | .sltz, [rd, rs] => some [.r "slt" (s rd) (s rs) (s "x0")]
  | .sgtz, [rd, rs] => some [.r "slt" (s rd) (s "x0") (s rs)]
  | .brz real, [rs, _] => some [.b real (s rs) (s "x0") imm]
  | .brz2 real, [rs, _] => some [.b real (s "x0") (s rs) imm]
  | .br2 real, [rs, rt, _] => some [.b real (s rt) (s rs) imm]
  | .j, [_] => some [.j "jal" (s "x0") imm]
  | .jal, [_] => some [.j "jal" (s "x1") imm]
  | .jr, [rs] => some [.i "jalr" (s "x0") (s rs) (.arith "0") false]
  | .jalr, [rs] => some [.i "jalr" (s "x1") (s rs) (.arith "0") false]
  | .ret, _ => some [.i "jalr" (s "x0") (s "x1") (.arith "0") false]
  | .call, [_] =>
    some (if short then [.j "jal" (s "x1") imm]
          else [.u "auipc" (s "x1") (.hi imm), .i "jalr" (s "x1") (s "x1") (.lo imm) true])
  | .tail, [_] =>
    some (if short then [.j "jal" (s "x0") imm]
          else [.u "auipc" (s "x6") (.hi imm), .i "jalr" (s "x0") (s "x6") (.lo imm) true])
  | .fence, _ => some [.fence "fence" (.int 15) (.int 15)]
  | _, _ => none

/-- the tokens `parse_immediate` is applied to: li's operand, `%offset <reference>` for the rest -/
def immTokens (k : PKind) (args : List String) : Option (List String) :=
  match k, args with
  | .li, _ :: toks => some toks
  | .brz _, [_, r] => some ["%offset", r]
  | .brz2 _, [_, r] => some ["%offset", r]
  | .br2 _, [_, _, r] => some ["%offset", r]
  | .j, [r] => some ["%offset", r]
  | .jal, [r] => some ["%offset", r]
  | .call, [r] => some ["%offset", r]
  | .tail, [r] => some ["%offset", r]
  | _, _ => none

/-- **whatever `expandKind` returns is the documented expansion** (table-shaped, all 20 kinds) -/
theorem expand_matches_doc {k : PKind} {args : List String} {instrs : List Instr} {short : Bool}
    (h : expandKind H env line k args p = .ok (instrs, short)) :
    ∃ imm, (∀ toks, immTokens k args = some toks → H.parseImm toks line = .ok imm) ∧
      documented k args imm short = some instrs := by
  unfold expandKind at h
  cases k <;> simp only at h
  all_goals (repeat' split at h)
  all_goals (try (simp at h; done))
  all_goals (try (simp only [Except.ok.injEq, Prod.mk.injEq] at h; obtain ⟨rfl, rfl⟩ := h;
                  exact ⟨.arith "0", by simp [immTokens], by simp [documented]⟩))
  all_goals (
    simp only [bind, Except.bind, pure, Except.pure] at h
    repeat' split at h
    all_goals (try (simp at h; done))
    all_goals (try (simp only [Except.ok.injEq, Prod.mk.injEq] at h; obtain ⟨rfl, rfl⟩ := h))
    all_goals (
      refine ⟨?_, fun toks ht => ?_, ?_⟩
      rotate_left
      · simp only [immTokens, Option.some.injEq] at ht; subst ht; assumption
      · simp [documented]))

/-! the converse, kind by kind: on well-formed argument lists the expansion succeeds with the
    documented instructions -/

theorem expand_nop (args) : expandKind H env line .nop args p
    = .ok ([.i "addi" (.str "x0") (.str "x0") (.arith "0") false], false) := rfl
theorem expand_mv (rd rs : String) : expandKind H env line .mv [rd, rs] p
    = .ok ([.i "addi" (.str rd) (.str rs) (.arith "0") false], false) := rfl
theorem expand_not (rd rs : String) : expandKind H env line .not [rd, rs] p
    = .ok ([.i "xori" (.str rd) (.str rs) (.arith "-1") false], false) := rfl
theorem expand_neg (rd rs : String) : expandKind H env line .neg [rd, rs] p
    = .ok ([.r "sub" (.str rd) (.str "x0") (.str rs)], false) := rfl
theorem expand_seqz (rd rs : String) : expandKind H env line .seqz [rd, rs] p
    = .ok ([.i "sltiu" (.str rd) (.str rs) (.arith "1") false], false) := rfl
theorem expand_snez (rd rs : String) : expandKind H env line .snez [rd, rs] p
    = .ok ([.r "sltu" (.str rd) (.str "x0") (.str rs)], false) := rfl
theorem expand_sltz (rd rs : String) : expandKind H env line .sltz [rd, rs] p
    = .ok ([.r "slt" (.str rd) (.str rs) (.str "x0")], false) := rfl
theorem expand_sgtz (rd rs : String) : expandKind H env line .sgtz [rd, rs] p
    = .ok ([.r "slt" (.str rd) (.str "x0") (.str rs)], false) := rfl
theorem expand_jr (rs : String) : expandKind H env line .jr [rs] p
    = .ok ([.i "jalr" (.str "x0") (.str rs) (.arith "0") false], false) := rfl
theorem expand_jalr (rs : String) : expandKind H env line .jalr [rs] p
    = .ok ([.i "jalr" (.str "x1") (.str rs) (.arith "0") false], false) := rfl
theorem expand_ret (args) : expandKind H env line .ret args p
    = .ok ([.i "jalr" (.str "x0") (.str "x1") (.arith "0") false], false) := rfl
theorem expand_fence (args) : expandKind H env line .fence args p
    = .ok ([.fence "fence" (.int 15) (.int 15)], false) := rfl

/-- beqz/bnez/bgez/bltz rs, L  =  beq/bne/bge/blt rs, x0, %offset(L) -/
theorem expand_brz (real rs ref : String) (imm : Imm) (hi : H.parseImm ["%offset", ref] line = .ok imm) :
    expandKind H env line (.brz real) [rs, ref] p = .ok ([.b real (.str rs) (.str "x0") imm], false) := by
  simp [expandKind, hi, bind, Except.bind, pure, Except.pure]
/-- blez/bgtz rs, L  =  bge/blt x0, rs, %offset(L) -/
theorem expand_brz2 (real rs ref : String) (imm : Imm) (hi : H.parseImm ["%offset", ref] line = .ok imm) :
    expandKind H env line (.brz2 real) [rs, ref] p = .ok ([.b real (.str "x0") (.str rs) imm], false) := by
  simp [expandKind, hi, bind, Except.bind, pure, Except.pure]
/-- bgt/ble/bgtu/bleu rs, rt, L  =  blt/bge/bltu/bgeu rt, rs, %offset(L) -/
theorem expand_br2 (real rs rt ref : String) (imm : Imm) (hi : H.parseImm ["%offset", ref] line = .ok imm) :
    expandKind H env line (.br2 real) [rs, rt, ref] p = .ok ([.b real (.str rt) (.str rs) imm], false) := by
  simp [expandKind, hi, bind, Except.bind, pure, Except.pure]
theorem expand_j (ref : String) (imm : Imm) (hi : H.parseImm ["%offset", ref] line = .ok imm) :
    expandKind H env line .j [ref] p = .ok ([.j "jal" (.str "x0") imm], false) := by
  simp [expandKind, hi, bind, Except.bind, pure, Except.pure]
theorem expand_jal (ref : String) (imm : Imm) (hi : H.parseImm ["%offset", ref] line = .ok imm) :
    expandKind H env line .jal [ref] p = .ok ([.j "jal" (.str "x1") imm], false) := by
  simp [expandKind, hi, bind, Except.bind, pure, Except.pure]

/-- the mnemonics behind the kinds (the `elif item.name == …` chain) -/
theorem pseudoKind_table :
    pseudoKind "nop" = some .nop ∧ pseudoKind "li" = some .li ∧ pseudoKind "mv" = some .mv ∧
    pseudoKind "not" = some .not ∧ pseudoKind "neg" = some .neg ∧ pseudoKind "seqz" = some .seqz ∧
    pseudoKind "snez" = some .snez ∧ pseudoKind "sltz" = some .sltz ∧ pseudoKind "sgtz" = some .sgtz ∧
    pseudoKind "beqz" = some (.brz "beq") ∧ pseudoKind "bnez" = some (.brz "bne") ∧
    pseudoKind "bgez" = some (.brz "bge") ∧ pseudoKind "bltz" = some (.brz "blt") ∧
    pseudoKind "blez" = some (.brz2 "bge") ∧ pseudoKind "bgtz" = some (.brz2 "blt") ∧
    pseudoKind "bgt" = some (.br2 "blt") ∧ pseudoKind "ble" = some (.br2 "bge") ∧
    pseudoKind "bgtu" = some (.br2 "bltu") ∧ pseudoKind "bleu" = some (.br2 "bgeu") ∧
    pseudoKind "j" = some .j ∧ pseudoKind "jal" = some .jal ∧ pseudoKind "jr" = some .jr ∧
    pseudoKind "jalr" = some .jalr ∧ pseudoKind "ret" = some .ret ∧ pseudoKind "call" = some .call ∧
    pseudoKind "tail" = some .tail ∧ pseudoKind "fence" = some .fence := by decide

/-- li: short form exactly when the operand's value at decision time, read as a signed 32-bit
    number, fits 12 bits -/
theorem expand_li (rd : String) (toks : List String) (imm : Imm) (v : Int)
    (hi : H.parseImm toks line = .ok imm) (hv : imm.eval H env line p = .ok v) :
    expandKind H env line .li (rd :: toks) p =
      if -2048 ≤ cI32 v ∧ cI32 v ≤ 2047 then
        .ok ([.i "addi" (.str rd) (.str "x0") (.lo imm) false], true)
      else .ok ([.u "lui" (.str rd) (.hi imm), .i "addi" (.str rd) (.str rd) (.lo imm) false], false) := by
  simp only [expandKind, hi, hv, bind, Except.bind, pure, Except.pure, ge_iff_le]

/-- call: `jal x1` when the offset at decision time fits 21 bits, else the auipc+jalr pair on x1 -/
theorem expand_call (ref : String) (imm : Imm) (v : Int)
    (hi : H.parseImm ["%offset", ref] line = .ok imm) (hv : imm.eval H env line p = .ok v) :
    expandKind H env line .call [ref] p =
      if -1048576 ≤ cI32 v ∧ cI32 v ≤ 1048575 then .ok ([.j "jal" (.str "x1") imm], true)
      else .ok ([.u "auipc" (.str "x1") (.hi imm), .i "jalr" (.str "x1") (.str "x1") (.lo imm) true], false) := by
  simp only [expandKind, hi, hv, bind, Except.bind, pure, Except.pure, ge_iff_le]

/-- tail: `jal x0` when near, else auipc x6 ; jalr x0, x6 -/
theorem expand_tail (ref : String) (imm : Imm) (v : Int)
    (hi : H.parseImm ["%offset", ref] line = .ok imm) (hv : imm.eval H env line p = .ok v) :
    expandKind H env line .tail [ref] p =
      if -1048576 ≤ cI32 v ∧ cI32 v ≤ 1048575 then .ok ([.j "jal" (.str "x0") imm], true)
      else .ok ([.u "auipc" (.str "x6") (.hi imm), .i "jalr" (.str "x0") (.str "x6") (.lo imm) true], false) := by
  simp only [expandKind, hi, hv, bind, Except.bind, pure, Except.pure, ge_iff_le]

end Expand

/-- non-vacuity: with hooks that parse every operand to `%offset L` / evaluate to 0x12345678, the
    model expands `li a0, …` to the long form and `bgtu a0, a1, L` to `bltu a1, a0` -/
def Hx : Hooks := { arith := fun _ _ => .ok 0x12345678, parseImm := fun _ _ => .ok (.arith "K"), readFile := fun _ => none }
example : expandKind Hx (fun _ => none) default .li ["a0", "K"] 0
    = .ok ([.u "lui" (.str "a0") (.hi (.arith "K")), .i "addi" (.str "a0") (.str "a0") (.lo (.arith "K")) false], false) := by
  decide
example : expandPseudo Hx (fun _ => none) default "bgtu" ["a0", "a1", "L"] 0
    = .ok ([.b "bltu" (.str "a1") (.str "a0") (.arith "K")], false) := by decide
example : documented (.br2 "bltu") ["a0", "a1", "L"] (.arith "K") false
    = some [.b "bltu" (.str "a1") (.str "a0") (.arith "K")] := by decide

/-! ## Part 3: from the model's resolved instruction to the `Instr32` of the effect theorems

  `resolve_immediates` stores the evaluated immediate as `.value v`; `lookup_register` maps the
  register operands to numbers.  `denote32I` (Lemmas/ExecDenote) is C01's `denote32` followed by the
  specification's `intent32`.  For each mnemonic the expansions use, it yields exactly the `Instr32`
  the effect theorems are about; and by C01 (`encode_denotes32`) the emitted word decodes to it. -/

theorem reg_x0 : lookupRegister (.str "x0") = some 0 := by decide
theorem reg_x1 : lookupRegister (.str "x1") = some 1 := by decide
theorem reg_x6 : lookupRegister (.str "x6") = some 6 := by decide

section Bridge
variable {rd rs1 rs2 : RegOp} {a b c : Nat}

/-- I shape: addi (nop, li, mv), xori (not), sltiu (seqz) -/
theorem bridge_addi (v : Int) (aj : Bool) (hrd : lookupRegister rd = some a) (hrs : lookupRegister rs1 = some b) :
    denote32I (.i "addi" rd rs1 (.value v) aj) = some (.i .addi a b v) :=
  bridge_i v aj (by decide : instrTable.lookup "addi" = some (.i 19 0)) (by decide) hrd hrs
theorem bridge_xori (v : Int) (aj : Bool) (hrd : lookupRegister rd = some a) (hrs : lookupRegister rs1 = some b) :
    denote32I (.i "xori" rd rs1 (.value v) aj) = some (.i .xori a b v) :=
  bridge_i v aj (by decide : instrTable.lookup "xori" = some (.i 19 4)) (by decide) hrd hrs
theorem bridge_sltiu (v : Int) (aj : Bool) (hrd : lookupRegister rd = some a) (hrs : lookupRegister rs1 = some b) :
    denote32I (.i "sltiu" rd rs1 (.value v) aj) = some (.i .sltiu a b v) :=
  bridge_i v aj (by decide : instrTable.lookup "sltiu" = some (.i 19 3)) (by decide) hrd hrs
/-- I shape, jalr (jr, jalr, ret, far call/tail) -/
theorem bridge_jalr (v : Int) (aj : Bool) (hrd : lookupRegister rd = some a) (hrs : lookupRegister rs1 = some b) :
    denote32I (.i "jalr" rd rs1 (.value v) aj) = some (.jalr a b v) :=
  bridge_ij v aj (by decide : instrTable.lookup "jalr" = some (.ij 103 0)) (by decide) hrd hrs
/-- R shape: sub (neg), sltu (snez), slt (sltz, sgtz) -/
theorem bridge_sub (hrd : lookupRegister rd = some a) (h1 : lookupRegister rs1 = some b)
    (h2 : lookupRegister rs2 = some c) : denote32I (.r "sub" rd rs1 rs2) = some (.r .sub a b c) :=
  bridge_r (by decide : instrTable.lookup "sub" = some (.r 51 0 32)) (by decide) hrd h1 h2
theorem bridge_sltu (hrd : lookupRegister rd = some a) (h1 : lookupRegister rs1 = some b)
    (h2 : lookupRegister rs2 = some c) : denote32I (.r "sltu" rd rs1 rs2) = some (.r .sltu a b c) :=
  bridge_r (by decide : instrTable.lookup "sltu" = some (.r 51 3 0)) (by decide) hrd h1 h2
theorem bridge_slt (hrd : lookupRegister rd = some a) (h1 : lookupRegister rs1 = some b)
    (h2 : lookupRegister rs2 = some c) : denote32I (.r "slt" rd rs1 rs2) = some (.r .slt a b c) :=
  bridge_r (by decide : instrTable.lookup "slt" = some (.r 51 2 0)) (by decide) hrd h1 h2
/-- B shape: the six real branches behind the ten pseudo-branches -/
theorem bridge_beq (v : Int) (h1 : lookupRegister rs1 = some a) (h2 : lookupRegister rs2 = some b) :
    denote32I (.b "beq" rs1 rs2 (.value v)) = some (.branch .beq a b v) :=
  bridge_b v (by decide : instrTable.lookup "beq" = some (.b 99 0)) (by decide) h1 h2
theorem bridge_bne (v : Int) (h1 : lookupRegister rs1 = some a) (h2 : lookupRegister rs2 = some b) :
    denote32I (.b "bne" rs1 rs2 (.value v)) = some (.branch .bne a b v) :=
  bridge_b v (by decide : instrTable.lookup "bne" = some (.b 99 1)) (by decide) h1 h2
theorem bridge_blt (v : Int) (h1 : lookupRegister rs1 = some a) (h2 : lookupRegister rs2 = some b) :
    denote32I (.b "blt" rs1 rs2 (.value v)) = some (.branch .blt a b v) :=
  bridge_b v (by decide : instrTable.lookup "blt" = some (.b 99 4)) (by decide) h1 h2
theorem bridge_bge (v : Int) (h1 : lookupRegister rs1 = some a) (h2 : lookupRegister rs2 = some b) :
    denote32I (.b "bge" rs1 rs2 (.value v)) = some (.branch .bge a b v) :=
  bridge_b v (by decide : instrTable.lookup "bge" = some (.b 99 5)) (by decide) h1 h2
theorem bridge_bltu (v : Int) (h1 : lookupRegister rs1 = some a) (h2 : lookupRegister rs2 = some b) :
    denote32I (.b "bltu" rs1 rs2 (.value v)) = some (.branch .bltu a b v) :=
  bridge_b v (by decide : instrTable.lookup "bltu" = some (.b 99 6)) (by decide) h1 h2
theorem bridge_bgeu (v : Int) (h1 : lookupRegister rs1 = some a) (h2 : lookupRegister rs2 = some b) :
    denote32I (.b "bgeu" rs1 rs2 (.value v)) = some (.branch .bgeu a b v) :=
  bridge_b v (by decide : instrTable.lookup "bgeu" = some (.b 99 7)) (by decide) h1 h2
/-- J shape: jal (j, jal, near call/tail) -/
theorem bridge_jal (v : Int) (hrd : lookupRegister rd = some a) :
    denote32I (.j "jal" rd (.value v)) = some (.jal a v) :=
  bridge_j v (by decide : instrTable.lookup "jal" = some (.j 111)) (by decide) hrd
/-- U shape: lui (li), auipc (far call/tail); the 20-bit field is the immediate mod 2^20 -/
theorem bridge_lui' (v : Int) (hrd : lookupRegister rd = some a) :
    denote32I (.u "lui" rd (.value v)) = some (.lui a (v % 1048576).toNat) :=
  bridge_lui v (by decide : instrTable.lookup "lui" = some (.u 55)) (by decide) hrd
theorem bridge_auipc' (v : Int) (hrd : lookupRegister rd = some a) :
    denote32I (.u "auipc" rd (.value v)) = some (.auipc a (v % 1048576).toNat) :=
  bridge_auipc v (by decide : instrTable.lookup "auipc" = some (.u 23)) (by decide) hrd
/-- fence 15, 15 -/
theorem bridge_fence : denote32I (.fence "fence" (.int 15) (.int 15)) = some (.fence 0 15 15 0 0) :=
  bridge_fence_full

end Bridge

/-- **the emitted word decodes to the denoted instruction** (C01 through `denote32I`): for a
    resolved instruction of a 32-bit row, an accepted encoding decodes — by the specification's
    decoder — to the `Instr32` the bridging lemmas compute -/
theorem emitted_word_denotes {ins : Instr} {k : EncKind} {args : List Arg} {w : Nat}
    (hk : instrTable.lookup ins.name = some k) (hs : k.size = 4) (ha : ins.args = some args)
    (he : encode ins.name args = .ok w) :
    ∃ i, denote32I ins = some i ∧ decode32 w = some i ∧ w < 2 ^ 32 :=
  encode_denotes32 hk hs ha he

/-- end to end for the long `li`: the two emitted words decode to instructions whose execution
    loads `v mod 2^32` into the register `rd` names — for every integer `v` -/
theorem li_long_emitted {rd : RegOp} {a : Nat} (v : Int) (hrd : lookupRegister rd = some a) {w1 w2 : Nat}
    (h1 : encode "lui" [.r rd, .i (relocateHi v)] = .ok w1)
    (h2 : encode "addi" [.r rd, .r rd, .i (relocateLo v)] = .ok w2) :
    ∃ i1 i2, decode32 w1 = some i1 ∧ decode32 w2 = some i2 ∧
      ∀ s, exec i2 4 (exec i1 4 s) = wrote s a (BitVec.ofInt 32 v) 8 := by
  obtain ⟨i1, d1, e1, _⟩ := encode_denotes32 (ins := .u "lui" rd (.value (relocateHi v)))
    (by decide : instrTable.lookup "lui" = some (.u 55)) rfl rfl h1
  obtain ⟨i2, d2, e2, _⟩ := encode_denotes32 (ins := .i "addi" rd rd (.value (relocateLo v)) false)
    (by decide : instrTable.lookup "addi" = some (.i 19 0)) rfl rfl h2
  rw [bridge_lui' _ hrd] at d1
  rw [bridge_addi _ _ hrd hrd] at d2
  cases d1; cases d2
  exact ⟨_, _, e1, e2, fun s => li_long_effect a v s⟩

/-- end to end for the far `call`: the emitted pair decodes to instructions that, run from an even
    pc, transfer control to pc + off and write only ra = pc + 8 — for every even offset -/
theorem call_far_emitted (off : Int) (heven : off % 2 = 0) {w1 w2 : Nat}
    (h1 : encode "auipc" [.r (.str "x1"), .i (relocateHi off)] = .ok w1)
    (h2 : encode "jalr" [.r (.str "x1"), .r (.str "x1"), .i (relocateLo off)] = .ok w2) :
    ∃ i1 i2, decode32 w1 = some i1 ∧ decode32 w2 = some i2 ∧
      ∀ s : St, s.pc.toNat % 2 = 0 →
        exec i2 4 (exec i1 4 s) = { (s.set 1 (s.pc + 8)) with pc := s.pc + imm32 off } := by
  obtain ⟨i1, d1, e1, _⟩ := encode_denotes32 (ins := .u "auipc" (.str "x1") (.value (relocateHi off)))
    (by decide : instrTable.lookup "auipc" = some (.u 23)) rfl rfl h1
  obtain ⟨i2, d2, e2, _⟩ := encode_denotes32 (ins := .i "jalr" (.str "x1") (.str "x1") (.value (relocateLo off)) true)
    (by decide : instrTable.lookup "jalr" = some (.ij 103 0)) rfl rfl h2
  rw [bridge_auipc' _ reg_x1] at d1
  rw [bridge_jalr _ _ reg_x1 reg_x1] at d2
  cases d1; cases d2
  exact ⟨_, _, e1, e2, fun s hpc => call_far_effect off heven s hpc⟩

/-- non-vacuity: `li a0, 0x12345800` really is accepted by the encoders (so `li_long_emitted` applies),
    and `sub a0, x0, a0` denotes the instruction of `neg_effect` -/
example : encode "lui" [.r (.str "a0"), .i (relocateHi 0x12345800)] = .ok 0x12346537 ∧
    encode "addi" [.r (.str "a0"), .r (.str "a0"), .i (relocateLo 0x12345800)] = .ok 0x80050513 := by decide
example : denote32I (.r "sub" (.str "a0") (.str "x0") (.str "a0")) = some (.r .sub 10 0 10) := by decide
example : encode "auipc" [.r (.str "x1"), .i (relocateHi 0x12345800)] = .ok 0x12346097 ∧
    encode "jalr" [.r (.str "x1"), .r (.str "x1"), .i (relocateLo 0x12345800)] = .ok 0x800080e7 := by decide

end BB.Props.C05
