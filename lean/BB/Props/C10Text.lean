/-
  BB.Props.C10Text — C10, strings: "string emits the UTF-8 encoding of its text after
  backslash-escape processing … all printable and non-ASCII strings".

  * `utf8_decode_encode`, `utf8_wellformed` : the specification decoder `Utf8.decode` (BB/Spec/Utf8,
      written from table 3-7 of the Unicode Standard) inverts `utf8Bytes` on every string: the
      bytes a `string` item emits are the well-formed UTF-8 form of exactly its characters — 1-, 2-,
      3- and 4-byte forms, every scalar value.
  * `string_utf8` : for every text without a backslash (any characters: Latin-1, BMP, astral) the
      `string` line lexes to that text, parses to a String item, and the item's bytes are
      `utf8Bytes text`.
  * `string_escape_*` : the documented escapes denote the named code point.
  * `string_nonlatin_backslash_kept` : a lone backslash in front of a character above U+00FF stays,
      and so does the character (what fix 71c7339 guarantees); `string_latin1_backslash_kept` the
      same below U+0100; `string_double_backslash` : two backslashes are one.
-/
import BB.Read
namespace BB.Props.C10
open BB

/-! ## UTF-8 -/

theorem char_scalar (c : Char) : c.toNat < 0xD800 ∨ (0xE000 ≤ c.toNat ∧ c.toNat < 0x110000) := by
  have h := c.valid
  simp only [UInt32.isValidChar, Nat.isValidChar] at h
  have : c.toNat = c.val.toNat := rfl
  omega

/-- the model's encoder is the one of Lean's `String` -/
theorem utf8Enc_eq_core (c : Char) : (String.utf8EncodeChar c).map UInt8.toNat = utf8Enc c.toNat := by
  have hc := char_scalar c
  have hv : c.val.toNat = c.toNat := rfl
  unfold String.utf8EncodeChar utf8Enc
  simp only [hv]
  split
  · simp only [List.map_cons, List.map_nil, UInt8.toNat_ofNat']; congr 1; omega
  · split
    · simp only [List.map_cons, List.map_nil, UInt8.toNat_ofNat']
      congr 1; omega; congr 1; omega
    · split
      · simp only [List.map_cons, List.map_nil, UInt8.toNat_ofNat']
        congr 1; omega; congr 1; omega; congr 1; omega
      · simp only [List.map_cons, List.map_nil, UInt8.toNat_ofNat']
        congr 1; omega; congr 1; omega; congr 1; omega; congr 1; omega

theorem utf8Bytes_ofList (l : List Char) : utf8Bytes (String.ofList l) = l.flatMap (fun c => utf8Enc c.toNat) := by
  simp only [utf8Bytes, String.toUTF8, String.toByteArray_ofList, List.utf8Encode, List.data_toByteArray,
    List.toList_toArray, List.map_flatMap]
  congr 1
  funext c
  exact utf8Enc_eq_core c

theorem utf8Bytes_eq (s : String) : utf8Bytes s = s.toList.flatMap (fun c => utf8Enc c.toNat) := by
  rw [← utf8Bytes_ofList, String.ofList_toList]

set_option linter.unusedSimpArgs false

set_option maxRecDepth 4000 in
/-- one encoded scalar value decodes to itself -/
theorem decodeOne_utf8Enc (v : Nat) (hv : v < 0xD800 ∨ (0xE000 ≤ v ∧ v < 0x110000)) (rest : List Nat) :
    Utf8.decodeOne (utf8Enc v ++ rest) = some (v, rest) := by
  unfold utf8Enc
  split
  · rename_i h1
    simp only [List.cons_append, List.nil_append, Utf8.decodeOne, h1, if_true]
  · rename_i h1
    split
    · rename_i h2
      have a0 : v / 64 % 32 + 192 = v / 64 + 192 := by omega
      have b0 : ¬ (v / 64 % 32 + 192 ≤ 0x7F) := by omega
      have b1 : Utf8.inR 0xC2 0xDF (v / 64 % 32 + 192) = true := by simp [Utf8.inR]; omega
      have b2 : Utf8.isCont (v % 64 + 128) = true := by simp [Utf8.isCont, Utf8.inR]; omega
      simp only [List.cons_append, List.nil_append, Utf8.decodeOne, b0, b1, b2, if_true, if_false]
      congr 2; omega
    · rename_i h2
      split
      · rename_i h3
        generalize hb0 : v / 4096 % 16 + 224 = x0
        generalize hb1 : v / 64 % 64 + 128 = x1
        generalize hb2 : v % 64 + 128 = x2
        have c0 : ¬ (x0 ≤ 0x7F) := by omega
        have c1 : Utf8.inR 0xC2 0xDF x0 = false := by simp [Utf8.inR]; omega
        have c2 : Utf8.inR 0xE0 0xEF x0 = true := by simp [Utf8.inR]; omega
        have c3 : (if x0 = 0xE0 then Utf8.inR 0xA0 0xBF x1 else if x0 = 0xED then Utf8.inR 0x80 0x9F x1
            else Utf8.isCont x1) = true := by
          split
          · simp [Utf8.inR]; omega
          · split
            · simp [Utf8.inR]; omega
            · simp [Utf8.isCont, Utf8.inR]; omega
        have c4 : Utf8.isCont x2 = true := by simp [Utf8.isCont, Utf8.inR]; omega
        simp only [List.cons_append, List.nil_append, Utf8.decodeOne, c0, c1, c2, c3, c4, if_true,
          Bool.false_eq_true, if_false, Bool.and_self]
        congr 2; omega
      · rename_i h3
        generalize hb0 : v / 262144 % 8 + 240 = x0
        generalize hb1 : v / 4096 % 64 + 128 = x1
        generalize hb2 : v / 64 % 64 + 128 = x2
        generalize hb3 : v % 64 + 128 = x3
        have c0 : ¬ (x0 ≤ 0x7F) := by omega
        have c1 : Utf8.inR 0xC2 0xDF x0 = false := by simp [Utf8.inR]; omega
        have c2 : Utf8.inR 0xE0 0xEF x0 = false := by simp [Utf8.inR]; omega
        have c2' : Utf8.inR 0xF0 0xF4 x0 = true := by simp [Utf8.inR]; omega
        have c3 : (if x0 = 0xF0 then Utf8.inR 0x90 0xBF x1 else if x0 = 0xF4 then Utf8.inR 0x80 0x8F x1
            else Utf8.isCont x1) = true := by
          split
          · simp [Utf8.inR]; omega
          · split
            · simp [Utf8.inR]; omega
            · simp [Utf8.isCont, Utf8.inR]; omega
        have c4 : Utf8.isCont x2 = true := by simp [Utf8.isCont, Utf8.inR]; omega
        have c5 : Utf8.isCont x3 = true := by simp [Utf8.isCont, Utf8.inR]; omega
        simp only [List.cons_append, List.nil_append, Utf8.decodeOne, c0, c1, c2, c2', c3, c4, c5, if_true,
          Bool.false_eq_true, if_false, Bool.and_self]
        congr 2; omega

theorem utf8Enc_length_pos (v : Nat) : 0 < (utf8Enc v).length := by
  unfold utf8Enc; split <;> (try split) <;> (try split) <;> simp

theorem decodeAux_encode (l : List Char) : ∀ fuel, (l.flatMap (fun c => utf8Enc c.toNat)).length ≤ fuel →
    Utf8.decodeAux fuel (l.flatMap (fun c => utf8Enc c.toNat)) = some (l.map Char.toNat) := by
  induction l with
  | nil => intro fuel _; cases fuel <;> rfl
  | cons c cs ih =>
    intro fuel hf
    simp only [List.flatMap_cons, List.length_append] at hf ⊢
    have hp := utf8Enc_length_pos c.toNat
    cases fuel with
    | zero => omega
    | succ f =>
      have hne : utf8Enc c.toNat ++ List.flatMap (fun c => utf8Enc c.toNat) cs ≠ [] := by
        intro e
        have := congrArg List.length e
        simp only [List.length_append, List.length_nil] at this; omega
      cases hx : utf8Enc c.toNat ++ List.flatMap (fun c => utf8Enc c.toNat) cs with
      | nil => exact absurd hx hne
      | cons b bs =>
        rw [Utf8.decodeAux.eq_3 _ _ (by simp), ← hx, decodeOne_utf8Enc _ (char_scalar c)]
        simp only
        rw [ih f (by omega)]
        rfl

/-- **the bytes of a string are its UTF-8 form**: the specification decoder reads them back as
    exactly the characters of the string -/
theorem utf8_decode_encode (s : String) : Utf8.decode (utf8Bytes s) = some (s.toList.map Char.toNat) := by
  rw [utf8Bytes_eq]
  exact decodeAux_encode _ _ (Nat.le_refl _)

/-- … in particular they are well-formed UTF-8 -/
theorem utf8_wellformed (s : String) : Utf8.decode (utf8Bytes s) ≠ none := by
  rw [utf8_decode_encode]; simp

/-- the four forms and their boundaries -/
example : utf8Bytes (String.ofList [Char.ofNat 0x7f, Char.ofNat 0x80, Char.ofNat 0x7ff, Char.ofNat 0x800, Char.ofNat 0xffff,
      Char.ofNat 0x10000, Char.ofNat 0x10ffff]) =
    [0x7f, 0xc2, 0x80, 0xdf, 0xbf, 0xe0, 0xa0, 0x80, 0xef, 0xbf, 0xbf, 0xf0, 0x90, 0x80, 0x80, 0xf4, 0x8f, 0xbf, 0xbf] := by
  rw [utf8Bytes_ofList]; decide

/-- ill-formed sequences are refused: over-long forms, an encoded surrogate, beyond U+10FFFF, a lone
    continuation byte, a truncated sequence -/
example : Utf8.decode [0xc0, 0x80] = none ∧ Utf8.decode [0xe0, 0x9f, 0xbf] = none ∧
    Utf8.decode [0xed, 0xa0, 0x80] = none ∧ Utf8.decode [0xf4, 0x90, 0x80, 0x80] = none ∧
    Utf8.decode [0x80] = none ∧ Utf8.decode [0xe2, 0x86] = none ∧ Utf8.decode [0xf0, 0x8f, 0xbf, 0xbf] = none := by
  decide

/-! ## the `string` line: helper lemmas about the escape dance -/

theorem hexDigitVal_lower : ∀ d, d < 16 → hexDigitVal (hexDigitLower d) = some d := by decide

theorem hexLower_length (w n : Nat) : (hexLower w n).length = w := by
  induction w with
  | zero => rfl
  | succ k ih => simp [hexLower, ih]

/-- `w` lower-case hex digits read back -/
theorem hexN_hexLower (w n : Nat) (rest : List Char) (acc : Nat) :
    hexN w (hexLower w n ++ rest) acc = some (acc * 16 ^ w + n % 16 ^ w, rest) := by
  induction w generalizing acc with
  | zero => simp [hexLower, hexN, Nat.mod_one]
  | succ k ih =>
    simp only [hexLower, List.cons_append, hexN, hexDigitVal_lower _ (Nat.mod_lt _ (by decide))]
    rw [ih]
    congr 2
    have h1 : n % 16 ^ (k + 1) = n % 16 ^ k + 16 ^ k * (n / 16 ^ k % 16) := by
      rw [Nat.pow_succ, Nat.mod_mul]
    rw [h1, Nat.pow_succ]
    generalize 16 ^ k = p
    generalize n / p % 16 = q
    generalize n % p = r
    rw [Nat.add_mul, Nat.mul_assoc, Nat.mul_comm 16 p, Nat.mul_comm q p]
    omega

theorem isLatin1_not_fix (l : List Char) (h : ∀ c ∈ l, c.toNat ≤ 255) (k : Nat) : fixBackslashes k l = l := by
  induction l generalizing k with
  | nil => rfl
  | cons c cs ih =>
    have hc := h c (by simp)
    have ih' := fun k => ih (fun d hd => h d (by simp [hd])) k
    unfold fixBackslashes
    split
    · rw [ih']
    · rw [if_neg (by omega), ih']

theorem isLatin1_not_replaced (l : List Char) (h : ∀ c ∈ l, c.toNat ≤ 255) : backslashReplace l = l := by
  induction l with
  | nil => rfl
  | cons c cs ih =>
    have hc := h c (by simp)
    simp only [backslashReplace, List.flatMap_cons, hc, if_true, List.singleton_append] at ih ⊢
    rw [ih (fun d hd => h d (by simp [hd]))]

/-- on text up to U+00FF the dance is `unicode_escape` on the text itself -/
theorem stringEscape_latin1 (l : List Char) (h : ∀ c ∈ l, c.toNat ≤ 255) :
    stringEscape l = unicodeEscapeAux (l.length + 1) l := by
  unfold stringEscape
  simp only [isLatin1_not_fix l h 0, isLatin1_not_replaced l h]

/-- … in particular on ASCII text the new model agrees with the old one -/
theorem stringEscape_ascii (l : List Char) (h : l.all isAsciiC = true) : stringEscape l = unicodeEscape l := by
  have h' : ∀ c ∈ l, c.toNat ≤ 255 := by
    intro c hc
    have := List.all_eq_true.mp h c hc
    simp only [isAsciiC, decide_eq_true_eq] at this
    omega
  rw [stringEscape_latin1 l h', unicodeEscape, if_pos h]

theorem fix_no_backslash (pre X : List Char) (h : '\\' ∉ pre) :
    fixBackslashes 0 (pre ++ X) = pre ++ fixBackslashes 0 X := by
  induction pre with
  | nil => rfl
  | cons c cs ih =>
    have hc : c ≠ '\\' := fun e => h (by simp [e])
    simp only [List.cons_append, fixBackslashes, hc, if_false, Nat.zero_mod, Nat.zero_ne_one, false_and]
    rw [ih (fun m => h (by simp [m]))]

theorem fix_no_backslash' (t : List Char) (h : '\\' ∉ t) : fixBackslashes 0 t = t := by
  have := fix_no_backslash t [] h
  simpa [fixBackslashes] using this

theorem fmap_nil_append (x : Except ExprErr (List Char)) : (fun r => ([] : List Char) ++ r) <$> x = x := by
  cases x <;> rfl

theorem fmap_cons_append (c : Char) (t : List Char) (x : Except ExprErr (List Char)) :
    (c :: ·) <$> ((fun r => t ++ r) <$> x) = (fun r => (c :: t) ++ r) <$> x := by
  cases x <;> rfl

theorem codePoint_char (c : Char) : codePoint c.toNat = .ok c := by
  have h := char_scalar c
  unfold codePoint
  rw [if_neg (by omega), if_neg (by omega), Char.ofNat_toNat]

/-- backslash-free text of any characters survives `backslashreplace` + `unicode_escape`: a
    character above U+00FF goes out as `\uxxxx` / `\Uxxxxxxxx` and comes back; each character costs
    one unit of fuel -/
theorem uesc_replace (t rest : List Char) (h : '\\' ∉ t) (fuel : Nat) :
    unicodeEscapeAux (fuel + t.length) (backslashReplace t ++ rest) =
      (fun r => t ++ r) <$> unicodeEscapeAux fuel rest := by
  induction t with
  | nil =>
    simp only [backslashReplace, List.flatMap_nil, List.nil_append, List.length_nil, Nat.add_zero]
    cases unicodeEscapeAux fuel rest <;> rfl
  | cons c cs ih =>
    have hc : c ≠ '\\' := fun e => h (by simp [e])
    have ih' := ih (fun m => h (by simp [m]))
    have hf : fuel + (c :: cs).length = (fuel + cs.length) + 1 := by simp; omega
    rw [hf]
    simp only [backslashReplace, List.flatMap_cons] at ih' ⊢
    by_cases h1 : c.toNat ≤ 255
    · simp only [h1, if_true, List.cons_append, List.nil_append, unicodeEscapeAux, ne_eq, hc,
        not_false_eq_true]
      rw [ih']; cases unicodeEscapeAux fuel rest <;> rfl
    · by_cases h2 : c.toNat ≤ 65535
      · simp only [h1, h2, if_true, if_false, List.cons_append, unicodeEscapeAux, ne_eq, not_true_eq_false,
          List.append_assoc]
        have hx : ∀ tail, hexN 4 (hexLower 4 c.toNat ++ tail) 0 = some (c.toNat, tail) := by
          intro tail
          have hp : (16 : Nat) ^ 4 = 65536 := by decide
          rw [hexN_hexLower, Nat.zero_mul, Nat.zero_add, hp, Nat.mod_eq_of_lt (by omega)]
        simp (decide := true) only [simpleEscape, octDigitVal, if_false, if_true, hx, codePoint_char]
        rw [ih']; cases unicodeEscapeAux fuel rest <;> rfl
      · have h3 := char_scalar c
        simp only [h1, h2, if_false, List.cons_append, unicodeEscapeAux, ne_eq, not_true_eq_false,
          List.append_assoc]
        have hx : ∀ tail, hexN 8 (hexLower 8 c.toNat ++ tail) 0 = some (c.toNat, tail) := by
          intro tail
          have hp : (16 : Nat) ^ 8 = 4294967296 := by decide
          rw [hexN_hexLower, Nat.zero_mul, Nat.zero_add, hp, Nat.mod_eq_of_lt (by omega)]
        simp (decide := true) only [simpleEscape, octDigitVal, if_false, if_true, hx, codePoint_char]
        rw [ih']; cases unicodeEscapeAux fuel rest <;> rfl

theorem length_le_replace (t : List Char) : t.length ≤ (backslashReplace t).length := by
  induction t with
  | nil => simp [backslashReplace]
  | cons c cs ih =>
    have h1 : 1 ≤ (if c.toNat ≤ 255 then [c] else if c.toNat ≤ 65535 then '\\' :: 'u' :: hexLower 4 c.toNat
        else '\\' :: 'U' :: hexLower 8 c.toNat).length := by
      split <;> (try split) <;> simp
    unfold backslashReplace at ih ⊢
    rw [List.flatMap_cons, List.length_append, List.length_cons]
    omega

/-- a backslash-free text is its own value -/
theorem stringEscape_no_backslash (t : List Char) (h : '\\' ∉ t) : stringEscape t = .ok t := by
  unfold stringEscape
  rw [fix_no_backslash' t h]
  have hl := length_le_replace t
  obtain ⟨m, hm⟩ : ∃ m, (backslashReplace t).length + 1 = (m + 1) + t.length := ⟨(backslashReplace t).length - t.length, by omega⟩
  have := uesc_replace t [] h (m + 1)
  simp only [List.append_nil] at this
  simp only [hm, this, unicodeEscapeAux]
  simp [Functor.map, Except.map]

/-! ## `string_utf8` -/

theorem matchKeyword_string (text : List Char) :
    matchKeyword "error".toList ("string ".toList ++ text) = none ∧
    matchKeyword "string".toList ("string ".toList ++ text) = some text := by
  constructor
  · simp [matchKeyword, dropWsLeft, isPyWs, List.isPrefixOf]
  · simp [matchKeyword, dropWsLeft, isPyWs, List.isPrefixOf]

/-- **C10, strings.**  A `string` line whose text has no backslash — any characters: Latin-1, BMP,
    astral — lexes to exactly that text, parses to a String item, and the item resolves to the
    UTF-8 form of the text (`utf8_decode_encode`: the well-formed encoding of exactly these
    characters).  (`'\n' ∉ text`: `read_lines` never produces a line holding one.) -/
theorem string_utf8 (line : Line) (text : List Char) (hb : '\\' ∉ text) (hn : '\n' ∉ text) :
    lexTokens ("string ".toList ++ text) = .ok ["string", String.ofList text] ∧
    parseItem line ["string", String.ofList text] = .ok (.string line (String.ofList text)) ∧
    resolveStrings [.string line (String.ofList text)] = [.blob line (utf8Bytes (String.ofList text))] ∧
    Utf8.decode (utf8Bytes (String.ofList text)) = some (text.map Char.toNat) := by
  refine ⟨?_, ?_, rfl, ?_⟩
  · have hnl : ("string ".toList ++ text).contains '\n' = false := by
      have : '\n' ∉ "string ".toList ++ text := by
        intro m
        rcases List.mem_append.mp m with h | h
        · revert h; decide
        · exact hn h
      simpa using this
    obtain ⟨h1, h2⟩ := matchKeyword_string text
    simp only [lexTokens, hnl, Bool.false_eq_true, if_false, h1, h2, stringEscape_no_backslash text hb]
  · have h : isAsciiS "string" = true := by decide
    simp [parseItem, parseItemHead, h, lowerS]
  · rw [utf8_decode_encode, String.toList_ofList]

/-! ## backslashes in front of characters that are no escape -/

theorem replace_append (a b : List Char) : backslashReplace (a ++ b) = backslashReplace a ++ backslashReplace b := by
  simp [backslashReplace]

/-- **what fix 71c7339 guarantees**: a lone backslash in front of a character above U+00FF (which
    `backslashreplace` writes as `\uxxxx`) does not fuse with that escape: backslash and character
    both stay -/
theorem string_nonlatin_backslash_kept (pre post : List Char) (c : Char)
    (hpre : '\\' ∉ pre) (hpost : '\\' ∉ post) (hc : c.toNat > 255) :
    stringEscape (pre ++ '\\' :: c :: post) = .ok (pre ++ '\\' :: c :: post) := by
  have hcb : c ≠ '\\' := fun e => by subst e; revert hc; decide
  have hcp : '\\' ∉ c :: post := by
    intro m; rcases List.mem_cons.mp m with h | h
    · exact hcb h.symm
    · exact hpost h
  have hfix : fixBackslashes 0 (pre ++ '\\' :: c :: post) = pre ++ '\\' :: '\\' :: c :: post := by
    rw [fix_no_backslash pre _ hpre]
    simp only [fixBackslashes, if_true, hcb, if_false, Nat.zero_add, Nat.one_mod, hc, and_self, if_true,
      fix_no_backslash' post hpost]
  have hrep : backslashReplace (pre ++ '\\' :: '\\' :: c :: post) =
      backslashReplace pre ++ ('\\' :: '\\' :: (backslashReplace (c :: post) ++ [])) := by
    rw [replace_append, show '\\' :: '\\' :: c :: post = ['\\', '\\'] ++ (c :: post) from rfl, replace_append,
      List.append_nil]
    rfl
  unfold stringEscape
  simp only [hfix, hrep]
  have h1 := length_le_replace pre
  have h2 := length_le_replace (c :: post)
  obtain ⟨m, hm⟩ : ∃ m, (backslashReplace pre ++ ('\\' :: '\\' :: (backslashReplace (c :: post) ++ []))).length + 1 =
      ((m + 1) + (c :: post).length) + 1 + pre.length := by
    refine ⟨(backslashReplace pre).length + (backslashReplace (c :: post)).length - pre.length - post.length, ?_⟩
    simp only [List.length_append, List.length_cons, List.length_nil] at h2 ⊢
    omega
  rw [hm, uesc_replace pre _ hpre]
  simp (decide := true) only [unicodeEscapeAux, ne_eq, not_true_eq_false, if_false, simpleEscape, if_true]
  rw [uesc_replace (c :: post) [] hcp]
  simp [unicodeEscapeAux, Functor.map, Except.map]

/-- below U+0100 a backslash in front of a non-ASCII character is no escape either -/
theorem string_latin1_backslash_kept (pre post : List Char) (c : Char)
    (hpre : '\\' ∉ pre) (hpost : '\\' ∉ post) (hlo : 128 ≤ c.toNat) (hhi : c.toNat ≤ 255) :
    stringEscape (pre ++ '\\' :: c :: post) = .ok (pre ++ '\\' :: c :: post) := by
  have hne : ∀ d : Char, d.toNat < 128 → c ≠ d := fun d hd e => by subst e; omega
  have hfix : fixBackslashes 0 (pre ++ '\\' :: c :: post) = pre ++ '\\' :: c :: post := by
    rw [fix_no_backslash pre _ hpre]
    have : ¬ c.toNat > 255 := by omega
    simp only [fixBackslashes, if_true, hne '\\' (by decide), if_false, this, and_false,
      fix_no_backslash' post hpost]
  have hrep : backslashReplace (pre ++ '\\' :: c :: post) =
      backslashReplace pre ++ ('\\' :: c :: (backslashReplace post ++ [])) := by
    rw [replace_append, show '\\' :: c :: post = ['\\', c] ++ post from rfl, replace_append, List.append_nil]
    simp [backslashReplace, hhi]
  unfold stringEscape
  simp only [hfix, hrep]
  have h1 := length_le_replace pre
  have h2 := length_le_replace post
  obtain ⟨m, hm⟩ : ∃ m, (backslashReplace pre ++ ('\\' :: c :: (backslashReplace post ++ []))).length + 1 =
      ((m + 1) + post.length) + 1 + pre.length := by
    refine ⟨(backslashReplace pre).length + (backslashReplace post).length + 1 - pre.length - post.length, ?_⟩
    simp only [List.length_append, List.length_cons, List.length_nil]
    omega
  rw [hm, uesc_replace pre _ hpre]
  have e1 := hne '\n' (by decide)
  have e2 : simpleEscape c = none := by
    simp only [simpleEscape, hne '\\' (by decide), hne '\'' (by decide), hne '"' (by decide), hne 'b' (by decide),
      hne 'f' (by decide), hne 't' (by decide), hne 'n' (by decide), hne 'r' (by decide), hne 'v' (by decide),
      hne 'a' (by decide), if_false]
  have e3 : octDigitVal c = none := by
    unfold octDigitVal
    rw [if_neg]
    intro h
    have : c.toNat ≤ '7'.toNat := h.2
    have : '7'.toNat = 55 := by decide
    omega
  simp only [unicodeEscapeAux, ne_eq, not_true_eq_false, if_false, e1, e2, e3, hne 'x' (by decide),
    hne 'u' (by decide), hne 'U' (by decide), hne 'N' (by decide), not_false_eq_true, if_true]
  rw [uesc_replace post [] hpost]
  simp [unicodeEscapeAux, Functor.map, Except.map]

/-- two backslashes are one backslash, whatever follows (a character above U+00FF included: an
    even run is left alone by the re.sub) -/
theorem string_double_backslash (pre post : List Char) (hpre : '\\' ∉ pre) (hpost : '\\' ∉ post) :
    stringEscape (pre ++ '\\' :: '\\' :: post) = .ok (pre ++ '\\' :: post) := by
  have hfix : fixBackslashes 0 (pre ++ '\\' :: '\\' :: post) = pre ++ '\\' :: '\\' :: post := by
    rw [fix_no_backslash pre _ hpre]
    cases post with
    | nil => simp [fixBackslashes]
    | cons d ds =>
      have hd : d ≠ '\\' := fun e => hpost (by simp [e])
      have := fix_no_backslash' ds (fun m => hpost (by simp [m]))
      simp [fixBackslashes, hd, this]
  have hrep : backslashReplace (pre ++ '\\' :: '\\' :: post) =
      backslashReplace pre ++ ('\\' :: '\\' :: (backslashReplace post ++ [])) := by
    rw [replace_append, show '\\' :: '\\' :: post = ['\\', '\\'] ++ post from rfl, replace_append, List.append_nil]
    rfl
  unfold stringEscape
  simp only [hfix, hrep]
  have h1 := length_le_replace pre
  have h2 := length_le_replace post
  obtain ⟨m, hm⟩ : ∃ m, (backslashReplace pre ++ ('\\' :: '\\' :: (backslashReplace post ++ []))).length + 1 =
      ((m + 1) + post.length) + 1 + pre.length := by
    refine ⟨(backslashReplace pre).length + (backslashReplace post).length + 1 - pre.length - post.length, ?_⟩
    simp only [List.length_append, List.length_cons, List.length_nil]
    omega
  rw [hm, uesc_replace pre _ hpre]
  simp (decide := true) only [unicodeEscapeAux, ne_eq, not_true_eq_false, if_false, simpleEscape, if_true]
  rw [uesc_replace post [] hpost]
  simp [unicodeEscapeAux, Functor.map, Except.map]

/-! ## the documented escapes denote the named code point -/

/-- `\n \t \r \\ \' \" \a \b \f \v \0`, and `\`+newline is nothing -/
theorem string_escape_simple :
    stringEscape "\\n".toList = .ok ['\n'] ∧ stringEscape "\\t".toList = .ok ['\t'] ∧
    stringEscape "\\r".toList = .ok ['\r'] ∧ stringEscape "\\\\".toList = .ok ['\\'] ∧
    stringEscape "\\'".toList = .ok ['\''] ∧ stringEscape "\\\"".toList = .ok ['"'] ∧
    stringEscape "\\a".toList = .ok [Char.ofNat 7] ∧ stringEscape "\\b".toList = .ok [Char.ofNat 8] ∧
    stringEscape "\\f".toList = .ok [Char.ofNat 12] ∧ stringEscape "\\v".toList = .ok [Char.ofNat 11] ∧
    stringEscape "\\0".toList = .ok [Char.ofNat 0] := by decide

theorem hexDigitLower_latin1 : ∀ d, d < 16 → (hexDigitLower d).toNat ≤ 255 := by decide

theorem hexLower_latin1 (w n : Nat) : ∀ c ∈ hexLower w n, c.toNat ≤ 255 := by
  induction w with
  | zero => intro c hc; simp [hexLower] at hc
  | succ k ih =>
    intro c hc
    simp only [hexLower, List.mem_cons] at hc
    rcases hc with rfl | hc
    · exact hexDigitLower_latin1 _ (Nat.mod_lt _ (by decide))
    · exact ih c hc

theorem codePoint_scalar (n : Nat) (h : n < 0xD800 ∨ (0xE000 ≤ n ∧ n < 0x110000)) :
    codePoint n = .ok (Char.ofNat n) := by
  unfold codePoint
  rw [if_neg (by omega), if_neg (by omega)]

/-- `\xHH` is the code point HH (two hex digits) -/
theorem string_escape_x (n : Nat) (h : n < 256) :
    stringEscape ('\\' :: 'x' :: hexLower 2 n) = .ok [Char.ofNat n] := by
  have hl : ∀ c ∈ '\\' :: 'x' :: hexLower 2 n, c.toNat ≤ 255 := by
    intro c hc
    simp only [List.mem_cons] at hc
    rcases hc with rfl | rfl | hc
    · decide
    · decide
    · exact hexLower_latin1 2 n c hc
  have hx : hexN 2 (hexLower 2 n) 0 = some (n, []) := by
    have := hexN_hexLower 2 n [] 0
    rw [List.append_nil] at this
    rw [this, Nat.zero_mul, Nat.zero_add, Nat.mod_eq_of_lt (by omega)]
  rw [stringEscape_latin1 _ hl]
  simp (decide := true) only [List.length_cons, hexLower_length, unicodeEscapeAux, ne_eq, not_true_eq_false,
    if_false, simpleEscape, octDigitVal, if_true, hx, codePoint_scalar n (by omega)]
  rfl

/-- `\uXXXX` is the code point XXXX (four hex digits; surrogates excluded) -/
theorem string_escape_u (n : Nat) (h : n < 0xD800 ∨ (0xE000 ≤ n ∧ n < 0x10000)) :
    stringEscape ('\\' :: 'u' :: hexLower 4 n) = .ok [Char.ofNat n] := by
  have hl : ∀ c ∈ '\\' :: 'u' :: hexLower 4 n, c.toNat ≤ 255 := by
    intro c hc
    simp only [List.mem_cons] at hc
    rcases hc with rfl | rfl | hc
    · decide
    · decide
    · exact hexLower_latin1 4 n c hc
  have hx : hexN 4 (hexLower 4 n) 0 = some (n, []) := by
    have := hexN_hexLower 4 n [] 0
    have hp : (16 : Nat) ^ 4 = 65536 := by decide
    rw [List.append_nil] at this
    rw [this, Nat.zero_mul, Nat.zero_add, hp, Nat.mod_eq_of_lt (by omega)]
  rw [stringEscape_latin1 _ hl]
  simp (decide := true) only [List.length_cons, hexLower_length, unicodeEscapeAux, ne_eq, not_true_eq_false,
    if_false, simpleEscape, octDigitVal, if_true, hx, codePoint_scalar n (by omega)]
  rfl

/-- `\UXXXXXXXX` is the code point XXXXXXXX (eight hex digits; up to U+10FFFF, surrogates excluded) -/
theorem string_escape_U (n : Nat) (h : n < 0xD800 ∨ (0xE000 ≤ n ∧ n < 0x110000)) :
    stringEscape ('\\' :: 'U' :: hexLower 8 n) = .ok [Char.ofNat n] := by
  have hl : ∀ c ∈ '\\' :: 'U' :: hexLower 8 n, c.toNat ≤ 255 := by
    intro c hc
    simp only [List.mem_cons] at hc
    rcases hc with rfl | rfl | hc
    · decide
    · decide
    · exact hexLower_latin1 8 n c hc
  have hx : hexN 8 (hexLower 8 n) 0 = some (n, []) := by
    have := hexN_hexLower 8 n [] 0
    have hp : (16 : Nat) ^ 8 = 4294967296 := by decide
    rw [List.append_nil] at this
    rw [this, Nat.zero_mul, Nat.zero_add, hp, Nat.mod_eq_of_lt (by omega)]
  rw [stringEscape_latin1 _ hl]
  simp (decide := true) only [List.length_cons, hexLower_length, unicodeEscapeAux, ne_eq, not_true_eq_false,
    if_false, simpleEscape, octDigitVal, if_true, hx, codePoint_scalar n h]
  rfl

/-- `\ooo`: one to three octal digits (the value may exceed 255: `\777` is U+01FF), upper-case hex
    digits, escapes inside text, an escape next to characters outside ASCII -/
theorem string_escape_examples :
    stringEscape "\\101".toList = .ok ['A'] ∧ stringEscape "\\7".toList = .ok [Char.ofNat 7] ∧
    stringEscape "\\777".toList = .ok [Char.ofNat 0x1ff] ∧ stringEscape "\\1011".toList = .ok ['A', '1'] ∧
    stringEscape "\\xE9".toList = .ok [Char.ofNat 0xe9] ∧ stringEscape "\\u20AC".toList = .ok [Char.ofNat 0x20ac] ∧
    stringEscape "a\\tb\\x41 \\\"q\\\"".toList = .ok "a\tbA \"q\"".toList ∧
    stringEscape ("caf\\xe9 ".toList ++ [Char.ofNat 0x2192, Char.ofNat 0xe9, Char.ofNat 0x1f600] ++ "\\n".toList) =
      .ok ("caf".toList ++ [Char.ofNat 0xe9, ' ', Char.ofNat 0x2192, Char.ofNat 0xe9, Char.ofNat 0x1f600, '\n']) := by
  decide

/-- what is refused: a truncated escape, a backslash at the end, a value above U+10FFFF are
    UnicodeDecodeError (→ AssemblerError on the line, fix b49f1cd); a lone surrogate and `\N{…}`
    are outside the model -/
theorem string_escape_refused :
    stringEscape "\\x4".toList = .error (.internal "UnicodeDecodeError") ∧
    stringEscape "ab\\".toList = .error (.internal "UnicodeDecodeError") ∧
    stringEscape "\\U00110000".toList = .error (.internal "UnicodeDecodeError") ∧
    stringEscape ('\\' :: 'x' :: '4' :: [Char.ofNat 0x2192]) = .error (.internal "UnicodeDecodeError") ∧
    stringEscape "\\ud800".toList = .error (.unsupported "surrogate") ∧
    stringEscape "\\N{BULLET}".toList = .error (.unsupported "\\N{...}") := by decide

/-- … and through the lexer: the line of an undecodable escape gets the AssemblerError -/
theorem lexLine_undecodable (l : Line)
    (h : lexTokens l.contents.toList = .error (.internal "UnicodeDecodeError")) : lexLine l = .error (.asm l) := by
  unfold lexLine
  rw [h]
  rfl

example : lexLine ⟨"<string>", 3, "string caf\\"⟩ = .error (.asm ⟨"<string>", 3, "string caf\\"⟩) :=
  lexLine_undecodable _ (by decide)

/-- a comment may hold any text; a non-ASCII character in the code part is outside the model -/
example : lexTokens ("addi x1, x1, 1 # caf".toList ++ [Char.ofNat 0xe9, ' ', Char.ofNat 0x2192, Char.ofNat 0x1f600]) =
    .ok ["addi", "x1", "x1", "1"] := by decide
example : lexTokens ("add x1, x2, ".toList ++ [Char.ofNat 0x663]) =
    .error (.unsupported "non-ascii outside string text and comments") := by decide
/-- the message of an `error` line is read back as Latin-1 (`é` arrives as `Ã©`) -/
example : lexTokens ("error caf".toList ++ [Char.ofNat 0xe9]) =
    .ok ["error", String.ofList ("caf".toList ++ [Char.ofNat 0xc3, Char.ofNat 0xa9])] := by decide

end BB.Props.C10
