/-
  BB.Props.C01Program — C01 / C02 at program level: in EVERY successful `assembleItems H c items [] []`
  (both modes), an instruction item held after resolve_aligns contributes, at its own byte offset,

    * if it is a 32-bit instruction: four bytes `leBytes 4 w` where the specification decodes `w` to the
      instruction the item NAMES - mnemonic, registers after lookup, immediate = the value of its
      expression evaluated AT THAT OFFSET against the RETURNED tables - and those operands are `legal32`
      (`assemble_instr32_decodes`);
    * if it is a compressed instruction (written `c.*`, or produced by `-c`): two bytes `leBytes 2 w`, the
      same with `decode16` / `intent16` / `legal16`; in particular `w` is not a hint, reserved or illegal
      encoding (`assemble_instr16_decodes`).

  Both theorems cover ALL instruction classes at once: what the item names is `denote32 k args` /
  `denote16 (rowOf c) args` of the item's arguments once its immediate is resolved (`Resolved`);
  `*_r`, `*_i`, `*_s`, `*_u`, `*_ci`, `*_cr` unfold that for the common classes.  Branches and jal, whose
  operand is a label, are in C03End (`assemble_branch_lands`, `assemble_jal_lands`,
  `assemble_compressed_lands`, `assemble_far_pair_lands`), %hi/%lo pairs in C07Program.

  Composition of `C08.instr_item_value` (where the immediate is evaluated), `C01.encode32_sound` /
  `C02.encode16_sound` (one encoder call) and the `Land` machinery of C03End (where the bytes are).
-/
import BB.Props.C10End
namespace BB.Props.C01
open BB BB.Spec BB.Lemmas BB.Props.C03

/-- `ins'` is `ins` with its immediate (if it has one) evaluated at position `p` (the jalr of an auipc
    pair: at the auipc's position, 4 bytes before) -/
def Resolved (H : Hooks) (env : String → Option Int) (line : Line) (p : Int) (ins ins' : Instr) : Prop :=
  (ins.imm? = none ∧ ins' = ins) ∨
  ∃ imm v, ins.imm? = some imm ∧
    Imm.eval H env line imm (if ins.isAuipcJump then p - 4 else p) = .ok v ∧ ins' = ins.setImm (.value v)

theorem Resolved.name {H : Hooks} {env : String → Option Int} {line : Line} {p : Int} {ins ins' : Instr}
    (h : Resolved H env line p ins ins') : ins'.name = ins.name ∧ ins'.isCompressed = ins.isCompressed := by
  rcases h with ⟨_, rfl⟩ | ⟨imm, v, _, _, rfl⟩
  · exact ⟨rfl, rfl⟩
  · exact ⟨by cases ins <;> rfl, setImm_isCompressed ins _⟩

/-- one instruction item, from resolve_immediates to its bytes: the encoder was called on the mnemonic
    and on the arguments of the resolved item, and its word is what is emitted -/
theorem step_instr {H : Hooks} {constants L : Dict} {p : Int} {line line' : Line} {ins : Instr}
    {it' : Item} {bs : List Nat}
    (hbody : immBody H constants (.instr line ins) p L = .ok ([it'], 0))
    (hfin : Finish H it' (.blob line' bs)) :
    ∃ ins' args w, Resolved H (chainGet constants L) line p ins ins' ∧ ins'.args = some args ∧
      encode ins.name args = .ok w ∧ bs = leBytes (if ins.isCompressed then 2 else 4) w := by
  have key : ∃ ins', Resolved H (chainGet constants L) line p ins ins' ∧ it' = .instr line ins' := by
    cases hi : ins.imm? with
    | none =>
      have hk : immBody H constants (.instr line ins) p L = keepItem (.instr line ins) := by
        simp [immBody, hi]
      exact ⟨ins, Or.inl ⟨hi, rfl⟩, C10.keep_body hk hbody⟩
    | some imm =>
      obtain ⟨v, hv, rfl⟩ := C08.instr_item_value H constants L line ins imm p it' hi hbody
      exact ⟨_, Or.inr ⟨imm, v, hi, hv, rfl⟩, rfl⟩
  obtain ⟨ins', hres, rfl⟩ := key
  obtain ⟨hn, hcmp⟩ := hres.name
  obtain ⟨b, d0, e0, f0, h1, _⟩ := id hfin
  obtain ⟨args, w, hargs, henc, hout⟩ := instrStep_bytes h1
  have hz := finish_of_blob hfin (by rw [h1, hout])
  simp only [Item.blob.injEq] at hz
  refine ⟨ins', args, w, hres, hargs, by rw [← hn]; exact henc, ?_⟩
  rw [← hcmp]; exact hz.2

/-- **C01 at program level.**  `lay` is the layout the inputs determine (`C03.Frame`: `lay.aligned` IS
    the list the pipeline holds after resolve_aligns).  Item `i` of it is the 32-bit instruction `ins` (a row `k`
    of the instruction table with 4-byte encoding): the four output bytes at its byte offset are the
    little-endian bytes of a word `w < 2^32` that the specification decodes to the instruction the item
    names - `intent32` of its mnemonic and of `ops`, the operands its resolved arguments denote
    (registers after lookup, the immediate evaluated at the item's offset against the returned tables) -
    and those operands are `legal32`. -/
theorem assemble_instr32_decodes (H : Hooks) (compress : Bool) (items : List Item) (r : AsmResult)
    (h : assembleItems H compress items [] [] = .ok r) :
    ∃ lay out, Frame H compress items r lay out ∧
      ∀ (i : Nat) (hi : i < lay.aligned.length) line ins k, lay.aligned[i] = .instr line ins →
        ins.isCompressed = false → instrTable.lookup ins.name = some k → k.size = 4 →
        ∃ ins' args w ops i32,
          Resolved H (chainGet r.constants r.labels) line ((blobBytes (out.take i)).length : Int) ins ins' ∧
          ins'.args = some args ∧ denote32 k args = some ops ∧ legal32 ins.name ops = true ∧ w < 2 ^ 32 ∧
          (r.bytes.drop (blobBytes (out.take i)).length).take 4 = leBytes 4 w ∧
          intent32 ins.name ops = some i32 ∧ decode32 w = some i32 := by
  obtain ⟨lay, out, hF⟩ := assemble_land H compress items r h
  have hland := hF.land
  have hbytes := hF.bytes
  refine ⟨lay, out, hF, ?_⟩
  intro i hi line ins k hit hnc hk hs
  obtain ⟨it', line', d, _, hbody, hfin, hslice⟩ := hland.at i hi
  rw [hit] at hbody
  obtain ⟨ins', args, w, hres, hargs, henc, hd⟩ := step_instr hbody hfin
  simp only [hnc, Bool.false_eq_true, if_false] at hd
  obtain ⟨ops, hden, hleg, hlt, hsome, hdec⟩ := encode32_sound ins.name k hk hs args w henc
  have hl : d.length = 4 := by rw [hd, leBytes_length]
  cases hint : intent32 ins.name ops with
  | none => simp [hint] at hsome
  | some i32 =>
    refine ⟨ins', args, w, ops, i32, by simpa using hres, hargs, hden, hleg, hlt, ?_, hint, by rw [hdec, hint]⟩
    rw [hbytes]; rw [hl] at hslice; rw [hslice]; exact hd

/-! ### the common 32-bit classes, unfolded -/

/-- R-type (`add sub sll slt sltu xor srl sra or and`, M extension): three registers -/
theorem assemble_decodes_r (H : Hooks) (compress : Bool) (items : List Item) (r : AsmResult)
    (h : assembleItems H compress items [] [] = .ok r) :
    ∃ lay out, Frame H compress items r lay out ∧
      ∀ (i : Nat) (hi : i < lay.aligned.length) line name rd rs1 rs2 op f3 f7,
        lay.aligned[i] = .instr line (.r name rd rs1 rs2) → instrTable.lookup name = some (.r op f3 f7) →
        ∃ w a b c i32, lookupRegister rd = some a ∧ lookupRegister rs1 = some b ∧ lookupRegister rs2 = some c ∧
          legal32 name [.reg a, .reg b, .reg c] = true ∧
          (r.bytes.drop (blobBytes (out.take i)).length).take 4 = leBytes 4 w ∧
          intent32 name [.reg a, .reg b, .reg c] = some i32 ∧ decode32 w = some i32 := by
  obtain ⟨lay, out, hF, hall⟩ := assemble_instr32_decodes H compress items r h
  have hbytes := hF.bytes
  refine ⟨lay, out, hF, ?_⟩
  intro i hi line name rd rs1 rs2 op f3 f7 hit hk
  obtain ⟨ins', args, w, ops, i32, hres, hargs, hden, hleg, _, hsl, hint, hdec⟩ :=
    hall i hi line _ _ hit rfl hk rfl
  rcases hres with ⟨_, rfl⟩ | ⟨imm, v, himm, _, _⟩
  · simp only [Instr.args, Option.some.injEq] at hargs
    subst hargs
    simp only [denote32, denoteReg, bind, Option.bind] at hden
    cases ha : lookupRegister rd with
    | none => simp [ha] at hden
    | some a =>
      cases hb : lookupRegister rs1 with
      | none => simp [ha, hb] at hden
      | some b =>
        cases hc : lookupRegister rs2 with
        | none => simp [ha, hb, hc] at hden
        | some c =>
          simp only [ha, hb, hc, Option.map_some, pure, Option.some.injEq] at hden
          subst hden
          exact ⟨w, a, b, c, i32, rfl, rfl, rfl, hleg, hsl, hint, hdec⟩
  · simp [Instr.imm?] at himm

/-- I-type with an immediate operand (`addi … andi`, loads, `jalr`, CSR): two registers and the value
    of the expression at the item's offset -/
theorem assemble_decodes_i (H : Hooks) (compress : Bool) (items : List Item) (r : AsmResult)
    (h : assembleItems H compress items [] [] = .ok r) :
    ∃ lay out, Frame H compress items r lay out ∧
      ∀ (i : Nat) (hi : i < lay.aligned.length) line name rd rs1 imm k,
        lay.aligned[i] = .instr line (.i name rd rs1 imm false) → instrTable.lookup name = some k →
        (∃ op f3, k = .i op f3 ∨ k = .ij op f3) →
        ∃ w a b v i32, lookupRegister rd = some a ∧ lookupRegister rs1 = some b ∧
          Imm.eval H (chainGet r.constants r.labels) line imm ((blobBytes (out.take i)).length : Int) = .ok v ∧
          legal32 name [.reg a, .reg b, .imm v] = true ∧
          (r.bytes.drop (blobBytes (out.take i)).length).take 4 = leBytes 4 w ∧
          intent32 name [.reg a, .reg b, .imm v] = some i32 ∧ decode32 w = some i32 := by
  obtain ⟨lay, out, hF, hall⟩ := assemble_instr32_decodes H compress items r h
  have hbytes := hF.bytes
  refine ⟨lay, out, hF, ?_⟩
  intro i hi line name rd rs1 imm k hit hk hkind
  have hs : k.size = 4 := by
    obtain ⟨op, f3, hk' | hk'⟩ := hkind <;> subst hk' <;> rfl
  obtain ⟨ins', args, w, ops, i32, hres, hargs, hden, hleg, _, hsl, hint, hdec⟩ :=
    hall i hi line _ k hit rfl hk hs
  rcases hres with ⟨himm, _⟩ | ⟨imm', v, himm, hv, rfl⟩
  · simp [Instr.imm?] at himm
  · simp only [Instr.imm?, Option.some.injEq] at himm
    subst himm
    simp only [Instr.isAuipcJump, Bool.false_eq_true, if_false] at hv
    simp only [Instr.setImm, Instr.args, Option.some.injEq] at hargs
    subst hargs
    have hden' : (do pure [← denoteReg rd, ← denoteReg rs1, Opnd.imm v] : Option (List Opnd)) = some ops := by
      obtain ⟨op, f3, hk' | hk'⟩ := hkind <;> subst hk' <;> exact hden
    simp only [denoteReg, bind, Option.bind] at hden'
    cases ha : lookupRegister rd with
    | none => simp [ha] at hden'
    | some a =>
      cases hb : lookupRegister rs1 with
      | none => simp [ha, hb] at hden'
      | some b =>
        simp only [ha, hb, Option.map_some, pure, Option.some.injEq] at hden'
        subst hden'
        exact ⟨w, a, b, v, i32, rfl, rfl, hv, hleg, hsl, hint, hdec⟩

/-- S-type (`sb sh sw`) -/
theorem assemble_decodes_s (H : Hooks) (compress : Bool) (items : List Item) (r : AsmResult)
    (h : assembleItems H compress items [] [] = .ok r) :
    ∃ lay out, Frame H compress items r lay out ∧
      ∀ (i : Nat) (hi : i < lay.aligned.length) line name rs1 rs2 imm op f3,
        lay.aligned[i] = .instr line (.s name rs1 rs2 imm) → instrTable.lookup name = some (.s op f3) →
        ∃ w a b v i32, lookupRegister rs1 = some a ∧ lookupRegister rs2 = some b ∧
          Imm.eval H (chainGet r.constants r.labels) line imm ((blobBytes (out.take i)).length : Int) = .ok v ∧
          legal32 name [.reg a, .reg b, .imm v] = true ∧
          (r.bytes.drop (blobBytes (out.take i)).length).take 4 = leBytes 4 w ∧
          intent32 name [.reg a, .reg b, .imm v] = some i32 ∧ decode32 w = some i32 := by
  obtain ⟨lay, out, hF, hall⟩ := assemble_instr32_decodes H compress items r h
  have hbytes := hF.bytes
  refine ⟨lay, out, hF, ?_⟩
  intro i hi line name rs1 rs2 imm op f3 hit hk
  obtain ⟨ins', args, w, ops, i32, hres, hargs, hden, hleg, _, hsl, hint, hdec⟩ :=
    hall i hi line _ _ hit rfl hk rfl
  rcases hres with ⟨himm, _⟩ | ⟨imm', v, himm, hv, rfl⟩
  · simp [Instr.imm?] at himm
  · simp only [Instr.imm?, Option.some.injEq] at himm
    subst himm
    simp only [Instr.isAuipcJump, Bool.false_eq_true, if_false] at hv
    simp only [Instr.setImm, Instr.args, Option.some.injEq] at hargs
    subst hargs
    simp only [denote32, denoteReg, bind, Option.bind] at hden
    cases ha : lookupRegister rs1 with
    | none => simp [ha] at hden
    | some a =>
      cases hb : lookupRegister rs2 with
      | none => simp [ha, hb] at hden
      | some b =>
        simp only [ha, hb, Option.map_some, pure, Option.some.injEq] at hden
        subst hden
        exact ⟨w, a, b, v, i32, rfl, rfl, hv, hleg, hsl, hint, hdec⟩

/-- U-type (`lui auipc`) -/
theorem assemble_decodes_u (H : Hooks) (compress : Bool) (items : List Item) (r : AsmResult)
    (h : assembleItems H compress items [] [] = .ok r) :
    ∃ lay out, Frame H compress items r lay out ∧
      ∀ (i : Nat) (hi : i < lay.aligned.length) line name rd imm op,
        lay.aligned[i] = .instr line (.u name rd imm) → instrTable.lookup name = some (.u op) →
        ∃ w a v i32, lookupRegister rd = some a ∧
          Imm.eval H (chainGet r.constants r.labels) line imm ((blobBytes (out.take i)).length : Int) = .ok v ∧
          legal32 name [.reg a, .imm v] = true ∧
          (r.bytes.drop (blobBytes (out.take i)).length).take 4 = leBytes 4 w ∧
          intent32 name [.reg a, .imm v] = some i32 ∧ decode32 w = some i32 := by
  obtain ⟨lay, out, hF, hall⟩ := assemble_instr32_decodes H compress items r h
  have hbytes := hF.bytes
  refine ⟨lay, out, hF, ?_⟩
  intro i hi line name rd imm op hit hk
  obtain ⟨ins', args, w, ops, i32, hres, hargs, hden, hleg, _, hsl, hint, hdec⟩ :=
    hall i hi line _ _ hit rfl hk rfl
  rcases hres with ⟨himm, _⟩ | ⟨imm', v, himm, hv, rfl⟩
  · simp [Instr.imm?] at himm
  · simp only [Instr.imm?, Option.some.injEq] at himm
    subst himm
    simp only [Instr.isAuipcJump, Bool.false_eq_true, if_false] at hv
    simp only [Instr.setImm, Instr.args, Option.some.injEq] at hargs
    subst hargs
    simp only [denote32, denoteReg, bind, Option.bind] at hden
    cases ha : lookupRegister rd with
    | none => simp [ha] at hden
    | some a =>
      simp only [ha, Option.map_some, pure, Option.some.injEq] at hden
      subst hden
      exact ⟨w, a, v, i32, rfl, hv, hleg, hsl, hint, hdec⟩

end BB.Props.C01

namespace BB.Props.C02
open BB BB.Spec BB.Lemmas BB.Props.C03 BB.Props.C01

/-- **C02 at program level.**  `lay` is the layout the inputs determine (`C03.Frame`: `lay.aligned` IS
    the list the pipeline holds after resolve_aligns).  Item `i` of it is the compressed instruction `ins` with
    RVC mnemonic class `c` (hand-written `c.*`, or what `-c` made of a 32-bit instruction): the two output
    bytes at its byte offset are the little-endian bytes of a halfword `w < 2^16` that the specification
    decodes to the RVC instruction the item names - so never to a HINT, a reserved or an illegal
    encoding - and the operands (registers after lookup, the immediate evaluated at the item's offset
    against the returned tables) are `legal16`. -/
theorem assemble_instr16_decodes (H : Hooks) (compress : Bool) (items : List Item) (r : AsmResult)
    (h : assembleItems H compress items [] [] = .ok r) :
    ∃ lay out, Frame H compress items r lay out ∧
      ∀ (i : Nat) (hi : i < lay.aligned.length) line ins c, lay.aligned[i] = .instr line ins →
        ins.isCompressed = true → classOf16 ins.name = some c →
        ∃ ins' args w ops ci,
          Resolved H (chainGet r.constants r.labels) line ((blobBytes (out.take i)).length : Int) ins ins' ∧
          ins'.args = some args ∧ denote16 (rowOf c) args = some ops ∧ legal16 ins.name ops = true ∧ w < 65536 ∧
          (r.bytes.drop (blobBytes (out.take i)).length).take 2 = leBytes 2 w ∧
          intent16 ins.name ops = some ci ∧ decode16 w = some ci ∧ decode16 w ≠ none := by
  obtain ⟨lay, out, hF⟩ := assemble_land H compress items r h
  have hland := hF.land
  have hbytes := hF.bytes
  refine ⟨lay, out, hF, ?_⟩
  intro i hi line ins c hit hcmp hc
  obtain ⟨it', line', d, _, hbody, hfin, hslice⟩ := hland.at i hi
  rw [hit] at hbody
  obtain ⟨ins', args, w, hres, hargs, henc, hd⟩ := step_instr hbody hfin
  simp only [hcmp, if_true] at hd
  obtain ⟨ops, hden, hleg, hlt, hsome, hdec⟩ := encode16_sound ins.name c hc args w henc
  have hl : d.length = 2 := by rw [hd, leBytes_length]
  cases hint : intent16 ins.name ops with
  | none => simp [hint] at hsome
  | some ci =>
    refine ⟨ins', args, w, ops, ci, by simpa using hres, hargs, hden, hleg, hlt, ?_, hint, by rw [hdec, hint],
      enc16_legal henc hc⟩
    rw [hbytes]; rw [hl] at hslice; rw [hslice]; exact hd

/-- CI format (`c.addi c.li c.lui c.slli c.lwsp`): one register and the value of the expression -/
theorem assemble_decodes_ci (H : Hooks) (compress : Bool) (items : List Item) (r : AsmResult)
    (h : assembleItems H compress items [] [] = .ok r) :
    ∃ lay out, Frame H compress items r lay out ∧
      ∀ (i : Nat) (hi : i < lay.aligned.length) line name rd imm c,
        lay.aligned[i] = .instr line (.ci name rd imm) → classOf16 name = some c →
        (∃ op f3 cs, rowOf c = .ci op f3 cs ∨ rowOf c = .ciu op f3 cs ∨ rowOf c = .cil op f3 cs) →
        ∃ w a v ci, lookupRegister rd = some a ∧
          Imm.eval H (chainGet r.constants r.labels) line imm ((blobBytes (out.take i)).length : Int) = .ok v ∧
          legal16 name [.reg a, .imm v] = true ∧
          (r.bytes.drop (blobBytes (out.take i)).length).take 2 = leBytes 2 w ∧
          intent16 name [.reg a, .imm v] = some ci ∧ decode16 w = some ci := by
  obtain ⟨lay, out, hF, hall⟩ := assemble_instr16_decodes H compress items r h
  have hbytes := hF.bytes
  refine ⟨lay, out, hF, ?_⟩
  intro i hi line name rd imm c hit hc hrow
  obtain ⟨ins', args, w, ops, ci, hres, hargs, hden, hleg, _, hsl, hint, hdec, _⟩ :=
    hall i hi line _ c hit rfl hc
  rcases hres with ⟨himm, _⟩ | ⟨imm', v, himm, hv, rfl⟩
  · simp [Instr.imm?] at himm
  · simp only [Instr.imm?, Option.some.injEq] at himm
    subst himm
    simp only [Instr.isAuipcJump, Bool.false_eq_true, if_false] at hv
    simp only [Instr.setImm, Instr.args, Option.some.injEq] at hargs
    subst hargs
    have hden' : (do pure [← denoteReg rd, Opnd.imm v] : Option (List Opnd)) = some ops := by
      obtain ⟨op, f3, cs, hk | hk | hk⟩ := hrow <;> rw [hk] at hden <;> exact hden
    simp only [denoteReg, bind, Option.bind] at hden'
    cases ha : lookupRegister rd with
    | none => simp [ha] at hden'
    | some a =>
      simp only [ha, Option.map_some, pure, Option.some.injEq] at hden'
      subst hden'
      exact ⟨w, a, v, ci, rfl, hv, hleg, hsl, hint, hdec⟩

/-- CR / CA formats (`c.mv c.add`, `c.sub c.xor c.or c.and`): two registers -/
theorem assemble_decodes_cr (H : Hooks) (compress : Bool) (items : List Item) (r : AsmResult)
    (h : assembleItems H compress items [] [] = .ok r) :
    ∃ lay out, Frame H compress items r lay out ∧
      ∀ (i : Nat) (hi : i < lay.aligned.length) line ins name rd rs2 c,
        lay.aligned[i] = .instr line ins → (ins = .cr name rd rs2 ∨ ins = .ca name rd rs2) →
        classOf16 name = some c → (∃ op f g cs, rowOf c = .cr op f cs ∨ rowOf c = .ca op f g cs) →
        ∃ w a b ci, lookupRegister rd = some a ∧ lookupRegister rs2 = some b ∧
          legal16 name [.reg a, .reg b] = true ∧
          (r.bytes.drop (blobBytes (out.take i)).length).take 2 = leBytes 2 w ∧
          intent16 name [.reg a, .reg b] = some ci ∧ decode16 w = some ci := by
  obtain ⟨lay, out, hF, hall⟩ := assemble_instr16_decodes H compress items r h
  have hbytes := hF.bytes
  refine ⟨lay, out, hF, ?_⟩
  intro i hi line ins name rd rs2 c hit hins hc hrow
  have hn : ins.name = name ∧ ins.isCompressed = true ∧ ins.imm? = none ∧ ins.args = some [.r rd, .r rs2] := by
    rcases hins with rfl | rfl <;> exact ⟨rfl, rfl, rfl, rfl⟩
  obtain ⟨hn1, hn2, hn3, hn4⟩ := hn
  obtain ⟨ins', args, w, ops, ci, hres, hargs, hden, hleg, _, hsl, hint, hdec, _⟩ :=
    hall i hi line ins c hit hn2 (by rw [hn1]; exact hc)
  rw [hn1] at hleg hint
  rcases hres with ⟨_, rfl⟩ | ⟨imm', v, himm, _, _⟩
  · rw [hn4] at hargs
    simp only [Option.some.injEq] at hargs
    subst hargs
    have hden' : (do pure [← denoteReg rd, ← denoteReg rs2] : Option (List Opnd)) = some ops := by
      obtain ⟨op, f, g, cs, hk | hk⟩ := hrow <;> rw [hk] at hden <;> exact hden
    simp only [denoteReg, bind, Option.bind] at hden'
    cases ha : lookupRegister rd with
    | none => simp [ha] at hden'
    | some a =>
      cases hb : lookupRegister rs2 with
      | none => simp [ha, hb] at hden'
      | some b =>
        simp only [ha, hb, Option.map_some, pure, Option.some.injEq] at hden'
        subst hden'
        exact ⟨w, a, b, ci, rfl, rfl, hleg, hsl, hint, hdec⟩
  · rw [hn3] at himm; cases himm

/-! ### non-vacuity -/

/-- `sub x8, x8, x9 / addi x5, x6, -3 / c.li x7, 9`: with -c the `sub` becomes `c.sub` -/
def exProg : List Item :=
  [.instr ⟨"m.asm", 1, "sub x8, x8, x9"⟩ (.r "sub" (.str "x8") (.str "x8") (.str "x9")),
   .instr ⟨"m.asm", 2, "addi x5, x6, -3"⟩ (.i "addi" (.str "x5") (.str "x6") (.arith "-3") false),
   .instr ⟨"m.asm", 3, "c.li x7, 9"⟩ (.ci "c.li" (.str "x7") (.arith "9"))]

def bytesOf (r : Except Err AsmResult) : List Nat :=
  match r with
  | .ok a => a.bytes
  | .error _ => []

example : bytesOf (assembleItems (textHooks ⟨[], []⟩) false exProg [] []) =
      leBytes 4 0x40940433 ++ leBytes 4 0xffd30293 ++ leBytes 2 0x43a5 ∧
    decode32 0x40940433 = some (.r .sub 8 8 9) ∧ decode32 0xffd30293 = some (.i .addi 5 6 (-3)) ∧
    decode16 0x43a5 = some (.li 7 9) := by decide +kernel

example : bytesOf (assembleItems (textHooks ⟨[], []⟩) true exProg [] []) =
      leBytes 2 0x8c05 ++ leBytes 4 0xffd30293 ++ leBytes 2 0x43a5 ∧
    decode16 0x8c05 = some (.sub 8 9) := by decide +kernel

/-- a little program: label, the instructions of `exProg`, data, an alignment, a pseudo-instruction -/
def exProg2 : List Item :=
  [.label ⟨"m.asm", 1, "go:"⟩ "go",
   .instr ⟨"m.asm", 2, "sub x8, x8, x9"⟩ (.r "sub" (.str "x8") (.str "x8") (.str "x9")),
   .shorthandPack ⟨"m.asm", 3, "db 1"⟩ "db" (.arith "1"),
   .align ⟨"m.asm", 4, "align 2"⟩ 2,
   .instr ⟨"m.asm", 5, "addi x5, x6, -3"⟩ (.i "addi" (.str "x5") (.str "x6") (.arith "-3") false),
   .instr ⟨"m.asm", 6, "c.li x7, 9"⟩ (.ci "c.li" (.str "x7") (.arith "9")),
   .pseudo ⟨"m.asm", 7, "ret"⟩ "ret" []]

/-- the hypotheses of `assemble_instr32_decodes` / `assemble_instr16_decodes` have instances: the layout
    computed for `exProg2` holds, without -c, the 32-bit `sub` at index 0, the 32-bit `addi` at 3 and
    the hand-written `c.li` at 4; with -c the `sub` has become `c.sub` -/
example :
    (BB.Props.C04.layoutOf (textHooks ⟨[], []⟩) false exProg2).toOption.map
      (fun l => (l.aligned[0]?, l.aligned[3]?, l.aligned[4]?)) = some
      (some (.instr ⟨"m.asm", 2, "sub x8, x8, x9"⟩ (.r "sub" (.str "x8") (.str "x8") (.str "x9"))),
       some (.instr ⟨"m.asm", 5, "addi x5, x6, -3"⟩ (.i "addi" (.str "x5") (.str "x6") (.arith "-3") false)),
       some (.instr ⟨"m.asm", 6, "c.li x7, 9"⟩ (.ci "c.li" (.str "x7") (.arith "9")))) ∧
    (BB.Props.C04.layoutOf (textHooks ⟨[], []⟩) true exProg2).toOption.map
      (fun l => (l.aligned[0]?, l.aligned[3]?, l.aligned[4]?)) = some
      (some (.instr ⟨"m.asm", 2, "sub x8, x8, x9"⟩ (.ca "c.sub" (.str "x8") (.str "x9"))),
       some (.instr ⟨"m.asm", 5, "addi x5, x6, -3"⟩ (.i "addi" (.str "x5") (.str "x6") (.arith "-3") false)),
       some (.instr ⟨"m.asm", 6, "c.li x7, 9"⟩ (.ci "c.li" (.str "x7") (.arith "9")))) ∧
    (bytesOf (assembleItems (textHooks ⟨[], []⟩) false exProg2 [] [])).length = 16 ∧
    (bytesOf (assembleItems (textHooks ⟨[], []⟩) true exProg2 [] [])).length = 12 := by
  decide +kernel

end BB.Props.C02
