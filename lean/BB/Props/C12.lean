/-
  BB.Props.C12 — a program that assembles without compression also assembles with it.

  Proved here (local): a compression decision never turns an accepted instruction into a refused
  one.  If the 32-bit encoder accepts the resolved instruction and the predicates of a matched
  criterion hold of the same (label-free, hence mode-independent) operand values, then the 16-bit
  encoder accepts the resolved compressed form and emits 2 bytes
  (`compress_preserves_success_local`, from C04 `rule_in_range` + C06 `accept16_iff_legal`).
  The program-level statement is kept as `compress_preserves_success_statement` (not proved).
-/
import BB.Props.C04
import BB.Lemmas.Final
namespace BB.Props.C12
open BB BB.Spec BB.Lemmas
open BB.Props.C02 (denote16 rowOf)

/-- the mnemonic a criterion selects is a 32-bit row of INSTRUCTIONS -/
theorem criteria_names_32 {c : String} {preds : List Pred} (hmem : (c, preds) ∈ criteria) {ins : Instr}
    {ev : Imm → Option Int} (hp : ∀ pr ∈ preds, pr.holds ins ev) :
    ∃ k, instrTable.lookup ins.name = some k ∧ k.size = 4 := by
  simp only [criteria, List.mem_cons, Prod.mk.injEq, List.mem_nil_iff, or_false] at hmem
  rcases hmem with ⟨rfl, rfl⟩ | ⟨rfl, rfl⟩ | ⟨rfl, rfl⟩ | ⟨rfl, rfl⟩ | ⟨rfl, rfl⟩ | ⟨rfl, rfl⟩ | ⟨rfl, rfl⟩ |
    ⟨rfl, rfl⟩ | ⟨rfl, rfl⟩ | ⟨rfl, rfl⟩ | ⟨rfl, rfl⟩ | ⟨rfl, rfl⟩ | ⟨rfl, rfl⟩ | ⟨rfl, rfl⟩ | ⟨rfl, rfl⟩ |
    ⟨rfl, rfl⟩ | ⟨rfl, rfl⟩ | ⟨rfl, rfl⟩ | ⟨rfl, rfl⟩ | ⟨rfl, rfl⟩ | ⟨rfl, rfl⟩ | ⟨rfl, rfl⟩ | ⟨rfl, rfl⟩ |
    ⟨rfl, rfl⟩ | ⟨rfl, rfl⟩ | ⟨rfl, rfl⟩ | ⟨rfl, rfl⟩ | ⟨rfl, rfl⟩ | ⟨rfl, rfl⟩
  all_goals (
    have hn := hp _ List.mem_cons_self
    simp only [Pred.holds] at hn
    rw [hn]
    decide)

theorem resolveWith_name {ev : Imm → Option Int} {ins rins : Instr} (h : resolveWith ev ins = some rins) :
    rins.name = ins.name ∧ rins.isCompressed = ins.isCompressed := by
  unfold resolveWith at h
  split at h
  · cases h; exact ⟨rfl, rfl⟩
  · rename_i imm _
    cases hv : ev imm with
    | none => simp [hv] at h
    | some v =>
      simp only [hv, Option.map_some, Option.some.injEq] at h
      subst h
      exact ⟨by cases ins <;> rfl, setImm_isCompressed _ _⟩

/-- an accepted 32-bit encoding names an instruction -/
theorem denotes_of_encodes {line : Line} {rins : Instr} {bs : List Nat} {k : EncKind}
    (hk : instrTable.lookup rins.name = some k) (hs : k.size = 4)
    (h : encodeInstr line rins = .ok bs) : ∃ i, denote32I rins = some i := by
  unfold encodeInstr at h
  cases ha : rins.args with
  | none => simp [ha] at h
  | some args =>
    simp only [ha] at h
    cases he : encode rins.name args with
    | error e => rw [he] at h; cases e <;> simp at h
    | ok w =>
      obtain ⟨i, hi, _⟩ := encode_denotes32 hk hs ha he
      exact ⟨i, hi⟩

/-- **C12, local.**  Under the predicates of a matched criterion, evaluated at the values the final
    encoding uses, a compression decision never turns an accepted instruction into a refused one:
    if `resolve_instructions` accepts the original (resolved) instruction, it accepts the resolved
    compressed form, which is 2 bytes long. -/
theorem compress_preserves_success_local {c : String} {preds : List Pred} (hmem : (c, preds) ∈ criteria)
    {ev : Imm → Option Int} (hlit : LitOK ev) {ins cf rins : Instr} {line : Line} {bs : List Nat}
    (hp : ∀ pr ∈ preds, pr.holds ins ev) (hcf : compressedForm c ins = some cf)
    (hres : resolveWith ev ins = some rins) (hacc : encodeInstr line rins = .ok bs) :
    ∃ rcf bs', resolveWith ev cf = some rcf ∧ encodeInstr line rcf = .ok bs' ∧ bs'.length = 2 := by
  obtain ⟨k, hk, hs⟩ := criteria_names_32 hmem hp
  obtain ⟨hname, _⟩ := resolveWith_name hres
  rw [← hname] at hk
  obtain ⟨i, hden⟩ := denotes_of_encodes hk hs hacc
  obtain ⟨rcf, args, ops, h0, h1, _, _, w, hw⟩ := BB.Props.C04.rule_in_range hmem hlit hp hcf hres hden
  have hcomp : rcf.isCompressed = true := by
    obtain ⟨_, hc⟩ := resolveWith_name h0
    rw [hc]; exact (compressedForm_sizes hcf).2
  refine ⟨rcf, leBytes 2 w, h0, ?_, leBytes_length 2 w⟩
  simp [encodeInstr, h1, hw, hcomp]

/-- the same with the model's own evaluation of the predicates and immediates -/
theorem compress_preserves_success_local_model {c : String} {preds : List Pred} (hmem : (c, preds) ∈ criteria)
    (H : Hooks) (env : String → Option Int) (line : Line) (p : Int) (hlit : LitOK (evalAt H env line p))
    {ins cf rins : Instr} {bs : List Nat}
    (hp : allPreds H env line ins p preds = .ok true) (hcf : compressedForm c ins = some cf)
    (hres : resolveWith (evalAt H env line p) ins = some rins) (hacc : encodeInstr line rins = .ok bs) :
    ∃ rcf bs', resolveWith (evalAt H env line p) cf = some rcf ∧ encodeInstr line rcf = .ok bs' ∧
      bs'.length = 2 :=
  compress_preserves_success_local hmem hlit ((BB.Props.C04.allPreds_true_iff H env line ins p preds).mp hp)
    hcf hres hacc

/-- non-vacuity: `lw a0, 124(a1)` is accepted and so is its compressed form `c.lw a0, a1, 124`;
    one step outside the criterion (`lw a0, 128(a1)`) the 16-bit encoder would refuse — and the
    criterion does not match -/
example : encodeInstr default (.i "lw" (.str "a0") (.str "a1") (.value 124) false) = .ok [0x03, 0xa5, 0xc5, 0x07] ∧
    compressedForm "c.lw" (.i "lw" (.str "a0") (.str "a1") (.value 124) false) = some (.cl "c.lw" (.str "a0") (.str "a1") (.value 124)) ∧
    encodeInstr default (.cl "c.lw" (.str "a0") (.str "a1") (.value 124)) = .ok [0xe8, 0x5d] ∧
    encode "c.lw" [.r (.str "a0"), .r (.str "a1"), .i 128] = .error .value := by decide

/-! ### the program-level statement -/

/-- every `align` argument is 1 or even (so the parity of every position is layout-independent) -/
def EvenAligns (items : List Item) : Prop := ∀ line a, Item.align line a ∈ items → a = 1 ∨ a % 2 = 0

/-- **Tame**: label references occur only as branch / jump / call / tail targets (`%offset`), or in
    contexts total over 32-bit values (`li`, whose width decision must then be `Stable`; `dw`/`dd`
    data) — never in a range-checked instruction immediate -/
def Tame (H : Hooks) (items : List Item) : Prop :=
  BB.Props.C04.Stable H false items ∧ BB.Props.C04.Stable H true items ∧
  ∀ items' constants, resolveConstants H items [] = .ok (items', constants) →
    ∀ it ∈ items',
      match it with
      | .instr _ ins => ∀ imm, ins.imm? = some imm → ImmLabelFree H constants imm ∨ ∃ ref, imm = .offset ref
      | .pack _ fmt imm => ImmLabelFree H constants imm ∨ fmt = "<I" ∨ fmt = "<Q"
      | .shorthandPack _ name imm => ImmLabelFree H constants imm ∨ name = "dw" ∨ name = "dd"
      | _ => True

/-- **C12, program level (STATEMENT ONLY — not proved here).** -/
def compress_preserves_success_statement : Prop :=
  ∀ (H : Hooks) (items : List Item) (r₀ : AsmResult),
    (∀ line p env, LitOK (evalAt H env line p)) →
    Tame H items → EvenAligns items →
    assembleItems H false items [] [] = .ok r₀ → ∃ r₁, assembleItems H true items [] [] = .ok r₁

end BB.Props.C12
