/-
  BB.Props.C11Program — C11, second half, at program level: "writing a constant anywhere an integer or
  a register is accepted produces the same binary as writing its value, or the register it names".

  (12) `imm_congruence` : `assembleItems` depends on the immediates of its items only through what
       `H.arith` returns.  Two item lists that are pointwise the same up to `ItemRel H P`
       (Lemmas/ImmCong: an `Arithmetic` string — bare, under `Position`, under `%hi` / `%lo` — is
       replaced by one with the same value in every environment satisfying `P`; a constant
       DEFINITION only by one with the same value in EVERY environment; a pseudo-instruction's
       operand tokens only when the two expansions are related) give the same `Except Err AsmResult`
       — same bytes, labels, constants, or the same error with the same line — provided every
       environment the passes evaluate in (`chainGet constants L`, `constants` the table
       resolve_constants returns) satisfies `P`.  `imm_congruence_all` : `P := True`.
       `li_rel` : the operand of `li` may be rewritten likewise (its width decision goes through
       evaluation); call / tail / branch pseudo-instructions take a reference, not an expression.
  (13) `const_subst_same_result` : for a program whose resolve_constants gives `K ↦ v`, with
       `P env := env K = some v`.  `arith_subst` : with the real evaluator, an expression text `e`
       that parses to the tree `a` and ANY text `e'` that parses to `a` with `K` replaced by the
       literal of `v` are related — `K + 2` and `16 + 2`, `(16)+2`, `16+ 2`, … (`arith_subst_example`;
       from `subst_transparent`).  The two strings must be plain (`ArithPlain`: ASCII, not a
       character literal, at most `maxExprLen` = 400 characters).  `arith_name_lit` : the bare name
       against a literal.
       NOT covered: rewriting inside a constant DEFINITION that uses another constant (`J = K + 1`
       against `J = 16 + 1`): `ItemRel.constant` relates two definitions only when their expressions
       agree in EVERY environment, because resolve_constants evaluates a definition in the table
       built so far, about which `P` (a property of the FINAL table) says nothing.
       BOUNDS of the evaluator (BB.Expr): `evalArith` answers `.unsupported` for a text longer than
       `maxExprLen` = 400 characters and for `<<` with a count above 4096 (CPython would go on; the
       model does not follow it there).  The congruence theorems compare `Except` values, so they
       hold there too, but an `.unsupported` verdict says nothing about /repo; `arith_subst`,
       `lit_dec_ok` ask for the length bound explicitly, `eval_shl` (C11) for `0 ≤ y ≤ 4096`.
  (14) `alias_same_result` : register operands (shift amounts included) rewritten by any `g` with
       `aliasReg constants (g r) = aliasReg constants r` — e.g. `.str K ↦ .int v` when
       `constants.get K = some v` (`alias_transparent`) — give the same result.
  Counterexample (`branch_target_name_vs_value`): the target operand of a branch is NOT such a
  position — the parser turns a name into `%offset name` (value − position) and keeps a number as the
  literal offset.

  Everything is at the level of `assembleItems` (item lists with the SAME `Line`s).  For `assembleText`
  only `text_congruence`: given the two item lists the front end produces, related up to a renaming of
  the lines (the `contents` of a rewritten source line differs), the results are equal, errors up to
  that renaming.  That the front end produces such lists is a hypothesis (two `frontEnd … = .ok …`
  facts), discharged by evaluation for concrete texts: `text_congruence_example` does it for
  `K = 16 / addi x0, x0, K + 2` against `K = 16 / addi x0, x0, 16 + 2`, both modes.
-/
import BB.Lemmas.ImmCongPasses
import BB.Props.C11Subst
import BB.Read
import BB.Lemmas.ReadParse
import BB.Lemmas.ReadPasses
namespace BB.Props.C11
open BB BB.Lemmas

/-! ### (12) -/

/-- **imm_congruence.** -/
theorem imm_congruence (H : Hooks) (P : Env → Prop) (compress : Bool) {items items' : List Item} (cs ls : Dict)
    (h : Rel2 (ItemRel H P) items items')
    (hP : ∀ out constants, resolveConstants H items cs = .ok (out, constants) → ∀ L, P (chainGet constants L)) :
    assembleItems H compress items cs ls = assembleItems H compress items' cs ls :=
  assemble_congr H P compress cs ls h hP

/-- the same when the rewritten expressions agree in every environment -/
theorem imm_congruence_all (H : Hooks) (compress : Bool) {items items' : List Item} (cs ls : Dict)
    (h : Rel2 (ItemRel H (fun _ => True)) items items') :
    assembleItems H compress items cs ls = assembleItems H compress items' cs ls :=
  assemble_congr H _ compress cs ls h (fun _ _ _ _ => trivial)

/-- the operand of `li`: two token lists that parse to related immediates -/
theorem li_rel {H : Hooks} {P : Env → Prop} (line : Line) (rd : String) {toks toks' : List String} {imm imm' : Imm}
    (h1 : H.parseImm toks line = .ok imm) (h2 : H.parseImm toks' line = .ok imm') (hr : ImmRel H P imm imm') :
    ItemRel H P (.pseudo line "li" (rd :: toks)) (.pseudo line "li" (rd :: toks')) := by
  refine .pseudo line "li" _ _ ?_
  intro env p hP
  have hk : pseudoKind "li" = some .li := by decide
  simp only [expandPseudo, hk, expandKind, h1, h2, bind, Except.bind, ← hr.eval env hP line p]
  cases imm.eval H env line p with
  | error e => rfl
  | ok v =>
    simp only [pure, Except.pure]
    split
    · refine ⟨.cons (Or.inr ⟨.lo imm, .lo imm', rfl, .lo hr, rfl⟩) .nil, rfl⟩
    · refine ⟨.cons (Or.inr ⟨.hi imm, .hi imm', rfl, .hi hr, rfl⟩)
        (.cons (Or.inr ⟨.lo imm, .lo imm', rfl, .lo hr, rfl⟩) .nil), rfl⟩

/-- **the same for two source texts**, given what the front end makes of them: if the item list of the
    second text is, up to a renaming `f` of the lines (the `contents` field of a rewritten line differs),
    related to that of the first, then `assembleText` gives the same result, or the same error with
    the line renamed. -/
theorem text_congruence (fs : FS) (cwd : String) (dirs : List String) (compress : Bool) (input input' : Input)
    {items items' : List Item} (f : Line → Line) (P : Env → Prop)
    (h0 : frontEnd fs cwd dirs input = .ok items) (h1 : frontEnd fs cwd dirs input' = .ok items')
    (hrel : Rel2 (ItemRel (textHooks fs) P) (items.map (Item.mapLine f)) items')
    (hP : ∀ out constants, resolveConstants (textHooks fs) (items.map (Item.mapLine f)) [] = .ok (out, constants) →
      ∀ L, P (chainGet constants L)) :
    assembleText fs cwd dirs compress input' = mapErrLine f (assembleText fs cwd dirs compress input) := by
  simp only [assembleText, h0, h1, bind, Except.bind]
  rw [← assembleItems_mapLine (textHooks fs) f (textHooks_natural fs f)]
  exact (imm_congruence (textHooks fs) P compress [] [] hrel hP).symm

/-! ### (13) -/

/-- **const_subst_same_result.**  `K` has the value `v` in the constants table; immediates may be
    rewritten by anything of the same value wherever `K` is `v`. -/
theorem const_subst_same_result (H : Hooks) (compress : Bool) {items items' : List Item} (cs ls : Dict) (K : String) (v : Int)
    (hdef : ∀ out constants, resolveConstants H items cs = .ok (out, constants) → constants.get K = some v)
    (h : Rel2 (ItemRel H (fun env => env K = some v)) items items') :
    assembleItems H compress items cs ls = assembleItems H compress items' cs ls := by
  refine assemble_congr H _ compress cs ls h ?_
  intro out constants hc L
  simp only [chainGet, hdef out constants hc]

/-- an expression string the length / character-literal / ASCII guards of `Arithmetic.eval` let through -/
def ArithPlain (l : List Char) : Prop :=
  l.all isAsciiC = true ∧ ¬ (l.head? = some '\'' ∧ l.getLast? = some '\'') ∧ l.length ≤ maxExprLen

theorem evalArithL_plain {l : List Char} (h : ArithPlain l) (env : String → Option Int) : evalArithL l env = evalPy l env := by
  obtain ⟨h1, h2, h3⟩ := h
  unfold evalArithL
  simp only [h1, not_true_eq_false, if_false, h2, Nat.not_lt.mpr h3]

/-- **substituting inside an expression.**  `e` parses to the tree `a`; `e'` is ANY text that parses
    to `a` with `K` replaced by the literal of `v` (`Ast.subst`: the numeral, or `-` applied to the
    numeral for a negative `v`) — however it is spaced or parenthesised.  Then the two strings are
    related: same value, or the same failure, in every environment with `K ↦ v`.
    Bounds: both texts `ArithPlain` (ASCII, not a character literal, at most `maxExprLen` = 400
    characters — beyond that the model's evaluator answers `.unsupported`). -/
theorem arith_subst (fs : FS) (K : String) (v : Int) {e e' : String} {toks toks' : List Tok} {a : Ast}
    (hp : ArithPlain e.toList) (hp' : ArithPlain e'.toList)
    (ht : tokenize e.toList = .ok toks) (ha : parseExpr toks = .ok a)
    (ht' : tokenize e'.toList = .ok toks') (ha' : parseExpr toks' = .ok (Ast.subst K v a)) :
    ImmRel (textHooks fs) (fun env => env K = some v) (.arith e) (.arith e') := by
  refine .arith e e' ?_
  intro env hK
  show evalArith e env = evalArith e' env
  unfold evalArith
  rw [evalArithL_plain hp, evalArithL_plain hp']
  unfold evalPy
  rw [ht, ht']
  simp only [ha, ha']
  exact (subst_transparent env K v hK a).symm

/-- the former formulation as a special case: `e'` tokenizes to the (fully parenthesised) rendering
    of the substituted tree -/
theorem arith_subst_render (fs : FS) (K : String) (v : Int) {e e' : String} {toks : List Tok} {a : Ast}
    (hp : ArithPlain e.toList) (hp' : ArithPlain e'.toList)
    (ht : tokenize e.toList = .ok toks) (ha : parseExpr toks = .ok a)
    (ht' : tokenize e'.toList = .ok (renderAst (Ast.subst K v a))) :
    ImmRel (textHooks fs) (fun env => env K = some v) (.arith e) (.arith e') :=
  arith_subst fs K v hp hp' ht ha ht' (parse_render _)

/-- the bare name against any spelling of its value -/
theorem arith_name_lit (fs : FS) (K lit : String) (v : Int)
    (hK : ∀ env : String → Option Int, env K = some v → evalArith K env = .ok v)
    (hlit : ∀ env : String → Option Int, evalArith lit env = .ok v) :
    ImmRel (textHooks fs) (fun env => env K = some v) (.arith K) (.arith lit) :=
  .arith K lit (fun env h => by show evalArith K env = evalArith lit env; rw [hK env h, hlit env])

/-- the decimal numeral of a natural number is such a spelling -/
theorem lit_dec_ok (n : Nat) (hlen : (decStr n).length ≤ maxExprLen) (env : String → Option Int) :
    evalArith (String.ofList (decStr n)) env = .ok (n : Int) := by
  unfold evalArith
  rw [String.toList_ofList]
  exact lit_arith env (decStr n) n (Or.inl rfl) hlen

/-! ### (14) -/

/-- the same item up to register operands that `resolve_register_aliases` identifies whenever the
    constants table satisfies `Q` -/
def RegRel (Q : Dict → Prop) (a b : Item) : Prop :=
  a = b ∨ ∃ line x y, a = .instr line x ∧ b = .instr line y ∧ x.isCompressed = y.isCompressed ∧
    ∀ C, Q C → x.mapRegs (aliasReg C) = y.mapRegs (aliasReg C)

theorem mapRegs_comp (f g : RegOp → RegOp) (x : Instr) : (x.mapRegs g).mapRegs f = x.mapRegs (f ∘ g) := by
  cases x <;> rfl

/-- rewriting register operands by `g` -/
theorem regRel_mapRegs {Q : Dict → Prop} (line : Line) (x : Instr) (g : RegOp → RegOp)
    (hg : ∀ C, Q C → ∀ r, aliasReg C (g r) = aliasReg C r) : RegRel Q (.instr line x) (.instr line (x.mapRegs g)) := by
  refine Or.inr ⟨line, x, _, rfl, rfl, (mapRegs_isCompressed g x).symm, ?_⟩
  intro C hC
  rw [mapRegs_comp]
  congr 1
  funext r
  exact (hg C hC r).symm

/-- `.str K ↦ .int v` is such a `g` when the table has `K ↦ v` -/
theorem alias_const_ok (K : String) (v : Int) (C : Dict) (hC : C.get K = some v) (r : RegOp) :
    aliasReg C (if r = .str K then .int v else r) = aliasReg C r := by
  by_cases h : r = .str K
  · subst h; simp [aliasReg, hC]
  · simp [h]

section
variable {Q : Dict → Prop}

theorem RegRel.sizeE {a b : Item} (h : RegRel Q a b) : b.sizeE = a.sizeE := by
  rcases h with rfl | ⟨line, x, y, rfl, rfl, hc, _⟩
  · rfl
  · simp only [Item.sizeE, Item.size?, Instr.size, hc]

theorem RegRel.not_constant {a b : Item} (h : RegRel Q a b) :
    (∀ l n e, a ≠ .constant l n e) ↔ (∀ l n e, b ≠ .constant l n e) := by
  rcases h with rfl | ⟨line, x, y, rfl, rfl, _, _⟩
  · exact Iff.rfl
  · exact ⟨(fun _ l n e h => by cases h), (fun _ l n e h => by cases h)⟩

theorem resolveConstants_regrel (H : Hooks) {items items' : List Item} (h : Rel2 (RegRel Q) items items') :
    ∀ c, ExRel (fun r r' => Rel2 (RegRel Q) r.1 r'.1 ∧ r.2 = r'.2) (resolveConstants H items c) (resolveConstants H items' c) := by
  induction h with
  | nil => intro c; exact ⟨.nil, rfl⟩
  | @cons a b l l' hab _ ih =>
    intro c
    by_cases hc : ∃ line name e, a = .constant line name e
    · obtain ⟨line, name, e, rfl⟩ := hc
      have : b = .constant line name e := by
        rcases hab with h | ⟨_, _, _, h, _⟩
        · exact h.symm
        · cases h
      subst this
      simp only [resolveConstants]
      cases e with
      | arith s =>
        simp only
        split
        · rfl
        · split
          · rfl
          · simp only [bind, Except.bind]
            split
            · rfl
            · exact ih _
      | _ => rfl
    · have ha : ∀ l n e, a ≠ .constant l n e := fun l n e h => hc ⟨l, n, e, h⟩
      rw [icResolveConstants_cons ha, icResolveConstants_cons (hab.not_constant.mp ha)]
      refine ExRel.bind (ih c) ?_
      rintro ⟨o, c1⟩ ⟨o', c1'⟩ ⟨h1, h2⟩
      exact ⟨.cons hab h1, h2⟩

theorem resolveLabelsAux_regrel {items items' : List Item} (h : Rel2 (RegRel Q) items items') :
    ∀ p L d, ExRel (fun r r' => Rel2 (RegRel Q) r.1 r'.1 ∧ r.2 = r'.2) (resolveLabelsAux items p L d) (resolveLabelsAux items' p L d) := by
  induction h with
  | nil => intro p L d; exact ⟨.nil, rfl⟩
  | @cons a b l l' hab _ ih =>
    intro p L d
    by_cases hl : ∃ ln n, a = .label ln n
    · obtain ⟨ln, n, rfl⟩ := hl
      have : b = .label ln n := by
        rcases hab with h | ⟨_, _, _, h, _⟩
        · exact h.symm
        · cases h
      subst this
      simp only [resolveLabelsAux]
      split
      · rfl
      · exact ih _ _ _
    · have hnl : ∀ ln n, a ≠ .label ln n := fun ln n e => hl ⟨ln, n, e⟩
      have hnl' : ∀ ln n, b ≠ .label ln n := by
        intro ln n e; subst e
        rcases hab with h | ⟨_, _, _, _, h, _⟩
        · exact hnl ln n h
        · cases h
      rw [icResolveLabelsAux_cons hnl, icResolveLabelsAux_cons hnl', hab.sizeE]
      refine ExRel.bind (R := Eq) (ExRel.of_eq rfl) ?_
      rintro sz _ rfl
      refine ExRel.bind (ih (p + sz) L d) ?_
      rintro ⟨o, l1⟩ ⟨o', l1'⟩ ⟨h1, h2⟩
      exact ⟨.cons hab h1, h2⟩

theorem aliases_regrel {C : Dict} (hC : Q C) {items items' : List Item} (h : Rel2 (RegRel Q) items items') :
    resolveRegisterAliases items C = resolveRegisterAliases items' C := by
  induction h with
  | nil => rfl
  | @cons a b l l' hab _ ih =>
    simp only [resolveRegisterAliases, List.map_cons] at ih ⊢
    rw [ih]
    congr 1
    rcases hab with rfl | ⟨line, x, y, rfl, rfl, _, hxy⟩
    · rfl
    · simp only [hxy C hC]

end

/-- **alias_same_result.** -/
theorem alias_same_result (H : Hooks) (Q : Dict → Prop) (compress : Bool) {items items' : List Item} (cs ls : Dict)
    (h : Rel2 (RegRel Q) items items')
    (hQ : ∀ out constants, resolveConstants H items cs = .ok (out, constants) → Q constants) :
    assembleItems H compress items cs ls = assembleItems H compress items' cs ls := by
  unfold assembleItems
  have h1 := resolveConstants_regrel H h cs
  cases e1 : resolveConstants H items cs with
  | error e =>
    rw [e1] at h1
    cases e1' : resolveConstants H items' cs with
    | error e' => rw [e1'] at h1; simp only [ExRel] at h1; subst h1; rfl
    | ok r => rw [e1'] at h1; simp only [ExRel] at h1
  | ok r1 =>
    obtain ⟨i1, constants⟩ := r1
    rw [e1] at h1
    cases e1' : resolveConstants H items' cs with
    | error e' => rw [e1'] at h1; simp only [ExRel] at h1
    | ok r1' =>
      obtain ⟨i1', constants'⟩ := r1'
      rw [e1'] at h1
      obtain ⟨r1, hc⟩ := h1
      simp only at r1 hc
      subst hc
      have hQc := hQ i1 constants e1
      simp only [bind, Except.bind]
      have h2 := resolveLabelsAux_regrel r1 0 ls []
      unfold resolveLabels
      cases e2 : resolveLabelsAux i1 0 ls [] with
      | error e =>
        rw [e2] at h2
        cases e2' : resolveLabelsAux i1' 0 ls [] with
        | error e' => rw [e2'] at h2; simp only [ExRel] at h2; subst h2; rfl
        | ok r => rw [e2'] at h2; simp only [ExRel] at h2
      | ok r2 =>
        obtain ⟨i2, l2⟩ := r2
        rw [e2] at h2
        cases e2' : resolveLabelsAux i1' 0 ls [] with
        | error e' => rw [e2'] at h2; simp only [ExRel] at h2
        | ok r2' =>
          obtain ⟨i2', l2'⟩ := r2'
          rw [e2'] at h2
          obtain ⟨r2, hl⟩ := h2
          simp only at r2 hl
          subst hl
          simp only [aliases_regrel hQc r2]

/-! ### non-vacuity (the hooks of the text front end on an empty file system) -/

def fs0 : FS := ⟨[], ["/"]⟩
def l (n : Nat) (s : String) : Line := ⟨"<string>", n, s⟩

/-- `K = 16 ; addi x0, x0, K ; dw K ; li a0, K` as the front end parses it (line texts kept fixed) -/
def progK : List Item :=
  [.constant (l 1 "K = 16") "K" (.arith "16"),
   .instr (l 2 "addi") (.i "addi" (.str "x0") (.str "x0") (.arith "K") false),
   .shorthandPack (l 3 "dw") "dw" (.arith "K"),
   .pseudo (l 4 "li") "li" ["a0", "K"]]

/-- the same with `16` written for `K` -/
def progV : List Item :=
  [.constant (l 1 "K = 16") "K" (.arith "16"),
   .instr (l 2 "addi") (.i "addi" (.str "x0") (.str "x0") (.arith "16") false),
   .shorthandPack (l 3 "dw") "dw" (.arith "16"),
   .pseudo (l 4 "li") "li" ["a0", "16"]]

theorem k16 : ImmRel (textHooks fs0) (fun env => env "K" = some 16) (.arith "K") (.arith "16") :=
  arith_name_lit fs0 "K" "16" 16
    (fun env h => by
      have : evalArith "K" env = match env "K" with | some v => .ok v | none => .error .error := rfl
      rw [this, h])
    (fun _ => rfl)

theorem progK_progV : Rel2 (ItemRel (textHooks fs0) (fun env => env "K" = some 16)) progK progV :=
  .cons (.refl _) (.cons (.instr _ (Or.inr ⟨_, _, rfl, k16, rfl⟩)) (.cons (.shorthand _ _ k16)
    (.cons (li_rel _ "a0" (toks := ["K"]) (toks' := ["16"]) rfl rfl k16) .nil)))

/-- (13) applies: the two programs give the same result, with or without `-c` … -/
theorem progK_same (c : Bool) : assembleItems (textHooks fs0) c progK [] [] = assembleItems (textHooks fs0) c progV [] [] := by
  refine const_subst_same_result (textHooks fs0) c [] [] "K" 16 ?_ progK_progV
  intro out constants h
  have : resolveConstants (textHooks fs0) progK [] = .ok (progK.tail, [("K", 16)]) := by decide +kernel
  rw [this] at h
  cases h
  rfl

/-- … which is these twelve bytes -/
example : assembleItems (textHooks fs0) false progV [] [] =
    .ok { bytes := [19, 0, 0, 1, 16, 0, 0, 0, 19, 5, 0, 1], labels := [], constants := [("K", 16)] } := by decide +kernel

/-- `K = 5 ; addi K, x0, 1 ; slli a0, a0, K` against `addi 5, x0, 1 ; slli a0, a0, 5` -/
def progR : List Item :=
  [.constant (l 1 "K = 5") "K" (.arith "5"),
   .instr (l 2 "addi") (.i "addi" (.str "K") (.str "x0") (.arith "1") false),
   .instr (l 3 "slli") (.r "slli" (.str "a0") (.str "a0") (.str "K"))]

def progR' : List Item :=
  [.constant (l 1 "K = 5") "K" (.arith "5"),
   .instr (l 2 "addi") (.i "addi" (.int 5) (.str "x0") (.arith "1") false),
   .instr (l 3 "slli") (.r "slli" (.str "a0") (.str "a0") (.int 5))]

/-- (14) applies -/
theorem progR_same (c : Bool) : assembleItems (textHooks fs0) c progR [] [] = assembleItems (textHooks fs0) c progR' [] [] := by
  refine alias_same_result (textHooks fs0) (fun C => C.get "K" = some 5) c [] [] ?_ ?_
  · refine .cons (Or.inl rfl) (.cons ?_ (.cons ?_ .nil))
    · exact regRel_mapRegs _ _ (fun r => if r = .str "K" then .int 5 else r) (fun C hC r => alias_const_ok "K" 5 C hC r)
    · exact regRel_mapRegs _ _ (fun r => if r = .str "K" then .int 5 else r) (fun C hC r => alias_const_ok "K" 5 C hC r)
  · intro out constants h
    have : resolveConstants (textHooks fs0) progR [] = .ok (progR.tail, [("K", 5)]) := by decide +kernel
    rw [this] at h
    cases h
    rfl

example : assembleItems (textHooks fs0) false progR' [] [] =
    .ok { bytes := [147, 2, 16, 0, 19, 21, 85, 0], labels := [], constants := [("K", 5)] } := by decide +kernel

/-! ### instances on ordinary text -/

/-- `arith_subst` on ordinary text: `K + 2` against `16 + 2` (K = 16) … -/
theorem arith_subst_example :
    ImmRel (textHooks fs0) (fun env => env "K" = some 16) (.arith "K + 2") (.arith "16 + 2") :=
  arith_subst fs0 "K" 16 (e := "K + 2") (e' := "16 + 2")
    (toks := [.name "K", .plus, .num 2]) (toks' := [.num 16, .plus, .num 2])
    (a := .binary .add (.name "K") (.lit 2))
    ⟨by decide +kernel, by decide +kernel, by decide +kernel⟩ ⟨by decide +kernel, by decide +kernel, by decide +kernel⟩
    (by decide +kernel) (by decide +kernel) (by decide +kernel) (by decide +kernel)

/-- … and with a negative value and other spacing: `4 * K` against `4*-3` (K = -3) -/
example : ImmRel (textHooks fs0) (fun env => env "K" = some (-3)) (.arith "4 * K") (.arith "4*-3") :=
  arith_subst fs0 "K" (-3) (e := "4 * K") (e' := "4*-3")
    (toks := [.num 4, .star, .name "K"]) (toks' := [.num 4, .star, .minus, .num 3])
    (a := .binary .mul (.lit 4) (.name "K"))
    ⟨by decide +kernel, by decide +kernel, by decide +kernel⟩ ⟨by decide +kernel, by decide +kernel, by decide +kernel⟩
    (by decide +kernel) (by decide +kernel) (by decide +kernel) (by decide +kernel)

def textK : String := "K = 16\naddi x0, x0, K + 2\n"
def textV : String := "K = 16\naddi x0, x0, 16 + 2\n"
def lineK : Line := ⟨"<string>", 2, "addi x0, x0, K + 2"⟩
def lineV : Line := ⟨"<string>", 2, "addi x0, x0, 16 + 2"⟩
def itemsK : List Item :=
  [.constant (l 1 "K = 16") "K" (.arith "16"),
   .instr lineK (.i "addi" (.str "x0") (.str "x0") (.arith "K + 2") false)]
def itemsV : List Item :=
  [.constant (l 1 "K = 16") "K" (.arith "16"),
   .instr lineV (.i "addi" (.str "x0") (.str "x0") (.arith "16 + 2") false)]

theorem frontEnd_textK : frontEnd fs0 "/" [] (.source textK) = .ok itemsK := by
  unfold frontEnd
  have h0 : normAbs "/" = true := by decide
  have h1 : sourceOk textK.toList = true := by decide
  have hs : splitLines textK.toList = ["K = 16".toList, "addi x0, x0, K + 2".toList] := by decide
  simp only [h0, List.all_nil, h1, readLinesAux.eq_2, hs]
  simp only [readLinesAux.go.eq_2, readLinesAux.go.eq_1]
  decide +kernel

theorem frontEnd_textV : frontEnd fs0 "/" [] (.source textV) = .ok itemsV := by
  unfold frontEnd
  have h0 : normAbs "/" = true := by decide
  have h1 : sourceOk textV.toList = true := by decide
  have hs : splitLines textV.toList = ["K = 16".toList, "addi x0, x0, 16 + 2".toList] := by decide
  simp only [h0, List.all_nil, h1, readLinesAux.eq_2, hs]
  simp only [readLinesAux.go.eq_2, readLinesAux.go.eq_1]
  decide +kernel

/-- **`text_congruence` has an instance**: the two source TEXTS `K = 16 / addi x0, x0, K + 2` and
    `K = 16 / addi x0, x0, 16 + 2` go through the whole of `assembleText` to the same result, with
    and without `-c` (errors would agree up to the renaming of line 2, whose text differs) … -/
theorem text_congruence_example (c : Bool) :
    assembleText fs0 "/" [] c (.source textV) =
      mapErrLine (fun ln => if ln = lineK then lineV else ln) (assembleText fs0 "/" [] c (.source textK)) := by
  have e : itemsK.map (Item.mapLine (fun ln => if ln = lineK then lineV else ln)) =
      [.constant (l 1 "K = 16") "K" (.arith "16"),
       .instr lineV (.i "addi" (.str "x0") (.str "x0") (.arith "K + 2") false)] := by decide +kernel
  refine text_congruence fs0 "/" [] c (.source textK) (.source textV) _ (fun env => env "K" = some 16)
    frontEnd_textK frontEnd_textV ?_ ?_
  · rw [e]
    exact .cons (.refl _) (.cons (.instr _ (Or.inr ⟨_, _, rfl, arith_subst_example, rfl⟩)) .nil)
  · intro out constants h L
    rw [e] at h
    have : resolveConstants (textHooks fs0)
        [.constant (l 1 "K = 16") "K" (.arith "16"),
         .instr lineV (.i "addi" (.str "x0") (.str "x0") (.arith "K + 2") false)] [] =
        .ok ([.instr lineV (.i "addi" (.str "x0") (.str "x0") (.arith "K + 2") false)], [("K", 16)]) := by
      decide +kernel
    rw [this] at h
    cases h
    rfl

/-- … namely `addi x0, x0, 18` -/
example : assembleText fs0 "/" [] false (.source textV) =
    .ok { bytes := [19, 0, 32, 1], labels := [], constants := [("K", 16)] } := by
  simp only [assembleText, frontEnd_textV, bind, Except.bind]
  decide +kernel

/-! ### where a name and its value do NOT give the same binary -/

/-- `K = 16 ; addi x0, x0, 0 ; beq x0, x0, K` as parsed: the NAME `K` is a reference, `%offset K` -/
def progBK : List Item :=
  [.constant (l 1 "K = 16") "K" (.arith "16"),
   .instr (l 2 "addi") (.i "addi" (.str "x0") (.str "x0") (.arith "0") false),
   .instr (l 3 "beq") (.b "beq" (.str "x0") (.str "x0") (.offset "K"))]

/-- … `beq x0, x0, 16` as parsed: the NUMBER is the literal offset -/
def progBV : List Item :=
  [.constant (l 1 "K = 16") "K" (.arith "16"),
   .instr (l 2 "addi") (.i "addi" (.str "x0") (.str "x0") (.arith "0") false),
   .instr (l 3 "beq") (.b "beq" (.str "x0") (.str "x0") (.arith "16"))]

/-- the parser's rule (asm.py, parse_item): a branch / jump target that is an integer literal stays, any
    other token becomes `%offset <token>` -/
example : parseImmediate ["%offset", "K"] (l 3 "beq") = .ok (.offset "K") ∧ parseImmediate ["16"] (l 3 "beq") = .ok (.arith "16") := by
  decide +kernel

/-- **counterexample**: the branch at 4 to the constant K = 16 jumps 12 bytes (`value − position`), the
    branch to the number 16 jumps 16 bytes -/
theorem branch_target_name_vs_value :
    assembleItems (textHooks fs0) false progBK [] [] =
      .ok { bytes := [19, 0, 0, 0, 99, 6, 0, 0], labels := [], constants := [("K", 16)] } ∧
    assembleItems (textHooks fs0) false progBV [] [] =
      .ok { bytes := [19, 0, 0, 0, 99, 8, 0, 0], labels := [], constants := [("K", 16)] } := by decide +kernel

end BB.Props.C11
