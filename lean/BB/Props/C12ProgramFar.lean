/-
  BB.Props.C12ProgramFar — the case `compress_preserves_success_program2` (Props/C12Program2) was proved for,
  on a concrete program: a `call` that is FAR without `-c` and NEAR with it.

      call F ; addi a0, a0, M ×3 ; include_bytes big (1048560 bytes) ; F: ; ret

  Without `-c` the label is 1048580 bytes after the call (out of `jal` range: auipc + jalr, 1048584 bytes);
  with `-c` the three `addi` become `c.addi`, the label is 1048574 bytes away when the call is expanded,
  the call becomes one `jal`, and the label ends 1048570 bytes after it (1048572 bytes).  `NearRefs progFar`
  is false, so `compress_preserves_success_program` does not apply; `compress_preserves_success_program2` does.
  The real assembler produces the same two outputs (1048584 / 1048572 bytes, same first and last words).

  The two closed evaluations go through the kernel (`decide +kernel`, about 2.5 min each; no axioms).
-/
import BB.Props.C12Program2
namespace BB.Props.C12
open BB BB.Spec BB.Lemmas
open BB.Props.C20 (GrowHyps)
open BB.Props.C05 (immTokens)

/-- the hooks of `Hp`, with a file of 1048560 zero bytes -/
def Hf : Hooks := { Hp with readFile := fun _ => some (List.replicate 1048560 0) }

def progFar : List Item :=
  [.pseudo (lp 1) "call" ["F"],
   .instr (lp 2) (.i "addi" (.str "a0") (.str "a0") (.arith "M") false),
   .instr (lp 3) (.i "addi" (.str "a0") (.str "a0") (.arith "M") false),
   .instr (lp 4) (.i "addi" (.str "a0") (.str "a0") (.arith "M") false),
   .includeBytes (lp 5) "big" 1048560,
   .label (lp 6) "F",
   .pseudo (lp 7) "ret" []]

theorem progFar_consts : resolveConstants Hf progFar [] = .ok (progFar, []) := by decide

theorem hf_litOK (line : Line) (p : Int) (env : String → Option Int) : LitOK (evalAt Hf env line p) :=
  hp_litOK line p env

theorem hf_offset : OffsetHook Hf := hp_offset

theorem progFar_grow : GrowHyps Hf progFar := by
  refine ⟨by unfold NonNeg; decide, ?_, by decide, ?_, ?_, hf_offset⟩
  · intro line a hm
    simp [progFar] at hm
  · intro items1 constants h line name args hm hk
    simp [progFar] at hm
    rcases hm with ⟨_, rfl, _⟩ | ⟨_, rfl, _⟩ <;> exact absurd hk (by decide)
  · intro items1 constants h line name args ref hm hk ha
    rw [progFar_consts] at h
    cases h
    rfl

theorem progFar_hyps : C12Hyps Hf progFar := by
  refine ⟨progFar_grow, hf_litOK, fun _ => rfl, ?_⟩
  intro items1 constants h x hx
  rw [progFar_consts] at h
  cases h
  have hnames : labelNames progFar = ["F"] := by decide
  rw [hnames]
  simp only [progFar, List.mem_cons, List.mem_nil_iff, or_false] at hx
  have haddi : ∀ l, SrcOK Hf [] ["F"] (.instr l (.i "addi" (.str "a0") (.str "a0") (.arith "M") false)) := by
    intro l
    refine ⟨by decide, rfl, Or.inl ?_⟩
    intro imm hi
    simp only [Instr.imm?, Option.some.injEq] at hi
    subst hi
    exact fun _ _ _ _ _ => rfl
  rcases hx with rfl | rfl | rfl | rfl | rfl | rfl | rfl
  · intro k r hk hkli ht
    have e : k = .call := by
      have : pseudoKind "call" = some .call := by decide
      rw [this] at hk; exact (Option.some.inj hk).symm
    subst e
    simp only [immTokens, Option.some.injEq, List.cons.injEq, and_true, true_and] at ht
    subst ht
    exact ⟨by decide, rfl⟩
  · exact haddi _
  · exact haddi _
  · exact haddi _
  · trivial
  · trivial
  · intro k r hk hkli ht
    have e : k = .ret := by
      have : pseudoKind "ret" = some .ret := by decide
      rw [this] at hk; exact (Option.some.inj hk).symm
    subst e
    simp [immTokens] at ht

theorem progFar_alignFree : AlignFreeTransfers progFar := by
  refine alignFree_of_prefix (pre := []) (rest := progFar) rfl ?_ ?_ ?_
  · intro l a h
    simp [progFar] at h
  · intro l n h
    simp at h
  · intro x hx
    simp at hx

/-- the span hypothesis of `compress_preserves_success_program` FAILS here: from the call to `F` the
    pessimistic stretch is 8 + 12 + 1048560 bytes -/
theorem progFar_not_near : ¬ NearRefs progFar := by
  intro h
  have := (h [] [.instr (lp 2) (.i "addi" (.str "a0") (.str "a0") (.arith "M") false),
      .instr (lp 3) (.i "addi" (.str "a0") (.str "a0") (.arith "M") false),
      .instr (lp 4) (.i "addi" (.str "a0") (.str "a0") (.arith "M") false),
      .includeBytes (lp 5) "big" 1048560] [.pseudo (lp 7) "ret" []] (.pseudo (lp 1) "call" ["F"]) (lp 6) "F"
    (Or.inr ⟨_, _, _, rfl, rfl, .call, by decide, by decide, by decide, by decide, by decide, by decide, by decide,
      by decide, by decide, by decide, by decide⟩)).1 rfl
  revert this
  decide

/-- a decidable check of a successful result -/
def okAnd (x : Except Err AsmResult) (f : AsmResult → Prop) [DecidablePred f] : Bool :=
  match x with
  | .ok r => decide (f r)
  | .error _ => false

theorem okAnd_spec {x : Except Err AsmResult} {f : AsmResult → Prop} [DecidablePred f] (h : okAnd x f = true) :
    ∃ r, x = .ok r ∧ f r := by
  cases x with
  | error e => cases h
  | ok r => exact ⟨r, rfl, of_decide_eq_true h⟩

/-- the closed evaluation of the plain run (its own declaration: the kernel run uses the whole budget) -/
theorem progFar_plain_check : okAnd (assembleItems Hf false progFar [] []) (fun r => r.labels = [("F", 1048580)] ∧
    r.bytes.take 8 = [151, 0, 16, 0, 231, 128, 64, 0] ∧ r.bytes.length = 1048584) = true := by decide +kernel

/-- the plain run, evaluated: `auipc ra, 0x100 ; jalr ra, 4(ra)`, `F` at 1048580, 1048584 bytes -/
theorem progFar_plain : ∃ r₀, assembleItems Hf false progFar [] [] = .ok r₀ ∧ r₀.labels = [("F", 1048580)] ∧
    r₀.bytes.take 8 = [151, 0, 16, 0, 231, 128, 64, 0] ∧ r₀.bytes.length = 1048584 :=
  okAnd_spec progFar_plain_check

/-- **the theorem applies where the span hypothesis fails**: the `-c` run of `progFar` succeeds because the
    plain one does -/
theorem progFar_compressed_ok : ∃ r₁, assembleItems Hf true progFar [] [] = .ok r₁ := by
  obtain ⟨r₀, h0, _⟩ := progFar_plain
  exact compress_preserves_success_program2 Hf progFar r₀ progFar_hyps progFar_alignFree h0

theorem progFar_compressed_check : okAnd (assembleItems Hf true progFar [] []) (fun r => r.labels = [("F", 1048570)] ∧
    r.bytes.take 10 = [239, 240, 191, 127, 1, 21, 1, 21, 1, 21] ∧ r.bytes.length = 1048572) = true := by decide +kernel

/-- … and what it is: the call is ONE `jal ra` (offset 1048570), then three `c.addi`; `F` at 1048570,
    1048572 bytes -/
theorem progFar_compressed : ∃ r₁, assembleItems Hf true progFar [] [] = .ok r₁ ∧ r₁.labels = [("F", 1048570)] ∧
    r₁.bytes.take 10 = [239, 240, 191, 127, 1, 21, 1, 21, 1, 21] ∧ r₁.bytes.length = 1048572 :=
  okAnd_spec progFar_compressed_check

end BB.Props.C12
