/-
  BB.Props.C12Program2 — C12 at program level WITHOUT the 1 MiB span hypothesis.

  `compress_preserves_success_program2`: `C12Hyps` (Props/C12Program) and `AlignFreeTransfers`
  (Props/C12TwoRun) suffice: if a program assembles without `-c` it assembles with `-c`.  The case that
  needed `NearRefs` — a `call` / `tail` that is far without `-c` and near with it — is `near_range`
  (Lemmas/NearRange): the -c run chose the near form from the distance in its own hybrid layout, every
  later pass brings that distance closer, and `corr_prefix` (Lemmas/NearAlign) identifies the source item
  of the near `jal` with that of the far pair.

  EVERY HYPOTHESIS, spelled out (`C12Hyps H items` = `GrowHyps` + `LitOK` + `Neg1OK` + `SrcOK` for every item),
  and whether a counterexample FORCES it or it is merely CONVENIENT for the proof.  For source text the hook
  hypotheses hold and the parser-shaped ones are automatic (Props/TextCorollaries).

  about the hooks — no restriction for the text front end (`Text.textHooks_litOK/neg1OK/offsetHook`):
    * `LitOK`   the numerals 0 … 31 evaluate to themselves (the rebuilt shift amounts of c.slli / c.srli / c.srai);
    * `Neg1OK`  `-1` evaluates to −1 (the expansion of `not`);
    * `OffsetHook`  `%offset r` parses to `.offset r`.

  about the program:
    * `AlignFreeTransfers`: no `align` between a branch / jump / call / tail and its target label.
          FORCED — KF-F: an `align` in between can make the distance GROW when code before it shrinks
          (Props/C12TwoRun).
    * `SrcOK`, instructions and pseudo-instructions: a pc-relative target is a LABEL that no constant shadows.
          FORCED — KF-G: `K = 4106 ; nop ×3 ; beq x1, x2, K` assembles without `-c` and is refused with it
          (`C12.branch_to_constant_grows`, `C12.statement2_false`; confirmed on the real assembler).
          `CallTargetsNotConstants` (GrowHyps) is the same condition for call / tail (same mechanism; no
          separate formal counterexample).
    * `SrcOK`, instructions: every OTHER immediate is label-free (`ImmLabelFree`: a literal, constant arithmetic,
          `%hi/%lo` of those).  Forced in general, but only ON PAPER (labels move down with `-c`, so
          `addi a0, x0, 4094 - L` can leave the 12-bit range); for a bare `L` / `%lo(L)` it is merely convenient.
          No formal counterexample.
    * `SrcOK`, data (`pack`, `db/dh/dw/dd`): the immediate is label-free.  CONVENIENT for a bare `dw L` (a label
          value only decreases and stays in range); on paper forced for expressions such as `db 300 - L`.
          No formal counterexample.
    * `LiLiteral` (GrowHyps): the operand of every `li` is label-free.  FORCED for "nothing grows" (C20) — KF-A5,
          `C20.progA5`: `li sp, 2051 − L` takes its long form with `-c` and the output GROWS; C12 uses it only
          through that (a grown `li` can push a branch out of range; not formalized for C12 itself).
    * `SrcOK`, instructions: `ins.wellKinded` — the item class is the one the encoder table lists for the mnemonic,
          a 32-bit class: there is NO HAND-WRITTEN `c.*` INSTRUCTION anywhere in the program.  CONVENIENT, not
          forced: a hand-written compressed instruction is simply kept by both runs; the proof classifies items
          as "32-bit original" / "decided by a pass" and has no third class.  For the 32-bit classes the parser
          always builds well-kinded items (`Text.parseItem_wellKinded`), so for source text this says exactly
          "no `c.*` mnemonic in the source".
    * `SrcOK`, instructions: `ins.isAuipcJump = false` — the mark the assembler itself puts on the `jalr` of an
          expanded far call / tail.  AUTOMATIC for parsed text (`Text.parseItem_wellKinded`); a restriction only
          on hand-built item lists.
    * `NonNeg` (GrowHyps): no item has a negative size (`include_bytes f -5`).  CONVENIENT (the layout lemmas
          are stated for non-negative sizes); not forced.
    * `AlignsPositive` (GrowHyps): every `align a` has `1 ≤ a`.  CONVENIENT: `align 0` makes either run fail
          (ZeroDivisionError), and a negative alignment is outside what the model claims to describe (it pads
          nothing where the position happens to be a multiple, and is `unsupported` elsewhere); excluded rather
          than analysed, not forced by a counterexample.
    * `small` (GrowHyps): the pessimistic program size is below 2^31.  CONVENIENT: it keeps the model's integer
          distances inside the range where `%hi/%lo` splitting is exact; not forced by any counterexample.
  So "every hypothesis is forced by a counterexample" would OVERCLAIM: forced are `AlignFreeTransfers` (KF-F),
  targets-are-labels (KF-G) and — for C20 — `LiLiteral` (KF-A5); the rest is convenient or automatic for text.
-/
import BB.Lemmas.SuccTwoRun2
import BB.Props.C12Program
namespace BB.Props.C12
open BB BB.Spec BB.Lemmas
open BB.Props.C03 (Land Stage)
open BB.Props.C04 (aliased_fixed)
open BB.Props.C20 (GrowHyps)

theorem spanA_source {H : Hooks} {constants : Dict} {items : List Item}
    (hsrc : ∀ x ∈ items, SrcOK H constants (labelNames items) x) (haf : AlignFreeTransfers items) : SpanA items := by
  intro P x S n e hr
  have hx : x ∈ items := by rw [e]; exact List.mem_append_right _ List.mem_cons_self
  have ht := targets_of_refs (hsrc x hx) hr
  refine ⟨?_, ?_⟩
  · intro Sa l Sb eS
    have e' : items = P ++ x :: Sa ++ .label l n :: Sb := by rw [e, eS]; try simp
    exact fun y hy l' a e2 => haf P Sa Sb x l n ht (Or.inl e') l' a (by rw [← e2]; exact hy)
  · intro Pa l Pb eP
    have e' : items = Pa ++ .label l n :: Pb ++ x :: S := by rw [e, eP]; try simp
    exact fun y hy l' a e2 => haf Pa Pb S x l n ht (Or.inr e') l' a (by rw [← e2]; exact hy)

/-- **C12, program level, no span bound.** -/
theorem compress_preserves_success_program2 (H : Hooks) (items : List Item) (r₀ : AsmResult)
    (hyp : C12Hyps H items) (haf : AlignFreeTransfers items)
    (h0 : assembleItems H false items [] [] = .ok r₀) : ∃ r₁, assembleItems H true items [] [] = .ok r₁ := by
  obtain ⟨items1, items2, a3, a4, a6, a7, out0, labels2, l3, l4, l6, _, h1, h2, e3, ha4, e6, ha7, hland0, _⟩ :=
    assemble_stages_all H false items r₀ h0
  simp only [maybeCompress, Bool.false_eq_true, if_false, pure, Except.pure, Except.ok.injEq, Prod.mk.injEq] at e3 e6
  obtain ⟨rfl, rfl⟩ := e3
  obtain ⟨rfl, rfl⟩ := e6
  have hsrc := hyp.src items1 r₀.constants h1
  obtain ⟨b3, lb3, b4, lb4, b6, lb6, b7, lb7, hb3, hb4, hb6, hb7⟩ :=
    run1_layout H items hyp.grow hyp.lit hyp.neg1 h1 h2 ha4 ha7 hland0 hsrc
  obtain ⟨B3, A4, B4, B6, hiw3, wb4, hcorr4, hiw6, wb7g, nn3, nd3, nm3, ag3, lo3, sz3, wa4, corr, sA, sB, nn0, nn1, nodup,
    hnames, agree0, agree1, hblocks, _, _, _⟩ :=
    two_run_ghost2 H items hyp.grow r₀.constants h1 h2 ha4 ha7 hb3 hb4 hb6 hb7
  subst sA sB
  obtain ⟨c1, _, c3⟩ := BB.Props.C03.resolveConstants_spec H items [] items1 r₀.constants h1
  obtain ⟨l1, _, _, _, _⟩ := resolveLabelsAux_spec items1 0 [] [] items2 labels2 h2
  have hgood : ∀ a ∈ resolveRegisterAliases A4 r₀.constants, Good H r₀.constants (labelNames items) a := by
    refine good_A5 hyp.grow.offset hyp.lit hyp.neg1 ?_ ?_ wa4
    · intro x hx hnp
      unfold resolveRegisterAliases at hx
      obtain ⟨x0, hx0, rfl⟩ := List.mem_map.mp hx
      have hnp0 : ∀ l n a, x0 ≠ .pseudo l n a := by
        intro l n a e; subst e; exact hnp l n a rfl
      have := good_alias r₀.constants (srcOK_good (hsrc x0 (c3 x0 hx0)) hnp0)
      cases x0 <;> exact this
    · intro line name args hm
      have hmi : Item.pseudo line name args ∈ items := c3 _ (mem_aliases_other (by intro l i e; cases e) hm)
      have hs := hsrc _ hmi
      simp only [SrcOK] at hs
      exact ⟨fun hk imm hp => hyp.grow.li items1 r₀.constants h1 line name args hmi hk imm hp, hs⟩
  have hspan : SpanA B6 := hblocks.spanA (spanA_source hsrc haf)
  have horacle : ∀ P line cf S, alignImg B6 0 = P ++ .instr line cf :: S → cf.isCompressed = true →
      DecOracle H r₀.constants lb7 (labelNames items) (sizeSum P) line cf := by
    intro P line cf S e hc
    obtain ⟨i, hi, hit, htake⟩ := strip_index e (by intro l n e; cases e)
    rcases decided_holds_final H r₀.constants hyp.grow.nonneg h1 h2 hb3 hb4 hb6 hb7 i hi hit hc with
      ho | ⟨ins, c, preds, p, L, hdec, _, _, htr⟩
    · exfalso
      obtain ⟨x0, hx0, rfl⟩ := mem_aliases ho
      rw [l1] at hx0
      have hs := hsrc _ (c3 _ (mem_strip hx0).1)
      simp only [SrcOK] at hs
      obtain ⟨_, _, _, hnc⟩ := wellKinded_row hs.1
      rw [mapRegs_isCompressed, hnc] at hc
      cases hc
    · refine ⟨ins, c, preds, p, L, hdec, ?_⟩
      have hq : sizeSum ((strip (alignImg B6 0)).take i) = sizeSum P := by rw [htake, sizeSum_strip]
      rw [hq] at htr
      exact htr
  -- the far / near case
  have hliG : ∀ line name args, Item.pseudo line name args ∈ resolveRegisterAliases items1 r₀.constants →
      pseudoKind name = some .li → ∀ imm, H.parseImm args.tail line = .ok imm → ImmLabelFree H r₀.constants imm := by
    intro line name args hm hk imm hp
    exact hyp.grow.li items1 r₀.constants h1 line name args (c3 _ (mem_aliases_other (by intro l i e; cases e) hm)) hk imm hp
  have hnear : ∀ P1 S1 line rd n, B6 = P1 ++ .instr line (.j "jal" rd (.offset n)) :: S1 → n ∈ labelNames items →
      r₀.constants.get n = none → ∀ P0 S0 line' rd' rA imm,
      resolveRegisterAliases A4 r₀.constants = P0 ++ .instr line' (.u "auipc" rA (.hi imm)) :: .instr line' (.i "jalr" rd' rA (.lo imm) true) :: S0 →
      Corr H r₀.constants P0 P1 → ∀ d1, lb7.get n = some (sizeSum (alignImg P1 0) + d1) → -1048576 ≤ d1 ∧ d1 ≤ 1048575 := by
    intro P1 S1 line rd n hB hn hc P0 S0 line' rd' rA imm hA cP d1 hd1
    exact near_range hyp.grow.offset (T := sizeSum items) hyp.grow.small hiw3 wa4 wb4 hcorr4 hiw6 wb7g hliG
      (fun l i hm => aliased_fixed hm) nn3 nd3 ag3 lo3 sz3 agree1 hB (by rw [nm3]; exact hn) hc hA cP d1 hd1
  obtain ⟨out1, hland1⟩ := lands_final' hyp.lit corr nn0 nn1 nodup hnames agree0 agree1 hspan hgood hland0 horacle hnear
  exact ⟨_, assemble_of_stages H true h1 h2 hb3 hb4 hb6 hb7 hland1⟩

/-- the earlier theorem is an instance: the span hypothesis is simply not used -/
theorem compress_preserves_success_program_of2 (H : Hooks) (items : List Item) (r₀ : AsmResult)
    (hyp : C12Hyps H items) (haf : AlignFreeTransfers items) (_hnear : NearRefs items)
    (h0 : assembleItems H false items [] [] = .ok r₀) : ∃ r₁, assembleItems H true items [] [] = .ok r₁ :=
  compress_preserves_success_program2 H items r₀ hyp haf h0

/-- non-vacuity: the hypotheses hold of `progP` (Props/C12Program), whose plain run succeeds -/
example : ∃ r₁, assembleItems Hp true progP [] [] = .ok r₁ :=
  compress_preserves_success_program2 Hp progP _ progP_hyps progP_alignFree
    (by decide : assembleItems Hp false progP [] [] = .ok
      { bytes := [99, 10, 5, 0, 239, 0, 0, 1, 19, 5, 5, 254, 147, 197, 245, 255, 227, 24, 181, 254, 103, 128, 0, 0],
        labels := [("B", 0), ("F", 20)], constants := [] })

end BB.Props.C12
