/-
  BB.Props.C05Program — C05 at program level: what the bytes emitted for a pseudo-instruction DO, in
  every successful `assembleItems H compress items [] []`, compression off and on.

  `ExecAt r off n f` (Lemmas/PseudoExec): the `n` bytes at byte offset `off` of `r.bytes` are one
  instruction — a 32-bit word `w` with `decode32 w = some i` and `exec i 4 = f` (n = 4), or a legal RVC
  halfword with `decode16 w = some ci` and `execC ci = f` (n = 2; `execC ci s = exec (expand16 ci) 2 s`).
  The source item is followed through the passes by `pseudo_trace` (Lemmas/PseudoTrace).  `off` is NOT free:
  every theorem concludes `SourceAt H compress items r A B line off` (Lemmas/PseudoTrace) — with
  `layoutOf H compress items = .ok lay` (Props/C04, a function of the inputs, tables = the returned ones) the
  list held after resolve_aligns is `lay.aligned = P7 ++ blk ++ S7`, `P7` the image (`Expands`) of the source
  prefix `A`, `S7` of the suffix `B`, `blk` the instruction items of this source line, `off = sizeSum P7`,
  `0 ≤ off`.

  Hypotheses of the theorems below (none of them is "decidable" as a whole): `NonNeg items` (no item has a
  negative SIZE — this is about `include_bytes` sizes, not about literals); `LitOK` for the evaluator hook (the
  decimal numerals 0 … 31 evaluate to themselves; holds for the text front end, `C04.litOK_evalArith`); for
  call / tail / branches `OffsetHook` (`%offset r` parses to `.offset r`; `C20.textHooks_offsetHook`) and the
  target a label no constant shadows; for `li`, `ImmLabelFree` of the operand (a semantic condition on the
  evaluator, not decidable in general; literals satisfy it: `C20.labelFree_literal`).

  (a) `assemble_li_effect` : `li rd, e` with a LABEL-FREE operand (`ImmLabelFree`: KF-A1/A6/A7 — the width
      decision goes stale — and KF-D/D5 — `%offset` in the two-instruction form — are exactly the
      label-dependent operands; `li_unrestricted` is the statement without the hypothesis).
-/
import BB.Lemmas.PseudoExec
import BB.Props.C05
namespace BB.Props.C05
open BB BB.Spec BB.Lemmas
open BB.Props.C03 (Land)

/-! ### effects, for either instruction length -/

theorem li_short_effect_n (rd : Nat) (v : Int) (n : Nat) (s : St) (h : -2048 ≤ cI32 v ∧ cI32 v ≤ 2047) :
    exec (.i .addi rd 0 (relocateLo v)) n s = wrote s rd (BitVec.ofInt 32 v) n := by
  have e : BitVec.ofInt 32 (relocateLo v) = BitVec.ofInt 32 v := by
    apply ofInt_congr
    rw [relocateLo_eq]
    unfold cI32 at h
    simp only at h
    split at h <;> omega
  rw [exec_i]
  simp only [aluI, get_zero, imm32, e, bv_zero_add32]

theorem li_long_effect_n (rd : Nat) (v : Int) (n1 n2 : Nat) (s : St) :
    exec (.i .addi rd rd (relocateLo v)) n2 (exec (.lui rd ((relocateHi v) % 1048576).toNat) n1 s)
      = wrote s rd (BitVec.ofInt 32 v) (n1 + n2) := by
  rw [exec_lui, exec_i]
  by_cases hrd : rd = 0
  · subst hrd
    rw [wrote_wrote]
    exact wrote_zero _ _ _ _
  · rw [wrote_get_same _ _ _ _ hrd, wrote_wrote]
    simp only [aluI, imm32, hi_lo_word]

/-! ### registers the expansions name -/

theorem alias_x {H : Hooks} {items items1 : List Item} {constants : Dict}
    (h : resolveConstants H items [] = .ok (items1, constants)) {s : String} (hs : s = "x0" ∨ s = "x1" ∨ s = "x6") :
    aliasReg constants (.str s) = .str s := by
  have hn := resolveConstants_noreg H items [] items1 constants h (fun _ _ => rfl) s
    (by rcases hs with rfl | rfl | rfl <;> decide)
  simp only [aliasReg, hn]

theorem some_of_isSome {o : Option Nat} (h : o.isSome = true) : o = some (o.getD 0) := by
  cases o <;> simp at h ⊢

/-! ### (a) li -/

/-- what the theorem says about one `li rd, e`: the value, the register, and the one or two emitted
    instructions at `off` -/
def LiEffect (r : AsmResult) (off : Int) (a : Nat) (v : Int) : Prop :=
  (∃ n : Nat, (n = 4 ∨ n = 2) ∧ ExecAt r off n (fun s => wrote s a (BitVec.ofInt 32 v) n)) ∨
  (∃ (n1 n2 : Nat) (f1 f2 : St → St), (n1 = 4 ∨ n1 = 2) ∧ (n2 = 4 ∨ n2 = 2) ∧
    ExecAt r off n1 f1 ∧ ExecAt r (off + n1) n2 f2 ∧ ∀ s, f2 (f1 s) = wrote s a (BitVec.ofInt 32 v) (n1 + n2))

/-- **li, program level.**  In every successful run (either value of `compress`), a source item
    `li rd, <toks>` whose operand parses to a label-free immediate `imm`: `imm` has one value `v` (at every
    position, against every label table — in particular the returned one), `rd` (after
    resolve_register_aliases) is the register `a`, and at the item's byte offset the output holds one or two
    instructions whose execution, from ANY state, writes `v mod 2^32` to `a`, changes nothing else, and
    advances the pc by their total size. -/
theorem assemble_li_effect (H : Hooks) (compress : Bool) (items : List Item) (r : AsmResult) (hnn : NonNeg items)
    (hlit : ∀ line p env, LitOK (evalAt H env line p))
    (h : assembleItems H compress items [] [] = .ok r)
    {A B : List Item} {line : Line} {rd : String} {toks : List String}
    (e : items = A ++ .pseudo line "li" (rd :: toks) :: B)
    {imm : Imm} (hparse : H.parseImm toks line = .ok imm) (hfree : ImmLabelFree H r.constants imm) :
    ∃ (off : Int) (a : Nat) (v : Int),
      SourceAt H compress items r A B line off ∧
      lookupRegister (aliasReg r.constants (.str rd)) = some a ∧
      (∀ L p, imm.eval H (chainGet r.constants L) line p = .ok v) ∧
      LiEffect r off a v := by
  obtain ⟨items1, _, _, _, _, _, _, _, _, _, _, _, h1, _⟩ := assemble_stages_all H compress items r h
  obtain ⟨G7, P, blk, S, q, Lq, instrs, short, eG, hexp, hz, hplaced, _, _, _, hlayout, xA, xB, hnnG⟩ :=
    pseudo_trace H compress items r hnn h e
  have hat := fun hne => sourceAt_of_trace eG hz hne hlayout xA xB hnnG
  have hk : pseudoKind "li" = some .li := by decide
  simp only [expandPseudo, hk] at hexp
  have hwkall := expandKind_wellKinded hk hexp
  obtain ⟨rd', toks', imm', v, eargs, hp', hv, _⟩ := li_short hexp
  simp only [List.cons.injEq] at eargs
  obtain ⟨rfl, rfl⟩ := eargs
  rw [hparse] at hp'
  cases hp'
  have hval : ∀ L p, imm.eval H (chainGet r.constants L) line p = .ok v := by
    intro L p; rw [hfree L Lq line p q]; exact hv
  have hx0 := alias_x h1 (s := "x0") (Or.inl rfl)
  have hlo : ∀ off, evalAt H (chainGet r.constants r.labels) line off (.lo imm) = some (relocateLo v) := by
    intro off; simp [evalAt, Imm.eval, hval, Except.toOption, bind, Except.bind, pure, Except.pure]
  have hhi : ∀ off, evalAt H (chainGet r.constants r.labels) line off (.hi imm) = some (relocateHi v) := by
    intro off; simp [evalAt, Imm.eval, hval, Except.toOption, bind, Except.bind, pure, Except.pure]
  have hfl : ImmLabelFree H r.constants (.lo imm) := labelfree_lo hfree
  have hfh : ImmLabelFree H r.constants (.hi imm) := labelfree_hi hfree
  rw [expand_li H _ line q rd toks imm v hparse hv] at hexp
  -- the register
  let a := (lookupRegister (aliasReg r.constants (.str rd))).getD 0
  by_cases hc : -2048 ≤ cI32 v ∧ cI32 v ≤ 2047
  · -- one instruction
    rw [if_pos hc] at hexp
    simp only [Except.ok.injEq, Prod.mk.injEq] at hexp
    obtain ⟨rfl, _⟩ := hexp
    simp only [List.map_cons, List.map_nil, Instr.mapRegs, hx0] at hz
    cases hz with
    | @cons _ x1 _ rest hq1 hrest =>
      cases hrest
      obtain ⟨d1, hp1⟩ := hplaced P x1 S (by rw [eG]; rfl) (by
        rcases hq1 with rfl | ⟨_, _, _, _, _, _, rfl, _⟩ <;> (intro l n ex; cases ex))
      have hwk1 : (Instr.i "addi" (aliasReg r.constants (.str rd)) (.str "x0") (.lo imm) false).wellKinded = true := by
        have := hwkall _ List.mem_cons_self
        rw [← wellKinded_mapRegs (aliasReg r.constants)] at this
        simpa [Instr.mapRegs, hx0] using this
      obtain ⟨hv1, n, hn, _, hex⟩ := final_exec_free (i32 := .i .addi a 0 (relocateLo v))
        (rins := .i "addi" (aliasReg r.constants (.str rd)) (.str "x0") (.value (relocateLo v)) false) hlit hq1 hp1 hwk1
        (by intro _ _ _ _ _ _ ex; cases ex) (by intro _ _ _ _ _ ex; cases ex) (by intro _ _ _ _ ex; cases ex) rfl
        (by intro x hx; simp only [Instr.imm?, Option.some.injEq] at hx; subst hx; exact hfl)
        (by simp only [resolveWith, Instr.imm?, hlo, Option.map_some, Instr.setImm])
        (by
          intro hval'
          exact bridge_addi _ _ (some_of_isSome (hval' .rd _ rfl)) reg_x0)
      refine ⟨sizeSum P, a, v, hat (by simp), some_of_isSome (hv1 .rd _ rfl), hval, Or.inl ⟨n, hn, ?_⟩⟩
      have : (fun s => wrote s a (BitVec.ofInt 32 v) n) = exec (.i .addi a 0 (relocateLo v)) n := by
        funext s; exact (li_short_effect_n a v n s hc).symm
      rw [this]; exact hex
  · -- two instructions
    rw [if_neg hc] at hexp
    simp only [Except.ok.injEq, Prod.mk.injEq] at hexp
    obtain ⟨rfl, _⟩ := hexp
    simp only [List.map_cons, List.map_nil, Instr.mapRegs] at hz
    cases hz with
    | @cons _ x1 _ rest hq1 hrest =>
      cases hrest with
      | @cons _ x2 _ rest2 hq2 hrest2 =>
        cases hrest2
        have hx1nl : ∀ l n, x1 ≠ .label l n := by
          rcases hq1 with rfl | ⟨_, _, _, _, _, _, rfl, _⟩ <;> (intro l n ex; cases ex)
        have hx2nl : ∀ l n, x2 ≠ .label l n := by
          rcases hq2 with rfl | ⟨_, _, _, _, _, _, rfl, _⟩ <;> (intro l n ex; cases ex)
        obtain ⟨d1, hp1⟩ := hplaced P x1 (x2 :: S) (by rw [eG]; rfl) hx1nl
        obtain ⟨d2, hp2⟩ := hplaced (P ++ [x1]) x2 S (by rw [eG]; simp) hx2nl
        have hwk1 : (Instr.u "lui" (aliasReg r.constants (.str rd)) (.hi imm)).wellKinded = true := by
          have := hwkall _ List.mem_cons_self
          rw [← wellKinded_mapRegs (aliasReg r.constants)] at this
          simpa [Instr.mapRegs] using this
        have hwk2 : (Instr.i "addi" (aliasReg r.constants (.str rd)) (aliasReg r.constants (.str rd)) (.lo imm) false).wellKinded = true := by
          have := hwkall _ (List.mem_cons_of_mem _ List.mem_cons_self)
          rw [← wellKinded_mapRegs (aliasReg r.constants)] at this
          simpa [Instr.mapRegs] using this
        obtain ⟨hv1, n1, hn1, hsz1, hex1⟩ := final_exec_free (i32 := .lui a ((relocateHi v) % 1048576).toNat)
          (rins := .u "lui" (aliasReg r.constants (.str rd)) (.value (relocateHi v))) hlit hq1 hp1 hwk1
          (by intro _ _ _ _ _ _ ex; cases ex) (by intro _ _ _ _ _ ex; cases ex) (by intro _ _ _ _ ex; cases ex) rfl
          (by intro x hx; simp only [Instr.imm?, Option.some.injEq] at hx; subst hx; exact hfh)
          (by simp only [resolveWith, Instr.imm?, hhi, Option.map_some, Instr.setImm])
          (by
            intro hval'
            exact bridge_lui' _ (some_of_isSome (hval' .rd _ rfl)))
        have hoff2 : sizeSum (P ++ [x1]) = sizeSum P + n1 := by
          rw [sizeSum_append]; simp [sizeSum, hsz1]
        rw [hoff2] at hp2
        obtain ⟨hv2, n2, hn2, _, hex2⟩ := final_exec_free (i32 := .i .addi a a (relocateLo v))
          (rins := .i "addi" (aliasReg r.constants (.str rd)) (aliasReg r.constants (.str rd)) (.value (relocateLo v)) false) hlit hq2 hp2 hwk2
          (by intro _ _ _ _ _ _ ex; cases ex) (by intro _ _ _ _ _ ex; cases ex) (by intro _ _ _ _ ex; cases ex) rfl
          (by intro x hx; simp only [Instr.imm?, Option.some.injEq] at hx; subst hx; exact hfl)
          (by simp only [resolveWith, Instr.imm?, hlo, Option.map_some, Instr.setImm])
          (by
            intro hval'
            exact bridge_addi _ _ (some_of_isSome (hval' .rd _ rfl)) (some_of_isSome (hval' .rd _ rfl)))
        exact ⟨sizeSum P, a, v, hat (by simp), some_of_isSome (hv1 .rd _ rfl), hval,
          Or.inr ⟨n1, n2, _, _, hn1, hn2, hex1, hex2, fun s => li_long_effect_n a v n1 n2 s⟩⟩

/-! ### non-vacuity, and why the operand has to be label-free -/

open BB.Props.C12 (Hp hp_litOK lp)

def liI1 : Item := .instr (lp 1) (.i "addi" (.str "x0") (.str "x0") (.arith "0") false)
def liI2 : Item := .pseudo (lp 2) "li" ["a0", "M"]
def liI3 : Item := .pseudo (lp 3) "li" ["a1", "4106"]

/-- `addi x0,x0,0 ; li a0, M ; li a1, 4106` (hooks `Hp` of Props/C12Program: M = −32): both operands are
    label-free, and the theorem applies with and without `-c` -/
example (c : Bool) (r : AsmResult) (h : assembleItems Hp c [liI1, liI2, liI3] [] [] = .ok r) :
    (∃ off a v, SourceAt Hp c [liI1, liI2, liI3] r [liI1] [liI3] (lp 2) off ∧
      lookupRegister (aliasReg r.constants (.str "a0")) = some a ∧
      (∀ L p, (Imm.arith "M").eval Hp (chainGet r.constants L) (lp 2) p = .ok v) ∧ LiEffect r off a v) ∧
    (∃ off a v, SourceAt Hp c [liI1, liI2, liI3] r [liI1, liI2] [] (lp 3) off ∧
      lookupRegister (aliasReg r.constants (.str "a1")) = some a ∧
      (∀ L p, (Imm.arith "4106").eval Hp (chainGet r.constants L) (lp 3) p = .ok v) ∧ LiEffect r off a v) :=
  ⟨assemble_li_effect Hp c _ r (by unfold NonNeg; decide) hp_litOK h (A := [liI1]) (B := [liI3]) rfl
      (imm := .arith "M") rfl (fun _ _ _ _ _ => rfl),
   assemble_li_effect Hp c _ r (by unfold NonNeg; decide) hp_litOK h (A := [liI1, liI2]) (B := []) rfl
      (imm := .arith "4106") rfl (fun _ _ _ _ _ => rfl)⟩

/-- … and both runs do succeed (16 bytes; 8 with `-c`: c.nop, c.li, c.lui, c.addi) -/
example : (assembleItems Hp false [.instr (lp 1) (.i "addi" (.str "x0") (.str "x0") (.arith "0") false),
      .pseudo (lp 2) "li" ["a0", "M"], .pseudo (lp 3) "li" ["a1", "4106"]] [] []).map (fun r => r.bytes.length) = .ok 16 ∧
    (assembleItems Hp true [.instr (lp 1) (.i "addi" (.str "x0") (.str "x0") (.arith "0") false),
      .pseudo (lp 2) "li" ["a0", "M"], .pseudo (lp 3) "li" ["a1", "4106"]] [] []).map (fun r => r.bytes.length) = .ok 8 := by
  decide +kernel

/-- the statement of `assemble_li_effect` WITHOUT the label-free hypothesis (the value read at the item's own
    offset against the returned tables).  FALSE — KF-D5 / KF-A6; see `li_offset_short_by_four`. -/
def li_effect_unrestricted : Prop :=
  ∀ (H : Hooks) (compress : Bool) (items : List Item) (r : AsmResult), NonNeg items →
    (∀ line p env, LitOK (evalAt H env line p)) → assembleItems H compress items [] [] = .ok r →
    ∀ (A B : List Item) (line : Line) (rd : String) (toks : List String) (imm : Imm),
      items = A ++ .pseudo line "li" (rd :: toks) :: B → H.parseImm toks line = .ok imm →
      ∃ (off : Int) (a : Nat) (v : Int), SourceAt H compress items r A B line off ∧
        lookupRegister (aliasReg r.constants (.str rd)) = some a ∧
        imm.eval H (chainGet r.constants r.labels) line off = .ok v ∧ LiEffect r off a v

/-- **KF-D5 in the model** (hooks of Props/C20TwoRun): `li x25, %offset T` with T 4008 bytes ahead.  The
    operand is `%offset T` = 4008 at the item's offset 0, but the emitted pair is `lui x25, 1` ;
    `addi x25, x25, −92` (the `%lo` was evaluated at the addi's own position, 4): it loads 4004. -/
theorem li_offset_short_by_four :
    let prog : List Item := [.pseudo (BB.Props.C20.lnx 1) "li" ["x25", "%offset", "T"],
      .blob (BB.Props.C20.lnx 2) (List.replicate 4000 0), .label (BB.Props.C20.lnx 3) "T"]
    (assembleItems BB.Props.C20.Hx false prog [] []).map (fun r => (r.bytes.take 8, r.labels)) =
        .ok ([183, 28, 0, 0, 147, 140, 76, 250], [("T", 4008)]) ∧
      decode32 0x00001cb7 = some (.lui 25 1) ∧ decode32 0xfa4c8c93 = some (.i .addi 25 25 (-92)) ∧
      (1 * 4096 + (-92) : Int) = 4004 := by
  decide +kernel

end BB.Props.C05
