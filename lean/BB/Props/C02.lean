/-
  BB.Props.C02 — 16-bit (RV32C) instructions encode exactly as the RISC-V specification defines.

  For every one of the 27 RVC rows of the instruction table, every argument list and every
  halfword: if the encoder accepts, the arguments denote operands (registers by full number,
  immediates by value), the operands are `legalOf16`, and the specification's decoder `decode16`
  maps the halfword back to the instruction the source named (`intentOf16`).  Hence nothing
  reserved, HINT or illegal is ever produced (`enc16_legal`), two operand tuples of one mnemonic
  never share a halfword (`enc16_inj`, up to c.lui's dual spelling), and — by kernel evaluation
  over all 65 536 halfwords — every legal RVC halfword is the image of its canonical text
  (`enc16_onto`).
-/
import BB.Lemmas.Inv16
import BB.Props.C01
import BB.Props.C02Onto.All
set_option linter.unusedSimpArgs false
set_option linter.unusedVariables false
namespace BB.Props.C02
open BB BB.Spec BB.Lemmas
open BB.Props.C01 (denoteReg)

/-- what the positional arguments of a 16-bit encoder call denote: registers by the FULL number
    0..31 that `lookup_register` finds, immediates by value (c.lui: as written) -/
def denote16 (k : EncKind) (args : List Arg) : Option (List Opnd) :=
  match k, args with
  | .cr .., [.r a, .r b] => do pure [← denoteReg a, ← denoteReg b]
  | .crj .., [.r a] => do pure [← denoteReg a]
  | .cre .., [] => some []
  | .ci .., [.r a, .i v] => do pure [← denoteReg a, .imm v]
  | .cia .., [.i v] => some [.imm v]
  | .cin .., [] => some []
  | .ciu .., [.r a, .i v] => do pure [← denoteReg a, .imm v]
  | .cil .., [.r a, .i v] => do pure [← denoteReg a, .imm v]
  | .css .., [.r a, .i v] => do pure [← denoteReg a, .imm v]
  | .ciw .., [.r a, .i v] => do pure [← denoteReg a, .imm v]
  | .cl .., [.r a, .r b, .i v] => do pure [← denoteReg a, ← denoteReg b, .imm v]
  | .cs .., [.r a, .r b, .i v] => do pure [← denoteReg a, ← denoteReg b, .imm v]
  | .ca .., [.r a, .r b] => do pure [← denoteReg a, ← denoteReg b]
  | .cb .., [.r a, .i v] => do pure [← denoteReg a, .imm v]
  | .cbi .., [.r a, .i v] => do pure [← denoteReg a, .imm v]
  | .cj .., [.i v] => some [.imm v]
  | _, _ => none

/-- The statement of C02's first sentence for one table row. -/
def Sound16 (c : CMn) (k : EncKind) : Prop :=
  ∀ (args : List Arg) (w : Nat), encodeKind k args = .ok w →
    ∃ ops, denote16 k args = some ops ∧ legalOf16 c ops = true ∧ w < 65536 ∧
      (intentOf16 c ops).isSome ∧ decode16 w = intentOf16 c ops

/-- `rowOf` is the instruction table's row for each RVC mnemonic -/
theorem lookup_rowOf (c : CMn) : instrTable.lookup c.name = some (rowOf c) := by
  cases c <;> decide

macro "legal16_tac" : tactic =>
  `(tactic| (simp [legalOf16, isReg, isRegC, simm, uimm, multOf] <;> omega))

/-- open `decode16` on a halfword known to be `< 65536` -/
macro "open_dec16" : tactic =>
  `(tactic| (unfold decode16; rw [if_neg (by omega)]))

/-! ### the 27 rows -/

theorem row_addi4spn : Sound16 .addi4spn (.ciw 0 0 [.immNotZero]) := by
  intro args w h
  obtain ⟨a, imm, rd, hargs, ha, h8, h15, hlo, hhi, hm, hcs, hlt, f0, f1, f2, f3⟩ :=
    ciw_inv (by omega) (by omega) h
  subst hargs
  simp [csOk, Constraint.fails] at hcs
  have hnz : ¬ imm.toNat = 0 := by omega
  refine ⟨[.reg rd, .imm imm], by simp [denote16, denoteReg, ha], by legal16_tac, hlt, rfl, ?_⟩
  open_dec16
  simp only [f0, f1, f2, f3, if_neg hnz]
  rfl

theorem row_lw : Sound16 .lw (.cl 0 2 []) := by
  intro args w h
  obtain ⟨a, b, imm, rd, rs1, hargs, ha, hb, h8, h15, g8, g15, hlo, hhi, hm, hcs, hlt, f0, f1, f2, f3, f4⟩ :=
    cl_inv (by omega) (by omega) h
  subst hargs
  refine ⟨[.reg rd, .reg rs1, .imm imm], by simp [denote16, denoteReg, ha, hb], by legal16_tac, hlt, rfl, ?_⟩
  open_dec16
  simp only [f0, f1, f2, f3, f4]
  rfl

theorem row_sw : Sound16 .sw (.cs 0 6 []) := by
  intro args w h
  obtain ⟨a, b, imm, rs1, rs2, hargs, ha, hb, h8, h15, g8, g15, hlo, hhi, hm, hcs, hlt, f0, f1, f2, f3, f4⟩ :=
    cs_inv (by omega) (by omega) h
  subst hargs
  refine ⟨[.reg rs1, .reg rs2, .imm imm], by simp [denote16, denoteReg, ha, hb], by legal16_tac, hlt, rfl, ?_⟩
  open_dec16
  simp only [f0, f1, f2, f3, f4]
  rfl

theorem row_nop : Sound16 .nop (.cin 1 0) := by
  intro args w h
  obtain ⟨hargs, hlt, f0, f1, f2, f3⟩ := cin_inv (by omega) (by omega) h
  subst hargs
  refine ⟨[], by simp [denote16], rfl, hlt, rfl, ?_⟩
  open_dec16
  simp only [f0, f1, f2, f3, ↓reduceIte]
  rfl

theorem row_addi : Sound16 .addi (.ci 1 0 [.rdRs1NotZero, .immNotZero]) := by
  intro args w h
  obtain ⟨a, imm, rd, hargs, ha, h1, hlo, hhi, hcs, hlt, f0, f1, f2, f3, f4, f5⟩ :=
    ci_inv (by omega) (by omega) h
  subst hargs
  simp [csOk, Constraint.fails] at hcs
  refine ⟨[.reg rd, .imm imm], by simp [denote16, denoteReg, ha], by legal16_tac, hlt, rfl, ?_⟩
  open_dec16
  simp only [f0, f1, f2, f5, if_neg hcs.1, if_neg hcs.2]
  rfl

theorem row_jal : Sound16 .jal (.cj 1 1 []) := by
  intro args w h
  obtain ⟨imm, hargs, hlo, hhi, hm, hcs, hlt, f0, f1, f2⟩ := cj_inv (by omega) (by omega) h
  subst hargs
  refine ⟨[.imm imm], by simp [denote16], by legal16_tac, hlt, rfl, ?_⟩
  open_dec16
  simp only [f0, f1, f2]
  rfl

theorem row_li : Sound16 .li (.ci 1 2 [.rdRs1NotZero]) := by
  intro args w h
  obtain ⟨a, imm, rd, hargs, ha, h1, hlo, hhi, hcs, hlt, f0, f1, f2, f3, f4, f5⟩ :=
    ci_inv (by omega) (by omega) h
  subst hargs
  simp [csOk, Constraint.fails] at hcs
  refine ⟨[.reg rd, .imm imm], by simp [denote16, denoteReg, ha], by legal16_tac, hlt, rfl, ?_⟩
  open_dec16
  simp only [f0, f1, f2, f5, if_neg hcs]
  rfl

theorem row_addi16sp : Sound16 .addi16sp (.cia 1 3 [.immNotZero]) := by
  intro args w h
  obtain ⟨imm, hargs, hlo, hhi, hm, hcs, hlt, f0, f1, f2, f3⟩ := cia_inv (by omega) (by omega) h
  subst hargs
  simp [csOk, Constraint.fails] at hcs
  refine ⟨[.imm imm], by simp [denote16], by legal16_tac, hlt, rfl, ?_⟩
  open_dec16
  simp only [f0, f1, f2, f3, ↓reduceIte, if_neg hcs]
  rfl

theorem row_lui : Sound16 .lui (.ciu 1 3 [.rdRs1NotZero, .rdRs1NotTwo, .immNotZero]) := by
  intro args w h
  obtain ⟨a, imm, rd, hargs, ha, h1, hr, hcs, hlt, f0, f1, f2, f3⟩ := ciu_inv (by omega) (by omega) h
  subst hargs
  simp [csOk, Constraint.fails] at hcs
  obtain ⟨c0, c2, cz⟩ := hcs
  refine ⟨[.reg rd, .imm imm], by simp [denote16, denoteReg, ha], ?_, hlt, rfl, ?_⟩
  · split at cz <;> legal16_tac
  · open_dec16
    simp only [f0, f1, f2, f3, if_neg c0, if_neg c2, if_neg cz]
    rfl

/-- a shift amount that passed `ImmNotZero` and `ShamtBit5Zero` on a 6-bit signed field -/
theorem shamt_facts {imm : Int} (hlo : -32 ≤ imm) (hhi : imm ≤ 31) (hz : ¬ imm = 0)
    (hb : pyAnd imm (pyShl 1 5) = 0) :
    0 ≤ imm ∧ (imm % 64).toNat / 32 % 2 = 0 ∧ (imm % 64).toNat = imm.toNat ∧ ¬ imm.toNat = 0 := by
  have h0 : 0 ≤ imm := (shamt_bit5 imm ⟨hlo, hhi⟩).mp hb
  obtain ⟨e1, e2⟩ := ci_nonneg imm ⟨h0, hhi⟩
  exact ⟨h0, e1, e2, by omega⟩

theorem row_srli : Sound16 .srli (.cbi 1 0 4 [.immNotZero, .shamtBit5Zero]) := by
  intro args w h
  obtain ⟨a, imm, rd, hargs, ha, h8, h15, hlo, hhi, hcs, hlt, f0, f1, f2, f3, f4, f5, f6⟩ :=
    cbi_inv (by omega) (by omega) (by omega) h
  subst hargs
  simp [csOk, Constraint.fails] at hcs
  obtain ⟨h0, e1, e2, e3⟩ := shamt_facts hlo hhi hcs.1 hcs.2
  rw [e1] at f4; rw [e2] at f5
  have g : bits w 2 5 = imm.toNat := by omega
  refine ⟨[.reg rd, .imm imm], by simp [denote16, denoteReg, ha], by legal16_tac, hlt, rfl, ?_⟩
  open_dec16
  simp only [f0, f1, f2, f3, f4, g, Nat.zero_mul, Nat.zero_add, Nat.reduceEqDiff, ↓reduceIte, if_neg e3]
  rfl

theorem row_srai : Sound16 .srai (.cbi 1 1 4 [.immNotZero, .shamtBit5Zero]) := by
  intro args w h
  obtain ⟨a, imm, rd, hargs, ha, h8, h15, hlo, hhi, hcs, hlt, f0, f1, f2, f3, f4, f5, f6⟩ :=
    cbi_inv (by omega) (by omega) (by omega) h
  subst hargs
  simp [csOk, Constraint.fails] at hcs
  obtain ⟨h0, e1, e2, e3⟩ := shamt_facts hlo hhi hcs.1 hcs.2
  rw [e1] at f4; rw [e2] at f5
  have g : bits w 2 5 = imm.toNat := by omega
  refine ⟨[.reg rd, .imm imm], by simp [denote16, denoteReg, ha], by legal16_tac, hlt, rfl, ?_⟩
  open_dec16
  simp only [f0, f1, f2, f3, f4, g, Nat.zero_mul, Nat.zero_add, Nat.reduceEqDiff, ↓reduceIte, if_neg e3]
  rfl

theorem row_andi : Sound16 .andi (.cbi 1 2 4 []) := by
  intro args w h
  obtain ⟨a, imm, rd, hargs, ha, h8, h15, hlo, hhi, hcs, hlt, f0, f1, f2, f3, f4, f5, f6⟩ :=
    cbi_inv (by omega) (by omega) (by omega) h
  subst hargs
  refine ⟨[.reg rd, .imm imm], by simp [denote16, denoteReg, ha], by legal16_tac, hlt, rfl, ?_⟩
  open_dec16
  simp only [f0, f1, f2, f3, f6]
  rfl

theorem row_sub : Sound16 .sub (.ca 1 0 35 []) := by
  intro args w h
  obtain ⟨a, b, rd, rs2, hargs, ha, hb, h8, h15, g8, g15, hcs, hlt, f0, f1, f2, f3, f4, f5, f6⟩ :=
    ca_inv (by omega) (by omega) (by omega) h
  subst hargs
  simp only [Nat.reduceDiv, Nat.reduceMod] at f1 f2 f3
  refine ⟨[.reg rd, .reg rs2], by simp [denote16, denoteReg, ha, hb], by legal16_tac, hlt, rfl, ?_⟩
  open_dec16
  simp only [f0, f1, f2, f3, f4, f5, f6, Nat.reduceEqDiff, ↓reduceIte]
  rfl

theorem row_xor : Sound16 .xor (.ca 1 1 35 []) := by
  intro args w h
  obtain ⟨a, b, rd, rs2, hargs, ha, hb, h8, h15, g8, g15, hcs, hlt, f0, f1, f2, f3, f4, f5, f6⟩ :=
    ca_inv (by omega) (by omega) (by omega) h
  subst hargs
  simp only [Nat.reduceDiv, Nat.reduceMod] at f1 f2 f3
  refine ⟨[.reg rd, .reg rs2], by simp [denote16, denoteReg, ha, hb], by legal16_tac, hlt, rfl, ?_⟩
  open_dec16
  simp only [f0, f1, f2, f3, f4, f5, f6, Nat.reduceEqDiff, ↓reduceIte]
  rfl

theorem row_or : Sound16 .or (.ca 1 2 35 []) := by
  intro args w h
  obtain ⟨a, b, rd, rs2, hargs, ha, hb, h8, h15, g8, g15, hcs, hlt, f0, f1, f2, f3, f4, f5, f6⟩ :=
    ca_inv (by omega) (by omega) (by omega) h
  subst hargs
  simp only [Nat.reduceDiv, Nat.reduceMod] at f1 f2 f3
  refine ⟨[.reg rd, .reg rs2], by simp [denote16, denoteReg, ha, hb], by legal16_tac, hlt, rfl, ?_⟩
  open_dec16
  simp only [f0, f1, f2, f3, f4, f5, f6, Nat.reduceEqDiff, ↓reduceIte]
  rfl

theorem row_and : Sound16 .and (.ca 1 3 35 []) := by
  intro args w h
  obtain ⟨a, b, rd, rs2, hargs, ha, hb, h8, h15, g8, g15, hcs, hlt, f0, f1, f2, f3, f4, f5, f6⟩ :=
    ca_inv (by omega) (by omega) (by omega) h
  subst hargs
  simp only [Nat.reduceDiv, Nat.reduceMod] at f1 f2 f3
  refine ⟨[.reg rd, .reg rs2], by simp [denote16, denoteReg, ha, hb], by legal16_tac, hlt, rfl, ?_⟩
  open_dec16
  simp only [f0, f1, f2, f3, f4, f5, f6, Nat.reduceEqDiff, ↓reduceIte]
  rfl

theorem row_j : Sound16 .j (.cj 1 5 []) := by
  intro args w h
  obtain ⟨imm, hargs, hlo, hhi, hm, hcs, hlt, f0, f1, f2⟩ := cj_inv (by omega) (by omega) h
  subst hargs
  refine ⟨[.imm imm], by simp [denote16], by legal16_tac, hlt, rfl, ?_⟩
  open_dec16
  simp only [f0, f1, f2]
  rfl

theorem row_beqz : Sound16 .beqz (.cb 1 6 []) := by
  intro args w h
  obtain ⟨a, imm, rs1, hargs, ha, h8, h15, hlo, hhi, hm, hcs, hlt, f0, f1, f2, f3⟩ :=
    cb_inv (by omega) (by omega) h
  subst hargs
  refine ⟨[.reg rs1, .imm imm], by simp [denote16, denoteReg, ha], by legal16_tac, hlt, rfl, ?_⟩
  open_dec16
  simp only [f0, f1, f2, f3]
  rfl

theorem row_bnez : Sound16 .bnez (.cb 1 7 []) := by
  intro args w h
  obtain ⟨a, imm, rs1, hargs, ha, h8, h15, hlo, hhi, hm, hcs, hlt, f0, f1, f2, f3⟩ :=
    cb_inv (by omega) (by omega) h
  subst hargs
  refine ⟨[.reg rs1, .imm imm], by simp [denote16, denoteReg, ha], by legal16_tac, hlt, rfl, ?_⟩
  open_dec16
  simp only [f0, f1, f2, f3]
  rfl

theorem row_slli : Sound16 .slli (.ci 2 0 [.rdRs1NotZero, .immNotZero, .shamtBit5Zero]) := by
  intro args w h
  obtain ⟨a, imm, rd, hargs, ha, h1, hlo, hhi, hcs, hlt, f0, f1, f2, f3, f4, f5⟩ :=
    ci_inv (by omega) (by omega) h
  subst hargs
  simp [csOk, Constraint.fails] at hcs
  obtain ⟨h0, e1, e2, e3⟩ := shamt_facts hlo hhi hcs.2.1 hcs.2.2
  rw [e1] at f3; rw [e2] at f4
  have g : bits w 2 5 = imm.toNat := by omega
  refine ⟨[.reg rd, .imm imm], by simp [denote16, denoteReg, ha], by legal16_tac, hlt, rfl, ?_⟩
  open_dec16
  simp only [f0, f1, f2, f3, g, Nat.zero_mul, Nat.zero_add, Nat.reduceEqDiff, ↓reduceIte, if_neg hcs.1,
    if_neg e3]
  rfl

theorem row_lwsp : Sound16 .lwsp (.cil 2 2 [.rdRs1NotZero]) := by
  intro args w h
  obtain ⟨a, imm, rd, hargs, ha, h1, hlo, hhi, hm, hcs, hlt, f0, f1, f2, f3⟩ :=
    cil_inv (by omega) (by omega) h
  subst hargs
  simp [csOk, Constraint.fails] at hcs
  refine ⟨[.reg rd, .imm imm], by simp [denote16, denoteReg, ha], by legal16_tac, hlt, rfl, ?_⟩
  open_dec16
  simp only [f0, f1, f2, f3, if_neg hcs]
  rfl

theorem row_jr : Sound16 .jr (.crj 2 8 [.rdRs1NotZero]) := by
  intro args w h
  obtain ⟨a, rd, hargs, ha, h1, hcs, hlt, f0, f1, f2, f3, f4⟩ := crj_inv (by omega) (by omega) h
  subst hargs
  simp [csOk, Constraint.fails] at hcs
  simp only [Nat.reduceDiv, Nat.reduceMod] at f1 f2
  refine ⟨[.reg rd], by simp [denote16, denoteReg, ha], by legal16_tac, hlt, rfl, ?_⟩
  open_dec16
  simp only [f0, f1, f2, f3, f4, Nat.reduceEqDiff, ↓reduceIte, if_neg hcs]
  rfl

theorem row_mv : Sound16 .mv (.cr 2 8 [.rdRs1NotZero, .rs2NotZero]) := by
  intro args w h
  obtain ⟨a, b, rd, rs2, hargs, ha, hb, h1, h2, hcs, hlt, f0, f1, f2, f3, f4⟩ :=
    cr_inv (by omega) (by omega) h
  subst hargs
  simp [csOk, Constraint.fails] at hcs
  simp only [Nat.reduceDiv, Nat.reduceMod] at f1 f2
  refine ⟨[.reg rd, .reg rs2], by simp [denote16, denoteReg, ha, hb], by legal16_tac, hlt, rfl, ?_⟩
  open_dec16
  simp only [f0, f1, f2, f3, f4, Nat.reduceEqDiff, ↓reduceIte, if_neg hcs.1, if_neg hcs.2]
  rfl

theorem row_ebreak : Sound16 .ebreak (.cre 2 9) := by
  intro args w h
  obtain ⟨hargs, hlt, f0, f1, f2, f3, f4⟩ := cre_inv (by omega) (by omega) h
  subst hargs
  simp only [Nat.reduceDiv, Nat.reduceMod] at f1 f2
  refine ⟨[], by simp [denote16], rfl, hlt, rfl, ?_⟩
  open_dec16
  simp only [f0, f1, f2, f3, f4, Nat.reduceEqDiff, ↓reduceIte]
  rfl

theorem row_jalr : Sound16 .jalr (.crj 2 9 [.rdRs1NotZero]) := by
  intro args w h
  obtain ⟨a, rd, hargs, ha, h1, hcs, hlt, f0, f1, f2, f3, f4⟩ := crj_inv (by omega) (by omega) h
  subst hargs
  simp [csOk, Constraint.fails] at hcs
  simp only [Nat.reduceDiv, Nat.reduceMod] at f1 f2
  refine ⟨[.reg rd], by simp [denote16, denoteReg, ha], by legal16_tac, hlt, rfl, ?_⟩
  open_dec16
  simp only [f0, f1, f2, f3, f4, Nat.reduceEqDiff, ↓reduceIte, if_neg hcs]
  rfl

theorem row_add : Sound16 .add (.cr 2 9 [.rdRs1NotZero, .rs2NotZero]) := by
  intro args w h
  obtain ⟨a, b, rd, rs2, hargs, ha, hb, h1, h2, hcs, hlt, f0, f1, f2, f3, f4⟩ :=
    cr_inv (by omega) (by omega) h
  subst hargs
  simp [csOk, Constraint.fails] at hcs
  simp only [Nat.reduceDiv, Nat.reduceMod] at f1 f2
  refine ⟨[.reg rd, .reg rs2], by simp [denote16, denoteReg, ha, hb], by legal16_tac, hlt, rfl, ?_⟩
  open_dec16
  simp only [f0, f1, f2, f3, f4, Nat.reduceEqDiff, ↓reduceIte, if_neg hcs.1, if_neg hcs.2]
  rfl

theorem row_swsp : Sound16 .swsp (.css 2 6 []) := by
  intro args w h
  obtain ⟨a, imm, rs2, hargs, ha, h1, hlo, hhi, hm, hcs, hlt, f0, f1, f2, f3⟩ :=
    css_inv (by omega) (by omega) h
  subst hargs
  refine ⟨[.reg rs2, .imm imm], by simp [denote16, denoteReg, ha], by legal16_tac, hlt, rfl, ?_⟩
  open_dec16
  simp only [f0, f1, f2, f3]
  rfl

/-- **C02, first sentence, for the whole RVC table.**  For every RVC mnemonic and the row the
    instruction table holds for it, every argument list the encoder accepts denotes legal operands
    and the emitted halfword decodes, under the specification, to exactly the instruction the
    source line named. -/
theorem enc16_sound : ∀ c : CMn, ∀ k, instrTable.lookup c.name = some k → Sound16 c k := by
  intro c k hk
  rw [lookup_rowOf c] at hk
  have hk' : rowOf c = k := Option.some.inj hk
  subst hk'
  cases c
  · exact row_addi4spn
  · exact row_lw
  · exact row_sw
  · exact row_nop
  · exact row_addi
  · exact row_jal
  · exact row_li
  · exact row_addi16sp
  · exact row_lui
  · exact row_srli
  · exact row_srai
  · exact row_andi
  · exact row_sub
  · exact row_xor
  · exact row_or
  · exact row_and
  · exact row_j
  · exact row_beqz
  · exact row_bnez
  · exact row_slli
  · exact row_lwsp
  · exact row_jr
  · exact row_mv
  · exact row_ebreak
  · exact row_jalr
  · exact row_add
  · exact row_swsp

theorem classOf16_name {name : String} {c : CMn} (hc : classOf16 name = some c) : c.name = name := by
  unfold classOf16 at hc
  have := List.find?_some hc
  simpa using this

theorem classOf16_self (c : CMn) : classOf16 c.name = some c := by cases c <;> decide

/-- the same statement through `encode` (table lookup by mnemonic) -/
theorem encode16_sound (name : String) (c : CMn) (hc : classOf16 name = some c) (args : List Arg) (w : Nat)
    (h : encode name args = .ok w) :
    ∃ ops, denote16 (rowOf c) args = some ops ∧ legal16 name ops = true ∧ w < 65536 ∧
      (intent16 name ops).isSome ∧ decode16 w = intent16 name ops := by
  have hn := classOf16_name hc
  subst hn
  unfold encode at h
  rw [lookup_rowOf c] at h
  simp only [legal16, intent16, hc]
  exact enc16_sound c (rowOf c) (lookup_rowOf c) args w h

/-- **nothing reserved, HINT or illegal is ever produced**: an accepted RVC call yields a halfword
    the specification decodes. -/
theorem enc16_legal {name : String} {args : List Arg} {h : Nat} {c : CMn}
    (he : encode name args = .ok h) (hc : classOf16 name = some c) : decode16 h ≠ none := by
  obtain ⟨ops, _, _, _, hs, hd⟩ := encode16_sound name c hc args h he
  rw [hd]
  intro hn
  rw [hn] at hs
  simp at hs

/-! ### injectivity -/

/-- operands up to c.lui's documented dual spelling (`c.lui a4, 0xfffff` ≡ `c.lui a4, -1`) -/
def normOps16 (c : CMn) (ops : List Opnd) : List Opnd :=
  match c, ops with
  | .lui, [.reg rd, .imm v] => [.reg rd, .imm (if v ≥ 0xfffe0 then v - 1048576 else v)]
  | _, ops => ops

/-- the operand tuple a decoded RVC instruction is written with (a left inverse of `intentOf16`
    on legal operands): the operand half of its canonical text -/
def opsOf16 (ci : CInstr) : List Opnd := ci.text.2

theorem opsOf16_intent (c : CMn) (ops : List Opnd) (hl : legalOf16 c ops = true) :
    (intentOf16 c ops).map opsOf16 = some (normOps16 c ops) := by
  unfold legalOf16 at hl
  split at hl <;>
    simp only [intentOf16, normOps16, opsOf16, CInstr.text, Option.map_some, Bool.and_eq_true,
      decide_eq_true_eq, uimm, Int.reducePow] at hl ⊢
  all_goals try rfl
  all_goals first
    | (rename_i v
       have hv : ((v.toNat : Nat) : Int) = v := by omega
       rw [hv])
    | (simp at hl)

/-- **C02, second sentence.**  If one RVC mnemonic's encoder maps two argument lists to the same
    halfword, the two lists denote the same operand tuple (up to `normOps16`). -/
theorem enc16_inj (c : CMn) (k : EncKind) (hk : instrTable.lookup c.name = some k)
    (a b : List Arg) (w : Nat) (ha : encodeKind k a = .ok w) (hb : encodeKind k b = .ok w) :
    ∃ oa ob, denote16 k a = some oa ∧ denote16 k b = some ob ∧ normOps16 c oa = normOps16 c ob := by
  obtain ⟨oa, hda, hla, _, _, hia⟩ := enc16_sound c k hk a w ha
  obtain ⟨ob, hdb, hlb, _, _, hib⟩ := enc16_sound c k hk b w hb
  refine ⟨oa, ob, hda, hdb, ?_⟩
  have h1 := opsOf16_intent c oa hla
  have h2 := opsOf16_intent c ob hlb
  rw [← hia] at h1
  rw [← hib, h1] at h2
  exact Option.some.inj h2

/-! ### onto: every legal RVC halfword is the encoding of its canonical text -/

/-- **C02, onto.**  Every halfword the specification decodes is what the encoder emits for that
    instruction's canonical text (kernel evaluation over all 65 536 halfwords, `C02Onto/`). -/
theorem enc16_onto : ∀ h < 65536, ∀ ci, decode16 h = some ci →
    encode ci.text.1 (ci.text.2.map toArg) = .ok h := by
  intro h hlt ci hd
  have hc := ontoChk_all h hlt
  unfold ontoChk at hc
  rw [hd] at hc
  simp only [decide_eq_true_eq] at hc
  unfold encode
  rw [text_fst, lookup_rowOf]
  exact hc

/-- exactly the halfwords `decode16` accepts are produced: encoder image = legal RVC halfwords -/
theorem enc16_image (h : Nat) :
    (∃ c args, encodeKind (rowOf c) args = .ok h) ↔ (decode16 h).isSome := by
  constructor
  · rintro ⟨c, args, he⟩
    obtain ⟨ops, _, _, _, hs, hd⟩ := enc16_sound c (rowOf c) (lookup_rowOf c) args h he
    rw [hd]; exact hs
  · intro hs
    cases hd : decode16 h with
    | none => rw [hd] at hs; simp at hs
    | some ci =>
      have hlt : h < 65536 := by
        by_cases hge : h ≥ 2 ^ 16
        · unfold decode16 at hd; rw [if_pos hge] at hd; simp at hd
        · omega
      have hc := ontoChk_all h hlt
      unfold ontoChk at hc
      rw [hd] at hc
      exact ⟨mnOf ci, _, of_decide_eq_true hc⟩

/-! ### non-vacuity -/

/-- a concrete accepted tuple, its halfword, and what the specification decodes it to -/
example : encode "c.addi" [.r (.str "a0"), .i (-3)] = .ok 0x1575 ∧
    decode16 0x1575 = some (.addi 10 (-3)) := by decide
/-- a compressed-register form: `c.lw a0, 4(s1)` -/
example : encode "c.lw" [.r (.str "a0"), .r (.str "s1"), .i 4] = .ok 0x40c8 ∧
    decode16 0x40c8 = some (.lw 10 9 4) := by decide
/-- a concrete halfword, its canonical text, and the encoder mapping the text back -/
example : (decode16 0x8082).map CInstr.text = some ("c.jr", [.reg 1]) ∧
    encode "c.jr" [toArg (.reg 1)] = .ok 0x8082 := by decide
/-- the dual spelling of c.lui -/
example : encode "c.lui" [.r (.str "a4"), .i 0xfffff] = encode "c.lui" [.r (.int 14), .i (-1)] := by decide
/-- a reserved encoding (c.addi4spn with nzuimm = 0) and a HINT (c.li with rd = 0) are refused -/
example : decode16 0x0000 = none ∧ encode "c.addi4spn" [.r (.str "s0"), .i 0] = .error .value ∧
    encode "c.li" [.r (.str "zero"), .i 1] = .error .value := by decide

end BB.Props.C02
