/-
  BB.Props.C20Program — C20, first sentence ("with -c every eligible instruction is compressed"), at
  the level of the compression PASS and of the whole PROGRAM, for instructions with label-free
  immediates.

  * `no_eligible_left` (pass): after `walk (compressBody …)` no instruction that is still 32-bit, is
    not the jalr of an auipc pair, is well-kinded, label-free, and names an accepted `Instr32` `i`
    has `eligible i` — for every label table and position the naming is read at (label-free makes
    them irrelevant).
  * `labelFree_literal`, `labelFree_neg_literal`, `labelFree_of_closed` / `labelFree_of_parse`: with the front end's
    evaluator, integer literals (any spelling, either sign) and expressions whose names are all CONSTANTS are
    label-free.
  * `assemble_kept_not_eligible`, `assemble_no_eligible_literal_left` (program): in the list held after
    resolve_aligns of a successful `-c` run, every such instruction is not eligible; the second form
    reads everything off the run itself: the item resolves at its own byte offset against the RETURNED
    tables, the four output bytes there are the word `w`, `decode32 w = some i`, and `eligible i = false`.
-/
import BB.Lemmas.CompressLeft
import BB.Lemmas.LayoutAnchor
import BB.Props.C20
import BB.Props.C11
namespace BB.Props.C20
open BB BB.Spec BB.Lemmas
open BB.Props.C03 (Land Finish)
open BB.Props.C04 (Layout layoutOf)

/-- **C20, pass level: no eligible literal instruction is left uncompressed.** -/
theorem no_eligible_left (H : Hooks) (constants : Dict) (items : List Item) (p : Int) (labels : Dict)
    (out : List Item) (labels' : Dict)
    (h : walk (compressBody H constants) items p labels = .ok (out, labels'))
    {line : Line} {ins : Instr} (hmem : Item.instr line ins ∈ out)
    (hnaj : ins.isAuipcJump = false) (hwk : ins.wellKinded = true)
    (hfree : ∀ imm, ins.imm? = some imm → ImmLabelFree H constants imm)
    (L : Dict) (q : Int) {rins : Instr} {i : Instr32}
    (hres : resolveWith (evalAt H (chainGet constants L) line q) ins = some rins)
    (hden : denote32I rins = some i)
    (hacc : ∃ args w, rins.args = some args ∧ encode rins.name args = .ok w) :
    eligible i = false := by
  obtain ⟨_, _, _, hnc⟩ := wellKinded_row hwk
  obtain ⟨q0, L0, hnone⟩ := compress_pass_kept H constants items p labels out labels' h line ins hmem hnc hnaj
  cases hel : eligible i with
  | false => rfl
  | true =>
    obtain ⟨c, hc⟩ := eligible_compressed (H := H) (env := chainGet constants L) (line := line) (p := q)
      hwk hres hden hacc hel
    rw [firstMatch_labelfree hfree L L0 line q q0 criteria, hnone] at hc
    cases hc

/-- the same for `transformCompressible` / `maybeCompress … true` -/
theorem no_eligible_left_pass (H : Hooks) (constants : Dict) (items : List Item) (labels : Dict)
    (out : List Item) (labels' : Dict)
    (h : maybeCompress H true items constants labels = .ok (out, labels'))
    {line : Line} {ins : Instr} (hmem : Item.instr line ins ∈ out)
    (hnaj : ins.isAuipcJump = false) (hwk : ins.wellKinded = true)
    (hfree : ∀ imm, ins.imm? = some imm → ImmLabelFree H constants imm)
    (L : Dict) (q : Int) {rins : Instr} {i : Instr32}
    (hres : resolveWith (evalAt H (chainGet constants L) line q) ins = some rins)
    (hden : denote32I rins = some i)
    (hacc : ∃ args w, rins.args = some args ∧ encode rins.name args = .ok w) :
    eligible i = false := by
  simp only [maybeCompress, if_true, transformCompressible] at h
  exact no_eligible_left H constants items 0 labels out labels' h hmem hnaj hwk hfree L q hres hden hacc

/-- **C20, program level (membership form).**  In a successful `-c` run, `lay.aligned` — where
    `layoutOf H true items = .ok lay`, a function of the inputs (Props/C04) — is the list held after
    resolve_aligns (`Land`: resolved item by item against the returned tables into the blobs of the
    output).  Every instruction of `lay.aligned` that is not the jalr of an auipc pair, is
    well-kinded and label-free, and names (read at ANY tables / position) an accepted instruction
    `i`, has `eligible i = false`. -/
theorem assemble_kept_not_eligible (H : Hooks) (items : List Item) (r : AsmResult)
    (h : assembleItems H true items [] [] = .ok r) :
    ∃ (lay : Layout) (out : List Item), layoutOf H true items = .ok lay ∧ lay.labels = r.labels ∧
      lay.constants = r.constants ∧ Land H r.constants r.labels 0 lay.aligned out ∧ r.bytes = blobBytes out ∧
      ∀ line ins, Item.instr line ins ∈ lay.aligned → ins.isAuipcJump = false → ins.wellKinded = true →
        (∀ imm, ins.imm? = some imm → ImmLabelFree H r.constants imm) →
        ∀ (L : Dict) (q : Int) (rins : Instr) (i : Instr32),
          resolveWith (evalAt H (chainGet r.constants L) line q) ins = some rins → denote32I rins = some i →
          (∃ args w, rins.args = some args ∧ encode rins.name args = .ok w) → eligible i = false := by
  obtain ⟨items1, items2, items3, items4, items6, items7, out, labels2, labels3, labels4, labels6, hlay, e7, h1, h2, h3, h4,
    h6, h7, hland, hbytes⟩ := assemble_anchor H true items r h
  refine ⟨⟨items6, items7, r.constants, r.labels⟩, out, hlay, rfl, rfl, hland, hbytes, ?_⟩
  intro line ins hmem hnaj hwk hfree L q rins i hres hden hacc
  simp only at hmem
  have hmem6 := align_pass_instrs items6 0 labels6 items7 r.labels h7 line ins hmem
  exact no_eligible_left_pass H r.constants _ labels4 items6 labels6 h6 hmem6 hnaj hwk hfree L q hres hden hacc

/-- **C20, program level: in the output of a `-c` run no literal instruction that stayed 32-bit is the
    expansion of a legal RVC instruction.**  For item `i` of `lay.aligned` (the list held after resolve_aligns), if it is
    an instruction that is not the jalr of an auipc pair, is well-kinded (hence 4 bytes) and has a
    label-free immediate, then — all read off the run — it resolves at its own byte offset `off`
    against the returned tables to `rins`; the four output bytes at `off` are the little-endian word
    `w`; the specification decodes `w` to the instruction `i32` that `rins` names; and `i32` is NOT
    eligible. -/
theorem assemble_no_eligible_literal_left (H : Hooks) (items : List Item) (r : AsmResult)
    (h : assembleItems H true items [] [] = .ok r) :
    ∃ (lay : Layout) (out : List Item), layoutOf H true items = .ok lay ∧ lay.labels = r.labels ∧
      lay.constants = r.constants ∧ Land H r.constants r.labels 0 lay.aligned out ∧ r.bytes = blobBytes out ∧
      ∀ (i : Nat) (hi : i < lay.aligned.length) line ins, lay.aligned[i] = .instr line ins →
        ins.isAuipcJump = false → ins.wellKinded = true →
        (∀ imm, ins.imm? = some imm → ImmLabelFree H r.constants imm) →
        ∃ (rins : Instr) (w : Nat) (i32 : Instr32),
          resolveWith (evalAt H (chainGet r.constants r.labels) line ((blobBytes (out.take i)).length : Int)) ins
            = some rins ∧
          (r.bytes.drop (blobBytes (out.take i)).length).take 4 = leBytes 4 w ∧
          decode32 w = some i32 ∧ denote32I rins = some i32 ∧ eligible i32 = false := by
  obtain ⟨lay, out, hlay, hL, hC, hland, hbytes, hall⟩ := assemble_kept_not_eligible H items r h
  refine ⟨lay, out, hlay, hL, hC, hland, hbytes, ?_⟩
  intro i hi line ins hit hnaj hwk hfree
  obtain ⟨it', line', d, _, hbody, hfin, hslice⟩ := hland.at i hi
  rw [hit] at hbody
  simp only [Int.zero_add] at hbody
  obtain ⟨rins, rfl, hres⟩ := immBody_instr_resolve hnaj hbody
  obtain ⟨args, w, ha, he, hd⟩ := finish_instr_bytes hfin
  obtain ⟨k, hk, hs, hnc⟩ := wellKinded_row hwk
  obtain ⟨hname, hcomp⟩ := resolveWith_keeps hres
  rw [hcomp, hnc] at hd
  simp only [Bool.false_eq_true, if_false] at hd
  rw [← hname] at hk
  obtain ⟨i32, hden, hdec, _⟩ := encode_denotes32 hk hs ha he
  refine ⟨rins, w, i32, hres, ?_, hdec, hden, ?_⟩
  · rw [hbytes]
    have hl : d.length = 4 := by rw [hd, leBytes_length]
    rw [hl] at hslice
    rw [hslice]; exact hd
  · have hmem : Item.instr line ins ∈ lay.aligned := by rw [← hit]; exact List.getElem_mem hi
    exact hall line ins hmem hnaj hwk hfree r.labels _ rins i32 hres hden ⟨args, w, ha, he⟩

/-- with the front end's evaluator (`H.arith = evalArith`, as in `textHooks`) an integer literal —
    decimal, hexadecimal or binary — is label-free: its value does not consult the environment -/
theorem labelFree_literal (H : Hooks) (hH : H.arith = evalArith) (constants : Dict) (s : String) (n : Nat)
    (hs : s.toList = BB.Props.C11.decStr n ∨ s.toList = BB.Props.C11.hexStr n ∨ s.toList = BB.Props.C11.binStr n)
    (hlen : s.toList.length ≤ maxExprLen) : ImmLabelFree H constants (.arith s) := by
  intro L L' line p p'
  simp only [Imm.eval, hH, evalArith, BB.Props.C11.lit_arith _ s.toList n hs hlen]

/-! ### label-free expressions in general: negative literals, constant-only expressions -/

/-- the names an expression mentions -/
def astNames : Ast → List String
  | .lit _ => []
  | .name s => [s]
  | .unary _ a => astNames a
  | .binary _ a b => astNames a ++ astNames b

/-- evaluation consults the environment only at the names of the expression -/
theorem evalAst_congr {env env' : String → Option Int} : ∀ (a : Ast), (∀ s ∈ astNames a, env s = env' s) →
    evalAst env a = evalAst env' a
  | .lit _, _ => rfl
  | .name s, h => by simp only [evalAst, h s (by simp [astNames])]
  | .unary op a, h => by simp only [evalAst, evalAst_congr a h]
  | .binary op a b, h => by
    simp only [evalAst, evalAst_congr a (fun s hs => h s (by simp [astNames, hs])),
      evalAst_congr b (fun s hs => h s (by simp [astNames, hs]))]

/-- the same through `Arithmetic.eval`: whatever the text is (too long, a character literal, not an expression
    at all — then the answer does not depend on the environment anyway) -/
theorem evalArithL_congr (l : List Char) (env env' : String → Option Int)
    (h : ∀ toks ast, tokenize l = .ok toks → parseExpr toks = .ok ast → ∀ s ∈ astNames ast, env s = env' s) :
    evalArithL l env = evalArithL l env' := by
  have hpy : evalPy l env = evalPy l env' := by
    unfold evalPy
    cases ht : tokenize l with
    | error e => rfl
    | ok toks =>
      simp only
      cases hp : parseExpr toks with
      | error e => rfl
      | ok ast => simp only [evalAst_congr ast (h toks ast ht hp)]
  unfold evalArithL
  rw [hpy]

/-- **an expression all of whose names are CONSTANTS is label-free** (with the front end's evaluator): its value
    depends neither on the label table nor on the position.  No length bound, no well-formedness needed: a text
    that does not parse evaluates to the same error everywhere. -/
theorem labelFree_of_closed (H : Hooks) (hH : H.arith = evalArith) (constants : Dict) (e : String)
    (hc : ∀ toks ast, tokenize e.toList = .ok toks → parseExpr toks = .ok ast →
      ∀ s ∈ astNames ast, (constants.get s).isSome = true) : ImmLabelFree H constants (.arith e) := by
  intro L L' line p p'
  simp only [Imm.eval, hH, evalArith]
  rw [evalArithL_congr e.toList (chainGet constants L) (chainGet constants L')]
  intro toks ast ht hp s hs
  have := hc toks ast ht hp s hs
  unfold chainGet
  cases hg : constants.get s with
  | none => rw [hg] at this; cases this
  | some v => rfl

/-- the convenient form: the tokens and the syntax tree are given (closed instances: `by decide +kernel`) -/
theorem labelFree_of_parse (H : Hooks) (hH : H.arith = evalArith) (constants : Dict) (e : String)
    {toks : List Tok} {ast : Ast} (ht : tokenize e.toList = .ok toks) (hp : parseExpr toks = .ok ast)
    (hc : ∀ s ∈ astNames ast, (constants.get s).isSome = true) : ImmLabelFree H constants (.arith e) := by
  refine labelFree_of_closed H hH constants e ?_
  intro toks' ast' ht' hp'
  rw [ht] at ht'
  cases ht'
  rw [hp] at hp'
  cases hp'
  exact hc

theorem tokAux_minus (f : Nat) (cs : List Char) : tokAux (f + 1) ('-' :: cs) = (Tok.minus :: ·) <$> tokAux f cs := by
  rw [tokAux.eq_def]
  have d1 : ¬ (('-' : Char) = ' ' ∨ ('-' : Char) = '\t') := by decide
  have d2 : isDigitC '-' = false := by decide
  have d3 : isIdentStart '-' = false := by decide
  have d4 : ¬ (('-' : Char) = '+') := by decide
  simp only [d1, d2, d3, d4, if_false, Bool.false_eq_true, if_true]

/-- a leading `-` is one more token -/
theorem tokenize_minus {l : List Char} {toks : List Tok} (h : tokenize l = .ok toks) :
    tokenize ('-' :: l) = .ok (.minus :: toks) := by
  unfold tokenize at h ⊢
  by_cases ha : l.all allowedChar = true
  · rw [if_pos ha] at h
    have ha' : ('-' :: l).all allowedChar = true := by
      rw [List.all_cons, ha]; decide
    rw [if_pos ha']
    have e1 : ('-' :: l).length + 1 = (l.length + 1) + 1 := rfl
    rw [e1, tokAux_minus, h]
    rfl
  · rw [if_neg ha] at h
    cases h

/-- **a negative integer literal** — `-` followed by a decimal, hexadecimal or binary numeral — is label-free -/
theorem labelFree_neg_literal (H : Hooks) (hH : H.arith = evalArith) (constants : Dict) (s : String) (n : Nat)
    (hs : s.toList = '-' :: BB.Props.C11.decStr n ∨ s.toList = '-' :: BB.Props.C11.hexStr n ∨
      s.toList = '-' :: BB.Props.C11.binStr n) : ImmLabelFree H constants (.arith s) := by
  have ht : tokenize s.toList = .ok [.minus, .num n] := by
    rcases hs with h | h | h <;> rw [h]
    · exact tokenize_minus (tokenize_dec n)
    · exact tokenize_minus (tokenize_hex n)
    · exact tokenize_minus (tokenize_bin n)
  exact labelFree_of_parse H hH constants s ht (ast := .unary .neg (.lit n)) rfl (by intro s hs; simp [astNames] at hs)

/-- instances with the text front end's hooks: `-32`, `-0x20`, and `K + 2` where `K` is a constant -/
example (fs : FS) (cs : Dict) : ImmLabelFree (textHooks fs) cs (.arith "-32") :=
  labelFree_neg_literal (textHooks fs) rfl cs "-32" 32 (Or.inl (by decide +kernel))
example (fs : FS) (cs : Dict) : ImmLabelFree (textHooks fs) cs (.arith "-0x20") :=
  labelFree_neg_literal (textHooks fs) rfl cs "-0x20" 32 (Or.inr (Or.inl (by decide +kernel)))
example (fs : FS) : ImmLabelFree (textHooks fs) [("K", 16)] (.arith "4 * (K + 2)") :=
  labelFree_of_parse (textHooks fs) rfl [("K", 16)] "4 * (K + 2)"
    (toks := [.num 4, .star, .lparen, .name "K", .plus, .num 2, .rparen])
    (ast := .binary .mul (.lit 4) (.binary .add (.name "K") (.lit 2)))
    (by decide +kernel) (by decide +kernel)
    (by intro s hs; simp only [astNames, List.nil_append, List.append_nil, List.mem_singleton] at hs; subst hs; rfl)

/-! ### non-vacuity: a two-instruction program -/

/-- hooks whose arithmetic knows three names: K = 100, M = −32, Z = 0 (no labels involved) -/
def Hkm : Hooks :=
  { arith := fun e _ => if e = "K" then .ok 100 else if e = "M" then .ok (-32) else if e = "Z" then .ok 0 else .error .error
    parseImm := fun _ _ => .error (.internal "unused")
    readFile := fun _ => none }

def l1 : Line := ⟨"f", 1, ""⟩
def l2 : Line := ⟨"f", 2, ""⟩

/-- `addi a0, a1, K ; addi sp, sp, M` -/
def prog : List Item :=
  [.instr l1 (.i "addi" (.str "a0") (.str "a1") (.arith "K") false),
   .instr l2 (.i "addi" (.str "sp") (.str "sp") (.arith "M") false)]

/-- the `-c` run succeeds: the first instruction stays 32-bit (`addi a0, a1, 100` = 0x06458513), the
    second becomes `c.addi16sp -32` (0x713d) -/
example : assembleItems Hkm true prog [] [] =
    .ok { bytes := [0x13, 0x85, 0x45, 0x06, 0x3d, 0x71], labels := [], constants := [] } := by decide

/-- … and the instruction that stayed is well-kinded, label-free, names `addi x10, x11, 100`, which is
    indeed not eligible (while the one that was compressed is) -/
example : (Instr.i "addi" (.str "a0") (.str "a1") (.arith "K") false).wellKinded = true ∧
    denote32I (.i "addi" (.str "a0") (.str "a1") (.value 100) false) = some (.i .addi 10 11 100) ∧
    decode32 0x06458513 = some (.i .addi 10 11 100) ∧
    eligible (.i .addi 10 11 100) = false ∧ eligible (.i .addi 2 2 (-32)) = true := by decide
example : ImmLabelFree Hkm [] (.arith "K") := fun _ _ _ _ _ => rfl

/-- why `isAuipcJump = false` is asked: the jalr of an auipc pair is deliberately kept (fix F3) even when
    its low part is 0, and `jalr x1, x1, 0` is the expansion of `c.jalr x1` -/
example : compressBody Hkm [] (.instr l1 (.i "jalr" (.str "x1") (.str "x1") (.arith "Z") true)) 0 []
      = .ok ([.instr l1 (.i "jalr" (.str "x1") (.str "x1") (.arith "Z") true)], 0) ∧
    eligible (.jalr 1 1 0) = true ∧
    compressBody Hkm [] (.instr l1 (.i "jalr" (.str "x1") (.str "x1") (.arith "Z") false)) 0 []
      = .ok ([.instr l1 (.crj "c.jalr" (.str "x1") false)], 2) := by decide

/-- `labelFree_literal` applies to the text front end's hooks: `100` is label-free there -/
example (fs : FS) : ImmLabelFree (textHooks fs) [] (.arith "100") :=
  labelFree_literal (textHooks fs) rfl [] "100" 100 (Or.inl (by decide)) (by decide)

end BB.Props.C20
