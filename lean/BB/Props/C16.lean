/-
  BB.Props.C16 — "Assembly is a pure, deterministic function of its inputs."

  The theorem side of C16 is small, and is stated as what it is.  `assembleText` is a Lean function:
  equal inputs give equal outputs by construction (`assemble_pure` is `congrArg`, nothing more).
  What the model can add is a *history* semantics: a sequence of `assemble()` calls in one
  interpreter, with the module-level tables of asm.py (`REGISTERS`, `INSTRUCTIONS`, the
  `*_TYPE_INSTRUCTIONS` dictionaries, `PSEUDO_INSTRUCTIONS`, `BASE_OFFSET_INSTRUCTIONS`,
  `NUMERIC_SEQUENCE_NAMES`, `SHORTHAND_PACK_NAMES`) threaded through the calls as explicit state.
  `history_independent` records that, in the model, every call's result is the stand-alone
  `assembleText` result and the tables come out as they went in.  This holds *by construction* — no
  pass of the model takes the tables as mutable state — so the theorem documents the shape of the
  model rather than discovering anything about the code.  **The weight of C16 is carried by the history
  correspondence of harness/props/c16.py**: the real `asm.assemble()` is run through seeded histories
  (different programs, failing ones interleaved, fresh / absent / reused-and-cleared / equal-content
  caller dictionaries, both modes), every result is compared with this history-free model and with
  every other occurrence of the same call, the module tables are snapshotted around each history, and
  the command line is run in fresh processes under different hash seeds.
-/
import BB.Read
namespace BB.Props.C16
open BB

/-- the module-level name tables the model reads (fixed at import time in asm.py) -/
structure Tables where
  registers : List (String × Nat)
  mnemonics : List String
  formats : List (String × List String)
  pseudo : List String
  baseOffset : List String
  sequences : List String
  shorthands : List String
  deriving DecidableEq, Repr

/-- the tables as the model has them (proved equal to the live module's in BB.Props.Tables /
    BB.Props.TablesFront) -/
def moduleTables : Tables :=
  { registers := registersStrKeys
    mnemonics := instrTable.map Prod.fst
    formats := formatDicts
    pseudo := pseudoInstructionNames
    baseOffset := baseOffsetNames
    sequences := numericSequenceNamesM
    shorthands := shorthandPackNamesM }

/-- everything one `assemble()` call is given: the filesystem it reads, the working directory, the
    include directories, the compression flag, the source text or path, and the contents of the
    `constants` / `labels` dictionaries the caller passes in (`[]` = a fresh or absent dictionary) -/
structure Call where
  fs : FS
  cwd : String
  includeDirs : List String
  compress : Bool
  input : Input
  constants : Dict := []
  labels : Dict := []

abbrev Result := Except Err AsmResult

/-- `assemble(path_or_source, constants=…, labels=…, compress=…, include_dirs=…)`, stand-alone -/
def standalone (c : Call) : Result := do
  let items ← frontEnd c.fs c.cwd c.includeDirs c.input
  assembleItems (textHooks c.fs) c.compress items c.constants c.labels

/-- with fresh dictionaries this is `assembleText` -/
theorem standalone_fresh (fs : FS) (cwd : String) (dirs : List String) (compress : Bool) (input : Input) :
    standalone { fs := fs, cwd := cwd, includeDirs := dirs, compress := compress, input := input } =
      assembleText fs cwd dirs compress input := rfl

/-- one call inside an interpreter whose module tables are `t`: the call may read the tables; the
    model's passes have no way to write them, so they are handed on unchanged -/
def callStep (t : Tables) (c : Call) : Result × Tables := (standalone c, t)

/-- a history: the calls are made one after the other in the same interpreter -/
def runHistory : Tables → List Call → List Result × Tables
  | t, [] => ([], t)
  | t, c :: rest =>
    let (r, t') := callStep t c
    let (rs, t'') := runHistory t' rest
    (r :: rs, t'')

/-- **Trivial by construction**: a function applied to equal inputs gives equal outputs. -/
theorem assemble_pure (fs : FS) (cwd : String) (dirs : List String) (compress : Bool) (input : Input)
    (fs' : FS) (cwd' : String) (dirs' : List String) (compress' : Bool) (input' : Input)
    (h1 : fs = fs') (h2 : cwd = cwd') (h3 : dirs = dirs') (h4 : compress = compress') (h5 : input = input') :
    assembleText fs cwd dirs compress input = assembleText fs' cwd' dirs' compress' input' := by
  subst h1 h2 h3 h4 h5; rfl

/-- the dictionaries a caller passes in are inputs: equal contents, equal result (again `congrArg`);
    different contents are a different call -/
theorem caller_dicts_are_inputs (c : Call) (constants labels : Dict)
    (h1 : constants = c.constants) (h2 : labels = c.labels) :
    standalone { c with constants := constants, labels := labels } = standalone c := by
  subst h1 h2; rfl

/-- **What the history model records**: every call's result equals the stand-alone result, whatever
    was assembled before it (successfully or not), and the module tables are unchanged.  True by
    construction of `callStep`; see the header. -/
theorem history_independent (t : Tables) (calls : List Call) :
    (runHistory t calls).1 = calls.map standalone ∧ (runHistory t calls).2 = t := by
  induction calls generalizing t with
  | nil => exact ⟨rfl, rfl⟩
  | cons c rest ih =>
    obtain ⟨i1, i2⟩ := ih t
    simp only [runHistory, callStep, List.map_cons]
    exact ⟨by rw [i1], i2⟩

/-- consequence: the same call gives the same result at any position of any two histories -/
theorem history_order_irrelevant (t t' : Tables) (h1 h2 : List Call) (i j : Nat) (c : Call)
    (hi : h1[i]? = some c) (hj : h2[j]? = some c) :
    (runHistory t h1).1[i]? = (runHistory t' h2).1[j]? := by
  rw [(history_independent t h1).1, (history_independent t' h2).1]
  simp [List.getElem?_map, hi, hj]

/-- non-vacuity: a history of a failing call followed by two identical succeeding ones -/
example :
    let ok : Call := { fs := ⟨[], ["/"]⟩, cwd := "/", includeDirs := [], compress := true, input := .source "nop\n" }
    let bad : Call := { ok with input := .source "beq x5, x6, nowhere\n" }
    (runHistory moduleTables [bad, ok, ok]).1 = [standalone bad, standalone ok, standalone ok] ∧
    (runHistory moduleTables [bad, ok, ok]).2 = moduleTables :=
  history_independent moduleTables _

end BB.Props.C16
