import BB.Props.C02Onto.Defs
namespace BB.Props.C02
set_option maxRecDepth 100000 in
theorem onto_chunk08 : allBelow ontoChk 32768 4096 = true := by decide +kernel
end BB.Props.C02
