import BB.Props.C02Onto.Defs
namespace BB.Props.C02
set_option maxRecDepth 100000 in
theorem onto_chunk07 : allBelow ontoChk 28672 4096 = true := by decide +kernel
end BB.Props.C02
