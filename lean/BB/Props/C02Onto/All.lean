/-
  BB.Props.C02Onto.All — the 16 kernel-evaluated chunks assembled: `ontoChk` holds on every halfword.
-/
import BB.Props.C02Onto.Chunk00
import BB.Props.C02Onto.Chunk01
import BB.Props.C02Onto.Chunk02
import BB.Props.C02Onto.Chunk03
import BB.Props.C02Onto.Chunk04
import BB.Props.C02Onto.Chunk05
import BB.Props.C02Onto.Chunk06
import BB.Props.C02Onto.Chunk07
import BB.Props.C02Onto.Chunk08
import BB.Props.C02Onto.Chunk09
import BB.Props.C02Onto.Chunk10
import BB.Props.C02Onto.Chunk11
import BB.Props.C02Onto.Chunk12
import BB.Props.C02Onto.Chunk13
import BB.Props.C02Onto.Chunk14
import BB.Props.C02Onto.Chunk15
namespace BB.Props.C02
open BB BB.Spec

theorem ontoChk_all (h : Nat) (hlt : h < 65536) : ontoChk h = true := by
  have hq : h / 4096 < 16 := by omega
  have hlo : 4096 * (h / 4096) ≤ h := by omega
  have hhi : h < 4096 * (h / 4096) + 4096 := by omega
  generalize h / 4096 = q at hq hlo hhi
  match q, hq with
  | 0, _ => exact allBelow_spec onto_chunk00 h hlo hhi
  | 1, _ => exact allBelow_spec onto_chunk01 h hlo hhi
  | 2, _ => exact allBelow_spec onto_chunk02 h hlo hhi
  | 3, _ => exact allBelow_spec onto_chunk03 h hlo hhi
  | 4, _ => exact allBelow_spec onto_chunk04 h hlo hhi
  | 5, _ => exact allBelow_spec onto_chunk05 h hlo hhi
  | 6, _ => exact allBelow_spec onto_chunk06 h hlo hhi
  | 7, _ => exact allBelow_spec onto_chunk07 h hlo hhi
  | 8, _ => exact allBelow_spec onto_chunk08 h hlo hhi
  | 9, _ => exact allBelow_spec onto_chunk09 h hlo hhi
  | 10, _ => exact allBelow_spec onto_chunk10 h hlo hhi
  | 11, _ => exact allBelow_spec onto_chunk11 h hlo hhi
  | 12, _ => exact allBelow_spec onto_chunk12 h hlo hhi
  | 13, _ => exact allBelow_spec onto_chunk13 h hlo hhi
  | 14, _ => exact allBelow_spec onto_chunk14 h hlo hhi
  | 15, _ => exact allBelow_spec onto_chunk15 h hlo hhi
  | n + 16, hn => omega

end BB.Props.C02
