/-
  BB.Props.C02Onto.Defs — the Boolean check behind `enc16_onto` (every halfword the specification
  calls a legal RV32C instruction is produced by the encoder from its canonical text), shared by
  the 16 chunk files that evaluate it over all 65 536 halfwords in the kernel.
-/
import BB.InstrTable
import BB.Spec.Legal
namespace BB.Props.C02
open BB BB.Spec

/-- an operand written as an encoder argument: registers as ints (what `resolve_register_aliases`
    leaves for a constant, and what `lookup_register` accepts), immediates by value -/
def toArg : Opnd → Arg
  | .reg n => .r (.int n)
  | .imm v => .i v

/-- the INSTRUCTIONS row of each RVC mnemonic (`lookup_rowOf` in Props/C02 proves it is the table's) -/
def rowOf : CMn → EncKind
  | .addi4spn => .ciw 0b00 0b000 [.immNotZero]
  | .lw => .cl 0b00 0b010 []
  | .sw => .cs 0b00 0b110 []
  | .nop => .cin 0b01 0b000
  | .addi => .ci 0b01 0b000 [.rdRs1NotZero, .immNotZero]
  | .jal => .cj 0b01 0b001 []
  | .li => .ci 0b01 0b010 [.rdRs1NotZero]
  | .addi16sp => .cia 0b01 0b011 [.immNotZero]
  | .lui => .ciu 0b01 0b011 [.rdRs1NotZero, .rdRs1NotTwo, .immNotZero]
  | .srli => .cbi 0b01 0b00 0b100 [.immNotZero, .shamtBit5Zero]
  | .srai => .cbi 0b01 0b01 0b100 [.immNotZero, .shamtBit5Zero]
  | .andi => .cbi 0b01 0b10 0b100 []
  | .sub => .ca 0b01 0b00 0b100011 []
  | .xor => .ca 0b01 0b01 0b100011 []
  | .or => .ca 0b01 0b10 0b100011 []
  | .and => .ca 0b01 0b11 0b100011 []
  | .j => .cj 0b01 0b101 []
  | .beqz => .cb 0b01 0b110 []
  | .bnez => .cb 0b01 0b111 []
  | .slli => .ci 0b10 0b000 [.rdRs1NotZero, .immNotZero, .shamtBit5Zero]
  | .lwsp => .cil 0b10 0b010 [.rdRs1NotZero]
  | .jr => .crj 0b10 0b1000 [.rdRs1NotZero]
  | .mv => .cr 0b10 0b1000 [.rdRs1NotZero, .rs2NotZero]
  | .ebreak => .cre 0b10 0b1001
  | .jalr => .crj 0b10 0b1001 [.rdRs1NotZero]
  | .add => .cr 0b10 0b1001 [.rdRs1NotZero, .rs2NotZero]
  | .swsp => .css 0b10 0b110 []

/-- the mnemonic of a decoded RVC instruction -/
def mnOf : CInstr → CMn
  | .addi4spn .. => .addi4spn | .lw .. => .lw | .sw .. => .sw | .nop => .nop | .addi .. => .addi
  | .jal .. => .jal | .li .. => .li | .addi16sp .. => .addi16sp | .lui .. => .lui | .srli .. => .srli
  | .srai .. => .srai | .andi .. => .andi | .sub .. => .sub | .xor .. => .xor | .or .. => .or
  | .and .. => .and | .j .. => .j | .beqz .. => .beqz | .bnez .. => .bnez | .slli .. => .slli
  | .lwsp .. => .lwsp | .jr .. => .jr | .mv .. => .mv | .ebreak => .ebreak | .jalr .. => .jalr
  | .add .. => .add | .swsp .. => .swsp

theorem text_fst (ci : CInstr) : ci.text.1 = (mnOf ci).name := by cases ci <;> rfl

/-- `true` iff the halfword is not a legal RVC instruction, or the encoder row of its mnemonic maps
    its canonical operands back to exactly this halfword -/
def ontoChk (h : Nat) : Bool :=
  match decode16 h with
  | none => true
  | some ci => decide (encodeKind (rowOf (mnOf ci)) (ci.text.2.map toArg) = .ok h)

/-- `f` holds on `base, …, base + n - 1` -/
def allBelow (f : Nat → Bool) (base : Nat) : Nat → Bool
  | 0 => true
  | n + 1 => f (base + n) && allBelow f base n

theorem allBelow_spec {f : Nat → Bool} {base : Nat} :
    ∀ {n : Nat}, allBelow f base n = true → ∀ h, base ≤ h → h < base + n → f h = true := by
  intro n
  induction n with
  | zero => intro _ h h1 h2; omega
  | succ n ih =>
    intro hall h h1 h2
    simp only [allBelow, Bool.and_eq_true] at hall
    by_cases he : h = base + n
    · rw [he]; exact hall.1
    · exact ih hall.2 h h1 (by omega)

end BB.Props.C02
