import BB.Props.C02Onto.Defs
namespace BB.Props.C02
set_option maxRecDepth 100000 in
theorem onto_chunk04 : allBelow ontoChk 16384 4096 = true := by decide +kernel
end BB.Props.C02
