/-
  BB.Props.C03Transfers — second half of C03: the encoded offset of every pc-relative transfer,
  decoded by the specification, points at the value the label table gives for its target.

  Each theorem takes ONE instruction item as `resolve_immediates` + `resolve_instructions` process it
  at layout position `p` with label table `L` (`imm_walk_positions`: p is the item's own position;
  `assemble_layout`: L is the table of final byte offsets, p the byte offset of the item), and concludes
  about the bytes that end up in the output: they are the little-endian word / halfword of an
  instruction which the specification decodes to the right operation whose target `p + offset` equals
  the label's value.  No bound on distances: whatever the encoder accepts lands exactly; what it cannot
  represent is refused (C06), never wrapped.
-/
import BB.Props.C08
import BB.Props.C01
import BB.Props.C02
import BB.Props.C07
namespace BB.Props.C03
open BB BB.Spec BB.Lemmas

/-- bytes of one instruction item after resolve_instructions -/
theorem instrStep_bytes {line : Line} {ins : Instr} {out : Item}
    (h : instrStep (.instr line ins) = .ok out) :
    ∃ args w, ins.args = some args ∧ encode ins.name args = .ok w ∧
      out = .blob line (leBytes (if ins.isCompressed then 2 else 4) w) := by
  simp only [instrStep, bind, Except.bind] at h
  cases he : encodeInstr line ins with
  | error e => simp [he] at h
  | ok bs =>
    simp only [he, pure, Except.pure, Except.ok.injEq] at h
    unfold encodeInstr at he
    cases ha : ins.args with
    | none => simp [ha] at he
    | some args =>
      simp only [ha] at he
      cases hw : encode ins.name args with
      | error e => cases e <;> simp [hw] at he
      | ok w =>
        simp only [hw, Except.ok.injEq] at he
        exact ⟨args, w, rfl, hw, by rw [← h, ← he]⟩

/-- conditional branches (`beq … bgeu`, and the pseudo-branches that expand to them) -/
theorem branch_lands (H : Hooks) (constants L : Dict) (line : Line) (name : String) (rs1 rs2 : RegOp)
    (ref : String) (p : Int) (o : BrOp) (op f3 : Nat)
    (hrow : instrTable.lookup name = some (.b op f3)) (hc : classOf name = some (.br o))
    (it' out : Item)
    (h1 : immBody H constants (.instr line (.b name rs1 rs2 (.offset ref))) p L = .ok ([it'], 0))
    (h2 : instrStep it' = .ok out) :
    ∃ w r1 r2 v d, out = .blob line (leBytes 4 w) ∧ decode32 w = some (.branch o r1 r2 v) ∧
      lookupRegister rs1 = some r1 ∧ lookupRegister rs2 = some r2 ∧
      chainGet constants L ref = some d ∧ p + v = d := by
  obtain ⟨v, hv, rfl⟩ := C08.instr_item_value H constants L line _ (.offset ref) p it' rfl h1
  simp only [Instr.isAuipcJump, Bool.false_eq_true, if_false] at hv
  obtain ⟨d, hd, hvd⟩ := C08.offset_value H _ line ref p v hv
  obtain ⟨args, w, hargs, henc, hout⟩ := instrStep_bytes h2
  simp only [Instr.setImm, Instr.args, Option.some.injEq] at hargs
  subst hargs
  simp only [Instr.setImm, Instr.name] at henc
  have hmem := lookup_mem hrow
  obtain ⟨ops, hden, hleg, hlt, hsome, hdec⟩ :=
    C01.encode32_sound name (.b op f3) hrow rfl _ w henc
  simp only [C01.denote32, C01.denoteReg, bind, Option.bind] at hden
  cases hr1 : lookupRegister rs1 with
  | none => simp [hr1] at hden
  | some r1 =>
    cases hr2 : lookupRegister rs2 with
    | none => simp [hr1, hr2] at hden
    | some r2 =>
      simp only [hr1, hr2, Option.map_some, pure, Option.some.injEq] at hden
      subst hden
      simp only [intent32, hc, intentOf] at hdec
      refine ⟨w, r1, r2, v, d, ?_, hdec, rfl, rfl, hd, by omega⟩
      simpa [Instr.setImm, Instr.isCompressed] using hout

/-- `jal rd, L` (and `j`, `jal`, near `call` / `tail`) -/
theorem jal_lands (H : Hooks) (constants L : Dict) (line : Line) (name : String) (rd : RegOp)
    (ref : String) (p : Int) (op : Nat)
    (hrow : instrTable.lookup name = some (.j op)) (hc : classOf name = some .jal)
    (it' out : Item)
    (h1 : immBody H constants (.instr line (.j name rd (.offset ref))) p L = .ok ([it'], 0))
    (h2 : instrStep it' = .ok out) :
    ∃ w r v d, out = .blob line (leBytes 4 w) ∧ decode32 w = some (.jal r v) ∧
      lookupRegister rd = some r ∧ chainGet constants L ref = some d ∧ p + v = d := by
  obtain ⟨v, hv, rfl⟩ := C08.instr_item_value H constants L line _ (.offset ref) p it' rfl h1
  simp only [Instr.isAuipcJump, Bool.false_eq_true, if_false] at hv
  obtain ⟨d, hd, hvd⟩ := C08.offset_value H _ line ref p v hv
  obtain ⟨args, w, hargs, henc, hout⟩ := instrStep_bytes h2
  simp only [Instr.setImm, Instr.args, Option.some.injEq] at hargs
  subst hargs
  simp only [Instr.setImm, Instr.name] at henc
  obtain ⟨ops, hden, hleg, hlt, hsome, hdec⟩ := C01.encode32_sound name (.j op) hrow rfl _ w henc
  simp only [C01.denote32, C01.denoteReg, bind, Option.bind] at hden
  cases hr : lookupRegister rd with
  | none => simp [hr] at hden
  | some r =>
    simp only [hr, Option.map_some, pure, Option.some.injEq] at hden
    subst hden
    simp only [intent32, hc, intentOf] at hdec
    refine ⟨w, r, v, d, ?_, hdec, rfl, hd, by omega⟩
    simpa [Instr.setImm, Instr.isCompressed] using hout

/-- `c.j` / `c.jal` -/
theorem cj_lands (H : Hooks) (constants L : Dict) (line : Line) (name : String) (c : CMn)
    (ref : String) (p : Int) (hc : classOf16 name = some c) (hcj : c = .j ∨ c = .jal)
    (it' out : Item)
    (h1 : immBody H constants (.instr line (.cj name (.offset ref))) p L = .ok ([it'], 0))
    (h2 : instrStep it' = .ok out) :
    ∃ w v d, out = .blob line (leBytes 2 w) ∧
      decode16 w = some (if c = .j then CInstr.j v else CInstr.jal v) ∧
      chainGet constants L ref = some d ∧ p + v = d := by
  obtain ⟨v, hv, rfl⟩ := C08.instr_item_value H constants L line _ (.offset ref) p it' rfl h1
  simp only [Instr.isAuipcJump, Bool.false_eq_true, if_false] at hv
  obtain ⟨d, hd, hvd⟩ := C08.offset_value H _ line ref p v hv
  obtain ⟨args, w, hargs, henc, hout⟩ := instrStep_bytes h2
  simp only [Instr.setImm, Instr.args, Option.some.injEq] at hargs
  subst hargs
  simp only [Instr.setImm, Instr.name] at henc
  obtain ⟨ops, hden, hleg, hlt, hsome, hdec⟩ := C02.encode16_sound name c hc _ w henc
  refine ⟨w, v, d, by simpa [Instr.setImm, Instr.isCompressed] using hout, ?_, hd, by omega⟩
  rcases hcj with rfl | rfl
  · simp only [C02.rowOf, C02.denote16, Option.some.injEq] at hden
    subst hden
    simpa [intent16, hc, intentOf16] using hdec
  · simp only [C02.rowOf, C02.denote16, Option.some.injEq] at hden
    subst hden
    simpa [intent16, hc, intentOf16] using hdec

/-- `c.beqz` / `c.bnez` -/
theorem cb_lands (H : Hooks) (constants L : Dict) (line : Line) (name : String) (c : CMn) (rs1 : RegOp)
    (ref : String) (p : Int) (hc : classOf16 name = some c) (hcb : c = .beqz ∨ c = .bnez)
    (it' out : Item)
    (h1 : immBody H constants (.instr line (.cb name rs1 (.offset ref))) p L = .ok ([it'], 0))
    (h2 : instrStep it' = .ok out) :
    ∃ w r v d, out = .blob line (leBytes 2 w) ∧
      decode16 w = some (if c = .beqz then CInstr.beqz r v else CInstr.bnez r v) ∧
      lookupRegister rs1 = some r ∧ chainGet constants L ref = some d ∧ p + v = d := by
  obtain ⟨v, hv, rfl⟩ := C08.instr_item_value H constants L line _ (.offset ref) p it' rfl h1
  simp only [Instr.isAuipcJump, Bool.false_eq_true, if_false] at hv
  obtain ⟨d, hd, hvd⟩ := C08.offset_value H _ line ref p v hv
  obtain ⟨args, w, hargs, henc, hout⟩ := instrStep_bytes h2
  simp only [Instr.setImm, Instr.args, Option.some.injEq] at hargs
  subst hargs
  simp only [Instr.setImm, Instr.name] at henc
  obtain ⟨ops, hden, hleg, hlt, hsome, hdec⟩ := C02.encode16_sound name c hc _ w henc
  rcases hcb with rfl | rfl
  · simp only [C02.rowOf, C02.denote16, C01.denoteReg, bind, Option.bind] at hden
    cases hr : lookupRegister rs1 with
    | none => simp [hr] at hden
    | some r =>
      simp only [hr, Option.map_some, pure, Option.some.injEq] at hden
      subst hden
      exact ⟨w, r, v, d, by simpa [Instr.setImm, Instr.isCompressed] using hout,
        by simpa [intent16, hc, intentOf16] using hdec, rfl, hd, by omega⟩
  · simp only [C02.rowOf, C02.denote16, C01.denoteReg, bind, Option.bind] at hden
    cases hr : lookupRegister rs1 with
    | none => simp [hr] at hden
    | some r =>
      simp only [hr, Option.map_some, pure, Option.some.injEq] at hden
      subst hden
      exact ⟨w, r, v, d, by simpa [Instr.setImm, Instr.isCompressed] using hout,
        by simpa [intent16, hc, intentOf16] using hdec, rfl, hd, by omega⟩

/-- far `call` / `tail`: the auipc at position p carries %hi(d − p), the jalr at p + 4 — marked
    is_auipc_jump, hence evaluated at (p + 4) − 4 = p — carries %lo(d − p) of the SAME offset; by C07
    (`pair_rebuilds`) the pair reaches p + (d − p) = d modulo 2^32 -/
theorem far_pair_offsets (H : Hooks) (constants L : Dict) (line : Line) (rdA rdJ rsJ : RegOp)
    (ref : String) (p : Int) (itA itJ : Item)
    (hA : immBody H constants (.instr line (.u "auipc" rdA (.hi (.offset ref)))) p L = .ok ([itA], 0))
    (hJ : immBody H constants (.instr line (.i "jalr" rdJ rsJ (.lo (.offset ref)) true)) (p + 4) L = .ok ([itJ], 0)) :
    ∃ d, chainGet constants L ref = some d ∧
      itA = .instr line (.u "auipc" rdA (.value (relocateHi (d - p)))) ∧
      itJ = .instr line (.i "jalr" rdJ rsJ (.value (relocateLo (d - p))) true) ∧
      (((relocateHi (d - p) % 1048576) * 4096) % 4294967296 + relocateLo (d - p)) % 4294967296
        = (d - p) % 4294967296 := by
  obtain ⟨vA, hvA, rfl⟩ := C08.instr_item_value H constants L line _ (.hi (.offset ref)) p itA rfl hA
  obtain ⟨vJ, hvJ, rfl⟩ := C08.instr_item_value H constants L line _ (.lo (.offset ref)) (p + 4) itJ rfl hJ
  simp only [Instr.isAuipcJump, Bool.false_eq_true, if_false, if_true] at hvA hvJ
  obtain ⟨xA, hxA, rfl⟩ := C08.hi_value H _ line _ p vA hvA
  obtain ⟨xJ, hxJ, rfl⟩ := C08.lo_value H _ line _ (p + 4 - 4) vJ hvJ
  obtain ⟨d, hd, rfl⟩ := C08.offset_value H _ line ref p xA hxA
  obtain ⟨d', hd', rfl⟩ := C08.offset_value H _ line ref (p + 4 - 4) xJ hxJ
  rw [hd] at hd'
  have : d' = d := (Option.some.inj hd').symm
  subst this
  have e : d' - (p + 4 - 4) = d' - p := by omega
  refine ⟨d', hd, rfl, by simp only [Instr.setImm, e], ?_⟩
  exact C07.pair_rebuilds (d' - p)

/-- non-vacuity: `beq x1, x2, L` at byte 4 with L at byte 12 resolves and encodes; the bytes decode to a
    branch whose offset is 8 -/
example :
    let H : Hooks := ⟨fun _ _ => .ok 0, fun _ _ => .ok (.value 0), fun _ => none⟩
    let line : Line := ⟨"f", 1, ""⟩
    immBody H [] (.instr line (.b "beq" (.int 1) (.int 2) (.offset "L"))) 4 [("L", 12)]
      = .ok ([.instr line (.b "beq" (.int 1) (.int 2) (.value 8))], 0) ∧
    instrStep (.instr line (.b "beq" (.int 1) (.int 2) (.value 8))) = .ok (.blob line [0x63, 0x84, 0x20, 0x00]) ∧
    decode32 0x00208463 = some (.branch .beq 1 2 8) := by decide

end BB.Props.C03
