/-
  BB.Props.C14 — include is textual splicing, resolved independently of the working directory.

  Model: BB.Read (`FS`, `lookupPath`, `readLinesAux`, `frontEnd`, `assembleText`).
  * `cwd_irrelevant`            assembling a file given by its absolute path with absolute -i
                                directories never consults the working directory — TRUE BY
                                CONSTRUCTION: the model's `.path` branch does not mention `cwd`,
                                and relative paths / relative -i directories are `unsupported`
                                (on both sides), so this theorem carries no information about
                                them; harness/props/c14.py tests the real tool from several
                                working directories;
  * `include_is_splice`         in `read_lines`, an `include F` line contributes exactly the lines
                                `read_lines` returns for the file the search finds (-i directories in
                                order, then the including file's directory), read relative to THAT
                                file's directory — recursively, to any depth (induction is the
                                recursion of `readLinesAux` itself; `fuel` only bounds cycles);
  * `include_textual_splice`    when F itself contains no include / include_bytes line, the lines
                                read from the including text and from the text with F's lines
                                written in place of the include line have the same contents;
  * `assemble_ignores_line_metadata`  no pass looks at file names / line numbers;
  * `include_same_result`       hence the two texts assemble to the same bytes, labels, constants
                                (or both fail) — ONE include line, included file without includes;
  * `include_tree_splice`       ANY DEPTH: for an include tree (`IncTree`, `IncTree.Valid`: every
                                include line resolves to a readable ASCII file, whose lines are
                                again a valid tree, relative to ITS directory; other lines are
                                neither include nor include_bytes lines) of depth within the fuel,
                                `read_lines` of the main text SUCCEEDS and returns exactly the
                                non-blank lines of `t.flat` — the splice computed by structural
                                recursion on the tree, a specification-side function that does not
                                mention `readLinesAux`; `include_tree_reads`: such a read never
                                ends in `unsupported` (fuel) or any other error;
                                `include_tree_same_result`: the main text and the flat text
                                assemble to the same result;
  * `path_same_as_source`       a file given by path assembles like its text given as a string
                                from the file's directory;
  * `resolve_lexical`           on the symlink-free filesystem model, the file a path string with
                                `.` / `..` components resolves to is the one `os.path.abspath`
                                names, so nested includes are relative to the real directory.
  Path strings are kept as the code builds them (`os.path.join(dir, rel)` verbatim); `FS.resolve`
  walks their components the way the operating system does (every step from an existing directory).
-/
import BB.Lemmas.ReadFront
namespace BB.Props.C14
open BB

/-- `read_lines` on a path never consults the working directory.
    HONEST LABEL: true by construction.  The `.path` branch of the model does not mention `cwd`
    (beyond the `normAbs cwd` guard), because it covers ABSOLUTE paths and absolute -i directories
    only: a relative main path or a relative -i directory makes both sides `unsupported`, and the
    equation then holds for the wrong reason (audit/front/A2_c14.lean).  What the real tool does
    with relative paths from different working directories is tested, not proved
    (harness/props/c14.py). -/
theorem cwd_irrelevant (fs : FS) (cwd₁ cwd₂ : String) (dirs : List String) (c : Bool) (p : String)
    (h₁ : normAbs cwd₁ = true) (h₂ : normAbs cwd₂ = true) :
    assembleText fs cwd₁ dirs c (.path p) = assembleText fs cwd₂ dirs c (.path p) := by
  unfold assembleText frontEnd
  simp only [h₁, h₂]

/-- the include line at index |pre| contributes exactly the lines of the file found for it;
    the lines before and after it are read as before and keep their line numbers -/
theorem include_is_splice (fs : FS) (dirs : List String) (fuel : Nat) (path base : String)
    (source : List Char) (pre post : List (List Char)) (raw : List Char)
    (rel incPath : String) (bs : List Nat) (src : List Char)
    (hsrc : splitLines source = pre ++ raw :: post)
    (hinc : IsIncludeLine raw rel) (hform : pathOk rel = true)
    (hlook : lookupPath fs rel (dirs ++ [base]) = some incPath) (hdir : fs.isDirAt incPath = false)
    (hread : fs.readAt incPath = some bs) (hascii : bytesToText bs = some src) :
    readLinesAux fs dirs (fuel + 1) path base source =
      seqLines (linesFrom fs dirs fuel path base 1 pre)
        (seqLines (readLinesAux fs dirs fuel incPath (baseOf incPath) src)
          (linesFrom fs dirs fuel path base (1 + pre.length + 1) post)) := by
  rw [readLinesAux.eq_2, hsrc, go_append, go_cons,
    lineHead_include fs dirs fuel path _ _ raw rel incPath bs src hinc hform hlook hdir hread hascii]

/-- the same, for a source text given as its lines, each followed by "\n" -/
theorem include_is_splice_source (fs : FS) (dirs : List String) (fuel : Nat) (path base : String)
    (pre post : List (List Char)) (raw : List Char)
    (rel incPath : String) (bs : List Nat) (src : List Char)
    (hnb : ∀ l ∈ pre ++ raw :: post, NoBreak l)
    (hinc : IsIncludeLine raw rel) (hform : pathOk rel = true)
    (hlook : lookupPath fs rel (dirs ++ [base]) = some incPath) (hdir : fs.isDirAt incPath = false)
    (hread : fs.readAt incPath = some bs) (hascii : bytesToText bs = some src) :
    readLinesAux fs dirs (fuel + 1) path base (unlines (pre ++ raw :: post)) =
      seqLines (linesFrom fs dirs fuel path base 1 pre)
        (seqLines (readLinesAux fs dirs fuel incPath (baseOf incPath) src)
          (linesFrom fs dirs fuel path base (1 + pre.length + 1) post)) :=
  include_is_splice fs dirs fuel path base _ pre post raw rel incPath bs src
    (splitLines_unlines _ hnb) hinc hform hlook hdir hread hascii

/-- textual splicing: if the included file has no include / include_bytes lines of its own, the
    including text and the text with the file's lines in place of the include line read to lines
    with the same contents (or both reads fail) -/
theorem include_textual_splice (fs : FS) (dirs : List String) (fuel : Nat) (path base : String)
    (srcA srcB : List Char) (pre post : List (List Char)) (raw : List Char)
    (rel incPath : String) (bs : List Nat) (src : List Char)
    (hA : splitLines srcA = pre ++ raw :: post)
    (hB : splitLines srcB = pre ++ (splitLines src ++ post))
    (hinc : IsIncludeLine raw rel) (hform : pathOk rel = true)
    (hlook : lookupPath fs rel (dirs ++ [base]) = some incPath) (hdir : fs.isDirAt incPath = false)
    (hread : fs.readAt incPath = some bs) (hascii : bytesToText bs = some src)
    (hplain : ∀ l ∈ splitLines src, IsPlainLine l) :
    contentsOf (readLinesAux fs dirs (fuel + 2) path base srcA) =
      contentsOf (readLinesAux fs dirs (fuel + 2) path base srcB) := by
  rw [include_is_splice fs dirs (fuel + 1) path base srcA pre post raw rel incPath bs src
    hA hinc hform hlook hdir hread hascii]
  rw [readLinesAux.eq_2 fs dirs path base srcB, hB, go_append, go_append]
  rw [readLinesAux.eq_2 fs dirs incPath]
  simp only [contentsOf_seq, linesFrom]
  rw [contentsOf_go_plain _ _ _ _ _ _ hplain, contentsOf_go_plain _ _ _ _ _ _ hplain]
  rw [contentsOf_go fs dirs (fuel + 1) path path (dirs ++ [base]) post (1 + pre.length + 1)
    (1 + pre.length + (splitLines src).length)]

/-- … hence the same item list up to `Line` metadata -/
theorem frontEnd_include_splice (fs : FS) (cwd : String) (dirs : List String) (A B : String)
    (pre post : List (List Char)) (raw : List Char)
    (rel incPath : String) (bs : List Nat) (src : List Char)
    (hcwd : normAbs cwd = true) (hdirs : dirs.all absOk = true)
    (hasciiA : A.toList.all (fun c => c.toNat < 128) = true)
    (hasciiB : B.toList.all (fun c => c.toNat < 128) = true)
    (hA : splitLines A.toList = pre ++ raw :: post)
    (hB : splitLines B.toList = pre ++ (splitLines src ++ post))
    (hinc : IsIncludeLine raw rel) (hform : pathOk rel = true)
    (hlook : lookupPath fs rel (dirs ++ [cwd]) = some incPath) (hdir : fs.isDirAt incPath = false)
    (hread : fs.readAt incPath = some bs) (hascii : bytesToText bs = some src)
    (hplain : ∀ l ∈ splitLines src, IsPlainLine l) :
    erasedItems (frontEnd fs cwd dirs (.source A)) = erasedItems (frontEnd fs cwd dirs (.source B)) := by
  rw [frontEnd_source fs cwd dirs A hcwd hdirs hasciiA, frontEnd_source fs cwd dirs B hcwd hdirs hasciiB]
  exact erasedItems_bind_of_contents _ _
    (include_textual_splice fs dirs fs.files.length "<string>" cwd A.toList B.toList pre post raw rel
      incPath bs src hA hB hinc hform hlook hdir hread hascii hplain)

/-- every pass only copies `line` into errors and into the items it produces: rewriting the
    `Line`s of the input items by any `f` rewrites the `Line` of the error and nothing else.
    (All passes are covered: resolve_constants, resolve_labels, resolve_register_aliases,
    transform_compressible, transform_pseudo_instructions, resolve_aligns, resolve_immediates,
    resolve_instructions, resolve_strings, resolve_sequences, transform_shorthand_packs,
    resolve_packs, resolve_include_bytes, resolve_blobs.) -/
theorem assemble_ignores_line_metadata (H : Hooks) (f : Line → Line) (hH : HooksNatural H f)
    (c : Bool) (items : List Item) (cs ls : Dict) :
    assembleItems H c (items.map (Item.mapLine f)) cs ls = mapErrLine f (assembleItems H c items cs ls) :=
  assembleItems_mapLine H f hH c items cs ls

/-- in particular with every `Line` erased: same bytes, labels, constants, or failure in both -/
theorem assemble_ignores_line_metadata_erased (fs : FS) (c : Bool) (items : List Item) (cs ls : Dict) :
    resultOf (assembleItems (textHooks fs) c (items.map eraseLine) cs ls) =
      resultOf (assembleItems (textHooks fs) c items cs ls) :=
  resultOf_assembleItems_erase _ (textHooks_natural fs _) c items cs ls

/-- C14, splice clause: the program with `include F` and the program with F's lines in place of
    the include line assemble to the same bytes, labels and constants, or both fail -/
theorem include_same_result (fs : FS) (cwd : String) (dirs : List String) (c : Bool) (A B : String)
    (pre post : List (List Char)) (raw : List Char)
    (rel incPath : String) (bs : List Nat) (src : List Char)
    (hcwd : normAbs cwd = true) (hdirs : dirs.all absOk = true)
    (hasciiA : A.toList.all (fun c => c.toNat < 128) = true)
    (hasciiB : B.toList.all (fun c => c.toNat < 128) = true)
    (hA : splitLines A.toList = pre ++ raw :: post)
    (hB : splitLines B.toList = pre ++ (splitLines src ++ post))
    (hinc : IsIncludeLine raw rel) (hform : pathOk rel = true)
    (hlook : lookupPath fs rel (dirs ++ [cwd]) = some incPath) (hdir : fs.isDirAt incPath = false)
    (hread : fs.readAt incPath = some bs) (hascii : bytesToText bs = some src)
    (hplain : ∀ l ∈ splitLines src, IsPlainLine l) :
    resultOf (assembleText fs cwd dirs c (.source A)) = resultOf (assembleText fs cwd dirs c (.source B)) := by
  rw [resultOf_assembleText, resultOf_assembleText,
    frontEnd_include_splice fs cwd dirs A B pre post raw rel incPath bs src hcwd hdirs hasciiA hasciiB
      hA hB hinc hform hlook hdir hread hascii hplain]

/-- a file given by its path assembles like its text given as a string from the file's directory -/
theorem path_same_as_source (fs : FS) (cwd : String) (dirs : List String) (c : Bool) (p : String)
    (bs : List Nat) (text : String)
    (hcwd : normAbs cwd = true) (hdirs : dirs.all absOk = true) (hp : absOk p = true)
    (hbase : normAbs (baseOf p) = true)
    (hr : fs.readAt p = some bs) (ha : bytesToText bs = some text.toList)
    (hascii : text.toList.all (fun c => c.toNat < 128) = true) :
    resultOf (assembleText fs cwd dirs c (.path p)) =
      resultOf (assembleText fs (baseOf p) dirs c (.source text)) := by
  rw [resultOf_assembleText, resultOf_assembleText,
    frontEnd_path fs cwd dirs p bs text.toList hcwd hdirs hp hr ha,
    frontEnd_source fs (baseOf p) dirs text hbase hdirs hascii]
  rw [erasedItems_bind_of_contents _ _ _]
  rw [readLinesAux.eq_2, readLinesAux.eq_2]
  exact contentsOf_go fs dirs _ p "<string>" _ _ 1 1

/-! ### include trees: splicing at any depth

  Specification side.  An `IncTree` is a text seen as its raw lines, where every `include` line
  carries the tree of the file it stands for.  `IncTree.lines` is the text itself, `IncTree.flat` the
  text with every include line replaced, recursively, by the lines of the included file: plain
  structural recursion on the tree — no filesystem, no fuel, no reference to `readLinesAux`.
  `IncTree.Valid fs dirs base t` ties a tree to a filesystem: the include lines of a text read with
  `base` as its directory resolve (`lookupPath`, -i directories first) to readable ASCII files whose
  `splitlines()` are the lines of the subtree, valid relative to THAT file's directory. -/

inductive IncTree where
  | nil : IncTree
  | line (raw : List Char) (rest : IncTree) : IncTree
  | inc (raw : List Char) (sub : IncTree) (rest : IncTree) : IncTree

/-- the raw lines of the text itself -/
def IncTree.lines : IncTree → List (List Char)
  | .nil => []
  | .line raw rest => raw :: rest.lines
  | .inc raw _ rest => raw :: rest.lines

/-- **the splice** (`spliceSpec`): every include line replaced by the spliced lines of its file -/
def IncTree.flat : IncTree → List (List Char)
  | .nil => []
  | .line raw rest => raw :: rest.flat
  | .inc _ sub rest => sub.flat ++ rest.flat

/-- nesting depth of includes -/
def IncTree.depth : IncTree → Nat
  | .nil => 0
  | .line _ rest => rest.depth
  | .inc _ sub rest => max (sub.depth + 1) rest.depth

/-- the tree describes the text whose directory is `base`, on `fs` with -i directories `dirs`.
    OUTSIDE: a text that contains an `include_bytes` line, at any level — `line` asks for
    `IsPlainLine` (neither an include nor an include_bytes line).  This is not an omission of
    convenience: `include_bytes rel` is resolved relative to the directory of the file it stands in,
    so moving the line into the including text (the splice) may resolve `rel` to a different file or
    to none; splicing is textual only for the lines `IsPlainLine` admits.  (An include_bytes line in
    the MAIN text, outside any included file, keeps its directory; `SpellRel.keep` in C13 and
    `include_is_splice` here cover it as a kept line, the tree theorems do not.) -/
inductive IncTree.Valid (fs : FS) (dirs : List String) : String → IncTree → Prop
  | nil (base : String) : IncTree.Valid fs dirs base .nil
  | line (base : String) (raw : List Char) (rest : IncTree) :
      IsPlainLine raw → IncTree.Valid fs dirs base rest → IncTree.Valid fs dirs base (.line raw rest)
  | inc (base : String) (raw : List Char) (sub rest : IncTree) (rel incPath : String) (bs : List Nat)
      (src : List Char) :
      IsIncludeLine raw rel → pathOk rel = true →
      lookupPath fs rel (dirs ++ [base]) = some incPath → fs.isDirAt incPath = false →
      fs.readAt incPath = some bs → bytesToText bs = some src → splitLines src = sub.lines →
      IncTree.Valid fs dirs (baseOf incPath) sub → IncTree.Valid fs dirs base rest →
      IncTree.Valid fs dirs base (.inc raw sub rest)

theorem plainContents_append (a b : List (List Char)) :
    plainContents (a ++ b) = plainContents a ++ plainContents b := by
  induction a with
  | nil => rfl
  | cons x a ih => simp [plainContents, ih]

/-- the flat text of a valid tree has no include / include_bytes lines left -/
theorem IncTree.Valid.flat_plain {fs : FS} {dirs : List String} {base : String} {t : IncTree}
    (h : IncTree.Valid fs dirs base t) : ∀ l ∈ t.flat, IsPlainLine l := by
  induction h with
  | nil => intro l hl; simp [IncTree.flat] at hl
  | line base raw rest hp _ ih =>
    intro l hl
    simp only [IncTree.flat, List.mem_cons] at hl
    rcases hl with rfl | hl
    · exact hp
    · exact ih l hl
  | inc base raw sub rest rel incPath bs src _ _ _ _ _ _ _ _ _ ih1 ih2 =>
    intro l hl
    simp only [IncTree.flat, List.mem_append] at hl
    rcases hl with hl | hl
    · exact ih1 l hl
    · exact ih2 l hl

/-- the loop of `read_lines` over the lines of a valid tree returns the non-blank lines of the
    splice, whatever the file name and numbering, provided the fuel covers the depth -/
theorem go_tree (fs : FS) (dirs : List String) {base : String} {t : IncTree}
    (h : IncTree.Valid fs dirs base t) :
    ∀ (fuel : Nat) (path : String) (n : Nat), t.depth ≤ fuel →
      contentsOf (readLinesAux.go fs dirs fuel path (dirs ++ [base]) n t.lines) =
        some (plainContents t.flat) := by
  induction h with
  | nil base => intro fuel path n _; simp [IncTree.lines, IncTree.flat, go_nil, contentsOf, plainContents]
  | line base raw rest hp _ ih =>
    intro fuel path n hd
    simp only [IncTree.lines, IncTree.flat]
    rw [go_cons, contentsOf_seq, contentsOf_lineHead_plain _ _ _ _ _ _ _ hp,
      ih fuel path (n + 1) (by simpa [IncTree.depth] using hd)]
    simp [optSeq, plainContents]
  | inc base raw sub rest rel incPath bs src hinc hform hlook hdir hread hascii hsrc _ _ ih1 ih2 =>
    intro fuel path n hd
    simp only [IncTree.depth] at hd
    obtain ⟨f, rfl⟩ : ∃ f, fuel = f + 1 := ⟨fuel - 1, by omega⟩
    simp only [IncTree.lines, IncTree.flat]
    rw [go_cons, contentsOf_seq,
      lineHead_include fs dirs (f + 1) path _ n raw rel incPath bs src hinc hform hlook hdir hread hascii,
      readLinesAux.eq_2, hsrc, ih1 f incPath 1 (by omega), ih2 (f + 1) path (n + 1) (by omega),
      plainContents_append]
    rfl

/-- **include is textual splicing, at any depth.**  (Trees with an `include_bytes` line anywhere are
    outside: see `IncTree.Valid`.)  `source` is a text whose lines form a valid
    include tree `t` (relative to `base`, -i directories `dirs`), nested no deeper than the fuel:
    `read_lines` SUCCEEDS and the contents of the lines it returns are exactly the non-blank lines
    of `t.flat` — the text obtained by replacing, recursively, every include line by the lines of
    the file the search finds for it. -/
theorem include_tree_splice (fs : FS) (dirs : List String) (fuel : Nat) (path base : String)
    (source : List Char) (t : IncTree)
    (hsrc : splitLines source = t.lines) (hv : IncTree.Valid fs dirs base t) (hd : t.depth ≤ fuel) :
    contentsOf (readLinesAux fs dirs (fuel + 1) path base source) = some (plainContents t.flat) := by
  rw [readLinesAux.eq_2, hsrc]
  exact go_tree fs dirs hv fuel path 1 hd

/-- … in particular such a read never ends in `unsupported "include depth"` (nor in any other
    error): fuel exhaustion is impossible for a tree of depth ≤ fuel -/
theorem include_tree_reads (fs : FS) (dirs : List String) (fuel : Nat) (path base : String)
    (source : List Char) (t : IncTree)
    (hsrc : splitLines source = t.lines) (hv : IncTree.Valid fs dirs base t) (hd : t.depth ≤ fuel) :
    ∃ ls, readLinesAux fs dirs (fuel + 1) path base source = .ok ls ∧
      ls.map (·.contents) = plainContents t.flat := by
  have h := include_tree_splice fs dirs fuel path base source t hsrc hv hd
  cases hr : readLinesAux fs dirs (fuel + 1) path base source with
  | error e => rw [hr] at h; simp [contentsOf] at h
  | ok ls => rw [hr] at h; simp only [contentsOf, Option.some.injEq] at h; exact ⟨ls, rfl, h⟩

/-- the flat text on its own reads to the same contents (it has no include lines; any fuel ≥ 1,
    any directory) -/
theorem flat_reads (fs : FS) (dirs : List String) (fuel : Nat) (path base base' : String)
    (flatSrc : List Char) (t : IncTree)
    (hflat : splitLines flatSrc = t.flat) (hv : IncTree.Valid fs dirs base t) :
    contentsOf (readLinesAux fs dirs (fuel + 1) path base' flatSrc) = some (plainContents t.flat) := by
  rw [readLinesAux.eq_2, hflat]
  exact contentsOf_go_plain _ _ _ _ _ _ hv.flat_plain 1

/-- **C14, splice clause, any depth** (no `include_bytes` lines in the tree: see `IncTree.Valid`;
    failures told apart: `include_tree_same_result_errors`): the program A whose includes form the valid tree `t` (nested
    no deeper than the number of files + 1, the fuel `assemble` runs with) and the program B that is
    the spliced text `t.flat` assemble to the same bytes, labels and constants, or both fail — and the
    failure is then not one of reading (`include_tree_reads`). -/
theorem include_tree_same_result (fs : FS) (cwd : String) (dirs : List String) (c : Bool) (A B : String)
    (t : IncTree)
    (hcwd : normAbs cwd = true) (hdirs : dirs.all absOk = true)
    (hasciiA : A.toList.all (fun c => c.toNat < 128) = true)
    (hasciiB : B.toList.all (fun c => c.toNat < 128) = true)
    (hA : splitLines A.toList = t.lines) (hB : splitLines B.toList = t.flat)
    (hv : IncTree.Valid fs dirs cwd t) (hd : t.depth ≤ fs.files.length + 1) :
    resultOf (assembleText fs cwd dirs c (.source A)) = resultOf (assembleText fs cwd dirs c (.source B)) := by
  rw [resultOf_assembleText, resultOf_assembleText,
    frontEnd_source fs cwd dirs A hcwd hdirs hasciiA, frontEnd_source fs cwd dirs B hcwd hdirs hasciiB,
    erasedItems_bind_of_contents _ _
      ((include_tree_splice fs dirs (fs.files.length + 1) "<string>" cwd A.toList t hA hv hd).trans
        (flat_reads fs dirs (fs.files.length + 1) "<string>" cwd cwd B.toList t hB hv).symm)]

/-- **… with the errors kept apart** (review finding X4: `resultOf` maps every failure to `none`).
    Reading never fails for a valid tree (`include_tree_reads`); when the front end (lexer, parser)
    accepts the including text A it accepts the spliced text B with the same items up to `Line`
    metadata, and the two outcomes of `assembleText` are EQUAL as `Except` values once the `Line`
    carried by an AssemblerError is erased: the same bytes / labels / constants, or the same kind of
    failure (AssemblerError ↔ AssemblerError, the same escaping exception, the same `unsupported`).
    The line itself differs legitimately: file names and numbers are those of the included files on
    one side and of the flat text on the other. -/
theorem include_tree_same_result_errors (fs : FS) (cwd : String) (dirs : List String) (c : Bool) (A B : String)
    (t : IncTree)
    (hcwd : normAbs cwd = true) (hdirs : dirs.all absOk = true)
    (hasciiA : A.toList.all (fun c => c.toNat < 128) = true)
    (hasciiB : B.toList.all (fun c => c.toNat < 128) = true)
    (hA : splitLines A.toList = t.lines) (hB : splitLines B.toList = t.flat)
    (hv : IncTree.Valid fs dirs cwd t) (hd : t.depth ≤ fs.files.length + 1)
    {its : List Item} (hf : frontEnd fs cwd dirs (.source A) = .ok its) :
    ∃ its', frontEnd fs cwd dirs (.source B) = .ok its' ∧ its'.map eraseLine = its.map eraseLine ∧
      mapErrLine (fun _ => default) (assembleText fs cwd dirs c (.source B)) =
        mapErrLine (fun _ => default) (assembleText fs cwd dirs c (.source A)) := by
  have he : erasedItems (frontEnd fs cwd dirs (.source A)) = erasedItems (frontEnd fs cwd dirs (.source B)) := by
    rw [frontEnd_source fs cwd dirs A hcwd hdirs hasciiA, frontEnd_source fs cwd dirs B hcwd hdirs hasciiB]
    exact erasedItems_bind_of_contents _ _
      ((include_tree_splice fs dirs (fs.files.length + 1) "<string>" cwd A.toList t hA hv hd).trans
        (flat_reads fs dirs (fs.files.length + 1) "<string>" cwd cwd B.toList t hB hv).symm)
  rw [hf] at he
  cases hb : frontEnd fs cwd dirs (.source B) with
  | error e => rw [hb] at he; simp [erasedItems] at he
  | ok its' =>
    rw [hb] at he
    simp only [erasedItems, Option.some.injEq] at he
    refine ⟨its', rfl, he.symm, ?_⟩
    simp only [assembleText, hf, hb, bind, Except.bind]
    rw [← assembleItems_mapLine (textHooks fs) _ (textHooks_natural fs _),
      ← assembleItems_mapLine (textHooks fs) _ (textHooks_natural fs _)]
    show assembleItems (textHooks fs) c (its'.map eraseLine) [] [] = assembleItems (textHooks fs) c (its.map eraseLine) [] []
    rw [he]

/-! ### non-vacuity: a concrete two-file filesystem in which the include is spliced -/

def exFS : FS :=
  { files := [("/p/main.asm", "addi x1, x1, 1\ninclude \"sub/f.asm\"  # the part\nend:\n".toList.map Char.toNat),
              ("/p/sub/f.asm", "L:\n  addi x2, x2, 2\n".toList.map Char.toNat),
              ("/q/sub/f.asm", "  addi x3, x3, 3\n".toList.map Char.toNat)],
    dirs := ["/", "/p", "/p/sub", "/q", "/q/sub"] }

theorem ex_form : pathOk "sub/f.asm" = true := by decide

theorem ex_dirname : baseOf "/p/sub/f.asm" = "/p/sub" := by decide

def exMain : List Char := "addi x1, x1, 1\ninclude \"sub/f.asm\"  # the part\nend:\n".toList
def exF : List Char := "L:\n  addi x2, x2, 2\n".toList

/-- the hypotheses of `include_is_splice` hold for main.asm of `exFS` (searched: no -i
    directory, then /p), so its include line contributes the lines of /p/sub/f.asm, whatever the
    fuel ≥ 1 -/
example (fuel : Nat) :
    readLinesAux exFS [] (fuel + 1) "/p/main.asm" "/p" exMain =
      seqLines (linesFrom exFS [] fuel "/p/main.asm" "/p" 1 ["addi x1, x1, 1".toList])
        (seqLines (readLinesAux exFS [] fuel "/p/sub/f.asm" "/p/sub" exF)
          (linesFrom exFS [] fuel "/p/main.asm" "/p" 3 ["end:".toList])) := by
  rw [← ex_dirname]
  exact include_is_splice exFS [] fuel "/p/main.asm" "/p" exMain ["addi x1, x1, 1".toList] ["end:".toList]
    "include \"sub/f.asm\"  # the part".toList "sub/f.asm" "/p/sub/f.asm"
    (exF.map Char.toNat) exF
    (by decide) ⟨by decide, "include".toList, "\"sub/f.asm\"".toList, by decide, by decide⟩
    ex_form (by decide) (by decide) (by decide) (by decide)

/-- with the -i directory /q the search finds /q/sub/f.asm first -/
example : lookupPath exFS "sub/f.asm" (["/q"] ++ ["/p"]) = some "/q/sub/f.asm" := by decide

/-- the included file of the example is plain, so the textual theorems apply to it -/
example : ∀ l ∈ splitLines exF, IsPlainLine l := by
  have h : splitLines exF = ["L:".toList, "  addi x2, x2, 2".toList] := by decide
  rw [h]
  intro l hl
  simp only [List.mem_cons, List.not_mem_nil, or_false] at hl
  rcases hl with rfl | rfl <;> exact ⟨by decide, by decide⟩

/-- … and the spliced text reads to the same contents as the including text -/
example (fuel : Nat) :
    contentsOf (readLinesAux exFS [] (fuel + 2) "/p/main.asm" "/p" exMain) =
      contentsOf (readLinesAux exFS [] (fuel + 2) "/p/main.asm" "/p"
        "addi x1, x1, 1\nL:\n  addi x2, x2, 2\nend:\n".toList) :=
  include_textual_splice exFS [] fuel "/p/main.asm" "/p" exMain _ ["addi x1, x1, 1".toList] ["end:".toList]
    "include \"sub/f.asm\"  # the part".toList "sub/f.asm" "/p/sub/f.asm" (exF.map Char.toNat) exF
    (by decide) (by decide) ⟨by decide, "include".toList, "\"sub/f.asm\"".toList, by decide, by decide⟩
    ex_form (by decide) (by decide) (by decide) (by decide)
    (by
      have h : splitLines exF = ["L:".toList, "  addi x2, x2, 2".toList] := by decide
      rw [h]
      intro l hl
      simp only [List.mem_cons, List.not_mem_nil, or_false] at hl
      rcases hl with rfl | rfl <;> exact ⟨by decide, by decide⟩)

/-! ### paths with `.` and `..` components, as the repository's own examples use them -/

/-- on a filesystem without symbolic links, what the operating system resolves a path string to is
    what `os.path.abspath` computes lexically — so the directory the code derives for nested
    includes (`dirname(abspath(path))`) is the directory of the file it actually opened -/
theorem resolve_lexical (fs : FS) (p q : String) (h : fs.resolve p = some q) : q = normPath p := by
  have hw : ∀ (comps stack s : List (List Char)), fs.walk stack comps = some s → s = comps.foldl stepComp stack := by
    intro comps
    induction comps with
    | nil => intro stack s h; simp only [FS.walk, Option.some.injEq] at h; simp [h]
    | cons c rest ih =>
      intro stack s h
      simp only [FS.walk] at h
      split at h
      · simp only [List.foldl_cons]; exact ih _ _ h
      · cases h
  unfold FS.resolve at h
  unfold normPath
  split at h
  · split at h
    · rename_i stack hs
      dsimp only at h
      split at h
      · injection h with h; rw [← h, hw _ _ _ hs]
      · cases h
    · cases h
  · cases h

/-- the layout of /repo: examples/main.asm starts with `include ../bronzebeard/definitions/chip.asm` -/
def repoFS : FS :=
  { files := [("/r/examples/main.asm", "include ../bronzebeard/definitions/chip.asm\nli t0, BASE\n".toList.map Char.toNat),
              ("/r/bronzebeard/definitions/chip.asm", "BASE = 0x40021000\ninclude_bytes ./blob.bin\n".toList.map Char.toNat),
              ("/r/bronzebeard/definitions/blob.bin", [1, 2, 3, 4])],
    dirs := ["/", "/r", "/r/examples", "/r/bronzebeard", "/r/bronzebeard/definitions"] }

def repoMain : List Char := "include ../bronzebeard/definitions/chip.asm\nli t0, BASE\n".toList
def repoChip : List Char := "BASE = 0x40021000\ninclude_bytes ./blob.bin\n".toList

/-- the search keeps the path string as written … -/
example : lookupPath repoFS "../bronzebeard/definitions/chip.asm" ([] ++ ["/r/examples"]) =
    some "/r/examples/../bronzebeard/definitions/chip.asm" := by decide
/-- … the operating system resolves it … -/
example : repoFS.resolve "/r/examples/../bronzebeard/definitions/chip.asm" =
    some "/r/bronzebeard/definitions/chip.asm" := by decide
/-- … a missing directory on the way is not forgiven (`os.path.normpath` alone would) … -/
example : repoFS.resolve "/r/nosuch/../bronzebeard/definitions/chip.asm" = none := by decide
/-- … and nested includes of that file are relative to its real directory -/
example : baseOf "/r/examples/../bronzebeard/definitions/chip.asm" = "/r/bronzebeard/definitions" := by decide

/-- `include_is_splice` on the repository's shape: the include line contributes the lines of the
    chip file, attributed to the path string as the code built it and read relative to
    /r/bronzebeard/definitions -/
example (fuel : Nat) :
    readLinesAux repoFS [] (fuel + 1) "/r/examples/main.asm" "/r/examples" repoMain =
      seqLines (linesFrom repoFS [] fuel "/r/examples/main.asm" "/r/examples" 1 [])
        (seqLines (readLinesAux repoFS [] fuel "/r/examples/../bronzebeard/definitions/chip.asm"
            "/r/bronzebeard/definitions" repoChip)
          (linesFrom repoFS [] fuel "/r/examples/main.asm" "/r/examples" 2 ["li t0, BASE".toList])) := by
  have hb : baseOf "/r/examples/../bronzebeard/definitions/chip.asm" = "/r/bronzebeard/definitions" := by decide
  rw [← hb]
  exact include_is_splice repoFS [] fuel "/r/examples/main.asm" "/r/examples" repoMain [] ["li t0, BASE".toList]
    "include ../bronzebeard/definitions/chip.asm".toList "../bronzebeard/definitions/chip.asm"
    "/r/examples/../bronzebeard/definitions/chip.asm" (repoChip.map Char.toNat) repoChip
    (by decide) ⟨by decide, "include".toList, "../bronzebeard/definitions/chip.asm".toList, by decide, by decide⟩
    (by decide) (by decide) (by decide) (by decide) (by decide)

/-- the `include_bytes ./blob.bin` inside the chip file is found next to the chip file -/
example : lookupPath repoFS "./blob.bin" ([] ++ ["/r/bronzebeard/definitions"]) =
      some "/r/bronzebeard/definitions/./blob.bin" ∧
    repoFS.readAt "/r/bronzebeard/definitions/./blob.bin" = some [1, 2, 3, 4] := by decide

/-! ### a depth-2 instance: main includes f.asm, which includes g.asm -/

def deepFS : FS :=
  { files := [("/p/f.asm", "include g.asm\naddi x2, x2, 2\n".toList.map Char.toNat),
              ("/p/g.asm", "addi x3, x3, 3\n".toList.map Char.toNat)],
    dirs := ["/", "/p"] }

/-- `include f.asm` → (`include g.asm` → `addi x3, x3, 3`) , `addi x2, x2, 2` -/
def deepTree : IncTree :=
  .inc "include f.asm".toList
    (.inc "include g.asm".toList (.line "addi x3, x3, 3".toList .nil) (.line "addi x2, x2, 2".toList .nil))
    .nil

theorem deepTree_valid : IncTree.Valid deepFS [] "/p" deepTree := by
  refine .inc "/p" _ _ _ "f.asm" "/p/f.asm" ("include g.asm\naddi x2, x2, 2\n".toList.map Char.toNat)
    "include g.asm\naddi x2, x2, 2\n".toList
    ⟨by decide, "include".toList, "f.asm".toList, by decide, by decide⟩ (by decide) (by decide) (by decide)
    (by decide) (by decide) (by decide) ?_ (.nil _)
  have hb : baseOf "/p/f.asm" = "/p" := by decide
  rw [hb]
  refine .inc "/p" _ _ _ "g.asm" "/p/g.asm" ("addi x3, x3, 3\n".toList.map Char.toNat) "addi x3, x3, 3\n".toList
    ⟨by decide, "include".toList, "g.asm".toList, by decide, by decide⟩ (by decide) (by decide) (by decide)
    (by decide) (by decide) (by decide) ?_ ?_
  · exact .line _ _ _ ⟨by decide, by decide⟩ (.nil _)
  · exact .line _ _ _ ⟨by decide, by decide⟩ (.nil _)

/-- the splice of the tree is the flat two-line program … -/
example : deepTree.flat = ["addi x3, x3, 3".toList, "addi x2, x2, 2".toList] ∧ deepTree.depth = 2 := by decide

theorem deep_abs : normAbs "/p" = true := by
  have h : ("/p".splitOn "/") = ["", "p"] := by
    simp [String.splitOn]
    repeat (rw [String.splitOnAux.eq_1]; simp (decide := true))
  unfold normAbs; simp only [h]; decide

/-- … and `include_tree_same_result` applies to it (its hypotheses are satisfiable at depth 2) -/
theorem deep_same (c : Bool) :
    resultOf (assembleText deepFS "/p" [] c (.source "include f.asm\n")) =
      resultOf (assembleText deepFS "/p" [] c (.source "addi x3, x3, 3\naddi x2, x2, 2\n")) :=
  include_tree_same_result deepFS "/p" [] c _ _ deepTree deep_abs (by decide) (by decide) (by decide)
    (by decide) (by decide) deepTree_valid (by decide)

/-- … both sides being this success, not "both fail" -/
example : resultOf (assembleText deepFS "/p" [] false (.source "addi x3, x3, 3\naddi x2, x2, 2\n")) =
    some { bytes := [147, 129, 49, 0, 19, 1, 33, 0], labels := [], constants := [] } := by
  unfold assembleText frontEnd
  have h1 : sourceOk "addi x3, x3, 3\naddi x2, x2, 2\n".toList = true := by decide
  have hs : splitLines "addi x3, x3, 3\naddi x2, x2, 2\n".toList =
      ["addi x3, x3, 3".toList, "addi x2, x2, 2".toList] := by decide
  simp only [deep_abs, List.all_nil, h1, readLinesAux.eq_2, hs]
  simp only [readLinesAux.go.eq_2, readLinesAux.go.eq_1]
  decide +kernel

/-- a file that includes itself has NO valid tree of any depth the fuel covers: the read ends in
    `unsupported "include depth"` (outside the model), which `include_tree_reads` excludes for trees -/
example : readLinesAux ⟨[("/p/f.asm", "include f.asm\n".toList.map Char.toNat)], ["/", "/p"]⟩ [] 3
    "<string>" "/p" "include f.asm\n".toList = .error (.unsupported "include depth") := by
  have hs : splitLines "include f.asm\n".toList = ["include f.asm".toList] := by decide
  have hb : baseOf "/p/f.asm" = "/p" := by decide
  have hl : lookupPath ⟨[("/p/f.asm", "include f.asm\n".toList.map Char.toNat)], ["/", "/p"]⟩ "f.asm" ([] ++ ["/p"]) =
      some "/p/f.asm" := by decide
  have step : ∀ fuel path, readLinesAux ⟨[("/p/f.asm", "include f.asm\n".toList.map Char.toNat)], ["/", "/p"]⟩ []
      (fuel + 1) path "/p" "include f.asm\n".toList =
      readLinesAux ⟨[("/p/f.asm", "include f.asm\n".toList.map Char.toNat)], ["/", "/p"]⟩ [] fuel "/p/f.asm" "/p"
        "include f.asm\n".toList := by
    intro fuel path
    rw [readLinesAux.eq_2, hs, go_cons, go_nil, seqLines_nil_right,
      lineHead_include _ [] fuel path _ 1 _ "f.asm" "/p/f.asm" ("include f.asm\n".toList.map Char.toNat)
        "include f.asm\n".toList ⟨by decide, "include".toList, "f.asm".toList, by decide, by decide⟩
        (by decide) hl (by decide) (by decide) (by decide), hb]
  rw [step, step, step, readLinesAux.eq_1]

end BB.Props.C14
