/-
  BB.Props.C05ProgramTransfers — C05 at program level, class (c): the ten pseudo-branches, `j`, `jal`,
  `call`, `tail` to a LABEL `ref` of the program that no constant shadows.  In every successful
  `assembleItems H compress items [] []` (both values of `compress`; with `-c`: no hand-written
  compressed instruction in the source) the bytes at the item's offset `off` are

    * pseudo-branch  : one instruction, `branch o a b (t − off)` — 4 bytes, or 2 when a compression pass
                       turned it into c.beqz / c.bnez (`ExecAt`: then `execC ci = exec (branch …) 2`) —
                       with `t = r.labels[ref]`: taken ⇒ pc := pc + (t − off), i.e. the label's address
                       when run from pc = off (`branch_exec`, `target_label`);
    * j / jal        : `jal x0 / x1, t − off`, 4 or 2 bytes; the link value is pc + 4 resp. pc + 2;
    * call / tail    : near — `jal x1 / x0, t − off` (4 or 2 bytes); far — `auipc x1, %hi` ; `jalr x1, x1, %lo`
                       (`auipc x6` ; `jalr x0, x6`), always 4 + 4 bytes, `%hi` / `%lo` of `t − off` (the jalr's
                       immediate is read at the auipc's position, fix F3), and `t − off` is even: with
                       `call_far_effect` / `tail_far_effect` (Props/C05) control reaches pc + (t − off),
                       ra = pc + 8 (tail: only the scratch register x6 is written).
-/
import BB.Lemmas.PseudoExecT
import BB.Props.C05Program
namespace BB.Props.C05
open BB BB.Spec BB.Lemmas
open BB.Props.C03 (Land)
open BB.Props.C04 (IsBJ NoCompressedSource)

/-! ### reading the effects -/

theorem branch_exec (o : BrOp) (a b : Nat) (v : Int) (n : Nat) (s : St) :
    exec (.branch o a b v) n s =
      if brTaken o (s.get a) (s.get b) then { s with pc := s.pc + imm32 v } else { s with pc := s.pc + BitVec.ofNat 32 n } := rfl

/-- run from the item's own offset, `pc + (t − off)` is the label's address -/
theorem target_label (off t : Int) (pc : W) (h : pc = BitVec.ofInt 32 off) : pc + imm32 (t - off) = BitVec.ofInt 32 t := by
  subst h
  unfold imm32
  apply BitVec.eq_of_toNat_eq
  simp only [BitVec.toNat_add, BitVec.toNat_ofInt, Nat.reducePow]
  have e : ((4294967296 : Nat) : Int) = 4294967296 := rfl
  rw [e]
  omega

theorem real_rows {real : String} (h : real = "beq" ∨ real = "bne" ∨ real = "bge" ∨ real = "blt" ∨ real = "bltu" ∨ real = "bgeu") :
    ∃ op f3 o, instrTable.lookup real = some (.b op f3) ∧ classOf real = some (.br o) := by
  rcases h with rfl | rfl | rfl | rfl | rfl | rfl
  · exact ⟨99, 0, .beq, by decide, by decide⟩
  · exact ⟨99, 1, .bne, by decide, by decide⟩
  · exact ⟨99, 5, .bge, by decide, by decide⟩
  · exact ⟨99, 4, .blt, by decide, by decide⟩
  · exact ⟨99, 6, .bltu, by decide, by decide⟩
  · exact ⟨99, 7, .bgeu, by decide, by decide⟩

/-! ### one pseudo-instruction that expands to one branch / jal on `%offset ref` -/

/-- the common part: the expansion is the single instruction `i0` (at every position and table), a branch
    or jal whose immediate is `%offset ref` -/
theorem single_transfer_effect (H : Hooks) (compress : Bool) (items : List Item) (r : AsmResult) (hnn : NonNeg items)
    (hlit : ∀ line p env, LitOK (evalAt H env line p))
    (hsrc : compress = true → NoCompressedSource items)
    (h : assembleItems H compress items [] [] = .ok r)
    {A B : List Item} {line : Line} {name : String} {args : List String}
    (e : items = A ++ .pseudo line name args :: B)
    {i0 : Instr} {ref : String}
    (hshape : ∀ env p instrs short, expandPseudo H env line name args p = .ok (instrs, short) → instrs = [i0])
    (hbj : IsBJ i0) (himm : i0.imm? = some (.offset ref))
    (hn : ref ∈ labelNames items) (hc : r.constants.get ref = none) :
    ∃ (off t : Int), SourceAt H compress items r A B line off ∧ r.labels.get ref = some t ∧
      (∀ f x, (i0.mapRegs (aliasReg r.constants)).fld f = some x → (lookupRegister x).isSome = true) ∧
      ∀ i32, ((∀ f x, (i0.mapRegs (aliasReg r.constants)).fld f = some x → (lookupRegister x).isSome = true) →
          denote32I ((i0.mapRegs (aliasReg r.constants)).setImm (.value (t - off))) = some i32) →
        ∃ n : Nat, (n = 4 ∨ n = 2) ∧ ExecAt r off n (exec i32 n) := by
  obtain ⟨G7, P, blk, S, q, Lq, instrs, short, eG, hexp, hz, hplaced, hagree, hnames, horacle, hlayout, xA, xB, hnnG⟩ :=
    pseudo_trace H compress items r hnn h e
  have hi0 := hshape _ _ _ _ hexp
  subst hi0
  have hat := sourceAt_of_trace eG hz (by simp) hlayout xA xB hnnG
  -- the label has a value
  have ht : ∃ t, r.labels.get ref = some t := by
    have hs := (labelPos_isSome_iff G7 0 ref).mpr (by rw [hnames]; exact hn)
    cases hu : labelPos G7 0 ref with
    | none => simp [hu] at hs
    | some u => exact ⟨u, hagree ref u hu⟩
  obtain ⟨t, ht⟩ := ht
  have hwk0 : i0.wellKinded = true := by
    unfold expandPseudo at hexp
    cases hk : pseudoKind name with
    | none => simp [hk] at hexp
    | some k =>
      simp only [hk] at hexp
      exact expandKind_wellKinded hk hexp i0 List.mem_cons_self
  simp only [List.map_cons, List.map_nil] at hz
  cases hz with
  | @cons _ x1 _ rest hq1 hrest =>
    cases hrest
    have hx1nl : ∀ l n, x1 ≠ .label l n := by
      rcases hq1 with rfl | ⟨_, _, _, _, _, _, rfl, _⟩ <;> (intro l n ex; cases ex)
    obtain ⟨d1, hp1⟩ := hplaced P x1 S (by rw [eG]; rfl) hx1nl
    have hbj' : IsBJ (i0.mapRegs (aliasReg r.constants)) := by
      rcases hbj with ⟨_, _, _, _, rfl⟩ | ⟨_, _, _, rfl⟩
      · exact Or.inl ⟨_, _, _, _, rfl⟩
      · exact Or.inr ⟨_, _, _, rfl⟩
    have hor : compress = true → ∀ cf, x1 = .instr line cf → cf.isCompressed = true →
        DecOracle H r.constants r.labels (labelNames items) (sizeSum P) line cf := by
      intro hcm cf ex hcc
      subst ex
      exact horacle hcm (hsrc hcm) P line cf S (by rw [eG]; rfl) hcc
    have key := fun i32 hden => final_exec_offset (i32 := i32) (names := labelNames items) hlit hq1 hp1
      (by rw [wellKinded_mapRegs]; exact hwk0) hbj' (by rw [mapRegs_imm]; exact himm) hn hc ht hor hden
    refine ⟨sizeSum P, t, hat, ht, ?_, ?_⟩
    · -- validity does not depend on which instruction it denotes: use the acceptance directly
      obtain ⟨k, hk, hs, hnc⟩ := wellKinded_row (by rw [wellKinded_mapRegs]; exact hwk0 : (i0.mapRegs (aliasReg r.constants)).wellKinded = true)
      rcases hq1 with rfl | ⟨hcm, cf, c, preds, p, L, rfl, dd⟩
      · obtain ⟨rins', w, i, hres', _, _, _, hi⟩ := placed_read32 hk hs hnc hp1
        obtain ⟨hwk', hfld⟩ := resolveWith_fld hres'
        intro f x hx
        have hna := resolveWith_not_atomic hres'
          (by rcases hbj' with ⟨_, _, _, _, e1⟩ | ⟨_, _, _, e1⟩ <;> rw [e1] <;> (intro _ _ _ _ _ _ ex; cases ex))
          (by rcases hbj' with ⟨_, _, _, _, e1⟩ | ⟨_, _, _, e1⟩ <;> rw [e1] <;> (intro _ _ _ _ _ ex; cases ex))
        exact regs_valid_of_denote (by rw [hwk', wellKinded_mapRegs]; exact hwk0) hna.1 hna.2 hi f x (by rw [hfld]; exact hx)
      · refine decided_regs dd ?_
        intro ec; subst ec
        have := dd.2.2.2.2
        rcases hbj' with ⟨_, _, _, _, e1⟩ | ⟨_, _, _, e1⟩ <;> rw [e1] at this <;> simp [compressedForm] at this
    · intro i32 hden
      obtain ⟨_, n, hn4, _, hex⟩ := key i32 hden
      exact ⟨n, hn4, hex⟩

/-! ### the ten pseudo-branches -/

/-- the real branch, its two register operands and the target of a pseudo-branch -/
def branchRegs : PKind → List String → Option (String × RegOp × RegOp × String)
  | .brz real, [rs, ref] => some (real, .str rs, .str "x0", ref)
  | .brz2 real, [rs, ref] => some (real, .str "x0", .str rs, ref)
  | .br2 real, [rs, rt, ref] => some (real, .str rt, .str rs, ref)
  | _, _ => none

theorem branchRegs_cases {k : PKind} {args : List String} {real : String} {r1 r2 : RegOp} {ref : String}
    (h : branchRegs k args = some (real, r1, r2, ref)) :
    (∃ rs, k = .brz real ∧ args = [rs, ref] ∧ r1 = .str rs ∧ r2 = .str "x0") ∨
    (∃ rs, k = .brz2 real ∧ args = [rs, ref] ∧ r1 = .str "x0" ∧ r2 = .str rs) ∨
    (∃ rs rt, k = .br2 real ∧ args = [rs, rt, ref] ∧ r1 = .str rt ∧ r2 = .str rs) := by
  unfold branchRegs at h
  split at h <;> simp only [Option.some.injEq, Prod.mk.injEq, reduceCtorEq] at h
  · obtain ⟨rfl, rfl, rfl, rfl⟩ := h; exact Or.inl ⟨_, rfl, rfl, rfl, rfl⟩
  · obtain ⟨rfl, rfl, rfl, rfl⟩ := h; exact Or.inr (Or.inl ⟨_, rfl, rfl, rfl, rfl⟩)
  · obtain ⟨rfl, rfl, rfl, rfl⟩ := h; exact Or.inr (Or.inr ⟨_, _, rfl, rfl, rfl, rfl⟩)

/-- **pseudo-branches, program level.** -/
theorem assemble_pseudo_branch_effect (H : Hooks) (compress : Bool) (items : List Item) (r : AsmResult) (hnn : NonNeg items)
    (hlit : ∀ line p env, LitOK (evalAt H env line p)) (hoff : OffsetHook H)
    (hsrc : compress = true → NoCompressedSource items)
    (h : assembleItems H compress items [] [] = .ok r)
    {A B : List Item} {line : Line} {name : String} {args : List String}
    (e : items = A ++ .pseudo line name args :: B)
    {k : PKind} (hk : pseudoKind name = some k) {real : String} {r1 r2 : RegOp} {ref : String}
    (hb : branchRegs k args = some (real, r1, r2, ref))
    (hn : ref ∈ labelNames items) (hc : r.constants.get ref = none) :
    ∃ (off t : Int) (a b : Nat) (o : BrOp) (n : Nat),
      SourceAt H compress items r A B line off ∧
      r.labels.get ref = some t ∧ classOf real = some (.br o) ∧
      lookupRegister (aliasReg r.constants r1) = some a ∧ lookupRegister (aliasReg r.constants r2) = some b ∧
      (n = 4 ∨ n = 2) ∧ ExecAt r off n (exec (.branch o a b (t - off)) n) := by
  -- the real mnemonic is one of six
  have hreal : real = "beq" ∨ real = "bne" ∨ real = "bge" ∨ real = "blt" ∨ real = "bltu" ∨ real = "bgeu" := by
    rcases branchRegs_cases hb with ⟨rs, rfl, _⟩ | ⟨rs, rfl, _⟩ | ⟨rs, rt, rfl, _⟩
    · rcases pseudoKind_brz hk with h | h | h | h <;> simp [h]
    · rcases pseudoKind_brz2 hk with h | h <;> simp [h]
    · rcases pseudoKind_br2 hk with h | h | h | h <;> simp [h]
  obtain ⟨op, f3, o, hrow, hcls⟩ := real_rows hreal
  -- the expansion
  have hshape : ∀ env p instrs short, expandPseudo H env line name args p = .ok (instrs, short) →
      instrs = [.b real r1 r2 (.offset ref)] := by
    intro env p instrs short hx
    simp only [expandPseudo, hk] at hx
    rcases branchRegs_cases hb with ⟨rs, rfl, rfl, rfl, rfl⟩ | ⟨rs, rfl, rfl, rfl, rfl⟩ | ⟨rs, rt, rfl, rfl, rfl, rfl⟩
    all_goals (
      simp only [expandKind, bind, Except.bind] at hx
      cases hp : H.parseImm ["%offset", ref] line with
      | error err => simp [hp] at hx
      | ok imm =>
        have := hoff ref line imm hp
        subst this
        simp only [hp, pure, Except.pure, Except.ok.injEq, Prod.mk.injEq] at hx
        exact hx.1.symm)
  obtain ⟨off, t, hat, ht, hval, hkey⟩ := single_transfer_effect H compress items r hnn hlit hsrc h e hshape
    (Or.inl ⟨_, _, _, _, rfl⟩) rfl hn hc
  simp only [Instr.mapRegs] at hval hkey
  have ha := some_of_isSome (hval .rs1 _ rfl)
  have hb' := some_of_isSome (hval .rs2 _ rfl)
  obtain ⟨n, hn4, hex⟩ := hkey (.branch o _ _ (t - off)) (fun _ => bridge_b (t - off) hrow hcls ha hb')
  exact ⟨off, t, _, _, o, n, hat, ht, hcls, ha, hb', hn4, hex⟩

/-! ### j, jal -/

/-- **j / jal, program level**: `jal x0, t − off` resp. `jal x1, t − off`; the link value is pc + n -/
theorem assemble_jump_effect (H : Hooks) (compress : Bool) (items : List Item) (r : AsmResult) (hnn : NonNeg items)
    (hlit : ∀ line p env, LitOK (evalAt H env line p)) (hoff : OffsetHook H)
    (hsrc : compress = true → NoCompressedSource items)
    (h : assembleItems H compress items [] [] = .ok r)
    {A B : List Item} {line : Line} {name : String} {ref : String}
    (e : items = A ++ .pseudo line name [ref] :: B)
    (hk : pseudoKind name = some .j ∨ pseudoKind name = some .jal)
    (hn : ref ∈ labelNames items) (hc : r.constants.get ref = none) :
    ∃ (off t : Int) (n : Nat), SourceAt H compress items r A B line off ∧ r.labels.get ref = some t ∧ (n = 4 ∨ n = 2) ∧
      ExecAt r off n (exec (.jal (if pseudoKind name = some .jal then 1 else 0) (t - off)) n) := by
  obtain ⟨items1, _, _, _, _, _, _, _, _, _, _, _, h1, _⟩ := assemble_stages_all H compress items r h
  have hx0 := alias_x h1 (s := "x0") (Or.inl rfl)
  have hx1 := alias_x h1 (s := "x1") (Or.inr (Or.inl rfl))
  have hshape : ∀ (rd : String), (pseudoKind name = some .j ∧ rd = "x0") ∨ (pseudoKind name = some .jal ∧ rd = "x1") →
      ∀ env p instrs short, expandPseudo H env line name [ref] p = .ok (instrs, short) →
      instrs = [.j "jal" (.str rd) (.offset ref)] := by
    intro rd hrd env p instrs short hx
    rcases hrd with ⟨hkk, rfl⟩ | ⟨hkk, rfl⟩
    all_goals (
      simp only [expandPseudo, hkk, expandKind, bind, Except.bind] at hx
      cases hp : H.parseImm ["%offset", ref] line with
      | error err => simp [hp] at hx
      | ok imm =>
        have := hoff ref line imm hp
        subst this
        simp only [hp, pure, Except.pure, Except.ok.injEq, Prod.mk.injEq] at hx
        exact hx.1.symm)
  rcases hk with hkk | hkk
  · obtain ⟨off, t, hat, ht, hval, hkey⟩ := single_transfer_effect H compress items r hnn hlit hsrc h e
      (hshape "x0" (Or.inl ⟨hkk, rfl⟩)) (Or.inr ⟨_, _, _, rfl⟩) rfl hn hc
    simp only [Instr.mapRegs, hx0] at hval hkey
    obtain ⟨n, hn4, hex⟩ := hkey (.jal 0 (t - off)) (fun _ => bridge_jal (t - off) reg_x0)
    refine ⟨off, t, n, hat, ht, hn4, ?_⟩
    have : pseudoKind name ≠ some .jal := by rw [hkk]; decide
    rw [if_neg this]; exact hex
  · obtain ⟨off, t, hat, ht, hval, hkey⟩ := single_transfer_effect H compress items r hnn hlit hsrc h e
      (hshape "x1" (Or.inr ⟨hkk, rfl⟩)) (Or.inr ⟨_, _, _, rfl⟩) rfl hn hc
    simp only [Instr.mapRegs, hx1] at hval hkey
    obtain ⟨n, hn4, hex⟩ := hkey (.jal 1 (t - off)) (fun _ => bridge_jal (t - off) reg_x1)
    refine ⟨off, t, n, hat, ht, hn4, ?_⟩
    rw [if_pos hkk]; exact hex

/-! ### call, tail -/

/-- what the theorem says about one `call` / `tail`: near — one `jal rd, t − off`; far — `auipc rA, %hi(t − off)`
    at `off` and `jalr rd, rA, %lo(t − off)` at `off + 4`, with `t − off` even -/
def CallEffect (r : AsmResult) (off t : Int) (rd rA : Nat) : Prop :=
  (∃ n : Nat, (n = 4 ∨ n = 2) ∧ ExecAt r off n (exec (.jal rd (t - off)) n)) ∨
  (ExecAt r off 4 (exec (.auipc rA ((relocateHi (t - off)) % 1048576).toNat) 4) ∧
   ExecAt r (off + 4) 4 (exec (.jalr rd rA (relocateLo (t - off))) 4) ∧ (t - off) % 2 = 0)

theorem call_tail_effect (H : Hooks) (compress : Bool) (items : List Item) (r : AsmResult) (hnn : NonNeg items)
    (hlit : ∀ line p env, LitOK (evalAt H env line p)) (hoff : OffsetHook H)
    (hsrc : compress = true → NoCompressedSource items)
    (h : assembleItems H compress items [] [] = .ok r)
    {A B : List Item} {line : Line} {name : String} {ref : String}
    (e : items = A ++ .pseudo line name [ref] :: B)
    {k : PKind} {rds rAs : String} {rd rA : Nat}
    (hk : pseudoKind name = some k)
    (hkk : (k = .call ∧ rds = "x1" ∧ rAs = "x1" ∧ rd = 1 ∧ rA = 1) ∨ (k = .tail ∧ rds = "x0" ∧ rAs = "x6" ∧ rd = 0 ∧ rA = 6))
    (hn : ref ∈ labelNames items) (hc : r.constants.get ref = none) :
    ∃ (off t : Int), SourceAt H compress items r A B line off ∧ r.labels.get ref = some t ∧ CallEffect r off t rd rA := by
  obtain ⟨items1, _, _, _, _, _, _, _, _, _, _, _, h1, _⟩ := assemble_stages_all H compress items r h
  obtain ⟨G7, P, blk, S, q, Lq, instrs, short, eG, hexp, hz, hplaced, hagree, hnames, horacle, hlayout, xA, xB, hnnG⟩ :=
    pseudo_trace H compress items r hnn h e
  have hat := fun hne => sourceAt_of_trace eG hz hne hlayout xA xB hnnG
  have ht : ∃ t, r.labels.get ref = some t := by
    have hs := (labelPos_isSome_iff G7 0 ref).mpr (by rw [hnames]; exact hn)
    cases hu : labelPos G7 0 ref with
    | none => simp [hu] at hs
    | some u => exact ⟨u, hagree ref u hu⟩
  obtain ⟨t, ht⟩ := ht
  simp only [expandPseudo, hk] at hexp
  have hwkall := expandKind_wellKinded hk hexp
  have hct : k = .call ∨ k = .tail := by rcases hkk with ⟨rfl, _⟩ | ⟨rfl, _⟩ <;> simp
  obtain ⟨ref', imm, v, eargs, hp, hv, _⟩ := call_short hct hexp
  simp only [List.cons.injEq, and_true] at eargs
  subst eargs
  have himm := hoff ref line imm hp
  subst himm
  have hrds : aliasReg r.constants (.str rds) = .str rds ∧ lookupRegister (.str rds) = some rd := by
    rcases hkk with ⟨_, rfl, _, rfl, _⟩ | ⟨_, rfl, _, rfl, _⟩
    · exact ⟨alias_x h1 (Or.inr (Or.inl rfl)), reg_x1⟩
    · exact ⟨alias_x h1 (Or.inl rfl), reg_x0⟩
  have hrAs : aliasReg r.constants (.str rAs) = .str rAs ∧ lookupRegister (.str rAs) = some rA := by
    rcases hkk with ⟨_, _, rfl, _, rfl⟩ | ⟨_, _, rfl, _, rfl⟩
    · exact ⟨alias_x h1 (Or.inr (Or.inl rfl)), reg_x1⟩
    · exact ⟨alias_x h1 (Or.inr (Or.inr rfl)), reg_x6⟩
  -- the two possible expansions
  have hinstrs : instrs = [.j "jal" (.str rds) (.offset ref)] ∨
      instrs = [.u "auipc" (.str rAs) (.hi (.offset ref)), .i "jalr" (.str rds) (.str rAs) (.lo (.offset ref)) true] := by
    rcases hkk with ⟨rfl, rfl, rfl, _, _⟩ | ⟨rfl, rfl, rfl, _, _⟩
    · rw [expand_call H _ line q ref _ v hp hv] at hexp
      split at hexp <;> simp only [Except.ok.injEq, Prod.mk.injEq] at hexp
      · exact Or.inl hexp.1.symm
      · exact Or.inr hexp.1.symm
    · rw [expand_tail H _ line q ref _ v hp hv] at hexp
      split at hexp <;> simp only [Except.ok.injEq, Prod.mk.injEq] at hexp
      · exact Or.inl hexp.1.symm
      · exact Or.inr hexp.1.symm
  have hne : instrs.map (fun i => i.mapRegs (aliasReg r.constants)) ≠ [] := by
    rcases hinstrs with rfl | rfl <;> simp
  refine ⟨sizeSum P, t, hat hne, ht, ?_⟩
  rcases hinstrs with rfl | rfl
  · -- near
    simp only [List.map_cons, List.map_nil, Instr.mapRegs, hrds.1] at hz
    cases hz with
    | @cons _ x1 _ rest hq1 hrest =>
      cases hrest
      have hx1nl : ∀ l n, x1 ≠ .label l n := by
        rcases hq1 with rfl | ⟨_, _, _, _, _, _, rfl, _⟩ <;> (intro l n ex; cases ex)
      obtain ⟨d1, hp1⟩ := hplaced P x1 S (by rw [eG]; rfl) hx1nl
      have hor : compress = true → ∀ cf, x1 = .instr line cf → cf.isCompressed = true →
          DecOracle H r.constants r.labels (labelNames items) (sizeSum P) line cf := by
        intro hcm cf ex hcc
        subst ex
        exact horacle hcm (hsrc hcm) P line cf S (by rw [eG]; rfl) hcc
      have hwk1 : (Instr.j "jal" (.str rds) (.offset ref)).wellKinded = true := hwkall _ List.mem_cons_self
      obtain ⟨_, n, hn4, _, hex⟩ := final_exec_offset (i32 := .jal rd (t - sizeSum P)) (names := labelNames items)
        hlit hq1 hp1 hwk1 (Or.inr ⟨_, _, _, rfl⟩) rfl hn hc ht hor (fun _ => bridge_jal _ hrds.2)
      exact Or.inl ⟨n, hn4, hex⟩
  · -- far
    simp only [List.map_cons, List.map_nil, Instr.mapRegs, hrds.1, hrAs.1] at hz
    cases hz with
    | @cons _ x1 _ rest hq1 hrest =>
      cases hrest with
      | @cons _ x2 _ rest2 hq2 hrest2 =>
        cases hrest2
        have hx1nl : ∀ l n, x1 ≠ .label l n := by
          rcases hq1 with rfl | ⟨_, _, _, _, _, _, rfl, _⟩ <;> (intro l n ex; cases ex)
        have hx2nl : ∀ l n, x2 ≠ .label l n := by
          rcases hq2 with rfl | ⟨_, _, _, _, _, _, rfl, _⟩ <;> (intro l n ex; cases ex)
        obtain ⟨d1, hp1⟩ := hplaced P x1 (x2 :: S) (by rw [eG]; rfl) hx1nl
        obtain ⟨d2, hp2⟩ := hplaced (P ++ [x1]) x2 S (by rw [eG]; simp) hx2nl
        have hwk1 := hwkall _ List.mem_cons_self
        have hwk2 := hwkall _ (List.mem_cons_of_mem _ List.mem_cons_self)
        obtain ⟨ex1, hsz1, rins1, i1, hres1, _, hden1, hex1⟩ := final_exec_same hq1 hp1 hwk1 no_decision_auipc
        have hoff2 : sizeSum (P ++ [x1]) = sizeSum P + 4 := by
          rw [sizeSum_append]; simp [sizeSum, hsz1]
        rw [hoff2] at hp2
        obtain ⟨ex2, _, rins2, i2, hres2, henc2, hden2, hex2⟩ := final_exec_same hq2 hp2 hwk2 no_decision_aj
        simp only [ajPos, Instr.isAuipcJump, Bool.false_eq_true, if_false, resolveWith, Instr.imm?,
          evalAt_hi (sizeSum P) hc ht, Option.map_some, Option.some.injEq, Instr.setImm] at hres1
        subst hres1
        have hq4 : sizeSum P + 4 - 4 = sizeSum P := by omega
        simp only [ajPos, Instr.isAuipcJump, if_true, resolveWith, Instr.imm?, hq4,
          evalAt_lo (sizeSum P) hc ht, Option.map_some, Option.some.injEq, Instr.setImm] at hres2
        subst hres2
        rw [bridge_auipc' _ hrAs.2] at hden1
        rw [bridge_jalr _ _ hrds.2 hrAs.2] at hden2
        cases hden1; cases hden2
        obtain ⟨_, _, hev⟩ := jalr_lo_facts henc2
        exact Or.inr ⟨hex1, hex2, hev⟩

/-- **call, program level**: near — `jal x1, t − off` (link = pc + 4, or pc + 2 when compressed to c.jal);
    far — `auipc x1, %hi` ; `jalr x1, x1, %lo` of the even distance `t − off`: by `call_far_effect` (Props/C05),
    from an even pc control reaches pc + (t − off) and only ra = pc + 8 is written -/
theorem assemble_call_effect (H : Hooks) (compress : Bool) (items : List Item) (r : AsmResult) (hnn : NonNeg items)
    (hlit : ∀ line p env, LitOK (evalAt H env line p)) (hoff : OffsetHook H)
    (hsrc : compress = true → NoCompressedSource items)
    (h : assembleItems H compress items [] [] = .ok r)
    {A B : List Item} {line : Line} {ref : String}
    (e : items = A ++ .pseudo line "call" [ref] :: B)
    (hn : ref ∈ labelNames items) (hc : r.constants.get ref = none) :
    ∃ (off t : Int), SourceAt H compress items r A B line off ∧ r.labels.get ref = some t ∧ CallEffect r off t 1 1 :=
  call_tail_effect H compress items r hnn hlit hoff hsrc h e (k := .call) (rds := "x1") (rAs := "x1") (by decide)
    (Or.inl ⟨rfl, rfl, rfl, rfl, rfl⟩) hn hc

/-- **tail, program level**: near — `jal x0, t − off`; far — `auipc x6, %hi` ; `jalr x0, x6, %lo` (x6 = t1 is the
    documented scratch register; `tail_far_effect`) -/
theorem assemble_tail_effect (H : Hooks) (compress : Bool) (items : List Item) (r : AsmResult) (hnn : NonNeg items)
    (hlit : ∀ line p env, LitOK (evalAt H env line p)) (hoff : OffsetHook H)
    (hsrc : compress = true → NoCompressedSource items)
    (h : assembleItems H compress items [] [] = .ok r)
    {A B : List Item} {line : Line} {ref : String}
    (e : items = A ++ .pseudo line "tail" [ref] :: B)
    (hn : ref ∈ labelNames items) (hc : r.constants.get ref = none) :
    ∃ (off t : Int), SourceAt H compress items r A B line off ∧ r.labels.get ref = some t ∧ CallEffect r off t 0 6 :=
  call_tail_effect H compress items r hnn hlit hoff hsrc h e (k := .tail) (rds := "x0") (rAs := "x6") (by decide)
    (Or.inr ⟨rfl, rfl, rfl, rfl, rfl⟩) hn hc

/-- the far pair composed: from an even pc, the two instructions of a far `call` transfer control to
    pc + (t − off) and write only ra = pc + 8 -/
theorem call_far_composed (off t : Int) (hev : (t - off) % 2 = 0) (s : St) (hpc : s.pc.toNat % 2 = 0) :
    exec (.jalr 1 1 (relocateLo (t - off))) 4 (exec (.auipc 1 ((relocateHi (t - off)) % 1048576).toNat) 4 s)
      = { (s.set 1 (s.pc + 8)) with pc := s.pc + imm32 (t - off) } :=
  call_far_effect (t - off) hev s hpc

theorem tail_far_composed (off t : Int) (hev : (t - off) % 2 = 0) (s : St) (hpc : s.pc.toNat % 2 = 0) :
    exec (.jalr 0 6 (relocateLo (t - off))) 4 (exec (.auipc 6 ((relocateHi (t - off)) % 1048576).toNat) 4 s)
      = { (s.set 6 (s.pc + BitVec.ofNat 32 ((relocateHi (t - off) % 1048576).toNat * 4096))) with
            pc := s.pc + imm32 (t - off) } :=
  tail_far_effect (t - off) hev s hpc

/-! ### non-vacuity: `progP` of Props/C12Program (`align 4 ; B: ; beqz a0, F ; call F ; addi ; not ; bne ; F: ; ret`) -/

open BB.Props.C12 (Hp hp_litOK hp_offset progP lp) in
/-- with `-c`: `beqz a0, F` became c.beqz and `call F` became c.jal; both theorems apply to the run -/
example :
    let r : AsmResult := { bytes := [25, 197, 49, 32, 1, 21, 147, 197, 245, 255, 227, 27, 181, 254, 130, 128],
                           labels := [("B", 0), ("F", 14)], constants := [] }
    (∃ (off t : Int) (a b : Nat) (o : BrOp) (n : Nat), SourceAt Hp true progP r (progP.take 2) (progP.drop 3) (lp 3) off ∧
      r.labels.get "F" = some t ∧ classOf "beq" = some (.br o) ∧
      lookupRegister (aliasReg r.constants (.str "a0")) = some a ∧ lookupRegister (aliasReg r.constants (.str "x0")) = some b ∧
      (n = 4 ∨ n = 2) ∧ ExecAt r off n (exec (.branch o a b (t - off)) n)) ∧
    (∃ (off t : Int), SourceAt Hp true progP r (progP.take 3) (progP.drop 4) (lp 4) off ∧ r.labels.get "F" = some t ∧
      CallEffect r off t 1 1) := by
  intro r
  have h : assembleItems Hp true progP [] [] = .ok r := by decide
  have hnn : NonNeg progP := by unfold NonNeg; decide
  exact ⟨assemble_pseudo_branch_effect Hp true progP r hnn hp_litOK hp_offset (fun _ => BB.Props.C04.progP_nocomp) h
      (A := progP.take 2) (B := progP.drop 3) rfl (k := .brz "beq") (by decide) (real := "beq") rfl (by decide) rfl,
    assemble_call_effect Hp true progP r hnn hp_litOK hp_offset (fun _ => BB.Props.C04.progP_nocomp) h
      (A := progP.take 3) (B := progP.drop 4) rfl (by decide) rfl⟩

end BB.Props.C05
