/-
  BB.Props.C15Program — C15 at program level: a fault of a listed class, placed ANYWHERE among good
  items, makes `assemble()` fail with the assembler's own error carrying the faulty item's line, with
  and without compression.

  The order in which `assemble()` looks for faults (the first pass that objects wins, whatever the
  order of the lines - see `first_fault_wins_*` at the end):

     0  read_lines            missing include / include_bytes file, malformed include line   (in line order)
     0' lex_tokens             undecodable escape in an `error` / `string` line               (all lines, before any parsing)
     0" parse_item             `error` directive, unknown mnemonic, wrong shape               (in line order)
     1  resolve_constants      bad constant definition (undefined name, malformed expression, register name)
     2  resolve_labels         second definition of a label
     4  transform_compressible (-c only) unknown register / failing immediate in an instruction a rule inspects
     5  transform_pseudo_instructions   failing operand of li / call / tail, unknown pseudo-instruction
     7  transform_compressible again (-c only)
     9  resolve_immediates     undefined label or constant, failing arithmetic, in instructions and pack / db…dd
    10  resolve_instructions   operand out of range, unknown register (the encoder's ValueError)
    12  resolve_sequences      value of bytes … longlongs not a literal / does not fit
    14  resolve_packs          value of pack / db … dd does not fit

  Within one pass the item that comes first in the program wins.

  Structure.  `Lemmas/ErrStages`: stages 4 … 15 look at one item at a time; `Passes Q ss y` = item `y` goes
  through the stages `ss` in EVERY context (position, label table satisfying the invariant `Q`), `Dies Q e ss x`
  = in every context `x` is refused with exactly `e` by one of them, possibly after being rewritten
  (expansion, compression).  `fault_lifts`: good items + one dying item ⇒ `assembleItems = .error e`.
  Here: `GoodItem` (a sufficient, syntactic-plus-evaluation description of "good in any context") and, per
  fault class, simple hypotheses on the faulty item that make it `Die`.
-/
import BB.Lemmas.ErrLocalPseudo
import BB.Props.C15
import BB.Props.C11
import BB.Lemmas.ReadText
namespace BB.Props.C15
open BB BB.Lemmas

/-! ## good items -/

/-- "assembles fine in any context": what may stand before and after the faulty item.

    SCOPE (review finding X5).  "Any context" is meant literally: a good item must go through every
    pass at EVERY position and under EVERY label table (`Passes`, `GoodInstr.res` quantify over all
    of them, the empty table included).  Consequently
    * there is no constructor for a constant definition (`K = 5`): the surrounding program defines
      no constants, and no good item refers to one;
    * the surrounding program may DEFINE labels (`label`) but no good item may REFER to one: a branch
      or jump to a label of the program (`beq x0, x0, start`, `jal ra, start`, `j start`), `%offset L`,
      `%position(L, …)`, `dw L` are not `GoodInstr` / `GoodItem`, although the model assembles such
      programs fine (audit/front/A3_c15.lean proves the three refutations).  Admitting them needs
      an invariant that bounds the label values over all layouts the passes go through, which the
      context-free formulation deliberately avoids;
    * immediates of good items are literal (`LitImm`): the same value under every environment.
    So the theorems below say: a fault among label DEFINITIONS, data, alignment and instructions
    with literal operands is reported at its own line - not yet: among arbitrary correct code. -/
inductive GoodItem (H : Hooks) (c : Bool) : Item → Prop
  | label (line : Line) (name : String) : GoodItem H c (.label line name)
  | blob (line : Line) (d : List Nat) : GoodItem H c (.blob line d)
  | string (line : Line) (v : String) : GoodItem H c (.string line v)
  | align (line : Line) (a : Int) (h : 0 < a) : GoodItem H c (.align line a)
  /-- a literal instruction that encodes, and still does in the form `-c` rewrites it to -/
  | instr (line : Line) (ins : Instr) (h : GoodInstr H c line ins) : GoodItem H c (.instr line ins)
  | pack (line : Line) (fmt : String) (imm : Imm) (n : Nat) (v : Int) (bs : List Nat)
      (hs : packSize fmt = some n) (hv : LitImm H imm v) (hb : packFmt fmt v = .ok (some bs)) :
      GoodItem H c (.pack line fmt imm)
  | shorthand (line : Line) (name fmt : String) (imm : Imm) (n : Nat) (v : Int) (bs : List Nat)
      (hs : shorthandSize name = some n) (hv : LitImm H imm v) (hf : shorthandFmt name v = some fmt)
      (hb : packFmt fmt v = .ok (some bs)) : GoodItem H c (.shorthandPack line name imm)
  | sequence (line : Line) (name : String) (vals : List String) (n : Nat) (bs : List Nat)
      (hs : sequenceElemSize name = some n) (hb : seqStep (.sequence line name vals) = .ok (.blob line bs)) :
      GoodItem H c (.sequence line name vals)
  /-- a pseudo-instruction with context-free operands whose expansion consists of good instructions -/
  | pseudo (line : Line) (name : String) (args : List String)
      (h : ∀ p l, ∃ instrs short, expandPseudo H (chainGet [] l) line name args p = .ok (instrs, short) ∧
        ∀ i ∈ instrs, GoodInstr H c line i) : GoodItem H c (.pseudo line name args)

theorem GoodItem.passes {H : Hooks} {c : Bool} (Q : Dict → Prop) {y : Item} (h : GoodItem H c y)
    (hnl : ∀ l n, y ≠ .label l n) : Passes Q (stages H c) y := by
  cases h with
  | label line name => exact absurd rfl (hnl line name)
  | blob line d => exact passes_blob H c Q line d
  | string line v => exact passes_string H c Q line v
  | align line a h => exact passes_align H c Q line a h
  | instr line ins h => exact passes_instr Q h
  | pack line fmt imm n v bs hs hv hb => exact passes_pack H c Q hs hv hb
  | shorthand line name fmt imm n v bs hs hv hf hb => exact passes_shorthand H c Q hs hv hf hb
  | sequence line name vals n bs hs hb => exact passes_sequence H c Q hs hb
  | pseudo line name args h => exact passes_pseudo Q (fun p l _ => h p l)

theorem sized_of_isSome {it : Item} (h : it.size?.isSome = true) : ∃ v, it.sizeE = .ok v := by
  unfold Item.sizeE
  cases hs : it.size? with
  | none => simp [hs] at h
  | some n => exact ⟨n, rfl⟩

theorem GoodItem.sized {H : Hooks} {c : Bool} {y : Item} (h : GoodItem H c y) : ∃ v, y.sizeE = .ok v := by
  apply sized_of_isSome
  cases h with
  | pack line fmt imm n v bs hs hv hb => simp [Item.size?, hs]
  | shorthand line name fmt imm n v bs hs hv hf hb => simp [Item.size?, hs]
  | sequence line name vals n bs hs hb => simp [Item.size?, hs]
  | _ => simp [Item.size?]

theorem GoodItem.not_constant {H : Hooks} {c : Bool} {y : Item} (h : GoodItem H c y) :
    ∀ l n x, y ≠ .constant l n x := by
  intro l n x hy
  cases h <;> cases hy

/-! ## the generic statement -/

/-- **A fault placed anywhere among good items is reported at its own line.**
    "Good items" is narrower than "correct code" (see `GoodItem`, review finding X5): `pre` and `post`
    may define labels but contain no item that refers to a label or a constant and no constant
    definition - label definitions, blobs, strings, positive aligns, instructions and
    pseudo-instructions with literal operands, data directives with literal values.
    `pre` and `post` consist of good items (labels included, pairwise different over the whole program);
    `x` dies with `.asm line` in every context whose label table satisfies `Q` - an invariant the
    label-shifting rule preserves and the program's own label table satisfies.  Both modes. -/
theorem fault_reported_at_its_line {H : Hooks} {c : Bool} {Q : Dict → Prop} (pre post : List Item) (x : Item)
    (line : Line)
    (hpre : ∀ y ∈ pre, GoodItem H c y) (hpost : ∀ y ∈ post, GoodItem H c y)
    (hx : Dies Q (.asm line) (stages H c) x)
    (hxc : ∀ l n e, x ≠ .constant l n e) (hxs : ∃ v, x.sizeE = .ok v)
    (hnd : (labelNames (pre ++ x :: post)).Nodup)
    (hQ : ∀ l p n, Q l → Q (l.shiftAbove p n))
    (hQ0 : ∀ l : Dict, (∀ k, k ∉ labelNames (pre ++ x :: post) → l.get k = none) → Q l) :
    assembleItems H c (pre ++ x :: post) [] [] = .error (.asm line) := by
  have hxnl : ∀ l n, x ≠ .label l n := by
    rw [stages_eq] at hx; exact hx.1
  have hmem : ∀ y ∈ pre ++ x :: post, y = x ∨ GoodItem H c y := by
    intro y hy
    simp only [List.mem_append, List.mem_cons] at hy
    rcases hy with hy | rfl | hy
    · exact Or.inr (hpre y hy)
    · exact Or.inl rfl
    · exact Or.inr (hpost y hy)
  apply fault_lifts hQ (pre ++ x :: post)
  · intro y hy
    rcases hmem y hy with rfl | hg
    · exact hxc
    · exact hg.not_constant
  · exact hnd
  · intro y hy
    rcases hmem y hy with rfl | hg
    · exact hxs
    · exact hg.sized
  · exact hQ0
  · intro y hy
    obtain ⟨hy1, hy2⟩ := List.mem_filter.mp hy
    rcases hmem y hy1 with rfl | hg
    · exact Or.inl hx
    · refine Or.inr (hg.passes Q ?_)
      intro l n h; subst h; simp [Item.isLabel] at hy2
  · refine ⟨x, ?_, hx⟩
    apply List.mem_filter.mpr
    refine ⟨by simp, ?_⟩
    cases x <;> first | rfl | exact absurd rfl (hxnl _ _)

/-! ## per class: instructions -/

/-- the label-table invariant "the name `ref` is not defined" -/
def Undefined (ref : String) (l : Dict) : Prop := l.get ref = none

theorem undefined_shift (ref : String) (l : Dict) (p n : Int) (h : Undefined ref l) :
    Undefined ref (l.shiftAbove p n) := by
  unfold Undefined at *
  rw [Dict.get_shiftAbove, h]; rfl

/-- what `-c` makes of the faulty instruction, computed ONCE (position 0, no labels): it refuses it
    with the same error, or leaves it alone, or rewrites it to a form that is refused later -/
def CompressKeepsFault (H : Hooks) (Q : Dict → Prop) (line : Line) (ins : Instr) : Prop :=
  CompressOutcome line ins true (Refused H Q line) (firstMatch H (chainGet [] []) line ins 0 criteria)

/-- **(1) operand out of range, (2) unknown register**: an instruction with a literal (or no)
    immediate that the encoder refuses with a ValueError, anywhere among good items. -/
theorem encoder_fault_reported {H : Hooks} {c : Bool} (pre post : List Item) (line : Line) (ins : Instr)
    (hpre : ∀ y ∈ pre, GoodItem H c y) (hpost : ∀ y ∈ post, GoodItem H c y)
    (hnd : (labelNames (pre ++ .instr line ins :: post)).Nodup)
    (haj : ins.isAuipcJump = false)
    (himm : (ins.imm? = none ∧ encodeInstr line ins = .error (.asm line)) ∨
      ∃ imm v, ins.imm? = some imm ∧ LitImm H imm v ∧ encodeInstr line (ins.setImm (.value v)) = .error (.asm line))
    (hcmp : c = true → CompressKeepsFault H (fun _ => True) line ins) :
    assembleItems H c (pre ++ .instr line ins :: post) [] [] = .error (.asm line) := by
  have href : Refused H (fun _ => True) line ins := by
    rcases himm with ⟨h, he⟩ | ⟨imm, v, h, hv, he⟩
    · exact refused_noimm h he
    · exact refused_lit h haj hv he
  have hlit : ins.imm? = none ∨ ∃ imm v, ins.imm? = some imm ∧ LitImm H imm v := by
    rcases himm with ⟨h, _⟩ | ⟨imm, v, h, hv, _⟩
    · exact Or.inl h
    · exact Or.inr ⟨imm, v, h, hv⟩
  have hbad : BadInstr H c (fun _ => True) line ins :=
    ⟨haj, href, fun hc p l _ => by rw [firstMatch_lit hlit]; exact hcmp hc⟩
  exact fault_reported_at_its_line pre post _ line hpre hpost (dies_instr hbad) (by intro _ _ _ h; cases h)
    (sized_of_isSome (by simp [Item.size?])) hnd (fun _ _ _ _ => trivial) (fun _ _ => trivial)

/-- **(3) undefined label, (4) undefined constant, (5) failing arithmetic** in an instruction's
    immediate: the immediate does not evaluate in any context in which `ref` is undefined (take any
    `ref` that no label is named, e.g. the undefined name itself), anywhere among good items. -/
theorem immediate_fault_reported {H : Hooks} {c : Bool} (pre post : List Item) (line : Line) (ins : Instr)
    (imm : Imm) (ref : String)
    (hpre : ∀ y ∈ pre, GoodItem H c y) (hpost : ∀ y ∈ post, GoodItem H c y)
    (hnd : (labelNames (pre ++ .instr line ins :: post)).Nodup)
    (href : ref ∉ labelNames (pre ++ .instr line ins :: post))
    (haj : ins.isAuipcJump = false) (himm : ins.imm? = some imm)
    (hev : ∀ p l, Undefined ref l → imm.eval H (chainGet [] l) line p = .error (.asm line))
    (hcmp : c = true → CompressKeepsFault H (Undefined ref) line ins) :
    assembleItems H c (pre ++ .instr line ins :: post) [] [] = .error (.asm line) := by
  have hq0 : Undefined ref [] := rfl
  have hbad : BadInstr H c (Undefined ref) line ins :=
    ⟨haj, refused_eval himm haj hev, fun hc p l hl => by
      rw [firstMatch_failing himm hev hq0 p l hl]; exact hcmp hc⟩
  exact fault_reported_at_its_line pre post _ line hpre hpost (dies_instr hbad) (by intro _ _ _ h; cases h)
    (sized_of_isSome (by simp [Item.size?])) hnd (undefined_shift ref) (fun l hl => hl ref href)

/-- how the listed immediates fail: `%offset(ref)` / `%position(ref, e)` of an undefined name … -/
theorem undefined_ref_fails (H : Hooks) (line : Line) (ref e : String) (p : Int) (l : Dict) (h : Undefined ref l) :
    Imm.eval H (chainGet [] l) line (.offset ref) p = .error (.asm line) ∧
    Imm.eval H (chainGet [] l) line (.position ref e) p = .error (.asm line) := by
  have : chainGet [] l ref = none := by
    unfold Undefined at h
    simp only [chainGet, h]; rfl
  simp [Imm.eval, this]

/-- … arithmetic that fails in every environment (malformed, non-integer, division by zero) or in every
    environment that does not define `ref` (an undefined constant or a bare undefined label) … -/
theorem failing_arith_fails (H : Hooks) (line : Line) (e ref : String) (p : Int) (l : Dict)
    (he : ∀ env : String → Option Int, env ref = none → H.arith e env = .error .error) (h : Undefined ref l) :
    Imm.eval H (chainGet [] l) line (.arith e) p = .error (.asm line) := by
  have : chainGet [] l ref = none := by
    unfold Undefined at h
    simp only [chainGet, h]; rfl
  simp [Imm.eval, he _ this, liftExpr]

/-- … and `%hi` / `%lo` of a failing immediate -/
theorem hi_lo_fails (H : Hooks) (env : String → Option Int) (line : Line) (imm : Imm) (p : Int)
    (h : imm.eval H env line p = .error (.asm line)) :
    Imm.eval H env line (.hi imm) p = .error (.asm line) ∧ Imm.eval H env line (.lo imm) p = .error (.asm line) := by
  simp [Imm.eval, h, bind, Except.bind]

/-! ## per class: data directives -/

/-- **data value that does not fit** (`pack <B 256`, `db 256`, `dh -32769`), anywhere among good items -/
theorem pack_misfit_reported {H : Hooks} {c : Bool} (pre post : List Item) (line : Line) (fmt : String) (imm : Imm)
    (n : Nat) (v : Int)
    (hpre : ∀ y ∈ pre, GoodItem H c y) (hpost : ∀ y ∈ post, GoodItem H c y)
    (hnd : (labelNames (pre ++ .pack line fmt imm :: post)).Nodup)
    (hs : packSize fmt = some n) (hv : LitImm H imm v) (hb : packFmt fmt v = .ok none) :
    assembleItems H c (pre ++ .pack line fmt imm :: post) [] [] = .error (.asm line) :=
  fault_reported_at_its_line pre post _ line hpre hpost (dies_pack_misfit H c (fun _ => True) hs hv hb)
    (by intro _ _ _ h; cases h) (sized_of_isSome (by simp [Item.size?, hs])) hnd (fun _ _ _ _ => trivial) (fun _ _ => trivial)

theorem shorthand_misfit_reported {H : Hooks} {c : Bool} (pre post : List Item) (line : Line) (name fmt : String)
    (imm : Imm) (n : Nat) (v : Int)
    (hpre : ∀ y ∈ pre, GoodItem H c y) (hpost : ∀ y ∈ post, GoodItem H c y)
    (hnd : (labelNames (pre ++ .shorthandPack line name imm :: post)).Nodup)
    (hs : shorthandSize name = some n) (hv : LitImm H imm v) (hf : shorthandFmt name v = some fmt)
    (hb : packFmt fmt v = .ok none) :
    assembleItems H c (pre ++ .shorthandPack line name imm :: post) [] [] = .error (.asm line) :=
  fault_reported_at_its_line pre post _ line hpre hpost (dies_shorthand_misfit H c (fun _ => True) hs hv hf hb)
    (by intro _ _ _ h; cases h) (sized_of_isSome (by simp [Item.size?, hs])) hnd (fun _ _ _ _ => trivial) (fun _ _ => trivial)

/-- `bytes 256 0`, `shorts -32769`, `bytes zz`: resolve_sequences' refusal -/
theorem sequence_fault_reported {H : Hooks} {c : Bool} (pre post : List Item) (line : Line) (name : String)
    (vals : List String) (n : Nat)
    (hpre : ∀ y ∈ pre, GoodItem H c y) (hpost : ∀ y ∈ post, GoodItem H c y)
    (hnd : (labelNames (pre ++ .sequence line name vals :: post)).Nodup)
    (hs : sequenceElemSize name = some n) (he : seqStep (.sequence line name vals) = .error (.asm line)) :
    assembleItems H c (pre ++ .sequence line name vals :: post) [] [] = .error (.asm line) :=
  fault_reported_at_its_line pre post _ line hpre hpost (dies_sequence H c (fun _ => True) hs he)
    (by intro _ _ _ h; cases h) (sized_of_isSome (by simp [Item.size?, hs])) hnd (fun _ _ _ _ => trivial) (fun _ _ => trivial)

/-- **undefined label / constant, failing arithmetic in a data word** (`dw nowhere`, `dd FOO + 4`, `dh 1 +`) -/
theorem shorthand_value_fault_reported {H : Hooks} {c : Bool} (pre post : List Item) (line : Line) (name : String)
    (imm : Imm) (n : Nat) (ref : String)
    (hpre : ∀ y ∈ pre, GoodItem H c y) (hpost : ∀ y ∈ post, GoodItem H c y)
    (hnd : (labelNames (pre ++ .shorthandPack line name imm :: post)).Nodup)
    (href : ref ∉ labelNames (pre ++ .shorthandPack line name imm :: post))
    (hs : shorthandSize name = some n)
    (hev : ∀ p l, Undefined ref l → imm.eval H (chainGet [] l) line p = .error (.asm line)) :
    assembleItems H c (pre ++ .shorthandPack line name imm :: post) [] [] = .error (.asm line) :=
  fault_reported_at_its_line pre post _ line hpre hpost (dies_shorthand_eval H c (Undefined ref) hs hev)
    (by intro _ _ _ h; cases h) (sized_of_isSome (by simp [Item.size?, hs])) hnd (undefined_shift ref)
    (fun l hl => hl ref href)

theorem pack_value_fault_reported {H : Hooks} {c : Bool} (pre post : List Item) (line : Line) (fmt : String)
    (imm : Imm) (n : Nat) (ref : String)
    (hpre : ∀ y ∈ pre, GoodItem H c y) (hpost : ∀ y ∈ post, GoodItem H c y)
    (hnd : (labelNames (pre ++ .pack line fmt imm :: post)).Nodup)
    (href : ref ∉ labelNames (pre ++ .pack line fmt imm :: post))
    (hs : packSize fmt = some n)
    (hev : ∀ p l, Undefined ref l → imm.eval H (chainGet [] l) line p = .error (.asm line)) :
    assembleItems H c (pre ++ .pack line fmt imm :: post) [] [] = .error (.asm line) :=
  fault_reported_at_its_line pre post _ line hpre hpost (dies_pack_eval H c (Undefined ref) hs hev)
    (by intro _ _ _ h; cases h) (sized_of_isSome (by simp [Item.size?, hs])) hnd (undefined_shift ref)
    (fun l hl => hl ref href)

/-! ## per class: pseudo-instructions -/

/-- **a fault that surfaces while expanding a pseudo-instruction or in an instruction of its
    expansion** (`call nowhere`, `li x99, 5`, `mv x1, q7`, `beqz q7, L`) still carries the
    pseudo-instruction's line, anywhere among good items -/
theorem pseudo_fault_reported {H : Hooks} {c : Bool} (pre post : List Item) (line : Line) (name : String)
    (args : List String) (ref : String)
    (hpre : ∀ y ∈ pre, GoodItem H c y) (hpost : ∀ y ∈ post, GoodItem H c y)
    (hnd : (labelNames (pre ++ .pseudo line name args :: post)).Nodup)
    (href : ref ∉ labelNames (pre ++ .pseudo line name args :: post))
    (hexp : ∀ p l, Undefined ref l → expandPseudo H (chainGet [] l) line name args p = .error (.asm line) ∨
      ∃ instrs short, expandPseudo H (chainGet [] l) line name args p = .ok (instrs, short) ∧
        (∀ i ∈ instrs, BadInstr H c (Undefined ref) line i ∨ GoodInstr H c line i) ∧
        ∃ i ∈ instrs, BadInstr H c (Undefined ref) line i) :
    assembleItems H c (pre ++ .pseudo line name args :: post) [] [] = .error (.asm line) :=
  fault_reported_at_its_line pre post _ line hpre hpost (dies_pseudo hexp)
    (by intro _ _ _ h; cases h) (sized_of_isSome (by simp [Item.size?])) hnd (undefined_shift ref)
    (fun l hl => hl ref href)

/-! ## per class: constants and labels (the two passes in front of the stages) -/

/-- **(4)/(5) a bad constant definition** (`K = UNDEFINED * 2`, `K = 1 +`): resolve_constants is the
    first pass, so it is reported whatever else the program contains - only the constants in front of
    it must be fine (here: there are none). -/
theorem constant_fault_reported (H : Hooks) (c : Bool) (pre post : List Item) (line : Line) (name e : String)
    (hpre : ∀ it ∈ pre, ∀ l n x, it ≠ .constant l n x)
    (h1 : (registersStrKeys.lookup name).isSome = false) (h2 : isInt name.toList = false)
    (he : H.arith e (fun k => match Dict.get [] k with | some v => some v | none => registersEnv k) = .error .error) :
    assembleItems H c (pre ++ .constant line name (.arith e) :: post) [] [] = .error (.asm line) := by
  have hrc : resolveConstants H (pre ++ .constant line name (.arith e) :: post) [] = .error (.asm line) := by
    induction pre with
    | nil => exact bad_constant_reported H line name e post [] h1 h2 he
    | cons it rest ih =>
      rw [List.cons_append, resolveConstants_cons_other H (hpre it List.mem_cons_self),
        ih (fun x hx => hpre x (List.mem_cons_of_mem _ hx))]
  unfold assembleItems
  simp only [hrc, bind, Except.bind]

/-- **(6) the second definition of a label**: resolve_labels is the second pass, so the duplicate is
    reported whatever the instructions and data of the program look like (they only need sizes; the
    program has no constants, the other labels are pairwise different). -/
theorem duplicate_label_reported_program (H : Hooks) (c : Bool) (pre mid post : List Item) (l1 l2 : Line) (nm : String)
    (hnc : ∀ it ∈ pre ++ .label l1 nm :: (mid ++ .label l2 nm :: post), ∀ l n x, it ≠ .constant l n x)
    (hsz : ∀ it ∈ pre ++ mid, ∃ v, it.sizeE = .ok v)
    (hnd : (labelsIn (pre ++ mid)).Nodup) (hnm : nm ∉ labelsIn (pre ++ mid)) :
    assembleItems H c (pre ++ .label l1 nm :: (mid ++ .label l2 nm :: post)) [] [] = .error (.asm l2) := by
  unfold assembleItems
  rw [resolveConstants_noconst H _ [] hnc]
  simp only [bind, Except.bind, duplicate_label_reported pre mid post l1 l2 nm [] hsz hnd hnm]

/-! ## per class: the front end (`assembleText`) -/

/-- **(8) a missing include file** is reported by `assemble()` on the include line (file, 1-based
    number), whatever follows it; the lines before it in that file are anything but include lines. -/
theorem missing_include_reported_text (fs : FS) (cwd : String) (dirs : List String) (c : Bool) (text : String)
    (pre : List (List Char)) (raw : List Char) (post : List (List Char))
    (hcwd : normAbs cwd = true) (hdirs : dirs.all absOk = true)
    (hascii : text.toList.all (fun ch => ch.toNat < 128) = true)
    (hsplit : splitLines text.toList = pre ++ raw :: post) (hpre : ∀ r ∈ pre, PlainLine r)
    (hraw : MissingInclude fs (dirs ++ [cwd]) raw) :
    assembleText fs cwd dirs c (.source text) =
      .error (.asm { file := "<string>", number := pre.length + 1, contents := String.ofList raw }) := by
  unfold assembleText
  rw [frontEnd_eq]
  have hr : readInput fs cwd dirs (.source text) =
      .error (.asm { file := "<string>", number := pre.length + 1, contents := String.ofList raw }) := by
    unfold readInput
    simp only [hcwd, hdirs, sourceOk_of_ascii _ hascii, Bool.not_true, Bool.false_eq_true, ↓reduceIte]
    exact missing_include_reported fs dirs (fs.files.length + 1) "<string>" cwd text.toList pre raw post hsplit hpre hraw
  simp only [hr, bind, Except.bind]

/-- **(7) the `error` directive**: if the lines read all lex, and the lines in front of the directive
    parse, `assemble()` fails with the directive's line - whatever the rest of the program is. -/
theorem error_directive_reported_text (fs : FS) (cwd : String) (dirs : List String) (c : Bool) (input : Input)
    (lines : List Line) (pre post : List (Line × List String)) (ln : Line) (message : String)
    (hread : readInput fs cwd dirs input = .ok lines)
    (hlex : frontEnd.lexAll (lines.filter (fun l => l.contents.length > 0)) = .ok (pre ++ (ln, ["error", message]) :: post))
    (hpre : ∀ t ∈ pre, ∃ it, parseItem t.1 t.2 = .ok it) :
    assembleText fs cwd dirs c input = .error (.asm ln) := by
  have hparse : frontEnd.parseAll (pre ++ (ln, ["error", message]) :: post) = .error (.asm ln) := by
    clear hlex
    induction pre with
    | nil =>
      simp only [List.nil_append, frontEnd.parseAll, error_directive_reported, bind, Except.bind]
    | cons t rest ih =>
      obtain ⟨tl, tt⟩ := t
      obtain ⟨it, hit⟩ := hpre (tl, tt) List.mem_cons_self
      simp only [List.cons_append, frontEnd.parseAll, hit, bind, Except.bind,
        ih (fun x hx => hpre x (List.mem_cons_of_mem _ hx))]
  unfold assembleText
  rw [frontEnd_eq]
  simp only [hread, bind, Except.bind, lexParse, hlex, hparse]

/-! ## first fault wins: the pass order decides, not the line order -/

/-- A bad constant definition beats every other fault of the program, also one on an EARLIER line:
    `pre` and `post` are arbitrary but for the absence of constants in `pre`. -/
theorem first_fault_wins_constant (H : Hooks) (c : Bool) (pre post : List Item) (line : Line) (name e : String)
    (hpre : ∀ it ∈ pre, ∀ l n x, it ≠ .constant l n x)
    (h1 : (registersStrKeys.lookup name).isSome = false) (h2 : isInt name.toList = false)
    (he : H.arith e (fun k => match Dict.get [] k with | some v => some v | none => registersEnv k) = .error .error) :
    assembleItems H c (pre ++ .constant line name (.arith e) :: post) [] [] = .error (.asm line) :=
  constant_fault_reported H c pre post line name e hpre h1 h2 he

/-- A duplicate label beats every instruction- or data-level fault, wherever those stand. -/
theorem first_fault_wins_duplicate (H : Hooks) (c : Bool) (pre mid post : List Item) (l1 l2 : Line) (nm : String)
    (hnc : ∀ it ∈ pre ++ .label l1 nm :: (mid ++ .label l2 nm :: post), ∀ l n x, it ≠ .constant l n x)
    (hsz : ∀ it ∈ pre ++ mid, ∃ v, it.sizeE = .ok v)
    (hnd : (labelsIn (pre ++ mid)).Nodup) (hnm : nm ∉ labelsIn (pre ++ mid)) :
    assembleItems H c (pre ++ .label l1 nm :: (mid ++ .label l2 nm :: post)) [] [] = .error (.asm l2) :=
  duplicate_label_reported_program H c pre mid post l1 l2 nm hnc hsz hnd hnm

/-- Among the item-wise stages too: with SEVERAL faulty items, all dying with the same kind of error
    `e`, … the statement of `fault_lifts` allows any number of dying items; with different errors the
    stage that objects first decides.  Line 1 `addi x5, x6, 2048` (encoder, pass 10) and line 2
    `beq x5, x6, nowhere` (resolve_immediates, pass 9): line 2 is reported. -/
theorem first_fault_wins_example :
    assembleItems (textHooks ⟨[], []⟩) false
      [.instr ⟨"m.asm", 1, "addi x5, x6, 2048"⟩ (.i "addi" (.str "x5") (.str "x6") (.arith "2048") false),
       .instr ⟨"m.asm", 2, "beq x5, x6, nowhere"⟩ (.b "beq" (.str "x5") (.str "x6") (.offset "nowhere"))] [] [] =
      .error (.asm ⟨"m.asm", 2, "beq x5, x6, nowhere"⟩) := by decide

/-- … a duplicate label on line 4 beats the out-of-range operand on line 1 … -/
theorem first_fault_wins_example_label :
    assembleItems (textHooks ⟨[], []⟩) true
      [.instr ⟨"m.asm", 1, "addi x5, x6, 2048"⟩ (.i "addi" (.str "x5") (.str "x6") (.arith "2048") false),
       .label ⟨"m.asm", 2, "L:"⟩ "L",
       .label ⟨"m.asm", 4, "L:"⟩ "L"] [] [] = .error (.asm ⟨"m.asm", 4, "L:"⟩) := by decide

/-- … and a bad constant on line 9 beats both. -/
theorem first_fault_wins_example_constant :
    assembleItems (textHooks ⟨[], []⟩) true
      [.instr ⟨"m.asm", 1, "addi x5, x6, 2048"⟩ (.i "addi" (.str "x5") (.str "x6") (.arith "2048") false),
       .label ⟨"m.asm", 2, "L:"⟩ "L",
       .label ⟨"m.asm", 4, "L:"⟩ "L",
       .constant ⟨"m.asm", 9, "K = 1 +"⟩ "K" (.arith "1 +")] [] [] = .error (.asm ⟨"m.asm", 9, "K = 1 +"⟩) := by
  decide

/-! ## tools for instantiating the theorems, and non-vacuity: one program per class, both modes -/

/-- decimal numerals are context-free immediates of the real evaluator -/
theorem litImm_dec (fs : FS) (s : String) (n : Nat) (h : s.toList = BB.Props.C11.decStr n)
    (hlen : s.toList.length ≤ maxExprLen) : LitImm (textHooks fs) (.arith s) (n : Int) := by
  intro env line p
  have : evalArithL s.toList env = .ok (n : Int) := BB.Props.C11.lit_arith env s.toList n (Or.inl h) hlen
  simp [Imm.eval, textHooks, evalArith, this, liftExpr]

/-- `GoodInstr` from what `-c` decides ONCE (position 0, no labels), for a literal or absent immediate -/
theorem goodInstr_of_canonical {H : Hooks} {c : Bool} {line : Line} {ins : Instr} (haj : ins.isAuipcJump = false)
    (hres : Resolves H line ins) (hlit : ins.imm? = none ∨ ∃ imm v, ins.imm? = some imm ∧ LitImm H imm v)
    (hcmp : c = true → CompressOutcome line ins false (Resolves H line) (firstMatch H (chainGet [] []) line ins 0 criteria)) :
    GoodInstr H c line ins :=
  ⟨haj, hres, fun hc p l => by rw [firstMatch_lit hlit]; exact hcmp hc⟩

def Item.isConstant : Item → Bool
  | .constant .. => true
  | _ => false

/-- decidable forms of two hypotheses -/
theorem noconst_of_all {L : List Item} (h : L.all (fun it => !Item.isConstant it) = true) :
    ∀ it ∈ L, ∀ l n x, it ≠ .constant l n x := by
  intro it hit l n x he
  have := List.all_eq_true.mp h it hit
  subst he
  simp [Item.isConstant] at this

theorem sized_of_all {L : List Item} (h : L.all (fun it => it.size?.isSome) = true) :
    ∀ it ∈ L, ∃ v, it.sizeE = .ok v := fun it hit => sized_of_isSome (List.all_eq_true.mp h it hit)

abbrev exHooks : Hooks := textHooks ⟨[], []⟩
abbrev exLine (n : Nat) (s : String) : Line := ⟨"main.asm", n, s⟩

/-- `nop` (compressed to c.nop with -c) -/
theorem good_nop (c : Bool) : GoodItem exHooks c (.instr (exLine 2 "nop") (.i "addi" (.str "x0") (.str "x0") (.arith "0") false)) := by
  refine .instr _ _ (goodInstr_of_canonical rfl ?_ ?_ ?_)
  · exact resolves_lit (v := 0) (bs := [19, 0, 0, 0]) rfl rfl (litImm_dec _ "0" 0 (by decide) (by decide)) (by decide)
  · exact Or.inr ⟨_, 0, rfl, litImm_dec _ "0" 0 (by decide) (by decide)⟩
  · intro _
    refine Or.inr (Or.inr ⟨"c.nop", .cin "c.nop", by decide, by decide, rfl, ?_⟩)
    exact resolves_noimm (bs := [1, 0]) rfl (by decide)

/-- `addi x9, x9, 1` (compressed to c.addi with -c) -/
theorem good_addi (c : Bool) : GoodItem exHooks c (.instr (exLine 8 "addi x9, x9, 1") (.i "addi" (.str "x9") (.str "x9") (.arith "1") false)) := by
  refine .instr _ _ (goodInstr_of_canonical rfl ?_ ?_ ?_)
  · exact resolves_lit (v := 1) (bs := [147, 132, 20, 0]) rfl rfl (litImm_dec _ "1" 1 (by decide) (by decide)) (by decide)
  · exact Or.inr ⟨_, 1, rfl, litImm_dec _ "1" 1 (by decide) (by decide)⟩
  · intro _
    refine Or.inr (Or.inr ⟨"c.addi", .ci "c.addi" (.str "x9") (.arith "1"), by decide, by decide, rfl, ?_⟩)
    exact resolves_lit (v := 1) (bs := [133, 4]) rfl rfl (litImm_dec _ "1" 1 (by decide) (by decide)) (by decide)

/-- `lui x5, 74565` (never compressed) -/
theorem good_lui (c : Bool) : GoodItem exHooks c (.instr (exLine 5 "lui x5, 74565") (.u "lui" (.str "x5") (.arith "74565"))) := by
  refine .instr _ _ (goodInstr_of_canonical rfl ?_ ?_ ?_)
  · exact resolves_lit (v := 74565) (bs := [183, 82, 52, 18]) rfl rfl (litImm_dec _ "74565" 74565 (by decide) (by decide)) (by decide)
  · exact Or.inr ⟨_, 74565, rfl, litImm_dec _ "74565" 74565 (by decide) (by decide)⟩
  · intro _
    exact Or.inr (Or.inl (by decide))

theorem good_dw (c : Bool) : GoodItem exHooks c (.shorthandPack (exLine 10 "dw 7") "dw" (.arith "7")) :=
  .shorthand _ "dw" "<I" _ 4 7 [7, 0, 0, 0] (by decide) (litImm_dec _ "7" 7 (by decide) (by decide)) (by decide) (by decide)

theorem good_bytes (c : Bool) : GoodItem exHooks c (.sequence (exLine 11 "bytes 1 2") "bytes" ["1", "2"]) :=
  .sequence _ _ _ 1 [1, 2] (by decide) (by decide)

/-- the good items around the faulty one in the examples: a label, nop, a string, `align 4`, … -/
def exBefore : List Item :=
  [.label (exLine 1 "start:") "start", .instr (exLine 2 "nop") (.i "addi" (.str "x0") (.str "x0") (.arith "0") false),
   .string (exLine 3 "string hi") "hi", .align (exLine 4 "align 4") 4,
   .instr (exLine 5 "lui x5, 74565") (.u "lui" (.str "x5") (.arith "74565"))]

def exAfter : List Item :=
  [.instr (exLine 8 "addi x9, x9, 1") (.i "addi" (.str "x9") (.str "x9") (.arith "1") false),
   .label (exLine 9 "end:") "end", .shorthandPack (exLine 10 "dw 7") "dw" (.arith "7"),
   .sequence (exLine 11 "bytes 1 2") "bytes" ["1", "2"]]

theorem exBefore_good (c : Bool) : ∀ y ∈ exBefore, GoodItem exHooks c y := by
  intro y hy
  simp only [exBefore, List.mem_cons, List.not_mem_nil, or_false] at hy
  rcases hy with rfl | rfl | rfl | rfl | rfl
  · exact .label _ _
  · exact good_nop c
  · exact .string _ _
  · exact .align _ _ (by decide)
  · exact good_lui c

theorem exAfter_good (c : Bool) : ∀ y ∈ exAfter, GoodItem exHooks c y := by
  intro y hy
  simp only [exAfter, List.mem_cons, List.not_mem_nil, or_false] at hy
  rcases hy with rfl | rfl | rfl | rfl
  · exact good_addi c
  · exact .label _ _
  · exact good_dw c
  · exact good_bytes c

/-- (1) `addi x5, x6, 2048` on line 6, both modes (with -c no rule matches it) -/
example (c : Bool) :
    assembleItems exHooks c (exBefore ++ .instr (exLine 6 "addi x5, x6, 2048") (.i "addi" (.str "x5") (.str "x6") (.arith "2048") false) :: exAfter) [] [] =
      .error (.asm (exLine 6 "addi x5, x6, 2048")) :=
  encoder_fault_reported _ _ _ _ (exBefore_good c) (exAfter_good c) (by decide) rfl
    (Or.inr ⟨_, 2048, rfl, litImm_dec _ "2048" 2048 (by decide) (by decide), by decide⟩)
    (fun _ => Or.inr (Or.inl (by decide)))

/-- (2) `addi q1, x1, 0` on line 6: without -c the encoder refuses it, with -c transform_compressible does -/
example (c : Bool) :
    assembleItems exHooks c (exBefore ++ .instr (exLine 6 "addi q1, x1, 0") (.i "addi" (.str "q1") (.str "x1") (.arith "0") false) :: exAfter) [] [] =
      .error (.asm (exLine 6 "addi q1, x1, 0")) :=
  encoder_fault_reported _ _ _ _ (exBefore_good c) (exAfter_good c) (by decide) rfl
    (Or.inr ⟨_, 0, rfl, litImm_dec _ "0" 0 (by decide) (by decide), by decide⟩)
    (fun _ => Or.inl ⟨rfl, by decide⟩)

/-- (2) `sw q1, 4(sp)`: with -c it is first rewritten to `c.swsp q1, 4` (the rule never looks at rs2) and
    refused in that form - still with the line of the `sw` -/
example (c : Bool) :
    assembleItems exHooks c (exBefore ++ .instr (exLine 6 "sw q1, 4(sp)") (.s "sw" (.str "sp") (.str "q1") (.arith "4")) :: exAfter) [] [] =
      .error (.asm (exLine 6 "sw q1, 4(sp)")) :=
  encoder_fault_reported _ _ _ _ (exBefore_good c) (exAfter_good c) (by decide) rfl
    (Or.inr ⟨_, 4, rfl, litImm_dec _ "4" 4 (by decide) (by decide), by decide⟩)
    (fun _ => Or.inr (Or.inr ⟨"c.swsp", .css "c.swsp" (.str "q1") (.arith "4"), by decide, by decide, rfl,
      refused_lit (v := 4) rfl rfl (litImm_dec _ "4" 4 (by decide) (by decide)) (by decide)⟩))

/-- (3) `beq x8, x0, nowhere`: with -c the c.beqz rule evaluates the offset and fails, without -c
    resolve_immediates does -/
example (c : Bool) :
    assembleItems exHooks c (exBefore ++ .instr (exLine 6 "beq x8, x0, nowhere") (.b "beq" (.str "x8") (.str "x0") (.offset "nowhere")) :: exAfter) [] [] =
      .error (.asm (exLine 6 "beq x8, x0, nowhere")) :=
  immediate_fault_reported _ _ _ _ _ "nowhere" (exBefore_good c) (exAfter_good c) (by decide) (by decide) rfl rfl
    (fun p l h => (undefined_ref_fails _ _ "nowhere" "" p l h).1)
    (fun _ => Or.inl ⟨rfl, by decide⟩)

/-- (3) `beq x5, x6, nowhere`: no rule looks at it, resolve_immediates refuses it in both modes -/
example (c : Bool) :
    assembleItems exHooks c (exBefore ++ .instr (exLine 6 "beq x5, x6, nowhere") (.b "beq" (.str "x5") (.str "x6") (.offset "nowhere")) :: exAfter) [] [] =
      .error (.asm (exLine 6 "beq x5, x6, nowhere")) :=
  immediate_fault_reported _ _ _ _ _ "nowhere" (exBefore_good c) (exAfter_good c) (by decide) (by decide) rfl rfl
    (fun p l h => (undefined_ref_fails _ _ "nowhere" "" p l h).1)
    (fun _ => Or.inr (Or.inl (by decide)))

/-- (4) `addi x1, x1, F + 1` with `F` defined nowhere -/
example (c : Bool) :
    assembleItems exHooks c (exBefore ++ .instr (exLine 6 "addi x1, x1, F + 1") (.i "addi" (.str "x1") (.str "x1") (.arith "F + 1") false) :: exAfter) [] [] =
      .error (.asm (exLine 6 "addi x1, x1, F + 1")) :=
  immediate_fault_reported _ _ _ _ _ "F" (exBefore_good c) (exAfter_good c) (by decide) (by decide) rfl rfl
    (fun p l h => failing_arith_fails _ _ "F + 1" "F" p l (by
      intro env he
      have e1 : exHooks.arith "F + 1" env = evalAst env (Ast.binary BinOp.add (Ast.name "F") (Ast.lit 1)) := rfl
      rw [e1]; simp [evalAst, he]) h)
    (fun _ => Or.inl ⟨rfl, by decide⟩)

/-- (5) `andi x8, x8, 1 // 0`: division by zero fails in every environment -/
example (c : Bool) :
    assembleItems exHooks c (exBefore ++ .instr (exLine 6 "andi x8, x8, 1 // 0") (.i "andi" (.str "x8") (.str "x8") (.arith "1 // 0") false) :: exAfter) [] [] =
      .error (.asm (exLine 6 "andi x8, x8, 1 // 0")) :=
  immediate_fault_reported _ _ _ _ _ "no_such_label" (exBefore_good c) (exAfter_good c) (by decide) (by decide) rfl rfl
    (fun p l h => failing_arith_fails _ _ "1 // 0" "no_such_label" p l (fun _ _ => rfl) h)
    (fun _ => Or.inl ⟨rfl, by decide⟩)

/-- (5) `lui x5, 1 +`: malformed -/
example (c : Bool) :
    assembleItems exHooks c (exBefore ++ .instr (exLine 6 "lui x5, 1 +") (.u "lui" (.str "x5") (.arith "1 +")) :: exAfter) [] [] =
      .error (.asm (exLine 6 "lui x5, 1 +")) :=
  immediate_fault_reported _ _ _ _ _ "no_such_label" (exBefore_good c) (exAfter_good c) (by decide) (by decide) rfl rfl
    (fun p l h => failing_arith_fails _ _ "1 +" "no_such_label" p l (fun _ _ => rfl) h)
    (fun _ => Or.inl ⟨rfl, by decide⟩)

/-- (1) data: `db 256`, `pack <B 256`, `bytes 256 0` -/
example (c : Bool) :
    assembleItems exHooks c (exBefore ++ .shorthandPack (exLine 6 "db 256") "db" (.arith "256") :: exAfter) [] [] = .error (.asm (exLine 6 "db 256")) :=
  shorthand_misfit_reported _ _ _ "db" "<B" _ 1 256 (exBefore_good c) (exAfter_good c) (by decide) (by decide)
    (litImm_dec _ "256" 256 (by decide) (by decide)) (by decide) (by decide)

example (c : Bool) :
    assembleItems exHooks c (exBefore ++ .pack (exLine 6 "pack <B 256") "<B" (.arith "256") :: exAfter) [] [] = .error (.asm (exLine 6 "pack <B 256")) :=
  pack_misfit_reported _ _ _ "<B" _ 1 256 (exBefore_good c) (exAfter_good c) (by decide) (by decide)
    (litImm_dec _ "256" 256 (by decide) (by decide)) (by decide)

example (c : Bool) :
    assembleItems exHooks c (exBefore ++ .sequence (exLine 6 "bytes 256 0") "bytes" ["256", "0"] :: exAfter) [] [] = .error (.asm (exLine 6 "bytes 256 0")) :=
  sequence_fault_reported _ _ _ "bytes" _ 1 (exBefore_good c) (exAfter_good c) (by decide) (by decide) (by decide)

/-- (3) data: `dw nowhere` -/
example (c : Bool) :
    assembleItems exHooks c (exBefore ++ .shorthandPack (exLine 6 "dw %offset(nowhere)") "dw" (.offset "nowhere") :: exAfter) [] [] =
      .error (.asm (exLine 6 "dw %offset(nowhere)")) :=
  shorthand_value_fault_reported _ _ _ "dw" _ 4 "nowhere" (exBefore_good c) (exAfter_good c) (by decide) (by decide) (by decide)
    (fun p l h => (undefined_ref_fails _ _ "nowhere" "" p l h).1)

/-- (6) `start:` defined again on line 6: reported there, not on line 1 -/
example (c : Bool) :
    assembleItems exHooks c (.label (exLine 1 "start:") "start" :: (exBefore.tail ++ .label (exLine 6 "start:") "start" :: exAfter)) [] [] =
      .error (.asm (exLine 6 "start:")) :=
  duplicate_label_reported_program exHooks c [] exBefore.tail exAfter _ _ "start" (noconst_of_all (by decide)) (sized_of_all (by decide)) (by decide) (by decide)

/-- (4) `K = U * 2` on line 6 -/
example (c : Bool) :
    assembleItems exHooks c (exBefore ++ .constant (exLine 6 "K = U * 2") "K" (.arith "U * 2") :: exAfter) [] [] = .error (.asm (exLine 6 "K = U * 2")) :=
  constant_fault_reported exHooks c _ _ _ "K" "U * 2" (noconst_of_all (by decide)) (by decide) (by decide) (by decide)

theorem litImm_lo {H : Hooks} {imm : Imm} {v : Int} (h : LitImm H imm v) : LitImm H (.lo imm) (relocateLo v) := by
  intro env line p
  simp [Imm.eval, h env line p, bind, Except.bind, pure, Except.pure]

/-- pseudo-instruction, fault found while expanding: `call nowhere` -/
example (c : Bool) :
    assembleItems exHooks c (exBefore ++ .pseudo (exLine 6 "call nowhere") "call" ["nowhere"] :: exAfter) [] [] =
      .error (.asm (exLine 6 "call nowhere")) :=
  pseudo_fault_reported _ _ _ "call" ["nowhere"] "nowhere" (exBefore_good c) (exAfter_good c) (by decide) (by decide)
    (fun p l h => Or.inl (by
      have hu : chainGet [] l "nowhere" = none := by unfold Undefined at h; simp only [chainGet, h]; rfl
      have hk : pseudoKind "call" = some .call := by decide
      have hp : exHooks.parseImm ["%offset", "nowhere"] (exLine 6 "call nowhere") = .ok (.offset "nowhere") := by decide
      simp [expandPseudo, hk, expandKind, hp, Imm.eval, hu, bind, Except.bind]))

/-- pseudo-instruction, fault in the expanded instruction: `li x99, 5` becomes `addi x99, x0, %lo(5)`,
    refused by the encoder (without -c) or by transform_compressible (with -c) - with the line of the `li` -/
example (c : Bool) :
    assembleItems exHooks c (exBefore ++ .pseudo (exLine 6 "li x99, 5") "li" ["x99", "5"] :: exAfter) [] [] =
      .error (.asm (exLine 6 "li x99, 5")) :=
  pseudo_fault_reported _ _ _ "li" ["x99", "5"] "no_such_label" (exBefore_good c) (exAfter_good c) (by decide) (by decide)
    (fun p l _ => Or.inr ⟨[.i "addi" (.str "x99") (.str "x0") (.lo (.arith "5")) false], true, by
      have hk : pseudoKind "li" = some .li := by decide
      have hp : exHooks.parseImm ["5"] (exLine 6 "li x99, 5") = .ok (.arith "5") := by decide
      have hv := litImm_dec ⟨[], []⟩ "5" 5 (by decide) (by decide) (chainGet [] l) (exLine 6 "li x99, 5") p
      have h32 : cI32 5 = 5 := by decide
      simp only [expandPseudo, hk, expandKind, hp, hv, bind, Except.bind, pure, Except.pure, Nat.cast_ofNat, h32]
      decide, by
      have hlit : LitImm exHooks (.lo (.arith "5")) (relocateLo 5) := litImm_lo (litImm_dec _ "5" 5 (by decide) (by decide))
      have hb : BadInstr exHooks c (Undefined "no_such_label") (exLine 6 "li x99, 5")
          (.i "addi" (.str "x99") (.str "x0") (.lo (.arith "5")) false) :=
        ⟨rfl, refused_lit rfl rfl hlit (by decide), fun _ p l _ => by
          rw [firstMatch_lit (Or.inr ⟨_, _, rfl, hlit⟩)]
          exact Or.inl ⟨rfl, by decide⟩⟩
      exact ⟨fun i hi => by simp only [List.mem_singleton] at hi; subst hi; exact Or.inl hb,
        ⟨_, List.mem_singleton.mpr rfl, hb⟩⟩⟩)

/-- (8) `nop / include missing_file.asm / nop` given as source text: reported at `<string>`, line 2.
    (`normAbs` goes through `String.splitOn`, which the kernel cannot evaluate: the form of the working
    directory is a hypothesis here, checked by evaluation in the `#guard` below.) -/
example (c : Bool) (hcwd : normAbs "/w" = true) :
    assembleText ⟨[], ["/", "/w"]⟩ "/w" [] c (.source "nop\ninclude missing_file.asm\nnop\n") =
      .error (.asm ⟨"<string>", 2, "include missing_file.asm"⟩) :=
  missing_include_reported_text _ "/w" [] c _ ["nop".toList] "include missing_file.asm".toList ["nop".toList]
    hcwd (by decide) (by decide) (by decide)
    (by intro r hr; simp only [List.mem_singleton] at hr; subst hr; right; decide)
    ⟨by decide, by decide, "include".toList, "missing_file.asm".toList, by decide, by decide, by decide⟩

#guard normAbs "/w"

/-- (7) `nop / error stop here / addi q1, q2, q3` once read: reported at line 2 although line 3 is faulty too -/
example (fs : FS) (cwd : String) (c : Bool) (input : Input)
    (hread : readInput fs cwd [] input =
      .ok [⟨"m.asm", 1, "nop"⟩, ⟨"m.asm", 2, "error stop here"⟩, ⟨"m.asm", 3, "addi q1, q2, q3"⟩]) :
    assembleText fs cwd [] c input = .error (.asm ⟨"m.asm", 2, "error stop here"⟩) :=
  error_directive_reported_text fs cwd [] c input _ [(⟨"m.asm", 1, "nop"⟩, ["nop"])]
    [(⟨"m.asm", 3, "addi q1, q2, q3"⟩, ["addi", "q1", "q2", "q3"])] _ "stop here" hread (by decide)
    (by intro t ht; simp only [List.mem_singleton] at ht; subst ht; exact ⟨.pseudo ⟨"m.asm", 1, "nop"⟩ "nop" [], by decide⟩)


end BB.Props.C15
