/-
  BB.Props.C13Program — C13 for whole source texts.

  `BB.Props.C13` proves, line by line, that the documented spelling freedoms do not change the
  token list (separators, indentation, trailing blanks, trailing comment: `sep_irrelevant`), that
  blank and comment-only lines have no tokens, that the two base+offset forms parse to the same
  item, and that x8 / s0 / fp / 8 / 0x8 name one register.  Here these facts are lifted through
  `read_lines`, lexer, parser and every pass:

  * `spelling_same_result`     two source texts whose line lists are related by `SpellRel` — a line
                               kept (include / include_bytes lines too, to any nesting), a line
                               re-spelled (`SepEq`), a line rewritten between the two base+offset
                               forms, a line whose registers are spelled differently, a line whose
                               INTEGERS are spelled differently (16 / 0x10 / 0b10000: `ints`), a
                               blank or comment-only line inserted or deleted — assemble to the
                               same bytes, labels and constants, or both fail
                               (`spelling_same_result_errors`: and then in the same way).
                               Line numbers shift and line contents differ: that is what
                               `assemble_ignores_line_metadata` (C14) absorbs; register spellings
                               differ in the items themselves: `assembleItems_regSame` (every pass
                               and every encoder consults a register operand only through
                               `lookup_register`); integer spellings differ in the immediates:
                               C11's `imm_congruence_all` (the passes use an immediate text only
                               through its value).  `assembleItems_spellItem` composes the two.
  * `base_offset_same_result`, `regspell_same_result`, `intspell_same_result`   one rewritten line,
                               everything else kept.
  * `regRespelled_of_tokens`, `regRespelled_flat3`, `intRespelled_flat3`   `RegRespelled` /
                               `IntRespelled` are stated through the model's lexer and parser; these
                               give sufficient conditions on the TOKENS (`RegTokens`: R, I, B, U, J
                               formats, loads and stores in the `off(base)` layout) and on the TEXT
                               of the two lines (layout `m a, b, c`).
  * `spelling_same_result_rounds`   several rounds of rewriting.

  SCOPE, stated once:
  * the two programs are given as source TEXT (`Input.source`), read from the same working
    directory; for a file given by its path use C14 `path_same_as_source` first;
  * both texts are ASCII (`hA`, `hB`): a non-ASCII comment or string is inside the model
    (`BB.Props.C10Text`) but outside these theorems;
  * re-spelled lines must not be include / include_bytes / string / error lines, whose text is not
    token-separated (an indented `include` is no include line at all);
  * base+offset: `BaseOffsetPair` covers exactly the layouts `m r, off(base)` ↔ `m r, base, off`
    (stores: `m rs2, off(rs1)` ↔ `m rs1, rs2, off`) with single spaces, `off` ONE word without
    parentheses — `lw t0, %lo(sym)(t1)` is not covered (its offset contains parentheses); other
    spacing is reached by composing with `respell` (`spelling_same_result_rounds`);
  * mnemonics in `RegTokens` / `intRespelled_flat3` are lower case.
-/
import BB.Lemmas.SpellProgram
import BB.Lemmas.RegSpell
import BB.Props.C13
import BB.Props.C11Program
import BB.Props.C14
namespace BB.Props.C13
open BB BB.Lemmas

/-! ## a line's items from its tokens -/

/-- the erased items of a lexed line -/
def tokItems : Except Err (List String) → Option (List Item)
  | .ok [] => some []
  | .ok (t :: ts) =>
    match parseItem default (t :: ts) with
    | .ok it => some [eraseLine it]
    | .error _ => none
  | .error _ => none

theorem dropWhile_all_nil {α : Type} (p : α → Bool) :
    ∀ (l : List α), (∀ x ∈ l.dropWhile p, p x = true) → l.dropWhile p = []
  | [], _ => rfl
  | a :: l, h => by
    cases hp : p a with
    | true =>
      simp only [List.dropWhile, hp] at h ⊢
      exact dropWhile_all_nil p l h
    | false =>
      simp only [List.dropWhile, hp] at h
      have := h a (by simp)
      rw [hp] at this
      cases this

/-- a line `read_lines` skips consists of white space -/
theorem allWs_of_stripWs_empty (l : List Char) (h : (stripWs l).isEmpty = true) :
    ∀ c ∈ l, isPyWs c = true := by
  rw [List.isEmpty_iff] at h
  unfold stripWs at h
  rw [List.reverse_eq_nil_iff] at h
  have h1 := dropWhile_nil_all isPyWs _ h
  have h2 : dropWsLeft l = [] := by
    apply dropWhile_all_nil
    intro x hx
    exact h1 x (by rw [List.mem_reverse]; exact hx)
  exact dropWhile_nil_all isPyWs l h2

theorem stripWs_nonempty_ne_nil (l : List Char) (h : (stripWs l).isEmpty = false) : l ≠ [] := by
  intro e; subst e; simp [stripWs, dropWsLeft] at h

/-- what `read_lines` + lexer + parser make of a line (without a line break inside) is what the
    lexer and the parser make of it: a line of blanks lexes to no token -/
theorem lineItems_eq_tokItems (l : List Char) (hnl : l.contains '\n' = false) :
    lineItems l = tokItems (lexTokens l) := by
  unfold lineItems
  by_cases hb : (stripWs l).isEmpty = true
  · rw [if_pos hb]
    have hws := allWs_of_stripWs_empty l hb
    have hbl : Blank l := fun c hc => ⟨hws c hc, fun e => by
      subst e
      have : l.contains '\n' = true := by simpa using hc
      rw [hnl] at this; cases this⟩
    rw [blank_line l hbl]; rfl
  · rw [if_neg hb]
    have hne : l ≠ [] := stripWs_nonempty_ne_nil l (by simpa using hb)
    have hlen : decide ((String.ofList l).length > 0) = true := by
      rw [String.length_ofList]
      cases l with
      | nil => exact absurd rfl hne
      | cons a t => simp
    unfold itemsOfContents
    simp only [List.filter, hlen, lexAllO, String.toList_ofList]
    cases lexTokens l with
    | error e => rfl
    | ok toks =>
      cases toks with
      | nil => rfl
      | cons t ts =>
        simp only [List.isEmpty_cons, Bool.false_eq_true, if_false, Option.bind, parseAllO, tokItems]
        cases parseItem default (t :: ts) <;> rfl

theorem plain_no_nl {l : List Char} (h : Plain l) : l.contains '\n' = false := h.1.2.1

/-- **separators, indentation, trailing comment**: same items -/
theorem lineItems_sepEq {a b : List Char} (ha : Plain a) (hb : Plain b) (h : SepEq a b) :
    lineItems a = lineItems b := by
  rw [lineItems_eq_tokItems a (plain_no_nl ha), lineItems_eq_tokItems b (plain_no_nl hb), sep_irrelevant h]

/-! ## lines that contribute nothing -/

/-- a blank line or a (possibly indented) comment-only line -/
def SilentLine (l : List Char) : Prop :=
  ∃ ws tail, l = ws ++ tail ∧ Blank ws ∧
    (tail = [] ∨ ∃ r, tail = '#' :: r ∧ r.all isAsciiC = true ∧ r.contains '\n' = false)

theorem isPlainLine_of_head (c : Char) (rest : List Char) (h : c.toLower ≠ 'i') : IsPlainLine (c :: rest) := by
  have h' : ('i' == c.toLower) = false := by
    simp only [beq_eq_false_iff_ne, ne_eq]; exact fun e => h e.symm
  constructor
  · rw [includeKw_eq]
    simp only [lowerL, List.map_cons, List.isPrefixOf_cons_cons, h', Bool.false_and]
  · rw [show "include_bytes ".toList = ['i', 'n', 'c', 'l', 'u', 'd', 'e', '_', 'b', 'y', 't', 'e', 's', ' '] by decide]
    simp only [lowerL, List.map_cons, List.isPrefixOf_cons_cons, h', Bool.false_and]

theorem isPlainLine_nil : IsPlainLine [] := by constructor <;> decide

theorem silent_isPlainLine {l : List Char} (h : SilentLine l) : IsPlainLine l := by
  obtain ⟨ws, tail, rfl, hws, ht⟩ := h
  cases ws with
  | nil =>
    rcases ht with rfl | ⟨r, rfl, _, _⟩
    · exact isPlainLine_nil
    · exact isPlainLine_of_head '#' r (by decide)
  | cons c ws =>
    apply isPlainLine_of_head
    intro hc
    have := not_ws_of_lower_i hc
    rw [(hws c (by simp)).1] at this
    cases this

theorem silent_lineItems {l : List Char} (h : SilentLine l) : lineItems l = some [] := by
  obtain ⟨ws, tail, rfl, hws, ht⟩ := h
  have hp : Plain (ws ++ tail) := plain_blank_hash ws tail hws ht
  rw [lineItems_eq_tokItems _ (plain_no_nl hp)]
  rcases ht with rfl | ⟨r, rfl, hr, hn⟩
  · rw [List.append_nil, blank_line ws hws]; rfl
  · rw [comment_only_line ws r hws hr hn]; rfl

/-! ## the two base + offset forms -/

/-- `a` is `m r, off(base)` and `b` the flat form of the same load or store -/
inductive BaseOffsetPair : List Char → List Char → Prop
  | load (m : String) (rd off base : List Char) : m ∈ loadMnemonics → Operand rd → Operand off →
      Operand base → rd ≠ ['='] →
      BaseOffsetPair (m.toList ++ ([' '] ++ (rd ++ ([',', ' '] ++ (off ++ (['('] ++ (base ++ [')'])))))))
                     (m.toList ++ ([' '] ++ (rd ++ ([',', ' '] ++ (base ++ ([',', ' '] ++ off))))))
  | store (m : String) (rs1 rs2 off : List Char) : m ∈ storeMnemonics → Operand rs1 → Operand rs2 →
      Operand off → rs1 ≠ ['='] → rs2 ≠ ['='] →
      BaseOffsetPair (m.toList ++ ([' '] ++ (rs2 ++ ([',', ' '] ++ (off ++ (['('] ++ (rs1 ++ [')'])))))))
                     (m.toList ++ ([' '] ++ (rs1 ++ ([',', ' '] ++ (rs2 ++ ([',', ' '] ++ off))))))

theorem mnemonic_head {m : String} (hm : m ∈ loadMnemonics ∨ m ∈ storeMnemonics) (rest : List Char) :
    IsPlainLine (m.toList ++ rest) := by
  simp only [loadMnemonics, storeMnemonics, List.mem_cons, List.not_mem_nil, or_false] at hm
  rcases hm with (rfl | rfl | rfl | rfl | rfl | rfl | rfl) | (rfl | rfl | rfl | rfl) <;>
    exact isPlainLine_of_head _ _ (by decide)

theorem operand_word_no_nl {m : String} (hm : m ∈ loadMnemonics ∨ m ∈ storeMnemonics) : '\n' ∉ m.toList := by
  simp only [loadMnemonics, storeMnemonics, List.mem_cons, List.not_mem_nil, or_false] at hm
  rcases hm with (rfl | rfl | rfl | rfl | rfl | rfl | rfl) | (rfl | rfl | rfl | rfl) <;> decide

theorem baseOffsetPair_spec {a b : List Char} (h : BaseOffsetPair a b) :
    IsPlainLine a ∧ IsPlainLine b ∧ lineItems a = lineItems b := by
  cases h with
  | load m rd off base hm hrd hoff hbase hne =>
    have hmw : Operand m.toList ∧ m.toList ≠ "error".toList ∧ m.toList ≠ "string".toList := by
      simp only [loadMnemonics, List.mem_cons, List.not_mem_nil, or_false] at hm
      rcases hm with rfl | rfl | rfl | rfl | rfl | rfl | rfl <;> decide
    have l1 := lex_paren_form _ rd off base hmw.1 hrd hoff hbase hmw.2.1 hmw.2.2
    have l2 := lex_flat_form _ rd base off hmw.1 hrd hbase hoff hmw.2.1 hmw.2.2
    have hp := base_offset_forms_load default m (String.ofList rd) (String.ofList off) (String.ofList base) hm
      (ofList_ne_of_ne hne) (operand_ne_paren hoff)
    refine ⟨mnemonic_head (.inl hm) _, mnemonic_head (.inl hm) _, ?_⟩
    rw [lineItems_eq_tokItems, lineItems_eq_tokItems, l1, l2]
    · rw [String.ofList_toList]; simp only [tokItems, hp]
    · simp [operand_word_no_nl (.inl hm), operand_no_nl hrd, operand_no_nl hoff, operand_no_nl hbase]
    · simp [operand_word_no_nl (.inl hm), operand_no_nl hrd, operand_no_nl hoff, operand_no_nl hbase]
  | store m rs1 rs2 off hm h1 h2 hoff hne1 hne2 =>
    have hmw : Operand m.toList ∧ m.toList ≠ "error".toList ∧ m.toList ≠ "string".toList := by
      simp only [storeMnemonics, List.mem_cons, List.not_mem_nil, or_false] at hm
      rcases hm with rfl | rfl | rfl | rfl <;> decide
    have l1 := lex_paren_form _ rs2 off rs1 hmw.1 h2 hoff h1 hmw.2.1 hmw.2.2
    have l2 := lex_flat_form _ rs1 rs2 off hmw.1 h1 h2 hoff hmw.2.1 hmw.2.2
    have hp := base_offset_forms_store default m (String.ofList rs1) (String.ofList rs2) (String.ofList off) hm
      (ofList_ne_of_ne hne1) (ofList_ne_of_ne hne2) (operand_ne_paren hoff)
    refine ⟨mnemonic_head (.inr hm) _, mnemonic_head (.inr hm) _, ?_⟩
    rw [lineItems_eq_tokItems, lineItems_eq_tokItems, l1, l2]
    · rw [String.ofList_toList]; simp only [tokItems, hp]
    · simp [operand_word_no_nl (.inr hm), operand_no_nl h1, operand_no_nl h2, operand_no_nl hoff]
    · simp [operand_word_no_nl (.inr hm), operand_no_nl h1, operand_no_nl h2, operand_no_nl hoff]

/-! ## registers spelled differently -/

/-- both lines lex and parse, to items that differ at most in how register operands are spelled
    (`Item.Same`: x8 / s0 / fp / 8 / 0x8 …; operands read as integers — fence sets, aq / rl — and
    everything else are equal) -/
def RegRespelled (a b : List Char) : Prop :=
  IsPlainLine a ∧ IsPlainLine b ∧ a.contains '\n' = false ∧ b.contains '\n' = false ∧
  ∃ ta tb ia ib, lexTokens a = .ok ta ∧ lexTokens b = .ok tb ∧ ta ≠ [] ∧ tb ≠ [] ∧
    parseItem default ta = .ok ia ∧ parseItem default tb = .ok ib ∧ Item.Same ia ib

theorem itemSame_eraseLine {a b : Item} (h : Item.Same a b) : Item.Same (eraseLine a) (eraseLine b) := by
  cases h with
  | refl it => exact .refl _
  | instr line hi => exact .instr default hi
  | pseudo line name k hk ha => exact .pseudo default name k hk ha

theorem regRespelled_orel {a b : List Char} (h : RegRespelled a b) :
    ORel Item.Same (lineItems a) (lineItems b) := by
  obtain ⟨_, _, hna, hnb, ta, tb, ia, ib, hla, hlb, hta, htb, hpa, hpb, hs⟩ := h
  rw [lineItems_eq_tokItems a hna, lineItems_eq_tokItems b hnb, hla, hlb]
  cases ta with
  | nil => exact absurd rfl hta
  | cons t ts =>
    cases tb with
    | nil => exact absurd rfl htb
    | cons u us =>
      simp only [tokItems, hpa, hpb]
      exact .cons (itemSame_eraseLine hs) .nil

/-! ## registers spelled differently: a condition on the TOKENS (and on the text) -/

def rNames : List String := ["slli", "srli", "srai", "add", "sub", "sll", "slt", "sltu", "xor", "srl",
  "sra", "or", "and", "mul", "mulh", "mulhsu", "mulhu", "div", "divu", "rem", "remu"]
def iFlatNames : List String := ["addi", "slti", "sltiu", "xori", "ori", "andi", "csrrw", "csrrs", "csrrc",
  "csrrwi", "csrrsi", "csrrci"]
def bNames : List String := ["beq", "bne", "blt", "bge", "bltu", "bgeu"]
def uNames : List String := ["lui", "auipc"]
def loadNames : List String := ["lb", "lh", "lw", "lbu", "lhu"]
def storeNames : List String := ["sb", "sh", "sw"]

/-- the names above are the format dictionaries of the parser (minus `jalr`, whose one-operand form
    is a pseudo-instruction, and the compressed forms) -/
example : (∀ m ∈ rNames, inDict "R_TYPE_INSTRUCTIONS" m = true) ∧ (∀ m ∈ iFlatNames ++ loadNames, inDict "I_TYPE_INSTRUCTIONS" m = true) ∧
    (∀ m ∈ bNames, inDict "B_TYPE_INSTRUCTIONS" m = true) ∧ (∀ m ∈ uNames, inDict "U_TYPE_INSTRUCTIONS" m = true) ∧
    (∀ m ∈ storeNames, inDict "S_TYPE_INSTRUCTIONS" m = true) := by decide

/-- a register token and another spelling of the same register (x8 / s0 / fp / 8 / 0x8 …) -/
abbrev SameReg (t t' : String) : Prop := RegOp.Same (.str t) (.str t')

/-- **token lists that differ only in how register operands are spelled**, format by format: the
    mnemonic (lower case), the immediate / reference tokens and the parentheses are the same, a
    token in a register position is replaced by a spelling of the same register -/
inductive RegTokens : List String → List String → Prop
  | r (m : String) {rd rd' rs1 rs1' rs2 rs2' : String} : m ∈ rNames → rd ≠ "=" → rd' ≠ "=" →
      SameReg rd rd' → SameReg rs1 rs1' → SameReg rs2 rs2' → RegTokens [m, rd, rs1, rs2] [m, rd', rs1', rs2']
  | i (m : String) {rd rd' rs1 rs1' : String} (imm : List String) : m ∈ iFlatNames → rd ≠ "=" → rd' ≠ "=" →
      SameReg rd rd' → SameReg rs1 rs1' → RegTokens (m :: rd :: rs1 :: imm) (m :: rd' :: rs1' :: imm)
  | b (m : String) {rs1 rs1' rs2 rs2' : String} (ref : String) : m ∈ bNames → rs1 ≠ "=" → rs1' ≠ "=" →
      SameReg rs1 rs1' → SameReg rs2 rs2' → RegTokens [m, rs1, rs2, ref] [m, rs1', rs2', ref]
  | u (m : String) {rd rd' : String} (imm : List String) : m ∈ uNames → rd ≠ "=" → rd' ≠ "=" →
      SameReg rd rd' → RegTokens (m :: rd :: imm) (m :: rd' :: imm)
  | j {rd rd' : String} (ref : String) : rd ≠ "=" → rd' ≠ "=" → SameReg rd rd' →
      RegTokens ["jal", rd, ref] ["jal", rd', ref]
  | load (m : String) {rd rd' base base' : String} (off : String) : m ∈ loadNames → rd ≠ "=" → rd' ≠ "=" →
      SameReg rd rd' → SameReg base base' →
      RegTokens [m, rd, off, "(", base, ")"] [m, rd', off, "(", base', ")"]
  | store (m : String) {rs1 rs1' rs2 rs2' : String} (off : String) : m ∈ storeNames → rs2 ≠ "=" → rs2' ≠ "=" →
      SameReg rs1 rs1' → SameReg rs2 rs2' →
      RegTokens [m, rs2, off, "(", rs1, ")"] [m, rs2', off, "(", rs1', ")"]

theorem parse_rtype (l : Line) (m rd rs1 rs2 : String) (hm : m ∈ rNames) (hne : rd ≠ "=") :
    parseItem l [m, rd, rs1, rs2] = .ok (.instr l (.r m (.str rd) (.str rs1) (.str rs2))) := by
  simp only [rNames, List.mem_cons, List.not_mem_nil, or_false] at hm
  rcases hm with rfl | rfl | rfl | rfl | rfl | rfl | rfl | rfl | rfl | rfl | rfl | rfl | rfl | rfl | rfl | rfl | rfl | rfl | rfl | rfl | rfl <;>
  · unfold parseItem
    simp only [if_neg hne]
    rfl

theorem parse_iflat (l : Line) (m rd rs1 : String) (imm : List String) (hm : m ∈ iFlatNames) (hne : rd ≠ "=") :
    parseItem l (m :: rd :: rs1 :: imm) = withImm l imm (fun i => .i m (.str rd) (.str rs1) i false) := by
  simp only [iFlatNames, List.mem_cons, List.not_mem_nil, or_false] at hm
  rcases hm with rfl | rfl | rfl | rfl | rfl | rfl | rfl | rfl | rfl | rfl | rfl | rfl <;>
  · unfold parseItem
    simp only [if_neg hne]
    rfl

theorem parse_btype (l : Line) (m rs1 rs2 ref : String) (hm : m ∈ bNames) (hne : rs1 ≠ "=") :
    parseItem l [m, rs1, rs2, ref] = withImm l (refImm ref) (fun i => .b m (.str rs1) (.str rs2) i) := by
  simp only [bNames, List.mem_cons, List.not_mem_nil, or_false] at hm
  rcases hm with rfl | rfl | rfl | rfl | rfl | rfl <;>
  · unfold parseItem
    simp only [if_neg hne]
    rfl

theorem parse_utype (l : Line) (m rd : String) (imm : List String) (hm : m ∈ uNames) (hne : rd ≠ "=") :
    parseItem l (m :: rd :: imm) = withImm l imm (fun i => .u m (.str rd) i) := by
  simp only [uNames, List.mem_cons, List.not_mem_nil, or_false] at hm
  rcases hm with rfl | rfl <;> cases imm <;>
  · unfold parseItem
    simp only [if_neg hne]
    rfl

theorem parse_jal (l : Line) (rd ref : String) (hne : rd ≠ "=") :
    parseItem l ["jal", rd, ref] = withImm l (refImm ref) (fun i => .j "jal" (.str rd) i) := by
  unfold parseItem
  simp only [if_neg hne]
  rfl

theorem parse_load (l : Line) (m rd off base : String) (hm : m ∈ loadNames) (hne : rd ≠ "=") :
    parseItem l [m, rd, off, "(", base, ")"] = withImm l [off] (fun i => .i m (.str rd) (.str base) i false) := by
  simp only [loadNames, List.mem_cons, List.not_mem_nil, or_false] at hm
  rcases hm with rfl | rfl | rfl | rfl | rfl <;>
  · unfold parseItem
    simp only [if_neg hne]
    rfl

theorem parse_store (l : Line) (m rs1 rs2 off : String) (hm : m ∈ storeNames) (hne : rs2 ≠ "=") :
    parseItem l [m, rs2, off, "(", rs1, ")"] = withImm l [off] (fun i => .s m (.str rs1) (.str rs2) i) := by
  simp only [storeNames, List.mem_cons, List.not_mem_nil, or_false] at hm
  rcases hm with rfl | rfl | rfl <;>
  · unfold parseItem
    simp only [if_neg hne]
    rfl

theorem withImm_same (l : Line) (imm : List String) {k k' : Imm → Instr} (h : ∀ i, Instr.Same (k i) (k' i)) :
    ExRel Item.Same (withImm l imm k) (withImm l imm k') := by
  unfold withImm
  cases parseImmediate imm l with
  | error e => rfl
  | ok i => exact .instr l (h i)

/-- **the parser maps such token lists to `Item.Same` items** (or fails on both with the same error:
    a malformed immediate) -/
theorem regTokens_parse (l : Line) {ta tb : List String} (h : RegTokens ta tb) :
    ExRel Item.Same (parseItem l ta) (parseItem l tb) := by
  cases h with
  | r m hm h1 h2 s1 s2 s3 =>
    rw [parse_rtype l m _ _ _ hm h1, parse_rtype l m _ _ _ hm h2]
    exact .instr l (.r m s1 s2 s3)
  | i m imm hm h1 h2 s1 s2 =>
    rw [parse_iflat l m _ _ imm hm h1, parse_iflat l m _ _ imm hm h2]
    exact withImm_same l imm (fun i => .i m i false s1 s2)
  | b m ref hm h1 h2 s1 s2 =>
    rw [parse_btype l m _ _ ref hm h1, parse_btype l m _ _ ref hm h2]
    exact withImm_same l _ (fun i => .b m i s1 s2)
  | u m imm hm h1 h2 s1 =>
    rw [parse_utype l m _ imm hm h1, parse_utype l m _ imm hm h2]
    exact withImm_same l imm (fun i => .u m i s1)
  | j ref h1 h2 s1 =>
    rw [parse_jal l _ ref h1, parse_jal l _ ref h2]
    exact withImm_same l _ (fun i => .j "jal" i s1)
  | load m off hm h1 h2 s1 s2 =>
    rw [parse_load l m _ off _ hm h1, parse_load l m _ off _ hm h2]
    exact withImm_same l _ (fun i => .i m i false s1 s2)
  | store m off hm h1 h2 s1 s2 =>
    rw [parse_store l m _ _ off hm h1, parse_store l m _ _ off hm h2]
    exact withImm_same l _ (fun i => .s m i s1 s2)

theorem RegTokens.ne_nil {ta tb : List String} (h : RegTokens ta tb) : ta ≠ [] ∧ tb ≠ [] := by
  cases h <;> exact ⟨by simp, by simp⟩

/-- **token-level sufficient condition for `RegRespelled`**: the two lines lex to token lists that
    differ only in register spellings (`RegTokens`) and the first parses (its immediate is
    well-formed) -/
theorem regRespelled_of_tokens {a b : List Char} {ta tb : List String} {ia : Item}
    (pa : IsPlainLine a) (pb : IsPlainLine b) (na : a.contains '\n' = false) (nb : b.contains '\n' = false)
    (la : lexTokens a = .ok ta) (lb : lexTokens b = .ok tb) (h : RegTokens ta tb)
    (hp : parseItem default ta = .ok ia) : RegRespelled a b := by
  have hr := regTokens_parse default h
  rw [hp] at hr
  cases hq : parseItem default tb with
  | error e => rw [hq] at hr; exact absurd hr (by simp [ExRel])
  | ok ib =>
    rw [hq] at hr
    exact ⟨pa, pb, na, nb, ta, tb, ia, ib, la, lb, h.ne_nil.1, h.ne_nil.2, hp, hq, hr⟩

theorem operand_head_plain {m : List Char} (hm : Operand m) (hi : m.head?.map Char.toLower ≠ some 'i')
    (rest : List Char) : IsPlainLine (m ++ rest) := by
  cases m with
  | nil => exact absurd rfl hm.1.1
  | cons c cs => exact isPlainLine_of_head c _ (fun h => hi (by simp [h]))

/-- **the same on the TEXT of the two lines**, for the three-operand layout `m a, b, c`: the words
    are `Operand`s (ASCII, no separator / parenthesis / `#` / quote inside), the mnemonic is not
    `error` / `string` and does not start with `i`, and the token lists are `RegTokens`-related —
    e.g. `add x8, x9, x10` and `add fp, s1, 0xa`, `addi t0, sp, 16` and `addi x5, x2, 16`,
    `beq a0, zero, done` and `beq x10, x0, done` -/
theorem regRespelled_flat3 (m a b c a' b' c' : List Char) {ia : Item}
    (hm : Operand m) (ha : Operand a) (hb : Operand b) (hc : Operand c)
    (ha' : Operand a') (hb' : Operand b') (hc' : Operand c')
    (he : m ≠ "error".toList) (hs : m ≠ "string".toList) (hi : m.head?.map Char.toLower ≠ some 'i')
    (h : RegTokens [String.ofList m, String.ofList a, String.ofList b, String.ofList c]
                   [String.ofList m, String.ofList a', String.ofList b', String.ofList c'])
    (hp : parseItem default [String.ofList m, String.ofList a, String.ofList b, String.ofList c] = .ok ia) :
    RegRespelled (m ++ ([' '] ++ (a ++ ([',', ' '] ++ (b ++ ([',', ' '] ++ c))))))
                 (m ++ ([' '] ++ (a' ++ ([',', ' '] ++ (b' ++ ([',', ' '] ++ c')))))) := by
  refine regRespelled_of_tokens (operand_head_plain hm hi _) (operand_head_plain hm hi _) ?_ ?_
    (lex_flat_form m a b c hm ha hb hc he hs) (lex_flat_form m a' b' c' hm ha' hb' hc' he hs) h hp
  · simp [operand_no_nl hm, operand_no_nl ha, operand_no_nl hb, operand_no_nl hc]
  · simp [operand_no_nl hm, operand_no_nl ha', operand_no_nl hb', operand_no_nl hc']

/-! ## integers spelled differently (16 / 0x10 / 0b10000) -/

/-- two immediates that differ only in how an arithmetic text is WRITTEN: the two texts have the
    same value (or fail alike) in every environment — in particular two numerals of one value
    (`numImm_spellings`), bare, under `%position`, under `%hi` / `%lo` -/
inductive NumImm : Imm → Imm → Prop
  | refl (a : Imm) : NumImm a a
  | arith (e e' : String) : (∀ env, evalArith e env = evalArith e' env) → NumImm (.arith e) (.arith e')
  | position (ref e e' : String) : (∀ env, evalArith e env = evalArith e' env) →
      NumImm (.position ref e) (.position ref e')
  | hi {a b : Imm} : NumImm a b → NumImm (.hi a) (.hi b)
  | lo {a b : Imm} : NumImm a b → NumImm (.lo a) (.lo b)

theorem NumImm.immRel (fs : FS) {a b : Imm} (h : NumImm a b) : ImmRel (textHooks fs) (fun _ => True) a b := by
  induction h with
  | refl a => exact .refl a
  | arith e e' he => exact .arith e e' (fun env _ => he env)
  | position ref e e' he => exact .position ref e e' (fun env _ => he env)
  | hi _ ih => exact .hi ih
  | lo _ ih => exact .lo ih

/-- **the three spellings of one natural number** are such a pair (C11 `lit_arith`: decimal, `0x…`,
    `0b…`; texts of at most `maxExprLen` = 400 characters) -/
theorem numImm_spellings (n : Nat) (l l' : List Char)
    (hl : l = C11.decStr n ∨ l = C11.hexStr n ∨ l = C11.binStr n)
    (hl' : l' = C11.decStr n ∨ l' = C11.hexStr n ∨ l' = C11.binStr n)
    (hlen : l.length ≤ maxExprLen) (hlen' : l'.length ≤ maxExprLen) :
    NumImm (.arith (String.ofList l)) (.arith (String.ofList l')) := by
  refine .arith _ _ (fun env => ?_)
  unfold evalArith
  rw [String.toList_ofList, String.toList_ofList, C11.lit_arith env l n hl hlen, C11.lit_arith env l' n hl' hlen']

/-- the same item up to the writing of an immediate (`NumImm`): instructions of every format,
    constant definitions, `pack`, `db` … `dd`, and the operand of `li` -/
inductive NumItem : Item → Item → Prop
  | refl (a : Item) : NumItem a a
  | instr (line : Line) {a : Instr} {imm imm' : Imm} : a.imm? = some imm → NumImm imm imm' →
      NumItem (.instr line a) (.instr line (a.setImm imm'))
  | constant (line : Line) (name : String) {e e' : Imm} : NumImm e e' →
      NumItem (.constant line name e) (.constant line name e')
  | pack (line : Line) (fmt : String) {e e' : Imm} : NumImm e e' → NumItem (.pack line fmt e) (.pack line fmt e')
  | shorthand (line : Line) (name : String) {e e' : Imm} : NumImm e e' →
      NumItem (.shorthandPack line name e) (.shorthandPack line name e')
  | li (line : Line) (rd : String) {toks toks' : List String} {imm imm' : Imm} :
      (∀ ln, parseImmediate toks ln = .ok imm) → (∀ ln, parseImmediate toks' ln = .ok imm') → NumImm imm imm' →
      NumItem (.pseudo line "li" (rd :: toks)) (.pseudo line "li" (rd :: toks'))

theorem NumItem.itemRel (fs : FS) {a b : Item} (h : NumItem a b) :
    ItemRel (textHooks fs) (fun _ => True) a b := by
  cases h with
  | refl a => exact .refl a
  | instr line himm hr => exact .instr line (Or.inr ⟨_, _, himm, hr.immRel fs, rfl⟩)
  | constant line name hr => exact .constant line name (hr.immRel fs)
  | pack line fmt hr => exact .pack line fmt (hr.immRel fs)
  | shorthand line name hr => exact .shorthand line name (hr.immRel fs)
  | li line rd h1 h2 hr => exact C11.li_rel line rd (h1 line) (h2 line) (hr.immRel fs)

theorem numItem_eraseLine {a b : Item} (h : NumItem a b) : NumItem (eraseLine a) (eraseLine b) := by
  cases h with
  | refl a => exact .refl _
  | instr line himm hr => exact .instr default himm hr
  | constant line name hr => exact .constant default name hr
  | pack line fmt hr => exact .pack default fmt hr
  | shorthand line name hr => exact .shorthand default name hr
  | li line rd h1 h2 hr => exact .li default rd h1 h2 hr

/-- both lines lex and parse, to items that differ at most in how an immediate is written
    (`NumItem`); see `intRespelled_flat` for a condition on the TEXT of the two lines -/
def IntRespelled (a b : List Char) : Prop :=
  IsPlainLine a ∧ IsPlainLine b ∧ a.contains '\n' = false ∧ b.contains '\n' = false ∧
  ∃ ta tb ia ib, lexTokens a = .ok ta ∧ lexTokens b = .ok tb ∧ ta ≠ [] ∧ tb ≠ [] ∧
    parseItem default ta = .ok ia ∧ parseItem default tb = .ok ib ∧ NumItem ia ib

/-- what the two freedoms that change the ITEMS amount to: registers re-spelled, then immediates
    re-written -/
def SpellItem (a b : Item) : Prop := ∃ m, Item.Same a m ∧ NumItem m b

theorem SpellItem.refl (a : Item) : SpellItem a a := ⟨a, .refl a, .refl a⟩
theorem SpellItem.of_same {a b : Item} (h : Item.Same a b) : SpellItem a b := ⟨b, h, .refl b⟩
theorem SpellItem.of_num {a b : Item} (h : NumItem a b) : SpellItem a b := ⟨a, .refl a, h⟩

theorem ListRel.mono' {α : Type} {R S : α → α → Prop} (h : ∀ a b, R a b → S a b) {l l' : List α}
    (hl : ListRel R l l') : ListRel S l l' := by
  induction hl with
  | nil => exact .nil
  | cons hab _ ih => exact .cons (h _ _ hab) ih

theorem orel_mono {R S : Item → Item → Prop} (h : ∀ a b, R a b → S a b) {x y : Option (List Item)}
    (hxy : ORel R x y) : ORel S x y := by
  cases x <;> cases y <;> simp_all [ORel]
  exact ListRel.mono' h hxy

theorem listRel_spellItem_split {l l' : List Item} (h : ListRel SpellItem l l') :
    ∃ m, ListRel Item.Same l m ∧ Rel2 NumItem m l' := by
  induction h with
  | nil => exact ⟨[], .nil, .nil⟩
  | cons hab _ ih =>
    obtain ⟨m, h1, h2⟩ := ih
    obtain ⟨x, hx1, hx2⟩ := hab
    exact ⟨x :: m, .cons hx1 h1, .cons hx2 h2⟩

theorem rel2_mono {α : Type} {R S : α → α → Prop} (h : ∀ a b, R a b → S a b) {l l' : List α}
    (hl : Rel2 R l l') : Rel2 S l l' := by
  induction hl with
  | nil => exact .nil
  | cons hab _ ih => exact .cons (h _ _ hab) ih

/-- **`assembleItems` cannot tell `SpellItem`-related programs apart** (errors included): register
    spellings by `assembleItems_regSame`, immediates by C11's `imm_congruence_all` -/
theorem assembleItems_spellItem (fs : FS) (c : Bool) {its its' : List Item} (h : ListRel SpellItem its its') :
    assembleItems (textHooks fs) c its [] [] = assembleItems (textHooks fs) c its' [] [] := by
  obtain ⟨m, h1, h2⟩ := listRel_spellItem_split h
  rw [assembleItems_regSame (textHooks fs) c its m [] h1]
  exact C11.imm_congruence_all (textHooks fs) c [] [] (rel2_mono (fun _ _ hn => hn.itemRel fs) h2)

theorem intRespelled_orel {a b : List Char} (h : IntRespelled a b) :
    ORel SpellItem (lineItems a) (lineItems b) := by
  obtain ⟨_, _, hna, hnb, ta, tb, ia, ib, hla, hlb, hta, htb, hpa, hpb, hs⟩ := h
  rw [lineItems_eq_tokItems a hna, lineItems_eq_tokItems b hnb, hla, hlb]
  cases ta with
  | nil => exact absurd rfl hta
  | cons t ts =>
    cases tb with
    | nil => exact absurd rfl htb
    | cons u us =>
      simp only [tokItems, hpa, hpb]
      exact .cons (SpellItem.of_num (numItem_eraseLine hs)) .nil

/-- **a condition on the TEXT of the two lines** for the layout `m a, b, c` of an I-type instruction
    (`iFlatNames`: addi … andi, csrr*): the lines differ only in the last word, `c` / `c'`, two texts
    the parser takes as plain arithmetic (`hpc`, `hpc'`: e.g. any numeral) and that have the same
    value in every environment (`hnum`, e.g. `numImm_spellings`) — `addi x1, x1, 16`,
    `addi x1, x1, 0x10`, `addi x1, x1, 0b10000` -/
theorem intRespelled_flat3 (m a b c c' : List Char)
    (hm : Operand m) (ha : Operand a) (hb : Operand b) (hc : Operand c) (hc' : Operand c')
    (hmn : String.ofList m ∈ iFlatNames) (hne : String.ofList a ≠ "=")
    (hpc : parseImmediate [String.ofList c] default = .ok (.arith (String.ofList c)))
    (hpc' : parseImmediate [String.ofList c'] default = .ok (.arith (String.ofList c')))
    (hnum : NumImm (.arith (String.ofList c)) (.arith (String.ofList c'))) :
    IntRespelled (m ++ ([' '] ++ (a ++ ([',', ' '] ++ (b ++ ([',', ' '] ++ c))))))
                 (m ++ ([' '] ++ (a ++ ([',', ' '] ++ (b ++ ([',', ' '] ++ c')))))) := by
  have hes : m ≠ "error".toList ∧ m ≠ "string".toList ∧ m.head?.map Char.toLower ≠ some 'i' := by
    have e : m = (String.ofList m).toList := (String.toList_ofList).symm
    simp only [iFlatNames, List.mem_cons, List.not_mem_nil, or_false] at hmn
    rw [e]
    rcases hmn with h | h | h | h | h | h | h | h | h | h | h | h <;> rw [h] <;> decide
  refine ⟨operand_head_plain hm hes.2.2 _, operand_head_plain hm hes.2.2 _, ?_, ?_,
    [String.ofList m, String.ofList a, String.ofList b, String.ofList c],
    [String.ofList m, String.ofList a, String.ofList b, String.ofList c'],
    .instr default (.i (String.ofList m) (.str (String.ofList a)) (.str (String.ofList b)) (.arith (String.ofList c)) false),
    .instr default (.i (String.ofList m) (.str (String.ofList a)) (.str (String.ofList b)) (.arith (String.ofList c')) false),
    lex_flat_form m a b c hm ha hb hc hes.1 hes.2.1, lex_flat_form m a b c' hm ha hb hc' hes.1 hes.2.1,
    by simp, by simp, ?_, ?_, ?_⟩
  · simp [operand_no_nl hm, operand_no_nl ha, operand_no_nl hb, operand_no_nl hc]
  · simp [operand_no_nl hm, operand_no_nl ha, operand_no_nl hb, operand_no_nl hc']
  · rw [parse_iflat default _ _ _ _ hmn hne]; simp only [withImm, hpc]
  · rw [parse_iflat default _ _ _ _ hmn hne]; simp only [withImm, hpc']
  · exact NumItem.instr default (a := .i (String.ofList m) (.str (String.ofList a)) (.str (String.ofList b)) (.arith (String.ofList c)) false)
      rfl hnum

/-! ## whole source texts -/

/-- the documented spelling freedoms, on the line list of a source text -/
inductive SpellRel : List (List Char) → List (List Char) → Prop
  | nil : SpellRel [] []
  /-- a line kept as it is — any line, include and include_bytes lines too -/
  | keep (l : List Char) {as bs : List (List Char)} : SpellRel as bs → SpellRel (l :: as) (l :: bs)
  /-- separators, indentation, trailing blanks, a trailing comment (C13 `SepEq`), on a line that is
      not an include / include_bytes / string / error line -/
  | respell {a b : List Char} {as bs : List (List Char)} : Plain a → Plain b → SepEq a b →
      IsPlainLine a → IsPlainLine b → SpellRel as bs → SpellRel (a :: as) (b :: bs)
  /-- `op r, off(base)` ↔ `op r, base, off` -/
  | form {a b : List Char} {as bs : List (List Char)} : BaseOffsetPair a b ∨ BaseOffsetPair b a →
      SpellRel as bs → SpellRel (a :: as) (b :: bs)
  /-- registers spelled differently -/
  | regs {a b : List Char} {as bs : List (List Char)} : RegRespelled a b →
      SpellRel as bs → SpellRel (a :: as) (b :: bs)
  /-- an integer spelled differently (16 / 0x10 / 0b10000), or any immediate text replaced by one
      of the same value in every environment -/
  | ints {a b : List Char} {as bs : List (List Char)} : IntRespelled a b →
      SpellRel as bs → SpellRel (a :: as) (b :: bs)
  /-- a blank or comment-only line inserted -/
  | insert {l : List Char} {as bs : List (List Char)} : SilentLine l → SpellRel as bs → SpellRel as (l :: bs)
  /-- a blank or comment-only line deleted -/
  | delete {l : List Char} {as bs : List (List Char)} : SilentLine l → SpellRel as bs → SpellRel (l :: as) bs

theorem SpellRel.refl : ∀ ls, SpellRel ls ls
  | [] => .nil
  | l :: ls => .keep l (SpellRel.refl ls)

/-- a prefix and a suffix kept -/
theorem SpellRel.context (pre post : List (List Char)) {as bs : List (List Char)} (h : SpellRel as bs) :
    SpellRel (pre ++ (as ++ post)) (pre ++ (bs ++ post)) := by
  induction pre with
  | nil =>
    simp only [List.nil_append]
    induction h with
    | nil => exact SpellRel.refl post
    | keep l _ ih => exact .keep l ih
    | respell ha hb hab pa pb _ ih => exact .respell ha hb hab pa pb ih
    | form h _ ih => exact .form h ih
    | regs h _ ih => exact .regs h ih
    | ints h _ ih => exact .ints h ih
    | insert hl _ ih => exact .insert hl ih
    | delete hl _ ih => exact .delete hl ih
  | cons l pre ih => exact .keep l ih

theorem SpellRel.linesRel {as bs : List (List Char)} (h : SpellRel as bs) : LinesRel SpellItem as bs := by
  induction h with
  | nil => exact .nil
  | keep l _ ih => exact .same l ih
  | respell ha hb hab pa pb _ ih =>
    exact .change pa pb (ORel.of_eq SpellItem.refl (lineItems_sepEq ha hb hab)) ih
  | form h _ ih =>
    rcases h with h | h
    · obtain ⟨pa, pb, e⟩ := baseOffsetPair_spec h
      exact .change pa pb (ORel.of_eq SpellItem.refl e) ih
    · obtain ⟨pb, pa, e⟩ := baseOffsetPair_spec h
      exact .change pa pb (ORel.of_eq SpellItem.refl e.symm) ih
  | regs h _ ih => exact .change h.1 h.2.1 (orel_mono (fun _ _ => SpellItem.of_same) (regRespelled_orel h)) ih
  | ints h _ ih => exact .change h.1 h.2.1 (intRespelled_orel h) ih
  | insert hl _ ih => exact .insert (silent_isPlainLine hl) (silent_lineItems hl) ih
  | delete hl _ ih => exact .delete (silent_isPlainLine hl) (silent_lineItems hl) ih

/-- **C13 at program level.**  Two source texts (same filesystem, working directory, include
    directories, mode) whose lines are related by the documented spelling freedoms (`SpellRel`:
    separators / indentation / comments, blank and comment-only lines, the two base+offset
    layouts, register spellings, integer spellings) assemble to the same bytes, labels and
    constants — or both fail (in the same way: `spelling_same_result_errors`).
    Both programs are `.source` texts and ASCII (`hA`, `hB`); see the file header for the scope. -/
theorem spelling_same_result (fs : FS) (cwd : String) (dirs : List String) (c : Bool) (A B : String)
    (hcwd : normAbs cwd = true) (hdirs : dirs.all absOk = true)
    (hA : A.toList.all (fun c => c.toNat < 128) = true) (hB : B.toList.all (fun c => c.toNat < 128) = true)
    (h : SpellRel (splitLines A.toList) (splitLines B.toList)) :
    resultOf (assembleText fs cwd dirs c (.source A)) = resultOf (assembleText fs cwd dirs c (.source B)) :=
  assembleText_linesRel SpellItem.refl fs cwd dirs c A B hcwd hdirs hA hB
    (fun its its' hr => by rw [assembleItems_spellItem fs c hr]) h.linesRel

/-- **… with the errors kept apart** (review finding X4: `resultOf` maps every failure to `none`).
    When the front end (read_lines, lexer, parser) accepts the first text it accepts the second, and
    the two outcomes of `assembleText` are EQUAL as `Except` values once the `Line` carried by an
    AssemblerError is erased: same bytes / labels / constants, or the same kind of failure
    (AssemblerError ↔ AssemblerError, the same escaping exception, the same `unsupported`).  The line
    itself differs legitimately: numbers shift, contents are re-spelled. -/
theorem spelling_same_result_errors (fs : FS) (cwd : String) (dirs : List String) (c : Bool) (A B : String)
    (hcwd : normAbs cwd = true) (hdirs : dirs.all absOk = true)
    (hA : A.toList.all (fun c => c.toNat < 128) = true) (hB : B.toList.all (fun c => c.toNat < 128) = true)
    (h : SpellRel (splitLines A.toList) (splitLines B.toList))
    {its : List Item} (hf : frontEnd fs cwd dirs (.source A) = .ok its) :
    ∃ its', frontEnd fs cwd dirs (.source B) = .ok its' ∧
      mapErrLine (fun _ => default) (assembleText fs cwd dirs c (.source B)) =
        mapErrLine (fun _ => default) (assembleText fs cwd dirs c (.source A)) := by
  have hrel := frontEnd_linesRel SpellItem.refl fs cwd dirs A B hcwd hdirs hA hB h.linesRel
  rw [hf] at hrel
  cases hb : frontEnd fs cwd dirs (.source B) with
  | error e => rw [hb] at hrel; exact absurd hrel (by simp [erasedItems, ORel])
  | ok its' =>
    rw [hb] at hrel
    refine ⟨its', rfl, ?_⟩
    simp only [assembleText, hf, hb, bind, Except.bind]
    rw [← assembleItems_mapLine (textHooks fs) _ (textHooks_natural fs _),
      ← assembleItems_mapLine (textHooks fs) _ (textHooks_natural fs _)]
    exact (assembleItems_spellItem fs c hrel).symm

/-- the same with the texts given as their lines (each followed by "\n") -/
theorem spelling_same_result_lines (fs : FS) (cwd : String) (dirs : List String) (c : Bool)
    (as bs : List (List Char))
    (hcwd : normAbs cwd = true) (hdirs : dirs.all absOk = true)
    (hA : (unlines as).all (fun c => c.toNat < 128) = true) (hB : (unlines bs).all (fun c => c.toNat < 128) = true)
    (hnA : ∀ l ∈ as, NoBreak l) (hnB : ∀ l ∈ bs, NoBreak l)
    (h : SpellRel as bs) :
    resultOf (assembleText fs cwd dirs c (.source (String.ofList (unlines as)))) =
      resultOf (assembleText fs cwd dirs c (.source (String.ofList (unlines bs)))) := by
  apply spelling_same_result fs cwd dirs c _ _ hcwd hdirs
  · rw [String.toList_ofList]; exact hA
  · rw [String.toList_ofList]; exact hB
  · rw [String.toList_ofList, String.toList_ofList, splitLines_unlines _ hnA, splitLines_unlines _ hnB]
    exact h

/-- **base + offset forms, program level**: one load / store line rewritten from `op r, off(base)`
    to `op r, base, off` (stores: `op rs1, rs2, off`), everything else kept -/
theorem base_offset_same_result (fs : FS) (cwd : String) (dirs : List String) (c : Bool) (A B : String)
    (pre post : List (List Char)) (a b : List Char)
    (hcwd : normAbs cwd = true) (hdirs : dirs.all absOk = true)
    (hA : A.toList.all (fun c => c.toNat < 128) = true) (hB : B.toList.all (fun c => c.toNat < 128) = true)
    (hsA : splitLines A.toList = pre ++ a :: post) (hsB : splitLines B.toList = pre ++ b :: post)
    (hab : BaseOffsetPair a b) :
    resultOf (assembleText fs cwd dirs c (.source A)) = resultOf (assembleText fs cwd dirs c (.source B)) := by
  apply spelling_same_result fs cwd dirs c A B hcwd hdirs hA hB
  rw [hsA, hsB]
  exact SpellRel.context pre post (.form (.inl hab) .nil)

/-- **register spellings, program level**: one line replaced by a line whose item differs only in
    how its registers are spelled, everything else kept -/
theorem regspell_same_result (fs : FS) (cwd : String) (dirs : List String) (c : Bool) (A B : String)
    (pre post : List (List Char)) (a b : List Char)
    (hcwd : normAbs cwd = true) (hdirs : dirs.all absOk = true)
    (hA : A.toList.all (fun c => c.toNat < 128) = true) (hB : B.toList.all (fun c => c.toNat < 128) = true)
    (hsA : splitLines A.toList = pre ++ a :: post) (hsB : splitLines B.toList = pre ++ b :: post)
    (hab : RegRespelled a b) :
    resultOf (assembleText fs cwd dirs c (.source A)) = resultOf (assembleText fs cwd dirs c (.source B)) := by
  apply spelling_same_result fs cwd dirs c A B hcwd hdirs hA hB
  rw [hsA, hsB]
  exact SpellRel.context pre post (.regs hab .nil)

/-- **integer spellings, program level**: one line replaced by a line whose item differs only in
    how an immediate is written (16 / 0x10 / 0b10000 …), everything else kept -/
theorem intspell_same_result (fs : FS) (cwd : String) (dirs : List String) (c : Bool) (A B : String)
    (pre post : List (List Char)) (a b : List Char)
    (hcwd : normAbs cwd = true) (hdirs : dirs.all absOk = true)
    (hA : A.toList.all (fun c => c.toNat < 128) = true) (hB : B.toList.all (fun c => c.toNat < 128) = true)
    (hsA : splitLines A.toList = pre ++ a :: post) (hsB : splitLines B.toList = pre ++ b :: post)
    (hab : IntRespelled a b) :
    resultOf (assembleText fs cwd dirs c (.source A)) = resultOf (assembleText fs cwd dirs c (.source B)) := by
  apply spelling_same_result fs cwd dirs c A B hcwd hdirs hA hB
  rw [hsA, hsB]
  exact SpellRel.context pre post (.ints hab .nil)

/-! ### several rewriting rounds (e.g. a base+offset line that is also re-indented) -/

/-- a line list that is the `splitlines()` of an ASCII text -/
def GoodLines (ls : List (List Char)) : Prop :=
  (unlines ls).all (fun c => c.toNat < 128) = true ∧ ∀ l ∈ ls, NoBreak l

inductive SpellEq : List (List Char) → List (List Char) → Prop
  | step {as bs : List (List Char)} : SpellRel as bs → SpellEq as bs
  | trans {as bs cs : List (List Char)} : SpellEq as bs → GoodLines bs → SpellEq bs cs → SpellEq as cs

theorem spelling_same_result_rounds (fs : FS) (cwd : String) (dirs : List String) (c : Bool)
    (hcwd : normAbs cwd = true) (hdirs : dirs.all absOk = true)
    {as bs : List (List Char)} (h : SpellEq as bs) (hA : GoodLines as) (hB : GoodLines bs) :
    resultOf (assembleText fs cwd dirs c (.source (String.ofList (unlines as)))) =
      resultOf (assembleText fs cwd dirs c (.source (String.ofList (unlines bs)))) := by
  induction h with
  | step h => exact spelling_same_result_lines fs cwd dirs c _ _ hcwd hdirs hA.1 hB.1 hA.2 hB.2 h
  | trans _ hmid _ ih1 ih2 => exact (ih1 hA hmid).trans (ih2 hmid hB)

/-! ### non-vacuity -/

instance (l : List Char) : Decidable (NoBreak l) := by unfold NoBreak; infer_instance

def exA : List (List Char) :=
  ["main:".toList, "lw x1, 4(sp)".toList, "include defs.asm".toList, "add x8, x9, x10".toList,
   "beqz x8, main".toList, "addi x5, x5, 16".toList, "sw a0, 8(sp)".toList]

def exB : List (List Char) :=
  ["# start".toList, "main:".toList, [], "\tlw x1,\t4(sp)  # load".toList, "include defs.asm".toList,
   "add fp, s1, 0xa".toList, "beqz s0, main".toList, "addi x5, x5, 0x10".toList, "   ".toList,
   "sw sp, a0, 8".toList]

theorem ex_sepEq : SepEq "lw x1, 4(sp)".toList "\tlw x1,\t4(sp)  # load".toList := by
  have s1 : SepEq "lw x1, 4(sp)".toList "lw x1,\t4(sp)".toList :=
    .step (by decide) (by decide)
      (SepStep.run "lw x1".toList "4(sp)".toList ", ".toList ",\t".toList
        (by decide) (by decide) (by decide) (by decide))
  have s2 : SepEq "lw x1,\t4(sp)".toList "\tlw x1,\t4(sp)".toList :=
    .step (by decide) (by decide) (SepStep.lead "\t".toList _ (by decide))
  have s3 : SepEq "\tlw x1,\t4(sp)".toList "\tlw x1,\t4(sp)  ".toList :=
    .step (by decide) (by decide) (SepStep.trail _ "  ".toList (by decide))
  have s4 : SepEq "\tlw x1,\t4(sp)  ".toList "\tlw x1,\t4(sp)  # load".toList :=
    .step (by decide) (by decide) (SepStep.comment _ " load".toList)
  exact (s1.trans s2).trans (s3.trans s4)

/-- `add x8, x9, x10` and `add fp, s1, 0xa`: the same registers — from the TEXT of the two lines
    (`regRespelled_flat3`; the token condition is `RegTokens.r`) -/
theorem ex_regs_add : RegRespelled "add x8, x9, x10".toList "add fp, s1, 0xa".toList :=
  regRespelled_flat3 "add".toList "x8".toList "x9".toList "x10".toList "fp".toList "s1".toList "0xa".toList
    (by decide) (by decide) (by decide) (by decide) (by decide) (by decide) (by decide)
    (by decide) (by decide) (by decide)
    (.r "add" (by decide) (by decide) (by decide) (.inr ⟨8, by decide, by decide⟩)
      (.inr ⟨9, by decide, by decide⟩) (.inr ⟨10, by decide, by decide⟩))
    (parse_rtype default "add" "x8" "x9" "x10" (by decide) (by decide))

/-- a pseudo-instruction: `beqz x8, main` and `beqz s0, main` (directly from the definition) -/
theorem ex_regs_beqz : RegRespelled "beqz x8, main".toList "beqz s0, main".toList :=
  ⟨isPlainLine_of_head _ _ (by decide), isPlainLine_of_head _ _ (by decide), by decide, by decide,
   ["beqz", "x8", "main"], ["beqz", "s0", "main"],
   .pseudo default "beqz" ["x8", "main"], .pseudo default "beqz" ["s0", "main"],
   by decide, by decide, by decide, by decide, by decide, by decide,
   .pseudo default "beqz" (.brz "beq") (by decide)
     ⟨"x8", "s0", "main", rfl, rfl, .inr ⟨8, by decide, by decide⟩⟩⟩

/-- `16` and `0x10` are numerals of one value (C11 `lit_arith`) -/
theorem ex_num16 : NumImm (.arith "16") (.arith "0x10") :=
  numImm_spellings 16 "16".toList "0x10".toList (.inl (by decide)) (.inr (.inl (by decide))) (by decide) (by decide)

/-- `addi x5, x5, 16` and `addi x5, x5, 0x10` — from the TEXT of the two lines -/
theorem ex_ints_addi : IntRespelled "addi x5, x5, 16".toList "addi x5, x5, 0x10".toList :=
  intRespelled_flat3 "addi".toList "x5".toList "x5".toList "16".toList "0x10".toList
    (by decide) (by decide) (by decide) (by decide) (by decide) (by decide) (by decide)
    (by decide) (by decide) ex_num16

/-- the third spelling -/
example : IntRespelled "addi x5, x5, 16".toList "addi x5, x5, 0b10000".toList :=
  intRespelled_flat3 "addi".toList "x5".toList "x5".toList "16".toList "0b10000".toList
    (by decide) (by decide) (by decide) (by decide) (by decide) (by decide) (by decide)
    (by decide) (by decide)
    (numImm_spellings 16 "16".toList "0b10000".toList (.inl (by decide)) (.inr (.inr (by decide))) (by decide) (by decide))

/-- a comment line and two blank lines inserted, the load re-spelled, the registers of the add and
    of the beqz spelled differently, the immediate of the addi written in hexadecimal, the store
    rewritten to the flat form; the label and the include line kept -/
theorem ex_rel : SpellRel exA exB :=
  .insert ⟨[], "# start".toList, rfl, by decide, .inr ⟨" start".toList, rfl, by decide, by decide⟩⟩
  (.keep _
  (.insert ⟨[], [], rfl, by decide, .inl rfl⟩
  (.respell (by decide) (by decide) ex_sepEq (isPlainLine_of_head _ _ (by decide)) (isPlainLine_of_head _ _ (by decide))
  (.keep _
  (.regs ex_regs_add
  (.regs ex_regs_beqz
  (.ints ex_ints_addi
  (.insert ⟨"   ".toList, [], rfl, by decide, .inl rfl⟩
  (.form (.inl (BaseOffsetPair.store "sw" "sp".toList "a0".toList "8".toList (by decide) (by decide) (by decide)
      (by decide) (by decide) (by decide)))
  .nil)))))))))

/-- … so, on any filesystem (whatever defs.asm holds, or if it is missing), from any working
    directory, in both modes, the two texts have the same result -/
theorem ex_same (fs : FS) (cwd : String) (dirs : List String) (c : Bool)
    (hcwd : normAbs cwd = true) (hdirs : dirs.all absOk = true) :
    resultOf (assembleText fs cwd dirs c (.source (String.ofList (unlines exA)))) =
      resultOf (assembleText fs cwd dirs c (.source (String.ofList (unlines exB)))) :=
  spelling_same_result_lines fs cwd dirs c exA exB hcwd hdirs (by decide) (by decide)
    (by decide) (by decide) ex_rel

/-! #### … and on a concrete filesystem both sides SUCCEED -/

/-- /w/defs.asm holds `K = 4` -/
def exFS : FS := { files := [("/w/defs.asm", "K = 4\n".toList.map Char.toNat)], dirs := ["/", "/w"] }

theorem ex_abs_w : normAbs "/w" = true := by
  have h : ("/w".splitOn "/") = ["", "w"] := by
    simp [String.splitOn]
    repeat (rw [String.splitOnAux.eq_1]; simp (decide := true))
  unfold normAbs; simp only [h]; decide

/-- `exA` with the include line replaced by the line of defs.asm -/
def exFlat : String :=
  "main:\nlw x1, 4(sp)\nK = 4\nadd x8, x9, x10\nbeqz x8, main\naddi x5, x5, 16\nsw a0, 8(sp)\n"

theorem ex_flat_result : assembleText exFS "/w" [] false (.source exFlat) =
    .ok { bytes := [131, 32, 65, 0, 51, 132, 164, 0, 227, 12, 4, 254, 147, 130, 2, 1, 35, 36, 161, 0],
          labels := [("main", 0)], constants := [("K", 4)] } := by
  unfold assembleText frontEnd
  have h1 : sourceOk exFlat.toList = true := by decide
  have hs : splitLines exFlat.toList =
      ["main:".toList, "lw x1, 4(sp)".toList, "K = 4".toList, "add x8, x9, x10".toList,
       "beqz x8, main".toList, "addi x5, x5, 16".toList, "sw a0, 8(sp)".toList] := by decide
  simp only [ex_abs_w, List.all_nil, h1, readLinesAux.eq_2, hs]
  simp only [readLinesAux.go.eq_2, readLinesAux.go.eq_1]
  decide +kernel

/-- **both sides of the example succeed** on `exFS`, with these twenty bytes: the theorem is not
    "both fail".  (`exA` includes defs.asm: C14 `include_same_result` splices it, the kernel
    evaluates the flat text, `ex_same` carries the value over to `exB`.) -/
theorem ex_both_succeed :
    resultOf (assembleText exFS "/w" [] false (.source (String.ofList (unlines exA)))) =
      some { bytes := [131, 32, 65, 0, 51, 132, 164, 0, 227, 12, 4, 254, 147, 130, 2, 1, 35, 36, 161, 0],
             labels := [("main", 0)], constants := [("K", 4)] } ∧
    resultOf (assembleText exFS "/w" [] false (.source (String.ofList (unlines exB)))) =
      some { bytes := [131, 32, 65, 0, 51, 132, 164, 0, 227, 12, 4, 254, 147, 130, 2, 1, 35, 36, 161, 0],
             labels := [("main", 0)], constants := [("K", 4)] } := by
  have hA : resultOf (assembleText exFS "/w" [] false (.source (String.ofList (unlines exA)))) =
      resultOf (assembleText exFS "/w" [] false (.source exFlat)) :=
    C14.include_same_result exFS "/w" [] false _ exFlat ["main:".toList, "lw x1, 4(sp)".toList]
      ["add x8, x9, x10".toList, "beqz x8, main".toList, "addi x5, x5, 16".toList, "sw a0, 8(sp)".toList]
      "include defs.asm".toList "defs.asm" "/w/defs.asm" ("K = 4\n".toList.map Char.toNat) "K = 4\n".toList
      ex_abs_w (by decide) (by decide) (by decide) (by decide) (by decide)
      ⟨by decide, "include".toList, "defs.asm".toList, by decide, by decide⟩
      (by decide) (by decide) (by decide) (by decide) (by decide)
      (by
        have h : splitLines "K = 4\n".toList = ["K = 4".toList] := by decide
        rw [h]
        intro l hl
        simp only [List.mem_cons, List.not_mem_nil, or_false] at hl
        subst hl
        exact ⟨by decide, by decide⟩)
  rw [ex_flat_result] at hA
  exact ⟨hA, (ex_same exFS "/w" [] false ex_abs_w (by decide)).symm.trans hA⟩

/-- the freedom ends where `lookup_register` is not what reads the operand: `fence` parses its
    operands as integers, so `x1` is no spelling of `1` there (`regSame_fence_counterexample`) -/
example (H : Hooks) (l : Line) :
    assembleItems H false [.instr l (.cr "fence" (.str "x1") (.str "1"))] [] []
      ≠ assembleItems H false [.instr l (.cr "fence" (.str "1") (.str "1"))] [] [] :=
  (regSame_fence_counterexample H l).2

end BB.Props.C13
