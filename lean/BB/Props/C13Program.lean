/-
  BB.Props.C13Program — C13 for whole source texts.

  `BB.Props.C13` proves, line by line, that the documented spelling freedoms do not change the
  token list (separators, indentation, trailing blanks, trailing comment: `sep_irrelevant`), that
  blank and comment-only lines have no tokens, that the two base+offset forms parse to the same
  item, and that x8 / s0 / fp / 8 / 0x8 name one register.  Here these facts are lifted through
  `read_lines`, lexer, parser and every pass:

  * `spelling_same_result`     two source texts whose line lists are related by `SpellRel` — a line
                               kept (include / include_bytes lines too, to any nesting), a line
                               re-spelled (`SepEq`), a line rewritten between the two base+offset
                               forms, a line whose registers are spelled differently, a blank or
                               comment-only line inserted or deleted — assemble to the same bytes,
                               labels and constants, or both fail.  Line numbers shift and line
                               contents differ: that is what `assemble_ignores_line_metadata` (C14)
                               absorbs; register spellings differ in the items themselves: that is
                               `assembleItems_regSame` (every pass and every encoder consults a
                               register operand only through `lookup_register`).
  * `base_offset_same_result`, `regspell_same_result`   one rewritten line, everything else kept.
  * `spelling_same_result_rounds`   several rounds of rewriting.
  Re-spelled lines must not be include / include_bytes / string / error lines, whose text is not
  token-separated (an indented `include` is no include line at all).
-/
import BB.Lemmas.SpellProgram
import BB.Lemmas.RegSpell
import BB.Props.C13
namespace BB.Props.C13
open BB

/-! ## a line's items from its tokens -/

/-- the erased items of a lexed line -/
def tokItems : Except Err (List String) → Option (List Item)
  | .ok [] => some []
  | .ok (t :: ts) =>
    match parseItem default (t :: ts) with
    | .ok it => some [eraseLine it]
    | .error _ => none
  | .error _ => none

theorem dropWhile_all_nil {α : Type} (p : α → Bool) :
    ∀ (l : List α), (∀ x ∈ l.dropWhile p, p x = true) → l.dropWhile p = []
  | [], _ => rfl
  | a :: l, h => by
    cases hp : p a with
    | true =>
      simp only [List.dropWhile, hp] at h ⊢
      exact dropWhile_all_nil p l h
    | false =>
      simp only [List.dropWhile, hp] at h
      have := h a (by simp)
      rw [hp] at this
      cases this

/-- a line `read_lines` skips consists of white space -/
theorem allWs_of_stripWs_empty (l : List Char) (h : (stripWs l).isEmpty = true) :
    ∀ c ∈ l, isPyWs c = true := by
  rw [List.isEmpty_iff] at h
  unfold stripWs at h
  rw [List.reverse_eq_nil_iff] at h
  have h1 := dropWhile_nil_all isPyWs _ h
  have h2 : dropWsLeft l = [] := by
    apply dropWhile_all_nil
    intro x hx
    exact h1 x (by rw [List.mem_reverse]; exact hx)
  exact dropWhile_nil_all isPyWs l h2

theorem stripWs_nonempty_ne_nil (l : List Char) (h : (stripWs l).isEmpty = false) : l ≠ [] := by
  intro e; subst e; simp [stripWs, dropWsLeft] at h

/-- what `read_lines` + lexer + parser make of a line (without a line break inside) is what the
    lexer and the parser make of it: a line of blanks lexes to no token -/
theorem lineItems_eq_tokItems (l : List Char) (hnl : l.contains '\n' = false) :
    lineItems l = tokItems (lexTokens l) := by
  unfold lineItems
  by_cases hb : (stripWs l).isEmpty = true
  · rw [if_pos hb]
    have hws := allWs_of_stripWs_empty l hb
    have hbl : Blank l := fun c hc => ⟨hws c hc, fun e => by
      subst e
      have : l.contains '\n' = true := by simpa using hc
      rw [hnl] at this; cases this⟩
    rw [blank_line l hbl]; rfl
  · rw [if_neg hb]
    have hne : l ≠ [] := stripWs_nonempty_ne_nil l (by simpa using hb)
    have hlen : decide ((String.ofList l).length > 0) = true := by
      rw [String.length_ofList]
      cases l with
      | nil => exact absurd rfl hne
      | cons a t => simp
    unfold itemsOfContents
    simp only [List.filter, hlen, lexAllO, String.toList_ofList]
    cases lexTokens l with
    | error e => rfl
    | ok toks =>
      cases toks with
      | nil => rfl
      | cons t ts =>
        simp only [List.isEmpty_cons, Bool.false_eq_true, if_false, Option.bind, parseAllO, tokItems]
        cases parseItem default (t :: ts) <;> rfl

theorem plain_no_nl {l : List Char} (h : Plain l) : l.contains '\n' = false := h.1.2.1

/-- **separators, indentation, trailing comment**: same items -/
theorem lineItems_sepEq {a b : List Char} (ha : Plain a) (hb : Plain b) (h : SepEq a b) :
    lineItems a = lineItems b := by
  rw [lineItems_eq_tokItems a (plain_no_nl ha), lineItems_eq_tokItems b (plain_no_nl hb), sep_irrelevant h]

/-! ## lines that contribute nothing -/

/-- a blank line or a (possibly indented) comment-only line -/
def SilentLine (l : List Char) : Prop :=
  ∃ ws tail, l = ws ++ tail ∧ Blank ws ∧
    (tail = [] ∨ ∃ r, tail = '#' :: r ∧ r.all isAsciiC = true ∧ r.contains '\n' = false)

theorem isPlainLine_of_head (c : Char) (rest : List Char) (h : c.toLower ≠ 'i') : IsPlainLine (c :: rest) := by
  have h' : ('i' == c.toLower) = false := by
    simp only [beq_eq_false_iff_ne, ne_eq]; exact fun e => h e.symm
  constructor
  · rw [includeKw_eq]
    simp only [lowerL, List.map_cons, List.isPrefixOf_cons_cons, h', Bool.false_and]
  · rw [show "include_bytes ".toList = ['i', 'n', 'c', 'l', 'u', 'd', 'e', '_', 'b', 'y', 't', 'e', 's', ' '] by decide]
    simp only [lowerL, List.map_cons, List.isPrefixOf_cons_cons, h', Bool.false_and]

theorem isPlainLine_nil : IsPlainLine [] := by constructor <;> decide

theorem silent_isPlainLine {l : List Char} (h : SilentLine l) : IsPlainLine l := by
  obtain ⟨ws, tail, rfl, hws, ht⟩ := h
  cases ws with
  | nil =>
    rcases ht with rfl | ⟨r, rfl, _, _⟩
    · exact isPlainLine_nil
    · exact isPlainLine_of_head '#' r (by decide)
  | cons c ws =>
    apply isPlainLine_of_head
    intro hc
    have := not_ws_of_lower_i hc
    rw [(hws c (by simp)).1] at this
    cases this

theorem silent_lineItems {l : List Char} (h : SilentLine l) : lineItems l = some [] := by
  obtain ⟨ws, tail, rfl, hws, ht⟩ := h
  have hp : Plain (ws ++ tail) := plain_blank_hash ws tail hws ht
  rw [lineItems_eq_tokItems _ (plain_no_nl hp)]
  rcases ht with rfl | ⟨r, rfl, hr, hn⟩
  · rw [List.append_nil, blank_line ws hws]; rfl
  · rw [comment_only_line ws r hws hr hn]; rfl

/-! ## the two base + offset forms -/

/-- `a` is `m r, off(base)` and `b` the flat form of the same load or store -/
inductive BaseOffsetPair : List Char → List Char → Prop
  | load (m : String) (rd off base : List Char) : m ∈ loadMnemonics → Operand rd → Operand off →
      Operand base → rd ≠ ['='] →
      BaseOffsetPair (m.toList ++ ([' '] ++ (rd ++ ([',', ' '] ++ (off ++ (['('] ++ (base ++ [')'])))))))
                     (m.toList ++ ([' '] ++ (rd ++ ([',', ' '] ++ (base ++ ([',', ' '] ++ off))))))
  | store (m : String) (rs1 rs2 off : List Char) : m ∈ storeMnemonics → Operand rs1 → Operand rs2 →
      Operand off → rs1 ≠ ['='] → rs2 ≠ ['='] →
      BaseOffsetPair (m.toList ++ ([' '] ++ (rs2 ++ ([',', ' '] ++ (off ++ (['('] ++ (rs1 ++ [')'])))))))
                     (m.toList ++ ([' '] ++ (rs1 ++ ([',', ' '] ++ (rs2 ++ ([',', ' '] ++ off))))))

theorem mnemonic_head {m : String} (hm : m ∈ loadMnemonics ∨ m ∈ storeMnemonics) (rest : List Char) :
    IsPlainLine (m.toList ++ rest) := by
  simp only [loadMnemonics, storeMnemonics, List.mem_cons, List.not_mem_nil, or_false] at hm
  rcases hm with (rfl | rfl | rfl | rfl | rfl | rfl | rfl) | (rfl | rfl | rfl | rfl) <;>
    exact isPlainLine_of_head _ _ (by decide)

theorem operand_word_no_nl {m : String} (hm : m ∈ loadMnemonics ∨ m ∈ storeMnemonics) : '\n' ∉ m.toList := by
  simp only [loadMnemonics, storeMnemonics, List.mem_cons, List.not_mem_nil, or_false] at hm
  rcases hm with (rfl | rfl | rfl | rfl | rfl | rfl | rfl) | (rfl | rfl | rfl | rfl) <;> decide

theorem baseOffsetPair_spec {a b : List Char} (h : BaseOffsetPair a b) :
    IsPlainLine a ∧ IsPlainLine b ∧ lineItems a = lineItems b := by
  cases h with
  | load m rd off base hm hrd hoff hbase hne =>
    have hmw : Operand m.toList ∧ m.toList ≠ "error".toList ∧ m.toList ≠ "string".toList := by
      simp only [loadMnemonics, List.mem_cons, List.not_mem_nil, or_false] at hm
      rcases hm with rfl | rfl | rfl | rfl | rfl | rfl | rfl <;> decide
    have l1 := lex_paren_form _ rd off base hmw.1 hrd hoff hbase hmw.2.1 hmw.2.2
    have l2 := lex_flat_form _ rd base off hmw.1 hrd hbase hoff hmw.2.1 hmw.2.2
    have hp := base_offset_forms_load default m (String.ofList rd) (String.ofList off) (String.ofList base) hm
      (ofList_ne_of_ne hne) (operand_ne_paren hoff)
    refine ⟨mnemonic_head (.inl hm) _, mnemonic_head (.inl hm) _, ?_⟩
    rw [lineItems_eq_tokItems, lineItems_eq_tokItems, l1, l2]
    · rw [String.ofList_toList]; simp only [tokItems, hp]
    · simp [operand_word_no_nl (.inl hm), operand_no_nl hrd, operand_no_nl hoff, operand_no_nl hbase]
    · simp [operand_word_no_nl (.inl hm), operand_no_nl hrd, operand_no_nl hoff, operand_no_nl hbase]
  | store m rs1 rs2 off hm h1 h2 hoff hne1 hne2 =>
    have hmw : Operand m.toList ∧ m.toList ≠ "error".toList ∧ m.toList ≠ "string".toList := by
      simp only [storeMnemonics, List.mem_cons, List.not_mem_nil, or_false] at hm
      rcases hm with rfl | rfl | rfl | rfl <;> decide
    have l1 := lex_paren_form _ rs2 off rs1 hmw.1 h2 hoff h1 hmw.2.1 hmw.2.2
    have l2 := lex_flat_form _ rs1 rs2 off hmw.1 h1 h2 hoff hmw.2.1 hmw.2.2
    have hp := base_offset_forms_store default m (String.ofList rs1) (String.ofList rs2) (String.ofList off) hm
      (ofList_ne_of_ne hne1) (ofList_ne_of_ne hne2) (operand_ne_paren hoff)
    refine ⟨mnemonic_head (.inr hm) _, mnemonic_head (.inr hm) _, ?_⟩
    rw [lineItems_eq_tokItems, lineItems_eq_tokItems, l1, l2]
    · rw [String.ofList_toList]; simp only [tokItems, hp]
    · simp [operand_word_no_nl (.inr hm), operand_no_nl h1, operand_no_nl h2, operand_no_nl hoff]
    · simp [operand_word_no_nl (.inr hm), operand_no_nl h1, operand_no_nl h2, operand_no_nl hoff]

/-! ## registers spelled differently -/

/-- both lines lex and parse, to items that differ at most in how register operands are spelled
    (`Item.Same`: x8 / s0 / fp / 8 / 0x8 …; operands read as integers — fence sets, aq / rl — and
    everything else are equal) -/
def RegRespelled (a b : List Char) : Prop :=
  IsPlainLine a ∧ IsPlainLine b ∧ a.contains '\n' = false ∧ b.contains '\n' = false ∧
  ∃ ta tb ia ib, lexTokens a = .ok ta ∧ lexTokens b = .ok tb ∧ ta ≠ [] ∧ tb ≠ [] ∧
    parseItem default ta = .ok ia ∧ parseItem default tb = .ok ib ∧ Item.Same ia ib

theorem itemSame_eraseLine {a b : Item} (h : Item.Same a b) : Item.Same (eraseLine a) (eraseLine b) := by
  cases h with
  | refl it => exact .refl _
  | instr line hi => exact .instr default hi
  | pseudo line name k hk ha => exact .pseudo default name k hk ha

theorem regRespelled_orel {a b : List Char} (h : RegRespelled a b) :
    ORel Item.Same (lineItems a) (lineItems b) := by
  obtain ⟨_, _, hna, hnb, ta, tb, ia, ib, hla, hlb, hta, htb, hpa, hpb, hs⟩ := h
  rw [lineItems_eq_tokItems a hna, lineItems_eq_tokItems b hnb, hla, hlb]
  cases ta with
  | nil => exact absurd rfl hta
  | cons t ts =>
    cases tb with
    | nil => exact absurd rfl htb
    | cons u us =>
      simp only [tokItems, hpa, hpb]
      exact .cons (itemSame_eraseLine hs) .nil

/-! ## whole source texts -/

/-- the documented spelling freedoms, on the line list of a source text -/
inductive SpellRel : List (List Char) → List (List Char) → Prop
  | nil : SpellRel [] []
  /-- a line kept as it is — any line, include and include_bytes lines too -/
  | keep (l : List Char) {as bs : List (List Char)} : SpellRel as bs → SpellRel (l :: as) (l :: bs)
  /-- separators, indentation, trailing blanks, a trailing comment (C13 `SepEq`), on a line that is
      not an include / include_bytes / string / error line -/
  | respell {a b : List Char} {as bs : List (List Char)} : Plain a → Plain b → SepEq a b →
      IsPlainLine a → IsPlainLine b → SpellRel as bs → SpellRel (a :: as) (b :: bs)
  /-- `op r, off(base)` ↔ `op r, base, off` -/
  | form {a b : List Char} {as bs : List (List Char)} : BaseOffsetPair a b ∨ BaseOffsetPair b a →
      SpellRel as bs → SpellRel (a :: as) (b :: bs)
  /-- registers spelled differently -/
  | regs {a b : List Char} {as bs : List (List Char)} : RegRespelled a b →
      SpellRel as bs → SpellRel (a :: as) (b :: bs)
  /-- a blank or comment-only line inserted -/
  | insert {l : List Char} {as bs : List (List Char)} : SilentLine l → SpellRel as bs → SpellRel as (l :: bs)
  /-- a blank or comment-only line deleted -/
  | delete {l : List Char} {as bs : List (List Char)} : SilentLine l → SpellRel as bs → SpellRel (l :: as) bs

theorem SpellRel.refl : ∀ ls, SpellRel ls ls
  | [] => .nil
  | l :: ls => .keep l (SpellRel.refl ls)

/-- a prefix and a suffix kept -/
theorem SpellRel.context (pre post : List (List Char)) {as bs : List (List Char)} (h : SpellRel as bs) :
    SpellRel (pre ++ (as ++ post)) (pre ++ (bs ++ post)) := by
  induction pre with
  | nil =>
    simp only [List.nil_append]
    induction h with
    | nil => exact SpellRel.refl post
    | keep l _ ih => exact .keep l ih
    | respell ha hb hab pa pb _ ih => exact .respell ha hb hab pa pb ih
    | form h _ ih => exact .form h ih
    | regs h _ ih => exact .regs h ih
    | insert hl _ ih => exact .insert hl ih
    | delete hl _ ih => exact .delete hl ih
  | cons l pre ih => exact .keep l ih

theorem SpellRel.linesRel {as bs : List (List Char)} (h : SpellRel as bs) : LinesRel Item.Same as bs := by
  induction h with
  | nil => exact .nil
  | keep l _ ih => exact .same l ih
  | respell ha hb hab pa pb _ ih =>
    exact .change pa pb (ORel.of_eq Item.Same.refl (lineItems_sepEq ha hb hab)) ih
  | form h _ ih =>
    rcases h with h | h
    · obtain ⟨pa, pb, e⟩ := baseOffsetPair_spec h
      exact .change pa pb (ORel.of_eq Item.Same.refl e) ih
    · obtain ⟨pb, pa, e⟩ := baseOffsetPair_spec h
      exact .change pa pb (ORel.of_eq Item.Same.refl e.symm) ih
  | regs h _ ih => exact .change h.1 h.2.1 (regRespelled_orel h) ih
  | insert hl _ ih => exact .insert (silent_isPlainLine hl) (silent_lineItems hl) ih
  | delete hl _ ih => exact .delete (silent_isPlainLine hl) (silent_lineItems hl) ih

/-- **C13 at program level.**  Two source texts (same filesystem, working directory, include
    directories, mode) whose lines are related by the documented spelling freedoms assemble to
    the same bytes, labels and constants — or both fail. -/
theorem spelling_same_result (fs : FS) (cwd : String) (dirs : List String) (c : Bool) (A B : String)
    (hcwd : normAbs cwd = true) (hdirs : dirs.all absOk = true)
    (hA : A.toList.all (fun c => c.toNat < 128) = true) (hB : B.toList.all (fun c => c.toNat < 128) = true)
    (h : SpellRel (splitLines A.toList) (splitLines B.toList)) :
    resultOf (assembleText fs cwd dirs c (.source A)) = resultOf (assembleText fs cwd dirs c (.source B)) :=
  assembleText_linesRel Item.Same.refl fs cwd dirs c A B hcwd hdirs hA hB
    (fun its its' hr => by rw [assembleItems_regSame (textHooks fs) c its its' [] hr]) h.linesRel

/-- the same with the texts given as their lines (each followed by "\n") -/
theorem spelling_same_result_lines (fs : FS) (cwd : String) (dirs : List String) (c : Bool)
    (as bs : List (List Char))
    (hcwd : normAbs cwd = true) (hdirs : dirs.all absOk = true)
    (hA : (unlines as).all (fun c => c.toNat < 128) = true) (hB : (unlines bs).all (fun c => c.toNat < 128) = true)
    (hnA : ∀ l ∈ as, NoBreak l) (hnB : ∀ l ∈ bs, NoBreak l)
    (h : SpellRel as bs) :
    resultOf (assembleText fs cwd dirs c (.source (String.ofList (unlines as)))) =
      resultOf (assembleText fs cwd dirs c (.source (String.ofList (unlines bs)))) := by
  apply spelling_same_result fs cwd dirs c _ _ hcwd hdirs
  · rw [String.toList_ofList]; exact hA
  · rw [String.toList_ofList]; exact hB
  · rw [String.toList_ofList, String.toList_ofList, splitLines_unlines _ hnA, splitLines_unlines _ hnB]
    exact h

/-- **base + offset forms, program level**: one load / store line rewritten from `op r, off(base)`
    to `op r, base, off` (stores: `op rs1, rs2, off`), everything else kept -/
theorem base_offset_same_result (fs : FS) (cwd : String) (dirs : List String) (c : Bool) (A B : String)
    (pre post : List (List Char)) (a b : List Char)
    (hcwd : normAbs cwd = true) (hdirs : dirs.all absOk = true)
    (hA : A.toList.all (fun c => c.toNat < 128) = true) (hB : B.toList.all (fun c => c.toNat < 128) = true)
    (hsA : splitLines A.toList = pre ++ a :: post) (hsB : splitLines B.toList = pre ++ b :: post)
    (hab : BaseOffsetPair a b) :
    resultOf (assembleText fs cwd dirs c (.source A)) = resultOf (assembleText fs cwd dirs c (.source B)) := by
  apply spelling_same_result fs cwd dirs c A B hcwd hdirs hA hB
  rw [hsA, hsB]
  exact SpellRel.context pre post (.form (.inl hab) .nil)

/-- **register spellings, program level**: one line replaced by a line whose item differs only in
    how its registers are spelled, everything else kept -/
theorem regspell_same_result (fs : FS) (cwd : String) (dirs : List String) (c : Bool) (A B : String)
    (pre post : List (List Char)) (a b : List Char)
    (hcwd : normAbs cwd = true) (hdirs : dirs.all absOk = true)
    (hA : A.toList.all (fun c => c.toNat < 128) = true) (hB : B.toList.all (fun c => c.toNat < 128) = true)
    (hsA : splitLines A.toList = pre ++ a :: post) (hsB : splitLines B.toList = pre ++ b :: post)
    (hab : RegRespelled a b) :
    resultOf (assembleText fs cwd dirs c (.source A)) = resultOf (assembleText fs cwd dirs c (.source B)) := by
  apply spelling_same_result fs cwd dirs c A B hcwd hdirs hA hB
  rw [hsA, hsB]
  exact SpellRel.context pre post (.regs hab .nil)

/-! ### several rewriting rounds (e.g. a base+offset line that is also re-indented) -/

/-- a line list that is the `splitlines()` of an ASCII text -/
def GoodLines (ls : List (List Char)) : Prop :=
  (unlines ls).all (fun c => c.toNat < 128) = true ∧ ∀ l ∈ ls, NoBreak l

inductive SpellEq : List (List Char) → List (List Char) → Prop
  | step {as bs : List (List Char)} : SpellRel as bs → SpellEq as bs
  | trans {as bs cs : List (List Char)} : SpellEq as bs → GoodLines bs → SpellEq bs cs → SpellEq as cs

theorem spelling_same_result_rounds (fs : FS) (cwd : String) (dirs : List String) (c : Bool)
    (hcwd : normAbs cwd = true) (hdirs : dirs.all absOk = true)
    {as bs : List (List Char)} (h : SpellEq as bs) (hA : GoodLines as) (hB : GoodLines bs) :
    resultOf (assembleText fs cwd dirs c (.source (String.ofList (unlines as)))) =
      resultOf (assembleText fs cwd dirs c (.source (String.ofList (unlines bs)))) := by
  induction h with
  | step h => exact spelling_same_result_lines fs cwd dirs c _ _ hcwd hdirs hA.1 hB.1 hA.2 hB.2 h
  | trans _ hmid _ ih1 ih2 => exact (ih1 hA hmid).trans (ih2 hmid hB)

/-! ### non-vacuity -/

instance (l : List Char) : Decidable (NoBreak l) := by unfold NoBreak; infer_instance

def exA : List (List Char) :=
  ["main:".toList, "lw x1, 4(sp)".toList, "include defs.asm".toList, "add x8, x9, x10".toList,
   "beqz x8, main".toList, "sw a0, 8(sp)".toList]

def exB : List (List Char) :=
  ["# start".toList, "main:".toList, [], "\tlw x1,\t4(sp)  # load".toList, "include defs.asm".toList,
   "add fp, s1, 0xa".toList, "beqz s0, main".toList, "   ".toList, "sw sp, a0, 8".toList]

theorem ex_sepEq : SepEq "lw x1, 4(sp)".toList "\tlw x1,\t4(sp)  # load".toList := by
  have s1 : SepEq "lw x1, 4(sp)".toList "lw x1,\t4(sp)".toList :=
    .step (by decide) (by decide)
      (SepStep.run "lw x1".toList "4(sp)".toList ", ".toList ",\t".toList
        (by decide) (by decide) (by decide) (by decide))
  have s2 : SepEq "lw x1,\t4(sp)".toList "\tlw x1,\t4(sp)".toList :=
    .step (by decide) (by decide) (SepStep.lead "\t".toList _ (by decide))
  have s3 : SepEq "\tlw x1,\t4(sp)".toList "\tlw x1,\t4(sp)  ".toList :=
    .step (by decide) (by decide) (SepStep.trail _ "  ".toList (by decide))
  have s4 : SepEq "\tlw x1,\t4(sp)  ".toList "\tlw x1,\t4(sp)  # load".toList :=
    .step (by decide) (by decide) (SepStep.comment _ " load".toList)
  exact (s1.trans s2).trans (s3.trans s4)

/-- `add x8, x9, x10` and `add fp, s1, 0xa`: the same registers -/
theorem ex_regs_add : RegRespelled "add x8, x9, x10".toList "add fp, s1, 0xa".toList :=
  ⟨isPlainLine_of_head _ _ (by decide), isPlainLine_of_head _ _ (by decide), by decide, by decide,
   ["add", "x8", "x9", "x10"], ["add", "fp", "s1", "0xa"],
   .instr default (.r "add" (.str "x8") (.str "x9") (.str "x10")),
   .instr default (.r "add" (.str "fp") (.str "s1") (.str "0xa")),
   by decide, by decide, by decide, by decide, by decide, by decide,
   .instr default (.r "add" (.inr ⟨8, by decide, by decide⟩) (.inr ⟨9, by decide, by decide⟩)
     (.inr ⟨10, by decide, by decide⟩))⟩

/-- a pseudo-instruction: `beqz x8, main` and `beqz s0, main` -/
theorem ex_regs_beqz : RegRespelled "beqz x8, main".toList "beqz s0, main".toList :=
  ⟨isPlainLine_of_head _ _ (by decide), isPlainLine_of_head _ _ (by decide), by decide, by decide,
   ["beqz", "x8", "main"], ["beqz", "s0", "main"],
   .pseudo default "beqz" ["x8", "main"], .pseudo default "beqz" ["s0", "main"],
   by decide, by decide, by decide, by decide, by decide, by decide,
   .pseudo default "beqz" (.brz "beq") (by decide)
     ⟨"x8", "s0", "main", rfl, rfl, .inr ⟨8, by decide, by decide⟩⟩⟩

/-- a comment line and two blank lines inserted, the load re-spelled, the registers of the add and
    of the beqz spelled differently, the store rewritten to the flat form; the label and the include
    line kept -/
theorem ex_rel : SpellRel exA exB :=
  .insert ⟨[], "# start".toList, rfl, by decide, .inr ⟨" start".toList, rfl, by decide, by decide⟩⟩
  (.keep _
  (.insert ⟨[], [], rfl, by decide, .inl rfl⟩
  (.respell (by decide) (by decide) ex_sepEq (isPlainLine_of_head _ _ (by decide)) (isPlainLine_of_head _ _ (by decide))
  (.keep _
  (.regs ex_regs_add
  (.regs ex_regs_beqz
  (.insert ⟨"   ".toList, [], rfl, by decide, .inl rfl⟩
  (.form (.inl (BaseOffsetPair.store "sw" "sp".toList "a0".toList "8".toList (by decide) (by decide) (by decide)
      (by decide) (by decide) (by decide)))
  .nil))))))))

/-- … so, on any filesystem (whatever defs.asm holds, or if it is missing), from any working
    directory, in both modes, the two texts have the same result -/
example (fs : FS) (cwd : String) (dirs : List String) (c : Bool)
    (hcwd : normAbs cwd = true) (hdirs : dirs.all absOk = true) :
    resultOf (assembleText fs cwd dirs c (.source (String.ofList (unlines exA)))) =
      resultOf (assembleText fs cwd dirs c (.source (String.ofList (unlines exB)))) :=
  spelling_same_result_lines fs cwd dirs c exA exB hcwd hdirs (by decide) (by decide)
    (by decide) (by decide) ex_rel

/-- the freedom ends where `lookup_register` is not what reads the operand: `fence` parses its
    operands as integers, so `x1` is no spelling of `1` there (`regSame_fence_counterexample`) -/
example (H : Hooks) (l : Line) :
    assembleItems H false [.instr l (.cr "fence" (.str "x1") (.str "1"))] [] []
      ≠ assembleItems H false [.instr l (.cr "fence" (.str "1") (.str "1"))] [] [] :=
  (regSame_fence_counterexample H l).2

end BB.Props.C13
