/-
  BB.Props.C10End — end to end for the data directives: what a `string` or `include_bytes` item
  contributes to the output of a successful assembly, at its own byte offset.  (db/dh/dw/dd with
  expressions: `C08.assemble_data_value`; value ranges and digits: `packInt_*` in C10.)
-/
import BB.Props.C08End
namespace BB.Props.C10
open BB BB.Spec BB.Lemmas BB.Props.C03

theorem keep_body {H : Hooks} {constants L : Dict} {p : Int} {it it' : Item}
    (hk : immBody H constants it p L = keepItem it)
    (hbody : immBody H constants it p L = .ok ([it'], 0)) : it' = it := by
  rw [hk] at hbody
  have := (keepItem_ok hbody).1
  simpa using this

/-- `string text` contributes the UTF-8 bytes of its (already unescaped) text -/
theorem step_string {H : Hooks} {constants L : Dict} {p : Int} {line line' : Line} {text : String}
    {it' : Item} {bs : List Nat}
    (hbody : immBody H constants (.string line text) p L = .ok ([it'], 0))
    (hfin : Finish H it' (.blob line' bs)) : bs = utf8Bytes text := by
  have := keep_body (by simp [immBody]) hbody
  subst this
  obtain ⟨b, d, e, f, h1, h2, h3, h4, h5⟩ := hfin
  simp only [instrStep, pure, Except.pure, Except.ok.injEq] at h1
  subst h1
  simp only [stringStep, seqStep, pure, Except.pure, Except.ok.injEq] at h2
  subst h2
  simp only [shorthandStep, pure, Except.pure, Except.ok.injEq] at h3
  subst h3
  simp only [packStep, pure, Except.pure, Except.ok.injEq] at h4
  subst h4
  simp only [includeBytesStep, pure, Except.pure, Except.ok.injEq, Item.blob.injEq] at h5
  exact h5.2.symm

/-- `include_bytes` contributes exactly what reading the carried path returns, and that has the size
    recorded when the line was read -/
theorem step_include_bytes {H : Hooks} {constants L : Dict} {p : Int} {line line' : Line} {path : String}
    {fsize : Int} {it' : Item} {bs : List Nat}
    (hbody : immBody H constants (.includeBytes line path fsize) p L = .ok ([it'], 0))
    (hfin : Finish H it' (.blob line' bs)) : H.readFile path = some bs ∧ (bs.length : Int) = fsize := by
  have := keep_body (by simp [immBody]) hbody
  subst this
  obtain ⟨b, d, e, f, h1, h2, h3, h4, h5⟩ := hfin
  simp only [instrStep, pure, Except.pure, Except.ok.injEq] at h1
  subst h1
  simp only [stringStep, seqStep, pure, Except.pure, Except.ok.injEq] at h2
  subst h2
  simp only [shorthandStep, pure, Except.pure, Except.ok.injEq] at h3
  subst h3
  simp only [packStep, pure, Except.pure, Except.ok.injEq] at h4
  subst h4
  simp only [includeBytesStep] at h5
  cases hr : H.readFile path with
  | none => simp [hr] at h5
  | some data =>
    simp only [hr] at h5
    split at h5
    · simp at h5
    · rename_i hne
      simp only [pure, Except.pure, Except.ok.injEq, Item.blob.injEq] at h5
      obtain ⟨_, rfl⟩ := h5
      exact ⟨rfl, by simpa using hne⟩

/-- **Strings and included files appear verbatim at their offset.**  `lay` is the layout the inputs
    determine (`C03.Frame`); the items spoken about are those of `lay.aligned`, the list the pipeline
    holds after resolve_aligns. -/
theorem assemble_verbatim (H : Hooks) (compress : Bool) (items : List Item) (r : AsmResult)
    (h : assembleItems H compress items [] [] = .ok r) :
    ∃ lay out, Frame H compress items r lay out ∧
      (∀ (i : Nat) (hi : i < lay.aligned.length) line text, lay.aligned[i] = .string line text →
        (r.bytes.drop (blobBytes (out.take i)).length).take (utf8Bytes text).length = utf8Bytes text) ∧
      (∀ (i : Nat) (hi : i < lay.aligned.length) line path fsize, lay.aligned[i] = .includeBytes line path fsize →
        ∃ data, H.readFile path = some data ∧ (data.length : Int) = fsize ∧
          (r.bytes.drop (blobBytes (out.take i)).length).take data.length = data) := by
  obtain ⟨lay, out, hF⟩ := assemble_land H compress items r h
  have hland := hF.land
  have hbytes := hF.bytes
  refine ⟨lay, out, hF, ?_, ?_⟩
  · intro i hi line text hit
    obtain ⟨it', line', d, _, hbody, hfin, hslice⟩ := hland.at i hi
    rw [hit] at hbody
    have := step_string hbody hfin
    subst this
    rw [hbytes]; exact hslice
  · intro i hi line path fsize hit
    obtain ⟨it', line', d, _, hbody, hfin, hslice⟩ := hland.at i hi
    rw [hit] at hbody
    obtain ⟨g1, g2⟩ := step_include_bytes hbody hfin
    exact ⟨d, g1, g2, by rw [hbytes]; exact hslice⟩

/-- the hypothesis has instances: the layout computed for `C03.sample` holds `string hi` at index 7 in
    both modes, and the output has "hi" there (offset 24 without -c, 20 with) -/
example : ∀ c : Bool,
    (BB.Props.C04.layoutOf (textHooks ⟨[], []⟩) c sample).toOption.map (fun l => l.aligned[7]?) = some
      (some (.string (sampleLine 9 "string hi") "hi")) ∧
    (assembleItems (textHooks ⟨[], []⟩) c sample [] []).toOption.map
      (fun r => (r.bytes.drop (if c then 20 else 24)).take 2) = some [104, 105] := by
  decide +kernel

end BB.Props.C10
