/-
  BB.Props.C17 — the command line writes exactly the assembled program, or nothing on failure.

  Model: BB.Cli (`plan` = steps 1-4 of cli_main: input check, -i directories, --hex-offset parse,
  assemble; `writeOutputs` = steps 5-7: labels file, binary, Intel HEX through `hexEncode`, in that
  order, each write final).  `intelhex.bin2hex` is a parameter; what is assumed of it is stated as the
  hypothesis `HexOk` (for offsets Intel HEX can hold it writes a file that the specification decoder
  `Hex.decode` reads back as the bytes at that offset) — never as an axiom.

  SCOPE of the failure clause.  "Nothing on failure" is claimed for the failures raised by the
  passes of the assembler and by the option checks (steps 1-4b) — every one of them happens before
  the first `open(…, 'w')` — NOT for a write the operating system refuses (`ExitStatus.osError`):
  cli_main writes the -l file, then the -o file, then the .hex file, and an OSError at a later write
  leaves the earlier files written (`os_failure_after_labels_written`: `-l l.txt -o /nodir/out.bin`
  exits 1 with l.txt overwritten; `os_failure_prefix` says exactly what such a run has written).
  The theorems `cli_failure_untouched*` therefore carry the hypothesis `¬ status.osFailure`, and
  `CliFailureUntouched` without it is refuted (`not_cliFailureUntouched`).

  BYTES.  The model's bytes are natural numbers and nothing in `FS` bounds them: `include_bytes`
  copies the bytes of a file into the output, so `r.bytes` contains values ≥ 256 exactly when an
  included binary file of the MODEL filesystem does (audit/front/A5_c17.lean).  `HexOk` can only
  speak about lists of bytes (< 256), so `cli_failure_untouched'`, `cli_failure_untouched_range` and
  `cli_success_hex_decodes` ask the caller for `∀ b ∈ r.bytes, b < 256` (`hbytes` / `hb` /
  `OffsetInRange`).  For a filesystem that came from real files (every content a list of values
  < 256) the hypothesis holds — encoders, packs, strings and sequences produce bytes — but that
  is not proved here; the caller supplies it for the run at hand (by evaluation, as the examples do).
-/
import BB.Cli
import BB.Lemmas.HexRound
namespace BB.Props.C17
open BB BB.Cli

/-! ### the filesystem after a write -/

theorem lookup_filter_ne (p q : String) (h : q ≠ p) :
    ∀ (l : List (String × List Nat)), List.lookup q (l.filter (fun e => e.1 != p)) = List.lookup q l
  | [] => rfl
  | (k, v) :: l => by
    by_cases hk : k = p
    · subst hk
      have hq : (q == k) = false := by simpa using h
      simp [List.filter, List.lookup, hq, lookup_filter_ne k q h l]
    · have : (k != p) = true := by simpa using hk
      simp only [List.filter, this]
      by_cases hqk : q = k
      · subst hqk; simp [List.lookup]
      · have hq : (q == k) = false := by simpa using hqk
        simp [List.lookup, hq, lookup_filter_ne p q h l]

theorem read_write_same (fs : FS) (p : String) (bs : List Nat) :
    (FS.write fs p bs).readBytes p = some bs := by
  simp [FS.write, FS.readBytes]

theorem read_write_other (fs : FS) (p q : String) (bs : List Nat) (h : q ≠ p) :
    (FS.write fs p bs).readBytes q = fs.readBytes q := by
  have hq : (q == p) = false := by simpa using h
  simp only [FS.write, FS.readBytes, List.lookup, hq]
  exact lookup_filter_ne p q h fs.files

theorem canWrite_write (fs : FS) (p q : String) (bs : List Nat) :
    FS.canWrite (FS.write fs p bs) q = FS.canWrite fs q := rfl

/-! ### failure leaves the filesystem untouched -/

/-- a run that ends before step 5 changes nothing (missing input, invalid -i directory, invalid
    --hex-offset, any failure of assemble) -/
theorem plan_error_untouched (henc : HexEnc) (fs : FS) (cwd : String) (a : Args) (e : ExitStatus)
    (h : plan fs cwd a = .error e) : run henc fs cwd a = (e, fs) := by
  unfold run; rw [h]

theorem writeOutputs_failed (henc : HexEnc) (fs : FS) (cwd : String) (a : Args) (offset : Option Int)
    (r : AsmResult) (h : (writeOutputs henc fs cwd a offset r).1.failed)
    (hos : ¬ (writeOutputs henc fs cwd a offset r).1.osFailure) :
    (writeOutputs henc fs cwd a offset r).2 = fs ∨
      ∃ off part, offset = some off ∧ henc off r.bytes = .error part := by
  generalize hres : writeOutputs henc fs cwd a offset r = res at h hos ⊢
  unfold writeOutputs at hres
  dsimp only at hres
  repeat' split at hres
  all_goals subst hres
  all_goals first
    | (left; rfl)
    | (exfalso; simp [ExitStatus.failed] at h; done)
    | (exfalso; simp [ExitStatus.osFailure] at hos; done)
    | (right; exact ⟨_, _, rfl, by assumption⟩)

/-- a failing run that is not an operating-system write failure can have changed the filesystem in
    one way only: `bin2hex` raising in step 7 -/
theorem cli_failure_untouched_hex (henc : HexEnc) (fs : FS) (cwd : String) (a : Args)
    (h : (run henc fs cwd a).1.failed) (hos : ¬ (run henc fs cwd a).1.osFailure) :
    (run henc fs cwd a).2 = fs ∨
      ∃ off r part, plan fs cwd a = .ok (some off, r) ∧ henc off r.bytes = .error part := by
  unfold run at h hos ⊢
  cases hp : plan fs cwd a with
  | error e => left; rfl
  | ok res =>
    obtain ⟨offset, r⟩ := res
    rw [hp] at h hos
    simp only at h hos ⊢
    rcases writeOutputs_failed henc fs cwd a offset r h hos with h' | ⟨off, part, ho, he⟩
    · left; exact h'
    · right; subst ho; exact ⟨off, r, part, rfl, he⟩

/-- C17, failure clause: exit status non-zero, NOT because the operating system refused a write
    (`hos`; see the file header and `os_failure_after_labels_written`) ⇒ the filesystem is unchanged,
    provided `bin2hex` does not raise on the call this run makes (see `HexOk` /
    `cli_failure_untouched'` for when that is guaranteed).  Every failure of the assembler's passes
    and of the option checks is covered: they all end the run in `plan` (`plan_error_untouched`,
    `assembler_failure_untouched`). -/
theorem cli_failure_untouched (henc : HexEnc) (fs : FS) (cwd : String) (a : Args)
    (hh : ∀ off r part, plan fs cwd a = .ok (some off, r) → henc off r.bytes ≠ .error part)
    (h : (run henc fs cwd a).1.failed) (hos : ¬ (run henc fs cwd a).1.osFailure) :
    (run henc fs cwd a).2 = fs := by
  rcases cli_failure_untouched_hex henc fs cwd a h hos with h | ⟨off, r, part, hp, he⟩
  · exact h
  · exact absurd he (hh off r part hp)

/-- the property's own quantifier, "failures raised from every pass of the assembler": whenever
    `assemble()` fails (AssemblerError or an escaping exception; any pass, either mode) on a run that
    reaches it, the exit status is 1 and no file is touched — unconditionally (no assumption on
    bin2hex, no OS proviso: nothing has been opened for writing yet) -/
theorem assembler_failure_untouched (henc : HexEnc) (fs : FS) (cwd : String) (a : Args) (inp : String)
    (dirs : List String) (off : Option Int) (e : Err)
    (hcwd : normAbs cwd = true) (hinp : absPath cwd a.input = some inp) (hex : fs.exists inp = true)
    (hnd : fs.isDir inp = false) (hdirs : absDirs fs cwd a.includeDirs = .ok dirs)
    (hoff : parseOffset a.hexOffset = .ok off)
    (hasm : assembleText fs cwd (dirs ++ a.definitionsDir.toList) a.compress (.path inp) = .error e)
    (hsup : ∀ w, e ≠ .unsupported w) :
    run henc fs cwd a = (.code 1, fs) := by
  have hp : plan fs cwd a = .error (.code 1) := by
    unfold plan
    cases e with
    | unsupported w => exact absurd rfl (hsup w)
    | asm l => simp [hcwd, hinp, hex, hnd, hdirs, hoff, hasm]
    | internal s => simp [hcwd, hinp, hex, hnd, hdirs, hoff, hasm]
  exact plan_error_untouched henc fs cwd a _ hp

/-- what is assumed of `intelhex.bin2hex`: for an offset Intel HEX can hold it does not raise,
    and the file it writes decodes, under the specification decoder, to the bytes at that offset -/
def HexOk (henc : HexEnc) : Prop :=
  ∀ (off : Int) (bs : List Nat), (∀ b ∈ bs, b < 256) → 0 ≤ off → off + bs.length ≤ 4294967296 →
    ∃ h, henc off bs = .ok h ∧ Hex.decode (h.map Char.ofNat) = some (Hex.image off.toNat bs)

/-- the offset of this run, if one was requested, can be held by Intel HEX -/
def OffsetInRange (fs : FS) (cwd : String) (a : Args) : Prop :=
  ∀ off r, plan fs cwd a = .ok (some off, r) →
    (∀ b ∈ r.bytes, b < 256) ∧ 0 ≤ off ∧ off + r.bytes.length ≤ 4294967296

theorem cli_failure_untouched' (henc : HexEnc) (hok : HexOk henc) (fs : FS) (cwd : String) (a : Args)
    (hr : OffsetInRange fs cwd a) (h : (run henc fs cwd a).1.failed)
    (hos : ¬ (run henc fs cwd a).1.osFailure) : (run henc fs cwd a).2 = fs := by
  apply cli_failure_untouched henc fs cwd a _ h hos
  intro off r part hp he
  obtain ⟨hb, h0, h1⟩ := hr off r hp
  obtain ⟨hx, hx1, _⟩ := hok off r.bytes hb h0 h1
  rw [hx1] at he
  cases he

/-- the statement without any side condition: EVERY run with a non-zero exit status leaves the
    filesystem unchanged.  It is FALSE, whatever bin2hex does (`not_cliFailureUntouched`): a write
    the operating system refuses ends the run after the earlier writes. -/
def CliFailureUntouched (henc : HexEnc) : Prop :=
  ∀ fs cwd a, (run henc fs cwd a).1.failed → (run henc fs cwd a).2 = fs

/-! ### success: the three files -/

/-- the -l file name, if one is to be written (`if args.labels:` - the empty string counts as absent) -/
def wantLabels (a : Args) : Option String :=
  match a.labels with
  | none => none
  | some l => if l = "" then none else some l

/-- steps 6-7 once the -o path is known to be writable -/
def finish (henc : HexEnc) (fs1 : FS) (op : String) (off : Option Int) (r : AsmResult) : ExitStatus × FS :=
  match off with
  | none => (.code 0, FS.write fs1 op r.bytes)
  | some o =>
    match henc o r.bytes with
    | .ok h => (.code 0, FS.write (FS.write fs1 op r.bytes) (op ++ ".hex") h)
    | .error part => (.code 1, FS.write (FS.write fs1 op r.bytes) (op ++ ".hex") part)

/-- steps 5-7 when every path is writable: the labels file is written first (if requested), then
    `finish` -/
theorem writeOutputs_eq_finish (henc : HexEnc) (fs : FS) (cwd : String) (a : Args)
    (off : Option Int) (r : AsmResult) (op : String)
    (hout : absPath cwd a.output = some op) (hwo : FS.canWrite fs op = true)
    (hlab : ∀ l, wantLabels a = some l → ∃ lp t, absPath cwd l = some lp ∧ labelText r.labels = some t ∧
        FS.canWrite fs lp = true ∧ lp ≠ op ∧ lp ≠ op ++ ".hex")
    (hhex : ∀ o, off = some o → FS.canWrite fs (op ++ ".hex") = true) :
    ∃ fs1, (∀ q, (∀ l, wantLabels a = some l → absPath cwd l ≠ some q) → fs1.readBytes q = fs.readBytes q) ∧
      (∀ l lp t, wantLabels a = some l → absPath cwd l = some lp → labelText r.labels = some t →
        fs1.readBytes lp = some (textBytes t)) ∧
      (∀ q, FS.canWrite fs1 q = FS.canWrite fs q) ∧
      writeOutputs henc fs cwd a off r = finish henc fs1 op off r := by
  cases hl : a.labels with
  | none =>
    have hw : wantLabels a = none := by simp [wantLabels, hl]
    refine ⟨fs, fun _ _ => rfl, ?_, fun _ => rfl, ?_⟩
    · intro l lp t h; rw [hw] at h; cases h
    · unfold writeOutputs finish
      simp only [hl, hout, hwo, Bool.not_true, Bool.false_eq_true, if_false]
      cases off with
      | none => rfl
      | some o =>
        have hwh := hhex o rfl
        simp only [canWrite_write, hwh, Bool.not_true, Bool.false_eq_true, if_false]
        rfl
  | some l =>
    by_cases hle : l = ""
    · have hw : wantLabels a = none := by simp [wantLabels, hl, hle]
      refine ⟨fs, fun _ _ => rfl, ?_, fun _ => rfl, ?_⟩
      · intro l lp t h; rw [hw] at h; cases h
      · unfold writeOutputs finish
        simp only [hl, hle, if_true, hout, hwo, Bool.not_true, Bool.false_eq_true, if_false]
        cases off with
        | none => rfl
        | some o =>
          have hwh := hhex o rfl
          simp only [canWrite_write, hwh, Bool.not_true, Bool.false_eq_true, if_false]
          rfl
    · have hw : wantLabels a = some l := by simp [wantLabels, hl, hle]
      obtain ⟨lp, t, hlp, ht, hwl, hlo, hlh⟩ := hlab l hw
      refine ⟨FS.write fs lp (textBytes t), ?_, ?_, fun _ => rfl, ?_⟩
      · intro q hq
        exact read_write_other _ _ _ _ (fun h => hq l hw (by rw [h, hlp]))
      · intro l' lp' t' h1 h2 h3
        rw [hw] at h1; cases h1; rw [hlp] at h2; cases h2; rw [ht] at h3; cases h3
        exact read_write_same _ _ _
      · unfold writeOutputs finish
        simp only [hl, if_neg hle, hlp, ht, hwl, if_true, hout, canWrite_write, hwo, Bool.not_true,
          Bool.false_eq_true, if_false]
        cases off with
        | none => rfl
        | some o =>
          have hwh := hhex o rfl
          simp only [hwh, Bool.not_true, Bool.false_eq_true, if_false]
          rfl

/-- C17, success clause.  When steps 1-4 succeed with the program `r` (and the parsed offset
    `off`), the paths are writable and distinct, and `bin2hex` does not raise: exit status 0, the -o
    file holds exactly `r.bytes`, the -l file exactly the label lines, the .hex file exactly what
    `bin2hex` produced, and every other path is unchanged. -/
theorem cli_success_files (henc : HexEnc) (fs : FS) (cwd : String) (a : Args)
    (off : Option Int) (r : AsmResult) (op : String)
    (hplan : plan fs cwd a = .ok (off, r))
    (hout : absPath cwd a.output = some op) (hwo : FS.canWrite fs op = true)
    (hlab : ∀ l, wantLabels a = some l → ∃ lp t, absPath cwd l = some lp ∧ labelText r.labels = some t ∧
        FS.canWrite fs lp = true ∧ lp ≠ op ∧ lp ≠ op ++ ".hex")
    (hhex : ∀ o, off = some o → FS.canWrite fs (op ++ ".hex") = true ∧ ∃ h, henc o r.bytes = .ok h) :
    (run henc fs cwd a).1 = .code 0 ∧
    (run henc fs cwd a).2.readBytes op = some r.bytes ∧
    (∀ l lp t, wantLabels a = some l → absPath cwd l = some lp → labelText r.labels = some t →
        (run henc fs cwd a).2.readBytes lp = some (textBytes t)) ∧
    (∀ o h, off = some o → henc o r.bytes = .ok h →
        (run henc fs cwd a).2.readBytes (op ++ ".hex") = some h) ∧
    (off = none → (run henc fs cwd a).2.readBytes (op ++ ".hex") = fs.readBytes (op ++ ".hex") ∨
        (∃ l, wantLabels a = some l ∧ absPath cwd l = some (op ++ ".hex"))) ∧
    (∀ q, q ≠ op → q ≠ op ++ ".hex" → (∀ l, wantLabels a = some l → absPath cwd l ≠ some q) →
        (run henc fs cwd a).2.readBytes q = fs.readBytes q) := by
  have hne : op ++ ".hex" ≠ op := by
    intro h
    have := congrArg String.length h
    simp [String.length_append] at this
  obtain ⟨fs1, hkeep, hlabv, _, hrun1⟩ :=
    writeOutputs_eq_finish henc fs cwd a off r op hout hwo hlab (fun o ho => (hhex o ho).1)
  have hrun : run henc fs cwd a = finish henc fs1 op off r := by
    unfold run; rw [hplan]; exact hrun1
  -- a labels path differs from the -o path and the .hex path
  have hlab_ne : ∀ l lp, wantLabels a = some l → absPath cwd l = some lp → lp ≠ op ∧ lp ≠ op ++ ".hex" := by
    intro l lp h1 h2
    obtain ⟨lp', t, hlp, _, _, hlo, hlh⟩ := hlab l h1
    rw [hlp] at h2; cases h2; exact ⟨hlo, hlh⟩
  rw [hrun]
  unfold finish
  cases off with
  | none =>
    simp only
    refine ⟨trivial, read_write_same _ _ _, ?_, ?_, ?_, ?_⟩
    · intro l lp t h1 h2 h3
      rw [read_write_other _ _ _ _ (hlab_ne l lp h1 h2).1]
      exact hlabv l lp t h1 h2 h3
    · intro o h ho; cases ho
    · intro _
      by_cases hx : ∃ l, wantLabels a = some l ∧ absPath cwd l = some (op ++ ".hex")
      · right; exact hx
      · left
        rw [read_write_other _ _ _ _ hne]
        exact hkeep _ (fun l hl h => hx ⟨l, hl, h⟩)
    · intro q h1 _ h3
      rw [read_write_other _ _ _ _ h1]
      exact hkeep q h3
  | some o =>
    obtain ⟨_, h, hh⟩ := hhex o rfl
    simp only [hh]
    refine ⟨trivial, ?_, ?_, ?_, ?_, ?_⟩
    · rw [read_write_other _ _ _ _ hne.symm]; exact read_write_same _ _ _
    · intro l lp t h1 h2 h3
      rw [read_write_other _ _ _ _ (hlab_ne l lp h1 h2).2, read_write_other _ _ _ _ (hlab_ne l lp h1 h2).1]
      exact hlabv l lp t h1 h2 h3
    · intro o' h' ho hh'; cases ho; rw [hh] at hh'; cases hh'; exact read_write_same _ _ _
    · intro ho; cases ho
    · intro q h1 h2 h3
      rw [read_write_other _ _ _ _ h2, read_write_other _ _ _ _ h1]
      exact hkeep q h3

/-- … and under `HexOk`, for an offset in range, the .hex file decodes (specification decoder) to
    exactly the assembled bytes placed at the offset -/
theorem cli_success_hex_decodes (henc : HexEnc) (hok : HexOk henc) (fs : FS) (cwd : String) (a : Args)
    (o : Int) (r : AsmResult) (op : String)
    (hplan : plan fs cwd a = .ok (some o, r))
    (hout : absPath cwd a.output = some op) (hwo : FS.canWrite fs op = true)
    (hwh : FS.canWrite fs (op ++ ".hex") = true)
    (hlab : ∀ l, wantLabels a = some l → ∃ lp t, absPath cwd l = some lp ∧ labelText r.labels = some t ∧
        FS.canWrite fs lp = true ∧ lp ≠ op ∧ lp ≠ op ++ ".hex")
    (hb : ∀ b ∈ r.bytes, b < 256) (h0 : 0 ≤ o) (h1 : o + r.bytes.length ≤ 4294967296) :
    (run henc fs cwd a).1 = .code 0 ∧
    ∃ hx, (run henc fs cwd a).2.readBytes (op ++ ".hex") = some hx ∧
      Hex.decode (hx.map Char.ofNat) = some (Hex.image o.toNat r.bytes) := by
  obtain ⟨hx, hx1, hx2⟩ := hok o r.bytes hb h0 h1
  have := cli_success_files henc fs cwd a (some o) r op hplan hout hwo hlab
    (fun o' ho => by cases ho; exact ⟨hwh, hx, hx1⟩)
  exact ⟨this.1, hx, this.2.2.2.1 o hx rfl hx1, hx2⟩

/-- the steps before the first write, spelled out: `plan` succeeds exactly when the options are
    valid and `assembleText` succeeds -/
theorem plan_ok_of (fs : FS) (cwd : String) (a : Args) (inp : String) (dirs : List String)
    (off : Option Int) (r : AsmResult)
    (hcwd : normAbs cwd = true) (hinp : absPath cwd a.input = some inp) (hex : fs.exists inp = true)
    (hnd : fs.isDir inp = false) (hdirs : absDirs fs cwd a.includeDirs = .ok dirs)
    (hoff : parseOffset a.hexOffset = .ok off)
    (hasm : assembleText fs cwd (dirs ++ a.definitionsDir.toList) a.compress (.path inp) = .ok r)
    (hfit : offsetFits off r.bytes.length = true) :
    plan fs cwd a = .ok (off, r) := by
  unfold plan
  simp [hcwd, hinp, hex, hnd, hdirs, hoff, hasm, hfit]

theorem absDirs_error_ne0 (fs : FS) (cwd : String) (l : List String) (e : ExitStatus)
    (h : absDirs fs cwd l = .error e) : e ≠ .code 0 := by
  induction l with
  | nil => simp [absDirs] at h
  | cons d rest ih =>
    unfold absDirs at h
    repeat' split at h
    all_goals first
      | ((cases h <;> simp); done)
      | (cases h; exact ih (by assumption))

theorem parseOffset_error_ne0 (o : Option String) (e : ExitStatus)
    (h : parseOffset o = .error e) : e ≠ .code 0 := by
  unfold parseOffset at h
  repeat' split at h
  all_goals (cases h <;> simp)

/-- steps 1-4 never end the run with exit status 0 -/
theorem plan_error_ne0 (fs : FS) (cwd : String) (a : Args) (e : ExitStatus)
    (h : plan fs cwd a = .error e) : e ≠ .code 0 := by
  unfold plan at h
  dsimp only at h
  repeat' split at h
  all_goals first
    | ((cases h <;> simp); done)
    | (cases h; exact absDirs_error_ne0 _ _ _ _ (by assumption))
    | (cases h; exact parseOffset_error_ne0 _ _ (by assumption))

/-- an invalid --hex-offset ends the run in step 3 at the latest: before `assemble`, before any
    write, with a non-zero status (or outside the model) -/
theorem bad_offset_exits (henc : HexEnc) (fs : FS) (cwd : String) (a : Args) (s : String)
    (hs : a.hexOffset = some s) (hne : s ≠ "") (hascii : s.toList.all (fun c => c.toNat < 128) = true)
    (hbad : pyInt0 s.toList = none) :
    (run henc fs cwd a).2 = fs ∧ (run henc fs cwd a).1 ≠ .code 0 := by
  have hp : parseOffset a.hexOffset = .error (.code 1) := by
    simp [parseOffset, hs, hne, hascii, hbad]
  cases hpl : plan fs cwd a with
  | error e =>
    rw [plan_error_untouched henc fs cwd a e hpl]
    exact ⟨rfl, plan_error_ne0 fs cwd a e hpl⟩
  | ok res =>
    exfalso
    unfold plan at hpl
    rw [hp] at hpl
    dsimp only at hpl
    repeat' split at hpl
    all_goals cases hpl

/-! ### Intel HEX: the specification decoder inverts an encoder, so `HexOk` is satisfiable -/

/-- `Hex.decode (Hex.encode off bs) = some (off, bs)` as address/byte pairs: for every offset and
    byte string that fit in 32 bits, the specification decoder reads back an Intel HEX file written
    with 16-byte data records and extended-linear-address records (the layout intelhex uses) -/
theorem hex_roundtrip (offset : Nat) (bytes : List Nat)
    (hb : ∀ b ∈ bytes, b < 256) (hr : offset + bytes.length ≤ 4294967296) :
    Hex.decode (Hex.encode offset bytes) = some (Hex.image offset bytes) :=
  Hex.hex_roundtrip offset bytes hb hr

theorem map_ofNat_toNat (l : List Char) : (l.map Char.toNat).map Char.ofNat = l := by
  induction l with
  | nil => rfl
  | cons c l ih => simp only [List.map_cons, ih, Char.ofNat_toNat]

/-- the assumption made about `bin2hex` is satisfiable: this encoder meets it -/
theorem hexOk_encode :
    HexOk (fun off bs => .ok ((Hex.encode off.toNat bs).map Char.toNat)) := by
  intro off bs hb h0 h1
  refine ⟨_, rfl, ?_⟩
  rw [map_ofNat_toNat]
  apply Hex.hex_roundtrip _ _ hb
  omega

/-! ### the label lines -/

/-- one line per label, in table order -/
theorem labelText_lines (d : Dict) (h : ∀ kv ∈ d, 0 ≤ kv.2) :
    labelText d = some (d.flatMap (fun kv => labelLine kv.1 kv.2.toNat)) := by
  induction d with
  | nil => rfl
  | cons kv rest ih =>
    obtain ⟨k, v⟩ := kv
    have hv : ¬ v < 0 := by have := h (k, v) (by simp); simp at this; omega
    unfold labelText
    rw [if_neg hv, ih (fun kv hkv => h kv (by simp [hkv]))]
    simp

/-- `0x%08x`: at least eight digits -/
theorem fmt08x_length (v : Nat) : 8 ≤ (fmt08x v).length := by
  unfold fmt08x
  simp only [List.length_append, List.length_replicate]
  omega

example : labelLine "main" 0x08000010 = "main 0x08000010\n".toList := by decide
example : labelLine "far" 0x123456789 = "far 0x123456789\n".toList := by decide
example : labelText [("a", 0), ("b", 4)] = some "a 0x00000000\nb 0x00000004\n".toList := by decide
example : labelText [("a", -1)] = none := by decide

/-! ### non-vacuity: a concrete filesystem on which the hypotheses of the theorems hold -/

/-- /w/m.asm is an (empty) program; /w/out.bin, /w/l.txt and /w/out.bin.hex hold older contents -/
def exFS : FS :=
  { files := [("/w/m.asm", []), ("/w/out.bin", [1, 2, 3]), ("/w/l.txt", [4]), ("/w/out.bin.hex", [5])],
    dirs := ["/", "/w"] }

theorem ex_abs_main : normAbs "/w/m.asm" = true := by
  have h : ("/w/m.asm".splitOn "/") = ["", "w", "m.asm"] := by
    simp [String.splitOn]
    repeat (rw [String.splitOnAux.eq_1]; simp (decide := true))
  unfold normAbs; simp only [h]; decide

theorem ex_abs_w : normAbs "/w" = true := by
  have h : ("/w".splitOn "/") = ["", "w"] := by
    simp [String.splitOn]
    repeat (rw [String.splitOnAux.eq_1]; simp (decide := true))
  unfold normAbs; simp only [h]; decide

theorem ex_abs_out : normAbs "/w/out.bin" = true := by
  have h : ("/w/out.bin".splitOn "/") = ["", "w", "out.bin"] := by
    simp [String.splitOn]
    repeat (rw [String.splitOnAux.eq_1]; simp (decide := true))
  unfold normAbs; simp only [h]; decide

theorem ex_abs_lab : normAbs "/w/l.txt" = true := by
  have h : ("/w/l.txt".splitOn "/") = ["", "w", "l.txt"] := by
    simp [String.splitOn]
    repeat (rw [String.splitOnAux.eq_1]; simp (decide := true))
  unfold normAbs; simp only [h]; decide

theorem ex_dirname_out : pathDirname "/w/out.bin" = "/w" := by decide

theorem ex_dirname_hex : pathDirname "/w/out.bin.hex" = "/w" := by decide

theorem ex_dirname_lab : pathDirname "/w/l.txt" = "/w" := by decide

theorem ex_assembles : assembleText exFS "/w" [] false (.path "/w/m.asm") = .ok ⟨[], [], []⟩ := by
  unfold assembleText frontEnd
  have hm : absOk "/w/m.asm" = true := by decide
  simp only [hm, ex_abs_w, List.all_nil]
  have hr : exFS.readAt "/w/m.asm" = some [] := by decide
  have ht : bytesToText [] = some [] := by decide
  simp only [hr, ht, readLinesAux.eq_2, splitLines, splitLinesAux, List.isEmpty_nil, if_true,
    readLinesAux.go.eq_1]
  rfl

def exArgs (hex : Option String) : Args :=
  { input := "/w/m.asm", output := "/w/out.bin", labels := some "/w/l.txt", hexOffset := hex }

/-- steps 1-4 succeed on the example with `--hex-offset 0x08000000` -/
theorem ex_plan : plan exFS "/w" (exArgs (some "0x08000000")) = .ok (some 134217728, ⟨[], [], []⟩) :=
  plan_ok_of exFS "/w" _ "/w/m.asm" [] (some 134217728) ⟨[], [], []⟩ ex_abs_w
    (by simp [absPath, exArgs, ex_abs_main]) (by decide) (by decide) (by rfl) (by decide)
    (by simpa [exArgs] using ex_assembles) (by decide)

/-- … so `cli_success_files` applies (its hypotheses are satisfiable): exit 0, the three files hold
    the binary, the label lines and what bin2hex produced -/
example (henc : HexEnc) (h : List Nat) (hh : henc 134217728 [] = .ok h) :
    (run henc exFS "/w" (exArgs (some "0x08000000"))).1 = .code 0 ∧
    (run henc exFS "/w" (exArgs (some "0x08000000"))).2.readBytes "/w/out.bin" = some [] ∧
    (run henc exFS "/w" (exArgs (some "0x08000000"))).2.readBytes "/w/l.txt" = some (textBytes []) ∧
    (run henc exFS "/w" (exArgs (some "0x08000000"))).2.readBytes "/w/out.bin.hex" = some h ∧
    (run henc exFS "/w" (exArgs (some "0x08000000"))).2.readBytes "/w/m.asm" = some [] := by
  have hcw : ∀ q, pathDirname q = "/w" → exFS.isDir q = false → FS.canWrite exFS q = true := by
    intro q h1 h2; simp [FS.canWrite, h1, h2]; decide
  have hout : absPath "/w" (exArgs (some "0x08000000")).output = some "/w/out.bin" := by
    simp [absPath, exArgs, ex_abs_out]
  have hlabp : absPath "/w" "/w/l.txt" = some "/w/l.txt" := by simp [absPath, ex_abs_lab]
  have key := cli_success_files henc exFS "/w" (exArgs (some "0x08000000")) (some 134217728) ⟨[], [], []⟩
    "/w/out.bin" ex_plan hout (hcw _ ex_dirname_out (by decide))
    (by
      intro l hl
      have : l = "/w/l.txt" := by simp [wantLabels, exArgs] at hl; exact hl.symm
      subst this
      exact ⟨"/w/l.txt", [], hlabp, rfl, hcw _ ex_dirname_lab (by decide), by decide, by decide⟩)
    (by
      intro o ho
      cases ho
      exact ⟨hcw _ ex_dirname_hex (by decide), h, hh⟩)
  refine ⟨key.1, key.2.1, ?_, key.2.2.2.1 _ h rfl hh, ?_⟩
  · exact key.2.2.1 "/w/l.txt" "/w/l.txt" [] (by simp [wantLabels, exArgs]) hlabp rfl
  · have := key.2.2.2.2.2 "/w/m.asm" (by decide) (by decide)
      (by
        intro l hl
        have : l = "/w/l.txt" := by simp [wantLabels, exArgs] at hl; exact hl.symm
        subst this
        rw [hlabp]; decide)
    rw [this]; decide

/-- an invalid offset: nothing is written, the status is not 0 -/
example (henc : HexEnc) :
    (run henc exFS "/w" (exArgs (some "zz"))).2 = exFS ∧ (run henc exFS "/w" (exArgs (some "zz"))).1 ≠ .code 0 :=
  bad_offset_exits henc exFS "/w" _ "zz" rfl (by decide) (by decide) (by decide)

example : parseOffset (some "0x08000000") = .ok (some 134217728) := by decide
example : parseOffset (some "1.5") = .error (.code 1) := by decide
example : parseOffset (some "0x") = .error (.code 1) := by decide
example : parseOffset (some "") = .ok none := by decide

/-- step 4b (fix 9cf2d5e): a run that gets as far as writing has an offset Intel HEX can hold -/
theorem plan_offset_in_range (fs : FS) (cwd : String) (a : Args) (off : Int) (r : AsmResult)
    (h : plan fs cwd a = .ok (some off, r)) : 0 ≤ off ∧ off + r.bytes.length ≤ 4294967296 := by
  unfold plan at h
  dsimp only at h
  repeat' split at h
  all_goals first
    | (cases h; done)
    | (simp only [Except.ok.injEq, Prod.mk.injEq] at h
       obtain ⟨h1, h2⟩ := h
       subst h1 h2
       rename_i hfit
       simp [offsetFits] at hfit
       exact hfit)

/-- an offset that parses but that Intel HEX cannot hold ends the run after assembling and before
    any write, with status 1 -/
theorem out_of_range_offset_exits (henc : HexEnc) (fs : FS) (cwd : String) (a : Args) (inp : String)
    (dirs : List String) (off : Int) (r : AsmResult)
    (hcwd : normAbs cwd = true) (hinp : absPath cwd a.input = some inp) (hex : fs.exists inp = true)
    (hnd : fs.isDir inp = false) (hdirs : absDirs fs cwd a.includeDirs = .ok dirs)
    (hoff : parseOffset a.hexOffset = .ok (some off))
    (hasm : assembleText fs cwd (dirs ++ a.definitionsDir.toList) a.compress (.path inp) = .ok r)
    (hbad : off < 0 ∨ 4294967296 < off + r.bytes.length) :
    run henc fs cwd a = (.code 1, fs) := by
  have hfit : offsetFits (some off) r.bytes.length = false := by
    simp only [offsetFits, Bool.and_eq_false_iff, decide_eq_false_iff_not]
    rcases hbad with h | h
    · left; omega
    · right; omega
  have hp : plan fs cwd a = .error (.code 1) := by
    unfold plan
    simp [hcwd, hinp, hex, hnd, hdirs, hoff, hasm, hfit]
  exact plan_error_untouched henc fs cwd a _ hp

/-- **C17, failure clause, with no side condition on the offset**: whenever the exit status is not 0,
    and not because the operating system refused a write (`hos`), the filesystem is unchanged — under
    the stated assumption on bin2hex (`HexOk`: it does not raise for images Intel HEX can hold).
    `hbytes` is the caller's: the assembled output of THIS run, if steps 1-4 succeed, consists of
    bytes (< 256).  It is needed because `HexOk` speaks about byte lists only while the model's
    filesystem may hold larger numbers, which `include_bytes` would copy into the output (file
    header, BYTES); it holds for every filesystem whose file contents are bytes. -/
theorem cli_failure_untouched_range (henc : HexEnc) (hok : HexOk henc) (fs : FS) (cwd : String) (a : Args)
    (hbytes : ∀ off r, plan fs cwd a = .ok (off, r) → ∀ b ∈ r.bytes, b < 256)
    (h : (run henc fs cwd a).1.failed) (hos : ¬ (run henc fs cwd a).1.osFailure) :
    (run henc fs cwd a).2 = fs := by
  apply cli_failure_untouched' henc hok fs cwd a _ h hos
  intro off r hp
  obtain ⟨h0, h1⟩ := plan_offset_in_range fs cwd a off r hp
  exact ⟨hbytes _ _ hp, h0, h1⟩

/-- the former counterexample (offset 0x100000001, encoder raising beyond 2^32) now ends with status 1
    and an untouched filesystem -/
example (henc : HexEnc) : run henc exFS "/w" (exArgs (some "0x100000001")) = (.code 1, exFS) :=
  out_of_range_offset_exits henc exFS "/w" _ "/w/m.asm" [] 4294967297 ⟨[], [], []⟩ ex_abs_w
    (by simp [absPath, exArgs, ex_abs_main]) (by decide) (by decide) (by rfl) (by decide)
    (by simpa [exArgs] using ex_assembles) (by right; decide)

/-! ### writes the operating system refuses: what stays written -/

/-- the filesystem after step 5 (the -l file written, if one was requested) -/
def labelsWritten (fs : FS) (cwd : String) (a : Args) (r : AsmResult) : FS :=
  match wantLabels a with
  | none => fs
  | some l =>
    match absPath cwd l, labelText r.labels with
    | some lp, some t => FS.write fs lp (textBytes t)
    | _, _ => fs

/-- step 5 on its own (the first `let` of `writeOutputs`) -/
def labelsStep (fs : FS) (cwd : String) (a : Args) (r : AsmResult) : Except ExitStatus FS :=
  match a.labels with
  | none => .ok fs
  | some l =>
    if l = "" then .ok fs else
    match absPath cwd l, labelText r.labels with
    | some lp, some t => if FS.canWrite fs lp then .ok (FS.write fs lp (textBytes t)) else .error (.osError 1 "labels file")
    | none, _ => .error (.unsupported "labels path form")
    | _, none => .error (.unsupported "negative label value")

theorem labelsStep_ok (fs : FS) (cwd : String) (a : Args) (r : AsmResult) (fs1 : FS)
    (h : labelsStep fs cwd a r = .ok fs1) : fs1 = labelsWritten fs cwd a r := by
  unfold labelsStep at h
  repeat' split at h
  all_goals first
    | (cases h; done)
    | (cases h; simp_all [labelsWritten, wantLabels]; done)

theorem labelsStep_error (fs : FS) (cwd : String) (a : Args) (r : AsmResult) (e : ExitStatus)
    (h : labelsStep fs cwd a r = .error e) : e = .osError 1 "labels file" ∨ ∃ w, e = .unsupported w := by
  unfold labelsStep at h
  repeat' split at h
  all_goals first
    | (cases h; done)
    | (cases h; left; rfl)
    | (cases h; right; exact ⟨_, rfl⟩)

/-- steps 1-4 end a run with an ordinary exit status (or outside the model), never `osError` -/
theorem plan_error_not_os (fs : FS) (cwd : String) (a : Args) (e : ExitStatus)
    (h : plan fs cwd a = .error e) : ¬ e.osFailure := by
  have hd : ∀ l e, absDirs fs cwd l = .error e → ¬ e.osFailure := by
    intro l
    induction l with
    | nil => intro e hd; simp [absDirs] at hd
    | cons d rest ih =>
      intro e hd
      unfold absDirs at hd
      repeat' split at hd
      all_goals first
        | (cases hd; done)
        | (cases hd; simp [ExitStatus.osFailure]; done)
        | (cases hd; exact ih _ (by assumption))
  have ho : ∀ o e, parseOffset o = .error e → ¬ e.osFailure := by
    intro o e hq
    unfold parseOffset at hq
    repeat' split at hq
    all_goals first
      | (cases hq; done)
      | (cases hq; simp [ExitStatus.osFailure])
  unfold plan at h
  dsimp only at h
  repeat' split at h
  all_goals first
    | (cases h; done)
    | (cases h; simp [ExitStatus.osFailure]; done)
    | (cases h; exact hd _ _ (by assumption))
    | (cases h; exact ho _ _ (by assumption))

/-- **What a run that ends in an OS write failure has written**: steps 1-4 succeeded with a program
    `r`, and the files written are a prefix of (labels file, binary) with their final contents:
    * the -l file could not be opened: exit status 1, nothing written;
    * the -o file could not be opened: exit status 1, the -l file (if requested) WRITTEN;
    * the .hex file could not be opened (inside bin2hex, which swallows the error): exit status 0,
      the -l file and the binary written, no .hex file. -/
theorem os_failure_prefix (henc : HexEnc) (fs : FS) (cwd : String) (a : Args) (n : Nat) (w : String) (fs' : FS)
    (h : run henc fs cwd a = (.osError n w, fs')) :
    ∃ off r, plan fs cwd a = .ok (off, r) ∧
      ((n = 1 ∧ w = "labels file" ∧ fs' = fs) ∨
       (n = 1 ∧ w = "output file" ∧ fs' = labelsWritten fs cwd a r) ∨
       (n = 0 ∧ w = "hex file" ∧ ∃ op, absPath cwd a.output = some op ∧
          fs' = FS.write (labelsWritten fs cwd a r) op r.bytes)) := by
  unfold run at h
  cases hp : plan fs cwd a with
  | error e =>
    rw [hp] at h
    simp only [Prod.mk.injEq] at h
    exact absurd (by rw [h.1]; trivial) (plan_error_not_os fs cwd a e hp)
  | ok res =>
    obtain ⟨off, r⟩ := res
    refine ⟨off, r, rfl, ?_⟩
    rw [hp] at h
    simp only at h
    unfold writeOutputs at h
    dsimp only at h
    split at h
    · rename_i e hstep
      simp only [Prod.mk.injEq] at h
      obtain ⟨h1, h2⟩ := h
      subst h1 h2
      rcases labelsStep_error fs cwd a r _ hstep with he | ⟨w', he⟩
      · cases he; left; exact ⟨rfl, rfl, rfl⟩
      · cases he
    · rename_i fs1 hstep
      have hfs1 := labelsStep_ok fs cwd a r fs1 hstep
      subst hfs1
      repeat' split at h
      all_goals simp only [Prod.mk.injEq, ExitStatus.osError.injEq, reduceCtorEq, false_and] at h
      all_goals obtain ⟨⟨h1, h2⟩, h3⟩ := h
      all_goals subst h1 h2 h3
      · right; left; exact ⟨rfl, rfl, rfl⟩
      · right; right; exact ⟨rfl, rfl, _, by assumption, rfl⟩

/-- /w/m.asm = `start:` / `nop`; /w/l.txt holds older contents; /w/nodir does not exist -/
def osFS : FS :=
  { files := [("/w/m.asm", "start:\nnop\n".toList.map Char.toNat), ("/w/l.txt", [4])],
    dirs := ["/", "/w"] }

/-- `bronzebeard /w/m.asm -l /w/l.txt -o /w/nodir/out.bin` -/
def osArgs : Args := { input := "/w/m.asm", output := "/w/nodir/out.bin", labels := some "/w/l.txt" }

theorem os_assembles :
    assembleText osFS "/w" [] false (.path "/w/m.asm") = .ok ⟨[0x13, 0, 0, 0], [("start", 0)], []⟩ := by
  unfold assembleText frontEnd
  have hm : absOk "/w/m.asm" = true := by decide
  have hr : osFS.readAt "/w/m.asm" = some ("start:\nnop\n".toList.map Char.toNat) := by decide
  have ht : bytesToText ("start:\nnop\n".toList.map Char.toNat) = some "start:\nnop\n".toList := by decide
  have hs : splitLines "start:\nnop\n".toList = ["start:".toList, "nop".toList] := by decide
  simp only [hm, ex_abs_w, List.all_nil, hr, ht, readLinesAux.eq_2, hs]
  simp only [readLinesAux.go.eq_2, readLinesAux.go.eq_1]
  decide +kernel

theorem os_abs_out : normAbs "/w/nodir/out.bin" = true := by
  have h : ("/w/nodir/out.bin".splitOn "/") = ["", "w", "nodir", "out.bin"] := by
    simp [String.splitOn]
    repeat (rw [String.splitOnAux.eq_1]; simp (decide := true))
  unfold normAbs; simp only [h]; decide

theorem os_plan : plan osFS "/w" osArgs = .ok (none, ⟨[0x13, 0, 0, 0], [("start", 0)], []⟩) :=
  plan_ok_of osFS "/w" _ "/w/m.asm" [] none _ ex_abs_w
    (by simp [absPath, osArgs, ex_abs_main]) (by decide) (by decide) (by rfl) (by decide)
    (by simpa [osArgs] using os_assembles) (by decide)

/-- **The counterexample to "every failing run leaves the filesystem unchanged"** (review finding
    C17, reproduced on /repo): the program assembles, the -l file is written, then `open` of the -o
    path fails because its directory does not exist — exit status 1 (an uncaught
    FileNotFoundError), and /w/l.txt now holds `start 0x00000000` instead of its old contents.
    Whatever bin2hex does (no .hex file is requested). -/
theorem os_failure_after_labels_written (henc : HexEnc) :
    run henc osFS "/w" osArgs =
      (.osError 1 "output file", FS.write osFS "/w/l.txt" (textBytes "start 0x00000000\n".toList)) ∧
    (run henc osFS "/w" osArgs).1.failed ∧ (run henc osFS "/w" osArgs).1.osFailure ∧
    osFS.readBytes "/w/l.txt" = some [4] ∧
    (run henc osFS "/w" osArgs).2.readBytes "/w/l.txt" = some (textBytes "start 0x00000000\n".toList) ∧
    (run henc osFS "/w" osArgs).2 ≠ osFS := by
  have hlabp : absPath "/w" "/w/l.txt" = some "/w/l.txt" := by simp [absPath, ex_abs_lab]
  have hout : absPath "/w" "/w/nodir/out.bin" = some "/w/nodir/out.bin" := by simp [absPath, os_abs_out]
  have hlt : labelText [("start", 0)] = some "start 0x00000000\n".toList := by decide
  have hcl : FS.canWrite osFS "/w/l.txt" = true := by
    simp only [FS.canWrite, ex_dirname_lab]; decide
  have hdo : pathDirname "/w/nodir/out.bin" = "/w/nodir" := by decide
  have hco : FS.canWrite (FS.write osFS "/w/l.txt" (textBytes "start 0x00000000\n".toList)) "/w/nodir/out.bin" = false := by
    rw [canWrite_write]; simp only [FS.canWrite, hdo]; decide
  have hrun : run henc osFS "/w" osArgs =
      (.osError 1 "output file", FS.write osFS "/w/l.txt" (textBytes "start 0x00000000\n".toList)) := by
    unfold run
    rw [os_plan]
    have hne : ¬ ("/w/l.txt" = "") := by decide
    simp only [writeOutputs, osArgs, if_neg hne, hlabp, hlt, hcl, if_true, hout, hco, Bool.not_false]
  rw [hrun]
  refine ⟨rfl, by simp [ExitStatus.failed], trivial, by decide, read_write_same _ _ _, ?_⟩
  intro h
  have := congrArg (fun f => FS.readBytes f "/w/l.txt") h
  simp only [read_write_same] at this
  revert this
  decide +kernel

/-- … so the unrestricted statement is false for every bin2hex -/
theorem not_cliFailureUntouched (henc : HexEnc) : ¬ CliFailureUntouched henc := by
  intro h
  obtain ⟨_, h2, _, _, _, h6⟩ := os_failure_after_labels_written henc
  exact h6 (h osFS "/w" osArgs h2)

end BB.Props.C17
