/-
  BB.Props.C03Program — C03 as ONE statement inside the anchored frame.

  `assemble_layout_framed`: the STRONG form of `C03.assemble_layout`.  With `lay` / `out` the frame of
  C03End (`lay` = the layout `C04.layoutOf` computes, `out` = the final blobs, one per item of
  `lay.aligned`, `r.bytes = blobBytes out`; both unique, `Frame.unique`), the list `out` ITSELF splits
  into one run per SOURCE item (`parts.flatten = out`, `Img items[i] parts[i]`) and the value of every
  label is the number of bytes of the runs in front of it.  Since `parts.flatten` is the real output
  list, the byte counts are those of the real output - an instruction cannot be "read" as 2 bytes when
  it was emitted as 4.

  `assemble_transfer_lands_on_label`: "every pc-relative transfer lands on its label" as one statement:
  for a branch / jal / c.j / c.jal / c.beqz / c.bnez / far call-tail pair standing at index i of
  `lay.aligned` whose target `ref` is the label at SOURCE index k and is not shadowed by a constant,

        (byte offset of item i in the output) + (decoded pc-relative offset)
            = (number of output bytes contributed by the source items in front of the label),

  both measured in the same list `out`.  Composition of `assemble_*_lands` (C03End), `chainGet` and
  `assemble_layout_framed`.
-/
import BB.Props.C10Program
namespace BB.Props.C03
open BB BB.Spec BB.Lemmas

/-! ### the frame leaves nothing to choose -/

theorem Land.functional {H : Hooks} {c L : Dict} : ∀ {p : Int} {its out out' : List Item},
    Land H c L p its out → Land H c L p its out' → out = out' := by
  intro p its out out' h
  induction h generalizing out' with
  | nil p => intro h'; cases h'; rfl
  | @step p it it' line d rest out hb hf hl _ ih =>
    intro h'
    cases h' with
    | @step _ _ it2 line2 d2 _ out2 hb2 hf2 hl2 hr2 =>
      rw [hb] at hb2
      simp only [Except.ok.injEq, Prod.mk.injEq, List.cons.injEq, and_true] at hb2
      subst hb2
      have e := BB.Props.C10.finish_functional hf hf2
      simp only [Item.blob.injEq] at e
      obtain ⟨rfl, rfl⟩ := e
      rw [ih hr2]

theorem Frame.unique {H : Hooks} {c : Bool} {items : List Item} {r : AsmResult}
    {lay lay' : BB.Props.C04.Layout} {out out' : List Item}
    (h : Frame H c items r lay out) (h' : Frame H c items r lay' out') : lay = lay' ∧ out = out' := by
  have e : lay = lay' := by
    have := h.layout.symm.trans h'.layout
    simpa using this
  subst e
  exact ⟨rfl, Land.functional h.land h'.land⟩

/-! ### the ghost list and the frame from ONE run through the pipeline -/

/-- `assemble_land` and `assemble_layout_ghost` together: the ghost list `Gf` (the final blobs with the
    label markers still in place) without its markers IS the list `out` of the frame -/
theorem assemble_frame_ghost (H : Hooks) (compress : Bool) (items : List Item) (r : AsmResult)
    (hnn : NonNeg items)
    (h : assembleItems H compress items [] [] = .ok r) :
    ∃ lay out Gf, Frame H compress items r lay out ∧ Expands items Gf ∧ OnlyBlobs Gf ∧
      labelNames Gf = labelNames items ∧ (labelNames items).Nodup ∧ strip Gf = out ∧
      ∀ ℓ ∈ labelNames items, r.labels.get ℓ = (bytesBefore Gf ℓ).map (fun (k : Nat) => Int.ofNat k) := by
  unfold assembleItems at h
  simp only [bind, Except.bind] at h
  -- resolve_constants
  cases h1 : resolveConstants H items [] with
  | error e => simp [h1] at h
  | ok r1 =>
  obtain ⟨items1, constants⟩ := r1
  simp only [h1] at h
  obtain ⟨c1, c2, _⟩ := resolveConstants_spec H items [] items1 constants h1
  have e0 : Expands items items1 := resolveConstants_expands H items [] items1 constants h1
  -- resolve_labels
  cases h2 : resolveLabels items1 [] with
  | error e => simp [h2] at h
  | ok r2 =>
  obtain ⟨items2, labels2⟩ := r2
  simp only [h2] at h
  obtain ⟨l1, l2, _, l4, l5⟩ := resolveLabelsAux_spec items1 0 [] [] items2 labels2 h2
  have st0 : Stage items1 items2 labels2 (labelNames items) := by
    refine ⟨l1.symm, c2 hnn, l2, c1, l4, ?_⟩
    intro ℓ v hℓ hv
    rw [l5 ℓ hℓ] at hv
    simp [Dict.get, List.lookup] at hv
  have st1 := stage_aliases st0 constants
  have e1 := e0.trans (aliases_expands items1 constants)
  have r2 := (e0.trans (resolveLabelsAux_expands items1 0 [] [] items2 labels2 h2)).trans (aliases_expands items2 constants)
  -- transform_compressible (first)
  have step_c : ∀ {G real labels}, Stage G real labels (labelNames items) → Expands items G →
      ∀ {o : List Item} {l : Dict},
      maybeCompress H compress real constants labels = .ok (o, l) →
      ∃ G', Stage G' o l (labelNames items) ∧ Expands items G' := by
    intro G real labels st eG o l hres
    unfold maybeCompress at hres
    by_cases hc : compress = true
    · rw [if_pos hc] at hres
      obtain ⟨G', hw, st'⟩ := stage_walk_ex (compressBody_ok H constants) st hres
      exact ⟨G', st', eG.trans (walk_expands (compressBody_img H constants) G 0 labels G' l hw)⟩
    · rw [if_neg hc] at hres
      simp only [pure, Except.pure, Except.ok.injEq, Prod.mk.injEq] at hres
      obtain ⟨rfl, rfl⟩ := hres
      exact ⟨G, st, eG⟩
  cases h3 : maybeCompress H compress (resolveRegisterAliases items2 constants) constants labels2 with
  | error e => simp [h3] at h
  | ok r3 =>
  obtain ⟨items3, labels3⟩ := r3
  simp only [h3] at h
  obtain ⟨G3, st3, e3⟩ := step_c st1 e1 h3
  have r3 := r2.trans (C09.maybeCompress_expands H compress _ constants labels2 items3 labels3 h3)
  -- transform_pseudo_instructions
  cases h4 : transformPseudo H items3 constants labels3 with
  | error e => simp [h4] at h
  | ok r4 =>
  obtain ⟨items4, labels4⟩ := r4
  simp only [h4] at h
  obtain ⟨G4, hw4, st4⟩ := stage_walk_ex (pseudoBody_ok H constants) st3 h4
  have e4 := e3.trans (walk_expands (pseudoBody_img H constants) G3 0 labels3 G4 labels4 hw4)
  have st5 := stage_aliases st4 constants
  have e5 := e4.trans (aliases_expands G4 constants)
  have r5 := (r3.trans (walk_expands (pseudoBody_img H constants) items3 0 labels3 items4 labels4 h4)).trans
    (aliases_expands items4 constants)
  -- transform_compressible (second)
  cases h6 : maybeCompress H compress (resolveRegisterAliases items4 constants) constants labels4 with
  | error e => simp [h6] at h
  | ok r6 =>
  obtain ⟨items6, labels6⟩ := r6
  simp only [h6] at h
  obtain ⟨G6, st6, e6⟩ := step_c st5 e5 h6
  have r6 := r5.trans (C09.maybeCompress_expands H compress _ constants labels4 items6 labels6 h6)
  -- resolve_aligns
  cases h7 : resolveAligns items6 labels6 with
  | error e => simp [h7] at h
  | ok r7 =>
  obtain ⟨items7, labels7⟩ := r7
  simp only [h7] at h
  obtain ⟨G7, hw7, st7⟩ := stage_walk_ex alignBody_ok st6 h7
  have e7 := e6.trans (walk_expands alignBody_img G6 0 labels6 G7 labels7 hw7)
  have r7 := r6.trans (walk_expands alignBody_img items6 0 labels6 items7 labels7 h7)
  -- resolve_immediates
  cases h8 : resolveImmediates H items7 constants labels7 with
  | error e => simp [h8] at h
  | ok items8 =>
  simp only [h8] at h
  unfold resolveImmediates at h8
  simp only [bind, Except.bind] at h8
  cases h8w : walk (immBody H constants) items7 0 labels7 with
  | error e => simp [h8w] at h8
  | ok r8 =>
  obtain ⟨o8, l8⟩ := r8
  simp only [h8w, pure, Except.pure, Except.ok.injEq] at h8
  subst h8
  obtain ⟨_, hrel⟩ := C08.imm_walk_positions H constants items7 0 labels7 o8 l8 h8w
  -- the label table the caller gets is labels7; the immediates walk does not move any label
  have hl8 : l8 = labels7 := walk_zero_labels (immBody_zero H constants) items7 0 labels7 o8 l8 h8w
  subst hl8
  obtain ⟨G8, hw8, st8⟩ := stage_walk_ex (immBody_ok H constants) st7 h8w
  have e8 := e7.trans (walk_expands (immBody_img H constants) G7 0 l8 G8 l8 hw8)
  -- resolve_instructions … resolve_include_bytes
  cases h9 : resolveInstructions o8 with
  | error e => simp [h9] at h
  | ok items9 =>
  simp only [h9] at h
  obtain ⟨G9, hm9, st9⟩ := stage_mapM_ex instrStep_ok st8 h9
  have e9 := e8.trans (mapM_expands instrStep_img G8 G9 hm9)
  have st10 := stage_strings_ex st9
  have e10 := e9.trans (strings_expands G9)
  cases h11 : resolveSequences (resolveStrings items9) with
  | error e => simp [h11] at h
  | ok items11 =>
  simp only [h11] at h
  obtain ⟨G11, hm11, st11⟩ := stage_mapM_ex seqStep_ok st10 h11
  have e11 := e10.trans (mapM_expands seqStep_img _ G11 hm11)
  cases h12 : transformShorthandPacks items11 with
  | error e => simp [h12] at h
  | ok items12 =>
  simp only [h12] at h
  obtain ⟨G12, hm12, st12⟩ := stage_mapM_ex shorthandStep_ok st11 h12
  have e12 := e11.trans (mapM_expands shorthandStep_img _ G12 hm12)
  cases h13 : resolvePacks items12 with
  | error e => simp [h13] at h
  | ok items13 =>
  simp only [h13] at h
  obtain ⟨G13, hm13, st13⟩ := stage_mapM_ex packStep_ok st12 h13
  have e13 := e12.trans (mapM_expands packStep_img _ G13 hm13)
  cases h14 : resolveIncludeBytes H items13 with
  | error e => simp [h14] at h
  | ok items14 =>
  simp only [h14] at h
  obtain ⟨G14, hm14, st14⟩ := stage_mapM_ex (includeBytesStep_ok H) st13 h14
  have e14 := e13.trans (mapM_expands (includeBytesStep_img H) _ G14 hm14)
  cases h15 : resolveBlobs items14 with
  | error e => simp [h15] at h
  | ok bytes =>
  simp only [h15, pure, Except.pure, Except.ok.injEq] at h
  subst h
  obtain ⟨hob, hbytes⟩ := resolveBlobs_ghost G14 bytes (by rw [st14.strip_eq]; exact h15)
  obtain ⟨hb1, hb2⟩ := C09.resolveBlobs_bytes items14 bytes h15
  have p9 := mapM_pw o8 items9 h9
  have p10 : Pw (fun a b => b = stringStep a) items9 (resolveStrings items9) := map_pw stringStep items9
  have p11 := mapM_pw _ items11 h11
  have p12 := mapM_pw _ items12 h12
  have p13 := mapM_pw _ items13 h13
  have p14 := mapM_pw _ items14 h14
  have pall := ((((p9.comp p10).comp p11).comp p12).comp p13).comp p14
  have pfin : Pw (Finish H) o8 items14 := by
    refine Pw.mono ?_ pall
    rintro a z ⟨f, ⟨e, ⟨d, ⟨c, ⟨b, hb, hc⟩, hd⟩, he⟩, hf⟩, hz⟩
    subst hc
    exact ⟨b, d, e, f, hb, hd, he, hf, hz⟩
  have hlay : BB.Props.C04.layoutOf H compress items
      = .ok ⟨items6, items7, constants, l8⟩ := by
    simp only [BB.Props.C04.layoutOf, bind, Except.bind, h1, h2, h3, h4, h6, h7, pure, Except.pure]
  refine ⟨⟨items6, items7, constants, l8⟩, items14, G14,
    ⟨hlay, rfl, rfl, r7, land_of hrel pfin hb1, hb2⟩, e14, hob, st14.names_eq, ?_, st14.strip_eq, ?_⟩
  · rw [← st14.names_eq]; exact st14.nodup
  · intro ℓ hℓ
    rw [← st14.names_eq] at hℓ
    have hsome := (labelPos_isSome_iff G14 0 ℓ).mpr hℓ
    cases hp : labelPos G14 0 ℓ with
    | none => simp [hp] at hsome
    | some v =>
      have := st14.agree ℓ v hp
      simp only
      rw [this]
      rw [labelPos_onlyBlobs G14 hob] at hp
      cases hb : bytesBefore G14 ℓ with
      | none => simp [hb] at hp
      | some k =>
        simp only [hb, Option.map_some, Option.some.injEq] at hp ⊢
        omega

/-- **The label table is exact - strong form.**  `lay`, `out` are the anchored frame (`Frame`).  The
    list `out` of final blobs itself splits into one run per SOURCE item, in source order
    (`parts.flatten = out`; `Img items[i] parts[i]` says what each kind of item may contribute), and the
    value of every label is the number of OUTPUT bytes contributed by the source items in front of it. -/
theorem assemble_layout_framed (H : Hooks) (compress : Bool) (items : List Item) (r : AsmResult)
    (hnn : NonNeg items)
    (h : assembleItems H compress items [] [] = .ok r) :
    ∃ lay out, Frame H compress items r lay out ∧
      ∃ parts : List (List Item), parts.length = items.length ∧ parts.flatten = out ∧
        (∀ i (hi : i < items.length) (hp : i < parts.length), Img items[i] parts[i]) ∧
        (labelNames items).Nodup ∧
        ∀ i (hi : i < items.length) line ℓ, items[i] = .label line ℓ →
          r.labels.get ℓ = some ((blobBytes (parts.take i).flatten).length : Int) := by
  obtain ⟨lay, out, Gf, hF, hexp, hob, hnames, hnd, hstrip, hlab⟩ := assemble_frame_ghost H compress items r hnn h
  obtain ⟨parts, hlen, hflat, himg, hval⟩ := layout_of_ghost hexp hob hnames hnd hlab
  exact ⟨lay, out, hF, parts, hlen, by rw [hflat, hstrip], himg, hnd, hval⟩

/-! ### lands on its label -/

/-- a target that is not shadowed by a constant is looked up in the label table -/
theorem target_value {constants labels : Dict} {ref : String} {d : Int} (hc : constants.get ref = none)
    (h : chainGet constants labels ref = some d) : labels.get ref = some d := by
  simpa [chainGet, hc] using h

/-- **Every pc-relative transfer lands on its label.**  `lay`, `out` are the anchored frame, `parts` the
    partition of `out` into one run per source item (`assemble_layout_framed`).  Let item `i` of
    `lay.aligned` be a transfer to `ref`, let `ref` be the label standing at SOURCE index `k`
    (`items[k] = .label _ ref`) and not be shadowed by a constant.  Write
    `off = (blobBytes (out.take i)).length` for the byte offset of the transfer in the output and
    `tgt = (blobBytes (parts.take k).flatten).length` for the number of output bytes contributed by the
    source items in front of the label.  Then the bytes at `off` decode (by the specification) to that
    transfer with pc-relative offset `v`, and `off + v = tgt`:
      (1) conditional branches `b<cond> rs1, rs2, ref`, (2) `jal rd, ref` (also `j`, `jal ref`, near `call` /
      `tail`), (3) `c.j` / `c.jal`, (4) `c.beqz` / `c.bnez`, (5) the `auipc` + `jalr` pair of a far call / tail
      (`off + (f << 12) + lo ≡ tgt` modulo 2^32 - what the machine computes for `jalr` relative to the
      register the `auipc` wrote; the distance `tgt - off` is EVEN, so the bit 0 that `jalr` clears is 0
      anyway; and the `jalr` does read the register the `auipc` wrote, `r2 = ra`, whenever the pair names
      the same operand `rsJ = rdA` - which is what `transform_pseudo_instructions` generates for every
      far `call` (x1) / `tail` (x6); for a hand-made item pair with different operands nothing about the
      jump target is claimed). -/
theorem assemble_transfer_lands_on_label (H : Hooks) (compress : Bool) (items : List Item) (r : AsmResult)
    (hnn : NonNeg items)
    (h : assembleItems H compress items [] [] = .ok r) :
    ∃ lay out, Frame H compress items r lay out ∧
      ∃ parts : List (List Item), parts.length = items.length ∧ parts.flatten = out ∧
        (∀ i (hi : i < items.length) (hp : i < parts.length), Img items[i] parts[i]) ∧
        -- (1) 32-bit conditional branches
        (∀ (i : Nat) (hi : i < lay.aligned.length) line name rs1 rs2 ref o op f3
            (k : Nat) (hk : k < items.length) lineL,
          lay.aligned[i] = .instr line (.b name rs1 rs2 (.offset ref)) →
          instrTable.lookup name = some (.b op f3) → classOf name = some (.br o) →
          items[k] = .label lineL ref → r.constants.get ref = none →
          ∃ w r1 r2 v, (r.bytes.drop (blobBytes (out.take i)).length).take 4 = leBytes 4 w ∧
            decode32 w = some (.branch o r1 r2 v) ∧
            lookupRegister rs1 = some r1 ∧ lookupRegister rs2 = some r2 ∧
            ((blobBytes (out.take i)).length : Int) + v = ((blobBytes (parts.take k).flatten).length : Int)) ∧
        -- (2) jal
        (∀ (i : Nat) (hi : i < lay.aligned.length) line name rd ref op
            (k : Nat) (hk : k < items.length) lineL,
          lay.aligned[i] = .instr line (.j name rd (.offset ref)) →
          instrTable.lookup name = some (.j op) → classOf name = some .jal →
          items[k] = .label lineL ref → r.constants.get ref = none →
          ∃ w rr v, (r.bytes.drop (blobBytes (out.take i)).length).take 4 = leBytes 4 w ∧
            decode32 w = some (.jal rr v) ∧ lookupRegister rd = some rr ∧
            ((blobBytes (out.take i)).length : Int) + v = ((blobBytes (parts.take k).flatten).length : Int)) ∧
        -- (3) c.j / c.jal
        (∀ (i : Nat) (hi : i < lay.aligned.length) line name ref c
            (k : Nat) (hk : k < items.length) lineL,
          lay.aligned[i] = .instr line (.cj name (.offset ref)) → classOf16 name = some c →
          (c = .j ∨ c = .jal) →
          items[k] = .label lineL ref → r.constants.get ref = none →
          ∃ w v, (r.bytes.drop (blobBytes (out.take i)).length).take 2 = leBytes 2 w ∧
            decode16 w = some (if c = .j then CInstr.j v else CInstr.jal v) ∧
            ((blobBytes (out.take i)).length : Int) + v = ((blobBytes (parts.take k).flatten).length : Int)) ∧
        -- (4) c.beqz / c.bnez
        (∀ (i : Nat) (hi : i < lay.aligned.length) line name rs1 ref c
            (k : Nat) (hk : k < items.length) lineL,
          lay.aligned[i] = .instr line (.cb name rs1 (.offset ref)) → classOf16 name = some c →
          (c = .beqz ∨ c = .bnez) →
          items[k] = .label lineL ref → r.constants.get ref = none →
          ∃ w rr v, (r.bytes.drop (blobBytes (out.take i)).length).take 2 = leBytes 2 w ∧
            decode16 w = some (if c = .beqz then CInstr.beqz rr v else CInstr.bnez rr v) ∧
            lookupRegister rs1 = some rr ∧
            ((blobBytes (out.take i)).length : Int) + v = ((blobBytes (parts.take k).flatten).length : Int)) ∧
        -- (5) far call / tail: auipc + jalr
        (∀ (i : Nat) (hi : i + 1 < lay.aligned.length) lineA lineJ rdA rdJ rsJ ref
            (k : Nat) (hk : k < items.length) lineL,
          lay.aligned[i] = .instr lineA (.u "auipc" rdA (.hi (.offset ref))) →
          lay.aligned[i + 1] = .instr lineJ (.i "jalr" rdJ rsJ (.lo (.offset ref)) true) →
          items[k] = .label lineL ref → r.constants.get ref = none →
          ∃ wa wj ra r1 r2 f lo,
            (r.bytes.drop (blobBytes (out.take i)).length).take 4 = leBytes 4 wa ∧
            (r.bytes.drop ((blobBytes (out.take i)).length + 4)).take 4 = leBytes 4 wj ∧
            decode32 wa = some (.auipc ra f) ∧ decode32 wj = some (.jalr r1 r2 lo) ∧
            lookupRegister rdA = some ra ∧ lookupRegister rdJ = some r1 ∧ lookupRegister rsJ = some r2 ∧
            ((((blobBytes (out.take i)).length : Int) + (((f : Int) * 4096) % 4294967296 + lo)) % 4294967296
              = ((blobBytes (parts.take k).flatten).length : Int) % 4294967296) ∧
            (((blobBytes (parts.take k).flatten).length : Int) - ((blobBytes (out.take i)).length : Int)) % 2 = 0 ∧
            (rsJ = rdA → r2 = ra)) := by
  obtain ⟨lay, out, hF, parts, hlen, hflat, himg, _, hval⟩ := assemble_layout_framed H compress items r hnn h
  refine ⟨lay, out, hF, parts, hlen, hflat, himg, ?_, ?_, ?_, ?_, ?_⟩
  · obtain ⟨lay', out', hF', hall⟩ := assemble_branch_lands H compress items r h
    obtain ⟨rfl, rfl⟩ := Frame.unique hF hF'
    intro i hi line name rs1 rs2 ref o op f3 k hk lineL hit hrow hc hlabel hconst
    obtain ⟨w, r1, r2, v, d, hsl, hdec, hr1, hr2, hd, hpv⟩ := hall i hi line name rs1 rs2 ref o op f3 hit hrow hc
    have := (target_value hconst hd).symm.trans (hval k hk lineL ref hlabel)
    simp only [Option.some.injEq] at this
    exact ⟨w, r1, r2, v, hsl, hdec, hr1, hr2, by rw [hpv, this]⟩
  · obtain ⟨lay', out', hF', hall⟩ := assemble_jal_lands H compress items r h
    obtain ⟨rfl, rfl⟩ := Frame.unique hF hF'
    intro i hi line name rd ref op k hk lineL hit hrow hc hlabel hconst
    obtain ⟨w, rr, v, d, hsl, hdec, hr, hd, hpv⟩ := hall i hi line name rd ref op hit hrow hc
    have := (target_value hconst hd).symm.trans (hval k hk lineL ref hlabel)
    simp only [Option.some.injEq] at this
    exact ⟨w, rr, v, hsl, hdec, hr, by rw [hpv, this]⟩
  · obtain ⟨lay', out', hF', hall, _⟩ := assemble_compressed_lands H compress items r h
    obtain ⟨rfl, rfl⟩ := Frame.unique hF hF'
    intro i hi line name ref c k hk lineL hit hc hcj hlabel hconst
    obtain ⟨w, v, d, hsl, hdec, hd, hpv⟩ := hall i hi line name ref c hit hc hcj
    have := (target_value hconst hd).symm.trans (hval k hk lineL ref hlabel)
    simp only [Option.some.injEq] at this
    exact ⟨w, v, hsl, hdec, by rw [hpv, this]⟩
  · obtain ⟨lay', out', hF', _, hall⟩ := assemble_compressed_lands H compress items r h
    obtain ⟨rfl, rfl⟩ := Frame.unique hF hF'
    intro i hi line name rs1 ref c k hk lineL hit hc hcb hlabel hconst
    obtain ⟨w, rr, v, d, hsl, hdec, hr, hd, hpv⟩ := hall i hi line name rs1 ref c hit hc hcb
    have := (target_value hconst hd).symm.trans (hval k hk lineL ref hlabel)
    simp only [Option.some.injEq] at this
    exact ⟨w, rr, v, hsl, hdec, hr, by rw [hpv, this]⟩
  · obtain ⟨lay', out', hF', hall⟩ := assemble_far_pair_lands H compress items r h
    obtain ⟨rfl, rfl⟩ := Frame.unique hF hF'
    intro i hi lineA lineJ rdA rdJ rsJ ref k hk lineL hA hJ hlabel hconst
    obtain ⟨wa, wj, ra, r1, r2, f, lo, d, hsA, hsJ, hdA, hdJ, hra, hr1, hr2, hd, hmod, hev, hsame⟩ :=
      hall i hi lineA lineJ rdA rdJ rsJ ref hA hJ
    have := (target_value hconst hd).symm.trans (hval k hk lineL ref hlabel)
    simp only [Option.some.injEq] at this
    exact ⟨wa, wj, ra, r1, r2, f, lo, hsA, hsJ, hdA, hdJ, hra, hr1, hr2, by rw [hmod, this],
      by rw [← this]; exact hev, hsame⟩

/-! ### an instance, evaluated by the kernel

`C03.sample` (C03End): `start:` is source item 0, `end:` source item 9; neither name is a constant.
Without -c the `beq x1, x2, end` stands at output offset 0 and decodes to a branch with offset 26 = the
value of `end` = the 26 bytes the nine source items in front of `end:` contribute; `j start` stands at
offset 8 and decodes to `jal x0, -8`: 8 + (-8) = 0 = the value of `start`.  With -c, `j start` is
`c.j -8` at offset 8 and `beqz x8, start` is `c.beqz x8, -10` at offset 10. -/

example : sample[0]? = some (.label (sampleLine 1 "start:") "start") ∧
    sample[9]? = some (.label (sampleLine 10 "end:") "end") ∧ NonNeg sample := by
  refine ⟨rfl, rfl, ?_⟩
  unfold NonNeg
  decide +kernel

example : (assembleItems (textHooks ⟨[], []⟩) false sample [] []).toOption.map (fun r =>
      (decode32 (fromLE (r.bytes.take 4)), decode32 (fromLE ((r.bytes.drop 8).take 4)))) =
    some (some (.branch .beq 1 2 26), some (.jal 0 (-8))) := by
  decide +kernel

example : (assembleItems (textHooks ⟨[], []⟩) false sample [] []).toOption.map (fun r =>
      (r.labels.get "end", r.labels.get "start", r.constants.get "end", r.constants.get "start")) =
    some (some 26, some 0, none, none) ∧ (0 : Int) + 26 = 26 ∧ (8 : Int) + (-8) = 0 := by
  decide +kernel

example : (assembleItems (textHooks ⟨[], []⟩) true sample [] []).toOption.map (fun r =>
      (decode16 (fromLE ((r.bytes.drop 8).take 2)), decode16 (fromLE ((r.bytes.drop 10).take 2)))) =
    some (some (.j (-8)), some (.beqz 8 (-10))) := by
  decide +kernel

example : (assembleItems (textHooks ⟨[], []⟩) true sample [] []).toOption.map (fun r =>
      (r.labels.get "start", r.constants.get "start")) = some (some 0, none) ∧
    (8 : Int) + (-8) = 0 ∧ (10 : Int) + (-10) = 0 := by
  decide +kernel

end BB.Props.C03
