/-
  BB.Props.TablesFront — the name tables `BB.Parse` routes on are the ones dumped from the live
  bronzebeard module (lean/BB/Generated/Tables.lean is rewritten from /repo on every run):
  which format dictionary each mnemonic belongs to, PSEUDO_INSTRUCTIONS,
  BASE_OFFSET_INSTRUCTIONS, NUMERIC_SEQUENCE_NAMES, SHORTHAND_PACK_NAMES.  Order-insensitive.
-/
import BB.Parse
import BB.Generated.Tables
namespace BB.Props.TablesFront
open BB

/-- same members, both ways, and the same number of entries -/
def sameSet (a b : List String) : Bool :=
  a.all (b.contains ·) && b.all (a.contains ·) && a.length == b.length

/-- every mnemonic of the live module is routed by the model through the same format dictionary,
    and the model knows no other mnemonic -/
theorem formatOf_matches :
    Generated.formatOf.length = formatOfModel.length ∧
    (∀ e ∈ Generated.formatOf, formatOfModel.lookup e.1 = some e.2) ∧
    (∀ e ∈ formatOfModel, Generated.formatOf.lookup e.1 = some e.2) := by decide +kernel

/-- `inDict d m` (what `parse_item`'s `head in <DICT>` tests are modelled by) agrees with the dump -/
theorem inDict_matches :
    ∀ e ∈ Generated.formatOf, inDict e.2 e.1 = true := by decide +kernel

theorem pseudo_matches : sameSet pseudoInstructionNames Generated.pseudoInstructions = true := by
  decide +kernel

theorem baseOffset_matches : sameSet baseOffsetNames Generated.baseOffsetInstructions = true := by
  decide +kernel

theorem numericSequence_matches :
    sameSet numericSequenceNamesM Generated.numericSequenceNames = true := by decide +kernel

theorem shorthandPack_matches :
    sameSet shorthandPackNamesM Generated.shorthandPackNames = true := by decide +kernel

end BB.Props.TablesFront
