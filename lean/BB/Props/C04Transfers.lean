/-
  BB.Props.C04Transfers — compressed pc-relative transfers to labels, single `-c` run, program level.

  All statements are over `layoutOf H true items = .ok lay` (Props/C04; a function of the inputs): `lay.aligned`
  is the list held after resolve_aligns, its tables are the returned ones.
  (4) `offset_shrinks`: for every compressed instruction of the list held after resolve_aligns that a
      compression pass decided at position `p` against the label table `L`, and EVERY label `ref` of the
      program: the final distance `dfin = r.labels[ref] − off(i)` is `Closer` to 0 than the distance
      `vdec = L[ref] − p` the decision saw — same side of 0 (a positive distance stays positive, a
      non-positive one stays non-positive) and not larger in magnitude.  No hypothesis on aligns or
      data: every later pass only shrinks items, and the label tables are the layouts (Lemmas/Layout).
      Parity is NOT preserved in general (see the counterexample at the end); it is not needed:
  (5) `assemble_compressed_transfer_sound`: if the decision was one of c.j / c.jal / c.beqz / c.bnez on
      `%offset(ref)`, `ref` a label not shadowed by a constant, and the 32-bit original — resolved at the
      final tables at the SAME offset, hence to the same target — is one its own encoder accepts (this
      is where evenness comes from), then the two output bytes are the halfword of a legal RVC
      instruction `ci` with `execC ci s = exec i32 2 s` for the original's meaning `i32` there.
  (6) `compressed_never_refused`: under the same condition (or a label-free original), stated for any
      run that reaches resolve_aligns, successful or not: the resolved compressed item is accepted by
      `resolve_instructions` — a `-c` failure is never caused by such a compression decision.
-/
import BB.Lemmas.TransferFinal
import BB.Lemmas.LayoutAnchor
import BB.Props.C04Program
import BB.Props.C12
namespace BB.Props.C04
open BB BB.Spec BB.Lemmas
open BB.Props.C03 (Land Finish)

/-- the byte offset `Land` gives item `i` is the sum of the sizes of the items before it -/
theorem land_offset {H : Hooks} {constants L : Dict} {p : Int} {items out : List Item}
    (h : Land H constants L p items out) :
    ∀ i, i ≤ items.length → ((blobBytes (out.take i)).length : Int) = sizeSum (items.take i) := by
  induction h with
  | nil p => intro i _; simp [blobBytes, sizeSum]
  | @step p it it' line d rest out hbody hfin hlen _ ih =>
    intro i hi
    cases i with
    | zero => simp [blobBytes, sizeSum]
    | succ j =>
      have := ih j (by simpa using hi)
      simp only [List.take_succ_cons, BB.Props.C03.blobBytes_cons_blob, List.length_append, sizeSum_cons]
      push_cast
      omega

/-- **(4) offset_shrinks.**  In a successful `-c` run (item sizes non-negative), for every compressed
    instruction item `i` of `lay.aligned` (the list held after resolve_aligns): it is the aliased image of a
    compressed instruction item of the SOURCE `items`, or it was decided by a compression pass at position `p` against the table `L`, and then for
    every label `ref` of the program the decision-time distance `vdec = L[ref] − p` and the final
    distance `dfin = r.labels[ref] − off(i)` satisfy `Closer vdec dfin`:
    `0 < vdec → 0 < dfin ≤ vdec` and `vdec ≤ 0 → vdec ≤ dfin ≤ 0`. -/
theorem offset_shrinks (H : Hooks) (items : List Item) (r : AsmResult) (hnn : NonNeg items)
    (h : assembleItems H true items [] [] = .ok r) :
    ∃ (lay : Layout) (out : List Item), layoutOf H true items = .ok lay ∧ lay.labels = r.labels ∧
      lay.constants = r.constants ∧ Land H r.constants r.labels 0 lay.aligned out ∧ r.bytes = blobBytes out ∧
      ∀ (i : Nat) (hi : i < lay.aligned.length) line cf, lay.aligned[i] = .instr line cf → cf.isCompressed = true →
        (∃ cf0, Item.instr line cf0 ∈ items ∧ cf0.isCompressed = true ∧ cf = cf0.mapRegs (aliasReg r.constants)) ∨
        ∃ ins c preds p L, DecidedAt H r.constants line cf ins c preds p L ∧
          ∀ ref ∈ labelNames items, ∃ vdec dfin, L.get ref = some (vdec + p) ∧
            r.labels.get ref = some (dfin + ((blobBytes (out.take i)).length : Int)) ∧ Closer vdec dfin := by
  obtain ⟨items1, items2, items3, items4, items6, items7, out, labels2, labels3, labels4, labels6, hlay, e7, h1, h2, h3, h4,
    h6, h7, hland, hbytes⟩ := assemble_anchor H true items r h
  refine ⟨⟨items6, items7, r.constants, r.labels⟩, out, hlay, rfl, rfl, hland, hbytes, ?_⟩
  intro i hi line cf hit hc
  simp only at hit hi
  have hsrc : Item.instr line cf ∈ resolveRegisterAliases items2 r.constants →
      ∃ cf0, Item.instr line cf0 ∈ items ∧ cf0.isCompressed = true ∧ cf = cf0.mapRegs (aliasReg r.constants) := by
    intro ho
    obtain ⟨cf0, hm0, e⟩ := source_of_aliased h1 h2 ho
    refine ⟨cf0, hm0, ?_, e⟩
    rw [e, mapRegs_isCompressed] at hc
    exact hc
  rw [land_offset hland i (Nat.le_of_lt hi)]
  rcases compressed_origin_dist H r.constants hnn h1 h2 h3 h4 h6 h7 i hi hit hc with ho | hd
  · exact Or.inl (hsrc ho)
  · exact Or.inr hd

/-- reading the resolved, encoded compressed item once `rule_sound` has spoken -/
theorem compressed_item_read {H : Hooks} {constants L : Dict} {line line' : Line} {cf rcf : Instr} {ci : CInstr}
    {off : Int} {it' : Item} {d : List Nat} (hnaj : cf.isAuipcJump = false) (hc : cf.isCompressed = true)
    (h0 : resolveWith (evalAt H (chainGet constants L) line off) cf = some rcf)
    (hd16 : denote16I rcf = some ci)
    (hbody : immBody H constants (.instr line cf) off L = .ok ([it'], 0))
    (hfin : Finish H it' (.blob line' d)) :
    ∃ w, d = leBytes 2 w ∧ decode16 w = some ci := by
  obtain ⟨rcf', rfl, hres'⟩ := immBody_instr_resolve hnaj hbody
  rw [h0] at hres'
  cases hres'
  obtain ⟨args, w, ha, he, hd⟩ := finish_instr_bytes hfin
  rw [(resolveWith_keeps h0).2, hc] at hd
  simp only [if_true] at hd
  obtain ⟨cm, hcm⟩ := denote16I_class hd16
  obtain ⟨ci', hd16', hdec, _⟩ := encode_denotes16 hcm ha he
  rw [hd16] at hd16'
  cases hd16'
  exact ⟨w, hd, hdec⟩

/-- **(5) compressed transfers are sound at the final tables.**  Successful `-c` run.  For item `i`,
    a compressed instruction decided by one of the transfer rules on `ins` with immediate
    `%offset(ref)`, `ref` a label of the program that no constant shadows: whenever `ins`, resolved
    against the RETURNED tables at the item's own byte offset (so: to the same target), names `i32`
    and is accepted by its 32-bit encoder, the two output bytes at that offset are the halfword `w` of
    a legal RVC instruction `ci` with `execC ci s = exec i32 2 s` for every state.
    (Together with `assemble_compressed_lands`, Props/C03End: that target is `r.labels[ref]`.) -/
theorem assemble_compressed_transfer_sound (H : Hooks) (items : List Item) (r : AsmResult) (hnn : NonNeg items)
    (hlit : ∀ env line p, LitOK (evalAt H env line p))
    (h : assembleItems H true items [] [] = .ok r) :
    ∃ (lay : Layout) (out : List Item), layoutOf H true items = .ok lay ∧ lay.labels = r.labels ∧
      lay.constants = r.constants ∧ Land H r.constants r.labels 0 lay.aligned out ∧ r.bytes = blobBytes out ∧
      ∀ (i : Nat) (hi : i < lay.aligned.length) line cf, lay.aligned[i] = .instr line cf → cf.isCompressed = true →
        (∃ cf0, Item.instr line cf0 ∈ items ∧ cf0.isCompressed = true ∧ cf = cf0.mapRegs (aliasReg r.constants)) ∨
        ∃ ins c preds p L, DecidedAt H r.constants line cf ins c preds p L ∧
          (c ∈ transferRules → ∀ ref, ins.imm? = some (.offset ref) → ref ∈ labelNames items →
            r.constants.get ref = none →
            ∀ rins i32,
              resolveWith (evalAt H (chainGet r.constants r.labels) line ((blobBytes (out.take i)).length : Int)) ins
                = some rins →
              denote32I rins = some i32 →
              (∃ args w, rins.args = some args ∧ encode rins.name args = .ok w) →
              ∃ w ci, (r.bytes.drop (blobBytes (out.take i)).length).take 2 = leBytes 2 w ∧
                decode16 w = some ci ∧ ci.legal = true ∧ ∀ s, execC ci s = exec i32 2 s) := by
  obtain ⟨items1, items2, items3, items4, items6, items7, out, labels2, labels3, labels4, labels6, hlay, e7, h1, h2, h3, h4,
    h6, h7, hland, hbytes⟩ := assemble_anchor H true items r h
  refine ⟨⟨items6, items7, r.constants, r.labels⟩, out, hlay, rfl, rfl, hland, hbytes, ?_⟩
  intro i hi line cf hit hc
  simp only at hit hi
  have hsrc : Item.instr line cf ∈ resolveRegisterAliases items2 r.constants →
      ∃ cf0, Item.instr line cf0 ∈ items ∧ cf0.isCompressed = true ∧ cf = cf0.mapRegs (aliasReg r.constants) := by
    intro ho
    obtain ⟨cf0, hm0, e⟩ := source_of_aliased h1 h2 ho
    refine ⟨cf0, hm0, ?_, e⟩
    rw [e, mapRegs_isCompressed] at hc
    exact hc
  have hoff := land_offset hland i (Nat.le_of_lt hi)
  rcases decided_holds_final H r.constants hnn h1 h2 h3 h4 h6 h7 i hi hit hc with ho | ⟨ins, c, preds, p, L, hdec, hdist, _, htr⟩
  · exact Or.inl (hsrc ho)
  · refine Or.inr ⟨ins, c, preds, p, L, hdec, ?_⟩
    obtain ⟨hnc, hnaj, hmem, hall, hcf⟩ := hdec
    intro hct ref himm hr hcn rins i32 hres hden hacc
    rw [hoff] at hres
    obtain ⟨vdec, dfin, hL, hfin, hcl⟩ := hdist ref hr
    have hp0 := (allPreds_true_iff H _ line ins p preds).mp hall
    have hevF : evalAt H (chainGet r.constants r.labels) line (sizeSum (items7.take i)) (.offset ref) = some dfin := by
      rw [offset_value hcn hfin]; congr 1; omega
    have heven := transfer_accept_even hmem hct hp0 hcf himm hevF hres hacc
    have hp' := htr hct ref dfin himm hr hcn hfin heven
    obtain ⟨rcf, ci, h0, hd16, hlegal, hexec⟩ := rule_sound hmem (hlit _ _ _) hp' hcf hres hden
    obtain ⟨it', line', d, _, hbody, hfinish, hslice⟩ := hland.at i hi
    rw [hit] at hbody
    simp only [Int.zero_add] at hbody
    rw [hoff] at hbody
    obtain ⟨w, hd, hdecode⟩ := compressed_item_read (compressedForm_not_aj hcf) hc h0 hd16 hbody hfinish
    refine ⟨w, ci, ?_, hdecode, hlegal, hexec⟩
    rw [hbytes]
    have hl : d.length = 2 := by rw [hd, leBytes_length]
    rw [hl] at hslice
    rw [hslice]; exact hd

/-- **(6) a compression decision of these kinds is never the cause of a refusal.**  For ANY `-c` run that
    reaches resolve_aligns (the stage equations `h1 … h7`; nothing is assumed about the later passes):
    let item `i` of the list after resolve_aligns be a compressed instruction that a compression pass
    decided from `ins`.  If `ins`, resolved against the final tables at the item's offset, is accepted by
    `resolve_instructions` (`encodeInstr … = .ok`), and `ins` is label-free, or the rule is a transfer
    rule on `%offset(ref)` with `ref` a label not shadowed by a constant, then the compressed item,
    resolved there, is accepted as well (2 bytes). -/
theorem compressed_never_refused (H : Hooks) (constants : Dict)
    {items items1 items2 items3 items4 items6 items7 : List Item}
    {labels2 labels3 labels4 labels6 labels7 : Dict} (hnn : NonNeg items)
    (hlit : ∀ env line p, LitOK (evalAt H env line p))
    (h1 : resolveConstants H items [] = .ok (items1, constants))
    (h2 : resolveLabels items1 [] = .ok (items2, labels2))
    (h3 : maybeCompress H true (resolveRegisterAliases items2 constants) constants labels2 = .ok (items3, labels3))
    (h4 : transformPseudo H items3 constants labels3 = .ok (items4, labels4))
    (h6 : maybeCompress H true (resolveRegisterAliases items4 constants) constants labels4 = .ok (items6, labels6))
    (h7 : resolveAligns items6 labels6 = .ok (items7, labels7))
    (i : Nat) (hi : i < items7.length) {line : Line} {cf : Instr} (hit : items7[i] = .instr line cf)
    (hc : cf.isCompressed = true) :
    Item.instr line cf ∈ resolveRegisterAliases items2 constants ∨
    ∃ ins c preds p L, DecidedAt H constants line cf ins c preds p L ∧
      ∀ rins bs,
        resolveWith (evalAt H (chainGet constants labels7) line (sizeSum (items7.take i))) ins = some rins →
        encodeInstr line rins = .ok bs →
        ((∀ imm, ins.imm? = some imm → ImmLabelFree H constants imm) ∨
         (c ∈ transferRules ∧ ∃ ref, ins.imm? = some (.offset ref) ∧ ref ∈ labelNames items ∧
            constants.get ref = none)) →
        ∃ rcf bs', resolveWith (evalAt H (chainGet constants labels7) line (sizeSum (items7.take i))) cf = some rcf ∧
          encodeInstr line rcf = .ok bs' ∧ bs'.length = 2 ∧
          instrStep (.instr line rcf) = .ok (.blob line bs') := by
  rcases decided_holds_final H constants hnn h1 h2 h3 h4 h6 h7 i hi hit hc with ho | ⟨ins, c, preds, p, L, hdec, hdist, hfr, htr⟩
  · exact Or.inl ho
  · refine Or.inr ⟨ins, c, preds, p, L, hdec, ?_⟩
    obtain ⟨hnc, hnaj, hmem, hall, hcf⟩ := hdec
    intro rins bs hres hacc hkind
    have hp' : ∀ pr ∈ preds, pr.holds ins (evalAt H (chainGet constants labels7) line (sizeSum (items7.take i))) := by
      rcases hkind with hfree | ⟨hct, ref, himm, hr, hcn⟩
      · exact hfr hfree
      · obtain ⟨vdec, dfin, hL, hfin, hcl⟩ := hdist ref hr
        have hp0 := (allPreds_true_iff H _ line ins p preds).mp hall
        have hevF : evalAt H (chainGet constants labels7) line (sizeSum (items7.take i)) (.offset ref) = some dfin := by
          rw [offset_value hcn hfin]; congr 1; omega
        have hacc' : ∃ args w, rins.args = some args ∧ encode rins.name args = .ok w := by
          unfold encodeInstr at hacc
          cases ha : rins.args with
          | none => simp [ha] at hacc
          | some args =>
            simp only [ha] at hacc
            cases he : encode rins.name args with
            | error e => rw [he] at hacc; cases e <;> simp at hacc
            | ok w => exact ⟨args, w, rfl, he⟩
        have heven := transfer_accept_even hmem hct hp0 hcf himm hevF hres hacc'
        exact htr hct ref dfin himm hr hcn hfin heven
    obtain ⟨rcf, bs', h0, he, hl⟩ := BB.Props.C12.compress_preserves_success_local hmem (hlit _ _ _) hp' hcf hres hacc
    exact ⟨rcf, bs', h0, he, hl, by simp [instrStep, he, bind, Except.bind, pure, Except.pure]⟩

/-! ### non-vacuity and a counterexample (hooks `Hd` of Props/C04Program: M = −32, numerals 0 … 31) -/

def ln (n : Nat) : Line := ⟨"f", n, ""⟩

/-- forward: `jal x0, L ; addi a0, a1, M ; L:` -/
def progFwd : List Item :=
  [.instr (ln 1) (.j "jal" (.str "x0") (.offset "L")),
   .instr (ln 2) (.i "addi" (.str "a0") (.str "a1") (.arith "M") false),
   .label (ln 3) "L"]

/-- backward over an align: `L: ; align 4 ; bne a0, x0, L` -/
def progBwd : List Item :=
  [.label (ln 1) "L", .align (ln 2) 4, .instr (ln 3) (.b "bne" (.str "a0") (.str "x0") (.offset "L"))]

example : NonNeg progFwd ∧ NonNeg progBwd := by
  unfold NonNeg; decide

/-- the first compression pass decides `c.j` at position 0 seeing L = 8 (distance 8) … -/
example : transformCompressible Hd (resolveRegisterAliases [progFwd[0], progFwd[1]] []) [] [("L", 8)]
    = .ok ([.instr (ln 1) (.cj "c.j" (.offset "L")), progFwd[1]], [("L", 6)]) := by decide
/-- … and in the finished `-c` run the label is at 6: the distance shrank from 8 to 6 (`Closer 8 6`), the
    output starts with `c.j +6` (0xa019), which expands to the `jal x0, +6` the original names there -/
example : assembleItems Hd true progFwd [] []
      = .ok { bytes := [0x19, 0xa0, 0x13, 0x85, 0x05, 0xfe], labels := [("L", 6)], constants := [] } ∧
    decode16 0xa019 = some (.j 6) ∧ expand16 (.j 6) = .jal 0 6 ∧ Closer 8 6 ∧
    encode "jal" [.r (.str "x0"), .i 6] = .ok 0x0060006f := by
  refine ⟨by decide, by decide, by decide, ?_, by decide⟩
  unfold Closer; omega
/-- backward: decided at distance −4 (the align still counted with its pessimistic 4 bytes), final
    distance 0 (`Closer (−4) 0`): `c.bnez a0, 0` (0xe101) -/
example : assembleItems Hd true progBwd [] [] = .ok { bytes := [0x01, 0xe1], labels := [("L", 0)], constants := [] } ∧
    decode16 0xe101 = some (.bnez 10 0) ∧ Closer (-4) 0 := by
  refine ⟨by decide, by decide, ?_⟩
  unfold Closer; omega

/-- **parity is not preserved** (so evenness has to come from somewhere — above: from the acceptance of
    the 32-bit original at the same place): `jal x0, L ; bytes 1 ; align 3 ; L:`.  At decision time the
    distance is 4 + 1 + 3 = 8 (even, in range): compressed.  In the end the align pads 0 bytes after the
    2-byte `c.j` and the byte: distance 3, odd — the `-c` run is REFUSED at line 1, while without `-c` the
    distance is 4 + 1 + 1 = 6 and the program assembles.  (An odd `align` argument: outside `EvenAligns`,
    Props/C12.  The real assembler behaves the same: "11-bit MO2 immediate must be a muliple of 2: 3".) -/
def progOddAlign : List Item :=
  [.instr (ln 1) (.j "jal" (.str "x0") (.offset "L")), .sequence (ln 2) "bytes" ["1"], .align (ln 3) 3,
   .label (ln 4) "L"]

example : assembleItems Hd false progOddAlign [] []
      = .ok { bytes := [0x6f, 0x00, 0x60, 0x00, 0x01, 0x00], labels := [("L", 6)], constants := [] } ∧
    assembleItems Hd true progOddAlign [] [] = .error (.asm (ln 1)) := by decide

end BB.Props.C04
