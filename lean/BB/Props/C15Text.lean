/-
  BB.Props.C15Text — C15 composed at the level of SOURCE TEXT.

  `fault_reported_at_its_line` (C15Program) and C06's `unrepresentable_refused_program` speak about
  item lists; `readLines_numbered` (C15) about the reader.  Here they are joined for a program
  given as a text (`Input.source`, ASCII, without include / include_bytes lines):

  * `go_plain_lines`, `frontEnd_source_plain` — `read_lines` turns such a text into its non-blank
    lines, numbered 1, 2, … (`numberedLines`), so `frontEnd` is `itemsOfLines` of exactly those;
  * `itemsOfLines_cons`, `itemsOfLines_cons_empty`, `itemsOfLines_nil` — … which is computed line
    by line: a line that lexes to tokens and parses contributes its item, a line without tokens
    nothing.  Together they PRODUCE the front-end equation `frontEnd … = .ok items` that the
    theorems below take as a hypothesis (or the kernel evaluates it, as in the instances);
  * `text_error_line` — the transfer: whatever item-level theorem shows
    `assembleItems … items = .error (.asm ln)`, the text-level run fails with the same error, and
    `ln` is a line of THE TEXT: file `<string>`, `1 ≤ ln.number`, and
    `(splitLines A)[ln.number - 1] = ln.contents` (`RawLineOfFile`: number and text of one line);
  * `fault_reported_text` — a fault placed anywhere among good items, from source text;
  * one fully evaluated instance, both modes: a six-line program whose fourth line is
    `addi x5, x6, 2048` fails with the AssemblerError naming line 4 with that text — once through
    `encoder_fault_reported` (C15) and once through `unrepresentable_refused_program` (C06).
-/
import BB.Props.C15Program
import BB.Props.C06Program
import BB.Lemmas.ReadFront
namespace BB.Props.C15
open BB BB.Lemmas

/-! ## what `read_lines` makes of a text without include lines -/

/-- the non-blank lines of a text, numbered from `n`, as `Line`s of the file `path` -/
def numberedLines (path : String) : Nat → List (List Char) → List Line
  | _, [] => []
  | n, raw :: rest =>
    (if (stripWs raw).isEmpty then [] else [{ file := path, number := n, contents := String.ofList raw }]) ++
      numberedLines path (n + 1) rest

/-- what a plain line contributes: itself (numbered), unless it is blank -/
theorem lineHead_plain (fs : FS) (dirs : List String) (fuel : Nat) (path : String) (cd : List String)
    (n : Nat) (raw : List Char) (h : IsPlainLine raw) :
    lineHead fs dirs fuel path cd n raw =
      .ok (if (stripWs raw).isEmpty then [] else [{ file := path, number := n, contents := String.ofList raw }]) := by
  unfold lineHead stepK
  split
  · rfl
  · dsimp only
    rw [if_neg (by rw [h.1]; decide), if_neg (by rw [h.2]; decide)]
    rfl

theorem go_plain_lines (fs : FS) (dirs : List String) (fuel : Nat) (path : String) (cd : List String) :
    ∀ (ls : List (List Char)) (n : Nat), (∀ l ∈ ls, IsPlainLine l) →
      readLinesAux.go fs dirs fuel path cd n ls = .ok (numberedLines path n ls) := by
  intro ls
  induction ls with
  | nil => intro n _; rw [go_nil]; rfl
  | cons raw rest ih =>
    intro n h
    rw [go_cons, ih (n + 1) (fun l hl => h l (by simp [hl])), lineHead_plain _ _ _ _ _ _ _ (h raw (by simp))]
    rfl

/-- **the front end on a text without include lines**: the items are those of its non-blank
    lines, numbered 1, 2, … in the file `<string>` -/
theorem frontEnd_source_plain (fs : FS) (cwd : String) (dirs : List String) (A : String)
    (hcwd : normAbs cwd = true) (hdirs : dirs.all absOk = true)
    (hascii : A.toList.all (fun ch => ch.toNat < 128) = true)
    (hplain : ∀ l ∈ splitLines A.toList, IsPlainLine l) :
    frontEnd fs cwd dirs (.source A) = itemsOfLines (numberedLines "<string>" 1 (splitLines A.toList)) := by
  rw [frontEnd_source fs cwd dirs A hcwd hdirs hascii, readLinesAux.eq_2, go_plain_lines _ _ _ _ _ _ _ hplain]
  rfl

theorem mem_numberedLines (path : String) :
    ∀ (ls : List (List Char)) (n : Nat) (l : Line), l ∈ numberedLines path n ls →
      l.file = path ∧ n ≤ l.number ∧ ls[l.number - n]? = some l.contents.toList := by
  intro ls
  induction ls with
  | nil => intro n l h; simp [numberedLines] at h
  | cons raw rest ih =>
    intro n l h
    simp only [numberedLines, List.mem_append] at h
    rcases h with h | h
    · split at h
      · simp at h
      · simp only [List.mem_singleton] at h
        subst h
        simp
    · obtain ⟨h1, h2, h3⟩ := ih (n + 1) l h
      refine ⟨h1, by omega, ?_⟩
      have e : l.number - n = (l.number - (n + 1)) + 1 := by omega
      rw [e, List.getElem?_cons_succ]
      exact h3

/-! ## lines → items, line by line -/

theorem itemsOfLines_nil : itemsOfLines [] = .ok [] := rfl

theorem itemsOfLines_ok_iff (ls : List Line) (its : List Item) :
    itemsOfLines ls = .ok its ↔
      ∃ tk, frontEnd.lexAll (ls.filter (fun l => l.contents.length > 0)) = .ok tk ∧ frontEnd.parseAll tk = .ok its := by
  unfold itemsOfLines
  simp only [bind, Except.bind]
  generalize frontEnd.lexAll (ls.filter (fun l => l.contents.length > 0)) = r
  cases r <;> simp

/-- a line with tokens that parses contributes its item, in front of the items of the rest -/
theorem itemsOfLines_cons {l : Line} {rest : List Line} {toks : List String} {it : Item} {its : List Item}
    (hne : l.contents.length > 0) (hl : lexLine l = .ok toks) (ht : toks ≠ [])
    (hp : parseItem l toks = .ok it) (hr : itemsOfLines rest = .ok its) :
    itemsOfLines (l :: rest) = .ok (it :: its) := by
  obtain ⟨tk, h1, h2⟩ := (itemsOfLines_ok_iff rest its).mp hr
  refine (itemsOfLines_ok_iff _ _).mpr ⟨(l, toks) :: tk, ?_, ?_⟩
  · have : decide (l.contents.length > 0) = true := by simpa using hne
    simp only [List.filter, this, frontEnd.lexAll, hl, h1, bind, Except.bind, pure, Except.pure]
    cases toks with
    | nil => exact absurd rfl ht
    | cons t ts => rfl
  · simp only [frontEnd.parseAll, hp, h2, bind, Except.bind, pure, Except.pure]

/-- a line without tokens (a comment) contributes nothing -/
theorem itemsOfLines_cons_empty {l : Line} {rest : List Line} {its : List Item}
    (hl : lexLine l = .ok []) (hr : itemsOfLines rest = .ok its) :
    itemsOfLines (l :: rest) = .ok its := by
  obtain ⟨tk, h1, h2⟩ := (itemsOfLines_ok_iff rest its).mp hr
  refine (itemsOfLines_ok_iff _ _).mpr ⟨tk, ?_, h2⟩
  by_cases hne : decide (l.contents.length > 0) = true
  · simp only [List.filter, hne, frontEnd.lexAll, hl, h1, bind, Except.bind, pure, Except.pure]
    rfl
  · simp only [List.filter, hne, h1]

theorem itemsOfLines_lines {ls : List Line} {its : List Item} (h : itemsOfLines ls = .ok its) :
    ∀ it ∈ its, it.line ∈ ls :=
  (lexParse_lines ls).1 its h

/-! ## the transfer from items to text -/

/-- **From an item-level error to the text.**  `A` is an ASCII source text without include /
    include_bytes lines whose front end yields `items`; some theorem about `assembleItems` shows
    that these items are refused with the AssemblerError of `ln`.  Then `assemble()` of the TEXT
    fails with exactly that error, and `ln` names a line of the text: the file is `<string>`, the
    number is the 1-based index of a line of `splitLines A`, the contents are THAT line's text. -/
theorem text_error_line (fs : FS) (cwd : String) (dirs : List String) (c : Bool) (A : String)
    (items : List Item) (ln : Line)
    (hcwd : normAbs cwd = true) (hdirs : dirs.all absOk = true)
    (hascii : A.toList.all (fun ch => ch.toNat < 128) = true)
    (hplain : ∀ l ∈ splitLines A.toList, IsPlainLine l)
    (hfe : frontEnd fs cwd dirs (.source A) = .ok items)
    (hasm : assembleItems (textHooks fs) c items [] [] = .error (.asm ln)) :
    assembleText fs cwd dirs c (.source A) = .error (.asm ln) ∧ RawLineOfFile "<string>" A.toList ln := by
  refine ⟨by simp only [assembleText, hfe, bind, Except.bind]; exact hasm, ?_⟩
  have hmem := error_line_is_source_line (textHooks_lineOK fs) c items [] [] ln hasm
  obtain ⟨it, hit, rfl⟩ := List.mem_map.mp hmem
  rw [frontEnd_source_plain fs cwd dirs A hcwd hdirs hascii hplain] at hfe
  obtain ⟨h1, h2, h3⟩ := mem_numberedLines "<string>" _ 1 _ (itemsOfLines_lines hfe it hit)
  exact ⟨h1, h2, h3⟩

/-- **A fault placed anywhere among good items is reported at its own line — from source text.**
    The text's front end yields `pre ++ x :: post` (hypothesis `hfe`; `frontEnd_source_plain` with
    `itemsOfLines_cons` produce it line by line, or the kernel evaluates it); `pre`, `post` are good
    items and `x` dies with the AssemblerError of its own line (as in `fault_reported_at_its_line`;
    see there and `GoodItem` for the scope, review finding X5).  Then `assemble()` of the text fails
    with `.asm x.line`, whose number is the 1-based index of the faulty line in `splitLines A` and
    whose contents are that line's text. -/
theorem fault_reported_text {Q : Dict → Prop} (fs : FS) (cwd : String) (dirs : List String) (c : Bool)
    (A : String) (pre post : List Item) (x : Item)
    (hcwd : normAbs cwd = true) (hdirs : dirs.all absOk = true)
    (hascii : A.toList.all (fun ch => ch.toNat < 128) = true)
    (hplain : ∀ l ∈ splitLines A.toList, IsPlainLine l)
    (hfe : frontEnd fs cwd dirs (.source A) = .ok (pre ++ x :: post))
    (hpre : ∀ y ∈ pre, GoodItem (textHooks fs) c y) (hpost : ∀ y ∈ post, GoodItem (textHooks fs) c y)
    (hx : Dies Q (.asm x.line) (stages (textHooks fs) c) x)
    (hxc : ∀ l n e, x ≠ .constant l n e) (hxs : ∃ v, x.sizeE = .ok v)
    (hnd : (labelNames (pre ++ x :: post)).Nodup)
    (hQ : ∀ l p n, Q l → Q (l.shiftAbove p n))
    (hQ0 : ∀ l : Dict, (∀ k, k ∉ labelNames (pre ++ x :: post) → l.get k = none) → Q l) :
    assembleText fs cwd dirs c (.source A) = .error (.asm x.line) ∧
      x.line.file = "<string>" ∧ 1 ≤ x.line.number ∧
      (splitLines A.toList)[x.line.number - 1]? = some x.line.contents.toList :=
  text_error_line fs cwd dirs c A _ x.line hcwd hdirs hascii hplain hfe
    (fault_reported_at_its_line pre post x x.line hpre hpost hx hxc hxs hnd hQ hQ0)

/-! ## a fully evaluated instance: line 4 of a six-line program is `addi x5, x6, 2048` -/

def faultText : String := "start:\nlui x5, 74565\naddi x9, x9, 1\naddi x5, x6, 2048\ndw 7\nend:\n"

abbrev sl (n : Nat) (s : String) : Line := ⟨"<string>", n, s⟩

def faultPre : List Item :=
  [.label (sl 1 "start:") "start",
   .instr (sl 2 "lui x5, 74565") (.u "lui" (.str "x5") (.arith "74565")),
   .instr (sl 3 "addi x9, x9, 1") (.i "addi" (.str "x9") (.str "x9") (.arith "1") false)]

def faultItem : Item :=
  .instr (sl 4 "addi x5, x6, 2048") (.i "addi" (.str "x5") (.str "x6") (.arith "2048") false)

def faultPost : List Item :=
  [.shorthandPack (sl 5 "dw 7") "dw" (.arith "7"), .label (sl 6 "end:") "end"]

theorem faultText_lines : splitLines faultText.toList =
    ["start:".toList, "lui x5, 74565".toList, "addi x9, x9, 1".toList, "addi x5, x6, 2048".toList,
     "dw 7".toList, "end:".toList] := by decide

theorem faultText_plain : ∀ l ∈ splitLines faultText.toList, IsPlainLine l := by
  rw [faultText_lines]
  intro l hl
  simp only [List.mem_cons, List.not_mem_nil, or_false] at hl
  rcases hl with rfl | rfl | rfl | rfl | rfl | rfl <;> exact ⟨by decide, by decide⟩

/-- the front-end equation, PRODUCED line by line (`frontEnd_source_plain`, then one
    `itemsOfLines_cons` per line: the line lexes to tokens, the tokens parse to the item) -/
theorem faultText_frontEnd :
    frontEnd ⟨[], []⟩ "/" [] (.source faultText) = .ok (faultPre ++ faultItem :: faultPost) := by
  rw [frontEnd_source_plain _ "/" [] faultText (by decide) (by decide) (by decide) faultText_plain, faultText_lines]
  show itemsOfLines [sl 1 "start:", sl 2 "lui x5, 74565", sl 3 "addi x9, x9, 1", sl 4 "addi x5, x6, 2048",
    sl 5 "dw 7", sl 6 "end:"] = _
  refine itemsOfLines_cons (toks := ["start:"]) (by decide) (by decide) (by decide) (by decide) ?_
  refine itemsOfLines_cons (toks := ["lui", "x5", "74565"]) (by decide) (by decide) (by decide) (by decide) ?_
  refine itemsOfLines_cons (toks := ["addi", "x9", "x9", "1"]) (by decide) (by decide) (by decide) (by decide) ?_
  refine itemsOfLines_cons (toks := ["addi", "x5", "x6", "2048"]) (by decide) (by decide) (by decide) (by decide) ?_
  refine itemsOfLines_cons (toks := ["dw", "7"]) (by decide) (by decide) (by decide) (by decide) ?_
  exact itemsOfLines_cons (toks := ["end:"]) (by decide) (by decide) (by decide) (by decide) itemsOfLines_nil

theorem good_lui_at (c : Bool) :
    GoodItem exHooks c (.instr (sl 2 "lui x5, 74565") (.u "lui" (.str "x5") (.arith "74565"))) := by
  refine .instr _ _ (goodInstr_of_canonical rfl ?_ ?_ ?_)
  · exact resolves_lit (v := 74565) (bs := [183, 82, 52, 18]) rfl rfl (litImm_dec _ "74565" 74565 (by decide) (by decide)) (by decide)
  · exact Or.inr ⟨_, 74565, rfl, litImm_dec _ "74565" 74565 (by decide) (by decide)⟩
  · intro _
    exact Or.inr (Or.inl (by decide))

theorem good_addi_at (c : Bool) :
    GoodItem exHooks c (.instr (sl 3 "addi x9, x9, 1") (.i "addi" (.str "x9") (.str "x9") (.arith "1") false)) := by
  refine .instr _ _ (goodInstr_of_canonical rfl ?_ ?_ ?_)
  · exact resolves_lit (v := 1) (bs := [147, 132, 20, 0]) rfl rfl (litImm_dec _ "1" 1 (by decide) (by decide)) (by decide)
  · exact Or.inr ⟨_, 1, rfl, litImm_dec _ "1" 1 (by decide) (by decide)⟩
  · intro _
    refine Or.inr (Or.inr ⟨"c.addi", .ci "c.addi" (.str "x9") (.arith "1"), by decide, by decide, rfl, ?_⟩)
    exact resolves_lit (v := 1) (bs := [133, 4]) rfl rfl (litImm_dec _ "1" 1 (by decide) (by decide)) (by decide)

theorem faultPre_good (c : Bool) : ∀ y ∈ faultPre, GoodItem exHooks c y := by
  intro y hy
  simp only [faultPre, List.mem_cons, List.not_mem_nil, or_false] at hy
  rcases hy with rfl | rfl | rfl
  · exact .label _ _
  · exact good_lui_at c
  · exact good_addi_at c

theorem faultPost_good (c : Bool) : ∀ y ∈ faultPost, GoodItem exHooks c y := by
  intro y hy
  simp only [faultPost, List.mem_cons, List.not_mem_nil, or_false] at hy
  rcases hy with rfl | rfl
  · exact .shorthand _ "dw" "<I" _ 4 7 [7, 0, 0, 0] (by decide) (litImm_dec _ "7" 7 (by decide) (by decide)) (by decide) (by decide)
  · exact .label _ _

/-- **C15 on source text, evaluated**: the six-line program with `addi x5, x6, 2048` on line 4
    is refused, with and without `-c`, with the AssemblerError that names line 4 of `<string>` and
    carries that line's text — which is the fourth line of the text. -/
theorem fault_text_example (c : Bool) :
    assembleText ⟨[], []⟩ "/" [] c (.source faultText) = .error (.asm (sl 4 "addi x5, x6, 2048")) ∧
    (splitLines faultText.toList)[4 - 1]? = some "addi x5, x6, 2048".toList := by
  have h := text_error_line ⟨[], []⟩ "/" [] c faultText _ (sl 4 "addi x5, x6, 2048") (by decide) (by decide)
    (by decide) faultText_plain faultText_frontEnd
    (encoder_fault_reported faultPre faultPost _ _ (faultPre_good c) (faultPost_good c) (by decide) rfl
      (Or.inr ⟨_, 2048, rfl, litImm_dec _ "2048" 2048 (by decide) (by decide), by decide⟩)
      (fun _ => Or.inr (Or.inl (by decide))))
  exact ⟨h.1, h.2.2.2⟩

end BB.Props.C15

/-! ## the same instance through C06: the operands of line 4 are not legal per the specification -/

namespace BB.Props.C06
open BB BB.Spec BB.Lemmas BB.Props.C15

/-- **C06 on source text**: `addi x5, x6, 2048` (one past the I-immediate range of the ISA manual,
    `legal32`) on line 4 of the six-line text makes `assemble()` fail, both modes, with the
    AssemblerError of line 4 — nothing is emitted, nothing truncated -/
theorem unrepresentable_refused_text_example (c : Bool) :
    assembleText ⟨[], []⟩ "/" [] c (.source faultText) = .error (.asm (sl 4 "addi x5, x6, 2048")) ∧
    RawLineOfFile "<string>" faultText.toList (sl 4 "addi x5, x6, 2048") := by
  refine text_error_line ⟨[], []⟩ "/" [] c faultText _ _ (by decide) (by decide) (by decide)
    faultText_plain faultText_frontEnd ?_
  refine unrepresentable_refused_program faultPre faultPost _ _ (.i "addi" (.str "x5") (.str "x6") (.value 2048) false)
    (.i 0b0010011 0b000) (faultPre_good c) (faultPost_good c) (by decide) (by decide) rfl
    (Or.inr ⟨_, 2048, rfl, BB.Props.C15.litImm_dec _ "2048" 2048 (by decide) (by decide), rfl⟩) (by decide) ?_
    (fun _ => Or.inr (Or.inl (by decide)))
  intro args ha
  simp only [Instr.args, Option.some.injEq] at ha
  subst ha
  decide

end BB.Props.C06
