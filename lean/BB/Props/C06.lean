/-
  BB.Props.C06 — acceptance ⇔ legality, both widths.

  An encoder call is accepted exactly when its arguments denote operands that the ISA manual /
  instruction reference call legal (`Spec/Legal`).  Direction `→` is C01/C02 soundness; direction
  `←` (completeness) is proved here per encoder kind from the `_eq` lemmas: if the registers resolve
  and the immediates satisfy the legal bounds, every `if` of the encoder takes its `else` branch.
-/
import BB.Props.C02
set_option linter.unusedSimpArgs false
set_option linter.unusedVariables false
namespace BB.Props.C06
open BB BB.Spec BB.Lemmas BB.Props.C01 BB.Props.C02

/-! ### what a successful `denote` says about the arguments -/

theorem denoteReg_some {x : RegOp} {o : Opnd} (h : denoteReg x = some o) :
    ∃ n, lookupRegister x = some n ∧ o = .reg n := by
  unfold denoteReg at h
  cases hx : lookupRegister x with
  | none => simp [hx] at h
  | some n => simp [hx] at h; exact ⟨n, rfl, h.symm⟩

theorem denoteInt_some {x : RegOp} {o : Opnd} (h : denoteInt x = some o) :
    ∃ i, intOrParse x = .ok i ∧ o = .imm i := by
  cases x with
  | int j => simp [denoteInt] at h; exact ⟨j, rfl, h.symm⟩
  | str s =>
    simp only [denoteInt] at h
    cases hp : pyInt0 s.toList with
    | none => simp [hp] at h
    | some i => simp [hp] at h; exact ⟨i, by simp [intOrParse, hp], h.symm⟩

theorem den1 {a : RegOp} {t ops : List Opnd}
    (h : (do let x ← denoteReg a; pure (x :: t) : Option (List Opnd)) = some ops) :
    ∃ ra, lookupRegister a = some ra ∧ ra < 32 ∧ lookR a = .ok ra ∧ ops = .reg ra :: t := by
  cases hx : denoteReg a with
  | none => simp [hx] at h
  | some x =>
    simp [hx] at h
    obtain ⟨ra, ha, rfl⟩ := denoteReg_some hx
    exact ⟨ra, ha, lookupRegister_lt ha, lookR_ok.mpr ha, h.symm⟩

theorem den2 {a b : RegOp} {t ops : List Opnd}
    (h : (do let x ← denoteReg a; let y ← denoteReg b; pure (x :: y :: t) : Option (List Opnd)) = some ops) :
    ∃ ra rb, lookupRegister a = some ra ∧ lookupRegister b = some rb ∧ ra < 32 ∧ rb < 32 ∧
      lookR a = .ok ra ∧ lookR b = .ok rb ∧ ops = .reg ra :: .reg rb :: t := by
  cases hx : denoteReg a with
  | none => simp [hx] at h
  | some x =>
    cases hy : denoteReg b with
    | none => simp [hx, hy] at h
    | some y =>
      simp [hx, hy] at h
      obtain ⟨ra, ha, rfl⟩ := denoteReg_some hx
      obtain ⟨rb, hb, rfl⟩ := denoteReg_some hy
      exact ⟨ra, rb, ha, hb, lookupRegister_lt ha, lookupRegister_lt hb, lookR_ok.mpr ha, lookR_ok.mpr hb,
        h.symm⟩

theorem den3 {a b c : RegOp} {t ops : List Opnd}
    (h : (do let x ← denoteReg a; let y ← denoteReg b; let z ← denoteReg c; pure (x :: y :: z :: t)
           : Option (List Opnd)) = some ops) :
    ∃ ra rb rc, ra < 32 ∧ rb < 32 ∧ rc < 32 ∧ lookR a = .ok ra ∧ lookR b = .ok rb ∧ lookR c = .ok rc ∧
      ops = .reg ra :: .reg rb :: .reg rc :: t := by
  cases hx : denoteReg a with
  | none => simp [hx] at h
  | some x =>
    cases hy : denoteReg b with
    | none => simp [hx, hy] at h
    | some y =>
      cases hz : denoteReg c with
      | none => simp [hx, hy, hz] at h
      | some z =>
        simp [hx, hy, hz] at h
        obtain ⟨ra, ha, rfl⟩ := denoteReg_some hx
        obtain ⟨rb, hb, rfl⟩ := denoteReg_some hy
        obtain ⟨rc, hc, rfl⟩ := denoteReg_some hz
        exact ⟨ra, rb, rc, lookupRegister_lt ha, lookupRegister_lt hb, lookupRegister_lt hc,
          lookR_ok.mpr ha, lookR_ok.mpr hb, lookR_ok.mpr hc, h.symm⟩

-- keep only the alternative of `denote32`/`denote16` whose kind matches
set_option hygiene false in
macro "pick_kind" h:ident : tactic =>
  `(tactic| (split at $h:ident
             all_goals first
               | ((rename_i heq; cases heq) <;> skip)
               | (simp at $h:ident)))

theorem ofOpt_some (x : Nat) : ofOpt (some x) = .ok x := rfl

/-! ### 32-bit completeness -/

def Complete32 (name : String) (k : EncKind) : Prop :=
  ∀ args ops, denote32 k args = some ops → legal32 name ops = true → ∃ w, encodeKind k args = .ok w

theorem complete_r {name : String} {op f3 f7 : Nat} : Complete32 name (.r op f3 f7) := by
  intro args ops hd hleg
  unfold denote32 at hd
  pick_kind hd
  rename_i a b c
  obtain ⟨ra, rb, rc, h1, h2, h3, la, lb, lc, rfl⟩ := den3 hd
  apply Exists.intro
  simp only [encodeKind, encR, la, lb, lc, bind, Except.bind, pure, Except.pure]
  rfl

theorem complete_i {name : String} {c : Mn32} {op f3 : Nat} (hc : classOf name = some c) (hop : op < 128)
    (hf3 : f3 < 8)
    (hl : ∀ rd rs1 v, legalOf c [.reg rd, .reg rs1, .imm v] = true → -2048 ≤ v ∧ v ≤ 2047) :
    Complete32 name (.i op f3) := by
  intro args ops hd hleg
  unfold denote32 at hd
  pick_kind hd
  rename_i a b v
  obtain ⟨ra, rb, _, _, h1, h2, la, lb, rfl⟩ := den2 hd
  simp only [legal32, hc] at hleg
  obtain ⟨r0, r1⟩ := hl _ _ _ hleg
  apply Exists.intro
  simp only [encodeKind, encI, la, lb, bind, Except.bind]
  rw [iTypeN_eq _ _ _ _ _ h1 h2 hop hf3, if_neg (by omega)]
  rfl

theorem complete_ij {name : String} {c : Mn32} {op f3 : Nat} (hc : classOf name = some c) (hop : op < 128)
    (hf3 : f3 < 8)
    (hl : ∀ rd rs1 v, legalOf c [.reg rd, .reg rs1, .imm v] = true → -2048 ≤ v ∧ v ≤ 2047 ∧ v % 2 = 0) :
    Complete32 name (.ij op f3) := by
  intro args ops hd hleg
  unfold denote32 at hd
  pick_kind hd
  rename_i a b v
  obtain ⟨ra, rb, _, _, h1, h2, la, lb, rfl⟩ := den2 hd
  simp only [legal32, hc] at hleg
  obtain ⟨r0, r1, r2⟩ := hl _ _ _ hleg
  apply Exists.intro
  simp only [encodeKind, encIj, la, lb, bind, Except.bind]
  rw [ijTypeN_eq _ _ _ _ _ h1 h2 hop hf3, if_neg (by omega), if_neg (by omega)]
  rfl

theorem complete_s {name : String} {c : Mn32} {op f3 : Nat} (hc : classOf name = some c) (hop : op < 128)
    (hf3 : f3 < 8)
    (hl : ∀ rs1 rs2 v, legalOf c [.reg rs1, .reg rs2, .imm v] = true → -2048 ≤ v ∧ v ≤ 2047) :
    Complete32 name (.s op f3) := by
  intro args ops hd hleg
  unfold denote32 at hd
  pick_kind hd
  rename_i a b v
  obtain ⟨ra, rb, _, _, h1, h2, la, lb, rfl⟩ := den2 hd
  simp only [legal32, hc] at hleg
  obtain ⟨r0, r1⟩ := hl _ _ _ hleg
  apply Exists.intro
  simp only [encodeKind, encS, la, lb, bind, Except.bind]
  rw [sTypeN_eq _ _ _ _ _ h1 h2 hop hf3, if_neg (by omega)]
  rfl

theorem complete_b {name : String} {c : Mn32} {op f3 : Nat} (hc : classOf name = some c) (hop : op < 128)
    (hf3 : f3 < 8)
    (hl : ∀ rs1 rs2 v, legalOf c [.reg rs1, .reg rs2, .imm v] = true → -4096 ≤ v ∧ v ≤ 4095 ∧ v % 2 = 0) :
    Complete32 name (.b op f3) := by
  intro args ops hd hleg
  unfold denote32 at hd
  pick_kind hd
  rename_i a b v
  obtain ⟨ra, rb, _, _, h1, h2, la, lb, rfl⟩ := den2 hd
  simp only [legal32, hc] at hleg
  obtain ⟨r0, r1, r2⟩ := hl _ _ _ hleg
  apply Exists.intro
  simp only [encodeKind, encB, la, lb, bind, Except.bind]
  rw [bTypeN_eq _ _ _ _ _ h1 h2 hop hf3, if_neg (by omega), if_neg (by omega)]
  rfl

theorem complete_u {name : String} {c : Mn32} {op : Nat} (hc : classOf name = some c) (hop : op < 128)
    (hl : ∀ rd v, legalOf c [.reg rd, .imm v] = true → -524288 ≤ v ∧ v ≤ 1048575) :
    Complete32 name (.u op) := by
  intro args ops hd hleg
  unfold denote32 at hd
  pick_kind hd
  rename_i a v
  obtain ⟨ra, _, h1, la, rfl⟩ := den1 hd
  simp only [legal32, hc] at hleg
  obtain ⟨r0, r1⟩ := hl _ _ hleg
  apply Exists.intro
  simp only [encodeKind, encU, la, bind, Except.bind]
  rw [uTypeN_eq _ _ _ h1 hop, if_neg (by omega)]
  rfl

theorem complete_j {name : String} {c : Mn32} {op : Nat} (hc : classOf name = some c) (hop : op < 128)
    (hl : ∀ rd v, legalOf c [.reg rd, .imm v] = true → -1048576 ≤ v ∧ v ≤ 1048575 ∧ v % 2 = 0) :
    Complete32 name (.j op) := by
  intro args ops hd hleg
  unfold denote32 at hd
  pick_kind hd
  rename_i a v
  obtain ⟨ra, _, h1, la, rfl⟩ := den1 hd
  simp only [legal32, hc] at hleg
  obtain ⟨r0, r1, r2⟩ := hl _ _ hleg
  apply Exists.intro
  simp only [encodeKind, encJ, la, bind, Except.bind]
  rw [jTypeN_eq _ _ _ h1 hop, if_neg (by omega), if_neg (by omega)]
  rfl

theorem complete_ie {name : String} {op f3 imm : Nat} (hop : op < 128) (hf3 : f3 < 8) (himm : imm < 2048) :
    Complete32 name (.ie op f3 imm) := by
  intro args ops hd hleg
  unfold denote32 at hd
  pick_kind hd
  apply Exists.intro
  simp only [encodeKind, encIe]
  rw [iTypeN_eq _ _ _ _ _ (by omega) (by omega) hop hf3]
  simp only [Int.ofNat_eq_natCast]
  rw [if_neg (by omega)]
  rfl

theorem denI2 {s p : RegOp} {ops : List Opnd}
    (h : (do pure [← denoteInt s, ← denoteInt p] : Option (List Opnd)) = some ops) :
    ∃ i j, intOrParse s = .ok i ∧ intOrParse p = .ok j ∧ ops = [.imm i, .imm j] := by
  cases hx : denoteInt s with
  | none => simp [hx] at h
  | some x =>
    cases hy : denoteInt p with
    | none => simp [hx, hy] at h
    | some y =>
      simp [hx, hy] at h
      obtain ⟨i, hi, rfl⟩ := denoteInt_some hx
      obtain ⟨j, hj, rfl⟩ := denoteInt_some hy
      exact ⟨i, j, hi, hj, h.symm⟩

theorem complete_fence {name : String} {c : Mn32} {op f3 : Nat} (hc : classOf name = some c) (hop : op < 128)
    (hf3 : f3 < 8)
    (hl : ∀ s p : Int, legalOf c [.imm s, .imm p] = true → 0 ≤ s ∧ s ≤ 15 ∧ 0 ≤ p ∧ p ≤ 15) :
    Complete32 name (.fence op f3) := by
  intro args ops hd hleg
  unfold denote32 at hd
  pick_kind hd
  rename_i s p
  obtain ⟨i, j, hi, hj, rfl⟩ := denI2 hd
  simp only [legal32, hc] at hleg
  obtain ⟨r0, r1, r2, r3⟩ := hl _ _ hleg
  apply Exists.intro
  simp only [encodeKind, encFence, hi, hj, bind, Except.bind]
  rw [fenceN_eq _ _ _ _ hop hf3, if_neg (by omega), if_neg (by omega)]
  rfl

theorem denA {a b c q l : RegOp} {ops : List Opnd}
    (h : (do pure [← denoteReg a, ← denoteReg b, ← denoteReg c, ← denoteInt q, ← denoteInt l]
           : Option (List Opnd)) = some ops) :
    ∃ ra rb rc aq rl, ra < 32 ∧ rb < 32 ∧ rc < 32 ∧ lookR a = .ok ra ∧ lookR b = .ok rb ∧ lookR c = .ok rc ∧
      intOrParse q = .ok aq ∧ intOrParse l = .ok rl ∧
      ops = [.reg ra, .reg rb, .reg rc, .imm aq, .imm rl] := by
  cases hx : denoteReg a with
  | none => simp [hx] at h
  | some x =>
  cases hy : denoteReg b with
  | none => simp [hx, hy] at h
  | some y =>
  cases hz : denoteReg c with
  | none => simp [hx, hy, hz] at h
  | some z =>
  cases hq : denoteInt q with
  | none => simp [hx, hy, hz, hq] at h
  | some u =>
  cases hl : denoteInt l with
  | none => simp [hx, hy, hz, hq, hl] at h
  | some v =>
    simp [hx, hy, hz, hq, hl] at h
    obtain ⟨ra, ha, rfl⟩ := denoteReg_some hx
    obtain ⟨rb, hb, rfl⟩ := denoteReg_some hy
    obtain ⟨rc, hc, rfl⟩ := denoteReg_some hz
    obtain ⟨aq, haq, rfl⟩ := denoteInt_some hq
    obtain ⟨rl, hrl, rfl⟩ := denoteInt_some hl
    exact ⟨ra, rb, rc, aq, rl, lookupRegister_lt ha, lookupRegister_lt hb, lookupRegister_lt hc,
      lookR_ok.mpr ha, lookR_ok.mpr hb, lookR_ok.mpr hc, haq, hrl, h.symm⟩

theorem denAl {a b q l : RegOp} {ops : List Opnd}
    (h : (do pure [← denoteReg a, ← denoteReg b, ← denoteInt q, ← denoteInt l]
           : Option (List Opnd)) = some ops) :
    ∃ ra rb aq rl, ra < 32 ∧ rb < 32 ∧ lookR a = .ok ra ∧ lookR b = .ok rb ∧
      intOrParse q = .ok aq ∧ intOrParse l = .ok rl ∧
      ops = [.reg ra, .reg rb, .imm aq, .imm rl] := by
  cases hx : denoteReg a with
  | none => simp [hx] at h
  | some x =>
  cases hy : denoteReg b with
  | none => simp [hx, hy] at h
  | some y =>
  cases hq : denoteInt q with
  | none => simp [hx, hy, hq] at h
  | some u =>
  cases hl : denoteInt l with
  | none => simp [hx, hy, hq, hl] at h
  | some v =>
    simp [hx, hy, hq, hl] at h
    obtain ⟨ra, ha, rfl⟩ := denoteReg_some hx
    obtain ⟨rb, hb, rfl⟩ := denoteReg_some hy
    obtain ⟨aq, haq, rfl⟩ := denoteInt_some hq
    obtain ⟨rl, hrl, rfl⟩ := denoteInt_some hl
    exact ⟨ra, rb, aq, rl, lookupRegister_lt ha, lookupRegister_lt hb,
      lookR_ok.mpr ha, lookR_ok.mpr hb, haq, hrl, h.symm⟩

theorem complete_a {name : String} {c : Mn32} {op f3 f5 : Nat} (hc : classOf name = some c) (hop : op < 128)
    (hf3 : f3 < 8)
    (hl : ∀ rd rs1 rs2 (aq rl : Int), legalOf c [.reg rd, .reg rs1, .reg rs2, .imm aq, .imm rl] = true →
      (aq = 0 ∨ aq = 1) ∧ (rl = 0 ∨ rl = 1)) :
    Complete32 name (.a op f3 f5) := by
  intro args ops hd hleg
  unfold denote32 at hd
  pick_kind hd
  rename_i a b c' q l
  obtain ⟨ra, rb, rc, aq, rl, h1, h2, h3, la, lb, lc, hq, hl', rfl⟩ := denA hd
  simp only [legal32, hc] at hleg
  obtain ⟨haq, hrl⟩ := hl _ _ _ _ _ hleg
  apply Exists.intro
  simp only [encodeKind, encA, hq, hl', bind, Except.bind]
  simp only [haq, hrl, not_true_eq_false, ↓reduceIte]
  simp only [la, lb, lc]
  rw [aTypeN_eq _ _ _ _ _ _ _ _ h1 h2 h3 hop hf3 haq hrl]
  rfl

theorem complete_al {name : String} {c : Mn32} {op f3 f5 : Nat} (hc : classOf name = some c) (hop : op < 128)
    (hf3 : f3 < 8)
    (hl : ∀ rd rs1 (aq rl : Int), legalOf c [.reg rd, .reg rs1, .imm aq, .imm rl] = true →
      (aq = 0 ∨ aq = 1) ∧ (rl = 0 ∨ rl = 1)) :
    Complete32 name (.al op f3 f5) := by
  intro args ops hd hleg
  unfold denote32 at hd
  pick_kind hd
  rename_i a b q l
  obtain ⟨ra, rb, aq, rl, h1, h2, la, lb, hq, hl', rfl⟩ := denAl hd
  simp only [legal32, hc] at hleg
  obtain ⟨haq, hrl⟩ := hl _ _ _ _ hleg
  apply Exists.intro
  simp only [encodeKind, encAl, hq, hl', bind, Except.bind]
  simp only [haq, hrl, not_true_eq_false, ↓reduceIte]
  simp only [la, lb]
  rw [aTypeN_eq _ _ _ _ _ _ _ _ h1 h2 (by omega) hop hf3 haq hrl]
  rfl

-- `legalOf c ops = true` unpacked into the encoder's numeric conditions
set_option hygiene false in
macro "l32" : tactic =>
  `(tactic| (intros; rename_i hh; simp [legalOf, isReg, simm, uimm, multOf] at hh; omega))

/-! #### the 66 rows -/
theorem c32_slli : Complete32 "slli" (.r 19 1 0) :=
  complete_r
theorem c32_srli : Complete32 "srli" (.r 19 5 0) :=
  complete_r
theorem c32_srai : Complete32 "srai" (.r 19 5 32) :=
  complete_r
theorem c32_add : Complete32 "add" (.r 51 0 0) :=
  complete_r
theorem c32_sub : Complete32 "sub" (.r 51 0 32) :=
  complete_r
theorem c32_sll : Complete32 "sll" (.r 51 1 0) :=
  complete_r
theorem c32_slt : Complete32 "slt" (.r 51 2 0) :=
  complete_r
theorem c32_sltu : Complete32 "sltu" (.r 51 3 0) :=
  complete_r
theorem c32_xor : Complete32 "xor" (.r 51 4 0) :=
  complete_r
theorem c32_srl : Complete32 "srl" (.r 51 5 0) :=
  complete_r
theorem c32_sra : Complete32 "sra" (.r 51 5 32) :=
  complete_r
theorem c32_or : Complete32 "or" (.r 51 6 0) :=
  complete_r
theorem c32_and : Complete32 "and" (.r 51 7 0) :=
  complete_r
theorem c32_mul : Complete32 "mul" (.r 51 0 1) :=
  complete_r
theorem c32_mulh : Complete32 "mulh" (.r 51 1 1) :=
  complete_r
theorem c32_mulhsu : Complete32 "mulhsu" (.r 51 2 1) :=
  complete_r
theorem c32_mulhu : Complete32 "mulhu" (.r 51 3 1) :=
  complete_r
theorem c32_div : Complete32 "div" (.r 51 4 1) :=
  complete_r
theorem c32_divu : Complete32 "divu" (.r 51 5 1) :=
  complete_r
theorem c32_rem : Complete32 "rem" (.r 51 6 1) :=
  complete_r
theorem c32_remu : Complete32 "remu" (.r 51 7 1) :=
  complete_r
theorem c32_jalr : Complete32 "jalr" (.ij 103 0) :=
  complete_ij (c := .jalr) (by decide) (by omega) (by omega) (by l32)
theorem c32_lb : Complete32 "lb" (.i 3 0) :=
  complete_i (c := .ld .lb) (by decide) (by omega) (by omega) (by l32)
theorem c32_lh : Complete32 "lh" (.i 3 1) :=
  complete_i (c := .ld .lh) (by decide) (by omega) (by omega) (by l32)
theorem c32_lw : Complete32 "lw" (.i 3 2) :=
  complete_i (c := .ld .lw) (by decide) (by omega) (by omega) (by l32)
theorem c32_lbu : Complete32 "lbu" (.i 3 4) :=
  complete_i (c := .ld .lbu) (by decide) (by omega) (by omega) (by l32)
theorem c32_lhu : Complete32 "lhu" (.i 3 5) :=
  complete_i (c := .ld .lhu) (by decide) (by omega) (by omega) (by l32)
theorem c32_addi : Complete32 "addi" (.i 19 0) :=
  complete_i (c := .i .addi) (by decide) (by omega) (by omega) (by l32)
theorem c32_slti : Complete32 "slti" (.i 19 2) :=
  complete_i (c := .i .slti) (by decide) (by omega) (by omega) (by l32)
theorem c32_sltiu : Complete32 "sltiu" (.i 19 3) :=
  complete_i (c := .i .sltiu) (by decide) (by omega) (by omega) (by l32)
theorem c32_xori : Complete32 "xori" (.i 19 4) :=
  complete_i (c := .i .xori) (by decide) (by omega) (by omega) (by l32)
theorem c32_ori : Complete32 "ori" (.i 19 6) :=
  complete_i (c := .i .ori) (by decide) (by omega) (by omega) (by l32)
theorem c32_andi : Complete32 "andi" (.i 19 7) :=
  complete_i (c := .i .andi) (by decide) (by omega) (by omega) (by l32)
theorem c32_csrrw : Complete32 "csrrw" (.i 115 1) :=
  complete_i (c := .csr .csrrw) (by decide) (by omega) (by omega) (by l32)
theorem c32_csrrs : Complete32 "csrrs" (.i 115 2) :=
  complete_i (c := .csr .csrrs) (by decide) (by omega) (by omega) (by l32)
theorem c32_csrrc : Complete32 "csrrc" (.i 115 3) :=
  complete_i (c := .csr .csrrc) (by decide) (by omega) (by omega) (by l32)
theorem c32_csrrwi : Complete32 "csrrwi" (.i 115 5) :=
  complete_i (c := .csr .csrrwi) (by decide) (by omega) (by omega) (by l32)
theorem c32_csrrsi : Complete32 "csrrsi" (.i 115 6) :=
  complete_i (c := .csr .csrrsi) (by decide) (by omega) (by omega) (by l32)
theorem c32_csrrci : Complete32 "csrrci" (.i 115 7) :=
  complete_i (c := .csr .csrrci) (by decide) (by omega) (by omega) (by l32)
theorem c32_ecall : Complete32 "ecall" (.ie 115 0 0) :=
  complete_ie (by omega) (by omega) (by omega)
theorem c32_ebreak : Complete32 "ebreak" (.ie 115 0 1) :=
  complete_ie (by omega) (by omega) (by omega)
theorem c32_fence_i : Complete32 "fence.i" (.ie 15 1 0) :=
  complete_ie (by omega) (by omega) (by omega)
theorem c32_sb : Complete32 "sb" (.s 35 0) :=
  complete_s (c := .st .sb) (by decide) (by omega) (by omega) (by l32)
theorem c32_sh : Complete32 "sh" (.s 35 1) :=
  complete_s (c := .st .sh) (by decide) (by omega) (by omega) (by l32)
theorem c32_sw : Complete32 "sw" (.s 35 2) :=
  complete_s (c := .st .sw) (by decide) (by omega) (by omega) (by l32)
theorem c32_beq : Complete32 "beq" (.b 99 0) :=
  complete_b (c := .br .beq) (by decide) (by omega) (by omega) (by l32)
theorem c32_bne : Complete32 "bne" (.b 99 1) :=
  complete_b (c := .br .bne) (by decide) (by omega) (by omega) (by l32)
theorem c32_blt : Complete32 "blt" (.b 99 4) :=
  complete_b (c := .br .blt) (by decide) (by omega) (by omega) (by l32)
theorem c32_bge : Complete32 "bge" (.b 99 5) :=
  complete_b (c := .br .bge) (by decide) (by omega) (by omega) (by l32)
theorem c32_bltu : Complete32 "bltu" (.b 99 6) :=
  complete_b (c := .br .bltu) (by decide) (by omega) (by omega) (by l32)
theorem c32_bgeu : Complete32 "bgeu" (.b 99 7) :=
  complete_b (c := .br .bgeu) (by decide) (by omega) (by omega) (by l32)
theorem c32_lui : Complete32 "lui" (.u 55) :=
  complete_u (c := .lui) (by decide) (by omega) (by l32)
theorem c32_auipc : Complete32 "auipc" (.u 23) :=
  complete_u (c := .auipc) (by decide) (by omega) (by l32)
theorem c32_jal : Complete32 "jal" (.j 111) :=
  complete_j (c := .jal) (by decide) (by omega) (by l32)
theorem c32_fence : Complete32 "fence" (.fence 15 0) :=
  complete_fence (c := .fence) (by decide) (by omega) (by omega) (by l32)
theorem c32_sc_w : Complete32 "sc.w" (.a 47 2 3) :=
  complete_a (c := .sc) (by decide) (by omega) (by omega) (by l32)
theorem c32_amoswap_w : Complete32 "amoswap.w" (.a 47 2 1) :=
  complete_a (c := .amo .swap) (by decide) (by omega) (by omega) (by l32)
theorem c32_amoadd_w : Complete32 "amoadd.w" (.a 47 2 0) :=
  complete_a (c := .amo .add) (by decide) (by omega) (by omega) (by l32)
theorem c32_amoxor_w : Complete32 "amoxor.w" (.a 47 2 4) :=
  complete_a (c := .amo .xor) (by decide) (by omega) (by omega) (by l32)
theorem c32_amoand_w : Complete32 "amoand.w" (.a 47 2 12) :=
  complete_a (c := .amo .and) (by decide) (by omega) (by omega) (by l32)
theorem c32_amoor_w : Complete32 "amoor.w" (.a 47 2 8) :=
  complete_a (c := .amo .or) (by decide) (by omega) (by omega) (by l32)
theorem c32_amomin_w : Complete32 "amomin.w" (.a 47 2 16) :=
  complete_a (c := .amo .min) (by decide) (by omega) (by omega) (by l32)
theorem c32_amomax_w : Complete32 "amomax.w" (.a 47 2 20) :=
  complete_a (c := .amo .max) (by decide) (by omega) (by omega) (by l32)
theorem c32_amominu_w : Complete32 "amominu.w" (.a 47 2 24) :=
  complete_a (c := .amo .minu) (by decide) (by omega) (by omega) (by l32)
theorem c32_amomaxu_w : Complete32 "amomaxu.w" (.a 47 2 28) :=
  complete_a (c := .amo .maxu) (by decide) (by omega) (by omega) (by l32)
theorem c32_lr_w : Complete32 "lr.w" (.al 47 2 2) :=
  complete_al (c := .lr) (by decide) (by omega) (by omega) (by l32)

/-- completeness for the whole 32-bit table -/
theorem complete32 : ∀ e ∈ instrTable, e.2.size = 4 → Complete32 e.1 e.2 := by
  unfold instrTable
  simp only [List.forall_mem_cons]
  exact ⟨(fun _ => c32_slli),
    (fun _ => c32_srli),
    (fun _ => c32_srai),
    (fun _ => c32_add),
    (fun _ => c32_sub),
    (fun _ => c32_sll),
    (fun _ => c32_slt),
    (fun _ => c32_sltu),
    (fun _ => c32_xor),
    (fun _ => c32_srl),
    (fun _ => c32_sra),
    (fun _ => c32_or),
    (fun _ => c32_and),
    (fun _ => c32_mul),
    (fun _ => c32_mulh),
    (fun _ => c32_mulhsu),
    (fun _ => c32_mulhu),
    (fun _ => c32_div),
    (fun _ => c32_divu),
    (fun _ => c32_rem),
    (fun _ => c32_remu),
    (fun _ => c32_jalr),
    (fun _ => c32_lb),
    (fun _ => c32_lh),
    (fun _ => c32_lw),
    (fun _ => c32_lbu),
    (fun _ => c32_lhu),
    (fun _ => c32_addi),
    (fun _ => c32_slti),
    (fun _ => c32_sltiu),
    (fun _ => c32_xori),
    (fun _ => c32_ori),
    (fun _ => c32_andi),
    (fun _ => c32_csrrw),
    (fun _ => c32_csrrs),
    (fun _ => c32_csrrc),
    (fun _ => c32_csrrwi),
    (fun _ => c32_csrrsi),
    (fun _ => c32_csrrci),
    (fun _ => c32_ecall),
    (fun _ => c32_ebreak),
    (fun _ => c32_fence_i),
    (fun _ => c32_sb),
    (fun _ => c32_sh),
    (fun _ => c32_sw),
    (fun _ => c32_beq),
    (fun _ => c32_bne),
    (fun _ => c32_blt),
    (fun _ => c32_bge),
    (fun _ => c32_bltu),
    (fun _ => c32_bgeu),
    (fun _ => c32_lui),
    (fun _ => c32_auipc),
    (fun _ => c32_jal),
    (fun _ => c32_fence),
    (fun _ => c32_sc_w),
    (fun _ => c32_amoswap_w),
    (fun _ => c32_amoadd_w),
    (fun _ => c32_amoxor_w),
    (fun _ => c32_amoand_w),
    (fun _ => c32_amoor_w),
    (fun _ => c32_amomin_w),
    (fun _ => c32_amomax_w),
    (fun _ => c32_amominu_w),
    (fun _ => c32_amomaxu_w),
    (fun _ => c32_lr_w),
    (fun h => by simp [EncKind.size] at h),
    (fun h => by simp [EncKind.size] at h),
    (fun h => by simp [EncKind.size] at h),
    (fun h => by simp [EncKind.size] at h),
    (fun h => by simp [EncKind.size] at h),
    (fun h => by simp [EncKind.size] at h),
    (fun h => by simp [EncKind.size] at h),
    (fun h => by simp [EncKind.size] at h),
    (fun h => by simp [EncKind.size] at h),
    (fun h => by simp [EncKind.size] at h),
    (fun h => by simp [EncKind.size] at h),
    (fun h => by simp [EncKind.size] at h),
    (fun h => by simp [EncKind.size] at h),
    (fun h => by simp [EncKind.size] at h),
    (fun h => by simp [EncKind.size] at h),
    (fun h => by simp [EncKind.size] at h),
    (fun h => by simp [EncKind.size] at h),
    (fun h => by simp [EncKind.size] at h),
    (fun h => by simp [EncKind.size] at h),
    (fun h => by simp [EncKind.size] at h),
    (fun h => by simp [EncKind.size] at h),
    (fun h => by simp [EncKind.size] at h),
    (fun h => by simp [EncKind.size] at h),
    (fun h => by simp [EncKind.size] at h),
    (fun h => by simp [EncKind.size] at h),
    (fun h => by simp [EncKind.size] at h),
    (fun h => by simp [EncKind.size] at h),
    by simp⟩

/-- **C06 (32-bit).**  A 32-bit encoder call is accepted exactly when its arguments denote legal
    operands. -/
theorem accept32_iff_legal : ∀ e ∈ instrTable, e.2.size = 4 → ∀ args,
    (∃ w, encodeKind e.2 args = .ok w) ↔
      (∃ ops, denote32 e.2 args = some ops ∧ legal32 e.1 ops = true) := by
  intro e he hs args
  constructor
  · rintro ⟨w, hw⟩
    obtain ⟨ops, hd, hl, _⟩ := enc32_sound e he hs args w hw
    exact ⟨ops, hd, hl⟩
  · rintro ⟨ops, hd, hl⟩
    exact complete32 e he hs args ops hd hl


/-! ### 16-bit completeness -/

def Complete16 (c : CMn) (k : EncKind) : Prop :=
  ∀ args ops, denote16 k args = some ops → legalOf16 c ops = true → ∃ w, encodeKind k args = .ok w

theorem not_csOk_of {cs : List Constraint} {a : CArgs} (h : csOk cs a = true) : ¬ (!csOk cs a) = true := by
  simp [h]

theorem lookRC_of {x : RegOp} {n : Nat} (h : lookupRegister x = some n) (h8 : 8 ≤ n) (h15 : n ≤ 15) :
    lookRC x = .ok (n - 8) := lookRC_ok.mpr (lookupRegisterC_of h h8 h15)

theorem complete_cr {c : CMn} {op f4 : Nat} {cs : List Constraint} (hop : op < 4)
    (hl : ∀ rd rs2, legalOf16 c [.reg rd, .reg rs2] = true → csOk cs { rdRs1 := rd, rs2 := rs2 } = true) :
    Complete16 c (.cr op f4 cs) := by
  intro args ops hd hleg
  unfold denote16 at hd
  pick_kind hd
  rename_i a b
  obtain ⟨ra, rb, _, _, h1, h2, la, lb, rfl⟩ := den2 hd
  have hcs := hl _ _ hleg
  apply Exists.intro
  simp only [encodeKind, encCr, la, lb, bind, Except.bind]
  rw [crTypeN_eq _ _ _ _ _ h1 h2 hop, if_neg (not_csOk_of hcs)]
  rfl

theorem complete_crj {c : CMn} {op f4 : Nat} {cs : List Constraint} (hop : op < 4)
    (hl : ∀ rd, legalOf16 c [.reg rd] = true → csOk cs { rdRs1 := rd, rs2 := 0 } = true) :
    Complete16 c (.crj op f4 cs) := by
  intro args ops hd hleg
  unfold denote16 at hd
  pick_kind hd
  rename_i a
  obtain ⟨ra, _, h1, la, rfl⟩ := den1 hd
  have hcs := hl _ hleg
  apply Exists.intro
  simp only [encodeKind, encCrj, la, bind, Except.bind]
  rw [crTypeN_eq _ _ _ _ _ h1 (by omega) hop, if_neg (not_csOk_of hcs)]
  rfl

theorem complete_cre {c : CMn} {op f4 : Nat} (hop : op < 4) : Complete16 c (.cre op f4) := by
  intro args ops hd hleg
  unfold denote16 at hd
  pick_kind hd
  apply Exists.intro
  simp only [encodeKind, encCre]
  rw [crTypeN_eq _ _ _ _ _ (by omega) (by omega) hop, if_neg (by simp [csOk])]
  rfl

theorem complete_ci {c : CMn} {op f3 : Nat} {cs : List Constraint} (hop : op < 4)
    (hl : ∀ rd v, legalOf16 c [.reg rd, .imm v] = true →
      -32 ≤ v ∧ v ≤ 31 ∧ csOk cs { rdRs1 := rd, imm := v } = true) :
    Complete16 c (.ci op f3 cs) := by
  intro args ops hd hleg
  unfold denote16 at hd
  pick_kind hd
  rename_i a v
  obtain ⟨ra, _, h1, la, rfl⟩ := den1 hd
  obtain ⟨r0, r1, hcs⟩ := hl _ _ hleg
  apply Exists.intro
  simp only [encodeKind, encCi, la, bind, Except.bind]
  rw [ciTypeN_eq _ _ _ _ _ h1 hop, if_neg (by omega), if_neg (not_csOk_of hcs)]
  rfl

theorem complete_cin {c : CMn} {op f3 : Nat} (hop : op < 4) : Complete16 c (.cin op f3) := by
  intro args ops hd hleg
  unfold denote16 at hd
  pick_kind hd
  apply Exists.intro
  simp only [encodeKind, encCin]
  rw [ciTypeN_eq _ _ _ _ _ (by omega) hop, if_neg (by omega), if_neg (by simp [csOk])]
  rfl

theorem complete_ciu {c : CMn} {op f3 : Nat} {cs : List Constraint} (hop : op < 4)
    (hl : ∀ rd v, legalOf16 c [.reg rd, .imm v] = true →
      ((-32 ≤ v ∧ v ≤ 31) ∨ (1048544 ≤ v ∧ v ≤ 1048575)) ∧
      csOk cs { rdRs1 := rd, imm := if v ≥ 1048544 then v - 1048576 else v } = true) :
    Complete16 c (.ciu op f3 cs) := by
  intro args ops hd hleg
  unfold denote16 at hd
  pick_kind hd
  rename_i a v
  obtain ⟨ra, _, h1, la, rfl⟩ := den1 hd
  obtain ⟨hr, hcs⟩ := hl _ _ hleg
  have hv : (if v ≥ 0xfffe0 ∧ v ≤ 0xfffff then v - 1048576 else v)
      = (if v ≥ 1048544 then v - 1048576 else v) := by
    split <;> split <;> omega
  have key : ∀ v' : Int, -32 ≤ v' → v' ≤ 31 → csOk cs { rdRs1 := ra, imm := v' } = true →
      ∃ w, ofOpt (ciTypeN ra v' op f3 cs) = .ok w := by
    intro v' r0 r1 hc
    rw [ciTypeN_eq _ _ _ _ _ h1 hop, if_neg (by omega), if_neg (not_csOk_of hc)]
    exact ⟨_, rfl⟩
  simp only [encodeKind, encCiu, la, bind, Except.bind]
  rw [ciuTypeN_eq_ci, hv]
  exact key _ (by split <;> omega) (by split <;> omega) hcs

theorem complete_cia {c : CMn} {op f3 : Nat} {cs : List Constraint} (hop : op < 4)
    (hl : ∀ v, legalOf16 c [.imm v] = true →
      -512 ≤ v ∧ v ≤ 511 ∧ v % 16 = 0 ∧ csOk cs { imm := v } = true) :
    Complete16 c (.cia op f3 cs) := by
  intro args ops hd hleg
  unfold denote16 at hd
  pick_kind hd
  rename_i v
  simp only [Option.some.injEq] at hd
  subst hd
  obtain ⟨r0, r1, r2, hcs⟩ := hl _ hleg
  apply Exists.intro
  simp only [encodeKind, encCia]
  rw [ciaTypeN_eq _ _ _ _ hop, if_neg (by omega), if_neg (by omega), if_neg (not_csOk_of hcs)]
  rfl

theorem complete_cil {c : CMn} {op f3 : Nat} {cs : List Constraint} (hop : op < 4)
    (hl : ∀ rd v, legalOf16 c [.reg rd, .imm v] = true →
      0 ≤ v ∧ v ≤ 255 ∧ v % 4 = 0 ∧ csOk cs { rdRs1 := rd, imm := v } = true) :
    Complete16 c (.cil op f3 cs) := by
  intro args ops hd hleg
  unfold denote16 at hd
  pick_kind hd
  rename_i a v
  obtain ⟨ra, _, h1, la, rfl⟩ := den1 hd
  obtain ⟨r0, r1, r2, hcs⟩ := hl _ _ hleg
  apply Exists.intro
  simp only [encodeKind, encCil, la, bind, Except.bind]
  rw [cilTypeN_eq _ _ _ _ _ h1 hop, if_neg (by omega), if_neg (by omega), if_neg (not_csOk_of hcs)]
  rfl

theorem complete_css {c : CMn} {op f3 : Nat} {cs : List Constraint} (hop : op < 4)
    (hl : ∀ rs2 v, legalOf16 c [.reg rs2, .imm v] = true →
      0 ≤ v ∧ v ≤ 255 ∧ v % 4 = 0 ∧ csOk cs { rs2 := rs2, imm := v } = true) :
    Complete16 c (.css op f3 cs) := by
  intro args ops hd hleg
  unfold denote16 at hd
  pick_kind hd
  rename_i a v
  obtain ⟨ra, _, h1, la, rfl⟩ := den1 hd
  obtain ⟨r0, r1, r2, hcs⟩ := hl _ _ hleg
  apply Exists.intro
  simp only [encodeKind, encCss, la, bind, Except.bind]
  rw [cssTypeN_eq _ _ _ _ _ h1 hop, if_neg (by omega), if_neg (by omega), if_neg (not_csOk_of hcs)]
  rfl

theorem complete_ciw {c : CMn} {op f3 : Nat} {cs : List Constraint} (hop : op < 4)
    (hl : ∀ rd v, legalOf16 c [.reg rd, .imm v] = true →
      8 ≤ rd ∧ rd ≤ 15 ∧ 0 ≤ v ∧ v ≤ 1023 ∧ v % 4 = 0 ∧ csOk cs { rd := rd - 8, imm := v } = true) :
    Complete16 c (.ciw op f3 cs) := by
  intro args ops hd hleg
  unfold denote16 at hd
  pick_kind hd
  rename_i a v
  obtain ⟨ra, ha, _, _, rfl⟩ := den1 hd
  obtain ⟨h8, h15, r0, r1, r2, hcs⟩ := hl _ _ hleg
  apply Exists.intro
  simp only [encodeKind, encCiw, lookRC_of ha h8 h15, bind, Except.bind]
  rw [ciwTypeN_eq _ _ _ _ _ (by omega) hop, if_neg (by omega), if_neg (by omega), if_neg (not_csOk_of hcs)]
  rfl

theorem complete_cl {c : CMn} {op f3 : Nat} {cs : List Constraint} (hop : op < 4)
    (hl : ∀ rd rs1 v, legalOf16 c [.reg rd, .reg rs1, .imm v] = true →
      8 ≤ rd ∧ rd ≤ 15 ∧ 8 ≤ rs1 ∧ rs1 ≤ 15 ∧ 0 ≤ v ∧ v ≤ 127 ∧ v % 4 = 0 ∧
      csOk cs { rd := rd - 8, rs1 := rs1 - 8, imm := v } = true) :
    Complete16 c (.cl op f3 cs) := by
  intro args ops hd hleg
  unfold denote16 at hd
  pick_kind hd
  rename_i a b v
  obtain ⟨ra, rb, ha, hb, _, _, _, _, rfl⟩ := den2 hd
  obtain ⟨h8, h15, g8, g15, r0, r1, r2, hcs⟩ := hl _ _ _ hleg
  apply Exists.intro
  simp only [encodeKind, encCl, lookRC_of ha h8 h15, lookRC_of hb g8 g15, bind, Except.bind]
  rw [clTypeN_eq _ _ _ _ _ _ (by omega) (by omega) hop, if_neg (by omega), if_neg (by omega),
    if_neg (not_csOk_of hcs)]
  rfl

theorem complete_cs {c : CMn} {op f3 : Nat} {cs : List Constraint} (hop : op < 4)
    (hl : ∀ rs1 rs2 v, legalOf16 c [.reg rs1, .reg rs2, .imm v] = true →
      8 ≤ rs1 ∧ rs1 ≤ 15 ∧ 8 ≤ rs2 ∧ rs2 ≤ 15 ∧ 0 ≤ v ∧ v ≤ 127 ∧ v % 4 = 0 ∧
      csOk cs { rs1 := rs1 - 8, rs2 := rs2 - 8, imm := v } = true) :
    Complete16 c (.cs op f3 cs) := by
  intro args ops hd hleg
  unfold denote16 at hd
  pick_kind hd
  rename_i a b v
  obtain ⟨ra, rb, ha, hb, _, _, _, _, rfl⟩ := den2 hd
  obtain ⟨h8, h15, g8, g15, r0, r1, r2, hcs⟩ := hl _ _ _ hleg
  apply Exists.intro
  simp only [encodeKind, encCs, lookRC_of ha h8 h15, lookRC_of hb g8 g15, bind, Except.bind]
  rw [csTypeN_eq _ _ _ _ _ _ (by omega) (by omega) hop, if_neg (by omega), if_neg (by omega),
    if_neg (not_csOk_of hcs)]
  rfl

theorem complete_ca {c : CMn} {op f2 f6 : Nat} {cs : List Constraint} (hop : op < 4) (hf2 : f2 < 4)
    (hl : ∀ rd rs2, legalOf16 c [.reg rd, .reg rs2] = true →
      8 ≤ rd ∧ rd ≤ 15 ∧ 8 ≤ rs2 ∧ rs2 ≤ 15 ∧ csOk cs { rdRs1 := rd - 8, rs2 := rs2 - 8 } = true) :
    Complete16 c (.ca op f2 f6 cs) := by
  intro args ops hd hleg
  unfold denote16 at hd
  pick_kind hd
  rename_i a b
  obtain ⟨ra, rb, ha, hb, _, _, _, _, rfl⟩ := den2 hd
  obtain ⟨h8, h15, g8, g15, hcs⟩ := hl _ _ hleg
  apply Exists.intro
  simp only [encodeKind, encCa, lookRC_of ha h8 h15, lookRC_of hb g8 g15, bind, Except.bind]
  rw [caTypeN_eq _ _ _ _ _ _ (by omega) (by omega) hop hf2, if_neg (not_csOk_of hcs)]
  rfl

theorem complete_cb {c : CMn} {op f3 : Nat} {cs : List Constraint} (hop : op < 4)
    (hl : ∀ rs1 v, legalOf16 c [.reg rs1, .imm v] = true →
      8 ≤ rs1 ∧ rs1 ≤ 15 ∧ -256 ≤ v ∧ v ≤ 255 ∧ v % 2 = 0 ∧ csOk cs { rs1 := rs1 - 8, imm := v } = true) :
    Complete16 c (.cb op f3 cs) := by
  intro args ops hd hleg
  unfold denote16 at hd
  pick_kind hd
  rename_i a v
  obtain ⟨ra, ha, _, _, rfl⟩ := den1 hd
  obtain ⟨h8, h15, r0, r1, r2, hcs⟩ := hl _ _ hleg
  apply Exists.intro
  simp only [encodeKind, encCb, lookRC_of ha h8 h15, bind, Except.bind]
  rw [cbTypeN_eq _ _ _ _ _ (by omega) hop, if_neg (by omega), if_neg (by omega), if_neg (not_csOk_of hcs)]
  rfl

theorem complete_cbi {c : CMn} {op f2 f3 : Nat} {cs : List Constraint} (hop : op < 4) (hf2 : f2 < 4)
    (hl : ∀ rd v, legalOf16 c [.reg rd, .imm v] = true →
      8 ≤ rd ∧ rd ≤ 15 ∧ -32 ≤ v ∧ v ≤ 31 ∧ csOk cs { rdRs1 := rd - 8, imm := v } = true) :
    Complete16 c (.cbi op f2 f3 cs) := by
  intro args ops hd hleg
  unfold denote16 at hd
  pick_kind hd
  rename_i a v
  obtain ⟨ra, ha, _, _, rfl⟩ := den1 hd
  obtain ⟨h8, h15, r0, r1, hcs⟩ := hl _ _ hleg
  apply Exists.intro
  simp only [encodeKind, encCbi, lookRC_of ha h8 h15, bind, Except.bind]
  rw [cbiTypeN_eq _ _ _ _ _ _ (by omega) hop hf2, if_neg (by omega), if_neg (not_csOk_of hcs)]
  rfl

theorem complete_cj {c : CMn} {op f3 : Nat} {cs : List Constraint} (hop : op < 4)
    (hl : ∀ v, legalOf16 c [.imm v] = true →
      -2048 ≤ v ∧ v ≤ 2047 ∧ v % 2 = 0 ∧ csOk cs { imm := v } = true) :
    Complete16 c (.cj op f3 cs) := by
  intro args ops hd hleg
  unfold denote16 at hd
  pick_kind hd
  rename_i v
  simp only [Option.some.injEq] at hd
  subst hd
  obtain ⟨r0, r1, r2, hcs⟩ := hl _ hleg
  apply Exists.intro
  simp only [encodeKind, encCj]
  rw [cjTypeN_eq _ _ _ _ hop, if_neg (by omega), if_neg (by omega), if_neg (not_csOk_of hcs)]
  rfl

-- `legalOf16 c ops = true` unpacked into the encoder's numeric conditions and constraints
set_option hygiene false in
macro "l16" : tactic =>
  `(tactic| (intros; rename_i hh; simp [legalOf16, isReg, isRegC, simm, uimm, multOf] at hh;
             simp [csOk, Constraint.fails] <;> omega))

-- the same when the constraint list contains `ShamtBit5Zero`
set_option hygiene false in
macro "l16s" : tactic =>
  `(tactic| (intros; rename_i vv hh; simp [legalOf16, isReg, isRegC, simm, uimm, multOf] at hh;
             have hs := shamt_bit5 vv ⟨by omega, by omega⟩
             simp [csOk, Constraint.fails, hs] <;> omega))

/-! #### the 27 rows -/
theorem c16_addi4spn : Complete16 .addi4spn (.ciw 0 0 [.immNotZero]) := complete_ciw (by omega) (by l16)
theorem c16_lw : Complete16 .lw (.cl 0 2 []) := complete_cl (by omega) (by l16)
theorem c16_sw : Complete16 .sw (.cs 0 6 []) := complete_cs (by omega) (by l16)
theorem c16_nop : Complete16 .nop (.cin 1 0) := complete_cin (by omega)
theorem c16_addi : Complete16 .addi (.ci 1 0 [.rdRs1NotZero, .immNotZero]) := complete_ci (by omega) (by l16)
theorem c16_jal : Complete16 .jal (.cj 1 1 []) := complete_cj (by omega) (by l16)
theorem c16_li : Complete16 .li (.ci 1 2 [.rdRs1NotZero]) := complete_ci (by omega) (by l16)
theorem c16_addi16sp : Complete16 .addi16sp (.cia 1 3 [.immNotZero]) := complete_cia (by omega) (by l16)
theorem c16_lui : Complete16 .lui (.ciu 1 3 [.rdRs1NotZero, .rdRs1NotTwo, .immNotZero]) :=
  complete_ciu (by omega) (by
    intro rd v hh
    simp [legalOf16, isReg, isRegC, simm, uimm, multOf] at hh
    simp [csOk, Constraint.fails]
    split <;> omega)
theorem c16_srli : Complete16 .srli (.cbi 1 0 4 [.immNotZero, .shamtBit5Zero]) :=
  complete_cbi (by omega) (by omega) (by l16s)
theorem c16_srai : Complete16 .srai (.cbi 1 1 4 [.immNotZero, .shamtBit5Zero]) :=
  complete_cbi (by omega) (by omega) (by l16s)
theorem c16_andi : Complete16 .andi (.cbi 1 2 4 []) := complete_cbi (by omega) (by omega) (by l16)
theorem c16_sub : Complete16 .sub (.ca 1 0 35 []) := complete_ca (by omega) (by omega) (by l16)
theorem c16_xor : Complete16 .xor (.ca 1 1 35 []) := complete_ca (by omega) (by omega) (by l16)
theorem c16_or : Complete16 .or (.ca 1 2 35 []) := complete_ca (by omega) (by omega) (by l16)
theorem c16_and : Complete16 .and (.ca 1 3 35 []) := complete_ca (by omega) (by omega) (by l16)
theorem c16_j : Complete16 .j (.cj 1 5 []) := complete_cj (by omega) (by l16)
theorem c16_beqz : Complete16 .beqz (.cb 1 6 []) := complete_cb (by omega) (by l16)
theorem c16_bnez : Complete16 .bnez (.cb 1 7 []) := complete_cb (by omega) (by l16)
theorem c16_slli : Complete16 .slli (.ci 2 0 [.rdRs1NotZero, .immNotZero, .shamtBit5Zero]) :=
  complete_ci (by omega) (by l16s)
theorem c16_lwsp : Complete16 .lwsp (.cil 2 2 [.rdRs1NotZero]) := complete_cil (by omega) (by l16)
theorem c16_jr : Complete16 .jr (.crj 2 8 [.rdRs1NotZero]) := complete_crj (by omega) (by l16)
theorem c16_mv : Complete16 .mv (.cr 2 8 [.rdRs1NotZero, .rs2NotZero]) := complete_cr (by omega) (by l16)
theorem c16_ebreak : Complete16 .ebreak (.cre 2 9) := complete_cre (by omega)
theorem c16_jalr : Complete16 .jalr (.crj 2 9 [.rdRs1NotZero]) := complete_crj (by omega) (by l16)
theorem c16_add : Complete16 .add (.cr 2 9 [.rdRs1NotZero, .rs2NotZero]) := complete_cr (by omega) (by l16)
theorem c16_swsp : Complete16 .swsp (.css 2 6 []) := complete_css (by omega) (by l16)

/-- completeness for the whole RVC table -/
theorem complete16 : ∀ c : CMn, ∀ k, instrTable.lookup c.name = some k → Complete16 c k := by
  intro c k hk
  rw [lookup_rowOf c] at hk
  have hk' : rowOf c = k := Option.some.inj hk
  subst hk'
  cases c
  · exact c16_addi4spn
  · exact c16_lw
  · exact c16_sw
  · exact c16_nop
  · exact c16_addi
  · exact c16_jal
  · exact c16_li
  · exact c16_addi16sp
  · exact c16_lui
  · exact c16_srli
  · exact c16_srai
  · exact c16_andi
  · exact c16_sub
  · exact c16_xor
  · exact c16_or
  · exact c16_and
  · exact c16_j
  · exact c16_beqz
  · exact c16_bnez
  · exact c16_slli
  · exact c16_lwsp
  · exact c16_jr
  · exact c16_mv
  · exact c16_ebreak
  · exact c16_jalr
  · exact c16_add
  · exact c16_swsp

/-- **C06 (16-bit).**  An RVC encoder call is accepted exactly when its arguments denote legal
    operands. -/
theorem accept16_iff_legal : ∀ c : CMn, ∀ k, instrTable.lookup c.name = some k → ∀ args,
    (∃ w, encodeKind k args = .ok w) ↔
      (∃ ops, denote16 k args = some ops ∧ legalOf16 c ops = true) := by
  intro c k hk args
  constructor
  · rintro ⟨w, hw⟩
    obtain ⟨ops, hd, hl, _⟩ := enc16_sound c k hk args w hw
    exact ⟨ops, hd, hl⟩
  · rintro ⟨ops, hd, hl⟩
    exact complete16 c k hk args ops hd hl

/-- the same through `encode` and the mnemonic's name (`legal16`) -/
theorem accept16_iff_legal' (name : String) (c : CMn) (hc : classOf16 name = some c) (args : List Arg) :
    (∃ w, encode name args = .ok w) ↔
      (∃ ops, denote16 (rowOf c) args = some ops ∧ legal16 name ops = true) := by
  have hn := classOf16_name hc
  subst hn
  have he : encode c.name args = encodeKind (rowOf c) args := by
    unfold encode; rw [lookup_rowOf c]
  rw [he]
  simp only [legal16, hc]
  exact accept16_iff_legal c (rowOf c) (lookup_rowOf c) args

/-- an error carries no output: a refused call yields no word at all -/
theorem refused_no_word {name : String} {args : List Arg} {e : EncErr}
    (h : encode name args = .error e) : ¬ ∃ w, encode name args = .ok w := by
  rintro ⟨w, hw⟩
  rw [h] at hw
  cases hw

/-! ### non-vacuity -/

/-- accepted ⇔ legal, on concrete tuples either side of a boundary -/
example : encode "c.addi" [.r (.str "a0"), .i 31] = .ok 0x057d ∧ legal16 "c.addi" [.reg 10, .imm 31] = true ∧
    encode "c.addi" [.r (.str "a0"), .i 32] = .error .value ∧ legal16 "c.addi" [.reg 10, .imm 32] = false := by
  decide
example : encode "addi" [.r (.str "a0"), .r (.str "a0"), .i 2048] = .error .value ∧
    legal32 "addi" [.reg 10, .reg 10, .imm 2048] = false ∧
    legal32 "addi" [.reg 10, .reg 10, .imm 2047] = true := by decide

end BB.Props.C06
