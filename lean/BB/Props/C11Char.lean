/-
  BB.Props.C11Char — a quoted character is one token and evaluates to its code point, whatever the
  character is ("Character literals can also be used if surrounded by single-quotes").

  Before fix "keep quoted character literals intact while lexing a line" the line lexer stripped
  comments, padded parentheses and split at blanks and commas before the expression evaluator saw
  the quotes: `K = ','` gave 32, `'#'`, `'('`, `')'` were refused (known finding KF-C).

  * `tokGo_quoted`, `tokGo_escaped` : the scanner takes `'c'` (c not a backslash) and `'\e…'`
                           (backslash, one character, word characters) whole and carries on after it;
  * `quoted_operand`     : after text without quotes and a blank, `'c'` is a token of its own for
                           EVERY character c other than a backslash — blank, comma, `#`,
                           parentheses and the quote itself included — and the texts before and
                           after it are lexed as they are without it;
  * `const_char_tokens`, `const_char_lex` : the line `K = 'c'` lexes to `K`, `=`, `'c'`;
  * `eval_quoted`        : `'c'` evaluates to the code point of c;
  * `const_char`         : for every ASCII character c other than backslash and line feed the line
                           `K = 'c'` lexes and parses to the constant definition of `K` whose
                           expression evaluates to the code point of c;
  * `const_char_printable` : the same, checked by evaluation, for the 94 printable characters other
                           than the backslash, and `const_char_special` spells out `,` `#` `(` `)`
                           blank and `'`;
  * `const_char_escapes` : `'\\'` = 92, `'\n'` = 10, `'\x41'` = 65, `'\''` = 39, `'\t'` = 9,
                           `'\0'` = 0, `'\101'` = 65;
  * `lone_backslash_refused` : `K = '\'` lexes (one token) and its expression is refused.
-/
import BB.Lemmas.FrontLex
import BB.Props.C13
namespace BB.Props.C11Char
open BB

/-! ## the scanner on a quoted character -/

/-- `'c'`, c not a backslash: taken whole, the scan carries on behind the closing quote -/
theorem tokGo_quoted (c : Char) (hc : c ≠ '\\') (rest : List Char) :
    tokGo 0 ('\'' :: c :: '\'' :: rest) =
      ('\'' :: c :: '\'' :: (tokGo 0 rest).1, (tokGo 0 rest).2) := by
  simp [tokGo, litLen, hc, isSep, isPyWs]

/-- the scanner takes the announced number of characters as they are -/
theorem tokGo_skip (lit rest : List Char) :
    tokGo lit.length (lit ++ rest) = (lit ++ (tokGo 0 rest).1, (tokGo 0 rest).2) := by
  induction lit with
  | nil => rfl
  | cons c lit ih => simp [tokGo, ih]

theorem wordsThenQuote_run (w rest : List Char) (hw : ∀ c ∈ w, isWordC c = true) :
    wordsThenQuote (w ++ '\'' :: rest) = some w.length := by
  induction w with
  | nil => simp [wordsThenQuote]
  | cons c w ih =>
    have hc := hw c (List.mem_cons_self ..)
    have hq : c ≠ '\'' := by intro e; subst e; revert hc; decide
    simp [wordsThenQuote, hq, hc, ih (fun d hd => hw d (List.mem_cons_of_mem _ hd))]

/-- `'\e…'` : a backslash, one character, word characters (`'\n'`, `'\\'`, `'\''`, `'\x41'`,
    `'\u1234'`) : taken whole as well -/
theorem tokGo_escaped (e : Char) (he : e ≠ '\n') (w rest : List Char) (hw : ∀ c ∈ w, isWordC c = true) :
    tokGo 0 ('\'' :: '\\' :: e :: (w ++ '\'' :: rest)) =
      ('\'' :: '\\' :: e :: (w ++ '\'' :: (tokGo 0 rest).1), (tokGo 0 rest).2) := by
  have h := tokGo_skip ('\\' :: e :: (w ++ ['\''])) rest
  simp only [List.length_cons, List.length_append, List.length_nil, List.cons_append,
    List.append_assoc, List.nil_append] at h
  simp [tokGo, litLen, he, wordsThenQuote_run w rest hw, isSep, isPyWs, h]

/-! ## a quoted character as an operand -/

theorem tokGo_sep (s : Char) (hs : isSep s = true) (l : List Char) :
    tokGo 0 (s :: l) = ([], pushChunk (tokGo 0 l)) := by
  have hs' : s ≠ '#' := sep_ne_hash hs
  simp [tokGo, hs, hs']

/-- text without quote and comment sign in front of a piece that does not continue a token -/
theorem tokGo_append (a z : List Char) (hq : '\'' ∉ a) (hh : '#' ∉ a) (hz : (tokGo 0 z).1 = []) :
    tokGo 0 (a ++ z) = ((tokGo 0 a).1, (tokGo 0 a).2 ++ (tokGo 0 z).2) := by
  induction a with
  | nil => simp only [List.nil_append, tokGo]; exact Prod.ext hz rfl
  | cons c a ih =>
    have hc1 : c ≠ '\'' := fun e => hq (e ▸ List.mem_cons_self ..)
    have hc2 : c ≠ '#' := fun e => hh (e ▸ List.mem_cons_self ..)
    have ih' := ih (fun m => hq (List.mem_cons_of_mem _ m)) (fun m => hh (List.mem_cons_of_mem _ m))
    simp only [List.cons_append, tokGo, hc1, hc2, if_false, ih']
    by_cases hs : isSep c = true
    · simp only [hs, if_true, pushChunk]
      by_cases hw : (tokGo 0 a).1 = [] <;> simp [hw]
    · by_cases hp : c = '(' ∨ c = ')'
      · simp only [hs, hp, if_true, pushChunk]
        by_cases hw : (tokGo 0 a).1 = [] <;> simp [hw]
      · simp [hs, hp]

/-- **C11, quoted characters.**  After text without quotes (and without a comment) and a
    separator, `'c'` is ONE token for every character `c` other than a backslash — a blank, a
    comma, `#`, a parenthesis, the quote itself — provided the text behind the closing quote does
    not run on into the token (it is empty or starts with a separator, a parenthesis or a comment);
    what is in front and what is behind lexes as it does on its own. -/
theorem quoted_operand (pre rest : List Char) (s c : Char) (hc : c ≠ '\\') (hs : isSep s = true)
    (hq : '\'' ∉ pre) (hh : '#' ∉ pre) (hr : (tokGo 0 rest).1 = []) :
    plainTokens (pre ++ s :: '\'' :: c :: '\'' :: rest) =
      plainTokensOld pre ++ ['\'', c, '\''] :: plainTokens rest := by
  have hz : tokGo 0 (s :: '\'' :: c :: '\'' :: rest) = ([], ['\'', c, '\''] :: (tokGo 0 rest).2) := by
    rw [tokGo_sep s hs, tokGo_quoted c hc rest]
    simp [pushChunk, hr]
  rw [← plainTokens_eq_old pre (not_mem_stripComment pre hq)]
  unfold plainTokens
  rw [tokGo_append pre _ hq hh (by rw [hz]), hz]
  simp only [pushChunk, hr, if_true]
  by_cases hw : (tokGo 0 pre).1 = [] <;> simp [hw]

/-- the text behind a token: nothing, or it starts with a separator, a parenthesis or a comment -/
theorem tokGo_break (d : Char) (r : List Char) (hd : isSep d = true ∨ d = '#' ∨ d = '(' ∨ d = ')') :
    (tokGo 0 (d :: r)).1 = [] := by
  rcases hd with h | h | h | h
  · have : d ≠ '#' := sep_ne_hash h
    simp [tokGo, h, this]
  · simp [tokGo, h]
  · subst h; simp [tokGo, isSep, isPyWs]
  · subst h; simp [tokGo, isSep, isPyWs]

example : plainTokens "db ',' # a comma, isn't it".toList = ["db".toList, "','".toList] :=
  quoted_operand "db".toList " # a comma, isn't it".toList ' ' ',' (by decide) (by decide) (by decide)
    (by decide) (tokGo_break _ _ (.inl (by decide)))

/-! ## the line `K = 'c'` -/

/-- the line `K = 'c'` -/
def constLine (c : Char) : List Char := 'K' :: ' ' :: '=' :: ' ' :: '\'' :: c :: ['\'']

theorem const_char_tokens (c : Char) (hc : c ≠ '\\') :
    plainTokens (constLine c) = ["K".toList, "=".toList, ['\'', c, '\'']] :=
  quoted_operand "K =".toList [] ' ' c hc (by decide) (by decide) (by decide) rfl

theorem constLine_ordinary (c : Char) (ha : isAsciiC c = true) (hn : c ≠ '\n') :
    C13.Ordinary (constLine c) := by
  refine ⟨?_, ?_, ?_, ?_⟩
  · simp [constLine, ha]; decide
  · simp [constLine, hn.symm]
  · simp [matchKeyword, constLine, dropWsLeft, isPyWs, List.isPrefixOf]
  · simp [matchKeyword, constLine, dropWsLeft, isPyWs, List.isPrefixOf]

theorem const_char_lex (c : Char) (hc : c ≠ '\\') (ha : isAsciiC c = true) (hn : c ≠ '\n') :
    lexTokens (constLine c) = .ok ["K", "=", String.ofList ['\'', c, '\'']] := by
  rw [C13.lexTokens_ordinary (constLine_ordinary c ha hn), const_char_tokens c hc]
  rfl

/-! ## its value -/

/-- `'c'` evaluates to the code point of `c` (any ASCII character but the backslash) -/
theorem eval_quoted (c : Char) (hc : c ≠ '\\') (ha : isAsciiC c = true) (env : String → Option Int) :
    evalArith (String.ofList ['\'', c, '\'']) env = .ok (Int.ofNat c.toNat) := by
  have h1 : isAsciiC '\'' = true := by decide
  simp [evalArith, evalArithL, unicodeEscape, unicodeEscapeAux, ha, h1, hc]
  rfl

/-! ## the constant definition -/

theorem quoted_ne (c : Char) (s : String) (h : s.toList.head? ≠ some '\'') :
    lowerS (String.ofList ['\'', c, '\'']) ≠ s := by
  intro e
  apply h
  rw [← e]
  simp [lowerS]

/-- a token that is ASCII and is not one of the `%` modifiers, as the only operand of `K =` -/
theorem parse_const_tok (line : Line) (tok : String) (hA : isAsciiS tok = true)
    (h1 : lowerS tok ≠ "%position") (h2 : lowerS tok ≠ "%offset") (h3 : lowerS tok ≠ "%hi")
    (h4 : lowerS tok ≠ "%lo") :
    parseItem line ["K", "=", tok] = .ok (.constant line "K" (.arith tok)) := by
  have hK : isAsciiS "K" = true := by decide
  have hj : joinSp [tok] = tok := rfl
  simp [parseItem, parseImmediate, parseImmAux, hA, hK, hj, h1, h2, h3, h4]

theorem parse_const_quoted (line : Line) (c : Char) (ha : isAsciiC c = true) :
    parseItem line ["K", "=", String.ofList ['\'', c, '\'']] =
      .ok (.constant line "K" (.arith (String.ofList ['\'', c, '\'']))) := by
  have hA : isAsciiS (String.ofList ['\'', c, '\'']) = true := by
    simp [isAsciiS, ha]; decide
  exact parse_const_tok line _ hA (quoted_ne c _ (by decide)) (quoted_ne c _ (by decide))
    (quoted_ne c _ (by decide)) (quoted_ne c _ (by decide))

/-- the line `src` lexes to `K`, `=` and ONE more token, these parse (on whatever line record) to
    the definition of the constant `K`, and the defining expression evaluates to `v` in every
    environment -/
def DefinesK (src : List Char) (v : Int) : Prop :=
  ∃ e : String, lexTokens src = .ok ["K", "=", e] ∧
    (∀ line, parseItem line ["K", "=", e] = .ok (.constant line "K" (.arith e))) ∧
    (∀ env, evalArith e env = .ok v)

/-- **C11, character literals.**  For every ASCII character `c` other than the backslash (and the
    line feed, which cannot occur inside a line) the line `K = 'c'` defines `K` as the code point
    of `c`. -/
theorem const_char (c : Char) (hc : c ≠ '\\') (ha : isAsciiC c = true) (hn : c ≠ '\n') :
    DefinesK (constLine c) (Int.ofNat c.toNat) :=
  ⟨_, const_char_lex c hc ha hn, fun line => parse_const_quoted line c ha, eval_quoted c hc ha⟩

/-- the 94 printable ASCII characters other than the backslash -/
def printable : List Char :=
  ((List.range 95).map (fun i => Char.ofNat (i + 32))).filter (· ≠ '\\')

example : printable.length = 94 ∧ ' ' ∈ printable ∧ '~' ∈ printable ∧ '\'' ∈ printable ∧
    '\\' ∉ printable := by decide

theorem const_char_printable : ∀ c ∈ printable, DefinesK (constLine c) (Int.ofNat c.toNat) := by
  intro c hc
  have h : ∀ c ∈ printable, c ≠ '\\' ∧ isAsciiC c = true ∧ c ≠ '\n' := by decide
  exact const_char c (h c hc).1 (h c hc).2.1 (h c hc).2.2

/-- the characters the old lexer mangled (`,` gave 32; `#` `(` `)` were refused), the blank and the quote -/
theorem const_char_special :
    DefinesK "K = ','".toList 44 ∧ DefinesK "K = '#'".toList 35 ∧ DefinesK "K = '('".toList 40 ∧
    DefinesK "K = ')'".toList 41 ∧ DefinesK "K = ' '".toList 32 ∧ DefinesK "K = '''".toList 39 ∧
    DefinesK "K = '\"'".toList 34 ∧ DefinesK "K = '='".toList 61 :=
  ⟨const_char ',' (by decide) (by decide) (by decide), const_char '#' (by decide) (by decide) (by decide),
   const_char '(' (by decide) (by decide) (by decide), const_char ')' (by decide) (by decide) (by decide),
   const_char ' ' (by decide) (by decide) (by decide), const_char '\'' (by decide) (by decide) (by decide),
   const_char '"' (by decide) (by decide) (by decide), const_char '=' (by decide) (by decide) (by decide)⟩

/-- the same 94 lines put through the model by evaluation (`lexParseLine` = `lex_tokens` then
    `parse_item`): nothing but the definitions is used -/
theorem const_char_printable_eval : ∀ c ∈ printable,
    lexParseLine ⟨"<string>", 1, String.ofList (constLine c)⟩ =
      .ok (some (.constant ⟨"<string>", 1, String.ofList (constLine c)⟩ "K"
        (.arith (String.ofList ['\'', c, '\'']))))
    ∧ evalArith (String.ofList ['\'', c, '\'']) (fun _ => none) = .ok (Int.ofNat c.toNat) := by
  decide +kernel

/-! ## escapes -/

/-- a concrete line: the three conditions of `DefinesK`, each by evaluation -/
theorem definesK_of (src : List Char) (e : String) (v : Int)
    (hl : lexTokens src = .ok ["K", "=", e]) (hA : isAsciiS e = true)
    (h1 : lowerS e ≠ "%position") (h2 : lowerS e ≠ "%offset") (h3 : lowerS e ≠ "%hi")
    (h4 : lowerS e ≠ "%lo") (hv : ∀ env, evalArith e env = .ok v) : DefinesK src v :=
  ⟨e, hl, fun line => parse_const_tok line e hA h1 h2 h3 h4, hv⟩

/-- **C11, escapes.**  The backslash is written `'\\'`; `'\n'`, `'\t'`, `'\''`, `'\x41'`, `'\0'`,
    `'\101'`, `'\u0041'` go through `unicode_escape` (the Lean string literals below double each backslash). -/
theorem const_char_escapes :
    DefinesK "K = '\\\\'".toList 92 ∧ DefinesK "K = '\\n'".toList 10 ∧ DefinesK "K = '\\x41'".toList 65 ∧
    DefinesK "K = '\\''".toList 39 ∧ DefinesK "K = '\\t'".toList 9 ∧ DefinesK "K = '\\0'".toList 0 ∧
    DefinesK "K = '\\101'".toList 65 ∧ DefinesK "K = '\\u0041'".toList 65 := by
  refine ⟨?_, ?_, ?_, ?_, ?_, ?_, ?_, ?_⟩
  · exact definesK_of _ "'\\\\'" _ (by decide) (by decide) (by decide) (by decide) (by decide) (by decide) (fun _ => rfl)
  · exact definesK_of _ "'\\n'" _ (by decide) (by decide) (by decide) (by decide) (by decide) (by decide) (fun _ => rfl)
  · exact definesK_of _ "'\\x41'" _ (by decide) (by decide) (by decide) (by decide) (by decide) (by decide) (fun _ => rfl)
  · exact definesK_of _ "'\\''" _ (by decide) (by decide) (by decide) (by decide) (by decide) (by decide) (fun _ => rfl)
  · exact definesK_of _ "'\\t'" _ (by decide) (by decide) (by decide) (by decide) (by decide) (by decide) (fun _ => rfl)
  · exact definesK_of _ "'\\0'" _ (by decide) (by decide) (by decide) (by decide) (by decide) (by decide) (fun _ => rfl)
  · exact definesK_of _ "'\\101'" _ (by decide) (by decide) (by decide) (by decide) (by decide) (by decide) (fun _ => rfl)
  · exact definesK_of _ "'\\u0041'" _ (by decide) (by decide) (by decide) (by decide) (by decide) (by decide) (fun _ => rfl)

/-- a lone backslash between quotes (`K = '\'`) is still one token, and still refused: the
    backslash is written `'\\'` -/
theorem lone_backslash_refused :
    lexTokens "K = '\\'".toList = .ok ["K", "=", "'\\'"] ∧
    ∀ env, evalArith "'\\'" env = .error .error :=
  ⟨by decide, fun _ => rfl⟩

/-! ## in operand positions, with a comment behind -/

example : lexTokens "addi x1, x0, ','  # it's a comma".toList = .ok ["addi", "x1", "x0", "','"] := by decide
example : lexTokens "lw t0, '('(sp)".toList = .ok ["lw", "t0", "'('", "(", "sp", ")"] := by decide
example : lexTokens "li a0, '#' # '#' is the comment sign".toList = .ok ["li", "a0", "'#'"] := by decide
example : lexTokens "addi x1, x0, %lo(')')".toList = .ok ["addi", "x1", "x0", "%lo", "(", "')'", ")"] := by decide
example : lexTokens "db ' ',' '".toList = .ok ["db", "' '", "' '"] := by decide
/-- a quote that does not open a quoted character changes nothing -/
example : lexTokens "K = 5 # don't".toList = .ok ["K", "=", "5"] := by decide
example : lexTokens "x' , (y') # z".toList = .ok ["x'", "(", "y'", ")"] := by decide

end BB.Props.C11Char
