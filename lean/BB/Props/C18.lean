/-
  C18 — A completed DFU run leaves the device flash equal to the firmware image.

  `run fw pc sched flash₀` (BB.Dfu.Run) is bronzebeard-dfu (host model BB.Dfu.Host, a transcription
  of bronzebeard/dfu.py cli_main) talking to the DFU 1.1 + DfuSe device specification
  (BB.Dfu.Device) that follows the timing schedule `sched`.  No theorem mentions fuel:
  `run_halted` and `run_fuel_irrelevant` show that `run` is the terminated run.
-/
import BB.Lemmas.DfuMain
namespace BB.Props.C18
open BB BB.Dfu

/-! ### what the property demands, written without reference to the host model -/

/-- the firmware file, zero-padded to the next page boundary -/
def padToPage (fw : List Nat) : List Nat :=
  fw ++ List.replicate ((1024 - fw.length % 1024) % 1024) 0

/-- number of pages the padded firmware occupies: ⌈len / 1024⌉ -/
def pagesOf (len : Nat) : Nat := (len + 1023) / 1024

/-- the 1024 bytes the padded firmware puts into page `q` -/
def imagePage (fw : List Nat) (q : Nat) : List Nat := ((padToPage fw).drop (1024 * q)).take 1024

/-- the flash after a correct run: pages 0 .. ⌈len/1024⌉-1 hold the padded firmware, every other
    page is what it was -/
def expectedFlash (fw : List Nat) (flash₀ : Nat → Cell) : Nat → Cell :=
  fun q => if q < pagesOf fw.length then .data (imagePage fw q) else flash₀ q

/-- the schedule never makes an operation fail (busy counts, poll timeouts, start state: free) -/
def FaultFree (s : Schedule) : Prop := ∀ i, (s.op i).fault % 256 = 0

/-- the four GD32 flash sizes bronzebeard-dfu knows (page_count from the serial number) -/
def GD32 (pc : Nat) : Prop := pc = 16 ∨ pc = 32 ∨ pc = 64 ∨ pc = 128

/-! ### the host model's padding is that padding -/

theorem pages_eq (fw : List Nat) (pc : Nat) : (HostCfg.mk fw pc).pages = pagesOf fw.length := by
  simp only [HostCfg.pages, pagesOf, pageSize]
  split <;> omega

theorem padded_eq (fw : List Nat) (pc : Nat) : (HostCfg.mk fw pc).padded = padToPage fw := by
  simp only [HostCfg.padded, padToPage, pageSize]
  split
  · rename_i hr
    have : (1024 - fw.length % 1024) % 1024 = 1024 - fw.length % 1024 := by omega
    rw [this]
  · rename_i hr
    have : (1024 - fw.length % 1024) % 1024 = 0 := by omega
    simp [this]

theorem chunk_eq (fw : List Nat) (pc q : Nat) : (HostCfg.mk fw pc).chunk q = imagePage fw q := by
  simp only [HostCfg.chunk, imagePage, padded_eq, pageSize, Nat.mul_comm]

/-! ### termination: `run` is the finished run, whatever the inputs -/

/-- every run of bronzebeard-dfu against the device halts within the fuel `run` gives it: any
    firmware (fitting or not), any schedule (any busy counts, faults or none), any initial flash -/
theorem run_halted (fw : List Nat) (pc : Nat) (s : Schedule) (flash₀ : Nat → Cell) (hpc : GD32 pc) :
    (run fw pc s flash₀).halted = true := by
  have hsm : pc ≤ 128 := by rcases hpc with h | h | h | h <;> omega
  exact run_halts (h := ⟨fw, pc⟩) flash₀ hsm

/-- more fuel than `fuelBound` gives the same result -/
theorem run_fuel_irrelevant (fw : List Nat) (pc : Nat) (s : Schedule) (flash₀ : Nat → Cell) (hpc : GD32 pc)
    (n : Nat) (hn : fuelBound ⟨fw, pc⟩ s ≤ n) :
    runFuel n fw pc s flash₀ = run fw pc s flash₀ := by
  have hsm : pc ≤ 128 := by rcases hpc with h | h | h | h <;> omega
  have hx := run_halts (h := ⟨fw, pc⟩) (s := s) flash₀ hsm
  simp only [run, runFuel]
  rw [steps_mono _ _ n _ hn hx]

/-! ### the property -/

/-- C18.  For every firmware that fits, on each of the four GD32 variants, against every
    fault-free schedule (any number of busy polls per erase / set-address / write, any poll
    timeouts, device starting in dfuIDLE or in dfuERROR), from every initial flash:
    the run ends with exit status 0 after printing 'done!'; the flash is the initial flash with
    pages 0 .. ⌈len/1024⌉-1 replaced by the zero-padded firmware; exactly those pages were erased
    and exactly those were written, each once, in order; and no monitor fired — no write to an
    unerased page, no request while an operation was pending, no request before the requested
    poll delay had elapsed, no address outside the flash, no misaligned write. -/
theorem dfu_run_ok (fw : List Nat) (pc : Nat) (s : Schedule) (flash₀ : Nat → Cell)
    (hpc : GD32 pc) (hfit : fw.length ≤ 1024 * pc) (hff : FaultFree s) :
    (run fw pc s flash₀).halted = true ∧
    (run fw pc s flash₀).exitCode = 0 ∧
    (run fw pc s flash₀).exitMsg = .ok ∧
    (run fw pc s flash₀).done = true ∧
    (run fw pc s flash₀).flash = expectedFlash fw flash₀ ∧
    (∀ q, pagesOf fw.length ≤ q → (run fw pc s flash₀).flash q = flash₀ q) ∧
    (run fw pc s flash₀).erased = List.range (pagesOf fw.length) ∧
    (run fw pc s flash₀).written = List.range (pagesOf fw.length) ∧
    (run fw pc s flash₀).mon = Monitors.clean := by
  have hsm : pc ≤ 128 := by rcases hpc with h | h | h | h <;> omega
  obtain ⟨hx, he, ho, v, hs, hi⟩ :=
    (run_ok_reaches (h := ⟨fw, pc⟩) (s := s) flash₀ hfit hsm (fun j _ => hff j)).run_eq
  have hfl : (run fw pc s flash₀).flash = expectedFlash fw flash₀ := by
    show (steps _ _ _).dev.flash = _
    rw [hs.flash, hi.flash]
    funext q
    simp only [expectedFlash, pages_eq, chunk_eq]
    split <;> simp_all
  refine ⟨hx, ?_, ?_, ?_, hfl, ?_, ?_, ?_, hs.mon.trans hi.mon⟩
  · show (match (steps _ _ _).exit with | some (n, _) => n | none => 0) = 0
    rw [he]
  · show (match (steps _ _ _).exit with | some (_, m) => m | none => ExitMsg.internal) = .ok
    rw [he]
  · show (steps _ _ _).out.contains Msg.done = true
    rw [ho]; rfl
  · intro q hq
    rw [hfl]
    simp only [expectedFlash]
    split
    · omega
    · rfl
  · show (steps _ _ _).dev.erasedLog = _
    rw [hs.erasedLog, hi.erased, pages_eq]
  · show (steps _ _ _).dev.writtenLog = _
    rw [hs.writtenLog, hi.written, pages_eq]

/-! ### non-vacuity -/

/-- a schedule with busy polls, non-zero poll timeouts and a device starting in dfuERROR -/
def demoSched : Schedule :=
  { startErr := 4, idleTimeout := fun _ => 3,
    op := fun i => if i % 2 = 0 then { busy := [5, 0, 70000], doneTimeout := 2 } else { busy := [], doneTimeout := 1 } }

/-- the hypotheses of `dfu_run_ok` are satisfiable by a non-trivial instance: 1500 bytes (two
    pages, the second padded), the 32-page part, a schedule with busy polls and an initial error -/
example : GD32 32 ∧ (List.replicate 1500 7).length ≤ 1024 * 32 ∧ FaultFree demoSched ∧
    pagesOf (List.replicate 1500 7).length = 2 ∧ demoSched.startErr % 256 ≠ 0 ∧
    (demoSched.op 0).busy.length = 3 := by
  refine ⟨Or.inr (Or.inl rfl), by rw [List.length_replicate]; omega, ?_, by rw [List.length_replicate]; rfl, by decide, by decide⟩
  intro i
  simp only [demoSched]
  split <;> rfl

/-- and the conclusion is not trivially true: on that instance page 1 ends up holding 476 bytes of
    firmware followed by 548 zeros, and page 2 is left alone -/
example : expectedFlash (List.replicate 1500 7) (fun _ => .orig) 1 =
      .data (List.replicate 476 7 ++ List.replicate 548 0) ∧
    expectedFlash (List.replicate 1500 7) (fun _ => .orig) 2 = .orig := by
  constructor <;> decide +kernel

/-- the run itself is not degenerate: evaluated by the kernel on a 3-byte image against that
    schedule it makes 15 control transfers and 11 sleeps, erases and writes page 0, exits 0 -/
example : (run [1, 2, 3] 16 demoSched (fun _ => .orig)).trace.length = 26 ∧
    (run [1, 2, 3] 16 demoSched (fun _ => .orig)).dev.nreq = 15 ∧
    (run [1, 2, 3] 16 demoSched (fun _ => .orig)).exitCode = 0 ∧
    (run [1, 2, 3] 16 demoSched (fun _ => .orig)).written = [0] := by decide +kernel

end BB.Props.C18
