/-
  BB.Props.C20 — with -c every eligible instruction is compressed and nothing grows.

  * `firstMatch_decides` (= Lemmas.firstMatch_eq_N): the compression decision is the pure numeric
    procedure `firstMatchN` of (mnemonic, register numbers, immediate value).
  * `eligible_compressed_<mnemonic>` (18 base mnemonics) and the umbrella `eligible_compressed`:
    an instruction with literal operands that denotes `i` with `eligible i` — i.e. `i` is the
    expansion of a legal, non-hint RV32C instruction, per the RVC chapter — is matched by a criterion.
  * `first_match_is_16bit`: whatever entry matches, the replacement is a 2-byte compressed instruction
    replacing a 4-byte one.
  * `compress_never_grows` (per item) and `padTo_mono` (positions stay ordered through `align`).
  * `nothing_grows_statement` (statement only).
-/
import BB.Lemmas.CompressElig
import BB.Lemmas.CompressNames
import BB.Lemmas.CompressSound
import BB.Lemmas.Bodies
namespace BB.Props.C20
open BB BB.Spec BB.Lemmas

/-- **the decision is a function of mnemonic, register numbers and immediate value** -/
theorem firstMatch_decides {H : Hooks} {env : String → Option Int} {line : Line} {p : Int} {ins : Instr}
    (hwk : ins.wellKinded = true) (hok : OperandsOK H env line p ins) :
    firstMatch H env line ins p criteria
      = .ok (firstMatchN ins.name (regsOf ins) (immValOf H env line p ins) criteria) :=
  firstMatch_eq_N hwk hok

section PerMnemonic
variable {H : Hooks} {env : String → Option Int} {line : Line} {p : Int}

theorem some_of_isSome {o : Option String} (h : o.isSome = true) : ∃ c, o = some c := by
  cases o with
  | none => simp at h
  | some c => exact ⟨c, rfl⟩

/-! operands of the six shapes -/

theorem ok_i {n : String} {rd rs1 : RegOp} {imm : Imm} {aj : Bool} {a b : Nat} {v : Int}
    (hrd : lookupRegister rd = some a) (hrs : lookupRegister rs1 = some b) (hv : imm.eval H env line p = .ok v) :
    OperandsOK H env line p (.i n rd rs1 imm aj) ∧ regsOf (.i n rd rs1 imm aj) .rd = a ∧
      regsOf (.i n rd rs1 imm aj) .rs1 = b ∧ immValOf H env line p (.i n rd rs1 imm aj) = v := by
  refine ⟨⟨?_, ?_⟩, by simp [regsOf, Instr.fld, hrd], by simp [regsOf, Instr.fld, hrs],
    by simp [immValOf, immVal, Instr.imm?, evalAt, hv, Except.toOption]⟩
  · intro f x hf; cases f <;> simp only [Instr.fld, Option.some.injEq] at hf <;> first | (subst hf; simp [*]) | cases hf
  · intro imm' hi; simp only [Instr.imm?, Option.some.injEq] at hi; subst hi; exact ⟨v, hv⟩

theorem ok_s {n : String} {rs1 rs2 : RegOp} {imm : Imm} {a b : Nat} {v : Int}
    (h1 : lookupRegister rs1 = some a) (h2 : lookupRegister rs2 = some b) (hv : imm.eval H env line p = .ok v) :
    OperandsOK H env line p (.s n rs1 rs2 imm) ∧ regsOf (.s n rs1 rs2 imm) .rs1 = a ∧
      regsOf (.s n rs1 rs2 imm) .rs2 = b ∧ immValOf H env line p (.s n rs1 rs2 imm) = v := by
  refine ⟨⟨?_, ?_⟩, by simp [regsOf, Instr.fld, h1], by simp [regsOf, Instr.fld, h2],
    by simp [immValOf, immVal, Instr.imm?, evalAt, hv, Except.toOption]⟩
  · intro f x hf; cases f <;> simp only [Instr.fld, Option.some.injEq] at hf <;> first | (subst hf; simp [*]) | cases hf
  · intro imm' hi; simp only [Instr.imm?, Option.some.injEq] at hi; subst hi; exact ⟨v, hv⟩

theorem ok_b {n : String} {rs1 rs2 : RegOp} {imm : Imm} {a b : Nat} {v : Int}
    (h1 : lookupRegister rs1 = some a) (h2 : lookupRegister rs2 = some b) (hv : imm.eval H env line p = .ok v) :
    OperandsOK H env line p (.b n rs1 rs2 imm) ∧ regsOf (.b n rs1 rs2 imm) .rs1 = a ∧
      regsOf (.b n rs1 rs2 imm) .rs2 = b ∧ immValOf H env line p (.b n rs1 rs2 imm) = v := by
  refine ⟨⟨?_, ?_⟩, by simp [regsOf, Instr.fld, h1], by simp [regsOf, Instr.fld, h2],
    by simp [immValOf, immVal, Instr.imm?, evalAt, hv, Except.toOption]⟩
  · intro f x hf; cases f <;> simp only [Instr.fld, Option.some.injEq] at hf <;> first | (subst hf; simp [*]) | cases hf
  · intro imm' hi; simp only [Instr.imm?, Option.some.injEq] at hi; subst hi; exact ⟨v, hv⟩

theorem ok_u {n : String} {rd : RegOp} {imm : Imm} {a : Nat} {v : Int}
    (hrd : lookupRegister rd = some a) (hv : imm.eval H env line p = .ok v) :
    OperandsOK H env line p (.u n rd imm) ∧ regsOf (.u n rd imm) .rd = a ∧
      immValOf H env line p (.u n rd imm) = v := by
  refine ⟨⟨?_, ?_⟩, by simp [regsOf, Instr.fld, hrd],
    by simp [immValOf, immVal, Instr.imm?, evalAt, hv, Except.toOption]⟩
  · intro f x hf; cases f <;> simp only [Instr.fld, Option.some.injEq] at hf <;> first | (subst hf; simp [*]) | cases hf
  · intro imm' hi; simp only [Instr.imm?, Option.some.injEq] at hi; subst hi; exact ⟨v, hv⟩

theorem ok_j {n : String} {rd : RegOp} {imm : Imm} {a : Nat} {v : Int}
    (hrd : lookupRegister rd = some a) (hv : imm.eval H env line p = .ok v) :
    OperandsOK H env line p (.j n rd imm) ∧ regsOf (.j n rd imm) .rd = a ∧
      immValOf H env line p (.j n rd imm) = v := by
  refine ⟨⟨?_, ?_⟩, by simp [regsOf, Instr.fld, hrd],
    by simp [immValOf, immVal, Instr.imm?, evalAt, hv, Except.toOption]⟩
  · intro f x hf; cases f <;> simp only [Instr.fld, Option.some.injEq] at hf <;> first | (subst hf; simp [*]) | cases hf
  · intro imm' hi; simp only [Instr.imm?, Option.some.injEq] at hi; subst hi; exact ⟨v, hv⟩

theorem ok_r {n : String} {rd rs1 rs2 : RegOp} {a b c : Nat}
    (hrd : lookupRegister rd = some a) (h1 : lookupRegister rs1 = some b) (h2 : lookupRegister rs2 = some c) :
    OperandsOK H env line p (.r n rd rs1 rs2) ∧ regsOf (.r n rd rs1 rs2) .rd = a ∧
      regsOf (.r n rd rs1 rs2) .rs1 = b ∧ regsOf (.r n rd rs1 rs2) .rs2 = c := by
  refine ⟨⟨?_, ?_⟩, by simp [regsOf, Instr.fld, hrd], by simp [regsOf, Instr.fld, h1], by simp [regsOf, Instr.fld, h2]⟩
  · intro f x hf; cases f <;> simp only [Instr.fld, Option.some.injEq] at hf <;> subst hf <;> simp [*]
  · intro imm' hi; simp [Instr.imm?] at hi

/-! ### the 18 base mnemonics -/

theorem eligible_compressed_addi {rd rs1 : RegOp} {imm : Imm} {aj : Bool} {a b : Nat} {v : Int}
    (hrd : lookupRegister rd = some a) (hrs : lookupRegister rs1 = some b) (hv : imm.eval H env line p = .ok v)
    (hel : eligible (.i .addi a b v) = true) :
    ∃ c, firstMatch H env line (.i "addi" rd rs1 imm aj) p criteria = .ok (some c) := by
  obtain ⟨hok, e1, e2, e3⟩ := ok_i (n := "addi") (aj := aj) hrd hrs hv
  rw [firstMatch_eq_N rfl hok, e3]
  rw [← e1, ← e2] at hel
  obtain ⟨c, hc⟩ := some_of_isSome (elig_addi _ v hel)
  exact ⟨c, by rw [← hc]; rfl⟩

theorem eligible_compressed_andi {rd rs1 : RegOp} {imm : Imm} {aj : Bool} {a b : Nat} {v : Int}
    (hrd : lookupRegister rd = some a) (hrs : lookupRegister rs1 = some b) (hv : imm.eval H env line p = .ok v)
    (hel : eligible (.i .andi a b v) = true) :
    ∃ c, firstMatch H env line (.i "andi" rd rs1 imm aj) p criteria = .ok (some c) := by
  obtain ⟨hok, e1, e2, e3⟩ := ok_i (n := "andi") (aj := aj) hrd hrs hv
  rw [firstMatch_eq_N rfl hok, e3]
  rw [← e1, ← e2] at hel
  obtain ⟨c, hc⟩ := some_of_isSome (elig_andi _ v hel)
  exact ⟨c, by rw [← hc]; rfl⟩

theorem eligible_compressed_lw {rd rs1 : RegOp} {imm : Imm} {aj : Bool} {a b : Nat} {v : Int}
    (hrd : lookupRegister rd = some a) (hrs : lookupRegister rs1 = some b) (hv : imm.eval H env line p = .ok v)
    (hel : eligible (.load .lw a b v) = true) :
    ∃ c, firstMatch H env line (.i "lw" rd rs1 imm aj) p criteria = .ok (some c) := by
  obtain ⟨hok, e1, e2, e3⟩ := ok_i (n := "lw") (aj := aj) hrd hrs hv
  rw [firstMatch_eq_N rfl hok, e3]
  rw [← e1, ← e2] at hel
  obtain ⟨c, hc⟩ := some_of_isSome (elig_lw _ v hel)
  exact ⟨c, by rw [← hc]; rfl⟩

theorem eligible_compressed_jalr {rd rs1 : RegOp} {imm : Imm} {aj : Bool} {a b : Nat} {v : Int}
    (hrd : lookupRegister rd = some a) (hrs : lookupRegister rs1 = some b) (hv : imm.eval H env line p = .ok v)
    (hel : eligible (.jalr a b v) = true) :
    ∃ c, firstMatch H env line (.i "jalr" rd rs1 imm aj) p criteria = .ok (some c) := by
  obtain ⟨hok, e1, e2, e3⟩ := ok_i (n := "jalr") (aj := aj) hrd hrs hv
  rw [firstMatch_eq_N rfl hok, e3]
  rw [← e1, ← e2] at hel
  obtain ⟨c, hc⟩ := some_of_isSome (elig_jalr _ v hel)
  exact ⟨c, by rw [← hc]; rfl⟩

theorem eligible_compressed_sw {rs1 rs2 : RegOp} {imm : Imm} {a b : Nat} {v : Int}
    (h1 : lookupRegister rs1 = some a) (h2 : lookupRegister rs2 = some b) (hv : imm.eval H env line p = .ok v)
    (hel : eligible (.store .sw a b v) = true) :
    ∃ c, firstMatch H env line (.s "sw" rs1 rs2 imm) p criteria = .ok (some c) := by
  obtain ⟨hok, e1, e2, e3⟩ := ok_s (n := "sw") h1 h2 hv
  rw [firstMatch_eq_N rfl hok, e3]
  rw [← e1, ← e2] at hel
  obtain ⟨c, hc⟩ := some_of_isSome (elig_sw _ v hel)
  exact ⟨c, by rw [← hc]; rfl⟩

theorem eligible_compressed_beq {rs1 rs2 : RegOp} {imm : Imm} {a b : Nat} {v : Int}
    (h1 : lookupRegister rs1 = some a) (h2 : lookupRegister rs2 = some b) (hv : imm.eval H env line p = .ok v)
    (hel : eligible (.branch .beq a b v) = true) :
    ∃ c, firstMatch H env line (.b "beq" rs1 rs2 imm) p criteria = .ok (some c) := by
  obtain ⟨hok, e1, e2, e3⟩ := ok_b (n := "beq") h1 h2 hv
  rw [firstMatch_eq_N rfl hok, e3]
  rw [← e1, ← e2] at hel
  obtain ⟨c, hc⟩ := some_of_isSome (elig_beq _ v hel)
  exact ⟨c, by rw [← hc]; rfl⟩

theorem eligible_compressed_bne {rs1 rs2 : RegOp} {imm : Imm} {a b : Nat} {v : Int}
    (h1 : lookupRegister rs1 = some a) (h2 : lookupRegister rs2 = some b) (hv : imm.eval H env line p = .ok v)
    (hel : eligible (.branch .bne a b v) = true) :
    ∃ c, firstMatch H env line (.b "bne" rs1 rs2 imm) p criteria = .ok (some c) := by
  obtain ⟨hok, e1, e2, e3⟩ := ok_b (n := "bne") h1 h2 hv
  rw [firstMatch_eq_N rfl hok, e3]
  rw [← e1, ← e2] at hel
  obtain ⟨c, hc⟩ := some_of_isSome (elig_bne _ v hel)
  exact ⟨c, by rw [← hc]; rfl⟩

/-- lui: for every operand the 32-bit encoder accepts (both spellings, −0x80000 … 0xfffff) -/
theorem eligible_compressed_lui {rd : RegOp} {imm : Imm} {a : Nat} {v : Int}
    (hrd : lookupRegister rd = some a) (hv : imm.eval H env line p = .ok v)
    (hleg : -524288 ≤ v ∧ v ≤ 1048575)
    (hel : eligible (.lui a (v % 1048576).toNat) = true) :
    ∃ c, firstMatch H env line (.u "lui" rd imm) p criteria = .ok (some c) := by
  obtain ⟨hok, e1, e3⟩ := ok_u (n := "lui") hrd hv
  rw [firstMatch_eq_N rfl hok, e3]
  rw [← e1] at hel
  obtain ⟨c, hc⟩ := some_of_isSome (elig_lui _ v hleg hel)
  exact ⟨c, by rw [← hc]; rfl⟩

theorem eligible_compressed_jal {rd : RegOp} {imm : Imm} {a : Nat} {v : Int}
    (hrd : lookupRegister rd = some a) (hv : imm.eval H env line p = .ok v)
    (hel : eligible (.jal a v) = true) :
    ∃ c, firstMatch H env line (.j "jal" rd imm) p criteria = .ok (some c) := by
  obtain ⟨hok, e1, e3⟩ := ok_j (n := "jal") hrd hv
  rw [firstMatch_eq_N rfl hok, e3]
  rw [← e1] at hel
  obtain ⟨c, hc⟩ := some_of_isSome (elig_jal _ v hel)
  exact ⟨c, by rw [← hc]; rfl⟩

set_option hygiene false in
/-- the R-shaped mnemonics (three registers; shift amounts are written in the rs2 position) -/
macro "elig_r" nm:term "," lem:term : tactic =>
  `(tactic| (
    obtain ⟨hok, e1, e2, e3⟩ := ok_r (H := H) (env := env) (line := line) (p := p) (n := $nm) hrd h1 h2
    rw [firstMatch_eq_N rfl hok]
    rw [← e1, ← e2, ← e3] at hel
    obtain ⟨c, hc⟩ := some_of_isSome ($lem _ (immValOf H env line p (.r $nm rd rs1 rs2)) hel)
    exact ⟨c, by rw [← hc]; rfl⟩))

variable {rd rs1 rs2 : RegOp} {a b c : Nat}

theorem eligible_compressed_srli (hrd : lookupRegister rd = some a) (h1 : lookupRegister rs1 = some b)
    (h2 : lookupRegister rs2 = some c) (hel : eligible (.sh .srli a b c) = true) :
    ∃ c, firstMatch H env line (.r "srli" rd rs1 rs2) p criteria = .ok (some c) := by elig_r "srli", elig_srli
theorem eligible_compressed_srai (hrd : lookupRegister rd = some a) (h1 : lookupRegister rs1 = some b)
    (h2 : lookupRegister rs2 = some c) (hel : eligible (.sh .srai a b c) = true) :
    ∃ c, firstMatch H env line (.r "srai" rd rs1 rs2) p criteria = .ok (some c) := by elig_r "srai", elig_srai
theorem eligible_compressed_slli (hrd : lookupRegister rd = some a) (h1 : lookupRegister rs1 = some b)
    (h2 : lookupRegister rs2 = some c) (hel : eligible (.sh .slli a b c) = true) :
    ∃ c, firstMatch H env line (.r "slli" rd rs1 rs2) p criteria = .ok (some c) := by elig_r "slli", elig_slli
theorem eligible_compressed_add (hrd : lookupRegister rd = some a) (h1 : lookupRegister rs1 = some b)
    (h2 : lookupRegister rs2 = some c) (hel : eligible (.r .add a b c) = true) :
    ∃ c, firstMatch H env line (.r "add" rd rs1 rs2) p criteria = .ok (some c) := by elig_r "add", elig_add
theorem eligible_compressed_sub (hrd : lookupRegister rd = some a) (h1 : lookupRegister rs1 = some b)
    (h2 : lookupRegister rs2 = some c) (hel : eligible (.r .sub a b c) = true) :
    ∃ c, firstMatch H env line (.r "sub" rd rs1 rs2) p criteria = .ok (some c) := by elig_r "sub", elig_sub
theorem eligible_compressed_xor (hrd : lookupRegister rd = some a) (h1 : lookupRegister rs1 = some b)
    (h2 : lookupRegister rs2 = some c) (hel : eligible (.r .xor a b c) = true) :
    ∃ c, firstMatch H env line (.r "xor" rd rs1 rs2) p criteria = .ok (some c) := by elig_r "xor", elig_xor
theorem eligible_compressed_or (hrd : lookupRegister rd = some a) (h1 : lookupRegister rs1 = some b)
    (h2 : lookupRegister rs2 = some c) (hel : eligible (.r .or a b c) = true) :
    ∃ c, firstMatch H env line (.r "or" rd rs1 rs2) p criteria = .ok (some c) := by elig_r "or", elig_or
theorem eligible_compressed_and (hrd : lookupRegister rd = some a) (h1 : lookupRegister rs1 = some b)
    (h2 : lookupRegister rs2 = some c) (hel : eligible (.r .and a b c) = true) :
    ∃ c, firstMatch H env line (.r "and" rd rs1 rs2) p criteria = .ok (some c) := by elig_r "and", elig_and

theorem eligible_compressed_ebreak :
    firstMatch H env line (.ie "ebreak") p criteria = .ok (some "c.ebreak") := by
  have hok : OperandsOK H env line p (.ie "ebreak") :=
    ⟨fun f x hf => by cases f <;> simp [Instr.fld] at hf, fun imm hi => by simp [Instr.imm?] at hi⟩
  rw [firstMatch_eq_N rfl hok]
  simp only [Instr.name, criteria, firstMatchN, List.all_cons, List.all_nil, Pred.evalN, Bool.and_true, String.reduceEq,
    decide_false, decide_true, Bool.false_and, if_false, Bool.false_eq_true, if_true]

end PerMnemonic

/-! ### the umbrella statement -/

theorem resolveWith_name' {ev : Imm → Option Int} {ins rins : Instr} (h : resolveWith ev ins = some rins) :
    rins.name = ins.name := by
  unfold resolveWith at h
  split at h
  · cases h; rfl
  · rename_i imm _
    cases hv : ev imm with
    | none => simp [hv] at h
    | some v =>
      simp only [hv, Option.map_some, Option.some.injEq] at h
      subst h
      cases ins <;> rfl

/-- operands the 32-bit `lui` encoder accepts are in −0x80000 … 0xfffff -/
theorem lui_accept_range {rd : RegOp} {v : Int} {w : Nat} (h : encode "lui" [.r rd, .i v] = .ok w) :
    -524288 ≤ v ∧ v ≤ 1048575 := by
  obtain ⟨ops, hd, hl, _⟩ := BB.Props.C01.encode32_sound "lui" (.u 55) (by decide) rfl _ w h
  simp only [BB.Props.C01.denote32, bind, Option.bind, pure] at hd
  cases hr : BB.Props.C01.denoteReg rd with
  | none => simp [hr] at hd
  | some o =>
    simp only [hr, Option.some.injEq] at hd
    subst hd
    have hc : classOf "lui" = some .lui := by decide
    simp only [legal32, hc] at hl
    cases o with
    | reg a =>
      simp only [legalOf, Bool.and_eq_true, decide_eq_true_eq] at hl
      omega
    | imm x => simp [legalOf] at hl

set_option hygiene false in
/-- finish one branch of `eligible_compressed`: the mnemonic is known (`hn`), hence the table row,
    hence the item class; invert the resolution and apply the per-mnemonic theorem -/
macro "ec_i" row:term "," br:term "," thm:term : tactic =>
  `(tactic| (
    have hkm := wk_kind (by decide : instrTable.lookup _ = some $row) hn hwk
    cases ins <;> simp only [kindMatches, Bool.false_eq_true] at hkm
    simp only [Instr.name] at hn
    subst hn
    obtain ⟨a', b', v', hrd, hrs, hv, rfl⟩ := inv_i hres hden
    rw [$br _ _ hrd hrs] at hden
    cases hden
    exact $thm hrd hrs (toOption_eq_some.mp hv) hel))

set_option hygiene false in
macro "ec_r" row:term "," br:term "," thm:term : tactic =>
  `(tactic| (
    have hkm := wk_kind (by decide : instrTable.lookup _ = some $row) hn hwk
    cases ins <;> simp only [kindMatches, Bool.false_eq_true] at hkm
    simp only [Instr.name] at hn
    subst hn
    obtain ⟨a', b', c', hrd, hrs, hr2, rfl⟩ := inv_r hres hden
    rw [$br hrd hrs hr2] at hden
    cases hden
    exact $thm hrd hrs hr2 hel))

/-- **C20, eligible ⇒ compressed.**  A well-kinded instruction whose operands are literal at the
    decision (registers look up, the immediate evaluates — `resolveWith`), that the 32-bit encoder
    accepts and that names the `Instr32` `i`: if `i` is the expansion of a legal, non-hint RV32C
    instruction (`eligible`, from the RVC chapter), transform_compressible's search finds a
    criterion — the instruction IS compressed. -/
theorem eligible_compressed {H : Hooks} {env : String → Option Int} {line : Line} {p : Int}
    {ins rins : Instr} {i : Instr32} (hwk : ins.wellKinded = true)
    (hres : resolveWith (evalAt H env line p) ins = some rins) (hden : denote32I rins = some i)
    (hacc : ∃ args w, rins.args = some args ∧ encode rins.name args = .ok w)
    (hel : eligible i = true) :
    ∃ c, firstMatch H env line ins p criteria = .ok (some c) := by
  obtain ⟨k, args, ops, c, hk, ha, hd, hc, hi⟩ := denote32I_intent hden
  have hname := resolveWith_name' hres
  rw [hname] at hk hc
  cases i with
  | i o a b v =>
    have := intentOf_i hi; subst this
    cases o with
    | addi => have hn := iOpOf_addi (classOf_i hc); ec_i (.i 19 0), b_addi, eligible_compressed_addi
    | andi => have hn := iOpOf_andi (classOf_i hc); ec_i (.i 19 7), b_andi, eligible_compressed_andi
    | _ => simp [eligible, candidates] at hel
  | load o a b v =>
    have := intentOf_load hi; subst this
    cases o with
    | lw => have hn := ldOpOf_lw (classOf_ld hc); ec_i (.i 3 2), b_lw, eligible_compressed_lw
    | _ => simp [eligible, candidates] at hel
  | jalr a b v =>
    have := intentOf_jalr hi; subst this
    have hn := classOf_jalr hc
    ec_i (.ij 103 0), b_jalr, eligible_compressed_jalr
  | store o a b v =>
    have := intentOf_store hi; subst this
    cases o with
    | sw =>
      have hn := stOpOf_sw (classOf_st hc)
      have hkm := wk_kind (by decide : instrTable.lookup _ = some (.s 35 2)) hn hwk
      cases ins <;> simp only [kindMatches, Bool.false_eq_true] at hkm
      simp only [Instr.name] at hn
      subst hn
      obtain ⟨a', b', v', hrd, hrs, hv, rfl⟩ := inv_s hres hden
      rw [b_sw _ hrd hrs] at hden
      cases hden
      exact eligible_compressed_sw hrd hrs (toOption_eq_some.mp hv) hel
    | _ => simp [eligible, candidates] at hel
  | branch o a b v =>
    have := intentOf_branch hi; subst this
    cases o with
    | beq =>
      have hn := brOpOf_beq (classOf_br hc)
      have hkm := wk_kind (by decide : instrTable.lookup _ = some (.b 99 0)) hn hwk
      cases ins <;> simp only [kindMatches, Bool.false_eq_true] at hkm
      simp only [Instr.name] at hn
      subst hn
      obtain ⟨a', b', v', hrd, hrs, hv, rfl⟩ := inv_b hres hden
      rw [b_beq _ hrd hrs] at hden
      cases hden
      exact eligible_compressed_beq hrd hrs (toOption_eq_some.mp hv) hel
    | bne =>
      have hn := brOpOf_bne (classOf_br hc)
      have hkm := wk_kind (by decide : instrTable.lookup _ = some (.b 99 1)) hn hwk
      cases ins <;> simp only [kindMatches, Bool.false_eq_true] at hkm
      simp only [Instr.name] at hn
      subst hn
      obtain ⟨a', b', v', hrd, hrs, hv, rfl⟩ := inv_b hres hden
      rw [b_bne _ hrd hrs] at hden
      cases hden
      exact eligible_compressed_bne hrd hrs (toOption_eq_some.mp hv) hel
    | _ => simp [eligible, candidates] at hel
  | lui a f =>
    have := intentOf_lui hi; subst this
    have hn := classOf_lui hc
    have hkm := wk_kind (by decide : instrTable.lookup _ = some (.u 55)) hn hwk
    cases ins <;> simp only [kindMatches, Bool.false_eq_true] at hkm
    simp only [Instr.name] at hn
    subst hn
    obtain ⟨a', v', hrd, hv, rfl⟩ := inv_u hres hden
    rw [b_lui _ hrd] at hden
    cases hden
    obtain ⟨args', w, ha', he⟩ := hacc
    simp only [Instr.args, Option.some.injEq] at ha'
    subst ha'
    exact eligible_compressed_lui hrd (toOption_eq_some.mp hv) (lui_accept_range he) hel
  | jal a v =>
    have := intentOf_jal hi; subst this
    have hn := classOf_jal hc
    have hkm := wk_kind (by decide : instrTable.lookup _ = some (.j 111)) hn hwk
    cases ins <;> simp only [kindMatches, Bool.false_eq_true] at hkm
    simp only [Instr.name] at hn
    subst hn
    obtain ⟨a', v', hrd, hv, rfl⟩ := inv_j hres hden
    rw [b_jal _ hrd] at hden
    cases hden
    exact eligible_compressed_jal hrd (toOption_eq_some.mp hv) hel
  | sh o a b s =>
    have := intentOf_sh hi; subst this
    cases o with
    | srli => have hn := shOpOf_srli (classOf_sh hc); ec_r (.r 19 5 0), b_srli, eligible_compressed_srli
    | srai => have hn := shOpOf_srai (classOf_sh hc); ec_r (.r 19 5 32), b_srai, eligible_compressed_srai
    | slli => have hn := shOpOf_slli (classOf_sh hc); ec_r (.r 19 1 0), b_slli, eligible_compressed_slli
  | r o a b s =>
    have := intentOf_r hi; subst this
    cases o with
    | add => have hn := rOpOf_add (classOf_r hc); ec_r (.r 51 0 0), b_add, eligible_compressed_add
    | sub => have hn := rOpOf_sub (classOf_r hc); ec_r (.r 51 0 32), b_sub, eligible_compressed_sub
    | xor => have hn := rOpOf_xor (classOf_r hc); ec_r (.r 51 4 0), b_xor, eligible_compressed_xor
    | or => have hn := rOpOf_or (classOf_r hc); ec_r (.r 51 6 0), b_or, eligible_compressed_or
    | and => have hn := rOpOf_and (classOf_r hc); ec_r (.r 51 7 0), b_and, eligible_compressed_and
    | _ => simp [eligible, candidates] at hel
  | ebreak =>
    have := intentOf_ebreak hi; subst this
    have hn := classOf_ebreak hc
    have hkm := wk_kind (by decide : instrTable.lookup _ = some (.ie 115 0 1)) hn hwk
    cases ins <;> simp only [kindMatches, Bool.false_eq_true] at hkm
    simp only [Instr.name] at hn
    subst hn
    exact ⟨_, eligible_compressed_ebreak⟩
  | _ => simp [eligible, candidates] at hel

/-! ### non-vacuity: eligible instructions on both sides of RVC operand-set boundaries -/

example : eligible (.i .addi 2 2 (-512)) = true ∧ eligible (.i .addi 2 2 512) = false ∧
    eligible (.i .addi 10 10 31) = true ∧ eligible (.i .addi 10 10 32) = false ∧
    eligible (.load .lw 8 15 124) = true ∧ eligible (.load .lw 8 16 124) = false ∧
    eligible (.load .lw 5 2 252) = true ∧ eligible (.lui 10 0xfffff) = true ∧ eligible (.lui 2 1) = false ∧
    eligible (.sh .srli 8 8 31) = true ∧ eligible (.sh .srli 8 8 32) = false := by decide
/-- hooks whose arithmetic evaluates every expression to −32 -/
def Hm32 : Hooks := { arith := fun _ _ => .ok (-32), parseImm := fun _ _ => .ok (.arith "K"), readFile := fun _ => none }

/-- every hypothesis of `eligible_compressed` on `addi sp, sp, K` (K = −32), and its conclusion -/
example : (Instr.i "addi" (.str "sp") (.str "sp") (.arith "K") false).wellKinded = true ∧
    resolveWith (evalAt Hm32 (fun _ => none) default 0) (.i "addi" (.str "sp") (.str "sp") (.arith "K") false)
      = some (.i "addi" (.str "sp") (.str "sp") (.value (-32)) false) ∧
    denote32I (.i "addi" (.str "sp") (.str "sp") (.value (-32)) false) = some (.i .addi 2 2 (-32)) ∧
    encode "addi" [.r (.str "sp"), .r (.str "sp"), .i (-32)] = .ok 0xfe010113 ∧
    eligible (.i .addi 2 2 (-32)) = true ∧
    firstMatch Hm32 (fun _ => none) default (.i "addi" (.str "sp") (.str "sp") (.arith "K") false) 0 criteria
      = .ok (some "c.addi16sp") := by decide
example : firstMatchN "addi" (fun _ => 2) (-512) criteria = some "c.addi16sp" ∧
    firstMatchN "addi" (fun f => match f with | .rd => 10 | .rs1 => 11 | .rs2 => 0) 0 criteria = some "c.mv_alt" ∧
    firstMatchN "addi" (fun _ => 10) 32 criteria = none := by decide

/-- why `eligible_compressed` asks that the 32-bit encoder accept the instruction: the operand
    `0x100005` has the 20-bit field 5 (`lui a0, 5` is eligible) but is outside every criterion — and
    outside what `lui` accepts, so no assembled program contains it -/
example : eligible (.lui 10 ((1048581 : Int) % 1048576).toNat) = true ∧
    firstMatchN "lui" (fun _ => 10) 1048581 criteria = none ∧
    encode "lui" [.r (.str "a0"), .i 1048581] = .error .value := by decide

/-! ### whatever matches is a 16-bit instruction -/

/-- whatever entry matches, `compressedForm` turns a 4-byte instruction into a 2-byte compressed one
    (in particular when several entries could match — `c.addi16sp` before `c.addi` — the first wins
    and is still a 16-bit form) -/
theorem first_match_is_16bit {H : Hooks} {env : String → Option Int} {line : Line} {ins cf : Instr} {p : Int}
    {c : String} (_hm : firstMatch H env line ins p criteria = .ok (some c))
    (hcf : compressedForm c ins = some cf) :
    ins.isCompressed = false ∧ cf.isCompressed = true ∧ ins.size = 4 ∧ cf.size = 2 := by
  obtain ⟨h1, h2⟩ := compressedForm_sizes hcf
  exact ⟨h1, h2, by simp [Instr.size, h1], by simp [Instr.size, h2]⟩

example : compressedForm "c.addi16sp" (.i "addi" (.str "sp") (.str "sp") (.arith "K") false) = some (.cia "c.addi16sp" (.arith "K")) ∧
    (Instr.cia "c.addi16sp" (.arith "K")).size = 2 ∧ (Instr.i "addi" (.str "sp") (.str "sp") (.arith "K") false).size = 4 := by
  decide

/-- a matched entry never lacks a replacement form on a well-kinded instruction
    (Lemmas/CompressDecide `matched_has_form`) -/
theorem matched_has_form {c : String} {preds : List Pred} (hmem : (c, preds) ∈ criteria) {ins : Instr}
    {ev : Imm → Option Int} (hwk : ins.wellKinded = true) (hp : ∀ pr ∈ preds, pr.holds ins ev) :
    ∃ cf, compressedForm c ins = some cf := BB.Lemmas.matched_has_form hmem hwk hp

/-! ### nothing grows -/

/-- **compress_never_grows** (per item): whatever `compressBody` does to an item, the replacement is
    not larger (`n ≥ 0` bytes smaller, and the labels behind it move down by exactly `n`) -/
theorem compress_never_grows (H : Hooks) (constants : Dict) (it : Item) (p : Int) (labels : Dict)
    (repl : List Item) (n : Int) (hnl : ∀ line nm, it ≠ .label line nm) (hsz : 0 ≤ it.sizeD)
    (h : compressBody H constants it p labels = .ok (repl, n)) :
    sizeSum repl = it.sizeD - n ∧ 0 ≤ n ∧ sizeSum repl ≤ it.sizeD := by
  obtain ⟨_, _, h3, h4, _⟩ := (compressBody_ok H constants).ok it p labels repl n hnl hsz h
  exact ⟨h3, h4, by omega⟩

/-- `position + Align.resolution_size(position)`: the next multiple of `N` at or after `p` -/
def padTo (N p : Int) : Int := (alignPadding N p).getD 0

theorem padTo_spec {N p : Int} (hN : 1 ≤ N) : 0 ≤ padTo N p ∧ padTo N p < N ∧ (p + padTo N p) % N = 0 := by
  unfold padTo
  cases h : alignPadding N p with
  | none =>
    exfalso
    unfold alignPadding at h
    split at h
    · omega
    · dsimp only at h; split at h <;> cases h
  | some pad => simpa using alignPadding_range (by omega) h

/-- **padding is monotone in the position**: if p ≤ q then p + pad N p ≤ q + pad N q (N ≥ 1, a
    power of two or not) — an item that starts earlier with -c still starts no later after an `align` -/
theorem padTo_mono {N p q : Int} (hN : 1 ≤ N) (hpq : p ≤ q) : p + padTo N p ≤ q + padTo N q := by
  obtain ⟨p1, p2, p3⟩ := padTo_spec (p := p) hN
  obtain ⟨q1, q2, q3⟩ := padTo_spec (p := q) hN
  generalize padTo N p = a at *
  generalize padTo N q = b at *
  by_cases hlt : q + b < p + a
  · exfalso
    have hd : N ∣ (p + a) - (q + b) :=
      Int.dvd_sub (Int.dvd_of_emod_eq_zero p3) (Int.dvd_of_emod_eq_zero q3)
    have := Int.le_of_dvd (by omega) hd
    omega
  · omega

example : padTo 4 6 = 2 ∧ padTo 4 8 = 0 ∧ padTo 3 7 = 2 ∧ 6 + padTo 4 6 ≤ 8 + padTo 4 8 := by decide

/-! ### the program-level statement -/

/-- every `align` argument is at least 1 -/
def AlignsPositive (items : List Item) : Prop := ∀ line a, Item.align line a ∈ items → 1 ≤ a

/-- the immediates consulted by the early decisions (compression predicates, li width) are
    label-free, or the `%offset` of a branch / jump (where a decided compression can only stay valid) -/
def LiteralDecisions (H : Hooks) (items : List Item) : Prop :=
  ∀ items' constants, resolveConstants H items [] = .ok (items', constants) →
    ∀ it ∈ items',
      match it with
      | .instr _ ins => ∀ imm, ins.imm? = some imm → ImmLabelFree H constants imm ∨ ∃ ref, imm = .offset ref
      | .pseudo line name args =>
          name = "li" → ∀ imm, H.parseImm args.tail line = .ok imm → ImmLabelFree H constants imm
      | _ => True

/-- **C20, program level (STATEMENT ONLY — not proved here).** -/
def nothing_grows_statement : Prop :=
  ∀ (H : Hooks) (items : List Item) (r₀ r₁ : AsmResult),
    LiteralDecisions H items → AlignsPositive items →
    assembleItems H false items [] [] = .ok r₀ → assembleItems H true items [] [] = .ok r₁ →
    r₁.bytes.length ≤ r₀.bytes.length ∧
      ∀ ℓ v₀ v₁, r₀.labels.get ℓ = some v₀ → r₁.labels.get ℓ = some v₁ → v₁ ≤ v₀

end BB.Props.C20
