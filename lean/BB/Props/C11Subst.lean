/-
  BB.Props.C11Subst — "substitute transparently", at the level of expressions and register operands.

  `subst_transparent`: in any expression tree, replacing a constant's name by the literal spelling of
  its value (a numeral, or `-` applied to a numeral for a negative value) does not change the value,
  nor whether evaluation fails.  `subst_render`: the same for the parsed token renderings.
  `alias_transparent`: a register operand written as a constant's name is, after
  resolve_register_aliases, exactly the operand written as the constant's value.
-/
import BB.Props.C11
namespace BB.Props.C11
open BB

variable (env : String → Option Int)

/-- the literal spelling of an integer as a syntax tree -/
def litOf (v : Int) : Ast := if v < 0 then .unary .neg (.lit (-v).toNat) else .lit v.toNat

def Ast.subst (k : String) (v : Int) : Ast → Ast
  | .lit n => .lit n
  | .name s => if s = k then litOf v else .name s
  | .unary op a => .unary op (Ast.subst k v a)
  | .binary op a b => .binary op (Ast.subst k v a) (Ast.subst k v b)

theorem eval_litOf (v : Int) : evalAst env (litOf v) = .ok v := by
  unfold litOf
  by_cases h : v < 0
  · simp only [h, if_true, evalAst, applyUn]
    congr 1
    have : ((-v).toNat : Int) = -v := Int.toNat_of_nonneg (by omega)
    simp only [Int.ofNat_eq_natCast, this]; omega
  · simp only [h, if_false, evalAst]
    congr 1
    exact Int.toNat_of_nonneg (by omega)

/-- **A constant substitutes transparently inside every expression.** -/
theorem subst_transparent (k : String) (v : Int) (hk : env k = some v) (a : Ast) :
    evalAst env (Ast.subst k v a) = evalAst env a := by
  induction a with
  | lit n => rfl
  | name s =>
    simp only [Ast.subst]
    by_cases h : s = k
    · subst h; simp only [if_true, eval_litOf, evalAst, hk]
    · simp only [h, if_false]
  | unary op a ih => simp only [Ast.subst, evalAst, ih]
  | binary op a b iha ihb => simp only [Ast.subst, evalAst, iha, ihb]

/-- the same through the parser: the rendering of the substituted tree parses to a tree of the same value -/
theorem subst_render (k : String) (v : Int) (hk : env k = some v) (a : Ast) :
    (match parseExpr (renderAst (Ast.subst k v a)) with
     | .ok t => evalAst env t
     | .error e => .error e) = evalAst env a := by
  rw [parse_render]; exact subst_transparent env k v hk a

/-- **A register written through a constant is the register written literally.** -/
theorem alias_transparent (constants : Dict) (k : String) (v : Int) (hk : constants.get k = some v) :
    aliasReg constants (.str k) = .int v := by
  simp [aliasReg, hk]

/-- a name that is not a constant is left alone (it is a register name, or an error later) -/
theorem alias_other (constants : Dict) (k : String) (hk : constants.get k = none) :
    aliasReg constants (.str k) = .str k := by
  simp [aliasReg, hk]

/-- non-vacuity: `K + 2 * K` with K = -3 and the substituted tree `-3 + 2 * -3` both give -9 -/
example : evalAst (fun s => if s = "K" then some (-3) else none)
      (Ast.subst "K" (-3) (.binary .add (.name "K") (.binary .mul (.lit 2) (.name "K")))) = .ok (-9)
    ∧ evalAst (fun s => if s = "K" then some (-3) else none)
      (.binary .add (.name "K") (.binary .mul (.lit 2) (.name "K"))) = .ok (-9) := by decide

end BB.Props.C11
