/-
  BB.Props.C11 — constants and immediates evaluate as integer arithmetic.

  The expression model (`BB.tokenize`, `BB.parseExpr`, `BB.evalAst`; tied to Python's `eval` as
  used by `Arithmetic.eval` by the differential harness) computes, for every operator node, the
  mathematical operation on the values of its operands:

    + - *      exact on ℤ                                  `eval_add` `eval_sub` `eval_mul`
    //         floor division                              `eval_floordiv` (+ `floordiv_floor`)
    %          remainder with the sign of the divisor      `eval_mod` (+ `mod_spec`)
    << n       multiplication by 2^n                       `eval_shl`
    >> n       floor division by 2^n                       `eval_shr` (+ `shr_floor`)
    ~          -x - 1                                      `eval_inv` (+ `inv_bits`)
    & | ^      bitwise on two's complement, all bits       `eval_and/or/xor` (+ `and_bits` …)
    // % by 0, negative shift counts                       refused (`eval_div_zero`, …)

  numerals: the decimal, `0x` and `0b` spellings of `n` evaluate to `n`   `lit_dec` `lit_hex` `lit_bin`
  syntax:   Python's precedence table and left associativity             `prec_two_ops`, `unary_binds_tighter`
            fully parenthesised renderings parse back to the tree         `parse_render`
-/
import Mathlib.Data.Int.Bitwise
import BB.Lemmas.FrontBasic
import BB.Lemmas.FrontExpr
namespace BB.Props.C11
open BB

variable (env : String → Option Int)

/-! ## leaves -/

theorem eval_lit (n : Nat) : evalAst env (.lit n) = .ok (n : Int) := rfl

theorem eval_name (s : String) (v : Int) (h : env s = some v) : evalAst env (.name s) = .ok v := by
  simp [evalAst, h]

theorem eval_unknown_name (s : String) (h : env s = none) : evalAst env (.name s) = .error .error := by
  simp [evalAst, h]

/-! ## operator nodes -/

/-- an operator node applies the operator to the values of its operands -/
theorem eval_binary (op : BinOp) (a b : Ast) (x y : Int)
    (ha : evalAst env a = .ok x) (hb : evalAst env b = .ok y) :
    evalAst env (.binary op a b) = applyBin op x y := by
  simp [evalAst, ha, hb]

theorem eval_unary (op : UnOp) (a : Ast) (x : Int) (ha : evalAst env a = .ok x) :
    evalAst env (.unary op a) = .ok (applyUn op x) := by
  simp [evalAst, ha]

/-- errors of operands propagate (left operand first, as Python evaluates) -/
theorem eval_binary_err_left (op : BinOp) (a b : Ast) (e : ExprErr) (ha : evalAst env a = .error e) :
    evalAst env (.binary op a b) = .error e := by
  simp [evalAst, ha]

section ops
variable {a b : Ast} {x y : Int} (ha : evalAst env a = .ok x) (hb : evalAst env b = .ok y)
include ha hb

theorem eval_add : evalAst env (.binary .add a b) = .ok (x + y) := by
  rw [eval_binary env _ _ _ _ _ ha hb]; rfl

theorem eval_sub : evalAst env (.binary .sub a b) = .ok (x - y) := by
  rw [eval_binary env _ _ _ _ _ ha hb]; rfl

theorem eval_mul : evalAst env (.binary .mul a b) = .ok (x * y) := by
  rw [eval_binary env _ _ _ _ _ ha hb]; rfl

theorem eval_floordiv (hy : y ≠ 0) : evalAst env (.binary .floordiv a b) = .ok (Int.fdiv x y) := by
  rw [eval_binary env _ _ _ _ _ ha hb]; simp [applyBin, hy, pyFloorDiv]

theorem eval_mod (hy : y ≠ 0) : evalAst env (.binary .mod a b) = .ok (Int.fmod x y) := by
  rw [eval_binary env _ _ _ _ _ ha hb]; simp [applyBin, hy, pyMod]

theorem eval_div_zero (hy : y = 0) : evalAst env (.binary .floordiv a b) = .error .error := by
  rw [eval_binary env _ _ _ _ _ ha hb]; simp [applyBin, hy]

theorem eval_mod_zero (hy : y = 0) : evalAst env (.binary .mod a b) = .error .error := by
  rw [eval_binary env _ _ _ _ _ ha hb]; simp [applyBin, hy]

/-- true division never yields an integer: always refused -/
theorem eval_truediv : evalAst env (.binary .truediv a b) = .error .error := by
  rw [eval_binary env _ _ _ _ _ ha hb]; rfl

theorem eval_shl (h0 : 0 ≤ y) (h1 : y ≤ 4096) :
    evalAst env (.binary .shl a b) = .ok (x * 2 ^ y.toNat) := by
  rw [eval_binary env _ _ _ _ _ ha hb]
  simp [applyBin, Int.not_lt.mpr h0, Int.not_lt.mpr h1, pyShl]

theorem eval_shr (h0 : 0 ≤ y) : evalAst env (.binary .shr a b) = .ok (x / 2 ^ y.toNat) := by
  rw [eval_binary env _ _ _ _ _ ha hb]
  simp [applyBin, Int.not_lt.mpr h0, Int.shiftRight_eq_div_pow]

theorem eval_shift_negative (h0 : y < 0) :
    evalAst env (.binary .shl a b) = .error .error ∧ evalAst env (.binary .shr a b) = .error .error := by
  constructor <;> (rw [eval_binary env _ _ _ _ _ ha hb]; simp [applyBin, h0])

theorem eval_and : evalAst env (.binary .band a b) = .ok (pyAnd x y) := by
  rw [eval_binary env _ _ _ _ _ ha hb]; rfl

theorem eval_or : evalAst env (.binary .bor a b) = .ok (pyOr x y) := by
  rw [eval_binary env _ _ _ _ _ ha hb]; rfl

theorem eval_xor : evalAst env (.binary .bxor a b) = .ok (pyXor x y) := by
  rw [eval_binary env _ _ _ _ _ ha hb]; rfl

end ops

theorem eval_pos {a : Ast} {x : Int} (ha : evalAst env a = .ok x) : evalAst env (.unary .pos a) = .ok x := by
  rw [eval_unary env _ _ _ ha]; rfl

theorem eval_neg {a : Ast} {x : Int} (ha : evalAst env a = .ok x) : evalAst env (.unary .neg a) = .ok (-x) := by
  rw [eval_unary env _ _ _ ha]; rfl

theorem eval_inv {a : Ast} {x : Int} (ha : evalAst env a = .ok x) :
    evalAst env (.unary .inv a) = .ok (-x - 1) := by
  rw [eval_unary env _ _ _ ha]; rfl

/-! ## what the operations are, mathematically -/

/-- `Int.fdiv` is the floor of the rational quotient: `q = ⌊x / y⌋` -/
theorem floordiv_floor (x y : Int) :
    (0 < y → y * Int.fdiv x y ≤ x ∧ x < y * (Int.fdiv x y + 1)) ∧
    (y < 0 → x ≤ y * Int.fdiv x y ∧ y * (Int.fdiv x y + 1) < x) := by
  have hsum := Int.mul_fdiv_add_fmod x y
  constructor
  · intro hpos
    have h1 := Int.fmod_nonneg_of_pos x hpos
    have h2 := Int.fmod_lt_of_pos x hpos
    rw [Int.mul_add, Int.mul_one]
    omega
  · intro hneg
    have hpos : 0 < -y := by omega
    have h1 := Int.fmod_nonneg_of_pos (-x) hpos
    have h2 := Int.fmod_lt_of_pos (-x) hpos
    have h3 : (-x).fmod (-y) = -(x.fmod y) := Int.neg_fmod_neg x y
    rw [Int.mul_add, Int.mul_one]
    omega

/-- the remainder: `x = y * q + r` with `r` between `0` and `y` (the sign of the divisor) -/
theorem mod_spec (x y : Int) (hy : y ≠ 0) :
    x = y * Int.fdiv x y + Int.fmod x y ∧
    ((0 ≤ Int.fmod x y ∧ Int.fmod x y < y) ∨ (y < Int.fmod x y ∧ Int.fmod x y ≤ 0)) := by
  refine ⟨(Int.mul_fdiv_add_fmod x y).symm, ?_⟩
  rcases Int.lt_or_gt_of_ne hy with hneg | hpos
  · right
    have hpos : 0 < -y := by omega
    have h1 := Int.fmod_nonneg_of_pos (-x) hpos
    have h2 := Int.fmod_lt_of_pos (-x) hpos
    have h3 : (-x).fmod (-y) = -(x.fmod y) := Int.neg_fmod_neg x y
    omega
  · left; exact ⟨Int.fmod_nonneg_of_pos x hpos, Int.fmod_lt_of_pos x hpos⟩

/-- `>> n` is `⌊x / 2^n⌋` -/
theorem shr_floor (x : Int) (n : Nat) :
    (2 : Int) ^ n * (x / 2 ^ n) ≤ x ∧ x < (2 : Int) ^ n * (x / 2 ^ n + 1) := by
  have hp : (0 : Int) < 2 ^ n := Int.pow_pos (by decide)
  have h1 := Int.emod_nonneg x (Int.ne_of_gt hp)
  have h2 := Int.emod_lt_of_pos x hp
  have h3 := Int.mul_ediv_add_emod x (2 ^ n)
  rw [Int.mul_add, Int.mul_one]
  omega

/-! ### two's complement -/

theorem land_add_ldiff (m n : ℕ) : (m &&& n) + Nat.ldiff m n = m := by
  induction m using Nat.binaryRec generalizing n with
  | zero => simp [Nat.ldiff]
  | bit a m ih =>
    induction n using Nat.binaryRec with
    | zero => simp [Nat.ldiff]
    | bit b n _ =>
      rw [Nat.land_bit, Nat.ldiff_bit]
      have := ih n
      cases a <;> cases b <;> simp [Nat.bit_val] <;> omega

theorem ldiff_eq_sub (m n : ℕ) : Nat.ldiff m n = m - (m &&& n) := by
  have := land_add_ldiff m n; omega

theorem pyAnd_eq_land (a b : ℤ) : pyAnd a b = Int.land a b := by
  cases a <;> cases b <;> simp [pyAnd, Int.land, ldiff_eq_sub]

theorem pyOr_eq_lor (a b : ℤ) : pyOr a b = Int.lor a b := by
  cases a <;> cases b <;> simp [pyOr, Int.lor, ldiff_eq_sub]

theorem pyXor_eq_xor (a b : ℤ) : pyXor a b = Int.xor a b := by
  cases a <;> cases b <;> simp [pyXor, Int.xor]

/-- `&` : bit `i` of the result is the conjunction of the bits `i` (infinite sign extension) -/
theorem and_bits (x y : Int) (i : Nat) : (pyAnd x y).testBit i = (x.testBit i && y.testBit i) := by
  rw [pyAnd_eq_land]; exact Int.testBit_land x y i

theorem or_bits (x y : Int) (i : Nat) : (pyOr x y).testBit i = (x.testBit i || y.testBit i) := by
  rw [pyOr_eq_lor]; exact Int.testBit_lor x y i

theorem xor_bits (x y : Int) (i : Nat) : (pyXor x y).testBit i = xor (x.testBit i) (y.testBit i) := by
  rw [pyXor_eq_xor]; exact Int.testBit_lxor x y i

/-- `~` flips every bit -/
theorem inv_bits (x : Int) (i : Nat) : (-x - 1).testBit i = !x.testBit i := by
  have : -x - 1 = Int.lnot x := by
    cases x with
    | ofNat m => simp [Int.lnot]; omega
    | negSucc m => simp [Int.lnot]
  rw [this]; exact Int.testBit_lnot x i

/-! ## numerals -/

def decStr (n : Nat) : List Char := Nat.toDigits 10 n
def hexStr (n : Nat) : List Char := '0' :: 'x' :: Nat.toDigits 16 n
def binStr (n : Nat) : List Char := '0' :: 'b' :: Nat.toDigits 2 n

theorem evalPy_of_tokens {l : List Char} {n : Nat} (h : tokenize l = .ok [.num n]) :
    evalPy l env = .ok (n : Int) := by
  unfold evalPy
  rw [h]
  rfl

/-- the decimal numeral of `n` evaluates to `n` -/
theorem lit_dec (n : Nat) : evalPy (decStr n) env = .ok (n : Int) :=
  evalPy_of_tokens env (tokenize_dec n)

/-- the hexadecimal numeral `0x…` of `n` evaluates to `n` -/
theorem lit_hex (n : Nat) : evalPy (hexStr n) env = .ok (n : Int) :=
  evalPy_of_tokens env (tokenize_hex n)

/-- the binary numeral `0b…` of `n` evaluates to `n` -/
theorem lit_bin (n : Nat) : evalPy (binStr n) env = .ok (n : Int) :=
  evalPy_of_tokens env (tokenize_bin n)

/-- **int_spelling** (also C13): the three spellings denote the same value -/
theorem int_spelling (n : Nat) :
    evalPy (decStr n) env = evalPy (hexStr n) env ∧ evalPy (hexStr n) env = evalPy (binStr n) env := by
  rw [lit_dec, lit_hex, lit_bin]; exact ⟨rfl, rfl⟩

theorem allowed_ascii {c : Char} (h : allowedChar c = true) : isAsciiC c = true := by
  have key : ∀ {hi : Char}, hi.toNat < 128 → c ≤ hi → c.toNat < 128 :=
    fun hh h2 => Nat.lt_of_le_of_lt h2 hh
  simp only [allowedChar, isIdentChar, isIdentStart, isDigitC, Bool.or_eq_true, Bool.and_eq_true,
    decide_eq_true_eq] at h
  simp only [isAsciiC, decide_eq_true_eq]
  rcases h with (((((((((((((((h | h) | h) | h) | h) | h) | h) | h) | h) | h) | h) | h) | h) | h) | h) | h)
  · rcases h with ((h | h) | h) | h
    · exact key (by decide) h.2
    · exact key (by decide) h.2
    · subst h; decide
    · exact key (by decide) h.2
  all_goals (subst h; decide)

/-- through `Arithmetic.eval` itself, for numerals within the modelled length -/
theorem lit_arith (l : List Char) (n : Nat) (hl : l = decStr n ∨ l = hexStr n ∨ l = binStr n)
    (hlen : l.length ≤ maxExprLen) : evalArithL l env = .ok (n : Int) := by
  have hev : evalPy l env = .ok (n : Int) := by
    rcases hl with rfl | rfl | rfl
    · exact lit_dec env n
    · exact lit_hex env n
    · exact lit_bin env n
  have hall : l.all allowedChar = true := by
    rcases hl with rfl | rfl | rfl
    · exact allowed_toDigits (by decide) (by decide)
    · simp only [hexStr, List.all_cons, allowed_toDigits (b := 16) (by decide) (by decide), Bool.and_true]; decide
    · simp only [binStr, List.all_cons, allowed_toDigits (b := 2) (by decide) (by decide), Bool.and_true]; decide
  have hascii : l.all isAsciiC = true := by
    rw [List.all_eq_true] at hall ⊢
    exact fun c hc => allowed_ascii (hall c hc)
  have hq : ¬ (l.head? = some '\'' ∧ l.getLast? = some '\'') := by
    intro ⟨h1, _⟩
    have : '\'' ∈ l := by
      cases l with
      | nil => cases h1
      | cons c cs => simp only [List.head?_cons, Option.some.injEq] at h1; subst h1; exact List.mem_cons_self ..
    have := (List.all_eq_true.mp hall) _ this
    exact absurd this (by decide)
  unfold evalArithL
  simp only [hascii, not_true_eq_false, if_false, hq, Nat.not_lt.mpr hlen, hev]

/-! ## syntax: precedence and associativity -/

/-- Python's binding strength of the binary operators (language reference, 6.17):
    `|` < `^` < `&` < `<< >>` < `+ -` < `* / // %` -/
def precOf : BinOp → Nat
  | .bor => 0 | .bxor => 1 | .band => 2 | .shl => 3 | .shr => 3 | .add => 4 | .sub => 4
  | .mul => 5 | .floordiv => 5 | .truediv => 5 | .mod => 5

/-- `x o1 y o2 z` groups to the right exactly when `o2` binds tighter; equal strength groups to
    the left (all binary operators are left-associative) — all 121 operator pairs -/
theorem prec_two_ops (o1 o2 : BinOp) (x y z : Nat) :
    parseExpr [.num x, binTok o1, .num y, binTok o2, .num z] =
      .ok (if precOf o2 > precOf o1
           then .binary o1 (.lit x) (.binary o2 (.lit y) (.lit z))
           else .binary o2 (.binary o1 (.lit x) (.lit y)) (.lit z)) := by
  cases o1 <;> cases o2 <;> rfl

/-- unary `+ - ~` bind tighter than every binary operator, on either side -/
theorem unary_binds_tighter (u : UnOp) (o : BinOp) (x y : Nat) :
    parseExpr [unTok u, .num x, binTok o, .num y] = .ok (.binary o (.unary u (.lit x)) (.lit y)) ∧
    parseExpr [.num x, binTok o, unTok u, .num y] = .ok (.binary o (.lit x) (.unary u (.lit y))) := by
  cases u <;> cases o <;> exact ⟨rfl, rfl⟩

/-- … and stack -/
theorem unary_stacks (u1 u2 : UnOp) (x : Nat) :
    parseExpr [unTok u1, unTok u2, .num x] = .ok (.unary u1 (.unary u2 (.lit x))) := by
  cases u1 <;> cases u2 <;> rfl

/-- parentheses override precedence -/
theorem parens_override (o1 o2 : BinOp) (x y z : Nat) :
    parseExpr [.num x, binTok o1, .lparen, .num y, binTok o2, .num z, .rparen] =
      .ok (.binary o1 (.lit x) (.binary o2 (.lit y) (.lit z))) := by
  cases o1 <;> cases o2 <;> rfl

/-- **parser round trip**: for every syntax tree, its fully parenthesised token rendering parses
    back to exactly that tree -/
theorem parse_render (a : Ast) : parseExpr (renderAst a) = .ok a := parseExpr_render a

/-- … and so evaluating the rendering is evaluating the tree -/
theorem eval_render (a : Ast) :
    (match parseExpr (renderAst a) with
     | .ok t => evalAst env t
     | .error e => .error e) = evalAst env a := by
  rw [parse_render]

/-! ## non-vacuity -/

example : evalArith "2 + 3 * 4" (fun _ => none) = .ok 14 := by decide +kernel
example : evalArith "-7 // 2" (fun _ => none) = .ok (-4) := by decide +kernel
example : evalArith "-7 % 3" (fun _ => none) = .ok 2 := by decide +kernel
example : evalArith "7 % -3" (fun _ => none) = .ok (-2) := by decide +kernel
example : evalArith "~5 & 0xff | 1 << 8" (fun _ => none) = .ok 506 := by decide +kernel
example : evalArith "-1 >> 4" (fun _ => none) = .ok (-1) := by decide +kernel
example : evalArith "BASE + 4 * N" (fun s => if s = "BASE" then some 0x20000000 else if s = "N" then some 3 else none)
    = .ok 0x2000000c := by decide +kernel
example : evalArith "1 // 0" (fun _ => none) = .error .error := by decide +kernel
example : evalArith "'A'" (fun _ => none) = .ok 65 := by decide +kernel
example : evalArith "0x1F" (fun _ => none) = evalArith "0b11111" (fun _ => none) := by decide +kernel
example : renderAst (.binary .add (.lit 1) (.unary .neg (.name "x"))) =
    [.lparen, .num 1, .rparen, .plus, .lparen, .minus, .lparen, .name "x", .rparen, .rparen] := by
  decide +kernel

end BB.Props.C11
