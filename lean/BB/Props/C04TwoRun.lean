/-
  BB.Props.C04TwoRun — C04, two runs: the STRUCTURE of the -c run relative to the plain run.

  `two_run_corr`: under `GrowHyps` (Props/C20TwoRun), if both `layoutOf H false items` and
  `layoutOf H true items` are defined (in particular if both runs succeed), the decided item list of
  the -c run (pseudo-instructions expanded, compression decided, aligns still symbolic) is the decided
  list of the plain run, item by item, where
    * an item is the same, or
    * a 32-bit instruction `ins` of the plain run is the compressed instruction `cf` of the -c run,
      with the compression decision recorded (`DecidedAt`: rule, predicates all true at the position
      and label table of the pass that decided, `compressedForm c ins = some cf`), or
    * a far `call` / `tail` pair `auipc rA, %hi(t) ; jalr rd, rA, %lo(t)` of the plain run is the near
      `jal rd, t` (or its compressed form) in the -c run.
  Data, markers and aligns are identical.  Together with the single-run theorems (Props/C04Program,
  Props/C04Transfers: each recorded decision is sound at the FINAL tables of the -c run for label-free
  originals and for transfers to labels) this is the item-wise correspondence of C04; what is NOT
  proved is one combined statement quantifying over both final byte strings.
-/
import BB.Lemmas.TwoRunCorr
import BB.Props.C20TwoRun
namespace BB.Props.C04
open BB BB.Spec BB.Lemmas
open BB.Props.C03 (Stage)
open BB.Props.C20 (GrowHyps)

theorem mapRegs_idem' (constants : Dict) (y : Instr) :
    (y.mapRegs (aliasReg constants)).mapRegs (aliasReg constants) = y.mapRegs (aliasReg constants) := by
  cases y <;> simp only [Instr.mapRegs, aliasReg_idem]

theorem aliased_fixed {G : List Item} {constants : Dict} {l : Line} {i : Instr}
    (h : Item.instr l i ∈ resolveRegisterAliases G constants) : i.mapRegs (aliasReg constants) = i := by
  obtain ⟨y, _, rfl⟩ := mem_aliases h
  exact mapRegs_idem' constants y

/-- the decided lists of the two runs, from the stage equations -/
theorem two_run_corr_stages (H : Hooks) (items : List Item) (hyp : GrowHyps H items) (constants : Dict)
    {items1 items2 : List Item} {labels2 : Dict}
    {a4 : List Item} {la4 : Dict}                      -- run 0
    {b3 b4 b6 : List Item} {lb3 lb4 lb6 : Dict}        -- run 1
    (h1 : resolveConstants H items [] = .ok (items1, constants))
    (h2 : resolveLabels items1 [] = .ok (items2, labels2))
    (ha4 : transformPseudo H (resolveRegisterAliases items2 constants) constants labels2 = .ok (a4, la4))
    (hb3 : maybeCompress H true (resolveRegisterAliases items2 constants) constants labels2 = .ok (b3, lb3))
    (hb4 : transformPseudo H b3 constants lb3 = .ok (b4, lb4))
    (hb6 : maybeCompress H true (resolveRegisterAliases b4 constants) constants lb4 = .ok (b6, lb6)) :
    Corr H constants (resolveRegisterAliases a4 constants) b6 := by
  simp only [maybeCompress, if_true, transformCompressible] at hb3 hb6
  unfold transformPseudo at ha4 hb4
  obtain ⟨c1, c2, c3⟩ := BB.Props.C03.resolveConstants_spec H items [] items1 constants h1
  obtain ⟨l1, l2, _, l4, l5⟩ := resolveLabelsAux_spec items1 0 [] [] items2 labels2 h2
  have st0 : Stage items1 items2 labels2 (labelNames items) := by
    refine ⟨l1.symm, c2 hyp.nonneg, l2, c1, l4, ?_⟩
    intro ℓ v hℓ hv
    rw [l5 ℓ hℓ] at hv
    simp [Dict.get, List.lookup] at hv
  have hnone2 : ∀ ℓ, ℓ ∉ labelNames items → labels2.get ℓ = none := by
    intro ℓ hℓ
    rw [l5 ℓ (by rw [c1]; exact hℓ)]
    simp [Dict.get, List.lookup]
  have st1 := BB.Props.C03.stage_aliases st0 constants
  obtain ⟨B3, wb3, sb3, _⟩ := stage_walk'' (compressBody_ok H constants) st1 hb3
  have hiw3 := walk_compress_IWd H constants _ 0 labels2 B3 lb3 wb3
  obtain ⟨A4, wa4, sa4, _⟩ := stage_walk'' (pseudoBody_ok H constants) st1 ha4
  obtain ⟨B4, wb4, sb4, _⟩ := stage_walk'' (pseudoBody_ok H constants) sb3 hb4
  have hsz : sizeSum (resolveRegisterAliases items1 constants) = sizeSum items := by
    rw [sizeSum_aliases, resolveConstants_sizeSum H items [] items1 constants h1]
  have hpseudo_mem : ∀ line name args, Item.pseudo line name args ∈ resolveRegisterAliases items1 constants →
      Item.pseudo line name args ∈ items := by
    intro line name args hm
    exact c3 _ (mem_aliases_other (by intro l i e; cases e) hm)
  have hcorr4 : Corr H constants A4 B4 := by
    refine pseudo_lockstep_corr H constants hyp.offset (sizeSum items) hyp.small hiw3 0 0 labels2 lb3 A4 B4 la4 lb4
      st1.nonneg st1.nodup ⟨st1.agree, st1.low⟩ ⟨sb3.agree, sb3.low⟩ ?_ (Int.le_refl _) (by rw [hsz]; omega) ?_ ?_ ?_ wa4 wb4
    · intro ℓ hℓ u0 hu0
      rw [aliases_labelNames, c1] at hℓ
      rw [hnone2 ℓ hℓ] at hu0
      cases hu0
    · intro line name args hm hk imm hpi
      exact hyp.li items1 constants h1 line name args (hpseudo_mem line name args hm) hk imm hpi
    · intro line name args ref hm hk ha
      exact hyp.calls items1 constants h1 line name args ref (hpseudo_mem line name args hm) hk ha
    · intro l i hm; exact aliased_fixed hm
  have hcorr5 := hcorr4.aliases
  have sa5 := BB.Props.C03.stage_aliases sa4 constants
  have sb5 := BB.Props.C03.stage_aliases sb4 constants
  obtain ⟨B6, wb6, sb6, _⟩ := stage_walk'' (compressBody_ok H constants) sb5 hb6
  have hcorr6 : Corr H constants (resolveRegisterAliases A4 constants) B6 :=
    hcorr5.then_iwd (fun l i hm => aliased_fixed hm) (walk_compress_IWd H constants _ 0 lb4 B6 lb6 wb6)
  have := hcorr6.strip
  rw [sa5.strip_eq, sb6.strip_eq] at this
  exact this

/-- **C04, two runs, structure.**  (`layoutOf`, `Layout.decided`: Props/C04.) -/
theorem two_run_corr (H : Hooks) (items : List Item) (hyp : GrowHyps H items) (lay₀ lay₁ : Layout)
    (h0 : layoutOf H false items = .ok lay₀) (h1 : layoutOf H true items = .ok lay₁) :
    lay₀.constants = lay₁.constants ∧ Corr H lay₁.constants lay₀.decided lay₁.decided := by
  unfold layoutOf at h0 h1
  simp only [bind, Except.bind] at h0 h1
  cases e1 : resolveConstants H items [] with
  | error e => simp [e1] at h0
  | ok r1 =>
  obtain ⟨items1, constants⟩ := r1
  simp only [e1] at h0 h1
  cases e2 : resolveLabels items1 [] with
  | error e => simp [e2] at h0
  | ok r2 =>
  obtain ⟨items2, labels2⟩ := r2
  simp only [e2] at h0 h1
  -- run 0
  simp only [maybeCompress, Bool.false_eq_true, if_false, pure, Except.pure] at h0
  cases ea4 : transformPseudo H (resolveRegisterAliases items2 constants) constants labels2 with
  | error e => simp [ea4] at h0
  | ok ra4 =>
  obtain ⟨a4, la4⟩ := ra4
  simp only [ea4] at h0
  cases ea7 : resolveAligns (resolveRegisterAliases a4 constants) la4 with
  | error e => simp [ea7] at h0
  | ok ra7 =>
  obtain ⟨a7, la7⟩ := ra7
  simp only [ea7, Except.ok.injEq] at h0
  -- run 1
  cases eb3 : maybeCompress H true (resolveRegisterAliases items2 constants) constants labels2 with
  | error e => simp [eb3] at h1
  | ok rb3 =>
  obtain ⟨b3, lb3⟩ := rb3
  simp only [eb3] at h1
  cases eb4 : transformPseudo H b3 constants lb3 with
  | error e => simp [eb4] at h1
  | ok rb4 =>
  obtain ⟨b4, lb4⟩ := rb4
  simp only [eb4] at h1
  cases eb6 : maybeCompress H true (resolveRegisterAliases b4 constants) constants lb4 with
  | error e => simp [eb6] at h1
  | ok rb6 =>
  obtain ⟨b6, lb6⟩ := rb6
  simp only [eb6] at h1
  cases eb7 : resolveAligns b6 lb6 with
  | error e => simp [eb7] at h1
  | ok rb7 =>
  obtain ⟨b7, lb7⟩ := rb7
  simp only [eb7, pure, Except.pure, Except.ok.injEq] at h1
  subst h0 h1
  exact ⟨rfl, two_run_corr_stages H items hyp constants e1 e2 ea4 eb3 eb4 eb6⟩

/-- a successful run has a layout -/
theorem assemble_layoutOf (H : Hooks) (compress : Bool) (items : List Item) (r : AsmResult)
    (h : assembleItems H compress items [] [] = .ok r) :
    ∃ lay, layoutOf H compress items = .ok lay ∧ lay.constants = r.constants ∧ lay.labels = r.labels := by
  obtain ⟨items1, items2, items3, items4, items6, items7, out, labels2, labels3, labels4, labels6, _, h1, h2, h3, h4, h6, h7, _, _⟩ :=
    assemble_stages_all H compress items r h
  refine ⟨⟨items6, items7, r.constants, r.labels⟩, ?_, rfl, rfl⟩
  unfold resolveAligns at h7
  simp only [layoutOf, bind, Except.bind, h1, h2, h3, h4, h6, resolveAligns, h7, pure, Except.pure]

/-- **C04 (9): if the program assembles both ways, the two decided lists correspond item-wise** -/
theorem compress_same_ops_structure (H : Hooks) (items : List Item) (hyp : GrowHyps H items) (r₀ r₁ : AsmResult)
    (h0 : assembleItems H false items [] [] = .ok r₀) (h1 : assembleItems H true items [] [] = .ok r₁) :
    ∃ lay₀ lay₁, layoutOf H false items = .ok lay₀ ∧ layoutOf H true items = .ok lay₁ ∧
      lay₀.labels = r₀.labels ∧ lay₁.labels = r₁.labels ∧ r₀.constants = r₁.constants ∧
      Corr H r₁.constants lay₀.decided lay₁.decided := by
  obtain ⟨lay0, e0, c0, l0⟩ := assemble_layoutOf H false items r₀ h0
  obtain ⟨lay1, e1, c1, l1⟩ := assemble_layoutOf H true items r₁ h1
  obtain ⟨hc, hcorr⟩ := two_run_corr H items hyp lay0 lay1 e0 e1
  exact ⟨lay0, lay1, e0, e1, l0, l1, by rw [← c0, ← c1, hc], by rw [← c1]; exact hcorr⟩

/-! ### non-vacuity: the program of Props/C20TwoRun (`call F ; addi a0, a0, M ; align 4 ; F: ; ret`) -/

open BB.Props.C20 (Hx progOK progOK_hyps lnx)

/-- the two decided lists: every instruction of the plain run has its compressed form in the -c run
    (c.jal for the near call, c.addi, c.jr); the align is the same item -/
example : (layoutOf Hx false progOK).map (·.decided) = .ok
      [.instr (lnx 1) (.j "jal" (.str "x1") (.offset "F")),
       .instr (lnx 2) (.i "addi" (.str "a0") (.str "a0") (.arith "M") false),
       .align (lnx 3) 4,
       .instr (lnx 5) (.i "jalr" (.str "x0") (.str "x1") (.arith "0") false)] ∧
    (layoutOf Hx true progOK).map (·.decided) = .ok
      [.instr (lnx 1) (.cj "c.jal" (.offset "F")),
       .instr (lnx 2) (.ci "c.addi" (.str "a0") (.arith "M")),
       .align (lnx 3) 4,
       .instr (lnx 5) (.crj "c.jr" (.str "x1") false)] := by decide

end BB.Props.C04
