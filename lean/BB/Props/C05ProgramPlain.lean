/-
  BB.Props.C05ProgramPlain — C05 at program level, classes (b) and (d): the pseudo-instructions that
  expand to ONE label-free instruction — mv, not, neg, seqz, snez, sltz, sgtz (`assemble_unary_effect`)
  and jr, jalr, ret, nop, fence (`assemble_misc_effect`).  In every successful
  `assembleItems H compress items [] []` the bytes at the item's offset are that instruction (`unaryDoc`,
  `miscDoc`), as a 32-bit word or — with `-c` — as the legal RVC halfword a compression pass chose
  (`ExecAt`: `execC ci = exec i 2`, so e.g. the link value of a compressed `jalr` is pc + 2).
  Hook hypotheses: `LitOK` and, for `not`, `Neg1OK` (the literal `-1`).
-/
import BB.Props.C05Program
namespace BB.Props.C05
open BB BB.Spec BB.Lemmas
open BB.Props.C03 (Land)

/-- one pseudo-instruction that expands (at every position and table) to the single instruction `i0`, whose
    immediate — if any — is label-free and resolves to the fixed form `rins` -/
theorem single_free_effect (H : Hooks) (compress : Bool) (items : List Item) (r : AsmResult) (hnn : NonNeg items)
    (hlit : ∀ line p env, LitOK (evalAt H env line p))
    (h : assembleItems H compress items [] [] = .ok r)
    {A B : List Item} {line : Line} {name : String} {args : List String}
    (e : items = A ++ .pseudo line name args :: B)
    {i0 rins : Instr}
    (hshape : ∀ env p instrs short, expandPseudo H env line name args p = .ok (instrs, short) → instrs = [i0])
    (hns : ∀ n a b im, i0 ≠ .s n a b im) (hna : ∀ n rd rs1 rs2 aq rl, i0 ≠ .a n rd rs1 rs2 aq rl)
    (hnal : ∀ n rd rs1 aq rl, i0 ≠ .al n rd rs1 aq rl) (haj : i0.isAuipcJump = false)
    (hfree : ∀ imm, i0.imm? = some imm → ImmLabelFree H r.constants imm)
    (hres : ∀ q, resolveWith (evalAt H (chainGet r.constants r.labels) line q) (i0.mapRegs (aliasReg r.constants)) = some rins) :
    ∃ off : Int, SourceAt H compress items r A B line off ∧
      (∀ f x, (i0.mapRegs (aliasReg r.constants)).fld f = some x → (lookupRegister x).isSome = true) ∧
      ∀ i32, ((∀ f x, (i0.mapRegs (aliasReg r.constants)).fld f = some x → (lookupRegister x).isSome = true) →
          denote32I rins = some i32) →
        ∃ n : Nat, (n = 4 ∨ n = 2) ∧ DecodedAt H r line (i0.mapRegs (aliasReg r.constants)) off n i32 := by
  obtain ⟨G7, P, blk, S, q, Lq, instrs, short, eG, hexp, hz, hplaced, _, _, _, hlayout, xA, xB, hnnG⟩ :=
    pseudo_trace H compress items r hnn h e
  have hi0 := hshape _ _ _ _ hexp
  subst hi0
  have hat := sourceAt_of_trace eG hz (by simp) hlayout xA xB hnnG
  have hwk0 : i0.wellKinded = true := by
    unfold expandPseudo at hexp
    cases hk : pseudoKind name with
    | none => simp [hk] at hexp
    | some k =>
      simp only [hk] at hexp
      exact expandKind_wellKinded hk hexp i0 List.mem_cons_self
  simp only [List.map_cons, List.map_nil] at hz
  cases hz with
  | @cons _ x1 _ rest hq1 hrest =>
    cases hrest
    have hx1nl : ∀ l n, x1 ≠ .label l n := by
      rcases hq1 with rfl | ⟨_, _, _, _, _, _, rfl, _⟩ <;> (intro l n ex; cases ex)
    obtain ⟨d1, hp1⟩ := hplaced P x1 S (by rw [eG]; rfl) hx1nl
    have hwk' : (i0.mapRegs (aliasReg r.constants)).wellKinded = true := by rw [wellKinded_mapRegs]; exact hwk0
    have hns' : ∀ n a b im, i0.mapRegs (aliasReg r.constants) ≠ .s n a b im := by
      intro n a b im ex; cases i0 <;> simp [Instr.mapRegs] at ex; exact hns _ _ _ _ rfl
    have hna' : ∀ n rd rs1 rs2 aq rl, i0.mapRegs (aliasReg r.constants) ≠ .a n rd rs1 rs2 aq rl := by
      intro n rd rs1 rs2 aq rl ex; cases i0 <;> simp [Instr.mapRegs] at ex; exact hna _ _ _ _ _ _ rfl
    have hnal' : ∀ n rd rs1 aq rl, i0.mapRegs (aliasReg r.constants) ≠ .al n rd rs1 aq rl := by
      intro n rd rs1 aq rl ex; cases i0 <;> simp [Instr.mapRegs] at ex; exact hnal _ _ _ _ _ rfl
    have key := fun i32 hden => final_decoded_free (i32 := i32) hlit hq1 hp1 hwk' hna' hnal' hns'
      (by rw [mapRegs_aj]; exact haj) (by intro imm hi; rw [mapRegs_imm] at hi; exact hfree imm hi) (hres _) hden
    refine ⟨sizeSum P, hat, ?_, ?_⟩
    · -- validity, from the acceptance of whichever form is there
      obtain ⟨k, hk, hs, hnc⟩ := wellKinded_row hwk'
      rcases hq1 with rfl | ⟨hcm, cf, c, preds, p, L, rfl, dd⟩
      · obtain ⟨rins', w, i, hres', _, _, _, hi⟩ := placed_read32 hk hs hnc hp1
        obtain ⟨hwkr, hfld⟩ := resolveWith_fld hres'
        have hnat := resolveWith_not_atomic hres' hna' hnal'
        intro f x hx
        exact regs_valid_of_denote (by rw [hwkr]; exact hwk') hnat.1 hnat.2 hi f x (by rw [hfld]; exact hx)
      · refine decided_regs dd ?_
        intro ec; subst ec
        have := dd.2.2.2.2
        cases hi0 : i0.mapRegs (aliasReg r.constants) <;> rw [hi0] at this <;> simp [compressedForm] at this
        exact hns' _ _ _ _ hi0
    · intro i32 hden
      obtain ⟨_, n, hn4, _, hex⟩ := key i32 hden
      exact ⟨n, hn4, hex⟩

/-! ### (b) mv, not, neg, seqz, snez, sltz, sgtz -/

/-- the documented instruction of a unary pseudo-instruction on registers `a` (destination) and `b` (source) -/
def unaryDoc : PKind → Nat → Nat → Option Instr32
  | .mv, a, b => some (.i .addi a b 0)
  | .not, a, b => some (.i .xori a b (-1))
  | .neg, a, b => some (.r .sub a 0 b)
  | .seqz, a, b => some (.i .sltiu a b 1)
  | .snez, a, b => some (.r .sltu a 0 b)
  | .sltz, a, b => some (.r .slt a b 0)
  | .sgtz, a, b => some (.r .slt a 0 b)
  | _, _, _ => none

theorem lit_vals {H : Hooks} (hlit : ∀ line p env, LitOK (evalAt H env line p)) (hneg : Neg1OK H) (env : String → Option Int) (line : Line) (p : Int) :
    evalAt H env line p (.arith "0") = some 0 ∧ evalAt H env line p (.arith "1") = some 1 ∧
    evalAt H env line p (.arith "-1") = some (-1) := by
  have h0 : evalAt H env line p (.arith (toString 0)) = some ((0 : Nat) : Int) := hlit line p env 0 (by omega)
  have h1 : evalAt H env line p (.arith (toString 1)) = some ((1 : Nat) : Int) := hlit line p env 1 (by omega)
  refine ⟨h0, h1, ?_⟩
  simp [evalAt, Imm.eval, hneg env, liftExpr, Except.toOption]

/-- **unary pseudo-instructions, program level.** -/
theorem assemble_unary_effect (H : Hooks) (compress : Bool) (items : List Item) (r : AsmResult) (hnn : NonNeg items)
    (hlit : ∀ line p env, LitOK (evalAt H env line p)) (hneg : Neg1OK H)
    (h : assembleItems H compress items [] [] = .ok r)
    {A B : List Item} {line : Line} {name rd rs : String}
    (e : items = A ++ .pseudo line name [rd, rs] :: B)
    {k : PKind} (hk : pseudoKind name = some k) (hku : (unaryDoc k 0 0).isSome = true) :
    ∃ (off : Int) (a b : Nat) (i32 : Instr32) (n : Nat), SourceAt H compress items r A B line off ∧
      lookupRegister (aliasReg r.constants (.str rd)) = some a ∧ lookupRegister (aliasReg r.constants (.str rs)) = some b ∧
      unaryDoc k a b = some i32 ∧ (n = 4 ∨ n = 2) ∧ ExecAt r off n (exec i32 n) := by
  obtain ⟨items1, _, _, _, _, _, _, _, _, _, _, _, h1, _⟩ := assemble_stages_all H compress items r h
  have hx0 := alias_x h1 (s := "x0") (Or.inl rfl)
  have hfl := fun x hx => (labelfree_lits hlit hneg r.constants (x := x) hx).1
  have hv := fun q => lit_vals hlit hneg (chainGet r.constants r.labels) line q
  cases k <;> simp [unaryDoc] at hku
  case mv =>
    obtain ⟨off, hat, hval, hkey⟩ := single_free_effect H compress items r hnn hlit h e
      (i0 := .i "addi" (.str rd) (.str rs) (.arith "0") false)
      (rins := .i "addi" (aliasReg r.constants (.str rd)) (aliasReg r.constants (.str rs)) (.value 0) false)
      (by intro env p instrs short hx; simp only [expandPseudo, hk, expand_mv, Except.ok.injEq, Prod.mk.injEq] at hx; exact hx.1.symm)
      (by intro _ _ _ _ ex; cases ex) (by intro _ _ _ _ _ _ ex; cases ex) (by intro _ _ _ _ _ ex; cases ex) rfl
      (by intro imm hi; simp only [Instr.imm?, Option.some.injEq] at hi; subst hi; exact hfl _ (Or.inl rfl))
      (by intro q; simp only [Instr.mapRegs, resolveWith, Instr.imm?, (hv q).1, Option.map_some, Instr.setImm])
    simp only [Instr.mapRegs] at hval hkey
    have ha := some_of_isSome (hval .rd _ rfl)
    have hb := some_of_isSome (hval .rs1 _ rfl)
    obtain ⟨n, hn4, hex⟩ := hkey _ (fun _ => bridge_addi 0 false ha hb)
    exact ⟨off, _, _, _, n, hat, ha, hb, rfl, hn4, hex.execAt⟩
  case not =>
    obtain ⟨off, hat, hval, hkey⟩ := single_free_effect H compress items r hnn hlit h e
      (i0 := .i "xori" (.str rd) (.str rs) (.arith "-1") false)
      (rins := .i "xori" (aliasReg r.constants (.str rd)) (aliasReg r.constants (.str rs)) (.value (-1)) false)
      (by intro env p instrs short hx; simp only [expandPseudo, hk, expand_not, Except.ok.injEq, Prod.mk.injEq] at hx; exact hx.1.symm)
      (by intro _ _ _ _ ex; cases ex) (by intro _ _ _ _ _ _ ex; cases ex) (by intro _ _ _ _ _ ex; cases ex) rfl
      (by intro imm hi; simp only [Instr.imm?, Option.some.injEq] at hi; subst hi; exact hfl _ (Or.inr (Or.inl rfl)))
      (by intro q; simp only [Instr.mapRegs, resolveWith, Instr.imm?, (hv q).2.2, Option.map_some, Instr.setImm])
    simp only [Instr.mapRegs] at hval hkey
    have ha := some_of_isSome (hval .rd _ rfl)
    have hb := some_of_isSome (hval .rs1 _ rfl)
    obtain ⟨n, hn4, hex⟩ := hkey _ (fun _ => bridge_xori (-1) false ha hb)
    exact ⟨off, _, _, _, n, hat, ha, hb, rfl, hn4, hex.execAt⟩
  case neg =>
    obtain ⟨off, hat, hval, hkey⟩ := single_free_effect H compress items r hnn hlit h e
      (i0 := .r "sub" (.str rd) (.str "x0") (.str rs))
      (rins := .r "sub" (aliasReg r.constants (.str rd)) (.str "x0") (aliasReg r.constants (.str rs)))
      (by intro env p instrs short hx; simp only [expandPseudo, hk, expand_neg, Except.ok.injEq, Prod.mk.injEq] at hx; exact hx.1.symm)
      (by intro _ _ _ _ ex; cases ex) (by intro _ _ _ _ _ _ ex; cases ex) (by intro _ _ _ _ _ ex; cases ex) rfl
      (by intro imm hi; simp [Instr.imm?] at hi)
      (by intro q; simp only [Instr.mapRegs, resolveWith, Instr.imm?, hx0])
    simp only [Instr.mapRegs, hx0] at hval hkey
    have ha := some_of_isSome (hval .rd _ rfl)
    have hb := some_of_isSome (hval .rs2 _ rfl)
    obtain ⟨n, hn4, hex⟩ := hkey _ (fun _ => bridge_sub ha reg_x0 hb)
    exact ⟨off, _, _, _, n, hat, ha, hb, rfl, hn4, hex.execAt⟩
  case seqz =>
    obtain ⟨off, hat, hval, hkey⟩ := single_free_effect H compress items r hnn hlit h e
      (i0 := .i "sltiu" (.str rd) (.str rs) (.arith "1") false)
      (rins := .i "sltiu" (aliasReg r.constants (.str rd)) (aliasReg r.constants (.str rs)) (.value 1) false)
      (by intro env p instrs short hx; simp only [expandPseudo, hk, expand_seqz, Except.ok.injEq, Prod.mk.injEq] at hx; exact hx.1.symm)
      (by intro _ _ _ _ ex; cases ex) (by intro _ _ _ _ _ _ ex; cases ex) (by intro _ _ _ _ _ ex; cases ex) rfl
      (by intro imm hi; simp only [Instr.imm?, Option.some.injEq] at hi; subst hi; exact hfl _ (Or.inr (Or.inr rfl)))
      (by intro q; simp only [Instr.mapRegs, resolveWith, Instr.imm?, (hv q).2.1, Option.map_some, Instr.setImm])
    simp only [Instr.mapRegs] at hval hkey
    have ha := some_of_isSome (hval .rd _ rfl)
    have hb := some_of_isSome (hval .rs1 _ rfl)
    obtain ⟨n, hn4, hex⟩ := hkey _ (fun _ => bridge_sltiu 1 false ha hb)
    exact ⟨off, _, _, _, n, hat, ha, hb, rfl, hn4, hex.execAt⟩
  case snez =>
    obtain ⟨off, hat, hval, hkey⟩ := single_free_effect H compress items r hnn hlit h e
      (i0 := .r "sltu" (.str rd) (.str "x0") (.str rs))
      (rins := .r "sltu" (aliasReg r.constants (.str rd)) (.str "x0") (aliasReg r.constants (.str rs)))
      (by intro env p instrs short hx; simp only [expandPseudo, hk, expand_snez, Except.ok.injEq, Prod.mk.injEq] at hx; exact hx.1.symm)
      (by intro _ _ _ _ ex; cases ex) (by intro _ _ _ _ _ _ ex; cases ex) (by intro _ _ _ _ _ ex; cases ex) rfl
      (by intro imm hi; simp [Instr.imm?] at hi)
      (by intro q; simp only [Instr.mapRegs, resolveWith, Instr.imm?, hx0])
    simp only [Instr.mapRegs, hx0] at hval hkey
    have ha := some_of_isSome (hval .rd _ rfl)
    have hb := some_of_isSome (hval .rs2 _ rfl)
    obtain ⟨n, hn4, hex⟩ := hkey _ (fun _ => bridge_sltu ha reg_x0 hb)
    exact ⟨off, _, _, _, n, hat, ha, hb, rfl, hn4, hex.execAt⟩
  case sltz =>
    obtain ⟨off, hat, hval, hkey⟩ := single_free_effect H compress items r hnn hlit h e
      (i0 := .r "slt" (.str rd) (.str rs) (.str "x0"))
      (rins := .r "slt" (aliasReg r.constants (.str rd)) (aliasReg r.constants (.str rs)) (.str "x0"))
      (by intro env p instrs short hx; simp only [expandPseudo, hk, expand_sltz, Except.ok.injEq, Prod.mk.injEq] at hx; exact hx.1.symm)
      (by intro _ _ _ _ ex; cases ex) (by intro _ _ _ _ _ _ ex; cases ex) (by intro _ _ _ _ _ ex; cases ex) rfl
      (by intro imm hi; simp [Instr.imm?] at hi)
      (by intro q; simp only [Instr.mapRegs, resolveWith, Instr.imm?, hx0])
    simp only [Instr.mapRegs, hx0] at hval hkey
    have ha := some_of_isSome (hval .rd _ rfl)
    have hb := some_of_isSome (hval .rs1 _ rfl)
    obtain ⟨n, hn4, hex⟩ := hkey _ (fun _ => bridge_slt ha hb reg_x0)
    exact ⟨off, _, _, _, n, hat, ha, hb, rfl, hn4, hex.execAt⟩
  case sgtz =>
    obtain ⟨off, hat, hval, hkey⟩ := single_free_effect H compress items r hnn hlit h e
      (i0 := .r "slt" (.str rd) (.str "x0") (.str rs))
      (rins := .r "slt" (aliasReg r.constants (.str rd)) (.str "x0") (aliasReg r.constants (.str rs)))
      (by intro env p instrs short hx; simp only [expandPseudo, hk, expand_sgtz, Except.ok.injEq, Prod.mk.injEq] at hx; exact hx.1.symm)
      (by intro _ _ _ _ ex; cases ex) (by intro _ _ _ _ _ _ ex; cases ex) (by intro _ _ _ _ _ ex; cases ex) rfl
      (by intro imm hi; simp [Instr.imm?] at hi)
      (by intro q; simp only [Instr.mapRegs, resolveWith, Instr.imm?, hx0])
    simp only [Instr.mapRegs, hx0] at hval hkey
    have ha := some_of_isSome (hval .rd _ rfl)
    have hb := some_of_isSome (hval .rs2 _ rfl)
    obtain ⟨n, hn4, hex⟩ := hkey _ (fun _ => bridge_slt ha reg_x0 hb)
    exact ⟨off, _, _, _, n, hat, ha, hb, rfl, hn4, hex.execAt⟩

/-! ### (d) jr, jalr, ret, nop, fence -/

/-- **jr / jalr, program level**: `jalr x0 / x1, rs, 0` — control goes to `rs & ~1`; `jalr` writes the link
    value pc + n (n = 2 when compressed to c.jalr) to ra, `jr` writes nothing -/
theorem assemble_jr_effect (H : Hooks) (compress : Bool) (items : List Item) (r : AsmResult) (hnn : NonNeg items)
    (hlit : ∀ line p env, LitOK (evalAt H env line p)) (hneg : Neg1OK H)
    (h : assembleItems H compress items [] [] = .ok r)
    {A B : List Item} {line : Line} {name rs : String}
    (e : items = A ++ .pseudo line name [rs] :: B)
    (hk : pseudoKind name = some .jr ∨ pseudoKind name = some .jalr) :
    ∃ (off : Int) (b n : Nat), SourceAt H compress items r A B line off ∧
      lookupRegister (aliasReg r.constants (.str rs)) = some b ∧ (n = 4 ∨ n = 2) ∧
      ExecAt r off n (exec (.jalr (if pseudoKind name = some .jalr then 1 else 0) b 0) n) := by
  obtain ⟨items1, _, _, _, _, _, _, _, _, _, _, _, h1, _⟩ := assemble_stages_all H compress items r h
  have hx0 := alias_x h1 (s := "x0") (Or.inl rfl)
  have hx1 := alias_x h1 (s := "x1") (Or.inr (Or.inl rfl))
  have hfl := fun x hx => (labelfree_lits hlit hneg r.constants (x := x) hx).1
  have hv := fun q => lit_vals hlit hneg (chainGet r.constants r.labels) line q
  rcases hk with hkk | hkk
  · obtain ⟨off, hat, hval, hkey⟩ := single_free_effect H compress items r hnn hlit h e
      (i0 := .i "jalr" (.str "x0") (.str rs) (.arith "0") false)
      (rins := .i "jalr" (.str "x0") (aliasReg r.constants (.str rs)) (.value 0) false)
      (by intro env p instrs short hx; simp only [expandPseudo, hkk, expand_jr, Except.ok.injEq, Prod.mk.injEq] at hx; exact hx.1.symm)
      (by intro _ _ _ _ ex; cases ex) (by intro _ _ _ _ _ _ ex; cases ex) (by intro _ _ _ _ _ ex; cases ex) rfl
      (by intro imm hi; simp only [Instr.imm?, Option.some.injEq] at hi; subst hi; exact hfl _ (Or.inl rfl))
      (by intro q; simp only [Instr.mapRegs, hx0, resolveWith, Instr.imm?, (hv q).1, Option.map_some, Instr.setImm])
    simp only [Instr.mapRegs, hx0] at hval hkey
    have hb := some_of_isSome (hval .rs1 _ rfl)
    obtain ⟨n, hn4, hex⟩ := hkey _ (fun _ => bridge_jalr 0 false reg_x0 hb)
    refine ⟨off, _, n, hat, hb, hn4, ?_⟩
    have : pseudoKind name ≠ some .jalr := by rw [hkk]; decide
    rw [if_neg this]; exact hex.execAt
  · obtain ⟨off, hat, hval, hkey⟩ := single_free_effect H compress items r hnn hlit h e
      (i0 := .i "jalr" (.str "x1") (.str rs) (.arith "0") false)
      (rins := .i "jalr" (.str "x1") (aliasReg r.constants (.str rs)) (.value 0) false)
      (by intro env p instrs short hx; simp only [expandPseudo, hkk, expand_jalr, Except.ok.injEq, Prod.mk.injEq] at hx; exact hx.1.symm)
      (by intro _ _ _ _ ex; cases ex) (by intro _ _ _ _ _ _ ex; cases ex) (by intro _ _ _ _ _ ex; cases ex) rfl
      (by intro imm hi; simp only [Instr.imm?, Option.some.injEq] at hi; subst hi; exact hfl _ (Or.inl rfl))
      (by intro q; simp only [Instr.mapRegs, hx1, resolveWith, Instr.imm?, (hv q).1, Option.map_some, Instr.setImm])
    simp only [Instr.mapRegs, hx1] at hval hkey
    have hb := some_of_isSome (hval .rs1 _ rfl)
    obtain ⟨n, hn4, hex⟩ := hkey _ (fun _ => bridge_jalr 0 false reg_x1 hb)
    refine ⟨off, _, n, hat, hb, hn4, ?_⟩
    rw [if_pos hkk]; exact hex.execAt

/-- **the instruction at `off`, identified** (not only its effect: `Spec.exec` cannot tell ebreak / ecall /
    fence / writes to x0 apart): the 4 bytes are a word that DECODES to `i32`, or the 2 bytes are a legal RVC
    halfword that decodes to `ci` with `expand16 ci = i32` -/
def InstrAt (r : AsmResult) (off : Int) (n : Nat) (i32 : Instr32) : Prop :=
  (n = 4 ∧ ∃ w, sliceAt r.bytes off 4 = leBytes 4 w ∧ decode32 w = some i32) ∨
  (n = 2 ∧ ∃ w ci, sliceAt r.bytes off 2 = leBytes 2 w ∧ decode16 w = some ci ∧ ci.legal = true ∧ expand16 ci = i32)

/-- the only compression rule that holds of an `addi` with rd = x0 is c.nop; of a `jalr` with rd = x0, c.jr -/
theorem rule_of_rd0 {c : String} {preds : List Pred} (hmem : (c, preds) ∈ criteria) {ins : Instr} {ev : Imm → Option Int}
    (hn : ins.name = "addi" ∨ ins.name = "jalr") (hrd : regNum ins .rd = some 0)
    (hp : ∀ pr ∈ preds, pr.holds ins ev) :
    (ins.name = "addi" ∧ c = "c.nop") ∨ (ins.name = "jalr" ∧ c = "c.jr") := by
  simp only [criteria, List.mem_cons, Prod.mk.injEq, List.mem_nil_iff, or_false] at hmem
  rcases hmem with ⟨rfl, rfl⟩ | ⟨rfl, rfl⟩ | ⟨rfl, rfl⟩ | ⟨rfl, rfl⟩ | ⟨rfl, rfl⟩ | ⟨rfl, rfl⟩ | ⟨rfl, rfl⟩ | ⟨rfl, rfl⟩ |
    ⟨rfl, rfl⟩ | ⟨rfl, rfl⟩ | ⟨rfl, rfl⟩ | ⟨rfl, rfl⟩ | ⟨rfl, rfl⟩ | ⟨rfl, rfl⟩ | ⟨rfl, rfl⟩ | ⟨rfl, rfl⟩ | ⟨rfl, rfl⟩ |
    ⟨rfl, rfl⟩ | ⟨rfl, rfl⟩ | ⟨rfl, rfl⟩ | ⟨rfl, rfl⟩ | ⟨rfl, rfl⟩ | ⟨rfl, rfl⟩ | ⟨rfl, rfl⟩ | ⟨rfl, rfl⟩ | ⟨rfl, rfl⟩ |
    ⟨rfl, rfl⟩ | ⟨rfl, rfl⟩ | ⟨rfl, rfl⟩
  all_goals (
    simp only [List.forall_mem_cons, List.mem_nil_iff, false_imp_iff, implies_true, and_true, Pred.holds, hrd, Option.some.injEq] at hp
    rcases hn with hn | hn <;> simp [hn] at hp ⊢ <;> omega)

/-- the documented instruction of `ret`, `nop`, `fence` -/
def miscDoc : PKind → Option Instr32
  | .ret => some (.jalr 0 1 0)
  | .nop => some (.i .addi 0 0 0)
  | .fence => some (.fence 0 15 15 0 0)
  | _ => none

/-- **ret / nop / fence, program level** (whatever their argument list) -/
theorem assemble_misc_effect (H : Hooks) (compress : Bool) (items : List Item) (r : AsmResult) (hnn : NonNeg items)
    (hlit : ∀ line p env, LitOK (evalAt H env line p)) (hneg : Neg1OK H)
    (h : assembleItems H compress items [] [] = .ok r)
    {A B : List Item} {line : Line} {name : String} {args : List String}
    (e : items = A ++ .pseudo line name args :: B)
    {k : PKind} (hk : pseudoKind name = some k) {i32 : Instr32} (hd : miscDoc k = some i32) :
    ∃ (off : Int) (n : Nat), SourceAt H compress items r A B line off ∧ (n = 4 ∨ n = 2) ∧
      ExecAt r off n (exec i32 n) ∧ InstrAt r off n i32 ∧ (k = .fence → n = 4) := by
  obtain ⟨items1, _, _, _, _, _, _, _, _, _, _, _, h1, _⟩ := assemble_stages_all H compress items r h
  have hx0 := alias_x h1 (s := "x0") (Or.inl rfl)
  have hx1 := alias_x h1 (s := "x1") (Or.inr (Or.inl rfl))
  have hfl := fun x hx => (labelfree_lits hlit hneg r.constants (x := x) hx).1
  have hv := fun q => lit_vals hlit hneg (chainGet r.constants r.labels) line q
  cases k <;> simp only [miscDoc, Option.some.injEq, reduceCtorEq] at hd
  case ret =>
    subst hd
    obtain ⟨off, hat, hval, hkey⟩ := single_free_effect H compress items r hnn hlit h e
      (i0 := .i "jalr" (.str "x0") (.str "x1") (.arith "0") false)
      (rins := .i "jalr" (.str "x0") (.str "x1") (.value 0) false)
      (by intro env p instrs short hx; simp only [expandPseudo, hk, expand_ret, Except.ok.injEq, Prod.mk.injEq] at hx; exact hx.1.symm)
      (by intro _ _ _ _ ex; cases ex) (by intro _ _ _ _ _ _ ex; cases ex) (by intro _ _ _ _ _ ex; cases ex) rfl
      (by intro imm hi; simp only [Instr.imm?, Option.some.injEq] at hi; subst hi; exact hfl _ (Or.inl rfl))
      (by intro q; simp only [Instr.mapRegs, hx0, hx1, resolveWith, Instr.imm?, (hv q).1, Option.map_some, Instr.setImm])
    obtain ⟨n, hn4, hex⟩ := hkey _ (fun _ => bridge_jalr 0 false reg_x0 reg_x1)
    refine ⟨off, n, hat, hn4, hex.execAt, ?_, fun ek => by cases ek⟩
    simp only [Instr.mapRegs, hx0, hx1] at hex
    rcases hex with ⟨rfl, w, hs, hd⟩ | ⟨rfl, w, ci, c, preds, cf, rcf, hs, hd, hl, _, hmem, hp, hcf, hr, hd16⟩
    · exact Or.inl ⟨rfl, w, hs, hd⟩
    · have hc := rule_of_rd0 hmem (Or.inr rfl) rfl hp
      have hc' : c = "c.jr" := by
        rcases hc with ⟨e, _⟩ | ⟨_, e⟩
        · simp [Instr.name] at e
        · exact e
      subst hc'
      simp only [compressedForm, reduceCtorEq, if_false, if_true, Option.some.injEq, String.reduceEq] at hcf
      subst hcf
      simp only [resolveWith, Instr.imm?, Option.some.injEq] at hr
      subst hr
      have : denote16I (.crj "c.jr" (.str "x1") false) = some (.jr 1) := by decide
      rw [this] at hd16
      cases hd16
      exact Or.inr ⟨rfl, w, _, hs, hd, hl, rfl⟩
  case nop =>
    subst hd
    obtain ⟨off, hat, hval, hkey⟩ := single_free_effect H compress items r hnn hlit h e
      (i0 := .i "addi" (.str "x0") (.str "x0") (.arith "0") false)
      (rins := .i "addi" (.str "x0") (.str "x0") (.value 0) false)
      (by intro env p instrs short hx; simp only [expandPseudo, hk, expand_nop, Except.ok.injEq, Prod.mk.injEq] at hx; exact hx.1.symm)
      (by intro _ _ _ _ ex; cases ex) (by intro _ _ _ _ _ _ ex; cases ex) (by intro _ _ _ _ _ ex; cases ex) rfl
      (by intro imm hi; simp only [Instr.imm?, Option.some.injEq] at hi; subst hi; exact hfl _ (Or.inl rfl))
      (by intro q; simp only [Instr.mapRegs, hx0, resolveWith, Instr.imm?, (hv q).1, Option.map_some, Instr.setImm])
    obtain ⟨n, hn4, hex⟩ := hkey _ (fun _ => bridge_addi 0 false reg_x0 reg_x0)
    refine ⟨off, n, hat, hn4, hex.execAt, ?_, fun ek => by cases ek⟩
    simp only [Instr.mapRegs, hx0] at hex
    rcases hex with ⟨rfl, w, hs, hd⟩ | ⟨rfl, w, ci, c, preds, cf, rcf, hs, hd, hl, _, hmem, hp, hcf, hr, hd16⟩
    · exact Or.inl ⟨rfl, w, hs, hd⟩
    · have hc := rule_of_rd0 hmem (Or.inl rfl) rfl hp
      have hc' : c = "c.nop" := by
        rcases hc with ⟨_, e⟩ | ⟨e, _⟩
        · exact e
        · simp [Instr.name] at e
      subst hc'
      simp only [compressedForm, reduceCtorEq, if_false, if_true, Option.some.injEq, String.reduceEq] at hcf
      subst hcf
      simp only [resolveWith, Instr.imm?, Option.some.injEq] at hr
      subst hr
      have : denote16I (.cin "c.nop") = some .nop := by decide
      rw [this] at hd16
      cases hd16
      exact Or.inr ⟨rfl, w, _, hs, hd, hl, rfl⟩
  case fence =>
    subst hd
    obtain ⟨off, hat, hval, hkey⟩ := single_free_effect H compress items r hnn hlit h e
      (i0 := .fence "fence" (.int 15) (.int 15))
      (rins := .fence "fence" (.int 15) (.int 15))
      (by intro env p instrs short hx; simp only [expandPseudo, hk, expand_fence, Except.ok.injEq, Prod.mk.injEq] at hx; exact hx.1.symm)
      (by intro _ _ _ _ ex; cases ex) (by intro _ _ _ _ _ _ ex; cases ex) (by intro _ _ _ _ _ ex; cases ex) rfl
      (by intro imm hi; simp [Instr.imm?] at hi)
      (by intro q; simp only [Instr.mapRegs, resolveWith, Instr.imm?])
    obtain ⟨n, hn4, hex⟩ := hkey _ (fun _ => bridge_fence)
    have hn : n = 4 := by
      rcases hex with ⟨rfl, _⟩ | ⟨_, _, _, _, _, _, _, _, _, _, _, _, _, hcf, _⟩
      · rfl
      · simp [Instr.mapRegs, compressedForm] at hcf
    refine ⟨off, n, hat, hn4, hex.execAt, ?_, fun _ => hn⟩
    rcases hex with ⟨rfl, w, hs, hd⟩ | ⟨rfl, _⟩
    · exact Or.inl ⟨rfl, w, hs, hd⟩
    · cases hn

/-! ### non-vacuity: `progP` of Props/C12Program (`… ; not a1, a1 ; … ; ret`) with `-c` -/

open BB.Props.C12 (Hp hp_litOK hp_neg1 progP lp) in
example :
    let r : AsmResult := { bytes := [25, 197, 49, 32, 1, 21, 147, 197, 245, 255, 227, 27, 181, 254, 130, 128],
                           labels := [("B", 0), ("F", 14)], constants := [] }
    (∃ (off : Int) (a b : Nat) (i32 : Instr32) (n : Nat), SourceAt Hp true progP r (progP.take 5) (progP.drop 6) (lp 6) off ∧
      lookupRegister (aliasReg r.constants (.str "a1")) = some a ∧ lookupRegister (aliasReg r.constants (.str "a1")) = some b ∧
      unaryDoc .not a b = some i32 ∧ (n = 4 ∨ n = 2) ∧ ExecAt r off n (exec i32 n)) ∧
    (∃ (off : Int) (n : Nat), SourceAt Hp true progP r (progP.take 8) [] (lp 9) off ∧ (n = 4 ∨ n = 2) ∧
      ExecAt r off n (exec (.jalr 0 1 0) n) ∧ InstrAt r off n (.jalr 0 1 0) ∧ (PKind.ret = .fence → n = 4)) := by
  intro r
  have h : assembleItems Hp true progP [] [] = .ok r := by decide
  have hnn : NonNeg progP := by unfold NonNeg; decide
  exact ⟨assemble_unary_effect Hp true progP r hnn hp_litOK hp_neg1 h (A := progP.take 5) (B := progP.drop 6) rfl
      (k := .not) (by decide) rfl,
    assemble_misc_effect Hp true progP r hnn hp_litOK hp_neg1 h (A := progP.take 8) (B := []) rfl
      (k := .ret) (by decide) rfl⟩

end BB.Props.C05
