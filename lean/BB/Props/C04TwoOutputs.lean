/-
  BB.Props.C04TwoOutputs — C04 over BOTH byte strings.

  `two_outputs_corr`: a program (`GrowHyps`, no hand-written compressed instructions) that assembles both
  without `-c` (result `r₀`) and with it (`r₁`).  `lay₀ = layoutOf H false items`, `lay₁ = layoutOf H true items`
  are the layouts the model computes (functions of the inputs, Props/C04).  The two ghost lists `A5`, `B6` are
  the DECIDED lists of the two runs with the label markers kept: `strip A5 = lay₀.decided`,
  `strip B6 = lay₁.decided` (the pipeline drops label items in resolve_labels, so the lists it holds have no
  markers; `strip` removes them), `strip (alignImg A5 0) = lay₀.aligned`, `strip (alignImg B6 0) = lay₁.aligned`,
  and `Land` turns `lay₀.aligned` / `lay₁.aligned` into the blobs whose bytes are `r₀.bytes` / `r₁.bytes` — so the
  lists account for ALL output bytes.  They are related by `Corr` (Lemmas/TwoRunCorr) and their layouts after
  resolve_aligns (`alignImg … 0`) are the two outputs:
  the label tables are the marker positions, and EVERY item `x` of the -c side, at its byte offset
  `q1 = sizeSum (alignImg P1 0)` of `r₁.bytes`, has its counterpart at the byte offset
  `q0 = sizeSum (alignImg P0 0)` of `r₀.bytes` (`PlacedAt`: resolved there against the returned tables,
  finished into the bytes that ARE the output bytes there), and

    * the same item in both runs (`ItemSem`, i): label-free (data, or an instruction with no or a
      label-free immediate) ⇒ the SAME bytes;
    * the same 32-bit instruction on `%offset n`, `n` a label (ii): each word decodes to that
      instruction with the immediate `labels[n] − own offset` of its own run — the same TARGET LABEL,
      not the same byte offset;
    * a 32-bit instruction of the plain run that a compression pass replaced (iii): label-free ⇒ the
      plain word decodes to `i`, the -c halfword to a legal RVC `ci` with `execC ci s = exec i 2 s`
      (for the `ie` item class — `Spec.exec` only advances the pc there and cannot tell ebreak / ecall /
      fence apart — additionally `expand16 ci = i` and `i = ebreak`: the only rule is ebreak → c.ebreak);
      a branch / jal on `%offset n` ⇒ the plain word decodes to the instruction at distance
      `r₀.labels[n] − q0`, the -c halfword to a legal RVC `ci` with `execC ci s = exec i1 2 s`, `i1`
      the same instruction at distance `r₁.labels[n] − q1`;
    * a far `auipc ; jalr` pair of the plain run that is the near `jal` of the -c run (`NearSem`): the
      pair is placed at `q0`, `q0 + 4`; the `jal` word decodes to `jal rd` at distance
      `r₁.labels[n] − q1`, or its compressed form executes like it.

  Hypotheses.  `GrowHyps` (Props/C20TwoRun): item sizes non-negative, aligns positive, program below 2 GiB,
  `li` operands label-free, call/tail targets not constants, `%offset` parses to `.offset`.
  `NoCompressedSource items`: no instruction ITEM of the source is already a compressed (`c.*`) instruction —
  a hand-written `c.addi` is the same item in both runs and is covered by no clause of `ItemSem` except (i).
  `LitOK` (for every environment, line, position): the evaluator hook maps the decimal numerals `0 … 31` to
  themselves — needed because `c.slli/c.srli/c.srai` rebuild their shift amount as `Arithmetic(str(n))`; it
  holds for the text front end (`C04.litOK_evalArith`, `C12.textHooks_hooks`).
  `ItemSem` is silent on: label-dependent immediates other than `%offset` of a branch / jal (e.g. `%hi(L)`,
  `L + 4`), label-dependent data (`dw L`), align padding (excluded: `x ≠ .align`), and the semantics of the far
  pair against the near `jal`.

  Not stated: an execution-level simulation over whole programs (link registers hold addresses, which
  differ between the two layouts), and the semantics of the far pair against the near `jal` (the far
  `tail` clobbers x6).
-/
import BB.Lemmas.TwoOutputs
import BB.Lemmas.SuccTwoRun2
import BB.Lemmas.LayoutAnchor
import BB.Props.C12Program
namespace BB.Props.C04
open BB BB.Spec BB.Lemmas
open BB.Props.C03 (Land Finish)
open BB.Props.C20 (GrowHyps)

def IsBJ (ins : Instr) : Prop := (∃ n rs1 rs2 imm, ins = .b n rs1 rs2 imm) ∨ (∃ n rd imm, ins = .j n rd imm)

/-- the compressed replacement of a branch / jal on `%offset n`, read in the -c output -/
def CompTransferSem (r₁ : AsmResult) (ins : Instr) (n : String) (q1 : Int) (d1 : List Nat) : Prop :=
  ∀ t1, r₁.labels.get n = some t1 →
    ∃ w1 ci i1, d1 = leBytes 2 w1 ∧ decode16 w1 = some ci ∧ ci.legal = true ∧
      denote32I (ins.setImm (.value (t1 - q1))) = some i1 ∧ ∀ s, execC ci s = exec i1 2 s

def ItemSem (H : Hooks) (r₀ r₁ : AsmResult) (names : List String) (a x : Item) (q0 q1 : Int) (d0 d1 : List Nat) : Prop :=
  (a = x → Indep H r₁.constants x → d1 = d0) ∧
  (∀ line ins n t0 t1, a = .instr line ins → x = .instr line ins → ins.wellKinded = true → ins.isAuipcJump = false →
    ins.imm? = some (.offset n) → r₁.constants.get n = none → r₀.labels.get n = some t0 → r₁.labels.get n = some t1 →
    Retarget32 ins (t0 - q0) d0 ∧ Retarget32 ins (t1 - q1) d1) ∧
  (∀ line ins cf, a = .instr line ins → x = .instr line cf → cf.isCompressed = true → ins.isCompressed = false →
    ((∀ imm, ins.imm? = some imm → ImmLabelFree H r₁.constants imm) →
      ∃ w0 i w1 ci, d0 = leBytes 4 w0 ∧ decode32 w0 = some i ∧ d1 = leBytes 2 w1 ∧ decode16 w1 = some ci ∧
        ci.legal = true ∧ (∀ s, execC ci s = exec i 2 s) ∧ (∀ n, ins = .ie n → expand16 ci = i ∧ i = .ebreak)) ∧
    (∀ n t0, IsBJ ins → ins.imm? = some (.offset n) → n ∈ names → r₁.constants.get n = none →
      r₀.labels.get n = some t0 → Retarget32 ins (t0 - q0) d0 ∧ CompTransferSem r₁ ins n q1 d1))

def NearSem (r₁ : AsmResult) (names : List String) (line : Line) (rd : RegOp) (imm : Imm) (x : Item) (q1 : Int)
    (d1 : List Nat) : Prop :=
  (x = .instr line (.j "jal" rd imm) → ∀ n t1, imm = .offset n → r₁.constants.get n = none → r₁.labels.get n = some t1 →
    Retarget32 (.j "jal" rd imm) (t1 - q1) d1) ∧
  (∀ cf, x = .instr line cf → cf.isCompressed = true → ∀ n, imm = .offset n → n ∈ names → r₁.constants.get n = none →
    CompTransferSem r₁ (.j "jal" rd imm) n q1 d1)

/-! ### the compressed transfer, read at the final tables -/

theorem compressedForm_transfer_shape {c : String} {ins cf : Instr} (h : compressedForm c ins = some cf) (hs : IsBJ ins) :
    ((∃ imm, cf = .cj c imm) ∧ (c = "c.jal" ∨ c = "c.j")) ∨ ((∃ rs1 imm, cf = .cb c rs1 imm) ∧ (c = "c.beqz" ∨ c = "c.bnez")) := by
  rcases hs with ⟨n, rs1, rs2, imm, rfl⟩ | ⟨n, rd, imm, rfl⟩
  · simp only [compressedForm] at h
    split at h
    · rename_i hc
      simp only [Option.some.injEq] at h
      exact Or.inr ⟨⟨_, _, h.symm⟩, hc⟩
    · simp at h
  · simp only [compressedForm] at h
    split at h
    · rename_i hc
      simp only [Option.some.injEq] at h
      exact Or.inl ⟨⟨_, h.symm⟩, hc⟩
    · simp at h

theorem lookup_cj : instrTable.lookup "c.j" = some (.cj 1 5 []) := by decide
theorem lookup_cjal : instrTable.lookup "c.jal" = some (.cj 1 1 []) := by decide
theorem lookup_cbeqz : instrTable.lookup "c.beqz" = some (.cb 1 6 []) := by decide
theorem lookup_cbnez : instrTable.lookup "c.bnez" = some (.cb 1 7 []) := by decide

/-- the 16-bit encoders of the four transfer rules accept even offsets only -/
theorem c_transfer_even {c : String} {ins cf : Instr} (hcf : compressedForm c ins = some cf) (hs : IsBJ ins)
    {line : Line} {v : Int} {bs : List Nat} (h : encodeInstr line (cf.setImm (.value v)) = .ok bs) : v % 2 = 0 := by
  obtain ⟨args, w, ha, he⟩ := encodeInstr_ok_iff.mp ⟨bs, h⟩
  rcases compressedForm_transfer_shape hcf hs with ⟨⟨imm, rfl⟩, hc⟩ | ⟨⟨rs1, imm, rfl⟩, hc⟩
  · simp only [Instr.setImm, Instr.args, Option.some.injEq] at ha
    subst ha
    simp only [Instr.setImm, Instr.name] at he
    rcases hc with rfl | rfl
    · simp only [encode, lookup_cjal, encodeKind, encCj] at he
      have := ofOpt_ok.mp he
      unfold cjTypeN at this
      split at this
      · cases this
      · split at this
        · cases this
        · omega
    · simp only [encode, lookup_cj, encodeKind, encCj] at he
      have := ofOpt_ok.mp he
      unfold cjTypeN at this
      split at this
      · cases this
      · split at this
        · cases this
        · omega
  · simp only [Instr.setImm, Instr.args, Option.some.injEq] at ha
    subst ha
    simp only [Instr.setImm, Instr.name] at he
    rcases hc with rfl | rfl
    · simp only [encode, lookup_cbeqz, encodeKind, encCb, bind, Except.bind] at he
      cases hr : lookRC rs1 with
      | error e => simp [hr] at he
      | ok r =>
        simp only [hr] at he
        have := ofOpt_ok.mp he
        unfold cbTypeN at this
        split at this
        · cases this
        · split at this
          · cases this
          · omega
    · simp only [encode, lookup_cbnez, encodeKind, encCb, bind, Except.bind] at he
      cases hr : lookRC rs1 with
      | error e => simp [hr] at he
      | ok r =>
        simp only [hr] at he
        have := ofOpt_ok.mp he
        unfold cbTypeN at this
        split at this
        · cases this
        · split at this
          · cases this
          · omega

/-- a compressed branch / jal of the -c run, read at the final tables -/
theorem comp_transfer_sem {H : Hooks} {r₁ : AsmResult} {names : List String}
    (hlit : ∀ line p env, LitOK (evalAt H env line p))
    {line : Line} {ins cf : Instr} {c : String} {preds : List Pred} {p : Int} {L : Dict} {n : String} {q1 : Int} {d1 : List Nat}
    (hd : DecidedAt H r₁.constants line cf ins c preds p L) (hs : IsBJ ins) (himm : ins.imm? = some (.offset n))
    (hn : n ∈ names) (hc : r₁.constants.get n = none)
    (horacle : DecOracle H r₁.constants r₁.labels names q1 line cf)
    (hpl : PlacedAt H r₁ q1 (.instr line cf) d1) : CompTransferSem r₁ ins n q1 d1 := by
  intro t1 ht1
  obtain ⟨hnc, hnaj, hmem, hall, hcf⟩ := hd
  have hp0 := (allPreds_true_iff H _ line ins p preds).mp hall
  obtain ⟨hname, hcfimm⟩ := compressedForm_of_transfer hcf hs
  have hcfi : cf.imm? = some (.offset n) := by rw [hcfimm]; exact himm
  have hcfaj := compressedForm_aj hcf
  have hcfc := (compressedForm_sizes hcf).2
  -- the compressed item as placed: its value is even
  have hev : (t1 - q1) % 2 = 0 := by
    obtain ⟨it', line', hb, hf, hlen, _⟩ := hpl
    obtain ⟨rcf, bs, hres, henc⟩ := accepts_of_lands ⟨it', line', d1, hb, hf, hlen⟩
    simp only [ajPos, hcfaj, Bool.false_eq_true, if_false, resolveWith, hcfi, evalAt_offset q1 hc ht1, Option.map_some,
      Option.some.injEq] at hres
    subst hres
    exact c_transfer_even hcf hs henc
  -- the decision of the -c run that produced `cf`
  obtain ⟨ins', c', preds', p', L', ⟨_, _, hmem', hall', hcf'⟩, hfin⟩ := horacle
  obtain ⟨hcn', hi'⟩ := compressedForm_transfer_inv hcf' hname
  obtain ⟨hcn, _⟩ := compressedForm_transfer_inv hcf hname
  have hcc : c' = c := by rw [hcn', hcn]
  subst hcc
  have hct : c' ∈ transferRules := by rw [hcn]; exact hname
  have hp' := hfin hct n (t1 - q1) (by rw [hi']; exact hcfi) hn hc (by rw [ht1]; congr 1; omega) hev
  have hp := transfer_preds_mix hmem hmem' hct (by rw [hi', hcfimm]) hp0 hp'
  -- the original, resolved at the final tables
  obtain ⟨rins, bs, hres, henc⟩ := transfer_rule_accepts hmem hct hcf hp line
  obtain ⟨k, hk, hsz⟩ := BB.Props.C12.criteria_names_32 hmem hp
  obtain ⟨i1, hden⟩ := BB.Props.C12.denotes_of_encodes (by rw [(resolveWith_keeps hres).1]; exact hk) hsz henc
  obtain ⟨rcf, ci, h0, hd16, hlegal, hexec⟩ := rule_sound hmem (hlit _ _ _) hp hcf hres hden
  obtain ⟨w1, hw1, hdec⟩ := placed_read16 hcfaj hcfc h0 hd16 hpl
  simp only [resolveWith, himm, evalAt_offset q1 hc ht1, Option.map_some, Option.some.injEq] at hres
  subst hres
  exact ⟨w1, ci, i1, hw1, hdec, hlegal, hden, hexec⟩

/-- the only compression of the `ie` item class (ebreak / ecall / fence): `ebreak` to `c.ebreak` -/
theorem ie_decided {c : String} {preds : List Pred} (hmem : (c, preds) ∈ criteria) {ev : Imm → Option Int} {n : String}
    {cf : Instr} (hp : ∀ pr ∈ preds, pr.holds (.ie n) ev) (hcf : compressedForm c (.ie n) = some cf) :
    n = "ebreak" ∧ cf = .cre "c.ebreak" := by
  simp only [compressedForm] at hcf
  split at hcf
  · rename_i hc
    subst hc
    simp only [Option.some.injEq] at hcf
    simp [criteria] at hmem
    subst hmem
    have hn : n = "ebreak" := by simpa [Pred.holds, Instr.name] using hp
    exact ⟨hn, hcf.symm⟩
  · cases hcf

/-- a label-free instruction that the -c run compressed; for the `ie` class — where `Spec.exec` only advances
    the pc and cannot tell ebreak / ecall / fence apart — the RVC instruction EXPANDS to the original -/
theorem comp_free_sem {H : Hooks} {r₀ r₁ : AsmResult} (hconst : r₀.constants = r₁.constants)
    (hlit : ∀ line p env, LitOK (evalAt H env line p))
    {line : Line} {ins cf : Instr} {c : String} {preds : List Pred} {p : Int} {L : Dict} {q0 q1 : Int} {d0 d1 : List Nat}
    (hd : DecidedAt H r₁.constants line cf ins c preds p L)
    (hfree : ∀ imm, ins.imm? = some imm → ImmLabelFree H r₁.constants imm)
    (h0 : PlacedAt H r₀ q0 (.instr line ins) d0) (h1 : PlacedAt H r₁ q1 (.instr line cf) d1) :
    ∃ w0 i w1 ci, d0 = leBytes 4 w0 ∧ decode32 w0 = some i ∧ d1 = leBytes 2 w1 ∧ decode16 w1 = some ci ∧
      ci.legal = true ∧ (∀ s, execC ci s = exec i 2 s) ∧ (∀ n, ins = .ie n → expand16 ci = i ∧ i = .ebreak) := by
  obtain ⟨hnc, hnaj, hmem, hall, hcf⟩ := hd
  have hp0 := (allPreds_true_iff H _ line ins p preds).mp hall
  have hp := holds_labelfree hfree L r₁.labels line p q1 hp0
  obtain ⟨k, hk, hsz⟩ := BB.Props.C12.criteria_names_32 hmem hp
  obtain ⟨rins, w0, i, hres0, _, hd0, hdec0, hden⟩ := placed_read32 hk hsz hnc h0
  simp only [ajPos, hnaj, Bool.false_eq_true, if_false] at hres0
  have hres1 : resolveWith (evalAt H (chainGet r₁.constants r₁.labels) line q1) ins = some rins := by
    unfold resolveWith at hres0 ⊢
    cases hi : ins.imm? with
    | none => simpa [hi] using hres0
    | some imm =>
      simp only [hi] at hres0 ⊢
      have : evalAt H (chainGet r₁.constants r₁.labels) line q1 imm = evalAt H (chainGet r₀.constants r₀.labels) line q0 imm := by
        simp only [evalAt]; rw [hconst, hfree imm hi r₁.labels r₀.labels line q1 q0]
      rw [this]; exact hres0
  obtain ⟨rcf, ci, hr0, hd16, hlegal, hexec⟩ := rule_sound hmem (hlit _ _ _) hp hcf hres1 hden
  obtain ⟨w1, hw1, hdec1⟩ := placed_read16 (compressedForm_aj hcf) (compressedForm_sizes hcf).2 hr0 hd16 h1
  refine ⟨w0, i, w1, ci, hd0, hdec0, hw1, hdec1, hlegal, hexec, ?_⟩
  intro n e
  subst e
  obtain ⟨rfl, rfl⟩ := ie_decided hmem hp hcf
  simp only [resolveWith, Instr.imm?, Option.some.injEq] at hres1 hr0
  subst hres1 hr0
  rw [b_ebreak] at hden
  cases hden
  have : denote16I (.cre "c.ebreak") = some .ebreak := by decide
  rw [this] at hd16
  cases hd16
  exact ⟨rfl, rfl⟩

/-! ### the theorem -/

/-- no hand-written compressed instruction -/
def NoCompressedSource (items : List Item) : Prop := ∀ line ins, Item.instr line ins ∈ items → ins.isCompressed = false

theorem wellKinded_jal (rd : RegOp) (imm : Imm) : (Instr.j "jal" rd imm).wellKinded = true := by
  simp [Instr.wellKinded, Instr.name, lookup_jal, kindMatches]

/-- **C04 over both byte strings.** -/
theorem two_outputs_corr (H : Hooks) (items : List Item) (r₀ r₁ : AsmResult) (hyp : GrowHyps H items)
    (hsrcc : NoCompressedSource items) (hlit : ∀ line p env, LitOK (evalAt H env line p))
    (h0 : assembleItems H false items [] [] = .ok r₀) (h1 : assembleItems H true items [] [] = .ok r₁) :
    r₀.constants = r₁.constants ∧
    ∃ (lay₀ lay₁ : Layout) (out₀ out₁ A5 B6 : List Item),
      layoutOf H false items = .ok lay₀ ∧ layoutOf H true items = .ok lay₁ ∧
      lay₀.labels = r₀.labels ∧ lay₀.constants = r₀.constants ∧ lay₁.labels = r₁.labels ∧ lay₁.constants = r₁.constants ∧
      Land H r₀.constants r₀.labels 0 lay₀.aligned out₀ ∧ r₀.bytes = blobBytes out₀ ∧
      Land H r₁.constants r₁.labels 0 lay₁.aligned out₁ ∧ r₁.bytes = blobBytes out₁ ∧
      strip A5 = lay₀.decided ∧ strip B6 = lay₁.decided ∧
      strip (alignImg A5 0) = lay₀.aligned ∧ strip (alignImg B6 0) = lay₁.aligned ∧
      labelNames A5 = labelNames items ∧
      Corr H r₁.constants A5 B6 ∧ labelNames B6 = labelNames items ∧
      (∀ ℓ u, labelPos (alignImg A5 0) 0 ℓ = some u → r₀.labels.get ℓ = some u) ∧
      (∀ ℓ u, labelPos (alignImg B6 0) 0 ℓ = some u → r₁.labels.get ℓ = some u) ∧
      ∀ P1 x S1, B6 = P1 ++ x :: S1 → (∀ l n, x ≠ .label l n) → (∀ l a, x ≠ .align l a) →
        ∃ P0 S0 d1, Corr H r₁.constants P0 P1 ∧ Corr H r₁.constants S0 S1 ∧
          PlacedAt H r₁ (sizeSum (alignImg P1 0)) x d1 ∧
          ((∃ a d0, A5 = P0 ++ a :: S0 ∧ StepRel H r₁.constants a x ∧
              PlacedAt H r₀ (sizeSum (alignImg P0 0)) a d0 ∧
              ItemSem H r₀ r₁ (labelNames items) a x (sizeSum (alignImg P0 0)) (sizeSum (alignImg P1 0)) d0 d1) ∨
           (∃ line rd rA imm da dj,
              A5 = P0 ++ .instr line (.u "auipc" rA (.hi imm)) :: .instr line (.i "jalr" rd rA (.lo imm) true) :: S0 ∧
              StepRel H r₁.constants (.instr line (.j "jal" rd imm)) x ∧
              PlacedAt H r₀ (sizeSum (alignImg P0 0)) (.instr line (.u "auipc" rA (.hi imm))) da ∧
              PlacedAt H r₀ (sizeSum (alignImg P0 0) + 4) (.instr line (.i "jalr" rd rA (.lo imm) true)) dj ∧
              NearSem r₁ (labelNames items) line rd imm x (sizeSum (alignImg P1 0)) d1)) := by
  obtain ⟨i1a, i2a, a3, a4, a6, a7, out0, l2a, l3a, l4a, l6a, hlay0, _, e1a, e2a, e3a, e4a, e6a, e7a, landa, bytesa⟩ :=
    assemble_anchor H false items r₀ h0
  obtain ⟨i1b, i2b, b3, b4, b6, b7, out1, l2b, l3b, l4b, l6b, hlay1, _, e1b, e2b, e3b, e4b, e6b, e7b, landb, bytesb⟩ :=
    assemble_anchor H true items r₁ h1
  have landa0 := landa
  -- the common front
  have e1a' := e1a
  rw [e1b] at e1a'
  simp only [Except.ok.injEq, Prod.mk.injEq] at e1a'
  obtain ⟨rfl, hconst⟩ := e1a'
  rw [← hconst] at e3a e4a e6a landa
  rw [e2a] at e2b
  simp only [Except.ok.injEq, Prod.mk.injEq] at e2b
  obtain ⟨rfl, rfl⟩ := e2b
  simp only [maybeCompress, Bool.false_eq_true, if_false, pure, Except.pure, Except.ok.injEq, Prod.mk.injEq] at e3a e6a
  obtain ⟨rfl, rfl⟩ := e3a
  obtain ⟨rfl, rfl⟩ := e6a
  refine ⟨hconst.symm, ?_⟩
  obtain ⟨_, A4, _, B6, _, _, _, _, _, _, _, _, _, _, _, wa4, corr, sA, sB, nn0, nn1, nodup, hnames, agree0, agree1, hblocks,
    sA5, sB6, namesA⟩ := two_run_ghost2 H items hyp r₁.constants e1b e2a e4a e7a e3b e4b e6b e7b
  subst sA sB
  obtain ⟨c1, _, c3⟩ := BB.Props.C03.resolveConstants_spec H items [] i1b r₁.constants e1b
  obtain ⟨l1, _, _, _, _⟩ := resolveLabelsAux_spec i1b 0 [] [] i2a l2a e2a
  refine ⟨_, _, out0, out1, resolveRegisterAliases A4 r₁.constants, B6, hlay0, hlay1, rfl, rfl, rfl, rfl, landa0, bytesa, landb,
    bytesb, sA5, sB6, rfl, rfl, namesA, corr, hnames, agree0, agree1, ?_⟩
  -- placement in both outputs
  have landa' : Land H r₀.constants r₀.labels 0 (strip (alignImg (resolveRegisterAliases A4 r₁.constants) 0)) out0 := by
    rw [← hconst]; exact landa
  have placed0 : ∀ P a S, alignImg (resolveRegisterAliases A4 r₁.constants) 0 = P ++ a :: S → (∀ l n, a ≠ .label l n) →
      ∃ d, PlacedAt H r₀ (sizeSum P) a d := fun P a S e hnl => placed_of_land landa' bytesa e hnl
  have placed1 : ∀ P a S, alignImg B6 0 = P ++ a :: S → (∀ l n, a ≠ .label l n) →
      ∃ d, PlacedAt H r₁ (sizeSum P) a d := fun P a S e hnl => placed_of_land landb bytesb e hnl
  -- the decisions of the -c run, read at the final tables
  have horacle : ∀ P line cf S, alignImg B6 0 = P ++ .instr line cf :: S → cf.isCompressed = true →
      DecOracle H r₁.constants r₁.labels (labelNames items) (sizeSum P) line cf := by
    intro P line cf S e hc
    obtain ⟨i, hi, hit, htake⟩ := BB.Props.C12.strip_index e (by intro l n e; cases e)
    rcases decided_holds_final H r₁.constants hyp.nonneg e1b e2a e3b e4b e6b e7b i hi hit hc with
      ho | ⟨ins, c, preds, p, L, hdec, _, _, htr⟩
    · exfalso
      obtain ⟨x0, hx0, rfl⟩ := mem_aliases ho
      rw [l1] at hx0
      have := hsrcc _ _ (c3 _ (mem_strip hx0).1)
      rw [mapRegs_isCompressed, this] at hc
      cases hc
    · refine ⟨ins, c, preds, p, L, hdec, ?_⟩
      have hq : sizeSum ((strip (alignImg B6 0)).take i) = sizeSum P := by rw [htake, sizeSum_strip]
      rw [hq] at htr
      exact htr
  intro P1 x S1 hB hxnl hxna
  have corr' := corr
  rw [hB] at corr'
  obtain ⟨P0, S0, cP, cS, hor⟩ := corr'.split
  have himg1 : alignImg B6 0 = alignImg P1 0 ++ x :: alignImg S1 (0 + sizeSum (alignImg P1 0) + x.sizeD) := by
    rw [hB, alignImg_append, alignImg_cons_of_not_align hxna]
  obtain ⟨d1, hp1⟩ := placed1 _ x _ himg1 hxnl
  refine ⟨P0, S0, d1, cP, cS, hp1, ?_⟩
  rcases hor with ⟨a, hA, hs⟩ | ⟨line, rd, rA, imm, hA, hs⟩
  · left
    have hanl : ∀ l n, a ≠ .label l n := hs.not_label.mpr hxnl
    have hana : ∀ l al, a ≠ .align l al := hs.not_align.mpr hxna
    have himg0 : alignImg (resolveRegisterAliases A4 r₁.constants) 0 =
        alignImg P0 0 ++ a :: alignImg S0 (0 + sizeSum (alignImg P0 0) + a.sizeD) := by
      rw [hA, alignImg_append, alignImg_cons_of_not_align hana]
    obtain ⟨d0, hp0⟩ := placed0 _ a _ himg0 hanl
    refine ⟨a, d0, hA, hs, hp0, ?_, ?_, ?_⟩
    · intro e hind
      subst e
      exact placed_indep_eq hconst.symm hind hp0 hp1
    · intro line ins n t0 t1 ea ex hwk haj himm hc ht0 ht1
      subst ea ex
      exact ⟨placed_retarget32 hwk haj himm (by rw [← hconst]; exact hc) ht0 hp0, placed_retarget32 hwk haj himm hc ht1 hp1⟩
    · intro line ins cf ea ex hcc hnc
      subst ea ex
      cases hs with
      | same => rw [hnc] at hcc; cases hcc
      | comp _ _ _ c preds p L d hfix =>
        refine ⟨fun hfree => comp_free_sem hconst.symm hlit d hfree hp0 hp1, ?_⟩
        intro n t0 hbj himm hn hc ht0
        have hp0' := (allPreds_true_iff H _ line ins p preds).mp d.2.2.2.1
        obtain ⟨k, hk, hsz⟩ := BB.Props.C12.criteria_names_32 d.2.2.1 hp0'
        refine ⟨?_, comp_transfer_sem hlit d hbj himm hn hc (horacle _ line cf _ himg1 hcc) hp1⟩
        obtain ⟨rins, w, i, hres, _, hdw, hdec, hi⟩ := placed_read32 hk hsz hnc hp0
        have hc0 : r₀.constants.get n = none := by rw [← hconst]; exact hc
        simp only [ajPos, d.2.1, Bool.false_eq_true, if_false, resolveWith, himm,
          evalAt_offset (sizeSum (alignImg P0 0)) hc0 ht0, Option.map_some, Option.some.injEq] at hres
        subst hres
        exact ⟨w, i, hdw, hdec, hi⟩
  · right
    have himg0a : alignImg (resolveRegisterAliases A4 r₁.constants) 0 = alignImg P0 0 ++
        .instr line (.u "auipc" rA (.hi imm)) :: alignImg (.instr line (.i "jalr" rd rA (.lo imm) true) :: S0)
          (0 + sizeSum (alignImg P0 0) + (Item.instr line (.u "auipc" rA (.hi imm))).sizeD) := by
      rw [hA, alignImg_append, alignImg_cons_of_not_align (by intro l a e; cases e)]
    have himg0j : alignImg (resolveRegisterAliases A4 r₁.constants) 0 = (alignImg P0 0 ++ [.instr line (.u "auipc" rA (.hi imm))]) ++
        .instr line (.i "jalr" rd rA (.lo imm) true) :: alignImg S0 (0 + sizeSum (alignImg P0 0) + 4 + 4) := by
      rw [hA, alignImg_append, alignImg_cons_of_not_align (by intro l a e; cases e),
        alignImg_cons_of_not_align (by intro l a e; cases e)]
      simp [instr_sizeD, Instr.isCompressed]
    obtain ⟨da, hpa⟩ := placed0 _ _ _ himg0a (by intro l n e; cases e)
    obtain ⟨dj, hpj⟩ := placed0 _ _ _ himg0j (by intro l n e; cases e)
    have hq : sizeSum (alignImg P0 0 ++ [Item.instr line (.u "auipc" rA (.hi imm))]) = sizeSum (alignImg P0 0) + 4 := by
      rw [sizeSum_append]; simp [sizeSum, instr_sizeD, Instr.isCompressed]
    rw [hq] at hpj
    refine ⟨line, rd, rA, imm, da, dj, hA, hs, hpa, hpj, ?_, ?_⟩
    · intro ex n t1 eimm hc ht1
      subst ex eimm
      exact placed_retarget32 (wellKinded_jal rd _) rfl rfl hc ht1 hp1
    · intro cf ex hcc n eimm hn hc
      subst ex eimm
      cases hs with
      | same => simp [Instr.isCompressed] at hcc
      | comp _ _ _ c preds p L d hfix =>
        exact comp_transfer_sem hlit d (Or.inr ⟨_, _, _, rfl⟩) rfl hn hc (horacle _ line cf _ himg1 hcc) hp1

/-- the conclusion of `two_outputs_corr`, verbatim, as a predicate (used by the text-level corollary,
    Props/TextCorollaries) -/
def TwoOutputs (H : Hooks) (items : List Item) (r₀ r₁ : AsmResult) : Prop :=
    r₀.constants = r₁.constants ∧
    ∃ (lay₀ lay₁ : Layout) (out₀ out₁ A5 B6 : List Item),
      layoutOf H false items = .ok lay₀ ∧ layoutOf H true items = .ok lay₁ ∧
      lay₀.labels = r₀.labels ∧ lay₀.constants = r₀.constants ∧ lay₁.labels = r₁.labels ∧ lay₁.constants = r₁.constants ∧
      Land H r₀.constants r₀.labels 0 lay₀.aligned out₀ ∧ r₀.bytes = blobBytes out₀ ∧
      Land H r₁.constants r₁.labels 0 lay₁.aligned out₁ ∧ r₁.bytes = blobBytes out₁ ∧
      strip A5 = lay₀.decided ∧ strip B6 = lay₁.decided ∧
      strip (alignImg A5 0) = lay₀.aligned ∧ strip (alignImg B6 0) = lay₁.aligned ∧
      labelNames A5 = labelNames items ∧
      Corr H r₁.constants A5 B6 ∧ labelNames B6 = labelNames items ∧
      (∀ ℓ u, labelPos (alignImg A5 0) 0 ℓ = some u → r₀.labels.get ℓ = some u) ∧
      (∀ ℓ u, labelPos (alignImg B6 0) 0 ℓ = some u → r₁.labels.get ℓ = some u) ∧
      ∀ P1 x S1, B6 = P1 ++ x :: S1 → (∀ l n, x ≠ .label l n) → (∀ l a, x ≠ .align l a) →
        ∃ P0 S0 d1, Corr H r₁.constants P0 P1 ∧ Corr H r₁.constants S0 S1 ∧
          PlacedAt H r₁ (sizeSum (alignImg P1 0)) x d1 ∧
          ((∃ a d0, A5 = P0 ++ a :: S0 ∧ StepRel H r₁.constants a x ∧
              PlacedAt H r₀ (sizeSum (alignImg P0 0)) a d0 ∧
              ItemSem H r₀ r₁ (labelNames items) a x (sizeSum (alignImg P0 0)) (sizeSum (alignImg P1 0)) d0 d1) ∨
           (∃ line rd rA imm da dj,
              A5 = P0 ++ .instr line (.u "auipc" rA (.hi imm)) :: .instr line (.i "jalr" rd rA (.lo imm) true) :: S0 ∧
              StepRel H r₁.constants (.instr line (.j "jal" rd imm)) x ∧
              PlacedAt H r₀ (sizeSum (alignImg P0 0)) (.instr line (.u "auipc" rA (.hi imm))) da ∧
              PlacedAt H r₀ (sizeSum (alignImg P0 0) + 4) (.instr line (.i "jalr" rd rA (.lo imm) true)) dj ∧
              NearSem r₁ (labelNames items) line rd imm x (sizeSum (alignImg P1 0)) d1))

theorem two_outputs_corr_pred (H : Hooks) (items : List Item) (r₀ r₁ : AsmResult) (hyp : GrowHyps H items)
    (hsrcc : NoCompressedSource items) (hlit : ∀ line p env, LitOK (evalAt H env line p))
    (h0 : assembleItems H false items [] [] = .ok r₀) (h1 : assembleItems H true items [] [] = .ok r₁) :
    TwoOutputs H items r₀ r₁ := two_outputs_corr H items r₀ r₁ hyp hsrcc hlit h0 h1

/-! ### non-vacuity -/

open BB.Props.C12 (Hp progP progP_grow hp_litOK)

theorem progP_nocomp : NoCompressedSource progP := by
  intro line ins hm
  simp only [progP, List.mem_cons, List.mem_nil_iff, or_false, reduceCtorEq, false_or, Item.instr.injEq] at hm
  rcases hm with ⟨_, rfl⟩ | ⟨_, rfl⟩ <;> rfl

/-- the theorem applies to `progP` (Props/C12Program): both runs succeed, 24 and 16 bytes -/
example : ∃ A5 B6 : List Item, Corr Hp [] A5 B6 ∧ labelNames B6 = ["B", "F"] := by
  obtain ⟨_, _, _, _, _, A5, B6, _, _, _, _, _, _, _, _, _, _, _, _, _, _, _, hc, hn, _⟩ := two_outputs_corr Hp progP _ _ progP_grow progP_nocomp hp_litOK
    (by decide : assembleItems Hp false progP [] [] = .ok
      { bytes := [99, 10, 5, 0, 239, 0, 0, 1, 19, 5, 5, 254, 147, 197, 245, 255, 227, 24, 181, 254, 103, 128, 0, 0],
        labels := [("B", 0), ("F", 20)], constants := [] })
    (by decide : assembleItems Hp true progP [] [] = .ok
      { bytes := [25, 197, 49, 32, 1, 21, 147, 197, 245, 255, 227, 27, 181, 254, 130, 128],
        labels := [("B", 0), ("F", 14)], constants := [] })
  exact ⟨A5, B6, hc, hn⟩

/-- clause (ii) on `bne a0, a1, B` of `progP`: the plain word (offset 16) is the branch at distance −16,
    the -c word (offset 10) the branch at distance −10 — both to the label B = 0 -/
example : Retarget32 (.b "bne" (.str "a0") (.str "a1") (.offset "B")) (0 - 16) [227, 24, 181, 254] ∧
    Retarget32 (.b "bne" (.str "a0") (.str "a1") (.offset "B")) (0 - 10) [227, 27, 181, 254] :=
  ⟨⟨0xfeb518e3, .branch .bne 10 11 (-16), by decide, by decide, by decide⟩,
   ⟨0xfeb51be3, .branch .bne 10 11 (-10), by decide, by decide, by decide⟩⟩

/-- clause (iii) on `beqz a0, F` of `progP`: plain word `beq a0, x0, +20` (F = 20 at offset 0), -c halfword
    `c.beqz a0, +14` (F = 14), which executes like `beq a0, x0, +14` with a pc step of 2 -/
example : decode32 0x00050a63 = some (.branch .beq 10 0 20) ∧ decode16 0xc519 = some (.beqz 10 14) ∧
    (CInstr.beqz 10 14).legal = true ∧ ∀ s, execC (.beqz 10 14) s = exec (.branch .beq 10 0 14) 2 s :=
  ⟨by decide, by decide, by decide, fun _ => rfl⟩

end BB.Props.C04
