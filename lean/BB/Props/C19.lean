/-
  C19 — DFU refuses oversize firmware untouched and never reports a failed flash as done.

  Same setting as C18 (`run` = host model against the device specification).  Operations are
  numbered in the order the host starts them: the erases of pages 0 .. n-1 are operations
  0 .. n-1, then set-address and write of page q are operations n + 2q and n + 2q + 1
  (n = ⌈len/1024⌉).  A schedule makes operation `i` fail by giving it a status ≠ OK
  (`(sched.op i).fault % 256 ≠ 0`; the status byte on the wire is the fault mod 256).
-/
import BB.Props.C18
namespace BB.Props.C19
open BB BB.Dfu BB.Props.C18

/-- `i` is the first operation the schedule makes fail -/
def FirstFault (s : Schedule) (i : Nat) : Prop :=
  (s.op i).fault % 256 ≠ 0 ∧ ∀ j, j < i → (s.op j).fault % 256 = 0

/-- what the process must die with when operation `i` of a run over `n` pages is the first to
    fail: an erase or a write failure is named with the page address and the status the device
    reported.  A failing set-address is not looked at by dfu.py (dfu.py:278-283 polls but never
    tests `status`); the following data DNLOAD is stalled by the device, which is in dfuERROR,
    and the process dies of the uncaught usb.core.USBError. -/
def expectedMsg (n : Nat) (s : Schedule) (i : Nat) : ExitMsg :=
  if i < n then .eraseFailed (0x08000000 + 1024 * i) ((s.op i).fault % 256)
  else if (i - n) % 2 = 0 then .usbError
  else .writeFailed (0x08000000 + 1024 * ((i - n) / 2)) ((s.op i).fault % 256)

theorem failMsg_eq (n : Nat) (s : Schedule) (i : Nat) : failMsg n s i = expectedMsg n s i := by
  simp only [failMsg, expectedMsg, pageAddr, flashBase, pageSize, Nat.mul_comm]

/-- C19, first half.  Firmware larger than the flash: the run sends no request at all (in
    particular none that erases, sets the address or downloads), sleeps never, prints no 'done!',
    leaves flash and logs untouched, and ends with a non-zero exit status saying why — for every
    page count, schedule and initial flash. -/
theorem oversize_no_request (fw : List Nat) (pc : Nat) (s : Schedule) (flash₀ : Nat → Cell)
    (hbig : fw.length > 1024 * pc) :
    (run fw pc s flash₀).trace = [] ∧
    (∀ e ∈ (run fw pc s flash₀).trace, e.isDnload = false) ∧
    (run fw pc s flash₀).halted = true ∧
    (run fw pc s flash₀).exitCode ≠ 0 ∧
    (run fw pc s flash₀).exitMsg = .tooLarge ∧
    (run fw pc s flash₀).done = false ∧
    (run fw pc s flash₀).flash = flash₀ ∧
    (run fw pc s flash₀).erased = [] ∧ (run fw pc s flash₀).written = [] ∧
    (run fw pc s flash₀).dev.nreq = 0 := by
  have h := run_oversize (h := ⟨fw, pc⟩) (s := s) flash₀ hbig
  simp only [run, runFuel, h]
  simp [Config.result, Config.init, Device.init]

/-- C19, second half, general form.  If the schedule makes ANY operation the run can reach fail
    (any number of injections: the hypothesis only says that operation `i` is one of them), the
    run ends with a non-zero exit status, never prints 'done!', and the exit message is the one
    that belongs to the first failing operation `j ≤ i`. -/
theorem device_error_not_done (fw : List Nat) (pc : Nat) (s : Schedule) (flash₀ : Nat → Cell)
    (hpc : GD32 pc) (hfit : fw.length ≤ 1024 * pc)
    (i : Nat) (hi : i < 3 * pagesOf fw.length) (hf : (s.op i).fault % 256 ≠ 0) :
    (run fw pc s flash₀).halted = true ∧
    (run fw pc s flash₀).exitCode ≠ 0 ∧
    (run fw pc s flash₀).done = false ∧
    ∃ j, j ≤ i ∧ FirstFault s j ∧ (run fw pc s flash₀).exitMsg = expectedMsg (pagesOf fw.length) s j := by
  have hsm : pc ≤ 128 := by rcases hpc with h | h | h | h <;> omega
  obtain ⟨j, hj, hjf, hjm⟩ := exists_first_fault s (i + 1) ⟨i, by omega, hf⟩
  have hj3 : j < 3 * (HostCfg.mk fw pc).pages := by rw [pages_eq]; omega
  obtain ⟨hx, he, ho⟩ := (run_fault_reaches (h := ⟨fw, pc⟩) (s := s) flash₀ hfit hsm j hj3 hjf hjm).run_eq
  refine ⟨hx, ?_, ?_, j, by omega, ⟨hjf, hjm⟩, ?_⟩
  · show (match (steps _ _ _).exit with | some (n, _) => n | none => 0) ≠ 0
    rw [he]; exact Nat.one_ne_zero
  · show (steps _ _ _).out.contains Msg.done = false
    rw [ho]; rfl
  · show (match (steps _ _ _).exit with | some (_, m) => m | none => ExitMsg.internal) = _
    rw [he, pages_eq, failMsg_eq]

/-- the schedule `s` with the status of operation `i` replaced by `e` -/
def inject (s : Schedule) (i e : Nat) : Schedule :=
  { s with op := fun k => if k = i then { s.op k with fault := e } else s.op k }

/-- single injection: an otherwise fault-free schedule with status `e` injected at operation `i` -/
theorem single_injection_not_done (fw : List Nat) (pc : Nat) (s : Schedule) (flash₀ : Nat → Cell)
    (hpc : GD32 pc) (hfit : fw.length ≤ 1024 * pc) (hff : FaultFree s)
    (i e : Nat) (hi : i < 3 * pagesOf fw.length) (he : e % 256 ≠ 0) :
    (run fw pc (inject s i e) flash₀).exitCode ≠ 0 ∧
    (run fw pc (inject s i e) flash₀).done = false ∧
    (run fw pc (inject s i e) flash₀).exitMsg = expectedMsg (pagesOf fw.length) (inject s i e) i := by
  have hf : ((inject s i e).op i).fault % 256 ≠ 0 := by simp [inject, he]
  obtain ⟨_, hc, hd, j, hj, ⟨hjf, _⟩, hm⟩ := device_error_not_done fw pc (inject s i e) flash₀ hpc hfit i hi hf
  have : j = i := by
    by_cases hji : j = i
    · exact hji
    · exfalso; apply hjf; simp [inject, hji, hff j]
  subst this
  exact ⟨hc, hd, hm⟩

/-- double injection: statuses `e₁`, `e₂` injected at operations `i₁ < i₂`: the run dies at the
    first, the second is never reached -/
theorem double_injection_not_done (fw : List Nat) (pc : Nat) (s : Schedule) (flash₀ : Nat → Cell)
    (hpc : GD32 pc) (hfit : fw.length ≤ 1024 * pc) (hff : FaultFree s)
    (i₁ i₂ e₁ e₂ : Nat) (h12 : i₁ < i₂) (hi : i₂ < 3 * pagesOf fw.length)
    (he₁ : e₁ % 256 ≠ 0) (_he₂ : e₂ % 256 ≠ 0) :
    (run fw pc (inject (inject s i₁ e₁) i₂ e₂) flash₀).exitCode ≠ 0 ∧
    (run fw pc (inject (inject s i₁ e₁) i₂ e₂) flash₀).done = false ∧
    (run fw pc (inject (inject s i₁ e₁) i₂ e₂) flash₀).exitMsg =
      expectedMsg (pagesOf fw.length) (inject (inject s i₁ e₁) i₂ e₂) i₁ := by
  have hne : i₁ ≠ i₂ := by omega
  have hf : ((inject (inject s i₁ e₁) i₂ e₂).op i₁).fault % 256 ≠ 0 := by simp [inject, hne, he₁]
  obtain ⟨_, hc, hd, j, hj, ⟨hjf, _⟩, hm⟩ :=
    device_error_not_done fw pc (inject (inject s i₁ e₁) i₂ e₂) flash₀ hpc hfit i₁ (by omega) hf
  have : j = i₁ := by
    by_cases hji : j = i₁
    · exact hji
    · exfalso; apply hjf
      have : j ≠ i₂ := by omega
      simp [inject, hji, this, hff j]
  subst this
  exact ⟨hc, hd, hm⟩

/-! ### non-vacuity -/

/-- oversize: 16385 bytes for the 16-page part -/
example : (List.replicate 16385 1).length > 1024 * 16 := by rw [List.length_replicate]; omega

/-- fault injection: the demo schedule of C18 (busy polls, initial dfuERROR) with errVERIFY (7)
    injected at the write of page 1 of a two-page image (operation 2 + 2·1 + 1 = 5) and errPROG (6)
    at the erase of page 0: hypotheses hold, and the expected messages name page and status -/
example : GD32 16 ∧ (List.replicate 1500 7).length ≤ 1024 * 16 ∧ FaultFree demoSched ∧
    5 < 3 * pagesOf (List.replicate 1500 7).length ∧ 7 % 256 ≠ 0 ∧
    expectedMsg 2 (inject demoSched 5 7) 5 = .writeFailed 0x08000400 7 ∧
    expectedMsg 2 (inject (inject demoSched 0 6) 5 7) 0 = .eraseFailed 0x08000000 6 ∧
    expectedMsg 2 (inject demoSched 4 8) 4 = .usbError := by
  refine ⟨Or.inl rfl, by rw [List.length_replicate]; omega, ?_, by rw [List.length_replicate]; decide,
    by decide, by decide, by decide, by decide⟩
  intro i
  simp only [demoSched]
  split <;> rfl

end BB.Props.C19
