/-
  C19 — DFU refuses oversize firmware untouched and never reports a failed flash as done.

  Same setting as C18 (`run` = host model against the device specification).  Operations are
  numbered in the order the host starts them: the erases of pages 0 .. n-1 are operations
  0 .. n-1, then set-address and write of page q are operations n + 2q and n + 2q + 1
  (n = ⌈len/1024⌉).  A schedule makes operation `i` fail by giving it a status ≠ OK
  (`(sched.op i).fault % 256 ≠ 0`; the status byte on the wire is the fault mod 256), in one of
  two flavours: the operation ends in dfuERROR with that status (DFU 1.1), or — `statusOnly` — the
  completing GETSTATUS carries the status while bState is dfuDNLOAD_IDLE as after a success.
  The host tests `status != STATUS_OK` after each of its three poll loops (erase dfu.py:259,
  set-address dfu.py:282, write dfu.py:294), so either flavour at any operation stops it.
  (Until bfa32d3 the test after set-address was missing and a status-only failure there went
  unnoticed: the block was written where the pointer still was and the run ended with 'done!';
  `status_only_set_address_stops` is the regression theorem for that.)
-/
import BB.Props.C18
namespace BB.Props.C19
open BB BB.Dfu BB.Props.C18

/-- `i` is the first operation the schedule makes fail -/
def FirstFault (s : Schedule) (i : Nat) : Prop :=
  (s.op i).fault % 256 ≠ 0 ∧ ∀ j, j < i → (s.op j).fault % 256 = 0

/-- what the process must die with when operation `i` of a run over `n` pages is the first to
    fail: the failed step (erase / set-address / write) is named with the page address and the
    status the device reported -/
def expectedMsg (n : Nat) (s : Schedule) (i : Nat) : ExitMsg :=
  if i < n then .eraseFailed (0x08000000 + 1024 * i) ((s.op i).fault % 256)
  else if (i - n) % 2 = 0 then .addrFailed (0x08000000 + 1024 * ((i - n) / 2)) ((s.op i).fault % 256)
  else .writeFailed (0x08000000 + 1024 * ((i - n) / 2)) ((s.op i).fault % 256)

theorem failMsg_eq (n : Nat) (s : Schedule) (i : Nat) : failMsg n s i = expectedMsg n s i := by
  simp only [failMsg, expectedMsg, pageAddr, flashBase, pageSize, Nat.mul_comm]

/-- C19, first half.  Firmware larger than the flash: the run sends no request at all (in
    particular none that erases, sets the address or downloads), sleeps never, prints no 'done!',
    leaves flash and logs untouched, and ends with a non-zero exit status saying why — for every
    page count, schedule and initial flash. -/
theorem oversize_no_request (fw : List Nat) (pc : Nat) (s : Schedule) (flash₀ : Nat → Cell)
    (hbig : fw.length > 1024 * pc) :
    (run fw pc s flash₀).trace = [] ∧
    (∀ e ∈ (run fw pc s flash₀).trace, e.isDnload = false) ∧
    (run fw pc s flash₀).halted = true ∧
    (run fw pc s flash₀).exitCode ≠ 0 ∧
    (run fw pc s flash₀).exitMsg = .tooLarge ∧
    (run fw pc s flash₀).done = false ∧
    (run fw pc s flash₀).flash = flash₀ ∧
    (run fw pc s flash₀).erased = [] ∧ (run fw pc s flash₀).written = [] ∧
    (run fw pc s flash₀).dev.nreq = 0 := by
  have h := run_oversize (h := ⟨fw, pc⟩) (s := s) flash₀ hbig
  simp only [run, runFuel, h]
  simp [Config.result, Config.init, Device.init]

/-- C19, second half, general form.  If the schedule makes ANY operation the run can reach fail
    (any number of injections, either fault flavour at any step: the hypothesis only says that
    operation `i` is one of them), the run ends with a non-zero exit status, never prints 'done!',
    and the exit message is the one that belongs to the first failing operation `j ≤ i`. -/
theorem device_error_not_done (fw : List Nat) (pc : Nat) (s : Schedule) (flash₀ : Nat → Cell)
    (hpc : GD32 pc) (hfit : fw.length ≤ 1024 * pc)
    (i : Nat) (hi : i < 3 * pagesOf fw.length) (hf : (s.op i).fault % 256 ≠ 0) :
    (run fw pc s flash₀).halted = true ∧
    (run fw pc s flash₀).exitCode ≠ 0 ∧
    (run fw pc s flash₀).done = false ∧
    ∃ j, j ≤ i ∧ FirstFault s j ∧ (run fw pc s flash₀).exitMsg = expectedMsg (pagesOf fw.length) s j := by
  have hsm : pc ≤ 128 := by rcases hpc with h | h | h | h <;> omega
  obtain ⟨j, hj, hjf, hjm⟩ := exists_first_fault s (i + 1) ⟨i, by omega, hf⟩
  have hj3 : j < 3 * (HostCfg.mk fw pc).pages := by rw [pages_eq]; omega
  obtain ⟨hx, he, ho⟩ := (run_fault_reaches (h := ⟨fw, pc⟩) (s := s) flash₀ hfit hsm j hj3 hjf hjm).run_eq
  refine ⟨hx, ?_, ?_, j, by omega, ⟨hjf, hjm⟩, ?_⟩
  · show (match (steps _ _ _).exit with | some (n, _) => n | none => 0) ≠ 0
    rw [he]; exact Nat.one_ne_zero
  · show (steps _ _ _).out.contains Msg.done = false
    rw [ho]; rfl
  · show (match (steps _ _ _).exit with | some (_, m) => m | none => ExitMsg.internal) = _
    rw [he, pages_eq, failMsg_eq]

/-- the schedule `s` with the status of operation `i` replaced by `e`, in the default flavour
    (dfuERROR) or, `soft = true`, the status-only flavour -/
def inject (s : Schedule) (i e : Nat) (soft : Bool := false) : Schedule :=
  { s with op := fun k => if k = i then { s.op k with fault := e, statusOnly := soft } else s.op k }

/-- single injection: an otherwise fault-free schedule with status `e` injected at operation `i`,
    either flavour, at any step -/
theorem single_injection_not_done (fw : List Nat) (pc : Nat) (s : Schedule) (flash₀ : Nat → Cell)
    (hpc : GD32 pc) (hfit : fw.length ≤ 1024 * pc) (hff : FaultFree s)
    (i e : Nat) (soft : Bool) (hi : i < 3 * pagesOf fw.length) (he : e % 256 ≠ 0) :
    (run fw pc (inject s i e soft) flash₀).exitCode ≠ 0 ∧
    (run fw pc (inject s i e soft) flash₀).done = false ∧
    (run fw pc (inject s i e soft) flash₀).exitMsg = expectedMsg (pagesOf fw.length) (inject s i e soft) i := by
  have hf : ((inject s i e soft).op i).fault % 256 ≠ 0 := by simp [inject, he]
  have hfirst : ∀ j, FirstFault (inject s i e soft) j → j = i := by
    intro j ⟨hjf, _⟩
    by_cases hji : j = i
    · exact hji
    · exfalso; apply hjf; simp [inject, hji, hff j]
  obtain ⟨_, hc, hd, j, hj, hjf, hm⟩ := device_error_not_done fw pc (inject s i e soft) flash₀ hpc hfit i hi hf
  have := hfirst j hjf
  subst this
  exact ⟨hc, hd, hm⟩

/-- double injection: statuses `e₁`, `e₂` injected at operations `i₁ < i₂` (either flavour each):
    the run dies at the first, the second is never reached -/
theorem double_injection_not_done (fw : List Nat) (pc : Nat) (s : Schedule) (flash₀ : Nat → Cell)
    (hpc : GD32 pc) (hfit : fw.length ≤ 1024 * pc) (hff : FaultFree s)
    (i₁ i₂ e₁ e₂ : Nat) (soft₁ soft₂ : Bool) (h12 : i₁ < i₂) (hi : i₂ < 3 * pagesOf fw.length)
    (he₁ : e₁ % 256 ≠ 0) (_he₂ : e₂ % 256 ≠ 0) :
    (run fw pc (inject (inject s i₁ e₁ soft₁) i₂ e₂ soft₂) flash₀).exitCode ≠ 0 ∧
    (run fw pc (inject (inject s i₁ e₁ soft₁) i₂ e₂ soft₂) flash₀).done = false ∧
    (run fw pc (inject (inject s i₁ e₁ soft₁) i₂ e₂ soft₂) flash₀).exitMsg =
      expectedMsg (pagesOf fw.length) (inject (inject s i₁ e₁ soft₁) i₂ e₂ soft₂) i₁ := by
  have hne : i₁ ≠ i₂ := by omega
  have hf : ((inject (inject s i₁ e₁ soft₁) i₂ e₂ soft₂).op i₁).fault % 256 ≠ 0 := by simp [inject, hne, he₁]
  have hfirst : ∀ j, FirstFault (inject (inject s i₁ e₁ soft₁) i₂ e₂ soft₂) j → j = i₁ := by
    intro j ⟨hjf, hjm⟩
    by_cases hji : j = i₁
    · exact hji
    · exfalso
      by_cases hj2 : j = i₂
      · subst hj2
        have := hjm i₁ h12
        simp [inject, hne, he₁] at this
      · apply hjf; simp [inject, hji, hj2, hff j]
  obtain ⟨_, hc, hd, j, hj, hjf, hm⟩ :=
    device_error_not_done fw pc (inject (inject s i₁ e₁ soft₁) i₂ e₂ soft₂) flash₀ hpc hfit i₁ (by omega) hf
  have := hfirst j hjf
  subst this
  exact ⟨hc, hd, hm⟩

/-! ### regression: a status-only failure of set-address -/

/-- two pages, no busy polls; the set-address of page 1 (operation 4) fails the status-only way
    with errADDRESS (8) -/
def softAddrSched : Schedule :=
  { startErr := 0, idleTimeout := fun _ => 0,
    op := fun i => if i = 4 then { fault := 8, statusOnly := true } else {} }

/-- **the host looks at the status after set-address** (dfu.py:282-284).  Against a device that
    reports the failure of the set-address of page 1 in bStatus only (bState dfuDNLOAD_IDLE), the
    run of a two-page image ends with exit status 1 naming address and status, and 'done!' is not
    printed.  The last three events of the run are the set-address DNLOAD, the GETSTATUS that
    returned the error status and the sleep inside dfu_get_status: no request follows, in
    particular no DNLOAD (the run has five in all: two erases, set-address and data of page 0,
    the failed set-address).  Page 0 holds its block, page 1 is still erased, nothing else was
    written and no monitor fired.  (Before bfa32d3 this run ended with exit status 0 and 'done!',
    block 1 written over page 0.)  Evaluated by the kernel. -/
theorem status_only_set_address_stops :
    let r := run (List.replicate 1025 7) 16 softAddrSched (fun _ => .orig)
    (softAddrSched.op 4).fault % 256 ≠ 0 ∧ (softAddrSched.op 4).statusOnly = true ∧
    r.halted = true ∧ r.exitCode = 1 ∧ r.exitMsg = .addrFailed 0x08000400 8 ∧ r.done = false ∧
    r.trace.reverse.take 3 =
      [.sleep 0, .req getStatusReq (.bytes (statusReply 8 0 5)),
       .req (dnloadReq 0 (setAddrCmd 0x08000400)) (.count 5)] ∧
    (r.trace.filter Event.isDnload).length = 5 ∧
    r.flash 0 = .data (List.replicate 1024 7) ∧ r.flash 1 = .erased ∧
    r.erased = [0, 1] ∧ r.written = [0] ∧ r.mon = Monitors.clean := by
  intro r
  refine ⟨by decide, by decide, ?_⟩
  decide +kernel

/-! ### non-vacuity -/

/-- oversize: 16385 bytes for the 16-page part -/
example : (List.replicate 16385 1).length > 1024 * 16 := by rw [List.length_replicate]; omega

/-- fault injection: the demo schedule of C18 (busy polls, initial dfuERROR) with errVERIFY (7)
    injected at the write of page 1 of a two-page image (operation 2 + 2·1 + 1 = 5) and errPROG (6)
    at the erase of page 0: hypotheses hold, and the expected messages name page and status -/
example : GD32 16 ∧ (List.replicate 1500 7).length ≤ 1024 * 16 ∧ FaultFree demoSched ∧
    5 < 3 * pagesOf (List.replicate 1500 7).length ∧ 7 % 256 ≠ 0 ∧
    expectedMsg 2 (inject demoSched 5 7) 5 = .writeFailed 0x08000400 7 ∧
    expectedMsg 2 (inject (inject demoSched 0 6) 5 7) 0 = .eraseFailed 0x08000000 6 ∧
    expectedMsg 2 (inject demoSched 4 8) 4 = .addrFailed 0x08000400 8 := by
  refine ⟨Or.inl rfl, by rw [List.length_replicate]; omega, ?_, by rw [List.length_replicate]; decide,
    by decide, by decide, by decide, by decide⟩
  intro i
  simp only [demoSched]
  split <;> rfl

end BB.Props.C19
