/-
  BB.InstrTable — INSTRUCTIONS (asm.py:721-1012): mnemonic → encoder with its bound
  keyword arguments, and `encode`, the call `INSTRUCTIONS[name](*args)` of
  resolve_instructions (asm.py:3162-3180).
-/
import BB.Reg
import BB.Enc32
import BB.Enc16
namespace BB

/-- one entry of INSTRUCTIONS: which encoder, with which `partial` bindings -/
inductive EncKind where
  | r (opcode funct3 funct7 : Nat)
  | i (opcode funct3 : Nat)
  | ij (opcode funct3 : Nat)
  | ie (opcode funct3 imm : Nat)              -- i_type with rd=0, rs1=0, imm bound
  | s (opcode funct3 : Nat)
  | b (opcode funct3 : Nat)
  | u (opcode : Nat)
  | j (opcode : Nat)
  | fence (opcode funct3 : Nat)               -- rd=0, rs1=0, fm=0 bound
  | a (opcode funct3 funct5 : Nat)
  | al (opcode funct3 funct5 : Nat)           -- rs2=0 bound
  | cr (opcode funct4 : Nat) (cs : List Constraint)
  | crj (opcode funct4 : Nat) (cs : List Constraint)     -- rs2=0 bound
  | cre (opcode funct4 : Nat)                            -- rd_rs1=0, rs2=0 bound
  | ci (opcode funct3 : Nat) (cs : List Constraint)
  | cia (opcode funct3 : Nat) (cs : List Constraint)
  | cin (opcode funct3 : Nat)                            -- rd_rs1=0, imm=0 bound
  | ciu (opcode funct3 : Nat) (cs : List Constraint)
  | cil (opcode funct3 : Nat) (cs : List Constraint)
  | css (opcode funct3 : Nat) (cs : List Constraint)
  | ciw (opcode funct3 : Nat) (cs : List Constraint)
  | cl (opcode funct3 : Nat) (cs : List Constraint)
  | cs (opcode funct3 : Nat) (cs : List Constraint)
  | ca (opcode funct2 funct6 : Nat) (cs : List Constraint)
  | cb (opcode funct3 : Nat) (cs : List Constraint)
  | cbi (opcode funct2 funct3 : Nat) (cs : List Constraint)
  | cj (opcode funct3 : Nat) (cs : List Constraint)
  deriving Repr, DecidableEq

open Constraint in
def instrTable : List (String × EncKind) := [
  -- R_TYPE_INSTRUCTIONS
  ("slli",   .r 0b0010011 0b001 0b0000000),
  ("srli",   .r 0b0010011 0b101 0b0000000),
  ("srai",   .r 0b0010011 0b101 0b0100000),
  ("add",    .r 0b0110011 0b000 0b0000000),
  ("sub",    .r 0b0110011 0b000 0b0100000),
  ("sll",    .r 0b0110011 0b001 0b0000000),
  ("slt",    .r 0b0110011 0b010 0b0000000),
  ("sltu",   .r 0b0110011 0b011 0b0000000),
  ("xor",    .r 0b0110011 0b100 0b0000000),
  ("srl",    .r 0b0110011 0b101 0b0000000),
  ("sra",    .r 0b0110011 0b101 0b0100000),
  ("or",     .r 0b0110011 0b110 0b0000000),
  ("and",    .r 0b0110011 0b111 0b0000000),
  ("mul",    .r 0b0110011 0b000 0b0000001),
  ("mulh",   .r 0b0110011 0b001 0b0000001),
  ("mulhsu", .r 0b0110011 0b010 0b0000001),
  ("mulhu",  .r 0b0110011 0b011 0b0000001),
  ("div",    .r 0b0110011 0b100 0b0000001),
  ("divu",   .r 0b0110011 0b101 0b0000001),
  ("rem",    .r 0b0110011 0b110 0b0000001),
  ("remu",   .r 0b0110011 0b111 0b0000001),
  -- I_TYPE_INSTRUCTIONS
  ("jalr",   .ij 0b1100111 0b000),
  ("lb",     .i 0b0000011 0b000),
  ("lh",     .i 0b0000011 0b001),
  ("lw",     .i 0b0000011 0b010),
  ("lbu",    .i 0b0000011 0b100),
  ("lhu",    .i 0b0000011 0b101),
  ("addi",   .i 0b0010011 0b000),
  ("slti",   .i 0b0010011 0b010),
  ("sltiu",  .i 0b0010011 0b011),
  ("xori",   .i 0b0010011 0b100),
  ("ori",    .i 0b0010011 0b110),
  ("andi",   .i 0b0010011 0b111),
  ("csrrw",  .i 0b1110011 0b001),
  ("csrrs",  .i 0b1110011 0b010),
  ("csrrc",  .i 0b1110011 0b011),
  ("csrrwi", .i 0b1110011 0b101),
  ("csrrsi", .i 0b1110011 0b110),
  ("csrrci", .i 0b1110011 0b111),
  -- IE_TYPE_INSTRUCTIONS
  ("ecall",   .ie 0b1110011 0b000 0),
  ("ebreak",  .ie 0b1110011 0b000 1),
  ("fence.i", .ie 0b0001111 0b001 0),
  -- S_TYPE_INSTRUCTIONS
  ("sb",     .s 0b0100011 0b000),
  ("sh",     .s 0b0100011 0b001),
  ("sw",     .s 0b0100011 0b010),
  -- B_TYPE_INSTRUCTIONS
  ("beq",    .b 0b1100011 0b000),
  ("bne",    .b 0b1100011 0b001),
  ("blt",    .b 0b1100011 0b100),
  ("bge",    .b 0b1100011 0b101),
  ("bltu",   .b 0b1100011 0b110),
  ("bgeu",   .b 0b1100011 0b111),
  -- U_TYPE_INSTRUCTIONS
  ("lui",    .u 0b0110111),
  ("auipc",  .u 0b0010111),
  -- J_TYPE_INSTRUCTIONS
  ("jal",    .j 0b1101111),
  -- FENCE_INSTRUCTIONS
  ("fence",  .fence 0b0001111 0b000),
  -- A_TYPE_INSTRUCTIONS
  ("sc.w",      .a 0b0101111 0b010 0b00011),
  ("amoswap.w", .a 0b0101111 0b010 0b00001),
  ("amoadd.w",  .a 0b0101111 0b010 0b00000),
  ("amoxor.w",  .a 0b0101111 0b010 0b00100),
  ("amoand.w",  .a 0b0101111 0b010 0b01100),
  ("amoor.w",   .a 0b0101111 0b010 0b01000),
  ("amomin.w",  .a 0b0101111 0b010 0b10000),
  ("amomax.w",  .a 0b0101111 0b010 0b10100),
  ("amominu.w", .a 0b0101111 0b010 0b11000),
  ("amomaxu.w", .a 0b0101111 0b010 0b11100),
  -- AL_TYPE_INSTRUCTIONS
  ("lr.w",      .al 0b0101111 0b010 0b00010),
  -- CR / CRJ / CRE
  ("c.mv",      .cr 0b10 0b1000 [rdRs1NotZero, rs2NotZero]),
  ("c.add",     .cr 0b10 0b1001 [rdRs1NotZero, rs2NotZero]),
  ("c.jr",      .crj 0b10 0b1000 [rdRs1NotZero]),
  ("c.jalr",    .crj 0b10 0b1001 [rdRs1NotZero]),
  ("c.ebreak",  .cre 0b10 0b1001),
  -- CI family
  ("c.addi",    .ci 0b01 0b000 [rdRs1NotZero, immNotZero]),
  ("c.li",      .ci 0b01 0b010 [rdRs1NotZero]),
  ("c.lui",     .ciu 0b01 0b011 [rdRs1NotZero, rdRs1NotTwo, immNotZero]),
  ("c.slli",    .ci 0b10 0b000 [rdRs1NotZero, immNotZero, shamtBit5Zero]),
  ("c.lwsp",    .cil 0b10 0b010 [rdRs1NotZero]),
  ("c.addi16sp", .cia 0b01 0b011 [immNotZero]),
  ("c.nop",     .cin 0b01 0b000),
  ("c.swsp",    .css 0b10 0b110 []),
  ("c.addi4spn", .ciw 0b00 0b000 [immNotZero]),
  ("c.lw",      .cl 0b00 0b010 []),
  ("c.sw",      .cs 0b00 0b110 []),
  ("c.sub",     .ca 0b01 0b00 0b100011 []),
  ("c.xor",     .ca 0b01 0b01 0b100011 []),
  ("c.or",      .ca 0b01 0b10 0b100011 []),
  ("c.and",     .ca 0b01 0b11 0b100011 []),
  ("c.srli",    .cbi 0b01 0b00 0b100 [immNotZero, shamtBit5Zero]),
  ("c.srai",    .cbi 0b01 0b01 0b100 [immNotZero, shamtBit5Zero]),
  ("c.andi",    .cbi 0b01 0b10 0b100 []),
  ("c.beqz",    .cb 0b01 0b110 []),
  ("c.bnez",    .cb 0b01 0b111 []),
  ("c.jal",     .cj 0b01 0b001 []),
  ("c.j",       .cj 0b01 0b101 [])
]

/-- a positional argument of an encoder call -/
inductive Arg where
  | r (x : RegOp)      -- a register operand, or any str-or-int operand (fence sets, aq/rl)
  | i (v : Int)        -- an evaluated immediate
  deriving Repr, DecidableEq, Inhabited

/-- what escapes from `encode_func(*args)` -/
inductive EncErr where
  | value      -- ValueError (turned into AssemblerError by resolve_instructions)
  | type       -- TypeError: wrong number/kind of positional arguments (escapes raw)
  | key        -- KeyError: INSTRUCTIONS[name] missing
  deriving Repr, DecidableEq

deriving instance DecidableEq for Except

abbrev EncRes := Except EncErr Nat

def ofOpt (o : Option Nat) : EncRes := match o with | some w => .ok w | none => .error .value

def lookR (r : RegOp) : Except EncErr Nat :=
  match lookupRegister r with | some n => .ok n | none => .error .value
def lookRC (r : RegOp) : Except EncErr Nat :=
  match lookupRegisterC r with | some n => .ok n | none => .error .value

/-- `x if type(x) == int else int(x, base=0)` -/
def intOrParse (r : RegOp) : Except EncErr Int :=
  match r with
  | .int i => .ok i
  | .str s => match pyInt0 s.toList with | some i => .ok i | none => .error .value

/-- one function per encoder kind: the call `encode_func(*args)`.  Argument shapes other than
    those the item classes produce are `TypeError`s in Python; the model reports them as `.type`. -/
def encR (op : Nat) (f3 : Nat) (f7 : Nat) : List Arg → EncRes
  | [.r rd, .r rs1, .r rs2] => do
      let rd ← lookR rd; let rs1 ← lookR rs1; let rs2 ← lookR rs2
      pure (rTypeN rd rs1 rs2 op f3 f7)
  | _ => .error .type

def encI (op : Nat) (f3 : Nat) : List Arg → EncRes
  | [.r rd, .r rs1, .i imm] => do
      let rd ← lookR rd; let rs1 ← lookR rs1
      ofOpt (iTypeN rd rs1 imm op f3)
  | _ => .error .type

def encIj (op : Nat) (f3 : Nat) : List Arg → EncRes
  | [.r rd, .r rs1, .i imm] => do
      let rd ← lookR rd; let rs1 ← lookR rs1
      ofOpt (ijTypeN rd rs1 imm op f3)
  | _ => .error .type

def encIe (op : Nat) (f3 : Nat) (imm : Nat) : List Arg → EncRes
  | [] => ofOpt (iTypeN 0 0 (Int.ofNat imm) op f3)
  | _ => .error .type

def encS (op : Nat) (f3 : Nat) : List Arg → EncRes
  | [.r rs1, .r rs2, .i imm] => do
      let rs1 ← lookR rs1; let rs2 ← lookR rs2
      ofOpt (sTypeN rs1 rs2 imm op f3)
  | _ => .error .type

def encB (op : Nat) (f3 : Nat) : List Arg → EncRes
  | [.r rs1, .r rs2, .i imm] => do
      let rs1 ← lookR rs1; let rs2 ← lookR rs2
      ofOpt (bTypeN rs1 rs2 imm op f3)
  | _ => .error .type

def encU (op : Nat) : List Arg → EncRes
  | [.r rd, .i imm] => do
      let rd ← lookR rd
      ofOpt (uTypeN rd imm op)
  | _ => .error .type

def encJ (op : Nat) : List Arg → EncRes
  | [.r rd, .i imm] => do
      let rd ← lookR rd
      ofOpt (jTypeN rd imm op)
  | _ => .error .type

def encFence (op : Nat) (f3 : Nat) : List Arg → EncRes
  | [.r succ, .r pred] => do
      let succ ← intOrParse succ; let pred ← intOrParse pred
      ofOpt (fenceN succ pred op f3 0 0 0)
  | _ => .error .type

def encA (op : Nat) (f3 : Nat) (f5 : Nat) : List Arg → EncRes
  | [.r rd, .r rs1, .r rs2, .r aq, .r rl] => do
      let aq ← intOrParse aq; let rl ← intOrParse rl
      if ¬ (aq = 0 ∨ aq = 1) then throw .value
      if ¬ (rl = 0 ∨ rl = 1) then throw .value
      let rd ← lookR rd; let rs1 ← lookR rs1; let rs2 ← lookR rs2
      ofOpt (aTypeN rd rs1 rs2 op f3 f5 aq rl)
  | _ => .error .type

def encAl (op : Nat) (f3 : Nat) (f5 : Nat) : List Arg → EncRes
  | [.r rd, .r rs1, .r aq, .r rl] => do
      let aq ← intOrParse aq; let rl ← intOrParse rl
      if ¬ (aq = 0 ∨ aq = 1) then throw .value
      if ¬ (rl = 0 ∨ rl = 1) then throw .value
      let rd ← lookR rd; let rs1 ← lookR rs1
      ofOpt (aTypeN rd rs1 0 op f3 f5 aq rl)
  | _ => .error .type

def encCr (op : Nat) (f4 : Nat) (cs : List Constraint) : List Arg → EncRes
  | [.r rdRs1, .r rs2] => do
      let rdRs1 ← lookR rdRs1; let rs2 ← lookR rs2
      ofOpt (crTypeN rdRs1 rs2 op f4 cs)
  | _ => .error .type

def encCrj (op : Nat) (f4 : Nat) (cs : List Constraint) : List Arg → EncRes
  | [.r rdRs1] => do
      let rdRs1 ← lookR rdRs1
      ofOpt (crTypeN rdRs1 0 op f4 cs)
  | _ => .error .type

def encCre (op : Nat) (f4 : Nat) : List Arg → EncRes
  | [] => ofOpt (crTypeN 0 0 op f4 [])
  | _ => .error .type

def encCi (op : Nat) (f3 : Nat) (cs : List Constraint) : List Arg → EncRes
  | [.r rdRs1, .i imm] => do
      let rdRs1 ← lookR rdRs1
      ofOpt (ciTypeN rdRs1 imm op f3 cs)
  | _ => .error .type

def encCia (op : Nat) (f3 : Nat) (cs : List Constraint) : List Arg → EncRes
  | [.i imm] => ofOpt (ciaTypeN imm op f3 cs)
  | _ => .error .type

def encCin (op : Nat) (f3 : Nat) : List Arg → EncRes
  | [] => ofOpt (ciTypeN 0 0 op f3 [])
  | _ => .error .type

def encCiu (op : Nat) (f3 : Nat) (cs : List Constraint) : List Arg → EncRes
  | [.r rdRs1, .i imm] => do
      let rdRs1 ← lookR rdRs1
      ofOpt (ciuTypeN rdRs1 imm op f3 cs)
  | _ => .error .type

def encCil (op : Nat) (f3 : Nat) (cs : List Constraint) : List Arg → EncRes
  | [.r rdRs1, .i imm] => do
      let rdRs1 ← lookR rdRs1
      ofOpt (cilTypeN rdRs1 imm op f3 cs)
  | _ => .error .type

def encCss (op : Nat) (f3 : Nat) (cs : List Constraint) : List Arg → EncRes
  | [.r rs2, .i imm] => do
      let rs2 ← lookR rs2
      ofOpt (cssTypeN rs2 imm op f3 cs)
  | _ => .error .type

def encCiw (op : Nat) (f3 : Nat) (cs : List Constraint) : List Arg → EncRes
  | [.r rd, .i imm] => do
      let rd ← lookRC rd
      ofOpt (ciwTypeN rd imm op f3 cs)
  | _ => .error .type

def encCl (op : Nat) (f3 : Nat) (cs : List Constraint) : List Arg → EncRes
  | [.r rd, .r rs1, .i imm] => do
      let rd ← lookRC rd; let rs1 ← lookRC rs1
      ofOpt (clTypeN rd rs1 imm op f3 cs)
  | _ => .error .type

def encCs (op : Nat) (f3 : Nat) (cs : List Constraint) : List Arg → EncRes
  | [.r rs1, .r rs2, .i imm] => do
      let rs1 ← lookRC rs1; let rs2 ← lookRC rs2
      ofOpt (csTypeN rs1 rs2 imm op f3 cs)
  | _ => .error .type

def encCa (op : Nat) (f2 : Nat) (f6 : Nat) (cs : List Constraint) : List Arg → EncRes
  | [.r rdRs1, .r rs2] => do
      let rdRs1 ← lookRC rdRs1; let rs2 ← lookRC rs2
      ofOpt (caTypeN rdRs1 rs2 op f2 f6 cs)
  | _ => .error .type

def encCb (op : Nat) (f3 : Nat) (cs : List Constraint) : List Arg → EncRes
  | [.r rs1, .i imm] => do
      let rs1 ← lookRC rs1
      ofOpt (cbTypeN rs1 imm op f3 cs)
  | _ => .error .type

def encCbi (op : Nat) (f2 : Nat) (f3 : Nat) (cs : List Constraint) : List Arg → EncRes
  | [.r rdRs1, .i imm] => do
      let rdRs1 ← lookRC rdRs1
      ofOpt (cbiTypeN rdRs1 imm op f2 f3 cs)
  | _ => .error .type

def encCj (op : Nat) (f3 : Nat) (cs : List Constraint) : List Arg → EncRes
  | [.i imm] => ofOpt (cjTypeN imm op f3 cs)
  | _ => .error .type

/-- `encode_func(*args)` for a table entry -/
def encodeKind (k : EncKind) (args : List Arg) : EncRes :=
  match k with
  | .r op f3 f7 => encR op f3 f7 args
  | .i op f3 => encI op f3 args
  | .ij op f3 => encIj op f3 args
  | .ie op f3 imm => encIe op f3 imm args
  | .s op f3 => encS op f3 args
  | .b op f3 => encB op f3 args
  | .u op => encU op args
  | .j op => encJ op args
  | .fence op f3 => encFence op f3 args
  | .a op f3 f5 => encA op f3 f5 args
  | .al op f3 f5 => encAl op f3 f5 args
  | .cr op f4 cs => encCr op f4 cs args
  | .crj op f4 cs => encCrj op f4 cs args
  | .cre op f4 => encCre op f4 args
  | .ci op f3 cs => encCi op f3 cs args
  | .cia op f3 cs => encCia op f3 cs args
  | .cin op f3 => encCin op f3 args
  | .ciu op f3 cs => encCiu op f3 cs args
  | .cil op f3 cs => encCil op f3 cs args
  | .css op f3 cs => encCss op f3 cs args
  | .ciw op f3 cs => encCiw op f3 cs args
  | .cl op f3 cs => encCl op f3 cs args
  | .cs op f3 cs => encCs op f3 cs args
  | .ca op f2 f6 cs => encCa op f2 f6 cs args
  | .cb op f3 cs => encCb op f3 cs args
  | .cbi op f2 f3 cs => encCbi op f2 f3 cs args
  | .cj op f3 cs => encCj op f3 cs args

/-- `INSTRUCTIONS[name](*args)` -/
def encode (name : String) (args : List Arg) : EncRes :=
  match instrTable.lookup name with
  | some k => encodeKind k args
  | none => .error .key

/-- 2 for `CompressedInstruction` entries, 4 otherwise -/
def EncKind.size : EncKind → Nat
  | .r .. | .i .. | .ij .. | .ie .. | .s .. | .b .. | .u .. | .j .. | .fence .. | .a .. | .al .. => 4
  | _ => 2

end BB
