/-
  BB.Expr — the expression front end of bronzebeard/asm.py:

  * `unicodeEscape`  : Python's `bytes.decode('unicode_escape')` on ASCII input (used by the
                       char-literal rule of `Arithmetic.eval` and by `error` / `string` lines);
  * `tokenize`       : CPython 3.12's tokenizer restricted to the documented expression subset
                       (integer literals, identifiers, `+ - * // / % << >> & | ^ ~ ( )`);
  * `parseExpr`      : precedence climbing with exactly Python's precedence / associativity;
  * `evalAst`        : Python `int` semantics of the operators;
  * `evalArith`      : `Arithmetic.eval` (char-literal rule first, then `eval`).

  Everything outside the documented subset is `ExprErr.unsupported` (never compared with the
  implementation), except where the Python outcome is an AssemblerError whatever the rest of the
  expression is (then it is `ExprErr.error`).  Core Lean only (the driver links this natively).
-/
import BB.Bits
import BB.PyInt
import BB.Passes   -- for `BB.ExprErr` (error | internal py | unsupported why), shared with the passes' `Hooks.arith`
namespace BB

/-! ## small character helpers -/

def isAsciiC (c : Char) : Bool := c.toNat < 128
def isDigitC (c : Char) : Bool := '0' ≤ c && c ≤ '9'
def isIdentStart (c : Char) : Bool := ('a' ≤ c && c ≤ 'z') || ('A' ≤ c && c ≤ 'Z') || c = '_'
def isIdentChar (c : Char) : Bool := isIdentStart c || isDigitC c

/-! ## unicode_escape -/

def hexDigitVal (c : Char) : Option Nat :=
  if '0' ≤ c ∧ c ≤ '9' then some (c.toNat - '0'.toNat)
  else if 'a' ≤ c ∧ c ≤ 'f' then some (c.toNat - 'a'.toNat + 10)
  else if 'A' ≤ c ∧ c ≤ 'F' then some (c.toNat - 'A'.toNat + 10)
  else none

def octDigitVal (c : Char) : Option Nat :=
  if '0' ≤ c ∧ c ≤ '7' then some (c.toNat - '0'.toNat) else none

/-- exactly `k` hex digits; `none` = truncated escape -/
def hexN : Nat → List Char → Nat → Option (Nat × List Char)
  | 0, r, acc => some (acc, r)
  | _+1, [], _ => none
  | k+1, c :: r, acc =>
    match hexDigitVal c with
    | some d => hexN k r (acc * 16 + d)
    | none => none

/-- a code point as a `Char`; lone surrogates (which Python strings can hold) are outside the model -/
def codePoint (n : Nat) : Except ExprErr Char :=
  if n ≥ 0x110000 then .error (.internal "UnicodeDecodeError")
  else if 0xD800 ≤ n ∧ n ≤ 0xDFFF then .error (.unsupported "surrogate")
  else .ok (Char.ofNat n)

def simpleEscape (c : Char) : Option Char :=
  if c = '\\' then some '\\' else if c = '\'' then some '\'' else if c = '"' then some '"'
  else if c = 'b' then some '\x08' else if c = 'f' then some '\x0c' else if c = 't' then some '\t'
  else if c = 'n' then some '\n' else if c = 'r' then some '\r' else if c = 'v' then some '\x0b'
  else if c = 'a' then some '\x07' else none

/-- `_PyUnicode_DecodeUnicodeEscapeInternal`, errors='strict', ASCII input. -/
def unicodeEscapeAux : Nat → List Char → Except ExprErr (List Char)
  | 0, _ => .error (.unsupported "fuel")
  | _+1, [] => .ok []
  | f+1, c :: cs =>
    if c ≠ '\\' then (c :: ·) <$> unicodeEscapeAux f cs
    else match cs with
      | [] => .error (.internal "UnicodeDecodeError")          -- "\ at end of string"
      | e :: r =>
        if e = '\n' then unicodeEscapeAux f r
        else match simpleEscape e with
        | some ch => (ch :: ·) <$> unicodeEscapeAux f r
        | none =>
          match octDigitVal e with
          | some d0 =>
            -- up to two more octal digits
            let (v, r) := match r with
              | c1 :: r1 => match octDigitVal c1 with
                | some d1 => match r1 with
                  | c2 :: r2 => match octDigitVal c2 with
                    | some d2 => ((d0 * 8 + d1) * 8 + d2, r2)
                    | none => (d0 * 8 + d1, r1)
                  | [] => (d0 * 8 + d1, r1)
                | none => (d0, r)
              | [] => (d0, r)
            (Char.ofNat v :: ·) <$> unicodeEscapeAux f r
          | none =>
            let count := if e = 'x' then 2 else if e = 'u' then 4 else if e = 'U' then 8 else 0
            if count ≠ 0 then
              match hexN count r 0 with
              | none => .error (.internal "UnicodeDecodeError")
              | some (v, r') =>
                match codePoint v with
                | .ok ch => (ch :: ·) <$> unicodeEscapeAux f r'
                | .error e => .error e
            else if e = 'N' then .error (.unsupported "\\N{...}")
            else (fun t => '\\' :: e :: t) <$> unicodeEscapeAux f r

def unicodeEscape (l : List Char) : Except ExprErr (List Char) :=
  if l.all isAsciiC then unicodeEscapeAux (l.length + 1) l else .error (.unsupported "non-ascii")

/-! ## tokens -/

inductive Tok where
  | num (n : Nat)
  | name (s : String)
  | plus | minus | star | dslash | slash | percent | shl | shr | amp | bar | caret | tilde
  | lparen | rparen
  deriving Repr, DecidableEq, Inhabited

/-- characters that may occur in the modelled expression subset; anything else (quotes, `#`,
    `.`, `,`, `=`, `!`, brackets, backslash, control characters, ...) is `unsupported` -/
def allowedChar (c : Char) : Bool :=
  isIdentChar c || c = ' ' || c = '\t' || c = '+' || c = '-' || c = '*' || c = '/' || c = '%' ||
  c = '<' || c = '>' || c = '&' || c = '|' || c = '^' || c = '~' || c = '(' || c = ')'

/-- Python keywords (none of them is in the documented expression language) and `__debug__`,
    which the compiler folds to a constant. -/
def pyKeywords : List String := [
  "False", "None", "True", "and", "as", "assert", "async", "await", "break", "class", "continue",
  "def", "del", "elif", "else", "except", "finally", "for", "from", "global", "if", "import",
  "in", "is", "lambda", "nonlocal", "not", "or", "pass", "raise", "return", "try", "while",
  "with", "yield", "__debug__"]

/-- after at least one digit: further digits, and single underscores each followed by a digit
    (`tok_decimal_tail` and the inner loops of the `0x/0o/0b` cases).  `none` = SyntaxError. -/
def numTail (base : Nat) : List Char → Nat → Option (Nat × List Char)
  | [], acc => some (acc, [])
  | c :: cs, acc =>
    match digitIn base c with
    | some d => numTail base cs (acc * base + d)
    | none =>
      if c = '_' then
        match cs with
        | d :: cs' =>
          match digitIn base d with
          | some v => numTail base cs' (acc * base + v)
          | none => none
        | [] => none
      else some (acc, c :: cs)

/-- the zeros (with single underscores) after a leading `0` of a decimal literal -/
def zeroTail : List Char → Option (List Char)
  | '_' :: c :: r => if isDigitC c then (if c = '0' then zeroTail r else some (c :: r)) else none
  | ['_'] => none
  | '0' :: r => zeroTail r
  | l => some l

def startsWithL (p l : List Char) : Bool := p.isPrefixOf l

/-- `verify_end_of_number`'s keyword look-ahead: a literal immediately followed by one of
    `and else for if in is not or` is (still, in 3.12) accepted with a warning. -/
def kwAhead (l : List Char) : Bool :=
  startsWithL "and".toList l || startsWithL "else".toList l || startsWithL "for".toList l ||
  startsWithL "if".toList l || startsWithL "in".toList l || startsWithL "is".toList l ||
  startsWithL "or".toList l || startsWithL "not".toList l

/-- what may follow the digits of an integer literal -/
def endOfNumber (base : Nat) (v : Nat) (rest : List Char) : Except ExprErr (Nat × List Char) :=
  match rest with
  | [] => .ok (v, [])
  | c :: _ =>
    if isDigitC c then .error .error                       -- "invalid digit '8' in octal literal"
    else if base = 10 ∧ (c = 'e' ∨ c = 'E' ∨ c = 'j' ∨ c = 'J') then .error (.unsupported "float")
    else if kwAhead rest then .error (.unsupported "keyword after number")
    else if isIdentChar c then .error .error               -- "invalid decimal literal"
    else .ok (v, rest)

/-- `0x_1f`: one underscore may follow the base prefix -/
def dropUnderscore : List Char → List Char
  | '_' :: t => t
  | l => l

def scanPrefixed (base : Nat) (r : List Char) : Except ExprErr (Nat × List Char) :=
  match dropUnderscore r with
  | d :: t =>
    match digitIn base d with
    | some v =>
      match numTail base t v with
      | some (n, rest) => endOfNumber base n rest
      | none => .error .error
    | none => .error .error
  | [] => .error .error

/-- an integer literal at the head of the input (first char is a decimal digit) -/
def scanNumber (l : List Char) : Except ExprErr (Nat × List Char) :=
  match l with
  | '0' :: 'x' :: r => scanPrefixed 16 r
  | '0' :: 'X' :: r => scanPrefixed 16 r
  | '0' :: 'o' :: r => scanPrefixed 8 r
  | '0' :: 'O' :: r => scanPrefixed 8 r
  | '0' :: 'b' :: r => scanPrefixed 2 r
  | '0' :: 'B' :: r => scanPrefixed 2 r
  | '0' :: r =>
    match zeroTail r with
    | none => .error .error
    | some rest =>
      match rest with
      | c :: _ =>
        if isDigitC c then
          -- "leading zeros in decimal integer literals are not permitted" unless a float follows
          match numTail 10 rest 0 with
          | none => .error .error
          | some (_, rest') =>
            match rest' with
            | e :: _ => if e = 'e' ∨ e = 'E' ∨ e = 'j' ∨ e = 'J' then .error (.unsupported "float")
                        else .error .error
            | [] => .error .error
        else endOfNumber 10 0 rest
      | [] => .ok (0, [])
  | _ =>
    match numTail 10 l 0 with
    | some (n, rest) => endOfNumber 10 n rest
    | none => .error .error

def spanIdent : List Char → List Char × List Char
  | [] => ([], [])
  | c :: cs => if isIdentChar c then let (a, b) := spanIdent cs; (c :: a, b) else ([], c :: cs)

def tokAux : Nat → List Char → Except ExprErr (List Tok)
  | 0, _ => .error (.unsupported "fuel")
  | _+1, [] => .ok []
  | f+1, c :: cs =>
    if c = ' ' ∨ c = '\t' then tokAux f cs
    else if isDigitC c then
      match scanNumber (c :: cs) with
      | .ok (n, rest) => (Tok.num n :: ·) <$> tokAux f rest
      | .error e => .error e
    else if isIdentStart c then
      let (idc, rest) := spanIdent (c :: cs)
      let id := String.ofList idc
      if pyKeywords.contains id then .error (.unsupported "keyword")
      else (Tok.name id :: ·) <$> tokAux f rest
    else if c = '+' then (Tok.plus :: ·) <$> tokAux f cs
    else if c = '-' then (Tok.minus :: ·) <$> tokAux f cs
    else if c = '%' then (Tok.percent :: ·) <$> tokAux f cs
    else if c = '&' then (Tok.amp :: ·) <$> tokAux f cs
    else if c = '|' then (Tok.bar :: ·) <$> tokAux f cs
    else if c = '^' then (Tok.caret :: ·) <$> tokAux f cs
    else if c = '~' then (Tok.tilde :: ·) <$> tokAux f cs
    else if c = '(' then (Tok.lparen :: ·) <$> tokAux f cs
    else if c = ')' then (Tok.rparen :: ·) <$> tokAux f cs
    else if c = '*' then
      match cs with
      | '*' :: _ => .error (.unsupported "**")
      | _ => (Tok.star :: ·) <$> tokAux f cs
    else if c = '/' then
      match cs with
      | '/' :: r => (Tok.dslash :: ·) <$> tokAux f r
      | _ => (Tok.slash :: ·) <$> tokAux f cs
    else if c = '<' then
      match cs with
      | '<' :: r => (Tok.shl :: ·) <$> tokAux f r
      | _ => .error (.unsupported "comparison")
    else if c = '>' then
      match cs with
      | '>' :: r => (Tok.shr :: ·) <$> tokAux f r
      | _ => .error (.unsupported "comparison")
    else .error (.unsupported "character")

def tokenize (l : List Char) : Except ExprErr (List Tok) :=
  if l.all allowedChar then tokAux (l.length + 1) l else .error (.unsupported "character")

/-! ## syntax trees and the parser -/

inductive UnOp where
  | pos | neg | inv
  deriving Repr, DecidableEq, Inhabited

inductive BinOp where
  | add | sub | mul | floordiv | truediv | mod | shl | shr | band | bxor | bor
  deriving Repr, DecidableEq, Inhabited

inductive Ast where
  | lit (n : Nat)
  | name (s : String)
  | unary (op : UnOp) (a : Ast)
  | binary (op : BinOp) (a b : Ast)
  deriving Repr, DecidableEq, Inhabited

/-- binary operator tokens with Python's binding strength:
    `|` 0 < `^` 1 < `&` 2 < `<< >>` 3 < `+ -` 4 < `* / // %` 5  (unary `+ - ~` bind tighter) -/
def binInfo : Tok → Option (Nat × BinOp)
  | .bar => some (0, .bor)
  | .caret => some (1, .bxor)
  | .amp => some (2, .band)
  | .shl => some (3, .shl)
  | .shr => some (3, .shr)
  | .plus => some (4, .add)
  | .minus => some (4, .sub)
  | .star => some (5, .mul)
  | .dslash => some (5, .floordiv)
  | .slash => some (5, .truediv)
  | .percent => some (5, .mod)
  | _ => none

abbrev PRes := Except ExprErr (Ast × List Tok)

/-- an atom followed by `(` is a call: of an int (TypeError), of an unknown name (TypeError) —
    an AssemblerError whatever the arguments are -/
def noCall (a : Ast) (r : List Tok) : PRes :=
  match r with
  | .lparen :: _ => .error .error
  | _ => .ok (a, r)

mutual
/-- `factor`: unary operators, atoms, parenthesised expressions -/
def parseUnary : Nat → List Tok → PRes
  | 0, _ => .error (.unsupported "fuel")
  | f+1, toks =>
    match toks with
    | .plus :: r => (fun p => (Ast.unary .pos p.1, p.2)) <$> parseUnary f r
    | .minus :: r => (fun p => (Ast.unary .neg p.1, p.2)) <$> parseUnary f r
    | .tilde :: r => (fun p => (Ast.unary .inv p.1, p.2)) <$> parseUnary f r
    | .num n :: r => noCall (.lit n) r
    | .name s :: r => noCall (.name s) r
    | .lparen :: r =>
      match parseBin f 0 r with
      | .ok (e, .rparen :: r') => noCall e r'
      | .ok _ => .error .error
      | .error e => .error e
    | _ => .error .error
/-- an expression all of whose top-level binary operators bind at least as tightly as `minPrec` -/
def parseBin : Nat → Nat → List Tok → PRes
  | 0, _, _ => .error (.unsupported "fuel")
  | f+1, minPrec, toks =>
    match parseUnary f toks with
    | .ok (lhs, r) => climb f minPrec lhs r
    | .error e => .error e
/-- left-associative loop of precedence climbing -/
def climb : Nat → Nat → Ast → List Tok → PRes
  | 0, _, _, _ => .error (.unsupported "fuel")
  | f+1, minPrec, lhs, toks =>
    match toks with
    | t :: r =>
      match binInfo t with
      | some (prec, op) =>
        if prec ≥ minPrec then
          match parseBin f (prec + 1) r with
          | .ok (rhs, r') => climb f minPrec (.binary op lhs rhs) r'
          | .error e => .error e
        else .ok (lhs, toks)
      | none => .ok (lhs, toks)
    | [] => .ok (lhs, [])
end

def parseFuel (toks : List Tok) : Nat := 2 * toks.length + 4

def parseExpr (toks : List Tok) : Except ExprErr Ast :=
  match parseBin (parseFuel toks) 0 toks with
  | .ok (e, []) => .ok e
  | .ok _ => .error .error
  | .error e => .error e

/-! ## evaluation -/

def applyUn : UnOp → Int → Int
  | .pos, v => v
  | .neg, v => -v
  | .inv, v => pyNot v

def applyBin (op : BinOp) (x y : Int) : Except ExprErr Int :=
  match op with
  | .add => .ok (x + y)
  | .sub => .ok (x - y)
  | .mul => .ok (x * y)
  | .floordiv => if y = 0 then .error .error else .ok (pyFloorDiv x y)
  | .mod => if y = 0 then .error .error else .ok (pyMod x y)
  | .truediv => .error .error          -- a float or ZeroDivisionError; never an int again
  | .shl => if y < 0 then .error .error
            else if y > 4096 then .error (.unsupported "shift count > 4096")
            else .ok (pyShl x y.toNat)
  | .shr => if y < 0 then .error .error
            else .ok (x >>> y.toNat)     -- = pyShr x y.toNat (C11.eval_shr), without building 2^y
  | .band => .ok (pyAnd x y)
  | .bxor => .ok (pyXor x y)
  | .bor => .ok (pyOr x y)

def evalAst (env : String → Option Int) : Ast → Except ExprErr Int
  | .lit n => .ok (Int.ofNat n)
  | .name s =>
    match env s with
    | some v => .ok v
    | none => .error .error
  | .unary op a =>
    match evalAst env a with
    | .ok v => .ok (applyUn op v)
    | .error e => .error e
  | .binary op a b =>
    match evalAst env a with
    | .ok x =>
      match evalAst env b with
      | .ok y => applyBin op x y
      | .error e => .error e
    | .error e => .error e

/-- `eval(expr, {'__builtins__': None}, env)` on the modelled subset, folded with the
    `except` clauses and the `type(result) != int` test of `Arithmetic.eval` -/
def evalPy (l : List Char) (env : String → Option Int) : Except ExprErr Int :=
  match tokenize l with
  | .ok toks =>
    match parseExpr toks with
    | .ok ast => evalAst env ast
    | .error e => .error e
  | .error e => .error e

/-- longest expression the model answers for: keeps clear of CPython's limits on nesting depth
    (200 parentheses), parser/compiler recursion and the 4300-digit literal limit -/
def maxExprLen : Nat := 400

/-- `Arithmetic(expr).eval(position, env, line)` (asm.py, class Arithmetic) -/
def evalArithL (expr : List Char) (env : String → Option Int) : Except ExprErr Int :=
  if ¬ expr.all isAsciiC then .error (.unsupported "non-ascii")
  else if expr.head? = some '\'' ∧ expr.getLast? = some '\'' then
    -- c = expr[1:-1]; c.encode('utf-8').decode('unicode_escape'); ord(c)
    match unicodeEscape (expr.drop 1).dropLast with
    | .ok [ch] => .ok (Int.ofNat ch.toNat)
    | .ok _ => .error .error
    | .error (.internal _) => .error .error      -- UnicodeDecodeError → AssemblerError (fix 0f…: caught with TypeError)
    | .error e => .error e
  else if expr.length > maxExprLen then .error (.unsupported "long expression")
  else evalPy expr env

def evalArith (expr : String) (env : String → Option Int) : Except ExprErr Int :=
  evalArithL expr.toList env

end BB
