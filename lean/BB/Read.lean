/-
  BB.Read — read_lines (asm.py:2056-2135, with fix F11) over a filesystem model, and assemble()
  from source text / a path (asm.py:3352-3394).

  Filesystem model: absolute, normalised POSIX paths (no "//", "/./", "/../", no trailing "/")
  mapped to file contents; directories are listed separately.  os.path.exists / join / dirname /
  abspath / getsize and open().read() are modelled on such paths only; anything else is
  `Err.unsupported`.  Text files must be ASCII (the model of the lexer is ASCII-only).
-/
import BB.Lex
import BB.Parse
import BB.Passes
namespace BB

structure FS where
  files : List (String × List Nat)     -- absolute path ↦ bytes
  dirs : List String                   -- absolute paths of directories
  deriving Repr, Inhabited

def FS.readBytes (fs : FS) (p : String) : Option (List Nat) := fs.files.lookup p
def FS.isDir (fs : FS) (p : String) : Bool := fs.dirs.contains p
def FS.exists (fs : FS) (p : String) : Bool := (fs.files.lookup p).isSome || fs.isDir p

/-- an absolute path in normal form -/
def normAbs (p : String) : Bool :=
  let cs := p.toList
  match cs with
  | '/' :: _ =>
    let comps := (p.splitOn "/").drop 1
    (p = "/") || comps.all (fun c => c ≠ "" ∧ c ≠ "." ∧ c ≠ "..")
  | _ => false

/-- a relative path without empty / dot components -/
def normRel (p : String) : Bool :=
  p ≠ "" && !(p.toList.head? = some '/') && (p.splitOn "/").all (fun c => c ≠ "" ∧ c ≠ "." ∧ c ≠ "..")

/-- `os.path.join(dir, path)` for a normalised absolute `dir` -/
def pathJoin (dir path : String) : String :=
  if path.toList.head? = some '/' then path
  else if dir = "/" then "/" ++ path else dir ++ "/" ++ path

/-- `os.path.dirname` of a normalised absolute path -/
def pathDirname (p : String) : String :=
  let comps := (p.splitOn "/").drop 1
  match comps.dropLast with
  | [] => "/"
  | cs => "/" ++ "/".intercalate cs

/-- `str.splitlines()` on ASCII text: \n, \r\n, \r, \v, \f, \x1c, \x1d, \x1e -/
def isLineBreak (c : Char) : Bool :=
  c = '\n' || c = '\r' || c = '\x0b' || c = '\x0c' || c = '\x1c' || c = '\x1d' || c = '\x1e'

def splitLinesAux : List Char → List Char → List (List Char)
  | [], cur => if cur.isEmpty then [] else [cur.reverse]
  | '\r' :: '\n' :: rest, cur => cur.reverse :: splitLinesAux rest []
  | c :: rest, cur =>
    if isLineBreak c then cur.reverse :: splitLinesAux rest [] else splitLinesAux rest (c :: cur)

def splitLines (s : List Char) : List (List Char) := splitLinesAux s []

/-- `s.split()` : maximal runs of non-whitespace -/
def splitWs (l : List Char) : List (List Char) :=
  (chunks (l.map (fun c => if c = ',' then '\x01' else c))).map (fun w => w.map (fun c => if c = '\x01' then ',' else c))

def lowerL (l : List Char) : List Char := l.map Char.toLower

def stripQuotes (l : List Char) : List Char :=
  let q := fun c => c = '"' || c = '\''
  ((l.dropWhile q).reverse.dropWhile q).reverse

/-- `lookup(path, dirs)` -/
def lookupPath (fs : FS) (rel : String) : List String → Option String
  | [] => none
  | d :: ds => if fs.exists (pathJoin d rel) then some (pathJoin d rel) else lookupPath fs rel ds

def bytesToAscii (bs : List Nat) : Option (List Char) :=
  if bs.all (· < 128) then some (bs.map Char.ofNat) else none

/-- read_lines on an already-read source; `fuel` bounds the include depth -/
def readLinesAux (fs : FS) (includeDirs : List String) : Nat → String → String → List Char →
    Except Err (List Line)
  | 0, _, _, _ => .error (.unsupported "include depth")
  | fuel + 1, path, basePath, source =>
    let currentDirs := includeDirs ++ [basePath]
    let rec go (n : Nat) : List (List Char) → Except Err (List Line)
      | [] => .ok []
      | raw :: rest =>
        if (stripWs raw).isEmpty then go (n + 1) rest
        else
          let line : Line := { file := path, number := n, contents := String.ofList raw }
          let low := lowerL raw
          if ("include ".toList).isPrefixOf low then
            -- strip any comments from the include line, isolate the path, strip quotes
            match splitWs (stripComment raw) with
            | [_, rel] =>
              let rel := String.ofList (stripQuotes rel)
              if !(normRel rel || normAbs rel) then .error (.unsupported "include path form") else
              match lookupPath fs rel currentDirs with
              | none => .error (.asm line)
              | some incPath =>
                if fs.isDir incPath then .error (.internal "IsADirectoryError") else
                match fs.readBytes incPath with
                | none => .error (.internal "FileNotFoundError")
                | some bs =>
                  match bytesToAscii bs with
                  | none => .error (.unsupported "non-ASCII source")
                  | some src => do
                    let inc ← readLinesAux fs includeDirs fuel incPath (pathDirname incPath) src
                    let more ← go (n + 1) rest
                    pure (inc ++ more)
            | _ => .error (.asm line)
          else if ("include_bytes ".toList).isPrefixOf low then
            match splitWs raw with
            | [kw, rel] =>
              let rel := String.ofList rel
              if !(normRel rel || normAbs rel) then .error (.unsupported "include path form") else
              match lookupPath fs rel currentDirs with
              | none => .error (.asm line)
              | some incPath =>
                match fs.readBytes incPath with
                | none => .error (.unsupported "include_bytes of a directory")
                | some bs => do
                  let line' : Line := { line with
                    contents := String.ofList kw ++ " " ++ incPath ++ " " ++ toString bs.length }
                  let more ← go (n + 1) rest
                  pure (line' :: more)
            | _ => .error (.asm line)
          else do
            let more ← go (n + 1) rest
            pure (line :: more)
    go 1 (splitLines source)

/-- what `assemble()` is given: source text, or the path of a file -/
inductive Input where
  | source (text : String)
  | path (p : String)
  deriving Repr

/-- `lex_tokens(line)`: an escape unicode_escape rejects in an `error` / `string` line is an
    AssemblerError on that line (fix b49f1cd) -/
def lexLine (l : Line) : Except Err (List String) :=
  match lexTokens l.contents.toList with
  | .ok t => .ok t
  | .error e => if e = .internal "UnicodeDecodeError" then .error (.asm l) else .error e

/-- read + lex + parse (asm.py:3365-3372) -/
def frontEnd (fs : FS) (cwd : String) (includeDirs : List String) (input : Input) : Except Err (List Item) := do
  if !normAbs cwd then throw (.unsupported "cwd form")
  if !includeDirs.all normAbs then throw (.unsupported "include dir form")
  let fuel := fs.files.length + 2
  let lines ← match input with
    | .source text =>
      if !text.toList.all (fun c => c.toNat < 128) then throw (.unsupported "non-ASCII source")
      readLinesAux fs includeDirs fuel "<string>" cwd text.toList
    | .path p =>
      if !normAbs p then throw (.unsupported "path form")
      match fs.readBytes p with
      | none => throw (.unsupported "main file missing")
      | some bs =>
        match bytesToAscii bs with
        | none => throw (.unsupported "non-ASCII source")
        | some src => readLinesAux fs includeDirs fuel p (pathDirname p) src
  let lines := lines.filter (fun l => l.contents.length > 0)
  -- tokens = [lex_tokens(l) for l in lines]; tokens = [t for t in tokens if len(t) > 0]
  let rec lexAll : List Line → Except Err (List (Line × List String))
    | [] => .ok []
    | l :: rest => do
      let toks ← lexLine l
      let more ← lexAll rest
      pure (if toks.isEmpty then more else (l, toks) :: more)
  -- items = [parse_item(t) for t in tokens]
  let rec parseAll : List (Line × List String) → Except Err (List Item)
    | [] => .ok []
    | (l, toks) :: rest => do
      let it ← parseItem l toks
      let more ← parseAll rest
      pure (it :: more)
  let toks ← lexAll lines
  parseAll toks

def textHooks (fs : FS) : Hooks :=
  { arith := evalArith, parseImm := parseImmediate, readFile := fun p => fs.readBytes p }

/-- `assemble(path_or_source, compress=…, include_dirs=…)` with fresh label / constant tables -/
def assembleText (fs : FS) (cwd : String) (includeDirs : List String) (compress : Bool) (input : Input) :
    Except Err AsmResult := do
  let items ← frontEnd fs cwd includeDirs input
  assembleItems (textHooks fs) compress items [] []

end BB
